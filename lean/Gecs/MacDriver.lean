/-
Line-protocol driver for the macro model (M-mac): one `case …` line in, one line out, the
same format as harness/mac prints for the real macro crate.  Import-free apart from the model.
-/
import Gecs.Model.Macro

namespace Gecs.MacDriver
open Gecs.Mac

def words (s : String) : List String := (s.splitOn " ").filter (· ≠ "")
def joinWith (sep : String) (l : List String) : String := sep.intercalate l
def splitNE (sep : String) (s : String) : List String := (s.splitOn sep).filter (· ≠ "")

def parseId (s : String) : Option Nat := if s == "-" then none else s.toNat?

def parseComp (s : String) : PComp :=
  match s.splitOn "/" with
  | [cfgs, id, name] => ⟨splitNE "+" cfgs, parseId id, name⟩
  | _ => ⟨[], none, "?"⟩

def parseArch (s : String) : PArch :=
  match s.splitOn ":" with
  | [cfgs, id, name, comps] => ⟨splitNE "+" cfgs, parseId id, name, (splitNE "," comps).map parseComp⟩
  | [cfgs, id, name] => ⟨splitNE "+" cfgs, parseId id, name, []⟩
  | _ => ⟨[], none, "?", []⟩

inductive PTy where
  | ok (t : PType)
  | reserved

def parseParam (s : String) : List String × Bool × PTy :=
  match s.splitOn ":" with
  | [cfgs, m, ty] =>
    let t := ty.splitOn "."
    let pty : PTy :=
      match t with
      | ["C", n] => .ok (.comp n)
      | ["E", "_"] => .ok .entWild
      | ["E", a] => .ok (.ent a)
      | ["EA"] => .ok .entAny
      | ["D", "_"] => .ok .dirWild
      | ["D", a] => .ok (.dir a)
      | ["DA"] => .ok .dirAny
      | "O" :: cs => .ok (.oneOf cs)
      | _ => .reserved
    (splitNE "+" cfgs, m == "1", pty)
  | _ => ([], false, .reserved)

def rhoOf (s : String) : String → Bool :=
  let kvs := (splitNE "," s).map (fun kv => match kv.splitOn "=" with | [k, v] => (k, v == "1") | _ => ("", false))
  fun p => ((kvs.find? (·.1 == p)).map (·.2)).getD false

def illegalName (n : String) : Bool := ["Entity", "EntityAny", "OneOf", "AnyOf", "Option"].contains n

def fmtWorld (w : DWorld) : String :=
  w.name ++ ":" ++ joinWith ";" (w.archs.map (fun a =>
    s!"{a.name}={a.id}[{joinWith "," (a.comps.map (fun c => s!"{c.name}={c.id}"))}]"))

def fmtType (a : DArch) : PType → String
  | .comp n => n
  | .ent x => s!"Entity<{x}>"
  | .entWild => s!"Entity<{a.name}>"
  | .entAny => "EntityAny"
  | .dir x => s!"EntityDirect<{x}>"
  | .dirWild => s!"EntityDirect<{a.name}>"
  | .dirAny => "EntityDirectAny"
  | .oneOf _ => "OneOf"

def fmtMatched (m : List (DArch × List QParam)) : String :=
  joinWith "," (m.map (fun (a, bs) =>
    let ps := (List.range bs.length).zip bs |>.map (fun (i, b) =>
      joinWith "" (b.cfgs.map (fun c => s!"#[cfg({c})]")) ++ s!"p{i}:&" ++ (if b.isMut then "mut" else "") ++ fmtType a b.ty)
    s!"{a.name}[{joinWith ";" ps}]"))

def fmtIdErr : IdErr → String
  | .exceeds _ => "exceeds"
  | .duplicate n _ prev => s!"duplicate:{n}:{prev}"

def fmtBindErr : BindErr → String
  | .ambiguous a c1 c2 => s!"ambiguous:{a}:{c1}:{c2}"
  | .cfgOnOneOf => "cfgOnOneOf"
  | .noMatch => "noMatch"
  | .missingCfg => "missingCfg"

def isEntityTy : PType → Bool
  | .ent _ | .entWild | .entAny | .dir _ | .dirWild | .dirAny => true
  | _ => false

def caseLine (line : String) : Option String :=
  match words line with
  | "case" :: id :: "world" :: name :: archsS :: "rho" :: rhoS :: rest =>
    let pw : PWorld := ⟨name, (splitNE "|" archsS).map parseArch⟩
    let ρ := rhoOf rhoS
    -- checks made by the parser (parse/world.rs, parse/attribute.rs), before DataWorld::new
    let idTooBig := pw.archs.any (fun a => (a.id.getD 0) > 255 || a.comps.any (fun c => (c.id.getD 0) > 255))
    let badName := pw.archs.any (fun a => a.comps.any (fun c => illegalName c.name))
    if pw.archs.isEmpty then some s!"case {id} wpreds= world=err:parse:no-archetype"
    else if idTooBig then some s!"case {id} wpreds= world=err:parse:id-range"
    else if badName then some s!"case {id} wpreds= world=err:parse:illegal-name"
    else
      let preds := collectWorld pw
      let head := s!"case {id} wpreds={joinWith "," preds} "
      match expandWorld pw ρ with
      | .error (.id e) => some (head ++ "world=err:" ++ fmtIdErr e)
      | .error .missingCfg => some (head ++ "world=err:missingCfg")
      | .ok dw =>
        let wpart := head ++ "world=ok:" ++ fmtWorld dw
        match rest with
        | "query" :: _kind :: paramsS :: _ =>
          let raw := (splitNE "|" paramsS).map parseParam
          -- parser checks (parse/query.rs): reserved keywords, `&mut` on entity parameters
          let firstErr : Option String := raw.foldl (fun acc (_, m, t) =>
            match acc with
            | some e => some e
            | none =>
              match t with
              | .reserved => some "parse:reserved"
              | .ok ty => if m && isEntityTy ty then some "parse:mut-entity" else none) none
          match firstErr with
          | some e => some (wpart ++ s!" qpreds= query=err {e}")
          | none =>
            let ps : List QParam := raw.filterMap (fun (c, m, t) => match t with | .ok ty => some ⟨c, m, ty, true⟩ | .reserved => none)
            let qp := collectQuery ps
            match expandQuery dw ps ρ with
            | .ok m => some (wpart ++ s!" qpreds={joinWith "," qp} query=ok {fmtMatched m}")
            | .error e => some (wpart ++ s!" qpreds={joinWith "," qp} query=err {fmtBindErr e}")
        | ["query", _kind] =>
          match expandQuery dw [] ρ with
          | .ok m => some (wpart ++ s!" qpreds= query=ok {fmtMatched m}")
          | .error e => some (wpart ++ s!" qpreds= query=err {fmtBindErr e}")
        | _ => some wpart
  | _ => none

end Gecs.MacDriver
