/-
C07 — `ecs_iter_destroy!` visits each entity once and destroys exactly the flagged ones.
Model: `destroyLoop` / `iterDestroyQuery` in Gecs/Model/Query.lean — the
`for idx in (0..len).rev()` loop emitted by `generate_query_iter_destroy`
(macros/src/generate/query.rs): `len` read before the loop, the archetype version re-read
and the slices re-fetched at every step (repaired order, defect F2), `slices.entity[idx]`
destroyed through `archetype.destroy(entity)` = `destroyEnt`, i.e. swap-remove.
Tie: the `iterd` lines of harness/rt (decision lists incl. all patterns the property names;
direct handles received by the closure are probed right after the loop).
The general statement is proved: a generation-overflow panic ends the loop like a break.
-/
import Gecs.Lemmas.Loops

-- OBLIGATIONS: Gecs.Loops.destroyLoop_spec Gecs.C07_visits_reverse_dense_order Gecs.C07_visited_at_most_once
-- OBLIGATIONS: Gecs.C07_direct_handle_designates_visited Gecs.C07_stop_is_immediate_and_global
-- OBLIGATIONS: Gecs.C07_never_ub_invariant_kept Gecs.Loops.destroyLoop_stale_version_witness
-- OBLIGATIONS: Gecs.Loops.destroyLoop_spec_wrapping Gecs.Loops.destroyLoop_recR_sim Gecs.Loops.destroyLoop_args_of_trace

namespace Gecs
open Gecs.Loops
variable {α σ : Type}

/-
`Gecs.Loops.destroyLoop_spec` is the headline: for every closure and every `Inv` storage the
loop ends `.done` / `.stop` / `.panic` (never `.ub`) in a state satisfying `Inv`; the
entities visited are `D₀.reverse.take (number of calls)` (D₀ = dense array at loop start:
each entity alive at loop start at most once, exactly once when the loop runs to the end);
`(survivors ++ removed) ~ D₀` with `removed` = exactly the entities whose call answered
`ContinueDestroy`/`BreakDestroy` (in call order); survivors keep their handle and every
cell not written through `&mut` (`DRel`); the not yet visited prefix is untouched (`DInv`);
the loop stops immediately at `Break`/`BreakDestroy`.  The theorems below are its readable
corollaries.
-/

/-- The entity arguments are the handles of `D₀` in reverse dense order, up to the stop. -/
theorem C07_visits_reverse_dense_order {cfg : Cfg} {s : Storage α} (h : Inv cfg s) (idA : Nat)
    {ps : List Param} (hps : ColsExist s ps) (f : Closure σ α Step4) (st : σ)
    {i : Nat} {p : Param} (hi : ps[i]? = some p) (hp : p = .ent ∨ p = .entAny) :
    ∃ log, (destroyLoop cfg idA ps (recR f) (List.range s.len).reverse (st, []) s).log? = some log
      ∧ log.map (fun c => c.args[i]?)
        = (s.ents.reverse.take log.length).map (fun e => some (Arg.ent (mkKey e.slot idA e.ver))) :=
  destroyLoop_entity_args h idA hps f st hi hp

theorem C07_visited_at_most_once {cfg : Cfg} {s : Storage α} (h : Inv cfg s) (k : Nat) :
    (s.ents.reverse.take k).Nodup :=
  visited_nodup h k

/-- Any direct handle the loop hands to the closure is accepted in the storage the closure
runs in and designates the entity being visited. -/
theorem C07_direct_handle_designates_visited {cfg : Cfg} {s : Storage α} (h : Inv cfg s) (idA : Nat)
    {ps : List Param} (hps : ColsExist s ps) (f : Closure σ α Step4) (st : σ) :
    ∀ x ∈ destroyTrace cfg idA ps f (List.range s.len).reverse st s,
      Inv cfg x.2 ∧ ∃ visited : Ent, s.ents[x.1]? = some visited ∧ x.2.ents[x.1]? = some visited
        ∧ resolveDirect cfg x.2 x.1 x.2.version = .ok (some (visited.slot, x.1)) x.2 :=
  minted_direct_designates h idA hps f st

/-- `Break` / `BreakDestroy` (or a panic) ends the whole query, across archetypes. -/
theorem C07_stop_is_immediate_and_global (cfg : Cfg) (f : Closure σ α Step4) (q : Query) (st : σ)
    (w : World α) (log : List (Call α Step4))
    (hlog : (iterDestroyQuery cfg (recR f) q (st, []) w).log? = some log)
    (k : Nat) (c : Call α Step4) (hk : log[k]? = some c)
    (hc : c.res = some .brk ∨ c.res = some .brkDestroy ∨ c.res = none) :
    log.length = k + 1 :=
  iterDestroyQuery_stop cfg f q st w log hlog k c hk hc

theorem C07_never_ub_invariant_kept {cfg : Cfg} (f : Closure σ α Step4)
    (q : Query) (st : σ) (L : List (Call α Step4)) (w : World α) (hw : WInv cfg w) (hq : QueryOk w q) :
    (∃ t' w', iterDestroyQuery cfg (recR f) q (st, L) w = .ok t' w' ∧ WInv cfg w')
    ∨ (∃ m t' w', iterDestroyQuery cfg (recR f) q (st, L) w = .panic m t' w' ∧ WInv cfg w'
        ∧ (m = "closure" ∨ m = "slot version overflow" ∨ m = "arch version overflow")) :=
  iterDestroyQuery_cases f q st L w hw hq

end Gecs
