/-
The guard chains of `StorageN::resolve_entity` / `resolve_direct`, TRANSLATED statement by
statement from the current source (Gecs/Gen/Steps.lean), decide the properties about handles:
the consequences of Lemmas/GenResolve.lean in the words of C01 / C03 / C09, and the
fully statement-level `destroy` (extracted lookup followed by the extracted `force_destroy`).
-/
import Gecs.Lemmas.GenResolve
import Gecs.Lemmas.GenStepsApi

-- OBLIGATIONS(C01): Gecs.gen_steps_resolve_entity Gecs.GenResolve_C01_accepts_iff_alive Gecs.GenResolve_destroy_all_statements
-- OBLIGATIONS(C03): Gecs.gen_steps_resolve_entity Gecs.gen_steps_resolve_direct Gecs.GenResolve_C03_never_ub
-- OBLIGATIONS(C09): Gecs.gen_steps_resolve_direct Gecs.GenResolve_C09_direct_accepts_iff_current Gecs.GenResolve_destroy_all_statements
-- OBLIGATIONS(C08): Gecs.gen_steps_resolve_entity
-- OBLIGATIONS(C14): Gecs.gen_steps_resolve_entity Gecs.gen_steps_resolve_direct

namespace Gecs

variable {α : Type}

/-- C01 for the extracted guard chain: in every invariant state, for ANY handle words, the
statements of `resolve_entity` accept iff the handle is in the dense array (its entity is
alive), and then return its slot. -/
theorem GenResolve_C01_accepts_iff_alive (cfg : Cfg) (s : Storage α) (h : Inv cfg s) (e : Ent) :
    (∃ d, execResolveEntity cfg Gen.resolveEntitySteps s e = .ok (some (e.slot, d)) s) ↔ e ∈ s.ents := by
  rw [gen_steps_resolve_entity cfg s e h.lenCap]; exact resolve_iff_mem cfg s h e

/-- C09 for the extracted guard chain: a direct handle is accepted iff it carries the CURRENT
archetype version and a dense index below `len`. -/
theorem GenResolve_C09_direct_accepts_iff_current (cfg : Cfg) (s : Storage α) (d v : Nat) (h : Inv cfg s) :
    (∃ si, execResolveDirect cfg Gen.resolveDirectSteps s d v = .ok (some (si, d)) s)
      ↔ (v = s.version ∧ d < s.len) := by
  rw [gen_steps_resolve_direct cfg s d v h.lenCap]; exact resolveDirect_iff cfg s d v h

/-- C03 for the extracted guard chains: whatever the handle words, no unchecked access of the
two lookups is reached outside its contract. -/
theorem GenResolve_C03_never_ub (cfg : Cfg) (s : Storage α) (h : Inv cfg s) (e : Ent) (d v : Nat) :
    (∀ m, execResolveEntity cfg Gen.resolveEntitySteps s e ≠ .ub m)
    ∧ (∀ m, execResolveDirect cfg Gen.resolveDirectSteps s d v ≠ .ub m) := by
  rw [gen_steps_resolve_entity cfg s e h.lenCap, gen_steps_resolve_direct cfg s d v h.lenCap]
  exact ⟨resolveEntity_not_ub cfg s e h, resolveDirect_not_ub cfg s d v h⟩

/-- `destroy(Entity<A>)` with NOTHING hand-written below the API level: the extracted lookup,
then the extracted `force_destroy`. -/
def destroyEntSS (cfg : Cfg) (s : Storage α) (e : Ent) : Out (Storage α) (Option (List α)) :=
  match execResolveEntity cfg Gen.resolveEntitySteps s e with
  | .ok (some (si, d)) _ =>
    (match execDestroy cfg Gen.slotBodies Gen.forceDestroySteps s si d with
    | .ok r s' => .ok (some r) s'
    | .panic m s' => .panic m s'
    | .ub m => .ub m)
  | .ok none _ => .ok none s
  | .panic m s' => .panic m s'
  | .ub m => .ub m

/-- `destroy(EntityDirect<A>)`, likewise. -/
def destroyDirectSS (cfg : Cfg) (s : Storage α) (d v : Nat) : Out (Storage α) (Option (List α)) :=
  match execResolveDirect cfg Gen.resolveDirectSteps s d v with
  | .ok (some (si, d')) _ =>
    (match execDestroy cfg Gen.slotBodies Gen.forceDestroySteps s si d' with
    | .ok r s' => .ok (some r) s'
    | .panic m s' => .panic m s'
    | .ub m => .ub m)
  | .ok none _ => .ok none s
  | .panic m s' => .panic m s'
  | .ub m => .ub m

/-- Both are the model's `destroyEnt` / `destroyDirect` in every invariant state. -/
theorem GenResolve_destroy_all_statements (cfg : Cfg) (s : Storage α) (h : Inv cfg s) (e : Ent) (d v : Nat) :
    Out.same (destroyEntSS cfg s e) (destroyEnt cfg s e)
    ∧ Out.same (destroyDirectSS cfg s d v) (destroyDirect cfg s d v) := by
  constructor
  · have := gen_steps_destroy_ent cfg s e h
    unfold destroyEntSS; unfold destroyEntS at this
    rw [gen_steps_resolve_entity cfg s e h.lenCap]; exact this
  · have := gen_steps_destroy_direct cfg s d v h
    unfold destroyDirectSS; unfold destroyDirectS at this
    rw [gen_steps_resolve_direct cfg s d v h.lenCap]; exact this

/-- Non-vacuity: on a populated storage the extracted chain accepts the live handle and
rejects the same slot with another generation, a forged out-of-range slot and a stale direct
handle (release profile). -/
example :
    execResolveEntity f1Cfg Gen.resolveEntitySteps f1State ⟨0, 1⟩ = .ok (some (0, 0)) f1State
    ∧ execResolveEntity f1Cfg Gen.resolveEntitySteps f1State ⟨0, 2⟩ = .ok none f1State
    ∧ execResolveEntity f1Cfg Gen.resolveEntitySteps f1State ⟨9, 1⟩ = .ok none f1State
    ∧ execResolveDirect f1Cfg Gen.resolveDirectSteps f1State 0 7 = .ok (some (0, 0)) f1State
    ∧ execResolveDirect f1Cfg Gen.resolveDirectSteps f1State 0 6 = .ok none f1State := by
  refine ⟨?_, ?_, ?_, ?_, ?_⟩ <;> rfl

end Gecs
