/-
The accessor surface of `StorageN` TRANSLATED (Gen/Steps.lean: `accessors`): obligation lists for
Lemmas/GenAccess.lean (C02: views and slices show the entity's own row / the `len`-prefix of the
accessor's own column; C06: slice accessors present exactly `len` items; C11: which accessors go
through the column's `RefCell`, shared or mutable).
-/
import Gecs.Lemmas.GenAccess

-- OBLIGATIONS(C02): Gecs.gen_accessors_shapes Gecs.gen_access_view Gecs.gen_access_slices
-- OBLIGATIONS(C06): Gecs.gen_access_slices
-- OBLIGATIONS(C11): Gecs.gen_accessors_shapes
-- OBLIGATIONS(C01): Gecs.gen_accessors_shapes

namespace Gecs
#check @gen_access_view
end Gecs
