/-
C02 — Every access path returns the entity's own, latest component values.
Model: Gecs/Model/Storage.lean (N parallel columns, any N), read through `readRow` /
`rowAt` at the resolved dense index by every path (view, borrow, find, slices, iterators,
the value returned by destroy); tied to the real code by the `probe` / `write` / `rows` /
query lines of harness/rt over archetypes of 1, 2, 3, 5, 16 (32) columns with zero-sized,
align-1/8/16 and heap-owning component types.
Specification: the association list `view s` (entity ↦ row) updated by `applyLbl`, i.e. an
abstract map: create inserts, destroy erases, a write updates the row of the designated
entity, clone maps.  History = labelled path (see Props/C17).
Modelled, not verified: that `DataPtr::{write, slice, swap_remove, grow}` implement
append / index / swap-remove / copy on real memory for every `T`.
World-history forms of these theorems (for every finite history of the world API): Props/Histories.lean.
-/
import Gecs.Lemmas.Values

-- OBLIGATIONS: Gecs.C02_refinement Gecs.C02_read_after_history Gecs.C02_create Gecs.C02_destroy_returns_own
-- OBLIGATIONS: Gecs.C02_write_seen_by_all Gecs.C02_read_paths Gecs.lookup_applyLbl_created
-- OBLIGATIONS: Gecs.lookup_applyLbl_destroyed Gecs.lookup_applyLbl_write Gecs.lookup_applyLbl_clone
-- OBLIGATIONS: Gecs.comp_cell_eq_valueOf Gecs.resolveDirect_reads_valueOf

namespace Gecs
variable {α : Type}

/-- Refinement: after any history the storage's (entity ↦ row) view is the abstract map
obtained by applying the history's labels — for every number of columns. -/
theorem C02_refinement {cfg : Cfg} {s s' : Storage α} {L : List (Lbl α)} (h : Inv cfg s)
    (hr : RowsOk s.cols.length L) (r : LReach cfg s L s') (e : Ent) :
    valueOf s' e = (L.foldl applyLbl (view s)).lookup e :=
  lreach_values h hr r e

/-- … and so does every read: resolve a handle in the final state, read the row at the
resolved index. -/
theorem C02_read_after_history {cfg : Cfg} {s s' s₁ : Storage α} {L : List (Lbl α)} (h : Inv cfg s)
    (hr : RowsOk s.cols.length L) (r : LReach cfg s L s') {e : Ent} {si d : Nat}
    (hres : resolveEntity cfg s' e = .ok (some (si, d)) s₁) :
    readRow s' d = (L.foldl applyLbl (view s)).lookup e :=
  lreach_read h hr r hres

/-- Frame rule, creation: the new entity has the values passed to create; nobody else's change. -/
theorem C02_create {cfg : Cfg} {s s' : Storage α} {e : Ent} {row : List α} (h : Inv cfg s)
    (hr : row.length = s.cols.length) (st : LStep cfg s (.created e row) s') :
    valueOf s' e = some row ∧ valueOf s e = none
      ∧ (∀ x, x ≠ e → valueOf s' x = valueOf s x)
      ∧ (∀ x ∈ s.ents, valueOf s' x = valueOf s x)
      ∧ s'.cols.length = s.cols.length :=
  created_values h hr st

/-- Frame rule, removal: destroy returns the entity's own row; every other entity keeps its
values although the last entity is relocated (all columns move in lock-step). -/
theorem C02_destroy_returns_own {cfg : Cfg} {s s' : Storage α} {t : Ent} {row : List α} (h : Inv cfg s)
    (st : LStep cfg s (.destroyed t row) s') :
    valueOf s t = some row ∧ valueOf s' t = none
      ∧ (∀ x, x ≠ t → valueOf s' x = valueOf s x)
      ∧ row.length = s.cols.length ∧ s'.cols.length = s.cols.length :=
  destroyed_values h st

/-- A write made through one path is seen by all the others (they all read `valueOf`),
and changes nobody else. -/
theorem C02_write_seen_by_all {cfg : Cfg} {s s' : Storage α} {d c : Nat} {x : α} (h : Inv cfg s)
    (st : LStep cfg s (.write d c x) s') :
    s'.ents = s.ents
      ∧ (∀ t, s.ents[d]? = some t → valueOf s' t = (valueOf s t).map (·.set c x))
      ∧ (∀ y, s.ents[d]? ≠ some y → valueOf s' y = valueOf s y)
      ∧ s'.cols.length = s.cols.length :=
  write_values h st

/-- All read paths agree: the row read at the resolved index is the entity's value. -/
theorem C02_read_paths {cfg : Cfg} {s : Storage α} (h : Inv cfg s) {d : Nat} {e : Ent}
    (hd : s.ents[d]? = some e) : readRow s d = valueOf s e :=
  readRow_eq_valueOf h hd

end Gecs
