/-
C15 — Archetype and component ids follow the discriminant rule and are unique.
Model: Gecs/Model/Macro.lean (`DWorld.new`, `advanceId`), tied to macros/src/data.rs by
harness/mac.  Statements for ALL declarations: any number of archetypes/components, any
subset of explicit ids in any order, cfg-disabled items consume no id.
-/
import Gecs.Lemmas.MacIds
import Gecs.Lemmas.MacCfgWorld

-- OBLIGATIONS: Gecs.Mac.C15_rule Gecs.Mac.C15_unique Gecs.Mac.C15_u8 Gecs.Mac.C15_ok_iff
-- OBLIGATIONS: Gecs.Mac.C15_duplicate_error Gecs.Mac.C15_exceeds_error Gecs.Mac.C15_disabled_consume_no_id
-- OBLIGATIONS: Gecs.Mac.ids_rule_comps Gecs.Mac.duplicateAt_iff Gecs.Mac.exceedsAt_iff

namespace Gecs.Mac

/-- The ids of the enabled archetypes are the enum discriminants of their explicit ids
(explicit value, otherwise previous + 1, otherwise 0), names and order are kept, and each
archetype's components are numbered by the same rule (restarting at every archetype). -/
theorem C15_rule {w : PWorld} {l : CfgLookup} {d : DWorld} (h : DWorld.new w l = .ok d) :
    d.archs.map (·.id) = discriminants ((enabledArchs l w.archs).map (·.id)) none ∧
    d.archs.map (·.name) = (enabledArchs l w.archs).map (·.name) ∧
    d.name = w.name ∧
    d.archs.map (fun a => (.ok a.comps : Except NewErr (List DComp))) =
      (enabledArchs l w.archs).map (fun a => buildComps l a.comps [] none) :=
  ids_rule h

/-- Ids are pairwise distinct within their scope. -/
theorem C15_unique {w : PWorld} {l : CfgLookup} {d : DWorld} (h : DWorld.new w l = .ok d) :
    (d.archs.map (·.id)).Nodup ∧ ∀ a ∈ d.archs, (a.comps.map (·.id)).Nodup :=
  ids_nodup h

/-- Ids fit a `u8` (explicit ids are parsed as `u8`, hence the hypotheses). -/
theorem C15_u8 {w : PWorld} {l : CfgLookup} {d : DWorld}
    (harch : ∀ a ∈ w.archs, ∀ n, a.id = some n → n ≤ 255)
    (hcomp : ∀ a ∈ w.archs, ∀ c ∈ a.comps, ∀ n, c.id = some n → n ≤ 255)
    (h : DWorld.new w l = .ok d) :
    ∀ a ∈ d.archs, a.id ≤ 255 ∧ ∀ c ∈ a.comps, c.id ≤ 255 :=
  ids_le_255 harch hcomp h

/-- A declaration is accepted iff no enabled item would duplicate an id or count past 255. -/
theorem C15_ok_iff (w : PWorld) (l : CfgLookup) :
    (∃ d, DWorld.new w l = .ok d) ↔
      (∀ a ∈ w.archs, evaluateCfgs l a.cfgs ≠ none) ∧
      (∀ a ∈ enabledArchs l w.archs, ∀ c ∈ a.comps, evaluateCfgs l c.cfgs ≠ none) ∧
      noOverflow ((enabledArchs l w.archs).map (·.id)) none = true ∧
      (discriminants ((enabledArchs l w.archs).map (·.id)) none).Nodup ∧
      ∀ a ∈ enabledArchs l w.archs,
        noOverflow ((enabledComps l a.comps).map (·.id)) none = true ∧
        (discriminants ((enabledComps l a.comps).map (·.id)) none).Nodup :=
  ids_ok_iff w l

/-- A duplicate is reported on the LATER item and names the earlier holder. -/
theorem C15_duplicate_error {w : PWorld} {l : CfgLookup} {n : Nat} {later earlier : String}
    (h : DWorld.new w l = .error (.id (.duplicate n later earlier))) :
    DuplicateAt (archItems (enabledArchs l w.archs)) n later earlier ∨
    ∃ a ∈ enabledArchs l w.archs,
      DuplicateAt (compItems (enabledComps l a.comps)) n later earlier :=
  ids_error_duplicate h

theorem C15_exceeds_error {w : PWorld} {l : CfgLookup} {item : String}
    (h : DWorld.new w l = .error (.id (.exceeds item))) :
    ExceedsAt (archItems (enabledArchs l w.archs)) item ∨
    ∃ a ∈ enabledArchs l w.archs, ExceedsAt (compItems (enabledComps l a.comps)) item :=
  ids_error_exceeds h

/-- cfg-disabled items must not consume an id: the result under an assignment `ρ` is the
result for the declaration with the disabled items deleted. -/
theorem C15_disabled_consume_no_id (w : PWorld) (ρ : String → Bool) :
    expandWorld w ρ = expandWorld (eraseWorld ρ w) (fun _ => true) :=
  world_erasure w ρ

-- non-vacuity: descending explicit ids, collision with an implicit successor, 255 + 1
example : discriminants [some 5, none, some 2, none] none = [5, 6, 2, 3] := by decide
example : noOverflow [some 255, none] none = false := by decide
example : (discriminants [none, some 0] none).Nodup = False := by decide

end Gecs.Mac
