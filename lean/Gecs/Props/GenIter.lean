/-
`Archetype::iter` / `iter_mut` TRANSLATED: constructor literal fields (storage.rs), the
statements of both `next` bodies and the method names of both `impl Iterator` blocks (iter.rs).
Obligation lists for Lemmas/GenIter.lean (C06: every live entity exactly once, `len` items;
C02: each item carries the entity's own handle and component values).  Non-vacuity: the
populated example storage of Lemmas/GenSteps.lean.
-/
import Gecs.Lemmas.GenIter

-- OBLIGATIONS(C06): Gecs.gen_iter_visits_each_once Gecs.gen_iter_next_shape Gecs.gen_iter_ctor
-- OBLIGATIONS(C02): Gecs.gen_iter_visits_each_once Gecs.gen_iter_next_shape

namespace Gecs

example : drain Gen.iterNextSteps f1State 5 ⟨1, 0, 0⟩ = some [(⟨0, 1⟩, [42])] := by decide

end Gecs
