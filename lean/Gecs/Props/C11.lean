/-
C11 — Runtime-borrowed access panics instead of aliasing, and never refuses wrongly.
Model: Gecs/Model/Borrow.lean (RefCell counters, guard trees with unwinding, compilation of
the API accesses to guard trees), tied to the real `borrow_slice(_mut)`,
`Borrow::component(_mut)`, `ecs_find_borrow!`, `ecs_iter_borrow!` and `clone` by the `nest`
operation of harness/rt.  For ALL access trees of any depth and width.
Trusted: that `std::cell::RefCell` is this reader/writer counter.
-/
import Gecs.Lemmas.Borrow

-- OBLIGATIONS: Gecs.Borrow.C11_no_alias Gecs.Borrow.C11_panics_iff_conflict Gecs.Borrow.C11_released
-- OBLIGATIONS: Gecs.Borrow.C11_clone Gecs.Borrow.C11_other_cell_ok Gecs.Borrow.C11_shared_shared_ok
-- OBLIGATIONS: Gecs.Borrow.C11_conflict_panics Gecs.Borrow.exec_released Gecs.Borrow.exec_panics_iff
-- OBLIGATIONS: Gecs.Borrow.later_access_not_refused Gecs.Borrow.ib_empty_acquires_nothing
-- OBLIGATIONS: Gecs.Borrow.bs_empty_archetype_still_borrows Gecs.Borrow.fb_two_guards_conflict

namespace Gecs.Borrow

/-- No aliasing grant: in every state reached during the execution of any access program no
cell has a writer together with readers (and the writer flag is a single flag). -/
theorem C11_no_alias (nodes : List Node) :
    ∀ s ∈ statesList [] [] (compileList nodes), ∀ c,
      ¬ ((s.get c).writer = true ∧ (s.get c).readers > 0) :=
  run_no_alias nodes

/-- The program panics iff some access is incompatible with a guard still held at that
point (same column of the same archetype, one of the two mutable). -/
theorem C11_panics_iff_conflict (nodes : List Node) :
    (run nodes).panic.isSome = true ↔ okList [] (compileList nodes) = false :=
  run_panics_iff nodes

/-- Every borrow ends when its guard or closure call ends, also by unwinding: after the
program, on both outcomes, every cell is unborrowed — a later access is never refused. -/
theorem C11_released (nodes : List Node) : (run nodes).cells.idle = true :=
  run_idle nodes

/-- `clone` panics iff a column is mutably borrowed, with `BorrowError`. -/
theorem C11_clone {cs : Cells} {held : Held} (tr : List String) (archCols : List (List CellId))
    (ha : Abs cs held) (he : exclusive held = true) :
    ((execList cs tr (compile (.cl archCols))).panic.isSome = true ↔
        held.any (fun g => g.2 && archCols.flatten.contains g.1) = true) ∧
    (∀ k, (execList cs tr (compile (.cl archCols))).panic = some k → k = .borrowError) :=
  clone_panics_iff_writer tr archCols ha he

/-- An access to a column on which nothing is held (a different column, or a different
archetype) is always granted. -/
theorem C11_other_cell_ok {cs : Cells} {held : Held} (tr : List String) (c : CellId) (m : Bool)
    (body : List Acc) (ha : Abs cs held) (he : exclusive held = true) (hfree : ∀ g ∈ held, g.1 ≠ c) :
    (tryBorrow cs c m).isSome = true ∧
    (execOne cs tr (.guard c m body)).panic = panicList ((c, m) :: held) body :=
  guard_other_cell_ok tr c m body ha he hfree

/-- Shared with shared on the same column is always granted. -/
theorem C11_shared_shared_ok {cs : Cells} {held : Held} (tr : List String) (c : CellId)
    (body : List Acc) (ha : Abs cs held) (he : exclusive held = true)
    (hshared : ∀ g ∈ held, g.1 = c → g.2 = false) :
    (tryBorrow cs c false).isSome = true ∧
    (execOne cs tr (.guard c false body)).panic = panicList ((c, false) :: held) body :=
  shared_shared_ok tr c body ha he hshared

/-- A would-be alias is refused, with the documented panic kind, and nothing changes. -/
theorem C11_conflict_panics {cs : Cells} {held : Held} (tr : List String) (c : CellId) (m : Bool)
    (body : List Acc) (ha : Abs cs held) (g : CellId × Bool) (hg : g ∈ held) (hgc : g.1 = c)
    (hm : (m || g.2) = true) :
    tryBorrow cs c m = none ∧
    execOne cs tr (.guard c m body) = ⟨cs, tr, some (if m then .borrowMutError else .borrowError)⟩ :=
  mut_conflicts tr c m body ha g hg hgc hm

end Gecs.Borrow
