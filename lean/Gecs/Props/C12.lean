/-
C12 — `len` and `capacity` are exact; creation respects the capacity and the 2^24 limit.
Model: Gecs/Model/Storage.lean (`withCapacity`, `push` = `Archetype::create`, `pushWithin` =
`create_within_capacity`, `grow`, `forceCreate`, `forceDestroy`), Gecs/Model/History.lean
(`run`, `GrowOk`), tied to src/archetype/storage.rs by the `create` / `createw` / `destroy` /
`len` / `cap` lines of harness/rt.  ALL statements are for a SYMBOLIC `cfg.maxCap` (the real
constant is `MAX_DATA_CAPACITY = 2^24`, see Gen/Consts) and an arbitrary admissible growth
function (`GrowOk`; the code's own formula is one: `C12_code_growth_admissible`).
`pushWithinN` (Lemmas/StorageOps.lean) is `pushWithin` folded over a list of rows.
The history-level statements carry the well-scopedness hypothesis of `run_inv`
(`OpsScoped`: archetype / column numbers exist — guaranteed statically in Rust).
Not modelled: allocation failure; the byte-size (`Layout`) overflow check inside
`DataPtr::grow` (unreachable below 2^24 entries for component types of realistic size).
-/
import Gecs.Lemmas.CheckSound
import Gecs.Lemmas.HistoryLemmas
import Gecs.Lemmas.QueryOps
import Gecs.Lemmas.GenTie

-- OBLIGATIONS: Gecs.C12_len_is_live_count Gecs.C12_len_le_capacity_le_max Gecs.C12_capacity_monotone
-- OBLIGATIONS: Gecs.C12_with_capacity Gecs.C12_within_capacity_iff Gecs.C12_create_succeeds_below_limit
-- OBLIGATIONS: Gecs.C12_create_at_limit_panics_cleanly Gecs.C12_refill_after_any_history
-- OBLIGATIONS: Gecs.C12_code_growth_admissible Gecs.C12_len_step_exact
-- OBLIGATIONS: Gecs.gen_max_capacity Gecs.gen_growth_strict Gecs.gen_slot_encoding_sound
-- OBLIGATIONS: Gecs.invCheck_iff

namespace Gecs
variable {α : Type}

/-- `len()` is exactly the number of live entities, each listed once; `is_empty()` is exact. -/
theorem C12_len_is_live_count {cfg : Cfg} {s : Storage α} (h : Inv cfg s) :
    s.len = s.ents.length ∧ s.ents.Nodup ∧ (s.len = 0 ↔ s.ents = []) :=
  ⟨(len_eq_ents h).1, (len_eq_ents h).2, is_empty_iff h⟩

/-- `len ≤ capacity ≤ MAX_DATA_CAPACITY`, and the slot table has exactly `capacity` cells. -/
theorem C12_len_le_capacity_le_max {cfg : Cfg} {s : Storage α} (h : Inv cfg s) :
    s.len ≤ s.capacity ∧ s.capacity ≤ cfg.maxCap ∧ s.slots.length = s.capacity :=
  ⟨h.lenCap, h.capMax, h.slotsLen⟩

/-- One atomic step changes `len` by exactly 0 (writes, clear, clone), `+1` (a successful
create, the new handle appended) or `-1` (a successful removal). -/
theorem C12_len_step_exact {cfg : Cfg} {s s' : Storage α} (h : Inv cfg s) (hs : SStep cfg s s') :
    (s'.len = s.len ∧ s'.ents = s.ents)
    ∨ (∃ e, s'.len = s.len + 1 ∧ s'.ents = s.ents ++ [e] ∧ e ∉ s.ents)
    ∨ (∃ t, s'.len + 1 = s.len ∧ t ∈ s.ents ∧ ∀ x, x ∈ s'.ents ↔ (x ∈ s.ents ∧ x ≠ t)) :=
  sstep_len h hs

/-- Along every history (panicking operations included) no archetype's capacity ever
shrinks: for every archetype index `a`, the final capacity is at least the initial one. -/
theorem C12_capacity_monotone {cfg : Cfg} {w w' : World α} {ops : List (Op α)} (hw : WInv cfg w)
    (hc : CfgOk cfg) (ho : OpsOk cfg ops) (hs : OpsScoped w.sch ops)
    (hr : run cfg w ops = some w') (a : Nat) (s s' : Storage α)
    (g1 : w.archs[a]? = some s) (g2 : w'.archs[a]? = some s') :
    s.capacity ≤ s'.capacity ∧ s'.len ≤ s'.capacity ∧ s'.capacity ≤ cfg.maxCap := by
  obtain ⟨w'', h1, h2, _⟩ := run_inv hw hc ho hs
  rw [hr] at h1; cases h1
  have hi := h2.get g2
  exact ⟨run_capacity_mono hw hc ho hs hr a s s' g1 g2, hi.lenCap, hi.capMax⟩

/-- `with_capacity(cap)` succeeds iff `cap ≤ MAX_DATA_CAPACITY` (it panics otherwise); the
result has capacity exactly `cap`, `len` 0, and then `cap` successive
`create_within_capacity` calls succeed (each returns a handle) without changing the
capacity. -/
theorem C12_with_capacity (cfg : Cfg) (ncols cap : Nat) (hv : CfgOk cfg) :
    ((∃ s : Storage α, withCapacity cfg ncols cap = .ok () s) ↔ cap ≤ cfg.maxCap)
    ∧ (cap > cfg.maxCap →
        ∃ s : Storage α, withCapacity cfg ncols cap = .panic "capacity may not exceed" s)
    ∧ (∀ s : Storage α, withCapacity cfg ncols cap = .ok () s →
        Inv cfg s ∧ s.capacity = cap ∧ s.len = 0 ∧ s.cols.length = ncols
        ∧ ∀ rows : List (List α), rows.length ≤ cap →
            ∃ es s', pushWithinN cfg s rows = .ok (es.map some) s' ∧ es.length = rows.length
              ∧ Inv cfg s' ∧ s'.len = rows.length ∧ s'.capacity = cap ∧ s'.ents = es) := by
  refine ⟨⟨?_, ?_⟩, withCapacity_panics cfg ncols cap, ?_⟩
  · rintro ⟨s, hs⟩
    by_cases hc : cap ≤ cfg.maxCap
    · exact hc
    · obtain ⟨s', hp⟩ := withCapacity_panics (α := α) cfg ncols cap (by omega)
      rw [hp] at hs; cases hs
  · intro hc
    obtain ⟨s, h1, _⟩ := withCapacity_inv (α := α) cfg ncols cap hc hv
    exact ⟨s, h1⟩
  · intro s hs
    have hc : cap ≤ cfg.maxCap := by
      by_cases hc : cap ≤ cfg.maxCap
      · exact hc
      · obtain ⟨s', hp⟩ := withCapacity_panics (α := α) cfg ncols cap (by omega)
        rw [hp] at hs; cases hs
    obtain ⟨s0, h1, h2, h3, h4, h5, _⟩ := withCapacity_inv (α := α) cfg ncols cap hc hv
    rw [h1] at hs; cases hs
    refine ⟨h2, h4, h3, h5, ?_⟩
    intro rows hk
    obtain ⟨es, s', g1, g2, g3, g4, g5, g6, _⟩ :=
      refill cfg s rows h2 (by rw [h4, h3]; exact hk)
    have hents : s.ents = [] := (is_empty_iff h2).mp h3
    exact ⟨es, s', g1, g2, g3, by rw [g4, h3]; omega, by rw [g5, h4], by rw [g6, hents]; rfl⟩

/-- `create_within_capacity` succeeds iff `len < capacity`.  On success the capacity is
unchanged, `len` grows by one and the new handle is appended; otherwise the state is returned
unchanged with `none` (= `Err(data)`: the argument is handed back). -/
theorem C12_within_capacity_iff {cfg : Cfg} {s : Storage α} (h : Inv cfg s) (row : List α) :
    ((∃ e s', pushWithin cfg s row = .ok (some e) s') ↔ s.len < s.capacity)
    ∧ (s.len < s.capacity →
        ∃ e s', pushWithin cfg s row = .ok (some e) s' ∧ Inv cfg s' ∧ s'.capacity = s.capacity
          ∧ s'.len = s.len + 1 ∧ s'.ents = s.ents ++ [e] ∧ e ∉ s.ents)
    ∧ (¬ s.len < s.capacity → pushWithin cfg s row = .ok none s) := by
  have hfull : ¬ s.len < s.capacity → pushWithin cfg s row = .ok none s :=
    fun hn => pushWithin_full row (by omega)
  refine ⟨⟨?_, ?_⟩, ?_, hfull⟩
  · rintro ⟨e, s', he⟩
    by_cases hlt : s.len < s.capacity
    · exact hlt
    · rw [hfull hlt] at he; cases he
  · intro hlt
    obtain ⟨e, s', h1, _⟩ := pushWithin_ok cfg s row h hlt
    exact ⟨e, s', h1⟩
  · intro hlt
    obtain ⟨e, s', h1, h2, h3, h4, h5, h6, _⟩ := pushWithin_ok cfg s row h hlt
    exact ⟨e, s', h1, h2, h4, h3, h5, h6⟩

/-- `create` (with any admissible growth) succeeds whenever `len < MAX_DATA_CAPACITY`: it
grows when full, never shrinks, and the new handle is appended. -/
theorem C12_create_succeeds_below_limit {cfg : Cfg} {s : Storage α} (h : Inv cfg s)
    (hv : CfgOk cfg) (g : Nat → Nat) (hg : GrowOk cfg g) (row : List α)
    (hlt : s.len < cfg.maxCap) :
    ∃ e s', push cfg g s row = .ok e s' ∧ Inv cfg s' ∧ s'.len = s.len + 1
      ∧ s.capacity ≤ s'.capacity ∧ s'.ents = s.ents ++ [e] ∧ e ∉ s.ents
      ∧ (s.len < s.capacity → s'.capacity = s.capacity)
      ∧ (¬ s.len < s.capacity → s'.capacity = g s.capacity) := by
  obtain ⟨e, s', h1, h2, h3, h4, h5, h6, _, h8, h9, _⟩ :=
    push_ok cfg g s row h hv (fun hh => hg _ hh) hlt
  exact ⟨e, s', h1, h2, h3, h4, h5, h6, h8, h9⟩

/-- At `len = MAX_DATA_CAPACITY` `create` panics with "capacity overflow" and the storage is
unchanged; conversely this is the only way `create` panics. -/
theorem C12_create_at_limit_panics_cleanly {cfg : Cfg} {s : Storage α} (h : Inv cfg s)
    (hv : CfgOk cfg) (g : Nat → Nat) (hg : GrowOk cfg g) (row : List α) :
    (s.len = cfg.maxCap → push cfg g s row = .panic "capacity overflow" s)
    ∧ (∀ msg s', push cfg g s row = .panic msg s' →
        s.len = cfg.maxCap ∧ msg = "capacity overflow" ∧ s' = s) := by
  refine ⟨fun hfull => (push_overflow cfg g s row h hfull).2, ?_⟩
  intro msg s' hp
  by_cases hlt : s.len < cfg.maxCap
  · obtain ⟨e, s1, h1, _⟩ := push_ok cfg g s row h hv (fun hh => hg _ hh) hlt
    rw [h1] at hp; cases hp
  · have hfull : s.len = cfg.maxCap := by have := h.lenCap; have := h.capMax; omega
    rw [(push_overflow cfg g s row h hfull).2] at hp
    cases hp; exact ⟨hfull, rfl, rfl⟩

/-- After ANY history (creates, removals by any key, queries with arbitrary closures, panics,
clones …), every archetype storage `s'` of the final world allows exactly
`s'.capacity - s'.len` further successful `create_within_capacity` calls — every position
freed by a destroy is reusable, without growing — and then the next one is refused. -/
theorem C12_refill_after_any_history {cfg : Cfg} {w : World α} {ops : List (Op α)}
    (hw : WInv cfg w) (hc : CfgOk cfg) (ho : OpsOk cfg ops) (hs : OpsScoped w.sch ops) :
    ∃ w', run cfg w ops = some w'
      ∧ ∀ (a : Nat) (s' : Storage α), w'.archs[a]? = some s' →
          ∀ rows : List (List α), rows.length = s'.capacity - s'.len →
            ∃ es s'', pushWithinN cfg s' rows = .ok (es.map some) s''
              ∧ es.length = rows.length ∧ Inv cfg s'' ∧ s''.capacity = s'.capacity
              ∧ s''.len = s'.capacity ∧ s''.ents = s'.ents ++ es
              ∧ ∀ row, pushWithin cfg s'' row = .ok none s'' := by
  obtain ⟨w', h1, h2, _⟩ := run_inv hw hc ho hs
  refine ⟨w', h1, ?_⟩
  intro a s' ha rows hk
  have hi := h2.get ha
  obtain ⟨es, s'', g1, g2, g3, g4, g5, g6, _⟩ := refill cfg s' rows hi (Nat.le_of_eq hk)
  have hlen : s''.len = s'.capacity := by have := hi.lenCap; omega
  exact ⟨es, s'', g1, g2, g3, g5, hlen, g6,
    fun row => pushWithin_full row (by rw [hlen, g5]; exact Nat.le_refl _)⟩

/-- The code's own growth formula `min((cap + 1) * 2, MAX_DATA_CAPACITY)` is admissible. -/
theorem C12_code_growth_admissible (cfg : Cfg) : GrowOk cfg (codeGrowth cfg) :=
  fun c hc => codeGrowth_ok cfg c hc

/-! Non-vacuity: the hypotheses are satisfiable by concrete non-trivial instances. -/
namespace StorageEx
open WorldEx

-- a storage with a hole (capacity 3, len 2): `Inv` holds, one refill step, then refused
example : Inv cfgEx holeEx ∧ holeEx.len < holeEx.capacity := ⟨holeEx_inv, by decide⟩
example : ∃ e s', pushWithin cfgEx holeEx [13, 23] = .ok (some e) s' ∧ s'.len = 3 := by
  obtain ⟨e, s', h1, _, _, h4, _⟩ :=
    (C12_within_capacity_iff holeEx_inv [13, 23]).2.1 (by decide)
  exact ⟨e, s', h1, h4⟩
-- a full storage: refused, unchanged
example : pushWithin cfgEx fullEx [12] = .ok none fullEx :=
  (C12_within_capacity_iff fullEx_inv [12]).2.2 (by decide)
-- a storage at the hard limit (`maxCap = 2`)
example : Inv cfgTiny fullEx ∧ fullEx.len = cfgTiny.maxCap := ⟨fullEx_inv_tiny, rfl⟩
example : push cfgTiny (codeGrowth cfgTiny) fullEx [12] = .panic "capacity overflow" fullEx :=
  (C12_create_at_limit_panics_cleanly fullEx_inv_tiny ⟨by decide⟩ _
    (C12_code_growth_admissible cfgTiny) [12]).1 rfl
-- below the limit (`fullEx`: len 2 = capacity 2 < maxCap 8): `create` grows and succeeds
example : ∃ e s', push cfgEx (codeGrowth cfgEx) fullEx [12] = .ok e s' ∧ s'.len = 3
    ∧ s'.capacity = codeGrowth cfgEx 2 := by
  obtain ⟨e, s', h1, _, h3, _, _, _, _, h8⟩ :=
    C12_create_succeeds_below_limit fullEx_inv cfgEx_ok _ (C12_code_growth_admissible cfgEx) [12]
      (by decide)
  exact ⟨e, s', h1, h3, h8 (by decide)⟩
-- the history `histEx` on `wEx` satisfies the hypotheses of the history-level statements
example : WInv cfgEx wEx ∧ OpsOk cfgEx histEx ∧ OpsScoped wEx.sch histEx :=
  ⟨wEx_winv cfgEx (by decide) cfgEx_ok, histEx_ok, histEx_scoped⟩
-- `with_capacity` on both sides of the limit
example : (∃ s : Storage Nat, withCapacity cfgEx 2 8 = .ok () s) :=
  (C12_with_capacity cfgEx 2 8 cfgEx_ok).1.mpr (by decide)
example : ¬ (∃ s : Storage Nat, withCapacity cfgEx 2 9 = .ok () s) :=
  fun h => absurd ((C12_with_capacity cfgEx 2 9 cfgEx_ok).1.mp h) (by decide)

end StorageEx
end Gecs

section
open Gecs
#print axioms C12_len_is_live_count
#print axioms C12_len_le_capacity_le_max
#print axioms C12_len_step_exact
#print axioms C12_capacity_monotone
#print axioms C12_with_capacity
#print axioms C12_within_capacity_iff
#print axioms C12_create_succeeds_below_limit
#print axioms C12_create_at_limit_panics_cleanly
#print axioms C12_refill_after_any_history
#print axioms C12_code_growth_admissible
end
