/-
C14 — Handle conversions are lossless, type-faithful and consistent with Eq/Hash.
Model: Gecs/Model/World.lean (`Key`, `mkKey`, `Key.archId`, `Key.index`, `tryFromAny`,
`fromAnyUnchecked`, `fromRaw`, `selectArch`) and Gecs/Model/Bits.lean (shift/or forms,
`hashInput`, `selectEntity`), tied to src/entity.rs and the generated Select* conversions by
the `conv`/`forge`/`create` lines of harness/rt.  For ALL 2^32 x 2^32 words and all 256 ids.
Modelled, not verified: the `&Entity<A> -> &EntityAny` reference transmutes.
-/
import Gecs.Lemmas.Bits
import Gecs.Lemmas.GenTie

-- OBLIGATIONS: Gecs.C14_pack_unpack Gecs.C14_raw_roundtrip Gecs.C14_typed_conversion Gecs.C14_select
-- OBLIGATIONS: Gecs.C14_eq_hash Gecs.C14_distinct_entities_unequal Gecs.C14_unchecked
-- OBLIGATIONS: Gecs.gen_id_bits Gecs.gen_id_range Gecs.gen_max_capacity Gecs.gen_version_max Gecs.gen_slot_encoding_sound
-- OBLIGATIONS: Gecs.packKey_eq_mkKey Gecs.keyIndex_eq Gecs.Key.index_lt Gecs.selectArch_spec Gecs.selectArchetypeId_spec

namespace Gecs

/-- `(index << 8) | id` packs and unpacks losslessly, stays a `u32`, position 2^24-1 and id
255 included; the model's arithmetic forms are the code's shift/or/truncate forms. -/
theorem C14_pack_unpack {index id : Nat} (hi : index < MAX_DATA_CAPACITY) (h : id < 256) :
    keyId (packKey index id) = id ∧ keyIndex (packKey index id) = index ∧ packKey index id < U32 ∧
    ∀ v, packKey index id = (mkKey index id v).key :=
  ⟨keyId_pack h, keyIndex_pack h, packKey_lt hi h, fun v => packKey_eq_mkKey v h⟩

/-- `from_raw(raw(h)) == h`, and `from_raw` rejects exactly a zero generation. -/
theorem C14_raw_roundtrip :
    (∀ k : Key, k.wf → fromRaw k.raw.1 k.raw.2 = some k) ∧
    (∀ key ver, fromRaw key ver = none ↔ ver = 0) ∧
    (∀ key ver k, fromRaw key ver = some k → k.raw = (key, ver)) :=
  ⟨fun _ h => fromRaw_raw h, fromRaw_none_iff, fun _ _ _ h => raw_fromRaw h⟩

/-- `into_any` followed by `try_from` / `from_any` returns the original handle exactly when
the archetype id matches, and fails (error / panic) otherwise. -/
theorem C14_typed_conversion (idA : Nat) (k k' : Key) :
    (tryFromAny idA (intoAny k) = some k' ↔ (k.archId = idA ∧ k' = k)) ∧
    (fromAny idA (intoAny k) = some k' ↔ (k.archId = idA ∧ k' = k)) ∧
    (tryFromAny idA (intoAny k) = none ↔ k.archId ≠ idA) :=
  ⟨tryFrom_iff idA k k', fromAny_iff idA k k', tryFrom_none_iff idA k⟩

/-- The generated `Select*` conversions pick the unique archetype with the handle's id and
keep the handle, or report `InvalidEntityType`. -/
theorem C14_select {ids : List Nat} (hn : ids.Nodup) (k : Key) :
    (∀ k' a, selectEntity ids k = some (a, k') ↔ (ids[a]? = some k.archId ∧ k' = k)) ∧
    (selectEntity ids k = none ↔ k.archId ∉ ids) ∧
    (∀ i, selectArchetypeId ids k = some i → i = k.archId) :=
  ⟨fun k' a => selectEntity_spec hn k k' a, selectEntity_none_iff ids k,
   fun _ h => selectArchetypeId_spec hn h⟩

/-- Equal handles hash equally; the hashed 64-bit value determines the handle. -/
theorem C14_eq_hash {k₁ k₂ : Key} (h₁ : k₁.wf) (h₂ : k₂.wf) :
    (k₁ = k₂ → hashInput k₁ = hashInput k₂) ∧ (hashInput k₁ = hashInput k₂ → k₁ = k₂) :=
  ⟨hashInput_congr, hashInput_inj h₁ h₂⟩

/-- Handles of distinct (archetype id, position, generation) compare unequal. -/
theorem C14_distinct_entities_unequal {i₁ id₁ v₁ i₂ id₂ v₂ : Nat} (h₁ : id₁ < 256) (h₂ : id₂ < 256)
    (h : mkKey i₁ id₁ v₁ = mkKey i₂ id₂ v₂) : i₁ = i₂ ∧ id₁ = id₂ ∧ v₁ = v₂ :=
  mkKey_inj h₁ h₂ h

/-- The unchecked conversion: unconditional without debug assertions, the checked one with. -/
theorem C14_unchecked {cfg : Cfg} (idA : Nat) (k : Key) :
    (cfg.debug = false → fromAnyUnchecked cfg idA k = some k) ∧
    (cfg.debug = true → (fromAnyUnchecked cfg idA k = some k ↔ k.archId = idA)) :=
  ⟨fromAnyUnchecked_release idA k, fromAnyUnchecked_debug idA k⟩

-- non-vacuity: the boundary words satisfy the hypotheses
example : (16777215 : Nat) < MAX_DATA_CAPACITY ∧ (255 : Nat) < 256 := by decide
example : Key.wf ⟨4294967295, 4294967295⟩ := by unfold Key.wf; decide

end Gecs
