/-
C13 — A cloned world is observationally identical and thereafter independent.
Model: `cloneStorage` copies what the code copies (all `capacity` slots, the `len`-prefix
of handles and columns, the scalar fields, the event vectors).  Identity is proved;
INDEPENDENCE is trivial in a functional model (values are not shared) and is therefore not
exhibited by the model: it rests on the tie (clone-and-diverge phases of harness/rt with
probes on both worlds, drop in both orders with the registry; thorough: under Miri).
World-history form: Props/Histories.lean (C13_all_histories).
-/
import Gecs.Lemmas.Values
import Gecs.Lemmas.Ownership

-- OBLIGATIONS: Gecs.C13_identical_fields Gecs.C13_identical_lookups Gecs.C13_equal_values
-- OBLIGATIONS: Gecs.C13_refill Gecs.C13_disjoint_values Gecs.cloneStorage_spec Gecs.cloneStorage_inv

namespace Gecs
variable {α : Type}

/-- Same len, capacity, version (hence the same direct handles), handles, free list and
pending events; every row is the clone of the source row. -/
theorem C13_identical_fields {cfg : Cfg} {s s' s₀ : Storage α} {cl : α → α} (h : Inv cfg s)
    (hc : cloneStorage cl s = .ok s' s₀) :
    s₀ = s ∧ s'.ents = s.ents ∧ s'.slots = s.slots ∧ s'.len = s.len
      ∧ s'.capacity = s.capacity ∧ s'.version = s.version ∧ s'.freeHead = s.freeHead
      ∧ s'.created = s.created ∧ s'.destroyed = s.destroyed
      ∧ (∀ d, rowAt s' d = (rowAt s d).map cl) :=
  clone_observations h hc

/-- Every lookup — by `Entity` words or by direct `(index, version)` words, for ANY words —
answers on the clone exactly as on the original, and resolves to the cloned values. -/
theorem C13_identical_lookups {cfg : Cfg} {s s' s₀ : Storage α} {cl : α → α} (h : Inv cfg s)
    (hc : cloneStorage cl s = .ok s' s₀) :
    Inv cfg s'
      ∧ (∀ e, resolveEntity cfg s' e = (resolveEntity cfg s e).withState s')
      ∧ (∀ d v, resolveDirect cfg s' d v = (resolveDirect cfg s d v).withState s')
      ∧ (∀ e, valueOf s' e = (valueOf s e).map (·.map cl))
      ∧ (∀ d, readRow s' d = (readRow s d).map (·.map cl)) :=
  clone_lookups h hc

/-- For any observation that `Clone` preserves (`obs (clone x) = obs x`: "equal component
values"), both worlds show the same values. -/
theorem C13_equal_values {β : Type} {cfg : Cfg} {s s' s₀ : Storage α} {cl : α → α} (h : Inv cfg s)
    (hc : cloneStorage cl s = .ok s' s₀) (obs : α → β) (hobs : ∀ x, obs (cl x) = obs x) (e : Ent) :
    (valueOf s' e).map (·.map obs) = (valueOf s e).map (·.map obs) :=
  clone_values_obs obs hobs h hc e

/-- The clone can be refilled to capacity without growing. -/
theorem C13_refill {cfg : Cfg} {s s' s₀ : Storage α} {cl : α → α} (h : Inv cfg s)
    (hc : cloneStorage cl s = .ok s' s₀) (rws : List (List α))
    (hk : rws.length ≤ s.capacity - s.len) :
    ∃ es s'', pushWithinN cfg s' rws = .ok (es.map some) s'' ∧ es.length = rws.length
      ∧ Inv cfg s'' ∧ s''.len = s.len + rws.length ∧ s''.capacity = s.capacity
      ∧ s''.ents = s.ents ++ es ∧ s''.version = s.version :=
  clone_refill h hc rws hk

/-- The two worlds own disjoint values when `Clone` produces fresh ones. -/
theorem C13_disjoint_values {cfg : Cfg} {s s' s₀ : Storage α} {cl : α → α} (h : Inv cfg s)
    (hc : cloneStorage cl s = .ok s' s₀) (hfresh : ∀ x ∈ owned s, ∀ y ∈ owned s, cl x ≠ y) :
    ∀ z ∈ owned s', z ∉ owned s₀ := by
  obtain ⟨h1, h2⟩ := cloneStorage_owned h hc
  intro z hz hz0
  rw [h1] at hz
  rw [h2] at hz0
  obtain ⟨x, hx, rfl⟩ := List.mem_map.mp hz
  exact hfresh x hx _ hz0 rfl

end Gecs
