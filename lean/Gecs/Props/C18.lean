/-
C18 — Generated code is unsafe-free and unsound client programs do not compile.
This is the property least suited to the technique: two thirds of it is about rustc.
 (a) unsafe-freedom of the expansions: decided universally over the template-token table
     GENERATED from macros/src/generate/*.rs on every run (every token that occurs inside a
     `quote!`/`quote_spanned!`); tie: harness/rt and tools/rustc_probes.py compile the real
     expansions under `#![forbid(unsafe_code)]`.
 (c) auto traits: decided on the model of the structural rule (Gecs/Model/Env.lean) over the
     field table GENERATED from the struct definitions and the two `unsafe impl`s; tie:
     rustc probes of tools/rustc_probes.py.
 (b) borrow envelope: decided over the API signature table GENERATED from src/traits.rs with
     ONE modelled rule of the borrow checker, for the full product holders x structural
     operations; tie: tools/rustc_probes.py compiles one minimal program per pair, each with a
     sound twin that must compile.
 Cannot be done here: a proof that rustc's borrow checker rejects EVERY unsound client
 program would need a formal semantics of Rust's type system.
-/
import Gecs.Gen.Tokens
import Gecs.Gen.FieldsAst
import Gecs.Gen.Sigs
import Gecs.Gen.Fields
import Gecs.Model.Env

-- OBLIGATIONS: Gecs.Env.C18_templates_clean Gecs.Env.C18_unsafe_impls_are_the_modelled_ones
-- OBLIGATIONS: Gecs.Env.C18_storage_never_sync Gecs.Env.C18_storage_send_iff_components_send
-- OBLIGATIONS: Gecs.Env.C18_handles_send_sync_regardless Gecs.Env.C18_envelope Gecs.Env.C18_twins_ok
-- OBLIGATIONS: Gecs.Env.C18_structural_ops_exclusive Gecs.Env.C18_holders_borrow
-- OBLIGATIONS: Gecs.Env.C18_reference_conversions_tied

namespace Gecs.Env

/-- What `#![forbid(unsafe_code)]` rejects, plus the ways to smuggle unsafety in. -/
def forbiddenTokens : List String :=
  ["unsafe", "no_mangle", "export_name", "link_section", "link_name", "unsafe_code", "extern",
   "asm", "global_asm", "naked", "transmute", "static"]

/-- (a) No template the generators can emit contains a forbidden token. -/
theorem C18_templates_clean : ∀ t ∈ Gen.templateTokens, t ∉ forbiddenTokens := by
  decide +kernel

/-- The only manual `Send`/`Sync` impls are the two the leaf table of the model encodes. -/
theorem C18_unsafe_impls_are_the_modelled_ones :
    Gen.unsafeImpls =
      ["unsafe impl < T > Send for DataPtr < T > where T : Send",
       "unsafe impl < T > Sync for DataPtr < T > where T : Sync"] := by
  decide

/-- environments: are the components (`T~I`) / the archetype marker (`A`) Send / Sync? -/
def envOf (compSend compSync aSend aSync : Bool) : TEnv :=
  ⟨fun n => if n == "A" then aSend else compSend, fun n => if n == "A" then aSync else compSync⟩

def storageTy : Ty := .app "$name" [.param "A", .param "T~I"]

/-- (c) A storage — hence an archetype, hence a world, which is a struct of archetypes each
wrapping one storage — is never `Sync`, whatever the components are. -/
theorem C18_storage_never_sync :
    ∀ cs cy a b : Bool, isSync Gen.fieldTable (envOf cs cy a b) 8 storageTy = false := by
  decide +kernel

/-- … and is `Send` exactly when the component types are. -/
theorem C18_storage_send_iff_components_send :
    ∀ cs cy a b : Bool, isSend Gen.fieldTable (envOf cs cy a b) 8 storageTy = cs := by
  decide +kernel

/-- Handles are `Send + Sync` regardless of the archetype / component types
(`PhantomData<fn() -> A>`); `Copy` is by the manual `impl Copy` on plain words. -/
theorem C18_handles_send_sync_regardless :
    ∀ cs cy a b : Bool, ∀ h ∈ ["Entity", "EntityDirect", "EntityAny", "EntityDirectAny"],
      isSend Gen.fieldTable (envOf cs cy a b) 8 (.app h [.param "A"]) = true ∧
      isSync Gen.fieldTable (envOf cs cy a b) 8 (.app h [.param "A"]) = true := by
  decide +kernel

/-- (b) the holders: every API item whose result borrows the world … -/
def holders : List Sig := Gen.sigs.filter (·.resultBorrows)

/-- … and the structural operations. -/
def structuralOps : List Sig :=
  Gen.sigs.filter (fun s => ["World::create", "World::create_within_capacity", "World::destroy",
    "World::clear_events", "Archetype::create", "Archetype::create_within_capacity",
    "Archetype::destroy", "Archetype::clear_events"].contains s.item)

theorem C18_structural_ops_exclusive :
    structuralOps.length = 8 ∧ ∀ g ∈ structuralOps, g.recv = .exclusive := by
  decide

theorem C18_holders_borrow : holders.length ≥ 20 ∧ ∀ f ∈ holders, f.recv = .shared ∨ f.recv = .exclusive := by
  decide

/-- Envelope: holding the result of ANY borrowing API item across ANY structural operation
is rejected by the modelled rule. -/
theorem C18_envelope : ∀ f ∈ holders, ∀ g ∈ structuralOps, rejected f g = true := by
  decide

/-- … while the twin that releases the hold first has nothing to be rejected for, and
shared holds coexist with shared uses. -/
theorem C18_twins_ok :
    (∀ g ∈ structuralOps, ∀ f ∈ Gen.sigs, f.resultBorrows = false → rejected f g = false) ∧
    (∀ f ∈ holders, ∀ g ∈ Gen.sigs, f.recv = .shared → g.recv = .shared → rejected f g = false) := by
  decide

/-- (b') the reference-to-reference conversions (`From<&Entity<A>> for &EntityAny` and its three
siblings, all `unsafe { transmute }`): the table GENERATED from the impl headers of src/** says
for each whether the produced reference carries the consumed reference's lifetime.  All must:
an untied conversion lets safe code keep a handle reference across a structural change.
Tie: tools/rustc_probes.py compiles, per generated row, a program stretching the result to `'static`
(must be rejected) and its twin (must compile). -/
theorem C18_reference_conversions_tied : ∀ r ∈ Gen.refImpls, r.2 = true := by
  decide

example : Gen.refImpls.length ≥ 1 := by decide

end Gecs.Env
