/-
C04 — stated for EVERY FINITE HISTORY of whole-world operations, WRITES INCLUDED (and, in the
last theorem, clones included): everything that ever entered an archetype — its initial
values, the rows of creations, the values written through `&mut` access — is at the end exactly
once either still owned (and then dropped exactly once by the world drop), or handed back by a
removal, or displaced by a write.  Helper lemmas: Lemmas/OwnershipFull.lean; induction over
operations with labels: Lemmas/WorldLift.lean.  Only property theorems, their non-vacuity
instances and `#print axioms` live here.
-/
import Gecs.Lemmas.OwnershipFull

-- OBLIGATIONS(C04): Gecs.C04_all_histories_with_writes Gecs.C04_all_histories_all_ops Gecs.C04_fresh_with_writes
-- OBLIGATIONS(C04): Gecs.conservation_with_writes Gecs.conservation_all_labels Gecs.nodup_with_writes Gecs.write_step_owned Gecs.OpsEmit.noClone

namespace Gecs
variable {α σ : Type}

/-- C04 for all histories without `cloneSwitch` — overwriting operations (`write`, query loops
binding columns `&mut`) included: in every archetype, with `overwritten` the values displaced by
the writes (one per write label, each the old value of the written cell),
* everything that was in the storage, was moved in by a creation or was written is either still
  owned, or was handed back by exactly one removal, or was displaced by exactly one write;
* dropping the archetype drops exactly the rest;
* with pairwise distinct values nothing is owned, handed back or displaced twice, nor handed
  back or displaced while still owned (in particular while a value of a live entity). -/
theorem C04_all_histories_with_writes {cfg : Cfg} {w : World α} {ops : List (Op α)}
    (hw : WInv cfg w) (hc : CfgOk cfg) (ho : OpsOk cfg ops) (hs : OpsScoped w.sch ops)
    (hnc : ∀ op ∈ ops, op.NoClone) :
    ∃ w', run cfg w ops = some w' ∧ WInv cfg w'
      ∧ ∀ (a : Nat) (s s' : Storage α), w.archs[a]? = some s → w'.archs[a]? = some s' →
        ∃ L, LReach cfg s L s' ∧ OpsEmit a ops L ∧ RowsOk s.cols.length L
          ∧ (∀ l ∈ L, l.isClone = false)
          ∧ ∃ overwritten : List α, overwritten = overwrittenFrom (view s) L
            ∧ overwritten.length = (L.filter Lbl.isWrite).length
            ∧ (owned s' ++ destroyedRows L ++ overwritten).Perm
                (owned s ++ createdRows L ++ writtenVals L)
            ∧ (∃ dropped, dropStorage s' = .ok dropped ()
                ∧ (dropped ++ destroyedRows L ++ overwritten).Perm
                    (owned s ++ createdRows L ++ writtenVals L))
            ∧ ((owned s ++ createdRows L ++ writtenVals L).Nodup →
                (owned s').Nodup ∧ (destroyedRows L).Nodup ∧ overwritten.Nodup
                ∧ (∀ x ∈ destroyedRows L, x ∉ owned s')
                ∧ (∀ x ∈ overwritten, x ∉ owned s')
                ∧ (∀ x ∈ overwritten, x ∉ destroyedRows L)
                ∧ (∀ e row, valueOf s' e = some row → ∀ x ∈ row,
                    x ∉ destroyedRows L ∧ x ∉ overwritten)) := by
  obtain ⟨w', h1, h2, _, h3⟩ := run_labelled_emits hw hc ho hs
  refine ⟨w', h1, h2, ?_⟩
  intro a s s' g g'
  obtain ⟨L, r, he⟩ := h3 a s s' g g'
  have hi := hw.get g
  have hr : RowsOk s.cols.length L := he.rowsOk hs (World.sch_of_get g)
  have hl := he.noClone hnc
  have hp := conservation_with_writes_explicit hr hl r
  exact ⟨L, r, he, hr, hl, _, rfl, overwrittenFrom_length _ _, hp,
    ⟨owned s', drop_returns_owned (lockstep hi r), hp⟩,
    fun hnd => nodup_with_writes hr hl r hnd⟩

/-- C04 for ALL histories (`cloneSwitch` included).  A `cloneSwitch` replaces every storage by
its clone; the source storages (`srcs`, one per clone label, each satisfying `Inv`) keep their
own values — dropped exactly once when the source world is dropped
(`dropStorage t = .ok (owned t) ()`) — and the clone owns `Clone` of each of them
(`clonedVals`).  With these two lists the balance closes for every history. -/
theorem C04_all_histories_all_ops {cfg : Cfg} {w : World α} {ops : List (Op α)}
    (hw : WInv cfg w) (hc : CfgOk cfg) (ho : OpsOk cfg ops) (hs : OpsScoped w.sch ops) :
    ∃ w', run cfg w ops = some w' ∧ WInv cfg w'
      ∧ ∀ (a : Nat) (s s' : Storage α), w.archs[a]? = some s → w'.archs[a]? = some s' →
        ∃ L, LReach cfg s L s' ∧ OpsEmit a ops L ∧ RowsOk s.cols.length L
          ∧ ∃ (overwritten : List α) (srcs : List (Storage α)),
              overwritten = overwrittenFrom (view s) L
            ∧ overwritten.length = (L.filter Lbl.isWrite).length
            ∧ srcs.length = (cloneFns L).length
            ∧ (∀ t ∈ srcs, Inv cfg t ∧ dropStorage t = .ok (owned t) ())
            ∧ (owned s' ++ destroyedRows L ++ overwritten ++ srcs.flatMap owned).Perm
                (owned s ++ createdRows L ++ writtenVals L ++ clonedVals (cloneFns L) srcs)
            ∧ (∃ dropped, dropStorage s' = .ok dropped ()
                ∧ (dropped ++ destroyedRows L ++ overwritten ++ srcs.flatMap owned).Perm
                    (owned s ++ createdRows L ++ writtenVals L
                      ++ clonedVals (cloneFns L) srcs)) := by
  obtain ⟨w', h1, h2, _, h3⟩ := run_labelled_emits hw hc ho hs
  refine ⟨w', h1, h2, ?_⟩
  intro a s s' g g'
  obtain ⟨L, r, he⟩ := h3 a s s' g g'
  have hi := hw.get g
  have hr : RowsOk s.cols.length L := he.rowsOk hs (World.sch_of_get g)
  obtain ⟨srcs, hlen, hinv, hp⟩ := conservation_all_labels hr r
  exact ⟨L, r, he, hr, _, srcs, rfl, overwrittenFrom_length _ _, hlen,
    fun t ht => ⟨hinv t ht, drop_returns_owned (hinv t ht)⟩, hp,
    ⟨owned s', drop_returns_owned (lockstep hi r), hp⟩⟩

/-- From a world that starts empty (as after `World::with_capacity`): everything created or
written is, at the end, exactly once still owned, handed back or displaced. -/
theorem C04_fresh_with_writes {cfg : Cfg} {w : World α} {ops : List (Op α)}
    (hw : WInv cfg w) (hc : CfgOk cfg) (ho : OpsOk cfg ops) (hs : OpsScoped w.sch ops)
    (hnc : ∀ op ∈ ops, op.NoClone) (hf : ∀ s ∈ w.archs, s.len = 0) :
    ∃ w', run cfg w ops = some w' ∧ WInv cfg w'
      ∧ ∀ (a : Nat) (s s' : Storage α), w.archs[a]? = some s → w'.archs[a]? = some s' →
        ∃ L, LReach cfg s L s' ∧ OpsEmit a ops L
          ∧ (owned s' ++ destroyedRows L ++ overwrittenFrom [] L).Perm
              (createdRows L ++ writtenVals L)
          ∧ ∃ dropped, dropStorage s' = .ok dropped ()
              ∧ (dropped ++ destroyedRows L ++ overwrittenFrom [] L).Perm
                  (createdRows L ++ writtenVals L) := by
  obtain ⟨w', h1, h2, h3⟩ := C04_all_histories_with_writes hw hc ho hs hnc
  refine ⟨w', h1, h2, ?_⟩
  intro a s s' g g'
  obtain ⟨L, r, he, _, _, ov, rfl, _, hp, ⟨dropped, hd, hp'⟩, _⟩ := h3 a s s' g g'
  have hi := hw.get g
  have h0 := hf s (List.mem_of_getElem? g)
  rw [owned_of_len_zero hi h0, view_of_len_zero hi h0, List.nil_append] at hp hp'
  exact ⟨L, r, he, hp, dropped, hd, hp'⟩


namespace WorldEx
open StorageEx

/-- `histEx` (Lemmas/QueryOps.lean) without its `cloneSwitch`: three creates (the third grows
the storage), a refused `create_within_capacity`, an `ecs_iter!` writing `90, 91, 92` through
`&mut` column 0, an `ecs_find!` writing `77` to column 1, a removal by a dynamic key, the same
(now stale) key again, a forged key (panics; the history goes on), a write of `55` through a
typed direct key, an `ecs_iter_destroy!` whose closure removes one entity and then panics,
`clear_events`.  `C04_all_histories` does not apply to it (it overwrites). -/
def histW : List (Op Nat) :=
  [ .create 0 [10, 20] (codeGrowth cfgEx),
    .create 0 [11, 21] (codeGrowth cfgEx),
    .create 0 [12, 22] (codeGrowth cfgEx),
    .createWithin 1 [5],
    .iter [⟨0, [.comp 0 true, .ent]⟩] Nat
      (fun st _ => .ret (st + 1) [some (90 + st), none] .cont) 0,
    .find [⟨0, [.comp 1 true, .dirAny]⟩] Nat (fun st _ => .ret st [some 77, none] ())
      ⟨.any, 0, mkKey 1 3 1⟩ 0,
    .destroy ⟨true, false, ⟨.any, 0, mkKey 0 3 1⟩, none⟩,
    .destroy ⟨true, false, ⟨.any, 0, mkKey 0 3 1⟩, none⟩,
    .destroy ⟨true, false, ⟨.any, 0, mkKey 5 9 1⟩, none⟩,
    .write ⟨false, true, ⟨.dir, 0, mkKey 0 3 2⟩, none⟩ 1 55,
    .iterDestroy [⟨0, [.comp 0 false]⟩, ⟨1, []⟩] Nat
      (fun st args => match args with
        | [.comp _ 91] => .ret st [] .contDestroy
        | _ => .panic st []) 0,
    .clearEvents none ]

example : histW = histEx.filter (fun op => !op.isCloneSwitch) := rfl

theorem histW_ok : OpsOk cfgEx histW := by
  have hg : GrowOk cfgEx (codeGrowth cfgEx) := fun c hc => codeGrowth_ok cfgEx c hc
  exact ⟨hg, hg, hg, trivial⟩

theorem histW_scoped : OpsScoped wEx.sch histW := by
  intro op hop
  have hsub : op ∈ histEx := by
    have : op ∈ histEx.filter (fun op => !op.isCloneSwitch) := hop
    exact (List.mem_filter.mp this).1
  exact histEx_scoped op hsub

theorem histW_noClone : ∀ op ∈ histW, op.NoClone := by decide

/-- `histW` overwrites, so it is outside the scope of `C04_all_histories`. -/
example : ¬ ∀ op ∈ histW, op.IsCDC := fun h => h (histW[9]) (List.getElem_mem _)

-- the history evaluates: (len, capacity, version, handles, columns) per archetype.  In
-- archetype 0: in = 10 20 11 21 12 22 (created) + 90 91 92 77 55 (written); out = 92 55
-- (still owned) + 90 20 91 77 (handed back) + 10 11 12 21 22 (displaced).
example : (run cfgEx wEx histW).map
      (fun w => w.archs.map (fun s => (s.len, s.capacity, s.version, s.ents, s.cols)))
    = some [(1, 6, 3, [⟨2, 1⟩], [[92], [55]]), (0, 0, 1, [], [[]])] := rfl

/-- C04 with writes on `histW`. -/
example : ∃ w', run cfgEx wEx histW = some w'
    ∧ ∀ (a : Nat) (s s' : Storage Nat), wEx.archs[a]? = some s → w'.archs[a]? = some s' →
        ∃ L, LReach cfgEx s L s' ∧ OpsEmit a histW L
          ∧ ∃ overwritten : List Nat, overwritten.length = (L.filter Lbl.isWrite).length
            ∧ (owned s' ++ destroyedRows L ++ overwritten).Perm
                (owned s ++ createdRows L ++ writtenVals L)
            ∧ ∃ dropped, dropStorage s' = .ok dropped ()
                ∧ (dropped ++ destroyedRows L ++ overwritten).Perm
                    (owned s ++ createdRows L ++ writtenVals L) := by
  obtain ⟨w', h1, _, h3⟩ :=
    C04_all_histories_with_writes (wEx_winv cfgEx (by decide) cfgEx_ok) cfgEx_ok histW_ok
      histW_scoped histW_noClone
  refine ⟨w', h1, fun a s s' g g' => ?_⟩
  obtain ⟨L, r, he, _, _, ov, _, hl, hp, hd, _⟩ := h3 a s s' g g'
  exact ⟨L, r, he, ov, hl, hp, hd⟩

/-- … and from `World::with_capacity` (`wEx` is empty). -/
example : ∃ w', run cfgEx wEx histW = some w'
    ∧ ∀ (a : Nat) (s s' : Storage Nat), wEx.archs[a]? = some s → w'.archs[a]? = some s' →
        ∃ L, LReach cfgEx s L s' ∧ OpsEmit a histW L
          ∧ (owned s' ++ destroyedRows L ++ overwrittenFrom [] L).Perm
              (createdRows L ++ writtenVals L) := by
  obtain ⟨w', h1, _, h3⟩ :=
    C04_fresh_with_writes (wEx_winv cfgEx (by decide) cfgEx_ok) cfgEx_ok histW_ok
      histW_scoped histW_noClone (by decide)
  refine ⟨w', h1, fun a s s' g g' => ?_⟩
  obtain ⟨L, r, he, hp, _⟩ := h3 a s s' g g'
  exact ⟨L, r, he, hp⟩

/-- C04 for all operations on `histEx` itself (with its `cloneSwitch`). -/
example : ∃ w', run cfgEx wEx histEx = some w'
    ∧ ∀ (a : Nat) (s s' : Storage Nat), wEx.archs[a]? = some s → w'.archs[a]? = some s' →
        ∃ L, LReach cfgEx s L s' ∧ OpsEmit a histEx L
          ∧ ∃ (overwritten : List Nat) (srcs : List (Storage Nat)),
              overwritten.length = (L.filter Lbl.isWrite).length
            ∧ srcs.length = (cloneFns L).length
            ∧ (owned s' ++ destroyedRows L ++ overwritten ++ srcs.flatMap owned).Perm
                (owned s ++ createdRows L ++ writtenVals L ++ clonedVals (cloneFns L) srcs) := by
  obtain ⟨w', h1, _, h3⟩ :=
    C04_all_histories_all_ops (wEx_winv cfgEx (by decide) cfgEx_ok) cfgEx_ok histEx_ok
      histEx_scoped
  refine ⟨w', h1, fun a s s' g g' => ?_⟩
  obtain ⟨L, r, he, _, ov, srcs, _, hl, hs, _, hp, _⟩ := h3 a s s' g g'
  exact ⟨L, r, he, ov, srcs, hl, hs, hp⟩

end WorldEx
end Gecs

section
open Gecs
#print axioms C04_all_histories_with_writes
#print axioms C04_all_histories_all_ops
#print axioms C04_fresh_with_writes
end
