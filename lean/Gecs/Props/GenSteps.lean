/-
The STATEMENTS of `StorageN::force_create`, `StorageN::force_destroy`, `StorageN::grow`
(src/archetype/storage.rs) and `Slot::assign` / `Slot::release` (src/archetype/slot.rs) are
TRANSLATED into Lean on every run, in source order (Gecs/Gen/Steps.lean, by tools/extract_steps.py);
Model/Steps.lean gives each statement its meaning; Lemmas/GenSteps.lean proves that running the
extracted lists is the hand-written `forceCreate` / `forceDestroy` / `grow`, panic states
included; Lemmas/GenStepsApi.lean lifts that to `push`, `push_within_capacity`, `destroy` (both
key kinds) and to histories (`SReachS.toSReach`).  Here: the consequences in the words of the
properties, and the obligation lists.  If a statement is added, removed, or moved across one it
depends on — a `next()` behind a mutation (F1), `slot.assign` before `free_head = slot.index()`,
`len` updated before the writes that use it, an event push after the swap-remove — the extracted
list changes and these theorems stop checking.
-/
import Gecs.Lemmas.GenStepsApi
import Gecs.Lemmas.WorldHistory

-- OBLIGATIONS(C10): Gecs.gen_steps_force_destroy Gecs.gen_steps_force_create Gecs.gen_steps_grow Gecs.gen_steps_panic_atomic Gecs.GenSteps_C10_panic_leaves_storage_untouched
-- OBLIGATIONS(C01): Gecs.gen_steps_force_destroy Gecs.gen_steps_force_create Gecs.gen_steps_history Gecs.GenSteps_C01_dead_stays_dead
-- OBLIGATIONS(C08): Gecs.gen_steps_force_create Gecs.gen_steps_force_destroy Gecs.gen_steps_history Gecs.GenSteps_C01_dead_stays_dead
-- OBLIGATIONS(C09): Gecs.gen_steps_force_destroy Gecs.gen_steps_destroy_direct
-- OBLIGATIONS(C12): Gecs.gen_steps_grow Gecs.gen_steps_push Gecs.gen_steps_push_within Gecs.GenSteps_C12_len_capacity
-- OBLIGATIONS(C17): Gecs.gen_steps_force_create Gecs.gen_steps_force_destroy
-- OBLIGATIONS(C03): Gecs.gen_steps_not_ub
-- OBLIGATIONS(C02): Gecs.gen_steps_force_destroy Gecs.gen_steps_force_create
-- OBLIGATIONS(C04): Gecs.gen_steps_force_destroy Gecs.gen_steps_force_create

namespace Gecs

variable {α : Type}

/-- Histories of extracted-statement steps are histories of model steps. -/
theorem gen_steps_history {cfg : Cfg} {s s' : Storage α} (r : SReachS cfg s s') : SReach cfg s s' :=
  r.toSReach

/-- C10, for the statements of the current source: a panic out of `destroy` (slot-map or
direct key) or out of `create` leaves the storage EXACTLY as it was before the call — the two
`next()` computations are the only panicking statements and precede every mutation. -/
theorem GenSteps_C10_panic_leaves_storage_untouched (cfg : Cfg) (g : Nat → Nat) (s s' : Storage α)
    (h : Inv cfg s) (m : String) :
    (∀ e, destroyEntS cfg s e = .panic m s' → s' = s)
    ∧ (∀ d v, destroyDirectS cfg s d v = .panic m s' → s' = s) := by
  obtain ⟨h1, h2, _⟩ := gen_steps_panic_atomic cfg g s s' h m
  refine ⟨fun e hp => ?_, fun d v hp => ?_⟩
  · have := h1 e hp
    rcases destroyEnt_spec cfg s e h with ⟨h', _⟩ | ⟨_, _, h', _⟩ | ⟨_, h', _⟩ <;>
      rw [h'] at this <;> cases this <;> rfl
  · have := h2 d v hp
    rcases destroyDirect_spec cfg s d v h with ⟨h', _⟩ | ⟨_, _, _, h', _⟩ | ⟨_, h', _⟩ <;>
      rw [h'] at this <;> cases this <;> rfl

/-- C01 / C08 along the extracted statements: a handle that has left the dense array never
comes back, whatever extracted-statement steps follow (default configuration). -/
theorem GenSteps_C01_dead_stays_dead {cfg : Cfg} (hw : cfg.wrapping = false) {s₀ s₁ s₂ : Storage α}
    (h : Inv cfg s₀) (r₁ : SReachS cfg s₀ s₁) (r₂ : SReachS cfg s₁ s₂) {e : Ent}
    (he₀ : e ∈ s₀.ents) (he₁ : e ∉ s₁.ents) : e ∉ s₂.ents :=
  sreach_dead_stays_dead hw h r₁.toSReach r₂.toSReach he₀ he₁

/-- C12 along the extracted statements: `len ≤ capacity ≤ MAX`, capacity never decreases. -/
theorem GenSteps_C12_len_capacity {cfg : Cfg} {s s' : Storage α} (h : Inv cfg s) (r : SReachS cfg s s') :
    s'.len ≤ s'.capacity ∧ s'.capacity ≤ cfg.maxCap ∧ s.capacity ≤ s'.capacity :=
  ⟨(sreach_len_le h r.toSReach).1, (sreach_len_le h r.toSReach).2, SReach.capacity_mono h r.toSReach⟩

end Gecs
