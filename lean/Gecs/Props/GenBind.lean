/-
The four parameter-binding tables of macros/src/generate/query.rs TRANSLATED row by row
(Gen/Steps.lean: `iterBindMut`, `iterBindBorrow`, `findBindMut`, `findBindBorrow`): obligation
lists for Lemmas/GenBind.lean.  `bindArgs` is what every query theorem (C02, C06, C07, C09, C11)
feeds the user closure with; `gen_bind_args` says the generated code feeds it the same.
-/
import Gecs.Lemmas.GenBind

-- OBLIGATIONS(C02): Gecs.gen_bind_args Gecs.gen_bind_tables_ok
-- OBLIGATIONS(C06): Gecs.gen_bind_args
-- OBLIGATIONS(C07): Gecs.gen_bind_args
-- OBLIGATIONS(C09): Gecs.gen_bind_args
-- OBLIGATIONS(C11): Gecs.gen_bind_tables_ok
-- OBLIGATIONS(C14): Gecs.gen_bind_tables_ok

namespace Gecs
#check @gen_bind_args
end Gecs
