/-
C19 — Crate features and build profiles change nothing but what they document.
Model: the whole model is PARAMETRIC in `Cfg` (Gecs/Model/Storage.lean):
  `events`   = feature "events"            (read only where `created`/`destroyed` are appended)
  `wrapping` = feature "wrapping_version"  (read only in `nextVer`, at `v = vmax`)
  `debug`    = debug assertions on/off     (read only where a `debug_assert!` stands)
  `maxCap`, `vmax` = MAX_DATA_CAPACITY, u32::MAX (symbolic).
Every other property theorem (C01 … C18) is stated `∀ cfg`, with an explicit
`cfg.wrapping = false` hypothesis exactly where the property itself makes the exception (C01,
C08, C09), and for any number of columns — the feature "32_components" only raises the
arity limit of the macros and has no counterpart in the model (`C19_arity_generic`).
Tied to the real code by running harness/rt under every feature combination and both
profiles (the `cfg` line of each trace selects the `Cfg` the driver replays it with).

This file proves the CROSS-configuration statements, each at the storage-operation level
AND lifted to `stepOp` / `run` (all histories, arbitrary handles and closures):
* `events`: erasing the logs commutes with everything (`C19_events_only_adds_logs`, `…_run`);
* `wrapping_version`: the two builds agree below `vmax` (`C19_wrapping_only_at_vmax`), and a
  whole history runs identically unless the checked build raises one of the two documented
  overflow panics (`C19_wrapping_only_at_vmax_run`); beyond that point `Inv` / no-`ub` still
  hold with the feature (`C19_wrapping_beyond_vmax_safe`, instances of `∀ cfg` theorems);
* debug assertions: the two profiles agree on every in-range key
  (`C19_debug_irrelevant_for_valid_keys`), keys issued by the API stay in range
  (`C19_issued_keys_never_trip_debug`), and a whole history runs identically unless the debug
  build trips a `debug_assert` (`C19_debug_irrelevant_run`); for out-of-range forged keys the
  only difference is `panic` vs `None` (`C19_debug_only_difference`).
`Clean X u c w ops` (Lemmas/Robust.lean) says: no operation of the run of `ops` from `w` under
`c` ends in a panic whose message is in `X` (nor, if `u`, in `ub`); `cleanB` is its executable
form.  `isOverflowMsg` = the two overflow messages, `isDebugMsg` = the messages of the model's
`debug_assert!` / `debug_checked_assume!` sites.
Not covered here: `cfg(feature = …)` selection in the macro crate (C15/C16 cover `cfg`
predicates on archetypes/components), and the performance-only effect of the features.
-/
import Gecs.Lemmas.Robust
import Gecs.Lemmas.Bits
import Gecs.Lemmas.GenTie

-- OBLIGATIONS: Gecs.C19_events_only_adds_logs Gecs.C19_events_only_adds_logs_run Gecs.C19_events_lookups
-- OBLIGATIONS: Gecs.C19_wrapping_only_at_vmax Gecs.C19_wrapping_only_at_vmax_run Gecs.C19_wrapping_beyond_vmax_safe
-- OBLIGATIONS: Gecs.C19_wrapping_reuse_documented Gecs.C19_debug_irrelevant_for_valid_keys Gecs.C19_debug_only_difference
-- OBLIGATIONS: Gecs.C19_debug_destroy Gecs.C19_issued_keys_never_trip_debug Gecs.C19_debug_irrelevant_run
-- OBLIGATIONS: Gecs.C19_from_any_unchecked Gecs.C19_inv_ignores_features Gecs.C19_arity_generic
-- OBLIGATIONS: Gecs.gen_features Gecs.gen_arities Gecs.gen_version_max

namespace Gecs
variable {α : Type}

/-! ## 1. `events` -/

/-- With `eraseLogs s = { s with created := [], destroyed := [] }` and
`cfgOff cfg = { cfg with events := false }`: every storage operation run with `cfg` (feature
on or off) on `s`, logs of the result erased, IS the operation run with the feature off on the
log-erased state — same returned value, same panic message, same `ub`.  No `Inv` needed: the
event vectors are never read, only appended to.  (`Clone` copies the logs, hence the value of
`cloneStorage` is erased as well.) -/
theorem C19_events_only_adds_logs (cfg : Cfg) (s : Storage α) :
    (∀ row, (forceCreate cfg s row).mapState eraseLogs
        = forceCreate (cfgOff cfg) (eraseLogs s) row)
    ∧ (∀ g row, (push cfg g s row).mapState eraseLogs = push (cfgOff cfg) g (eraseLogs s) row)
    ∧ (∀ row, (pushWithin cfg s row).mapState eraseLogs
        = pushWithin (cfgOff cfg) (eraseLogs s) row)
    ∧ (∀ si d, (forceDestroy cfg s si d).mapState eraseLogs
        = forceDestroy (cfgOff cfg) (eraseLogs s) si d)
    ∧ (∀ e, (destroyEnt cfg s e).mapState eraseLogs = destroyEnt (cfgOff cfg) (eraseLogs s) e)
    ∧ (∀ d v, (destroyDirect cfg s d v).mapState eraseLogs
        = destroyDirect (cfgOff cfg) (eraseLogs s) d v)
    ∧ (∀ e, (resolveEntity cfg s e).mapState eraseLogs
        = resolveEntity (cfgOff cfg) (eraseLogs s) e)
    ∧ (∀ d v, (resolveDirect cfg s d v).mapState eraseLogs
        = resolveDirect (cfgOff cfg) (eraseLogs s) d v)
    ∧ (∀ d c x, eraseLogs (writeCell s d c x) = writeCell (eraseLogs s) d c x)
    ∧ (∀ cl, ((cloneStorage cl s).mapState eraseLogs).mapVal eraseLogs
        = cloneStorage cl (eraseLogs s))
    ∧ eraseLogs (clearEvents s) = eraseLogs s
    ∧ (∀ d, readRow (eraseLogs s) d = readRow s d)
    ∧ dropStorage (eraseLogs s) = dropStorage s :=
  ⟨forceCreate_eraseLogs cfg s, fun g row => push_eraseLogs cfg g s row,
   pushWithin_eraseLogs cfg s, forceDestroy_eraseLogs cfg s, destroyEnt_eraseLogs cfg s,
   destroyDirect_eraseLogs cfg s, resolveEntity_eraseLogs cfg s, resolveDirect_eraseLogs cfg s,
   fun _ _ _ => rfl, fun cl => cloneStorage_eraseLogs cl s, rfl, fun _ => rfl, rfl⟩

/-- The same for every world-level lookup (`contains`/`resolve`, `to_direct`,
`view`/`borrow`). -/
theorem C19_events_lookups (cfg : Cfg) (w : World α) (r : Route) (direct : Bool) :
    (w.contains cfg r direct).mapWorld World.eraseLogs
        = w.eraseLogs.contains (cfgOff cfg) r direct
    ∧ (w.toDirect cfg r direct).mapWorld World.eraseLogs
        = w.eraseLogs.toDirect (cfgOff cfg) r direct
    ∧ (w.fetch cfg r direct).mapWorld World.eraseLogs
        = w.eraseLogs.fetch (cfgOff cfg) r direct :=
  ⟨World.contains_eraseLogs cfg w r direct, World.toDirect_eraseLogs cfg w r direct,
   World.fetch_eraseLogs cfg w r direct⟩

/-- … for every state-changing operation (arbitrary handles, arbitrary closures: the closures
are handed the same arguments), and for ALL histories: running with the feature and erasing
the logs at the end is running without the feature on the log-erased world.  In particular the
feature never changes whether `ub` is reached (`none`), which operations panic, which handles
are issued, or any component value.  No `WInv` needed. -/
theorem C19_events_only_adds_logs_run (cfg : Cfg) (w : World α) :
    (∀ op, (stepOp cfg w op).mapWorld World.eraseLogs = stepOp (cfgOff cfg) w.eraseLogs op)
    ∧ (∀ ops, (run cfg w ops).map World.eraseLogs = run (cfgOff cfg) w.eraseLogs ops) :=
  ⟨stepOp_eraseLogs cfg w, fun ops => run_eraseLogs cfg ops w⟩

/-! ## 2. `wrapping_version` -/

/-- Below `vmax` the feature is invisible: `nextVer` agrees, hence `force_destroy` and both
`destroy` paths agree (same outcome, same state) whenever the released slot's generation and
the archetype version are `< vmax`. -/
theorem C19_wrapping_only_at_vmax (cfg : Cfg) :
    (∀ v, v < cfg.vmax →
        nextVer { cfg with wrapping := true } v = nextVer { cfg with wrapping := false } v)
    ∧ (∀ (s : Storage α) (si d : Nat),
        (∀ sl, s.slots[si]? = some sl → sl.ver < cfg.vmax) → s.version < cfg.vmax →
        forceDestroy { cfg with wrapping := true } s si d
          = forceDestroy { cfg with wrapping := false } s si d)
    ∧ (∀ (s : Storage α) (e : Ent), Inv cfg s → e.ver < cfg.vmax → s.version < cfg.vmax →
        destroyEnt { cfg with wrapping := true } s e
          = destroyEnt { cfg with wrapping := false } s e)
    ∧ (∀ (s : Storage α) (d v : Nat), Inv cfg s →
        (∀ t, s.ents[d]? = some t → t.ver < cfg.vmax) → s.version < cfg.vmax →
        destroyDirect { cfg with wrapping := true } s d v
          = destroyDirect { cfg with wrapping := false } s d v) :=
  ⟨fun _ h => nextVer_wrapping_agree cfg h,
   fun s si d h1 h2 => forceDestroy_wrapping_agree cfg s si d h1 h2,
   fun _ e h h1 h2 => destroyEnt_wrapping_agree h e h1 h2,
   fun _ d v h h1 h2 => destroyDirect_wrapping_agree h d v h1 h2⟩

/-- Whole histories.  Unless the checked build (no `wrapping_version`) raises one of the two
documented overflow panics — which under `Inv` happens only when the released slot's
generation or the archetype version is at `vmax` — every operation has the same outcome and
the history the same result with the feature.  Equalities of model terms: no `WInv` needed,
arbitrary handles and closures. -/
theorem C19_wrapping_only_at_vmax_run (cfg : Cfg) (w : World α) :
    (∀ op, (stepOp { cfg with wrapping := false } w op).excused isOverflowMsg false = false →
        stepOp { cfg with wrapping := false } w op = stepOp { cfg with wrapping := true } w op)
    ∧ (∀ ops, Clean isOverflowMsg false { cfg with wrapping := false } w ops →
        run { cfg with wrapping := false } w ops = run { cfg with wrapping := true } w ops)
    ∧ (∀ (s : Storage α) (e : Ent), Inv cfg s → e.ver < cfg.vmax → s.version < cfg.vmax →
        (destroyEnt cfg s e).excused isOverflowMsg false = false)
    ∧ (∀ (s : Storage α) (d v : Nat), Inv cfg s →
        (∀ t, s.ents[d]? = some t → t.ver < cfg.vmax) → s.version < cfg.vmax →
        (destroyDirect cfg s d v).excused isOverflowMsg false = false) :=
  ⟨fun op h => stepOp_wrapping_agree cfg w op h, fun ops h => run_wrapping_agree cfg w ops h,
   fun _ e h h1 h2 => destroyEnt_no_overflow_below_vmax h e h1 h2,
   fun _ d v h h1 h2 => destroyDirect_no_overflow_below_vmax h d v h1 h2⟩

/-- Beyond that point the wrapping configuration still preserves `Inv` — `force_destroy` of a
live entity never panics with the feature, also at `vmax` (`forceDestroy_inv` is `∀ cfg`) —
and never reaches `ub`: `run_inv` is `∀ cfg`, here instantiated at a wrapping configuration.
"May let an ancient handle match again but never causes undefined behaviour." -/
theorem C19_wrapping_beyond_vmax_safe {cfg : Cfg} (hwr : cfg.wrapping = true) :
    (∀ (s : Storage α) (si d v : Nat), Inv cfg s → s.slots[si]? = some ⟨.data d, v⟩ →
        ∃ row s', forceDestroy cfg s si d = .ok row s' ∧ Inv cfg s' ∧ s'.len = s.len - 1
          ∧ s'.capacity = s.capacity)
    ∧ (∀ (w : World α) (ops : List (Op α)), WInv cfg w → CfgOk cfg → OpsOk cfg ops →
        OpsScoped w.sch ops → ∃ w', run cfg w ops = some w' ∧ WInv cfg w') := by
  refine ⟨fun s si d v h hsl => forceDestroy_wrapping_total hwr h hsl, ?_⟩
  intro w ops hw hc ho hs
  obtain ⟨w', h1, h2, _⟩ := run_inv hw hc ho hs
  exact ⟨w', h1, h2⟩

/-- The documented reuse: with the feature (and only with it, see C08) a handle is issued a
second time after its slot's generation wrapped (`vmax = 2`, one slot). -/
theorem C19_wrapping_reuse_documented :
    ∃ (s0 s1 s2 s3 s4 s5 : Storage Nat) (e e' : Ent) (r1 r2 : List Nat),
      HistEx.cfgW.wrapping = true ∧ HistEx.cfgW.vmax = 2
      ∧ withCapacity HistEx.cfgW 1 1 = .ok () s0
      ∧ pushWithin HistEx.cfgW s0 [7] = .ok (some e) s1
      ∧ destroyEnt HistEx.cfgW s1 e = .ok (some r1) s2
      ∧ pushWithin HistEx.cfgW s2 [8] = .ok (some e') s3
      ∧ destroyEnt HistEx.cfgW s3 e' = .ok (some r2) s4
      ∧ pushWithin HistEx.cfgW s4 [9] = .ok (some e) s5 :=
  C08_wrapping_witness

/-! ## 3. Debug assertions -/

/-- `Inv` (and `WInv`) mention neither the build profile nor the two features. -/
theorem C19_inv_ignores_features {cfg : Cfg} {s : Storage α} (b : Bool) :
    (Inv { cfg with debug := b } s ↔ Inv cfg s)
    ∧ (Inv { cfg with wrapping := b } s ↔ Inv cfg s)
    ∧ (Inv { cfg with events := b } s ↔ Inv cfg s) :=
  ⟨Inv.debug_iff b, Inv.wrapping_iff b, Inv.events_iff b⟩

/-- For keys that are in range — every key ever issued is — debug and release builds answer
identically: under `Inv` no debug assertion can fire. -/
theorem C19_debug_irrelevant_for_valid_keys {cfg : Cfg} {s : Storage α} (h : Inv cfg s) :
    (∀ e : Ent, e.slot < s.capacity ∨ s.len = 0 →
        resolveEntity { cfg with debug := true } s e
          = resolveEntity { cfg with debug := false } s e)
    ∧ (∀ d v : Nat, d < s.len ∨ v ≠ s.version ∨ s.len = 0 →
        resolveDirect { cfg with debug := true } s d v
          = resolveDirect { cfg with debug := false } s d v) :=
  ⟨fun e hk => resolveEntity_debug_agree h e hk, fun d v hk => resolveDirect_debug_agree h d v hk⟩

/-- For out-of-range forged keys the ONLY difference is `panic "debug_assert…"` (state
unchanged) versus `ok none`. -/
theorem C19_debug_only_difference (cfg : Cfg) (s : Storage α) (h0 : s.len ≠ 0) :
    (∀ e : Ent, e.slot ≥ s.capacity →
        resolveEntity { cfg with debug := true } s e
            = .panic "debug_assert: invalid entity handle" s
        ∧ resolveEntity { cfg with debug := false } s e = .ok none s)
    ∧ (∀ d : Nat, d ≥ s.len →
        resolveDirect { cfg with debug := true } s d s.version
            = .panic "debug_assert: invalid entity handle" s
        ∧ resolveDirect { cfg with debug := false } s d s.version = .ok none s) :=
  ⟨fun e hc => resolveEntity_out_of_range cfg s e h0 hc,
   fun d hd => resolveDirect_out_of_range cfg s d h0 hd⟩

/-- Consequently `destroy` by an in-range key is profile-independent (`force_destroy` itself
has no debug-only statement). -/
theorem C19_debug_destroy {cfg : Cfg} {s : Storage α} (h : Inv cfg s) :
    (∀ e : Ent, e.slot < s.capacity ∨ s.len = 0 →
        destroyEnt { cfg with debug := true } s e = destroyEnt { cfg with debug := false } s e)
    ∧ (∀ d v : Nat, d < s.len ∨ v ≠ s.version ∨ s.len = 0 →
        destroyDirect { cfg with debug := true } s d v
          = destroyDirect { cfg with debug := false } s d v)
    ∧ (∀ (b : Bool) (si d : Nat),
        forceDestroy { cfg with debug := b } s si d = forceDestroy cfg s si d) :=
  ⟨fun e hk => destroyEnt_debug_agree h e hk, fun d v hk => destroyDirect_debug_agree h d v hk,
   fun b si d => forceDestroy_debug cfg b s si d⟩

/-- Keys issued by the API never trip a debug assertion later: an `Entity` handle that was
ever stored keeps its slot index below the (never shrinking) capacity, in any configuration;
an `EntityDirect` handle `(d, version)` issued for an existing position is later either stale
or still below `len` (without `wrapping_version`; with it, see `Later` in HistoryLemmas.lean).
Hence both profiles answer identically for them at every later state. -/
theorem C19_issued_keys_never_trip_debug {cfg : Cfg} {s s' : Storage α} (h : Inv cfg s)
    (hr : SReach cfg s s') :
    (∀ e ∈ s.ents, e.slot < s'.capacity
        ∧ resolveEntity { cfg with debug := true } s' e
            = resolveEntity { cfg with debug := false } s' e)
    ∧ (cfg.wrapping = false → ∀ d, d < s.len →
        resolveDirect { cfg with debug := true } s' d s.version
          = resolveDirect { cfg with debug := false } s' d s.version) := by
  have h' := sreach_inv h hr
  refine ⟨fun e he => ?_, fun hw d hd => ?_⟩
  · have hlt := issued_ent_in_range h he hr
    exact ⟨hlt, resolveEntity_debug_agree h' e (.inl hlt)⟩
  · rcases issued_direct_in_range hw h hd hr with g | g
    · exact resolveDirect_debug_agree h' d _ (.inl g)
    · exact resolveDirect_debug_agree h' d _ (.inr (.inl g))

/-- Whole histories.  Unless the debug build trips one of the model's `debug_assert!` /
`debug_checked_assume!` sites (or reaches `ub`), every operation has the same outcome and the
history the same result in the release build — equalities of model terms, no `WInv` needed.
From a `WInv` world and for well-scoped histories `ub` is impossible (`run_inv`), so "no
debug assertion trips" alone suffices, and then the release run does not reach `ub` either. -/
theorem C19_debug_irrelevant_run (cfg : Cfg) (w : World α) :
    (∀ op, (stepOp { cfg with debug := true } w op).excused isDebugMsg true = false →
        stepOp { cfg with debug := true } w op = stepOp { cfg with debug := false } w op)
    ∧ (∀ ops, Clean isDebugMsg true { cfg with debug := true } w ops →
        run { cfg with debug := true } w ops = run { cfg with debug := false } w ops)
    ∧ (∀ ops, WInv cfg w → CfgOk cfg → OpsOk cfg ops → OpsScoped w.sch ops →
        Clean isDebugMsg false { cfg with debug := true } w ops →
        run { cfg with debug := true } w ops = run { cfg with debug := false } w ops
        ∧ ∃ w', run { cfg with debug := false } w ops = some w'
            ∧ WInv { cfg with debug := false } w') := by
  refine ⟨fun op h => stepOp_debug_agree cfg w op h, fun ops h => run_debug_agree cfg w ops h, ?_⟩
  intro ops hw hc ho hs hcl
  have hwD : WInv { cfg with debug := true } w := hw.congr_cfg rfl rfl
  have hcD : CfgOk { cfg with debug := true } := ⟨hc.vmaxPos⟩
  have hoD : OpsOk { cfg with debug := true } ops := OpsOk.congr_cfg (cfg := cfg) (cfg' := { cfg with debug := true }) rfl ops ho
  have heq := run_debug_agree cfg w ops (Clean.of_winv hcD ops w hwD hoD hs hcl)
  obtain ⟨w', h1, h2, _⟩ := run_inv hwD hcD hoD hs
  exact ⟨heq, w', by rw [← heq]; exact h1, h2.congr_cfg rfl rfl⟩

/-- `from_any_unchecked`: the identity in release builds, the checked conversion in debug
builds; with a matching id the two agree. -/
theorem C19_from_any_unchecked {cfg : Cfg} (idA : Nat) (k : Key) :
    (cfg.debug = false → fromAnyUnchecked cfg idA k = some k)
    ∧ (cfg.debug = true → (fromAnyUnchecked cfg idA k = some k ↔ k.archId = idA))
    ∧ (k.archId = idA → fromAnyUnchecked { cfg with debug := true } idA k
        = fromAnyUnchecked { cfg with debug := false } idA k) := by
  refine ⟨fromAnyUnchecked_release idA k, fromAnyUnchecked_debug idA k, ?_⟩
  intro hid
  rw [(fromAnyUnchecked_debug (cfg := { cfg with debug := true }) idA k rfl).mpr hid,
    fromAnyUnchecked_release (cfg := { cfg with debug := false }) idA k rfl]

/-! ## 4. Arity -/

/-- Remark-theorem: nothing in `Inv`, `stepOp_spec`, `run_inv` constrains the number of
columns `s.cols.length`, so the arity limit raised by "32_components" is invisible to every
property.  Formally: `force_create` preserves `Inv` for ANY number of columns and ANY row
(re-export of `forceCreate_inv`; the world-level theorems ask for `row.length` = number of
columns through `Op.Scoped`, for every such number). -/
theorem C19_arity_generic (cfg : Cfg) (s : Storage α) (row : List α) (h : Inv cfg s)
    (hlt : s.len < s.capacity) :
    ∃ e s', forceCreate cfg s row = .ok e s' ∧ Inv cfg s' ∧ s'.len = s.len + 1
      ∧ s'.cols = List.zipWith (fun c x => c ++ [x]) s.cols row
      ∧ (row.length = s.cols.length → s'.cols.length = s.cols.length) := by
  obtain ⟨e, s', h1, h2, h3, _, _, _, h7, _⟩ := forceCreate_inv cfg s row h hlt
  exact ⟨e, s', h1, h2, h3, h7, fun hr => forceCreate_cols_length cfg s row e s' h1 hr⟩

/-! Non-vacuity -/
namespace StorageEx

-- events: a create and a destroy with the feature on really write the logs …
example : ∃ s', pushWithin cfgEx holeEx [13, 23] = .ok (some ⟨1, 2⟩) s' ∧ s'.created = [⟨1, 2⟩] :=
  ⟨_, rfl, rfl⟩
-- … and erasing them gives the feature-off run
example : (pushWithin cfgEx holeEx [13, 23]).mapState eraseLogs
    = pushWithin (cfgOff cfgEx) (eraseLogs holeEx) [13, 23] :=
  (C19_events_only_adds_logs cfgEx holeEx).2.2.1 _
example : cfgEx.events = true ∧ (cfgOff cfgEx).events = false := ⟨rfl, rfl⟩
-- wrapping: `holeEx` (generations 1, 2; version 2; `vmax = 5`) satisfies the bounds
example : Inv cfgEx holeEx ∧ (⟨0, 1⟩ : Ent).ver < cfgEx.vmax ∧ holeEx.version < cfgEx.vmax :=
  ⟨holeEx_inv, by decide, by decide⟩
-- … while at `vmax` (`ovfEx`) the two configurations really differ
example : forceDestroy { cfgEx with wrapping := false } ovfEx 0 0
    = .panic "slot version overflow" ovfEx := rfl
example : ∃ row s', forceDestroy { cfgEx with wrapping := true } ovfEx 0 0 = .ok row s' :=
  ⟨_, _, rfl⟩
-- debug: an in-range stale key and an out-of-range forged key on `holeEx`
example : resolveEntity { cfgEx with debug := true } holeEx ⟨1, 1⟩
    = resolveEntity { cfgEx with debug := false } holeEx ⟨1, 1⟩ :=
  (C19_debug_irrelevant_for_valid_keys holeEx_inv).1 _ (.inl (by decide))
example : resolveEntity { cfgEx with debug := true } holeEx ⟨7, 1⟩
      = .panic "debug_assert: invalid entity handle" holeEx
    ∧ resolveEntity { cfgEx with debug := false } holeEx ⟨7, 1⟩ = .ok none holeEx :=
  (C19_debug_only_difference cfgEx holeEx (by decide)).1 _ (by decide)

-- wrapping at `vmax`: `ovfEx` satisfies `Inv` in a wrapping configuration, the removal succeeds
example : ∃ row s', forceDestroy cfgWrap ovfEx 0 0 = .ok row s' ∧ Inv cfgWrap s' := by
  obtain ⟨row, s', h1, h2, _⟩ :=
    (C19_wrapping_beyond_vmax_safe (α := Nat) (cfg := cfgWrap) rfl).1 ovfEx 0 0 5 ovfEx_inv_wrap rfl
  exact ⟨row, s', h1, h2⟩
-- issued keys: `holeEx` ⟶ `holeEx2` (a create and a removal later)
example : ∀ e ∈ holeEx.ents, e.slot < HistEx.holeEx2.capacity :=
  fun e he => ((C19_issued_keys_never_trip_debug holeEx_inv HistEx.holeEx_reach2).1 e he).1
-- any row length / column count
example : ∃ e s', forceCreate cfgEx holeEx [13, 23] = .ok e s' ∧ s'.cols.length = 2 := by
  obtain ⟨e, s', h1, _, _, _, h5⟩ := C19_arity_generic cfgEx holeEx [13, 23] holeEx_inv (by decide)
  exact ⟨e, s', h1, h5 rfl⟩

end StorageEx

namespace WorldEx
open StorageEx

-- the example history, run with and without the feature
example : (run cfgEx wEx histEx).map World.eraseLogs = run (cfgOff cfgEx) wEx.eraseLogs histEx :=
  (C19_events_only_adds_logs_run cfgEx wEx).2 histEx

-- `histEx` (forged, stale and foreign keys, panicking closure …) raises no overflow panic and
-- trips no debug assertion: it runs identically under all four wrapping × debug settings
example : Clean isOverflowMsg false { cfgEx with wrapping := false } wEx histEx :=
  Clean.of_cleanB histEx wEx rfl
example : run { cfgEx with wrapping := false } wEx histEx
    = run { cfgEx with wrapping := true } wEx histEx :=
  (C19_wrapping_only_at_vmax_run cfgEx wEx).2.1 histEx (Clean.of_cleanB histEx wEx rfl)
example : run { cfgEx with debug := true } wEx histEx
    = run { cfgEx with debug := false } wEx histEx :=
  (C19_debug_irrelevant_run cfgEx wEx).2.1 histEx (Clean.of_cleanB histEx wEx rfl)

example : ∃ w', run { cfgEx with debug := false } wEx histEx = some w' :=
  let ⟨_, w', h1, _⟩ := (C19_debug_irrelevant_run cfgEx wEx).2.2 histEx
    (wEx_winv cfgEx (by decide) cfgEx_ok) cfgEx_ok histEx_ok histEx_scoped
    (Clean.of_cleanB histEx wEx rfl)
  ⟨w', h1⟩

-- … while the documented differences are real: on `w2` (live entities) a forged out-of-range
-- key panics in the debug build and is `None` in the release build (world unchanged in both)
example : stepOp { cfgEx with debug := true } w2
      (.destroy ⟨false, true, ⟨.ent, 0, mkKey 77 3 1⟩, none⟩)
    = .panic "debug_assert: invalid entity handle" w2 := rfl
example : stepOp { cfgEx with debug := false } w2
      (.destroy ⟨false, true, ⟨.ent, 0, mkKey 77 3 1⟩, none⟩) = .ok w2 := rfl


-- and at `vmax` (one slot, `vmax = 2`): the second removal releases generation 2; the checked
-- build panics (entity still there), the wrapping build removes it — the history is not `Clean`
def wOne : World Nat := ⟨[3], [HistEx.w0]⟩
def histWrap : List (Op Nat) :=
  [.createWithin 0 [7], .destroy ⟨true, false, ⟨.any, 0, mkKey 0 3 1⟩, none⟩,
   .createWithin 0 [8], .destroy ⟨true, false, ⟨.any, 0, mkKey 0 3 2⟩, none⟩]
example : cleanB isOverflowMsg false { HistEx.cfgW with wrapping := false } wOne histWrap = false :=
  rfl
example : (run { HistEx.cfgW with wrapping := false } wOne histWrap).map
    (fun w => w.archs.map (·.len)) = some [1] := rfl
example : (run { HistEx.cfgW with wrapping := true } wOne histWrap).map
    (fun w => w.archs.map (·.len)) = some [0] := rfl
-- its first three operations are clean, and there the two builds agree
example : run { HistEx.cfgW with wrapping := false } wOne (histWrap.take 3)
    = run { HistEx.cfgW with wrapping := true } wOne (histWrap.take 3) :=
  (C19_wrapping_only_at_vmax_run HistEx.cfgW wOne).2.1 _ (Clean.of_cleanB _ wOne rfl)

end WorldEx
end Gecs

section
open Gecs
#print axioms C19_events_only_adds_logs
#print axioms C19_events_lookups
#print axioms C19_events_only_adds_logs_run
#print axioms C19_wrapping_only_at_vmax
#print axioms C19_wrapping_only_at_vmax_run
#print axioms C19_wrapping_beyond_vmax_safe
#print axioms C19_wrapping_reuse_documented
#print axioms C19_inv_ignores_features
#print axioms C19_debug_irrelevant_for_valid_keys
#print axioms C19_debug_only_difference
#print axioms C19_debug_destroy
#print axioms C19_issued_keys_never_trip_debug
#print axioms C19_debug_irrelevant_run
#print axioms C19_from_any_unchecked
#print axioms C19_arity_generic
end
