/-
The world-level key dispatch TRANSLATED from macros/src/generate/world.rs (Gen/Steps.lean:
`worldRows` — the twelve `WorldCanResolve<K>` method bodies —, `worldTryFrom` — the two
`TryFrom<…Any> for Select…` conversions): obligation lists for Lemmas/GenDispatch.lean.  Every
world-level theorem of Props/ routes handles with `routeWorld`; by `gen_world_dispatch` that is
what the generated methods do, for all key kinds and for forged archetype ids (C03: an id no
archetype has panics cleanly with "invalid entity type"; C01 / C09: a dynamic key reaches the
archetype whose ARCHETYPE_ID it carries, with the same operation).
-/
import Gecs.Lemmas.GenDispatch

-- OBLIGATIONS(C01): Gecs.gen_world_dispatch Gecs.gen_world_plan
-- OBLIGATIONS(C03): Gecs.gen_world_dispatch
-- OBLIGATIONS(C09): Gecs.gen_world_dispatch
-- OBLIGATIONS(C14): Gecs.gen_world_dispatch Gecs.gen_world_plan
-- OBLIGATIONS(C17): Gecs.gen_world_dispatch

namespace Gecs

/-- The interpreter discriminates: a `resolve_contains(EntityAny)` that delegates `to_direct`
instead of `contains` is not a plan. -/
example : planT ((⟨.entityAny, .contains, .dynMatch .entity .toDirect .none⟩ : DRow) :: Gen.worldRows)
    Gen.worldTryFrom .any .contains ≠ .dyn := by decide

end Gecs
