/-
The six `StorageCanResolve` methods TRANSLATED statement by statement (Gen/Steps.lean:
`entResolveFor`, `entToDirect`, `entDestroy`, `dirResolveFor`, `dirToDirect`, `dirDestroy`):
obligation lists for Lemmas/GenKeys.lean and two consequences in the words of C09 — what
`to_direct` returns for a live handle, and that a stale direct key is NOT handed back (F4).
-/
import Gecs.Lemmas.GenKeys

-- OBLIGATIONS(C01): Gecs.gen_keys_resolve_for_ent Gecs.gen_keys_to_direct_ent Gecs.gen_keys_destroy_ent
-- OBLIGATIONS(C09): Gecs.gen_keys_to_direct_ent Gecs.gen_keys_to_direct_direct Gecs.gen_keys_resolve_for_direct Gecs.gen_keys_destroy_direct Gecs.GenKeys_C09_to_direct_issues_current Gecs.GenKeys_C09_stale_direct_not_returned
-- OBLIGATIONS(C03): Gecs.gen_keys_resolve_for_ent Gecs.gen_keys_resolve_for_direct
-- OBLIGATIONS(C02): Gecs.gen_keys_resolve_for_ent Gecs.gen_keys_resolve_for_direct
-- OBLIGATIONS(C17): Gecs.gen_keys_destroy_ent Gecs.gen_keys_destroy_direct

namespace Gecs

variable {α : Type}

/-- C09: `to_direct` of a live handle, as extracted, issues (its dense index, the CURRENT
archetype version). -/
theorem GenKeys_C09_to_direct_issues_current (cfg : Cfg) (s : Storage α) (h : Inv cfg s) {d : Nat} {e : Ent}
    (hd : s.ents[d]? = some e) :
    execKey cfg Gen.lookups Gen.entToDirect s (.ent e) = .ok (some (.direct d s.version)) s := by
  rw [gen_keys_to_direct_ent cfg s e h.lenCap, toDirectEnt_of_mem h hd]; rfl

/-- C09 / F4: `to_direct` of a direct key that is not current (older version, or index past
`len`), as extracted, never returns `Some`. -/
theorem GenKeys_C09_stale_direct_not_returned (cfg : Cfg) (s : Storage α) (d v : Nat) (h : Inv cfg s)
    (hn : ¬ (v = s.version ∧ d < s.len)) (x : WVal α) (s' : Storage α) :
    execKey cfg Gen.lookups Gen.dirToDirect s (.direct d v) ≠ .ok (some x) s' := by
  rw [gen_keys_to_direct_direct cfg s d v h.lenCap]
  rcases toDirectDirect_of_not cfg s d v h hn with h1 | ⟨h1, _⟩ <;> rw [h1] <;> simp [Out.mapSome]

end Gecs
