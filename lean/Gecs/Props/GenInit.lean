/-
`StorageN::with_capacity` and `clear_events` TRANSLATED statement by statement
(Gen/Steps.lean: `withCapacitySteps`, `withCapacityFields`, `clearEventsSteps`): obligation lists
for Lemmas/GenInit.lean and the consequences in the words of C12 / C17.
-/
import Gecs.Lemmas.GenInit
import Gecs.Lemmas.StorageOps

-- OBLIGATIONS(C12): Gecs.gen_steps_with_capacity Gecs.GenInit_C12_with_capacity
-- OBLIGATIONS(C17): Gecs.gen_steps_clear_events Gecs.GenInit_C17_clear_only_logs
-- OBLIGATIONS(C08): Gecs.gen_steps_with_capacity
-- OBLIGATIONS(C10): Gecs.gen_steps_with_capacity

namespace Gecs

variable {α : Type}

/-- C12: `with_capacity(n)`, as extracted, panics exactly above the limit and otherwise yields an
empty storage of capacity exactly `n` at the start version. -/
theorem GenInit_C12_with_capacity (cfg : Cfg) (ncols cap : Nat) :
    (cap > cfg.maxCap →
      ∃ s, execWithCapacity (α := α) cfg Gen.withCapacitySteps Gen.withCapacityFields ncols cap
            = .panic "capacity may not exceed" s)
    ∧ (cap ≤ cfg.maxCap →
      ∃ s, execWithCapacity (α := α) cfg Gen.withCapacitySteps Gen.withCapacityFields ncols cap = .ok () s
        ∧ s.len = 0 ∧ s.capacity = cap ∧ s.version = VERSION_START ∧ s.created = [] ∧ s.destroyed = []) := by
  rw [gen_steps_with_capacity]
  unfold withCapacity
  constructor
  · intro h; exact ⟨emptyStorage ncols, by simp [h]⟩
  · intro h
    have : ¬ cap > cfg.maxCap := by omega
    refine ⟨⟨VERSION_START, 0, cap, (populate 0 cap []).2, (populate 0 cap []).1, [], List.replicate ncols [], [], []⟩,
      by simp [this], rfl, rfl, rfl, rfl, rfl⟩

/-- C17: `clear_events`, as extracted, empties both logs and changes nothing else. -/
theorem GenInit_C17_clear_only_logs (s : Storage α) :
    ∃ s', runE Gen.clearEventsSteps s = some s' ∧ s'.created = [] ∧ s'.destroyed = []
      ∧ s'.slots = s.slots ∧ s'.ents = s.ents ∧ s'.cols = s.cols ∧ s'.len = s.len
      ∧ s'.capacity = s.capacity ∧ s'.version = s.version ∧ s'.freeHead = s.freeHead :=
  ⟨clearEvents s, gen_steps_clear_events s, rfl, rfl, rfl, rfl, rfl, rfl, rfl, rfl, rfl⟩

end Gecs
