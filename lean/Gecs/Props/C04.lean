/-
C04 — Each component value is dropped exactly once; nothing leaks or double-drops.
Model: Gecs/Model/Storage.lean with the element type instantiated by unique tokens; what an
operation hands back to the caller is its result row, what the world drops is
`dropStorage`'s result.  Tied to the real code by the instrumented Clone/Drop registry of
harness/rt (every op reports the tokens dropped inside gecs; `end` reports the balance).
History = labelled path (see Props/C17).  `owned s` = all cells of all columns.
Modelled, not verified: that the bit-copies of `swap_remove`/`realloc` run no destructor
(Miri on the harness in the thorough tier is the supporting evidence).
World-history forms (incl. writes and clones): Props/Histories.lean, Props/C04Histories.lean; panicking Clone/Drop: Props/Faults.lean.
-/
import Gecs.Lemmas.Ownership

-- OBLIGATIONS: Gecs.C04_conservation Gecs.C04_dropped_exactly_once Gecs.C04_no_double_no_live_drop
-- OBLIGATIONS: Gecs.C04_clone_each_once Gecs.C04_failed_create_returns_argument Gecs.C04_drop_is_owned
-- OBLIGATIONS: Gecs.created_owned Gecs.destroyed_owned Gecs.write_owned

namespace Gecs
variable {α : Type}

/-- Conservation: everything moved in is either still owned or was handed back. -/
theorem C04_conservation {cfg : Cfg} {s s' : Storage α} {L : List (Lbl α)}
    (hr : RowsOk s.cols.length L) (hcdc : ∀ l ∈ L, l.isCDC = true) (r : LReach cfg s L s') :
    (owned s' ++ destroyedRows L).Perm (owned s ++ createdRows L) :=
  conservation hr hcdc r

/-- … and what is still owned is exactly what dropping the world drops. -/
theorem C04_dropped_exactly_once {cfg : Cfg} {s s' : Storage α} {L : List (Lbl α)} (h : Inv cfg s)
    (hr : RowsOk s.cols.length L) (hcdc : ∀ l ∈ L, l.isCDC = true) (r : LReach cfg s L s') :
    ∃ dropped, dropStorage s' = .ok dropped ()
      ∧ (dropped ++ destroyedRows L).Perm (owned s ++ createdRows L) :=
  conservation_drop h hr hcdc r

/-- With pairwise distinct values: nothing is owned twice, nothing is handed back twice, and
nothing is handed back while still owned — in particular not while its entity is alive. -/
theorem C04_no_double_no_live_drop {cfg : Cfg} {s s' : Storage α} {L : List (Lbl α)}
    (hr : RowsOk s.cols.length L) (hcdc : ∀ l ∈ L, l.isCDC = true) (r : LReach cfg s L s')
    (hnd : (owned s ++ createdRows L).Nodup) :
    (owned s').Nodup ∧ (destroyedRows L).Nodup ∧ (∀ x ∈ destroyedRows L, x ∉ owned s')
      ∧ (∀ e row, valueOf s' e = some row → ∀ x ∈ row, x ∉ destroyedRows L) :=
  nodup_preserved hr hcdc r hnd

/-- Cloning clones each live component exactly once; the source keeps its own values. -/
theorem C04_clone_each_once {cfg : Cfg} {s s' s₀ : Storage α} {cl : α → α} (h : Inv cfg s)
    (hc : cloneStorage cl s = .ok s' s₀) : owned s' = (owned s).map cl ∧ owned s₀ = owned s :=
  cloneStorage_owned h hc

/-- A failed `create_within_capacity` changes nothing (its argument goes back to the caller). -/
theorem C04_failed_create_returns_argument {cfg : Cfg} {s : Storage α} (row : List α) (h : Inv cfg s)
    (hfull : s.len ≥ s.capacity) : pushWithin cfg s row = .ok none s :=
  (pushWithin_spec cfg s row h).2 hfull

theorem C04_drop_is_owned {cfg : Cfg} {s : Storage α} (h : Inv cfg s) :
    dropStorage s = .ok (owned s) () :=
  drop_returns_owned h

end Gecs
