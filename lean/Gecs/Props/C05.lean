/-
C05 — Queries act on exactly the archetypes whose component set satisfies them.
Model: Gecs/Model/Macro.lean (`bindQueryParams`, `bindOneOf`, `generateQuery`), tied to
macros/src/generate/query.rs + data.rs by harness/mac; the run-time half ("a find on a live
entity of an unmatched archetype returns None without running the closure") is
`findQuery` in Gecs/Model/Query.lean, tied by harness/rt.
For ALL world declarations and ALL parameter lists (OneOf of any arity, any order).
Column binding ("that archetype's own column of that type") is name-based in the emitted
code and is decided by type-checking end-to-end (harness/rt query menu), not by the model.
-/
import Gecs.Lemmas.MacBind
import Gecs.Model.Query

-- OBLIGATIONS: Gecs.Mac.C05_matched_exactly Gecs.Mac.C05_bound_types Gecs.Mac.C05_error_iff
-- OBLIGATIONS: Gecs.Mac.C05_generate Gecs.Mac.C05_empty_is_error Gecs.Mac.bindOneOf_spec
-- OBLIGATIONS: Gecs.C05_find_unmatched_none

namespace Gecs.Mac

/-- The bound set is exactly the set of archetypes satisfying the parameter list
(every named component present, exactly one component of each OneOf, the named archetype of
`Entity<A>`/`EntityDirect<A>`), in declaration order. -/
theorem C05_matched_exactly {w : DWorld} {ps : List QParam} {r : List (String × List QParam)}
    (hn : (w.archs.map (·.name)).Nodup) (h : bindQueryParams w ps = .ok r) :
    (∀ a ∈ w.archs, ((∃ bs, (a.name, bs) ∈ r) ↔ Matches a ps)) ∧
    r.map (·.1) = (w.archs.filter (fun a => decide (Matches a ps))).map (·.name) ∧
    (∀ a ∈ w.archs, ∀ bs, (a.name, bs) ∈ r → bindArch a ps = .ok bs) :=
  bind_sound_complete hn h

/-- Every non-OneOf parameter is bound unchanged; a OneOf to the unique present component,
with the same mutability. -/
theorem C05_bound_types {a : DArch} {ps bound : List QParam} (h : bindArch a ps = .ok bound)
    (hl : bound.length = ps.length) :
    ∀ (i : Nat) (p b : QParam), ps[i]? = some p → bound[i]? = some b →
      b.cfgs = p.cfgs ∧ b.isMut = p.isMut ∧ b.enabled = p.enabled ∧
      (match p.ty with
       | .oneOf cs => ∃ c, b.ty = .comp c ∧ cs.filter a.contains = [c]
       | t => b.ty = t) :=
  bind_types h hl

/-- Binding fails iff some OneOf matches two components of one archetype (or carries a cfg). -/
theorem C05_error_iff (w : DWorld) (ps : List QParam) :
    (∃ e, bindQueryParams w ps = .error e) ↔
      (w.archs ≠ [] ∧ ∃ p ∈ ps, (∃ cs, p.ty = .oneOf cs) ∧ p.cfgs ≠ []) ∨
      (∃ a ∈ w.archs, ∃ p ∈ ps, ∃ cs, p.ty = .oneOf cs ∧ (cs.filter a.contains).length ≥ 2) :=
  bind_error_iff w ps

/-- What the three generators emit code for. -/
theorem C05_generate {w : DWorld} {ps : List QParam} {m : List (DArch × List QParam)}
    (hn : (w.archs.map (·.name)).Nodup) (h : generateQuery w ps = .ok m) :
    m.map (·.1) = w.archs.filter (fun a => decide (Matches a ps)) ∧ m ≠ [] :=
  generateQuery_spec hn h

/-- A query that can match no archetype is rejected at compile time. -/
theorem C05_empty_is_error (w : DWorld) (ps : List QParam) :
    generateQuery w ps = .error .noMatch ↔
      (∃ r, bindQueryParams w ps = .ok r) ∧ ∀ a ∈ w.archs, ¬ Matches a ps :=
  empty_is_error w ps

end Gecs.Mac

namespace Gecs
variable {α σ ρ : Type}

/-- A find on a key routed to an archetype that the query does not match returns `None`
without calling the closure and without touching the world. -/
theorem C05_find_unmatched_none (cfg : Cfg) (q : Query) (f : Closure σ α ρ) (h : Handle) (st : σ)
    (w : World α) (a : Nat) (k : Key) (hr : routeWorld cfg w.ids h = .arch a k)
    (hq : q.find? (fun qa => qa.a == a) = none) :
    findQuery cfg q f h st w = .ok none st w := by
  simp [findQuery, hr, hq]

end Gecs
