/-
The loop templates of `ecs_iter!` / `ecs_iter_borrow!` / `ecs_iter_destroy!` TRANSLATED from
macros/src/generate/query.rs (Gen/Steps.lean: `iterLoopT`, `iterDestroyLoopT`): obligation
lists for Lemmas/GenLoops.lean.  Every theorem of Props/C06.lean and Props/C07.lean is stated
over `iterQuery` / `iterDestroyQuery`; by `gen_loop_iter_query` / `gen_loop_destroy_query` those
ARE the extracted templates run block by block, for every world, query and closure.
-/
import Gecs.Lemmas.GenLoops

-- OBLIGATIONS(C06): Gecs.gen_loop_iter_query Gecs.gen_loop_iter_block Gecs.gen_loop_iter_loop
-- OBLIGATIONS(C07): Gecs.gen_loop_destroy_query Gecs.gen_loop_destroy_block Gecs.gen_loop_destroy_loop
-- OBLIGATIONS(C09): Gecs.gen_loop_destroy_loop Gecs.gen_loop_iter_loop
-- OBLIGATIONS(C02): Gecs.gen_loop_iter_query
-- OBLIGATIONS(C17): Gecs.gen_loop_destroy_query
-- OBLIGATIONS(C10): Gecs.gen_loop_iter_query Gecs.gen_loop_destroy_query

namespace Gecs
#check @gen_loop_destroy_query
end Gecs
