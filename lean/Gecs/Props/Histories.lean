/-
C02, C04, C13, C17 — stated for EVERY FINITE HISTORY of whole-world operations (the per-storage
forms over labelled paths are in Props/C02, C04, C13, C17; the induction over operations that
keeps the labels is Lemmas/WorldLift.lean: `Op.Emits`, `OpsEmit`, `run_labelled_emits`).
Only property theorems, their non-vacuity instances and `#print axioms` live here.
-/
import Gecs.Lemmas.WorldLift

-- OBLIGATIONS(C02): Gecs.C02_all_histories Gecs.C02_fetch_all_histories Gecs.run_labelled_emits Gecs.OpsEmit.rowsOk
-- OBLIGATIONS(C04): Gecs.C04_all_histories Gecs.run_labelled_emits Gecs.OpsEmit.cdc Gecs.OpsEmit.rowsOk
-- OBLIGATIONS(C13): Gecs.C13_all_histories
-- OBLIGATIONS(C17): Gecs.C17_all_histories Gecs.C17_since_last_clear Gecs.run_labelled_emits Gecs.OpsEmit.noClear
-- OBLIGATIONS(C02): Gecs.fresh_all_histories Gecs.withCapacity_all_histories

namespace Gecs
variable {α σ : Type}

/-! ## E. The four properties, for every archetype of the world reached by any history

Hypotheses throughout: `WInv cfg w`, `CfgOk cfg`, `OpsOk cfg ops`, `OpsScoped w.sch ops` (those of
`run_inv`); the history is arbitrary otherwise (forged / stale / foreign handle words, arbitrary
closures, panicking operations included).  Conclusions: the history runs (`run … = some w'`,
never `ub`), and for EVERY archetype index `a`, with `s` / `s'` the storages of the initial /
final world, there is a labelled path `L` from `s` to `s'`, made of the labels emitted in order
by the operations (`OpsEmit a ops L`), for which the per-storage theorem's conclusion holds. -/

/-- C17 for all histories.  Whatever the initial logs: with the feature on, the two logs of
every archetype are the fold of its labels over the initial logs (`C17_logs`); if the labels
contain a `clear_events`, the logs are exactly the handles created / removed since the last
one, in order (`C17_since_clear`); with the feature off nothing is ever logged
(`C17_feature_off`). -/
theorem C17_all_histories {cfg : Cfg} {w : World α} {ops : List (Op α)} (hw : WInv cfg w)
    (hc : CfgOk cfg) (ho : OpsOk cfg ops) (hs : OpsScoped w.sch ops) :
    ∃ w', run cfg w ops = some w' ∧ WInv cfg w'
      ∧ ∀ (a : Nat) (s s' : Storage α), w.archs[a]? = some s → w'.archs[a]? = some s' →
        ∃ L, LReach cfg s L s' ∧ OpsEmit a ops L
          ∧ (cfg.events = true →
              s'.created = logC s.created L ∧ s'.destroyed = logD s.destroyed L)
          ∧ (cfg.events = true → ∀ L₁ L₂, L = L₁ ++ [.clear] ++ L₂ → hasClear L₂ = false →
              s'.created = createdOf L₂ ∧ s'.destroyed = destroyedOf L₂)
          ∧ (cfg.events = false →
              s'.created = (if hasClear L then [] else s.created)
              ∧ s'.destroyed = (if hasClear L then [] else s.destroyed)) := by
  obtain ⟨w', h1, h2, _, h3⟩ := run_labelled_emits hw hc ho hs
  refine ⟨w', h1, h2, ?_⟩
  intro a s s' g g'
  obtain ⟨L, r, he⟩ := h3 a s s' g g'
  refine ⟨L, r, he, fun hev => C17_logs hev r, ?_, fun hev => C17_feature_off hev r⟩
  intro hev L₁ L₂ hL hnc
  subst hL
  exact C17_since_clear hev hnc r

/-- C17 at the level of operations: after ANY history `ops₁`, a `clear_events` (of the whole
world, or of archetype `a` alone) and ANY history `ops₂` without `clear_events`, the created /
destroyed logs of archetype `a` are exactly the handles created in / removed from `a` by
`ops₂`, in order: `L₂` is the label path of `ops₂` alone, from the world `w₁` as it was just
after the clear. -/
theorem C17_since_last_clear {cfg : Cfg} {w : World α} {ops₁ ops₂ : List (Op α)}
    {oa : Option Nat} (hev : cfg.events = true) (hw : WInv cfg w) (hc : CfgOk cfg)
    (ho : OpsOk cfg (ops₁ ++ .clearEvents oa :: ops₂))
    (hs : OpsScoped w.sch (ops₁ ++ .clearEvents oa :: ops₂))
    (hnc : ∀ ob, Op.clearEvents ob ∉ ops₂) :
    ∃ w₁ w', run cfg w (ops₁ ++ [.clearEvents oa]) = some w₁ ∧ run cfg w₁ ops₂ = some w'
      ∧ run cfg w (ops₁ ++ .clearEvents oa :: ops₂) = some w' ∧ WInv cfg w'
      ∧ ∀ (a : Nat) (s₁ s' : Storage α), (oa = none ∨ oa = some a) →
          w₁.archs[a]? = some s₁ → w'.archs[a]? = some s' →
          ∃ L₂, LReach cfg s₁ L₂ s' ∧ OpsEmit a ops₂ L₂ ∧ hasClear L₂ = false
            ∧ s'.created = createdOf L₂ ∧ s'.destroyed = destroyedOf L₂ := by
  have hsplit : ops₁ ++ Op.clearEvents oa :: ops₂ = (ops₁ ++ [.clearEvents oa]) ++ ops₂ := by
    simp
  rw [hsplit] at ho hs ⊢
  obtain ⟨w₁, w', r1, r2, r3, rel1, rel2⟩ := run_prefix hw hc ho hs
  obtain ⟨ho1, ho2⟩ := OpsOk_append.mp ho
  obtain ⟨hs1, hs2⟩ := OpsScoped_append.mp hs
  have hs2' : OpsScoped w₁.sch ops₂ := by
    have : w₁.sch = w.sch := rel1.ncols_map
    rw [this]; exact hs2
  obtain ⟨w'', q1, _, q3⟩ := run_emits hc ops₂ w₁ rel1.winv ho2 hs2'
  rw [r2] at q1; cases q1
  refine ⟨w₁, w', r1, r2, r3, rel2.winv, ?_⟩
  intro a s₁ s' hoa g g'
  -- the logs of archetype `a` are empty in `w₁`
  have hempty : s₁.created = [] ∧ s₁.destroyed = [] := by
    obtain ⟨w₀, wx, _, p2, p3, rel0, _⟩ := run_prefix hw hc ho1 hs1
    rw [r1] at p3; cases p3
    rcases hoa with rfl | rfl
    · simp only [run, stepOp, Option.some.injEq] at p2
      subst p2
      simp only [World.clearEvents, List.getElem?_map] at g
      cases g0 : w₀.archs[a]? with
      | none => rw [g0] at g; cases g
      | some s₀ =>
        rw [g0] at g
        simp only [Option.map_some, Option.some.injEq] at g
        subst g; exact ⟨rfl, rfl⟩
    · cases g0 : w₀.archs[a]? with
      | none =>
        simp only [run, stepOp, g0, Option.some.injEq] at p2
        subst p2; rw [g0] at g; cases g
      | some s₀ =>
        simp only [run, stepOp, g0, Option.some.injEq] at p2
        subst p2
        rw [World.setArch_get_self _ (rel0.winv.lt_of_get g0)] at g
        cases g; exact ⟨rfl, rfl⟩
  obtain ⟨L₂, r, he⟩ := q3 a s₁ s' g g'
  have hncL := he.noClear hnc
  obtain ⟨e1, e2⟩ := logs_noclear hev hncL r
  rw [hempty.1, List.nil_append] at e1
  rw [hempty.2, List.nil_append] at e2
  exact ⟨L₂, r, he, hncL, e1, e2⟩

/-- C02 for all histories: in every archetype of the final world, the values of every entity —
and what every read of a resolved handle returns — are what the fold of that archetype's labels
over the initial (entity ↦ row) view says (`C02_refinement`, `C02_read_after_history`).
`RowsOk` (needed by the per-storage theorems) is a consequence of `OpsScoped`. -/
theorem C02_all_histories {cfg : Cfg} {w : World α} {ops : List (Op α)} (hw : WInv cfg w)
    (hc : CfgOk cfg) (ho : OpsOk cfg ops) (hs : OpsScoped w.sch ops) :
    ∃ w', run cfg w ops = some w' ∧ WInv cfg w'
      ∧ ∀ (a : Nat) (s s' : Storage α), w.archs[a]? = some s → w'.archs[a]? = some s' →
        ∃ L, LReach cfg s L s' ∧ OpsEmit a ops L ∧ RowsOk s.cols.length L
          ∧ (∀ e, valueOf s' e = (L.foldl applyLbl (view s)).lookup e)
          ∧ (∀ (e : Ent) (si d : Nat) (s₁ : Storage α),
              resolveEntity cfg s' e = .ok (some (si, d)) s₁ →
              readRow s' d = (L.foldl applyLbl (view s)).lookup e) := by
  obtain ⟨w', h1, h2, _, h3⟩ := run_labelled_emits hw hc ho hs
  refine ⟨w', h1, h2, ?_⟩
  intro a s s' g g'
  obtain ⟨L, r, he⟩ := h3 a s s' g g'
  have hi := hw.get g
  have hr : RowsOk s.cols.length L := he.rowsOk hs (World.sch_of_get g)
  exact ⟨L, r, he, hr, fun e => C02_refinement hi hr r e,
    fun e si d s₁ hres => C02_read_after_history hi hr r hres⟩

/-- C02 through the world API: after any history, whatever `view` / `borrow` / `ecs_find!`
hands out — through ANY route and key kind — is an entity `e` of some archetype `a` together
with the row the label history of that archetype assigns to `e`. -/
theorem C02_fetch_all_histories {cfg : Cfg} {w : World α} {ops : List (Op α)} (hw : WInv cfg w)
    (hc : CfgOk cfg) (ho : OpsOk cfg ops) (hs : OpsScoped w.sch ops) :
    ∃ w', run cfg w ops = some w' ∧ WInv cfg w'
      ∧ ∀ (r : Route) (direct : Bool) (d : Nat) (e : Ent) (row : List α) (w'' : World α),
          w'.fetch cfg r direct = .ok (some (d, e, row)) w'' →
          w'' = w' ∧ ∃ a k s s' L, r = .arch a k ∧ w.archs[a]? = some s ∧ w'.archs[a]? = some s'
            ∧ LReach cfg s L s' ∧ OpsEmit a ops L ∧ s'.ents[d]? = some e
            ∧ (L.foldl applyLbl (view s)).lookup e = some row := by
  obtain ⟨w', h1, h2, h3⟩ := run_emits hc ops w hw ho hs
  refine ⟨w', h1, h2.winv, ?_⟩
  intro r direct d e row w'' hf
  obtain ⟨e1, a, k, s', e2, g', hd, hrow, _⟩ := fetch_ok h2.winv hf
  have hlt : a < w.archs.length := by rw [← h2.len]; exact (List.getElem?_eq_some_iff.mp g').1
  have g : w.archs[a]? = some w.archs[a] := List.getElem?_eq_getElem hlt
  obtain ⟨L, rch, he⟩ := h3 a _ s' g g'
  have hi := hw.get g
  have hr : RowsOk (w.archs[a]).cols.length L := he.rowsOk hs (World.sch_of_get g)
  refine ⟨e1, a, k, _, s', L, e2, g, g', rch, he, hd, ?_⟩
  rw [← C02_refinement hi hr rch e, ← C02_read_paths (h2.winv.get g') hd, hrow]

/-- C04 for all histories that neither overwrite nor clone (`Op.IsCDC`; the per-storage
conservation theorem is stated for exactly these label paths): in every archetype, everything
that was in the storage or was moved in by a creation is either still owned or was handed back
by exactly one removal (`C04_conservation`); dropping the archetype drops exactly the rest
(`C04_dropped_exactly_once`); with pairwise distinct values nothing is owned or handed back
twice, nor handed back while its entity is alive (`C04_no_double_no_live_drop`). -/
theorem C04_all_histories {cfg : Cfg} {w : World α} {ops : List (Op α)} (hw : WInv cfg w)
    (hc : CfgOk cfg) (ho : OpsOk cfg ops) (hs : OpsScoped w.sch ops)
    (hcdc : ∀ op ∈ ops, op.IsCDC) :
    ∃ w', run cfg w ops = some w' ∧ WInv cfg w'
      ∧ ∀ (a : Nat) (s s' : Storage α), w.archs[a]? = some s → w'.archs[a]? = some s' →
        ∃ L, LReach cfg s L s' ∧ OpsEmit a ops L ∧ RowsOk s.cols.length L
          ∧ (∀ l ∈ L, l.isCDC = true)
          ∧ (owned s' ++ destroyedRows L).Perm (owned s ++ createdRows L)
          ∧ (∃ dropped, dropStorage s' = .ok dropped ()
              ∧ (dropped ++ destroyedRows L).Perm (owned s ++ createdRows L))
          ∧ ((owned s ++ createdRows L).Nodup →
              (owned s').Nodup ∧ (destroyedRows L).Nodup ∧ (∀ x ∈ destroyedRows L, x ∉ owned s')
              ∧ (∀ e row, valueOf s' e = some row → ∀ x ∈ row, x ∉ destroyedRows L)) := by
  obtain ⟨w', h1, h2, _, h3⟩ := run_labelled_emits hw hc ho hs
  refine ⟨w', h1, h2, ?_⟩
  intro a s s' g g'
  obtain ⟨L, r, he⟩ := h3 a s s' g g'
  have hi := hw.get g
  have hr : RowsOk s.cols.length L := he.rowsOk hs (World.sch_of_get g)
  have hl := he.cdc hcdc
  exact ⟨L, r, he, hr, hl, C04_conservation hr hl r, C04_dropped_exactly_once hi hr hl r,
    fun hnd => C04_no_double_no_live_drop hr hl r hnd⟩

/-- C13 for all histories: cloning the world reached by any history succeeds (no panic, no
`ub`); the clone satisfies `WInv`, has the same ids and archetypes, and EVERY archetype of the
clone is `cloneStorage` of the corresponding archetype, hence has identical fields
(`C13_identical_fields`), answers every lookup identically (`C13_identical_lookups`) and shows
equal values under every observation that `Clone` preserves (`C13_equal_values`). -/
theorem C13_all_histories {cfg : Cfg} {w : World α} {ops : List (Op α)} (hw : WInv cfg w)
    (hc : CfgOk cfg) (ho : OpsOk cfg ops) (hs : OpsScoped w.sch ops) (cl : α → α) :
    ∃ w' wc, run cfg w ops = some w' ∧ WInv cfg w' ∧ w'.clone cl = .ok wc () ∧ WInv cfg wc
      ∧ wc.ids = w'.ids ∧ wc.archs.length = w'.archs.length
      ∧ ∀ (a : Nat) (s' : Storage α), w'.archs[a]? = some s' →
        ∃ sc, wc.archs[a]? = some sc ∧ cloneStorage cl s' = .ok sc s'
          -- C13_identical_fields
          ∧ (sc.ents = s'.ents ∧ sc.slots = s'.slots ∧ sc.len = s'.len
              ∧ sc.capacity = s'.capacity ∧ sc.version = s'.version ∧ sc.freeHead = s'.freeHead
              ∧ sc.created = s'.created ∧ sc.destroyed = s'.destroyed
              ∧ (∀ d, rowAt sc d = (rowAt s' d).map cl))
          -- C13_identical_lookups
          ∧ (Inv cfg sc
              ∧ (∀ e, resolveEntity cfg sc e = (resolveEntity cfg s' e).withState sc)
              ∧ (∀ d v, resolveDirect cfg sc d v = (resolveDirect cfg s' d v).withState sc)
              ∧ (∀ e, valueOf sc e = (valueOf s' e).map (·.map cl))
              ∧ (∀ d, readRow sc d = (readRow s' d).map (·.map cl)))
          -- C13_equal_values
          ∧ (∀ {β : Type} (obs : α → β), (∀ x, obs (cl x) = obs x) → ∀ e,
              (valueOf sc e).map (·.map obs) = (valueOf s' e).map (·.map obs)) := by
  obtain ⟨w', h1, h2, _⟩ := run_labelled hw hc ho hs
  have hrel : WRel cfg w' ⟨w'.ids, w'.archs.map (fun s => { s with cols := s.cols.map (·.map cl) })⟩ :=
    WRel.map h2 _
      (fun s hi => ⟨cloneStorage_inv hi, SReach.of_step hi (.clone s cl), by simp⟩)
  refine ⟨w', _, h1, h2, World.clone_spec h2 cl, hrel.winv, rfl, by simp, ?_⟩
  intro a s' g'
  have hi := h2.get g'
  have hcl : cloneStorage cl s' = .ok { s' with cols := s'.cols.map (·.map cl) } s' :=
    cloneStorage_spec hi
  refine ⟨_, by simp [g'], hcl, (C13_identical_fields hi hcl).2, C13_identical_lookups hi hcl, ?_⟩
  intro β obs hobs e
  exact C13_equal_values hi hcl obs hobs e

/-! ### From a fresh world

The theorems above start from any world satisfying `WInv`, with arbitrary contents and logs.
From a world fresh from `World::with_capacity` (no entity, empty logs) the initial view, the
initially owned values and the initial logs are empty, so the conclusions read "since the world
was created" — with ONE label path per archetype for the three properties. -/

theorem view_of_len_zero {cfg : Cfg} {s : Storage α} (h : Inv cfg s) (h0 : s.len = 0) :
    view s = [] := by
  have : s.ents = [] := List.eq_nil_of_length_eq_zero (by rw [h.entsLen, h0])
  simp [view, this]

theorem owned_of_len_zero {cfg : Cfg} {s : Storage α} (h : Inv cfg s) (h0 : s.len = 0) :
    owned s = [] := by
  unfold owned
  rw [List.flatMap_eq_nil_iff]
  intro c hc
  exact List.eq_nil_of_length_eq_zero (by show c.length = 0; rw [h.colsLen c hc, h0])

/-- C02 / C04 / C17 for all histories of a world that starts empty (every archetype has no
entity and empty logs, as after `World::with_capacity`, see `withCapacity_all_histories`). -/
theorem fresh_all_histories {cfg : Cfg} {w : World α} {ops : List (Op α)} (hw : WInv cfg w)
    (hc : CfgOk cfg) (ho : OpsOk cfg ops) (hs : OpsScoped w.sch ops)
    (hf : ∀ s ∈ w.archs, s.len = 0 ∧ s.created = [] ∧ s.destroyed = []) :
    ∃ w', run cfg w ops = some w' ∧ WInv cfg w'
      ∧ ∀ (a : Nat) (s s' : Storage α), w.archs[a]? = some s → w'.archs[a]? = some s' →
        ∃ L, LReach cfg s L s' ∧ OpsEmit a ops L ∧ RowsOk s.cols.length L
          -- C02: the values are those written by the history
          ∧ (∀ e, valueOf s' e = (L.foldl applyLbl []).lookup e)
          -- C17: the logs are those of the history
          ∧ (cfg.events = true → s'.created = logC [] L ∧ s'.destroyed = logD [] L)
          ∧ (cfg.events = true → hasClear L = false →
              s'.created = createdOf L ∧ s'.destroyed = destroyedOf L)
          -- C04: everything moved in is still owned (and dropped with the world) or was handed
          -- back exactly once
          ∧ ((∀ op ∈ ops, op.IsCDC) →
              (owned s' ++ destroyedRows L).Perm (createdRows L)
              ∧ ∃ dropped, dropStorage s' = .ok dropped ()
                  ∧ (dropped ++ destroyedRows L).Perm (createdRows L)) := by
  obtain ⟨w', h1, h2, _, h3⟩ := run_labelled_emits hw hc ho hs
  refine ⟨w', h1, h2, ?_⟩
  intro a s s' g g'
  obtain ⟨L, r, he⟩ := h3 a s s' g g'
  have hi := hw.get g
  obtain ⟨h0, hcr, hde⟩ := hf s (List.mem_of_getElem? g)
  have hr : RowsOk s.cols.length L := he.rowsOk hs (World.sch_of_get g)
  refine ⟨L, r, he, hr, ?_, ?_, ?_, ?_⟩
  · intro e
    rw [C02_refinement hi hr r e, view_of_len_zero hi h0]
  · intro hev
    have := C17_logs hev r
    rw [hcr, hde] at this; exact this
  · intro hev hnc
    have := logs_noclear hev hnc r
    rw [hcr, hde, List.nil_append, List.nil_append] at this; exact this
  · intro hcdc
    have hl := he.cdc hcdc
    have e1 := C04_conservation hr hl r
    obtain ⟨dropped, e2, e3⟩ := C04_dropped_exactly_once hi hr hl r
    rw [owned_of_len_zero hi h0, List.nil_append] at e1 e3
    exact ⟨e1, dropped, e2, e3⟩

/-- … instantiated at `World::with_capacity`: for every admissible declaration (`ids`, column
counts `ncols`, capacities `caps`) the world is created, every finite history scoped by the
declaration runs on it, and the conclusions of `fresh_all_histories` hold. -/
theorem withCapacity_all_histories (cfg : Cfg) (ids ncols caps : List Nat) {ops : List (Op α)}
    (hnd : ids.Nodup) (hlt : ∀ i ∈ ids, i < ID_RANGE) (hl1 : ids.length = ncols.length)
    (hl2 : ncols.length = caps.length) (hcap : ∀ c ∈ caps, c ≤ cfg.maxCap) (hc : CfgOk cfg)
    (ho : OpsOk cfg ops) (hs : OpsScoped ncols ops) :
    ∃ w w', World.withCapacity cfg ids ncols caps = .ok () w ∧ run cfg w ops = some w'
      ∧ WInv cfg w'
      ∧ ∀ (a : Nat) (s s' : Storage α), w.archs[a]? = some s → w'.archs[a]? = some s' →
        ∃ L, LReach cfg s L s' ∧ OpsEmit a ops L ∧ RowsOk s.cols.length L
          ∧ (∀ e, valueOf s' e = (L.foldl applyLbl []).lookup e)
          ∧ (cfg.events = true → s'.created = logC [] L ∧ s'.destroyed = logD [] L)
          ∧ (cfg.events = true → hasClear L = false →
              s'.created = createdOf L ∧ s'.destroyed = destroyedOf L)
          ∧ ((∀ op ∈ ops, op.IsCDC) →
              (owned s' ++ destroyedRows L).Perm (createdRows L)
              ∧ ∃ dropped, dropStorage s' = .ok dropped ()
                  ∧ (dropped ++ destroyedRows L).Perm (createdRows L)) := by
  obtain ⟨w, g1, g2, _, g4, _, g6, g7⟩ :=
    World.withCapacity_winv (α := α) cfg ids ncols caps hnd hlt hl1 hl2 hcap hc
  have hs' : OpsScoped w.sch ops := by
    have : w.sch = ncols := g6
    rw [this]; exact hs
  obtain ⟨w', h1, h2, h3⟩ :=
    fresh_all_histories g2 hc ho hs' (fun s hm => ⟨g4 s hm, (g7 s hm).2.1, (g7 s hm).2.2⟩)
  exact ⟨w, w', g1, h1, h2, h3⟩

/-! ## F. Non-vacuity -/
namespace WorldEx
open StorageEx

/-- A history on `wEx` that neither overwrites nor clones: creations in both archetypes, a
`clear_events`, then a creation, a removal by a dynamic key and an `ecs_iter_destroy!` (binding
its column by `&`) whose closure removes the entity whose first component is `11`. -/
def histCDC₁ : List (Op Nat) :=
  [ .create 0 [10, 20] (codeGrowth cfgEx), .createWithin 1 [5] ]

def histCDC₂ : List (Op Nat) :=
  [ .create 0 [11, 21] (codeGrowth cfgEx),
    .create 0 [12, 22] (codeGrowth cfgEx),
    .destroy ⟨true, false, ⟨.any, 0, mkKey 0 3 1⟩, none⟩,
    .iterDestroy [⟨0, [.comp 0 false]⟩] Nat
      (fun st args => match args with
        | [.comp _ 11] => .ret (st + 1) [] .contDestroy
        | _ => .ret st [] .cont) 0 ]

def histCDC : List (Op Nat) := histCDC₁ ++ .clearEvents none :: histCDC₂

-- the history evaluates: (len, handles, columns, created log, destroyed log) per archetype
example : (run cfgEx wEx histCDC).map
      (fun w => w.archs.map (fun s => (s.len, s.ents, s.cols, s.created, s.destroyed)))
    = some [(1, [⟨2, 1⟩], [[12], [22]], [⟨1, 1⟩, ⟨2, 1⟩], [⟨0, 1⟩, ⟨1, 1⟩]),
            (0, [], [[]], [], [])] := rfl

theorem histCDC_ok : OpsOk cfgEx histCDC := by
  have hg : GrowOk cfgEx (codeGrowth cfgEx) := fun c hc => codeGrowth_ok cfgEx c hc
  exact ⟨hg, hg, hg, trivial⟩

theorem histCDC_scoped : OpsScoped wEx.sch histCDC := by
  intro op hop
  simp only [histCDC, histCDC₁, histCDC₂, List.cons_append, List.nil_append, List.mem_cons,
    List.not_mem_nil, or_false] at hop
  rcases hop with rfl | rfl | rfl | rfl | rfl | rfl | rfl
  · exact (rfl : wEx.sch[0]? = some 2)
  · exact (rfl : wEx.sch[1]? = some 1)
  · trivial
  · exact (rfl : wEx.sch[0]? = some 2)
  · exact (rfl : wEx.sch[0]? = some 2)
  · exact KeyUse.scoped_of_untyped rfl
  · intro qa hqa
    simp only [List.mem_cons, List.not_mem_nil, or_false] at hqa
    subst hqa; exact (by decide : 0 < 2)

theorem histCDC_cdc : ∀ op ∈ histCDC, op.IsCDC := by
  intro op hop
  simp only [histCDC, histCDC₁, histCDC₂, List.cons_append, List.nil_append, List.mem_cons,
    List.not_mem_nil, or_false] at hop
  rcases hop with rfl | rfl | rfl | rfl | rfl | rfl | rfl
  · trivial
  · trivial
  · trivial
  · trivial
  · trivial
  · trivial
  · intro qa hqa c hc
    simp only [List.mem_cons, List.not_mem_nil, or_false] at hqa
    subst hqa
    simp at hc

theorem histCDC₂_noClear : ∀ ob, Op.clearEvents ob ∉ histCDC₂ := by
  intro ob h
  simp only [histCDC₂, List.mem_cons, List.not_mem_nil, reduceCtorEq, or_self] at h

/-- `run_labelled_emits` on the example history of Lemmas/QueryOps.lean (creates, a refused
create, `ecs_iter!`, `ecs_find!`, removals by live / stale / forged keys, a panicking
`ecs_iter_destroy!` closure, clone, `clear_events`). -/
example : ∃ w', run cfgEx wEx histEx = some w'
    ∧ ∀ (a : Nat) (s s' : Storage Nat), wEx.archs[a]? = some s → w'.archs[a]? = some s' →
        ∃ L, LReach cfgEx s L s' ∧ OpsEmit a histEx L := by
  obtain ⟨w', h1, _, _, h3⟩ :=
    run_labelled_emits (wEx_winv cfgEx (by decide) cfgEx_ok) cfgEx_ok histEx_ok histEx_scoped
  exact ⟨w', h1, h3⟩

/-- C17 on `histEx` (`cfgEx` has the `events` feature on; the initial logs of `wEx` are empty,
but the theorem does not need that). -/
example : ∃ w', run cfgEx wEx histEx = some w'
    ∧ ∀ (a : Nat) (s s' : Storage Nat), wEx.archs[a]? = some s → w'.archs[a]? = some s' →
        ∃ L, LReach cfgEx s L s' ∧ OpsEmit a histEx L
          ∧ s'.created = logC s.created L ∧ s'.destroyed = logD s.destroyed L := by
  obtain ⟨w', h1, _, h3⟩ :=
    C17_all_histories (wEx_winv cfgEx (by decide) cfgEx_ok) cfgEx_ok histEx_ok histEx_scoped
  refine ⟨w', h1, fun a s s' g g' => ?_⟩
  obtain ⟨L, r, he, hl, _⟩ := h3 a s s' g g'
  exact ⟨L, r, he, hl rfl⟩

/-- C17 "since the last clear" on `histCDC = histCDC₁ ++ clear_events :: histCDC₂`. -/
example : ∃ w₁ w', run cfgEx wEx (histCDC₁ ++ [.clearEvents none]) = some w₁
    ∧ run cfgEx w₁ histCDC₂ = some w' ∧ run cfgEx wEx histCDC = some w'
    ∧ ∀ (a : Nat) (s₁ s' : Storage Nat), w₁.archs[a]? = some s₁ → w'.archs[a]? = some s' →
        ∃ L₂, LReach cfgEx s₁ L₂ s' ∧ OpsEmit a histCDC₂ L₂
          ∧ s'.created = createdOf L₂ ∧ s'.destroyed = destroyedOf L₂ := by
  obtain ⟨w₁, w', h1, h2, h3, _, h5⟩ :=
    C17_since_last_clear (oa := none) rfl (wEx_winv cfgEx (by decide) cfgEx_ok) cfgEx_ok
      histCDC_ok histCDC_scoped histCDC₂_noClear
  refine ⟨w₁, w', h1, h2, h3, fun a s₁ s' g g' => ?_⟩
  obtain ⟨L₂, r, he, _, e1, e2⟩ := h5 a s₁ s' (.inl rfl) g g'
  exact ⟨L₂, r, he, e1, e2⟩

/-- C02 on `histEx` (writes through `ecs_iter!`, `ecs_find!`, a typed direct key; removals with
relocation; clone). -/
example : ∃ w', run cfgEx wEx histEx = some w'
    ∧ ∀ (a : Nat) (s s' : Storage Nat), wEx.archs[a]? = some s → w'.archs[a]? = some s' →
        ∃ L, LReach cfgEx s L s' ∧ OpsEmit a histEx L ∧ RowsOk s.cols.length L
          ∧ ∀ e, valueOf s' e = (L.foldl applyLbl (view s)).lookup e := by
  obtain ⟨w', h1, _, h3⟩ :=
    C02_all_histories (wEx_winv cfgEx (by decide) cfgEx_ok) cfgEx_ok histEx_ok histEx_scoped
  refine ⟨w', h1, fun a s s' g g' => ?_⟩
  obtain ⟨L, r, he, hr, hv, _⟩ := h3 a s s' g g'
  exact ⟨L, r, he, hr, hv⟩

/-- C02 through the world API on `histEx`: the surviving entity `(2, 1)` of archetype 0 is
fetched with its latest values. -/
example : ∃ w', run cfgEx wEx histEx = some w'
    ∧ w'.fetch cfgEx (.arch 0 (mkKey 2 3 1)) false = .ok (some (0, ⟨2, 1⟩, [93, 56])) w'
    ∧ ∃ s s' L, wEx.archs[0]? = some s ∧ w'.archs[0]? = some s' ∧ LReach cfgEx s L s'
        ∧ OpsEmit 0 histEx L ∧ (L.foldl applyLbl (view s)).lookup ⟨2, 1⟩ = some [93, 56] := by
  obtain ⟨w', h1, _, h3⟩ :=
    C02_fetch_all_histories (wEx_winv cfgEx (by decide) cfgEx_ok) cfgEx_ok histEx_ok histEx_scoped
  have hrun : run cfgEx wEx histEx = some w' := h1
  have hw' : w' = (run cfgEx wEx histEx).get rfl := by simp [hrun]
  have hf : w'.fetch cfgEx (.arch 0 (mkKey 2 3 1)) false = .ok (some (0, ⟨2, 1⟩, [93, 56])) w' := by
    subst hw'; rfl
  obtain ⟨_, a, k, s, s', L, e2, g, g', r, he, _, hl⟩ := h3 _ _ _ _ _ _ hf
  cases e2
  exact ⟨w', h1, hf, s, s', L, g, g', r, he, hl⟩

/-- C04 on `histCDC` (`histEx` overwrites and clones, so it is outside the scope of the
conservation theorem; `histCDC` creates, removes by key and by `ecs_iter_destroy!`, clears). -/
example : ∃ w', run cfgEx wEx histCDC = some w'
    ∧ ∀ (a : Nat) (s s' : Storage Nat), wEx.archs[a]? = some s → w'.archs[a]? = some s' →
        ∃ L, LReach cfgEx s L s' ∧ OpsEmit a histCDC L
          ∧ (owned s' ++ destroyedRows L).Perm (owned s ++ createdRows L)
          ∧ ∃ dropped, dropStorage s' = .ok dropped ()
              ∧ (dropped ++ destroyedRows L).Perm (owned s ++ createdRows L) := by
  obtain ⟨w', h1, _, h3⟩ :=
    C04_all_histories (wEx_winv cfgEx (by decide) cfgEx_ok) cfgEx_ok histCDC_ok histCDC_scoped
      histCDC_cdc
  refine ⟨w', h1, fun a s s' g g' => ?_⟩
  obtain ⟨L, r, he, _, _, hp, hd, _⟩ := h3 a s s' g g'
  exact ⟨L, r, he, hp, hd⟩

/-- C13 on `histEx`: the world it reaches can be cloned, every archetype identically. -/
example : ∃ w' wc, run cfgEx wEx histEx = some w' ∧ w'.clone (· + 100) = .ok wc ()
    ∧ WInv cfgEx wc
    ∧ ∀ (a : Nat) (s' : Storage Nat), w'.archs[a]? = some s' →
        ∃ sc, wc.archs[a]? = some sc ∧ sc.ents = s'.ents ∧ sc.version = s'.version
          ∧ ∀ e, valueOf sc e = (valueOf s' e).map (·.map (· + 100)) := by
  obtain ⟨w', wc, h1, _, h3, h4, _, _, h7⟩ :=
    C13_all_histories (wEx_winv cfgEx (by decide) cfgEx_ok) cfgEx_ok histEx_ok histEx_scoped
      (· + 100)
  refine ⟨w', wc, h1, h3, h4, fun a s' g' => ?_⟩
  obtain ⟨sc, g1, _, hf, hl, _⟩ := h7 a s' g'
  exact ⟨sc, g1, hf.1, hf.2.2.2.2.1, hl.2.2.2.1⟩

/-- From `World::with_capacity`: `wEx` IS the world created by `with_capacity` for ids `[3, 7]`,
column counts `[2, 1]`, capacities `[2, 0]` (`wEx_eq`), and `histCDC` is scoped by `[2, 1]`. -/
example : ∃ w w', World.withCapacity cfgEx [3, 7] [2, 1] [2, 0] = .ok () w
    ∧ run cfgEx w histCDC = some w'
    ∧ ∀ (a : Nat) (s s' : Storage Nat), w.archs[a]? = some s → w'.archs[a]? = some s' →
        ∃ L, LReach cfgEx s L s' ∧ OpsEmit a histCDC L
          ∧ (∀ e, valueOf s' e = (L.foldl applyLbl []).lookup e)
          ∧ s'.created = logC [] L
          ∧ (owned s' ++ destroyedRows L).Perm (createdRows L) := by
  obtain ⟨w, w', h1, h2, _, h4⟩ :=
    withCapacity_all_histories cfgEx [3, 7] [2, 1] [2, 0] (by decide) (by decide) rfl rfl
      (by decide) cfgEx_ok histCDC_ok histCDC_scoped
  refine ⟨w, w', h1, h2, fun a s s' g g' => ?_⟩
  obtain ⟨L, r, he, _, hv, hl, _, ho⟩ := h4 a s s' g g'
  exact ⟨L, r, he, hv, (hl rfl).1, (ho histCDC_cdc).1⟩

end WorldEx
end Gecs

section
open Gecs
#print axioms C17_all_histories
#print axioms C17_since_last_clear
#print axioms C02_all_histories
#print axioms C02_fetch_all_histories
#print axioms C04_all_histories
#print axioms C13_all_histories
#print axioms fresh_all_histories
#print axioms withCapacity_all_histories
end
