/-
C17 — Event logs record exactly the creations and destructions since the last clear.
Models: Gecs/Model/Storage.lean (`created`/`destroyed` appended by `forceCreate` /
`forceDestroy`, `clearEvents`) and Gecs/Model/Events.lean (the generated world-level
`EcsEventIterator` as a state machine), tied to the real code by the `events` / `clear`
lines of harness/rt built with `--features events`.
A history of one archetype is a labelled path `LReach cfg s L s'` (Lemmas/Labelled.lean):
`L` lists, in order, what every successful operation did (`.created e row` = a create
returned `e`; `.destroyed t row` = `t` was removed by ANY path — all four key kinds, at
both levels, and each removal of `ecs_iter_destroy!` go through `destroyEnt`/`destroyDirect`;
a refused or failed operation contributes no label).  Lemmas/WorldOps.lean shows every API
operation changes each archetype by such a path.
World-history forms: Props/Histories.lean (C17_all_histories, C17_since_last_clear); the labelled lift is Lemmas/WorldLift.lean.
-/
import Gecs.Lemmas.EventLogs
import Gecs.Lemmas.Events

-- OBLIGATIONS: Gecs.C17_logs Gecs.C17_since_clear Gecs.C17_clear_only_logs Gecs.C17_feature_off
-- OBLIGATIONS: Gecs.C17_world_iterator Gecs.C17_size_hint_every_position Gecs.EvIter.next_spec
-- OBLIGATIONS: Gecs.EvIter.sizeHint_exact Gecs.EvIter.next_which_lt

namespace Gecs
variable {α : Type}

/-- With the feature on, along every history the two logs are the fold of the labels. -/
theorem C17_logs {cfg : Cfg} {s s' : Storage α} {L : List (Lbl α)}
    (hev : cfg.events = true) (r : LReach cfg s L s') :
    s'.created = logC s.created L ∧ s'.destroyed = logD s.destroyed L :=
  lreach_logs_on hev r

/-- After a clear, the created log is exactly the handles returned by the creations since
then, in order, and the destroyed log exactly the handles removed since then, in order
(each once: a handle is removed at most once, see C01). -/
theorem C17_since_clear {cfg : Cfg} {s s' : Storage α} {L₁ L₂ : List (Lbl α)}
    (hev : cfg.events = true) (hnc : hasClear L₂ = false)
    (r : LReach cfg s (L₁ ++ [.clear] ++ L₂) s') :
    s'.created = createdOf L₂ ∧ s'.destroyed = destroyedOf L₂ :=
  logs_since_clear hev hnc r

/-- `clear_events` empties the logs without affecting entities. -/
theorem C17_clear_only_logs (s : Storage α) :
    (clearEvents s).ents = s.ents ∧ (clearEvents s).cols = s.cols
      ∧ (clearEvents s).slots = s.slots ∧ (clearEvents s).len = s.len
      ∧ (clearEvents s).capacity = s.capacity ∧ (clearEvents s).version = s.version
      ∧ (clearEvents s).freeHead = s.freeHead
      ∧ (clearEvents s).created = [] ∧ (clearEvents s).destroyed = [] :=
  clear_only_logs s

/-- Without the feature nothing is ever logged. -/
theorem C17_feature_off {cfg : Cfg} {s s' : Storage α} {L : List (Lbl α)}
    (hev : cfg.events = false) (r : LReach cfg s L s') :
    s'.created = (if hasClear L then [] else s.created)
    ∧ s'.destroyed = (if hasClear L then [] else s.destroyed) :=
  lreach_logs_off hev r

/-- The world-level iterator yields precisely the concatenation of the per-archetype logs
(archetypes with empty logs anywhere). -/
theorem C17_world_iterator (logs : List (List Key)) :
    (EvIter.drain (logs.flatten.length + 1) (EvIter.start logs)).1 = logs.flatten :=
  EvIter.iter_yields logs

/-- `size_hint` is exact at every position: before the j-th `next` it is the number of
items not yet yielded. -/
theorem C17_size_hint_every_position (logs : List (List Key)) {j : Nat} (hj : j ≤ logs.flatten.length) :
    (EvIter.drain (logs.flatten.length + 1) (EvIter.start logs)).2[j]? =
      some (logs.flatten.length - j, some (logs.flatten.length - j)) := by
  have h := EvIter.drain_hint_getElem (EvIter.start_ok logs)
    (fuel := logs.flatten.length + 1) (by rw [EvIter.remaining_start]; exact Nat.le_refl _)
    (j := j) (by rw [EvIter.remaining_start]; exact hj)
  rw [EvIter.remaining_start] at h
  exact h

end Gecs
