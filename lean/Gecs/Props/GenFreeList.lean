/-
`Slot::populate_free_list` / `Slot::new_free` TRANSLATED (Gen/Steps.lean: `populateT`,
`slotNewFreeFields`): obligation lists for Lemmas/GenFreeList.lean.  With it every function of
the slot map's bookkeeping (`slot.rs`, the `StorageN` impl of `storage.rs`) is tied to the model
by translation + proof; what remains hand-modelled below the API is `DataPtr`'s allocation.
-/
import Gecs.Lemmas.GenFreeList

-- OBLIGATIONS(C12): Gecs.gen_populate Gecs.gen_populate_empty
-- OBLIGATIONS(C08): Gecs.gen_populate
-- OBLIGATIONS(C01): Gecs.gen_populate

namespace Gecs

/-- Non-vacuity: growing a full 2-slot storage to 5 slots keeps the two old cells and chains 2 → 3 → 4 → end. -/
example : execPopulate Gen.populateT Gen.slotNewFreeFields 16 2 5 [⟨.data 0, 3⟩, ⟨.data 1, 1⟩]
    = some ([⟨.data 0, 3⟩, ⟨.data 1, 1⟩, ⟨.free 3, 1⟩, ⟨.free 4, 1⟩, ⟨.freeEnd, 1⟩], .free 2) := by decide

end Gecs
