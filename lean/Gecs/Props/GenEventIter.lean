/-
`EcsEventIterator::next` TRANSLATED (Gen/Steps.lean: `evT`): obligation list for
Lemmas/GenEventIter.lean (C17: the world-level iterators present the concatenation of the
per-archetype logs — proved over `EvIter.blocks` in Props/C17.lean).
-/
import Gecs.Lemmas.GenEventIter

-- OBLIGATIONS(C17): Gecs.gen_event_iter_blocks

namespace Gecs
#check @gen_event_iter_blocks
end Gecs
