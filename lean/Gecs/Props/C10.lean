/-
C10 — A panic escaping any operation leaves the world consistent and memory-safe.
Models: Gecs/Model/Storage.lean (`Out.panic` carries the state AT the point of the panic;
`forceDestroy` = the repaired statement order, `forceDestroyPreFix` = the original order),
Gecs/Model/Query.lean (closure panics inside `ecs_iter!` / `ecs_iter_destroy!` / `ecs_find!`:
the writes already made through `&mut` stay), Gecs/Model/History.lean (`run` CONTINUES after
every panic in the state the panic left: `catch_unwind` followed by arbitrary further use).
Tied to the real code by the fault-injection / overflow profiles of harness/rt (panicking
closures, `verif_preset_versions`; the real 2^24 limit by `rt boundary`, the real 2^32 boundary by `rt cycles`).

Panic sources in the model: the two version overflows of `force_destroy`, "capacity overflow"
of `create`, "capacity may not exceed" of `with_capacity`, "invalid entity type" of the
generated `match`, every `debug_assert!`, slice index panics, and user closures panicking at
ANY call with ANY writes already made.  For ALL of them (C10_panic_leaves_invariant) the
carried world satisfies `WInv`; since every other property theorem is stated for worlds
satisfying `WInv` / storages satisfying `Inv`, "every other property still holds afterwards".

The history-level statements carry the well-scopedness hypothesis of `stepOp_spec` / `run_inv`
(`Op.Scoped`: archetype / column numbers exist — guaranteed statically in Rust).

What the model cannot exhibit (out of scope here): unwinding through real stack frames and
drop order of temporaries; release of `RefCell` guards during unwinding (covered by C11's
guard-tree model and its tie); allocation failure (`handle_alloc_error` aborts, it does not
unwind); the `Layout` overflow panic inside `DataPtr::grow` (it fires before any field is
written; unreachable below 2^24 entries for realistic component sizes); panics inside
`Drop`/`Clone` impls of component types (double panics abort).
-/
import Gecs.Lemmas.CheckSound
import Gecs.Lemmas.Robust
import Gecs.Lemmas.GenTie

-- OBLIGATIONS: Gecs.C10_panic_leaves_invariant Gecs.C10_entity_whole_or_absent Gecs.C10_use_after_panic
-- OBLIGATIONS: Gecs.C10_run_continues_after_panic Gecs.C10_overflow_is_atomic Gecs.C10_destroy_panic_is_atomic
-- OBLIGATIONS: Gecs.C10_capacity_overflow_is_atomic Gecs.C10_prefix_defect_witness
-- OBLIGATIONS: Gecs.C10_closure_panic_keeps_writes_consistent Gecs.C10_find_closure_panic
-- OBLIGATIONS: Gecs.gen_version_max Gecs.gen_max_capacity
-- OBLIGATIONS: Gecs.invCheck_iff

namespace Gecs
variable {α σ : Type}

/-- Every operation — arbitrary closures, arbitrary (forged, stale, foreign) handles — on a
world satisfying `WInv`: never `ub`; and whatever the outcome, normal return or
`.panic msg w'`, the carried world satisfies `WInv`, has the same ids, archetype count and
column schema, and each storage is reached from its predecessor by atomic steps and satisfies
`Inv` (so each entity is wholly present or wholly absent: `C10_entity_whole_or_absent`). -/
theorem C10_panic_leaves_invariant {cfg : Cfg} {w : World α} {op : Op α} (hw : WInv cfg w)
    (hc : CfgOk cfg) (hop : OpsOk cfg [op]) (hs : op.Scoped w.sch) :
    (∀ m, stepOp cfg w op ≠ .ub m)
    ∧ ∀ w', (stepOp cfg w op = .ok w' ∨ ∃ msg, stepOp cfg w op = .panic msg w') →
        WInv cfg w' ∧ w'.ids = w.ids ∧ w'.archs.length = w.archs.length ∧ w'.sch = w.sch
        ∧ ∀ (a : Nat) (s s' : Storage α), w.archs[a]? = some s → w'.archs[a]? = some s' →
            SReach cfg s s' ∧ Inv cfg s' := by
  refine ⟨stepOp_not_ub hw hc hop hs, ?_⟩
  intro w' hw'
  obtain ⟨w0, h0, h1, h2, h3, h4, h5⟩ := stepOp_spec hw hc hop hs
  have : w0 = w' := by
    rcases h0 with h0 | ⟨m, h0⟩ <;> rcases hw' with g | ⟨m', g⟩ <;> rw [h0] at g <;> cases g <;> rfl
  subst this
  exact ⟨h1, h2, h3, h5, fun a s s' g1 g2 => ⟨h4 a s s' g1 g2, h1.get g2⟩⟩

/-- What `Inv` says about one handle: either the entity is wholly there — listed once at a
dense index `d < len`, its slot points back to `d` with its generation, EVERY column has a
cell at `d`, and it resolves — or it is wholly absent: not listed, no slot designates it, and
it does not resolve.  There is no third, half-removed state. -/
theorem C10_entity_whole_or_absent {cfg : Cfg} {s : Storage α} (h : Inv cfg s) (e : Ent) :
    (∃ d, d < s.len ∧ s.ents[d]? = some e ∧ (∀ d', s.ents[d']? = some e → d' = d)
        ∧ s.slots[e.slot]? = some ⟨.data d, e.ver⟩
        ∧ (∀ c ∈ s.cols, ∃ x, c[d]? = some x)
        ∧ resolveEntity cfg s e = .ok (some (e.slot, d)) s)
    ∨ (e ∉ s.ents ∧ (∀ d, s.slots[e.slot]? ≠ some ⟨.data d, e.ver⟩)
        ∧ ∀ d, resolveEntity cfg s e ≠ .ok (some (e.slot, d)) s) := by
  by_cases hm : e ∈ s.ents
  · left
    obtain ⟨d, hd⟩ := List.getElem?_of_mem hm
    have hdl := h.ents_lt hd
    refine ⟨d, hdl, hd, fun d' hd' => ents_index_unique cfg s h d' d e hd' hd, h.dense d e hd,
      ?_, resolveEntity_of_mem h hd⟩
    intro c hcm
    exact ⟨c[d]'(by rw [h.colsLen c hcm]; exact hdl),
      List.getElem?_eq_getElem (by rw [h.colsLen c hcm]; exact hdl)⟩
  · right
    refine ⟨hm, ?_, ?_⟩
    · intro d hsl
      exact hm (List.mem_of_getElem? (h.sparse e.slot d e.ver hsl))
    · intro d hr
      exact hm ((resolve_iff_mem cfg s h e).mp ⟨d, hr⟩)

/-- `run` does not stop at a panic: it goes on from the world the panic left. -/
theorem C10_run_continues_after_panic (cfg : Cfg) (w w' : World α) (op : Op α) (ops : List (Op α))
    (msg : String) (h : stepOp cfg w op = .panic msg w') :
    run cfg w (op :: ops) = run cfg w' ops := by
  simp only [run, h]

/-- Every other property still holds afterwards: a history `ops₁` containing ANY number of
panicking operations, followed by arbitrary further use `ops₂`, never reaches `ub`
(`run` is `some _`), the world between the two and the final world satisfy `WInv`, and every
storage is related to its predecessor by atomic steps. -/
theorem C10_use_after_panic {cfg : Cfg} {w : World α} {ops₁ ops₂ : List (Op α)} (hw : WInv cfg w)
    (hc : CfgOk cfg) (ho : OpsOk cfg (ops₁ ++ ops₂)) (hs : OpsScoped w.sch (ops₁ ++ ops₂)) :
    ∃ w₁ w₂, run cfg w ops₁ = some w₁ ∧ run cfg w₁ ops₂ = some w₂
      ∧ run cfg w (ops₁ ++ ops₂) = some w₂
      ∧ WInv cfg w₁ ∧ WInv cfg w₂ ∧ w₂.ids = w.ids ∧ w₂.sch = w.sch
      ∧ ∀ (a : Nat) (s s₁ s₂ : Storage α), w.archs[a]? = some s → w₁.archs[a]? = some s₁ →
          w₂.archs[a]? = some s₂ → SReach cfg s s₁ ∧ SReach cfg s₁ s₂ := by
  obtain ⟨w₁, w₂, h1, h2, h3, r1, r2⟩ := run_prefix hw hc ho hs
  exact ⟨w₁, w₂, h1, h2, h3, r1.winv, r2.winv, r2.ids.trans r1.ids,
    r2.ncols_map.trans r1.ncols_map,
    fun a s s₁ s₂ g g1 g2 => ⟨r1.reach a s s₁ g g1, r2.reach a s₁ s₂ g1 g2⟩⟩

/-- The two documented overflow panics of `force_destroy` (slot generation at `u32::MAX`,
archetype version at `u32::MAX`, without `wrapping_version`) leave the storage UNCHANGED:
both next versions are computed before anything is modified. -/
theorem C10_overflow_is_atomic (cfg : Cfg) (s : Storage α) (si d v : Nat) (h : Inv cfg s)
    (hsl : s.slots[si]? = some ⟨.data d, v⟩) :
    (nextVer cfg v = none → forceDestroy cfg s si d = .panic "slot version overflow" s)
    ∧ (∀ sv, nextVer cfg v = some sv → nextVer cfg s.version = none →
        forceDestroy cfg s si d = .panic "arch version overflow" s) :=
  ⟨forceDestroy_slot_overflow cfg s si d v h hsl,
   fun sv hsv hav => forceDestroy_arch_overflow cfg s si d v h hsl sv hsv hav⟩

/-- At the level of the API: EVERY panic outcome of `destroy` — by `Entity` or by
`EntityDirect` key, any words — carries the unchanged storage. -/
theorem C10_destroy_panic_is_atomic {cfg : Cfg} {s : Storage α} (h : Inv cfg s) :
    (∀ e msg s', destroyEnt cfg s e = .panic msg s' → s' = s)
    ∧ (∀ d v msg s', destroyDirect cfg s d v = .panic msg s' → s' = s) := by
  constructor
  · intro e msg s' hp
    rcases destroyEnt_spec cfg s e h with ⟨h1, _⟩ | ⟨_, _, h1, _⟩ | ⟨_, h1, _⟩ <;>
      rw [h1] at hp <;> cases hp
    rfl
  · intro d v msg s' hp
    rcases destroyDirect_spec cfg s d v h with ⟨h1, _⟩ | ⟨_, _, _, h1, _⟩ | ⟨_, h1, _⟩ <;>
      rw [h1] at hp <;> cases hp
    rfl

/-- `create` at `len = MAX_DATA_CAPACITY` panics "capacity overflow" with the state unchanged,
this is its only panic, `create_within_capacity` never panics, and `World::with_capacity`
beyond `MAX_DATA_CAPACITY` panics (never `ub`). -/
theorem C10_capacity_overflow_is_atomic {cfg : Cfg} {s : Storage α} (h : Inv cfg s)
    (hv : CfgOk cfg) (g : Nat → Nat) (hg : GrowOk cfg g) (row : List α) :
    (s.len = cfg.maxCap → push cfg g s row = .panic "capacity overflow" s)
    ∧ (∀ msg s', push cfg g s row = .panic msg s' → s' = s ∧ s.len = cfg.maxCap)
    ∧ (∀ msg s', pushWithin cfg s row ≠ .panic msg s')
    ∧ (∀ (ids ncols caps : List Nat), ncols.length = caps.length →
        (∃ c ∈ caps, c > cfg.maxCap) →
        ∃ w : World α, World.withCapacity cfg ids ncols caps
          = .panic "capacity may not exceed" w) := by
  refine ⟨fun hfull => (push_overflow cfg g s row h hfull).2, ?_, ?_,
    fun ids ncols caps hl hbad => World.withCapacity_panics cfg ids ncols caps hl hbad hv⟩
  · intro msg s' hp
    rcases (push_spec cfg g s row h hv (fun hh => hg _ hh)) with ⟨h1, h2⟩
    by_cases hlt : s.len < cfg.maxCap
    · obtain ⟨e, s1, g1, _⟩ := h1 hlt
      rw [g1] at hp; cases hp
    · have hfull : s.len = cfg.maxCap := by have := h.lenCap; have := h.capMax; omega
      rw [(h2 hfull).2] at hp; cases hp
      exact ⟨rfl, hfull⟩
  · intro msg s' hp
    by_cases hlt : s.len < s.capacity
    · obtain ⟨e, s1, g1, _⟩ := pushWithin_ok cfg s row h hlt
      rw [g1] at hp; cases hp
    · rw [pushWithin_full row (by omega)] at hp; cases hp

open RobustEx in
/-- Regression witness for the repaired defect (F1).  With the ORIGINAL statement order
(`forceDestroyPreFix`: swap-remove, event push and slot fix-up BEFORE the version bumps), a
slot-version overflow and an archetype-version overflow each leave a state that VIOLATES
`Inv` — the handle array is already one shorter than `len` — and in which using the
surviving entity's valid handle is undefined behaviour; the repaired order (`forceDestroy`)
panics with the same message and the state unchanged.  Concrete: `vmax = 2`, non-wrapping,
two entities, the first one (at generation `vmax`, resp. with the archetype version at
`vmax`) is destroyed. -/
theorem C10_prefix_defect_witness :
    ∃ (cfg : Cfg) (s₁ bad₁ s₂ bad₂ : Storage Nat),
      cfg.wrapping = false ∧ cfg.vmax = 2 ∧ Inv cfg s₁ ∧ Inv cfg s₂
      -- slot-version overflow
      ∧ forceDestroyPreFix cfg s₁ 0 0 = .panic "slot version overflow" bad₁
      ∧ ¬ Inv cfg bad₁ ∧ bad₁.ents.length ≠ bad₁.len
      ∧ (destroyEnt cfg bad₁ ⟨1, 1⟩).isUb = true
      ∧ forceDestroy cfg s₁ 0 0 = .panic "slot version overflow" s₁
      -- archetype-version overflow
      ∧ forceDestroyPreFix cfg s₂ 0 0 = .panic "arch version overflow" bad₂
      ∧ ¬ Inv cfg bad₂ ∧ bad₂.ents.length ≠ bad₂.len
      ∧ (destroyEnt cfg bad₂ ⟨1, 1⟩).isUb = true
      ∧ forceDestroy cfg s₂ 0 0 = .panic "arch version overflow" s₂ :=
  ⟨cfgF1, slotOvf, slotOvfBad, archOvf, archOvfBad, rfl, rfl, slotOvf_inv, archOvf_inv,
    slotOvf_prefix, slotOvfBad_not_inv, by decide, slotOvfBad_use_is_ub, slotOvf_fixed,
    archOvf_prefix, archOvfBad_not_inv, by decide, archOvfBad_use_is_ub, archOvf_fixed⟩

/-- A closure panic at ANY call of `ecs_iter!` / `ecs_iter_destroy!` over one archetype — the
closure being an arbitrary state machine that may already have written through its `&mut`
parameters and (for `ecs_iter_destroy!`) requested removals — leaves a storage that
satisfies `Inv` and is reached by atomic steps (writes and complete removals only).  The
same holds for the other outcomes (`done`, `stop`); `ub` is impossible (`LoopOut.sat`). -/
theorem C10_closure_panic_keeps_writes_consistent {cfg : Cfg} {s : Storage α} (hs : Inv cfg s)
    (idA : Nat) (ps : List Param) (idxs : List Nat) (st : σ) :
    (∀ (f : Closure σ α Step) (version : Nat),
      (iterLoop idA ps f version idxs st s).sat (fun s' =>
        Inv cfg s' ∧ SReach cfg s s'
        ∧ (s'.ents = s.ents ∧ s'.len = s.len ∧ s'.capacity = s.capacity ∧ s'.version = s.version
            ∧ s'.slots = s.slots)
        ∧ s'.cols.length = s.cols.length ∧ s'.freeHead = s.freeHead
        ∧ s'.created = s.created ∧ s'.destroyed = s.destroyed))
    ∧ (∀ (f : Closure σ α Step4),
      (destroyLoop cfg idA ps f idxs st s).sat (fun s' =>
        Inv cfg s' ∧ SReach cfg s s' ∧ s'.capacity = s.capacity
        ∧ s'.cols.length = s.cols.length ∧ s'.len ≤ s.len))
    ∧ (∀ (f : Closure σ α Step) (version : Nat) (m : String) (st' : σ) (s' : Storage α),
        iterLoop idA ps f version idxs st s = .panic m st' s' → Inv cfg s' ∧ SReach cfg s s')
    ∧ (∀ (f : Closure σ α Step4) (m : String) (st' : σ) (s' : Storage α),
        destroyLoop cfg idA ps f idxs st s = .panic m st' s' → Inv cfg s' ∧ SReach cfg s s') := by
  refine ⟨fun f version => iterLoop_spec hs idA ps f version idxs st,
    fun f => destroyLoop_spec hs idA ps f idxs st, ?_, ?_⟩
  · intro f version m st' s' hp
    have := iterLoop_spec hs idA ps f version idxs st
    rw [hp] at this; exact ⟨this.1, this.2.1⟩
  · intro f m st' s' hp
    have := destroyLoop_spec hs idA ps f idxs st
    rw [hp] at this; exact ⟨this.1, this.2.1⟩

/-- `ecs_find!` with an arbitrary closure: on every outcome, closure panic included, the
carried world satisfies `WInv` and is a legitimate successor of the old one. -/
theorem C10_find_closure_panic {ρ : Type} {cfg : Cfg} {w : World α} (hw : WInv cfg w) (q : Query)
    (f : Closure σ α ρ) (h : Handle) (st : σ) (hq : QColsIn w.sch q) :
    (findQuery cfg q f h st w).sat (WPost cfg w)
    ∧ ∀ (m : String) (st' : σ) (w' : World α), findQuery cfg q f h st w = .panic m st' w' →
        WInv cfg w' ∧ ∀ (a : Nat) (s s' : Storage α),
          w.archs[a]? = some s → w'.archs[a]? = some s' → SReach cfg s s' := by
  have hsat := findQuery_spec hw q f h st hq
  refine ⟨hsat, ?_⟩
  intro m st' w' hp
  rw [hp] at hsat
  exact ⟨hsat.1, hsat.2.2.2.1⟩

/-! Non-vacuity -/
namespace WorldEx
open StorageEx

-- `histEx` contains a forged key (the generated `match` panics), and an `ecs_iter_destroy!`
-- whose closure removes one entity and then panics; the history goes on after both
example : WInv cfgEx wEx ∧ OpsOk cfgEx histEx ∧ OpsScoped wEx.sch histEx :=
  ⟨wEx_winv cfgEx (by decide) cfgEx_ok, histEx_ok, histEx_scoped⟩

-- a panicking operation on a world with live entities: the carried world is `WInv`
example : ∃ w', stepOp cfgEx w2 (.destroy ⟨true, false, ⟨.any, 0, mkKey 0 9 1⟩, none⟩)
    = .panic "invalid entity type" w' ∧ WInv cfgEx w' :=
  ⟨w2, rfl, w2_winv⟩

example : ∃ w', stepOp cfgEx w2 (.destroy ⟨true, false, ⟨.any, 0, mkKey 0 9 1⟩, none⟩)
      = .panic "invalid entity type" w' ∧ WInv cfgEx w' ∧ w'.sch = w2.sch := by
  have h := (C10_panic_leaves_invariant (op := .destroy ⟨true, false, ⟨.any, 0, mkKey 0 9 1⟩, none⟩)
    w2_winv cfgEx_ok trivial (KeyUse.scoped_of_untyped rfl)).2 w2 (.inr ⟨_, rfl⟩)
  exact ⟨w2, rfl, h.1, h.2.2.2.1⟩

-- `histEx` split after its 9th operation (the forged key, which panics): further use is fine
example : ∃ w₁ w₂, run cfgEx wEx (histEx.take 9) = some w₁
    ∧ run cfgEx w₁ (histEx.drop 9) = some w₂ ∧ WInv cfgEx w₁ ∧ WInv cfgEx w₂ := by
  obtain ⟨w₁, w₂, h1, h2, _, h4, h5, _⟩ :=
    C10_use_after_panic (ops₁ := histEx.take 9) (ops₂ := histEx.drop 9)
      (wEx_winv cfgEx (by decide) cfgEx_ok) cfgEx_ok
      (by rw [List.take_append_drop]; exact histEx_ok)
      (by rw [List.take_append_drop]; exact histEx_scoped)
  exact ⟨w₁, w₂, h1, h2, h4, h5⟩

-- a closure that writes through `&mut` and then panics: the write stays, `Inv` holds
example : iterLoop 3 [.comp 0 true] (fun (st : Nat) _ => .panic st [some 99]) 2 [0, 1] 0 holeEx
    = .panic "closure" 0 (writeCell holeEx 0 0 99) := rfl
example : Inv cfgEx (writeCell holeEx 0 0 99) :=
  ((C10_closure_panic_keeps_writes_consistent holeEx_inv 3 [.comp 0 true] [0, 1] (0 : Nat)).2.2.1
    (fun st _ => .panic st [some 99]) 2 _ _ _ rfl).1

-- `ecs_find!` on a live key with a closure that writes and panics
def panicking : Closure Nat Nat Unit := fun st _ => .panic st [some 5]
example : ∃ w', findQuery cfgEx [⟨0, [.comp 1 true]⟩] panicking ⟨.any, 0, mkKey 2 3 1⟩ 0 w2
      = .panic "closure" 0 w' ∧ WInv cfgEx w' := by
  have hq : QColsIn w2.sch [⟨0, [.comp 1 true]⟩] := by
    intro qa hqa
    simp only [List.mem_cons, List.not_mem_nil, or_false] at hqa
    subst hqa
    refine ⟨2, rfl, ?_⟩
    intro c m hc
    simp only [List.mem_cons, Param.comp.injEq, List.not_mem_nil, or_false] at hc
    omega
  have hp : findQuery cfgEx [⟨0, [.comp 1 true]⟩] panicking ⟨.any, 0, mkKey 2 3 1⟩ 0 w2
      = .panic "closure" 0 (w2.setArch 0 (writeCell holeEx 1 1 5)) := rfl
  exact ⟨_, hp, ((C10_find_closure_panic w2_winv _ panicking _ _ hq).2 _ _ _ hp).1⟩

-- `create` at the hard limit (`cfgTiny.maxCap = 2`, `fullEx` full): atomic panic
example : push cfgTiny (codeGrowth cfgTiny) fullEx [12] = .panic "capacity overflow" fullEx :=
  (C10_capacity_overflow_is_atomic fullEx_inv_tiny ⟨by decide⟩ _
    (fun c hc => codeGrowth_ok cfgTiny c hc) [12]).1 rfl
-- a `destroy` panic (debug assertion on a forged out-of-range key): state unchanged
example : destroyEnt cfgEx holeEx ⟨7, 1⟩ = .panic "debug_assert: invalid entity handle" holeEx :=
  rfl

-- the overflow hypotheses are satisfiable (`ovfEx`: a slot at `vmax`; `archOvfEx`)
example : forceDestroy cfgEx ovfEx 0 0 = .panic "slot version overflow" ovfEx :=
  (C10_overflow_is_atomic cfgEx ovfEx 0 0 5 ovfEx_inv rfl).1 (by decide)
example : forceDestroy cfgEx archOvfEx 0 0 = .panic "arch version overflow" archOvfEx :=
  (C10_overflow_is_atomic cfgEx archOvfEx 0 0 1 archOvfEx_inv rfl).2 2 (by decide) (by decide)

end WorldEx
end Gecs

section
open Gecs
#print axioms C10_panic_leaves_invariant
#print axioms C10_entity_whole_or_absent
#print axioms C10_run_continues_after_panic
#print axioms C10_use_after_panic
#print axioms C10_overflow_is_atomic
#print axioms C10_destroy_panic_is_atomic
#print axioms C10_capacity_overflow_is_atomic
#print axioms C10_prefix_defect_witness
#print axioms C10_closure_panic_keeps_writes_consistent
#print axioms C10_find_closure_panic
end
