/-
C10 / C04 — HISTORIES WITH FAULT POINTS.  The fault model of Gecs/Model/Faults.lean (a user
`Clone::clone` that panics in the middle of `world.clone()`, a user `Drop::drop` that panics while
the world is dropped) as OPERATIONS of histories: Gecs/Model/FaultHistory.lean (`OpF`, `runF`,
`cloneFaultOutcome`, `endOfLife`); helper lemmas: Gecs/Lemmas/FaultHistories.lean.  In words:

 * `runF_erase`, `runF_faults_unobservable`: a faulted clone never changes the world; every later
   operation runs in exactly the world the plain operations alone produce.
 * `C10_fault_histories`: any interleaving of (possibly panicking) operations and faulted clones
   runs, never reaches `ub`, keeps `WInv` (at the end and after every prefix), logs one outcome per
   faulted clone, and moves every archetype along a label path emitted by the plain operations.
 * `C10_clone_fault_accounting`, `C10_fault_log_complete`: every clone made by a faulted
   `world.clone()` is dropped or leaked exactly once, nothing after the fault point is cloned, the
   clones are clones of values the source world owns, the source world is untouched.
 * `C10_end_of_life`: when the world reached is dropped and the `k`-th `Drop::drop` panics, what is
   dropped and what is leaked partition the owned values (no double drop); the leak is the rest of
   ONE archetype; without a fault `World.drop` drops exactly the owned values.
 * `C04_lifecycle_with_faults` (+ `_from`, `_withCapacity`): whole-life balance.  Every value ever
   moved into the world is, exactly once, handed back by a removal, dropped by the world drop, or
   leaked by the faulting drop — whatever faulted clones were interleaved.
Only property theorems, their non-vacuity instances and `#print axioms` live here.
-/
import Gecs.Lemmas.FaultHistories

-- OBLIGATIONS(C10): Gecs.runF_erase Gecs.runF_faults_unobservable Gecs.C10_fault_histories Gecs.C10_clone_fault_accounting Gecs.C10_fault_log_complete Gecs.C10_end_of_life
-- OBLIGATIONS(C04): Gecs.C04_lifecycle_with_faults Gecs.C04_lifecycle_with_faults_from Gecs.C04_lifecycle_with_faults_withCapacity Gecs.C10_end_of_life Gecs.C10_clone_fault_accounting

namespace Gecs
variable {α : Type}

/-! ## 1. Faulted clones are transparent -/

/-- `runF` is `run` on the plain operations, paired with the log computed along the way
(`faultLog`: the outcome of every `cloneFaulted`, evaluated on the world reached at that point).
No hypotheses: this holds for every world, every history, `ub` included. -/
theorem runF_erase (cfg : Cfg) (isZ : α → Bool) (w : World α) (ops : List (OpF α)) :
    runF cfg isZ w ops
        = (run cfg w (OpF.erase ops)).map (fun w' => (w', faultLog cfg isZ w ops))
      ∧ (runF cfg isZ w ops).map Prod.fst = run cfg w (OpF.erase ops) :=
  ⟨runF_eq_run cfg isZ w ops, runF_fst cfg isZ w ops⟩

/-- Consequence: faulted clones never change what any later operation observes.
(1) Whatever follows a prefix `ops₁` runs from exactly the world that the PLAIN operations of
`ops₁` produce — the faulted clones of `ops₁` only contribute to the log.
(2) Two histories with the same plain operations reach the same world (or both reach `ub`).
(3) Removing one faulted clone from a history does not change the world reached. -/
theorem runF_faults_unobservable (cfg : Cfg) (isZ : α → Bool) (w : World α) :
    (∀ ops₁ ops₂ : List (OpF α), runF cfg isZ w (ops₁ ++ ops₂)
        = (run cfg w (OpF.erase ops₁)).bind (fun w₁ =>
            (runF cfg isZ w₁ ops₂).map (fun r => (r.1, faultLog cfg isZ w ops₁ ++ r.2))))
      ∧ (∀ ops ops' : List (OpF α), OpF.erase ops = OpF.erase ops' →
          (runF cfg isZ w ops).map Prod.fst = (runF cfg isZ w ops').map Prod.fst)
      ∧ (∀ (ops₁ ops₂ : List (OpF α)) (cl : α → α) (k : Nat),
          (runF cfg isZ w (ops₁ ++ .cloneFaulted cl k :: ops₂)).map Prod.fst
            = (runF cfg isZ w (ops₁ ++ ops₂)).map Prod.fst) := by
  refine ⟨?_, ?_, ?_⟩
  · intro ops₁ ops₂
    rw [runF_append, runF_eq_run cfg isZ w ops₁]
    cases run cfg w (OpF.erase ops₁) <;> rfl
  · intro ops ops' h
    rw [runF_fst, runF_fst, h]
  · intro ops₁ ops₂ cl k
    rw [runF_fst, runF_fst, OpF.erase_append, OpF.erase_append]
    rfl

/-! ## 2. C10 for every history with fault points -/

/-- C10 for histories with fault points.  Hypotheses: those of `run_inv`, on the plain operations
(handles, closures, growth arbitrary; panicking operations included); the faulted clones (`cl`,
`k`) and their positions are arbitrary.  The history runs — never `ub` —, the world reached
satisfies `WInv` (same ids, same schema) and is the one the plain operations alone reach; the
log has one entry per faulted clone; every archetype is reached by a label path emitted, in
order, by the plain operations (conclusion of `run_labelled_emits`); and the same holds after
EVERY PREFIX of the history: the world reached by the prefix satisfies `WInv`, the rest of the
history runs from it, the logs concatenate. -/
theorem C10_fault_histories {cfg : Cfg} (isZ : α → Bool) {w : World α} {ops : List (OpF α)}
    (hw : WInv cfg w) (hc : CfgOk cfg) (ho : OpsOk cfg (OpF.erase ops))
    (hs : OpsScoped w.sch (OpF.erase ops)) :
    ∃ w' log, runF cfg isZ w ops = some (w', log) ∧ WInv cfg w'
      ∧ log.length = OpF.faultCount ops
      ∧ run cfg w (OpF.erase ops) = some w'
      ∧ w'.ids = w.ids ∧ w'.archs.length = w.archs.length ∧ w'.sch = w.sch
      ∧ (∀ (a : Nat) (s s' : Storage α), w.archs[a]? = some s → w'.archs[a]? = some s' →
          ∃ L, LReach cfg s L s' ∧ OpsEmit a (OpF.erase ops) L)
      ∧ (∀ ops₁ ops₂ : List (OpF α), ops = ops₁ ++ ops₂ →
          ∃ w₁ log₁ log₂, runF cfg isZ w ops₁ = some (w₁, log₁) ∧ WInv cfg w₁
            ∧ log₁.length = OpF.faultCount ops₁
            ∧ runF cfg isZ w₁ ops₂ = some (w', log₂) ∧ log = log₁ ++ log₂) := by
  obtain ⟨w', log, h1, h2, h3, h4, _⟩ := runF_ok isZ hc hw ho hs
  obtain ⟨w'', q1, _, q3⟩ := run_emits hc (OpF.erase ops) w hw ho hs
  rw [h2] at q1; cases q1
  refine ⟨w', log, h1, h3.winv, h4, h2, h3.ids, h3.len, h3.ncols_map, q3, ?_⟩
  intro ops₁ ops₂ hsplit
  subst hsplit
  obtain ⟨w₁, log₁, w₂, log₂, p1, p2, p3, r1, _, l1, _, _, _⟩ := runF_prefix isZ hc hw ho hs
  rw [h1] at p3
  simp only [Option.some.injEq, Prod.mk.injEq] at p3
  obtain ⟨rfl, rfl⟩ := p3
  exact ⟨w₁, log₁, log₂, p1, r1.winv, l1, p2, rfl⟩

/-- Accounting for ONE faulted clone at an arbitrary position of an arbitrary history
`ops₁ ++ cloneFaulted cl k :: ops₂`.  With `w₁` the world reached by `ops₁` (it satisfies `WInv`)
and `o` the outcome logged for that operation (entry number `faultCount ops₁` of the log):
* the world after the operation is `w₁` itself (the source world keeps every value it owned),
  and the rest of the history runs from `w₁`;
* `o.dropped ++ o.leaked` is `cl` applied to the first `n` values of `w₁` in clone order: every
  clone made is dropped or leaked exactly once, nothing from position `n` on is cloned;
  a fault happens iff position `n` exists and holds a non-zero-sized value (the faulting one), and
  then exactly `k` non-zero-sized values were cloned before it; without a fault `n` is the number
  of all values, every clone is dropped, none leaked;
* the values in clone order are a permutation of the values the world owns (`owned`); with
  pairwise distinct owned values and an injective `Clone` no clone is dropped twice, leaked twice
  or both;
* without a fault the operation IS "clone, then drop the clone": the model's `World.clone`
  succeeds on `w₁` and dropping its result (`World.drop`, never `ub`) drops `cl` of every owned
  value, of which `o.dropped` (listed in clone order) is a permutation;
* in the fault case the dropped clones are those of the archetypes before archetype `m`, the
  leaked ones those of a proper prefix of archetype `m`, which continues with the faulting value. -/
theorem C10_clone_fault_accounting {cfg : Cfg} (isZ : α → Bool) {w : World α}
    {ops₁ ops₂ : List (OpF α)} {cl : α → α} {k : Nat} (hw : WInv cfg w) (hc : CfgOk cfg)
    (ho : OpsOk cfg (OpF.erase (ops₁ ++ .cloneFaulted cl k :: ops₂)))
    (hs : OpsScoped w.sch (OpF.erase (ops₁ ++ .cloneFaulted cl k :: ops₂))) :
    ∃ w₁ log₁ w' log₂ o,
      runF cfg isZ w ops₁ = some (w₁, log₁) ∧ WInv cfg w₁ ∧ log₁.length = OpF.faultCount ops₁
      ∧ o = cloneFaultOutcome isZ w₁ cl k
      ∧ runF cfg isZ w (ops₁ ++ [.cloneFaulted cl k]) = some (w₁, log₁ ++ [o])
      ∧ runF cfg isZ w₁ ops₂ = some (w', log₂) ∧ WInv cfg w'
      ∧ runF cfg isZ w (ops₁ ++ .cloneFaulted cl k :: ops₂) = some (w', log₁ ++ o :: log₂)
      ∧ (∃ n, n ≤ w₁.clonePerArch.flatten.length
          ∧ o.dropped ++ o.leaked = (w₁.clonePerArch.flatten.take n).map cl
          ∧ ((cloneFault isZ w₁.clonePerArch k).isSome
              ↔ ∃ v, w₁.clonePerArch.flatten[n]? = some v ∧ isZ v = false)
          ∧ ((cloneFault isZ w₁.clonePerArch k).isSome
              → nzCount isZ (w₁.clonePerArch.flatten.take n) = k)
          ∧ (cloneFault isZ w₁.clonePerArch k = none
              → n = w₁.clonePerArch.flatten.length ∧ o.leaked = []
                ∧ o.dropped = w₁.clonePerArch.flatten.map cl
                ∧ nzCount isZ w₁.clonePerArch.flatten ≤ k))
      ∧ w₁.clonePerArch.flatten.Perm (w₁.archs.flatMap owned)
      ∧ ((∀ x y, cl x = cl y → x = y) → (w₁.archs.flatMap owned).Nodup →
          (o.dropped ++ o.leaked).Nodup)
      ∧ (cloneFault isZ w₁.clonePerArch k = none →
          ∃ wc, w₁.clone cl = .ok wc () ∧ WInv cfg wc
            ∧ wc.drop = .ok ((w₁.archs.flatMap owned).map cl) ()
            ∧ o.dropped.Perm ((w₁.archs.flatMap owned).map cl))
      ∧ (∀ src, cloneFault isZ w₁.clonePerArch k = some src →
          o = ⟨src.dropped.map cl, src.leaked.map cl⟩
          ∧ ∃ m a v rest, w₁.clonePerArch[m]? = some a
              ∧ src.dropped = (w₁.clonePerArch.take m).flatten
              ∧ a = src.leaked ++ v :: rest ∧ isZ v = false) := by
  obtain ⟨w₁, log₁, w₂, log₂', p1, p2, p3, r1, r2, l1, _, _, _⟩ := runF_prefix isZ hc hw ho hs
  simp only [runF, Option.map_eq_some_iff, Prod.mk.injEq] at p2
  obtain ⟨r, hr, rfl, rfl⟩ := p2
  obtain ⟨n, n1, n2, n3, n4, n5⟩ := cloneFaultOutcome_made isZ w₁ cl k
  refine ⟨w₁, log₁, r.1, r.2, cloneFaultOutcome isZ w₁ cl k, p1, r1.winv, l1, rfl, ?_, hr,
    r2.winv, p3, ⟨n, n1, n2, n3, n4, ?_⟩, World.clonePerArch_flatten_perm r1.winv,
    fun hcl hnd => cloneFaultOutcome_nodup isZ r1.winv cl k hcl hnd, ?_, ?_⟩
  · rw [runF_append, p1]; rfl
  · intro hn
    obtain ⟨e1, e2, e3⟩ := n5 hn
    exact ⟨e1, e2, by rw [cloneFaultOutcome_none isZ w₁ cl k hn], e3⟩
  · intro hn
    obtain ⟨wc, c1, c2, c3, c4, _⟩ := cloneFaultOutcome_no_fault isZ r1.winv cl k hn
    exact ⟨wc, c1, c2, c3, c4⟩
  · intro src hsrc
    exact cloneFaultOutcome_struct isZ w₁ cl k src hsrc

/-- Conversely, the log contains nothing else: every entry of the log of a history is the
outcome of one of its `cloneFaulted` operations, evaluated on the world reached by the operations
before it (so `C10_clone_fault_accounting` accounts for every clone any faulted clone ever made). -/
theorem C10_fault_log_complete {cfg : Cfg} (isZ : α → Bool) {w w' : World α}
    {ops : List (OpF α)} {log : List (FaultOutcome α)} (h : runF cfg isZ w ops = some (w', log))
    (i : Nat) (o : FaultOutcome α) (hi : log[i]? = some o) :
    ∃ ops₁ cl k ops₂ w₁ log₁, ops = ops₁ ++ .cloneFaulted cl k :: ops₂
      ∧ OpF.faultCount ops₁ = i ∧ runF cfg isZ w ops₁ = some (w₁, log₁)
      ∧ o = cloneFaultOutcome isZ w₁ cl k :=
  runF_log_get isZ ops w w' log h i o hi

/-- End of life of the world reached by any history with fault points, for every fault position
`k` of the world drop (`endOfLife isZ w' k`):
* dropped and leaked values together are a permutation of the owned values;
* if the owned values are pairwise distinct nothing is dropped twice or leaked twice, and nothing
  dropped is leaked;
* the drop faults iff `k` is smaller than the number of non-zero-sized owned values;
* without a fault everything is dropped, in drop order, as the model's `World.drop` does (which
  never reaches `ub` here): `w'.archs.flatMap owned` is the owned values in drop order;
* with a fault the leak is a suffix of the owned values of exactly ONE archetype, right behind
  the value whose `Drop::drop` panicked; everything else is dropped. -/
theorem C10_end_of_life {cfg : Cfg} (isZ : α → Bool) {w : World α} {ops : List (OpF α)}
    (hw : WInv cfg w) (hc : CfgOk cfg) (ho : OpsOk cfg (OpF.erase ops))
    (hs : OpsScoped w.sch (OpF.erase ops)) (k : Nat) :
    ∃ w' log, runF cfg isZ w ops = some (w', log) ∧ WInv cfg w'
      ∧ ((endOfLife isZ w' k).dropped ++ (endOfLife isZ w' k).leaked).Perm
          (w'.archs.flatMap owned)
      ∧ ((w'.archs.flatMap owned).Nodup →
          (endOfLife isZ w' k).dropped.Nodup ∧ (endOfLife isZ w' k).leaked.Nodup
          ∧ ∀ x ∈ (endOfLife isZ w' k).dropped, x ∉ (endOfLife isZ w' k).leaked)
      ∧ ((dropFault isZ w'.dropPerArch k).isSome ↔ k < nzCount isZ (w'.archs.flatMap owned))
      ∧ w'.drop = .ok (w'.archs.flatMap owned) ()
      ∧ (dropFault isZ w'.dropPerArch k = none →
          endOfLife isZ w' k = ⟨w'.archs.flatMap owned, []⟩)
      ∧ (∀ o, dropFault isZ w'.dropPerArch k = some o → endOfLife isZ w' k = o
          ∧ ∃ a s p v, w'.archs[a]? = some s ∧ owned s = p ++ v :: o.leaked ∧ isZ v = false
            ∧ o.dropped = (w'.archs.take a).flatMap owned ++ (p ++ [v])
                ++ (w'.archs.drop (a + 1)).flatMap owned) := by
  obtain ⟨w', log, h1, _, h3, _, _⟩ := runF_ok isZ hc hw ho hs
  exact ⟨w', log, h1, h3.winv, endOfLife_spec isZ h3.winv k⟩

/-! ## 3. C04: the whole-life balance with fault points -/

/-- Whole-life balance from ANY initial world satisfying `WInv`.  History: plain operations
that neither overwrite nor clone-and-switch (`Op.IsCDC`: creations, removals, `clear_events`,
query loops binding no column `&mut`), with any number of faulted clones interleaved; then the
world is dropped and the `k`-th `Drop::drop` panics (or none does).  There is ONE list `Ls` of
label paths, `Ls[a]` the path of archetype `a` (from its initial to its final storage, emitted by
the plain operations), such that
  dropped by the world drop ++ leaked by the faulting drop ++ handed back by removals
is a permutation of
  initially owned ++ moved in by creations. -/
theorem C04_lifecycle_with_faults_from {cfg : Cfg} (isZ : α → Bool) {w : World α}
    {ops : List (OpF α)} (hw : WInv cfg w) (hc : CfgOk cfg) (ho : OpsOk cfg (OpF.erase ops))
    (hs : OpsScoped w.sch (OpF.erase ops)) (hcdc : ∀ op ∈ OpF.erase ops, op.IsCDC) (k : Nat) :
    ∃ (w' : World α) (log : List (FaultOutcome α)) (Ls : List (List (Lbl α))),
      runF cfg isZ w ops = some (w', log) ∧ WInv cfg w'
      ∧ log.length = OpF.faultCount ops
      ∧ Ls.length = w'.archs.length ∧ w'.archs.length = w.archs.length
      ∧ (∀ (a : Nat) (s s' : Storage α), w.archs[a]? = some s → w'.archs[a]? = some s' →
          ∃ L, Ls[a]? = some L ∧ LReach cfg s L s' ∧ OpsEmit a (OpF.erase ops) L
            ∧ RowsOk s.cols.length L ∧ (∀ l ∈ L, l.isCDC = true)
            ∧ (owned s' ++ destroyedRows L).Perm (owned s ++ createdRows L))
      ∧ ((endOfLife isZ w' k).dropped ++ (endOfLife isZ w' k).leaked
            ++ Ls.flatMap destroyedRows).Perm
          (w.archs.flatMap owned ++ Ls.flatMap createdRows)
      ∧ ((w.archs.flatMap owned ++ Ls.flatMap createdRows).Nodup →
          ((endOfLife isZ w' k).dropped ++ (endOfLife isZ w' k).leaked
            ++ Ls.flatMap destroyedRows).Nodup) := by
  obtain ⟨w', log, h1, h2, h3, h4, _⟩ := runF_ok isZ hc hw ho hs
  obtain ⟨w'', q1, _, q3⟩ := run_emits hc (OpF.erase ops) w hw ho hs
  rw [h2] at q1; cases q1
  -- one label path per archetype, as a list
  obtain ⟨Ls, hlen, hLs⟩ := exists_list_of_forall_getElem? w'.archs
    (fun a s' L => ∀ s, w.archs[a]? = some s → LReach cfg s L s' ∧ OpsEmit a (OpF.erase ops) L
      ∧ RowsOk s.cols.length L ∧ (∀ l ∈ L, l.isCDC = true)
      ∧ (owned s' ++ destroyedRows L).Perm (owned s ++ createdRows L))
    (by
      intro a s' g'
      have hlt : a < w.archs.length := by
        rw [← h3.len]; exact (List.getElem?_eq_some_iff.mp g').1
      have g : w.archs[a]? = some w.archs[a] := List.getElem?_eq_getElem hlt
      obtain ⟨L, r, he⟩ := q3 a _ s' g g'
      refine ⟨L, ?_⟩
      intro s gs
      rw [g] at gs; cases gs
      have hr : RowsOk (w.archs[a]).cols.length L := he.rowsOk hs (World.sch_of_get g)
      have hl := he.cdc hcdc
      exact ⟨r, he, hr, hl, C04_conservation hr hl r⟩)
  have hper : ∀ (a : Nat) (s s' : Storage α), w.archs[a]? = some s → w'.archs[a]? = some s' →
      ∃ L, Ls[a]? = some L ∧ LReach cfg s L s' ∧ OpsEmit a (OpF.erase ops) L
        ∧ RowsOk s.cols.length L ∧ (∀ l ∈ L, l.isCDC = true)
        ∧ (owned s' ++ destroyedRows L).Perm (owned s ++ createdRows L) := by
    intro a s s' g g'
    obtain ⟨L, e1, e2⟩ := hLs a s' g'
    exact ⟨L, e1, e2 s g⟩
  have hbal : (w'.archs.flatMap owned ++ Ls.flatMap destroyedRows).Perm
      (w.archs.flatMap owned ++ Ls.flatMap createdRows) := by
    refine perm_flatMap_pointwise3 owned owned destroyedRows createdRows Ls w'.archs w.archs
      hlen.symm (by rw [hlen, h3.len]) ?_
    intro a s' s L g' g gL
    obtain ⟨L', e1, _, _, _, _, e6⟩ := hper a s s' g g'
    rw [gL] at e1; cases e1
    exact e6
  have hp := (endOfLife_spec isZ h3.winv k).1
  have hfin := (hp.append_right (Ls.flatMap destroyedRows)).trans hbal
  exact ⟨w', log, Ls, h1, h3.winv, h4, hlen, h3.len, hper, hfin, fun hnd => hfin.nodup_iff.2 hnd⟩

/-- C04, whole-life balance, from a world in which every archetype is empty (as after
`World::with_capacity`): every value ever moved into the world by a creation is, exactly once,
handed back by a removal, dropped by the world drop, or leaked by the faulting drop — whatever
faulted clones were interleaved (their clones are accounted for separately and completely by
`C10_clone_fault_accounting`: each is dropped or leaked exactly once, the world's own values are
not affected).  The balance is given for the list `Ls` of per-archetype label paths and, in the
last conjunct, in index form. -/
theorem C04_lifecycle_with_faults {cfg : Cfg} (isZ : α → Bool) {w : World α}
    {ops : List (OpF α)} (hw : WInv cfg w) (hc : CfgOk cfg) (ho : OpsOk cfg (OpF.erase ops))
    (hs : OpsScoped w.sch (OpF.erase ops)) (hf : ∀ s ∈ w.archs, s.len = 0)
    (hcdc : ∀ op ∈ OpF.erase ops, op.IsCDC) (k : Nat) :
    ∃ (w' : World α) (log : List (FaultOutcome α)) (Ls : List (List (Lbl α))),
      runF cfg isZ w ops = some (w', log) ∧ WInv cfg w'
      ∧ log.length = OpF.faultCount ops
      ∧ Ls.length = w'.archs.length ∧ w'.archs.length = w.archs.length
      ∧ (∀ (a : Nat) (s s' : Storage α), w.archs[a]? = some s → w'.archs[a]? = some s' →
          ∃ L, Ls[a]? = some L ∧ LReach cfg s L s' ∧ OpsEmit a (OpF.erase ops) L
            ∧ RowsOk s.cols.length L ∧ (∀ l ∈ L, l.isCDC = true)
            ∧ (owned s' ++ destroyedRows L).Perm (createdRows L))
      ∧ ((endOfLife isZ w' k).dropped ++ (endOfLife isZ w' k).leaked
            ++ Ls.flatMap destroyedRows).Perm (Ls.flatMap createdRows)
      ∧ ((Ls.flatMap createdRows).Nodup →
          ((endOfLife isZ w' k).dropped ++ (endOfLife isZ w' k).leaked
            ++ Ls.flatMap destroyedRows).Nodup)
      ∧ ((endOfLife isZ w' k).dropped ++ (endOfLife isZ w' k).leaked
            ++ (List.range w'.archs.length).flatMap (fun a => destroyedRows (Ls.getD a []))).Perm
          ((List.range w'.archs.length).flatMap (fun a => createdRows (Ls.getD a []))) := by
  obtain ⟨w', log, Ls, h1, h2, h3, h4, h5, h6, h7, h8⟩ :=
    C04_lifecycle_with_faults_from isZ hw hc ho hs hcdc k
  have h0 : w.archs.flatMap owned = [] := flatMap_owned_nil_of_len_zero hw hf
  rw [h0, List.nil_append] at h7 h8
  refine ⟨w', log, Ls, h1, h2, h3, h4, h5, ?_, h7, h8, ?_⟩
  · intro a s s' g g'
    obtain ⟨L, e1, e2, e3, e4, e5, e6⟩ := h6 a s s' g g'
    rw [owned_of_len_zero (hw.get g) (hf s (List.mem_of_getElem? g)), List.nil_append] at e6
    exact ⟨L, e1, e2, e3, e4, e5, e6⟩
  · rw [← h4, flatMap_range_getD, flatMap_range_getD]
    exact h7

/-- … instantiated at `World::with_capacity`: for every admissible declaration the world is
created, every history with fault points whose plain operations are scoped by the declaration
and `Op.IsCDC` runs on it, and the whole-life balance holds for every fault position `k` of the
final world drop. -/
theorem C04_lifecycle_with_faults_withCapacity (cfg : Cfg) (isZ : α → Bool)
    (ids ncols caps : List Nat) {ops : List (OpF α)}
    (hnd : ids.Nodup) (hlt : ∀ i ∈ ids, i < ID_RANGE) (hl1 : ids.length = ncols.length)
    (hl2 : ncols.length = caps.length) (hcap : ∀ c ∈ caps, c ≤ cfg.maxCap) (hc : CfgOk cfg)
    (ho : OpsOk cfg (OpF.erase ops)) (hs : OpsScoped ncols (OpF.erase ops))
    (hcdc : ∀ op ∈ OpF.erase ops, op.IsCDC) (k : Nat) :
    ∃ (w w' : World α) (log : List (FaultOutcome α)) (Ls : List (List (Lbl α))),
      World.withCapacity cfg ids ncols caps = .ok () w
      ∧ runF cfg isZ w ops = some (w', log) ∧ WInv cfg w'
      ∧ log.length = OpF.faultCount ops ∧ Ls.length = w'.archs.length
      ∧ w'.archs.length = ids.length
      ∧ (∀ (a : Nat) (s s' : Storage α), w.archs[a]? = some s → w'.archs[a]? = some s' →
          ∃ L, Ls[a]? = some L ∧ LReach cfg s L s' ∧ OpsEmit a (OpF.erase ops) L
            ∧ (owned s' ++ destroyedRows L).Perm (createdRows L))
      ∧ ((endOfLife isZ w' k).dropped ++ (endOfLife isZ w' k).leaked
            ++ Ls.flatMap destroyedRows).Perm (Ls.flatMap createdRows) := by
  obtain ⟨w, g1, g2, g3, g4, _, g6, _⟩ :=
    World.withCapacity_winv (α := α) cfg ids ncols caps hnd hlt hl1 hl2 hcap hc
  have hs' : OpsScoped w.sch (OpF.erase ops) := by
    have : w.sch = ncols := g6
    rw [this]; exact hs
  obtain ⟨w', log, Ls, h1, h2, h3, h4, h5, h6, h7, _⟩ :=
    C04_lifecycle_with_faults isZ g2 hc ho hs' g4 hcdc k
  refine ⟨w, w', log, Ls, g1, h1, h2, h3, h4, ?_, ?_, h7⟩
  · rw [h5, ← g2.idsLen, g3]
  · intro a s s' g g'
    obtain ⟨L, e1, e2, e3, _, _, e6⟩ := h6 a s s' g g'
    exact ⟨L, e1, e2, e3, e6⟩

/-! ## 4. Non-vacuity -/
namespace WorldEx
open StorageEx

/-- `0` is the zero-sized value (its Clone / Drop never faults, it is only counted). -/
def isZst : Nat → Bool := fun v => v == 0

/-- A history with fault points on the two-archetype world `wEx` (fresh from
`World::with_capacity`): four creations (one row contains the zero-sized value `0`);
a `world.clone()` whose 3rd non-zero-sized clone (`k = 2`) panics in the MIDDLE of archetype 0,
behind the zero-sized value (clone order of archetype 0: `10 0 11 21`, fault at `21`; the clones
`110 100 111` are leaked); a removal; a `world.clone()` faulting in archetype 1 (`k = 3`, clone
order `11 21 | 5 6`, fault at `6`: the clones of archetype 0 are dropped, `105` is leaked); a
removal with a forged key (panics, the history goes on); a `world.clone()` with `k = 9` too
large (no fault: all four clones made and dropped); a creation; `clear_events`. -/
def histF : List (OpF Nat) :=
  [ .plain (.create 0 [10, 0] (codeGrowth cfgEx)),
    .plain (.create 0 [11, 21] (codeGrowth cfgEx)),
    .plain (.create 1 [5] (codeGrowth cfgEx)),
    .plain (.create 1 [6] (codeGrowth cfgEx)),
    .cloneFaulted (· + 100) 2,
    .plain (.destroy ⟨true, false, ⟨.any, 0, mkKey 0 3 1⟩, none⟩),
    .cloneFaulted (· + 100) 3,
    .plain (.destroy ⟨true, false, ⟨.any, 0, mkKey 5 9 1⟩, none⟩),
    .cloneFaulted (· + 100) 9,
    .plain (.create 0 [12, 0] (codeGrowth cfgEx)),
    .plain (.clearEvents none) ]

example : OpF.faultCount histF = 3 := rfl
example : (OpF.erase histF).length = 8 := rfl

-- the history evaluates: (len, columns) per archetype of the world reached, and the log
example : (runF cfgEx isZst wEx histF).map
      (fun r => (r.1.archs.map (fun s => (s.len, s.cols)), r.2))
    = some ([(2, [[11, 12], [21, 0]]), (2, [[5, 6]])],
        [⟨[], [110, 100, 111]⟩, ⟨[111, 121], [105]⟩, ⟨[111, 121, 105, 106], []⟩]) := rfl

-- the faulted clones are transparent
example : (runF cfgEx isZst wEx histF).map (fun r => r.1.archs.map (fun s => (s.len, s.cols)))
    = (run cfgEx wEx (OpF.erase histF)).map (fun w => w.archs.map (fun s => (s.len, s.cols))) :=
  rfl

-- clone order / drop order of the world reached, and its end of life for three fault positions:
-- `k = 1`: the drop of `12` panics, `21 0` (the trailing zero-sized value too) are leaked,
-- archetype 1 is dropped; `k = 2`: the drop of `21` panics; `k = 7`: nothing faults.
example : (runF cfgEx isZst wEx histF).map (fun r => (r.1.clonePerArch, r.1.dropPerArch))
    = some ([[11, 21, 12, 0], [5, 6]], [[11, 12, 21, 0], [5, 6]]) := rfl
example : (runF cfgEx isZst wEx histF).map (fun r => endOfLife isZst r.1 1)
    = some ⟨[11, 12, 5, 6], [21, 0]⟩ := rfl
example : (runF cfgEx isZst wEx histF).map (fun r => endOfLife isZst r.1 2)
    = some ⟨[11, 12, 21, 5, 6], [0]⟩ := rfl
example : (runF cfgEx isZst wEx histF).map (fun r => endOfLife isZst r.1 7)
    = some ⟨[11, 12, 21, 0, 5, 6], []⟩ := rfl

theorem histF_ok : OpsOk cfgEx (OpF.erase histF) := by
  have hg : GrowOk cfgEx (codeGrowth cfgEx) := fun c hc => codeGrowth_ok cfgEx c hc
  exact ⟨hg, hg, hg, hg, hg, trivial⟩

theorem histF_scoped : OpsScoped wEx.sch (OpF.erase histF) := by
  intro op hop
  simp only [histF, OpF.erase, List.mem_cons, List.not_mem_nil, or_false] at hop
  rcases hop with rfl | rfl | rfl | rfl | rfl | rfl | rfl | rfl
  · exact (rfl : wEx.sch[0]? = some 2)
  · exact (rfl : wEx.sch[0]? = some 2)
  · exact (rfl : wEx.sch[1]? = some 1)
  · exact (rfl : wEx.sch[1]? = some 1)
  · exact KeyUse.scoped_of_untyped rfl
  · exact KeyUse.scoped_of_untyped rfl
  · exact (rfl : wEx.sch[0]? = some 2)
  · trivial

theorem histF_cdc : ∀ op ∈ OpF.erase histF, op.IsCDC := by
  intro op hop
  simp only [histF, OpF.erase, List.mem_cons, List.not_mem_nil, or_false] at hop
  rcases hop with rfl | rfl | rfl | rfl | rfl | rfl | rfl | rfl <;> trivial

theorem wEx_empty : ∀ s ∈ wEx.archs, s.len = 0 := by decide

/-- `C10_fault_histories` on `histF`. -/
example : ∃ w' log, runF cfgEx isZst wEx histF = some (w', log) ∧ WInv cfgEx w'
    ∧ log.length = 3
    ∧ ∀ (a : Nat) (s s' : Storage Nat), wEx.archs[a]? = some s → w'.archs[a]? = some s' →
        ∃ L, LReach cfgEx s L s' ∧ OpsEmit a (OpF.erase histF) L := by
  obtain ⟨w', log, h1, h2, h3, _, _, _, _, h8, _⟩ :=
    C10_fault_histories isZst (wEx_winv cfgEx (by decide) cfgEx_ok) cfgEx_ok histF_ok histF_scoped
  exact ⟨w', log, h1, h2, h3, h8⟩

/-- `C10_fault_histories` on a history with overwriting, panicking and cloning operations:
`histEx` (Lemmas/QueryOps.lean) with two faulted clones inserted. -/
def histFX : List (OpF Nat) :=
  (histEx.take 6).map .plain ++ .cloneFaulted (· + 100) 3
    :: ((histEx.drop 6).map .plain ++ [.cloneFaulted (· + 100) 0])

example : OpF.erase histFX = histEx := rfl

example : ∃ w' log, runF cfgEx isZst wEx histFX = some (w', log) ∧ WInv cfgEx w'
    ∧ log.length = 2 ∧ run cfgEx wEx histEx = some w' := by
  obtain ⟨w', log, h1, h2, h3, h4, _⟩ :=
    C10_fault_histories (ops := histFX) isZst (wEx_winv cfgEx (by decide) cfgEx_ok) cfgEx_ok
      histEx_ok histEx_scoped
  exact ⟨w', log, h1, h2, h3, h4⟩

-- `histFX` evaluates: the first fault (`k = 3`) hits `77` (clone order of archetype 0 after the
-- `ecs_iter!` / `ecs_find!` writes: `90 20 91 77 92 22`; the clones `190 120 191` are leaked);
-- the second one (`k = 0`) hits the very first value of the final world: no clone was made.
example : (runF cfgEx isZst wEx histFX).map
      (fun r => (r.1.archs.map (fun s => (s.len, s.cols)), r.2))
    = some ([(1, [[93], [56]]), (0, [[]])], [⟨[], [190, 120, 191]⟩, ⟨[], []⟩]) := rfl

/-- `C10_clone_fault_accounting` at the first faulted clone of `histF` (`ops₁` = the four
creations): a fault (`k = 2 < 5` non-zero-sized values). -/
example : ∃ w₁ log₁ o, runF cfgEx isZst wEx (histF.take 4) = some (w₁, log₁) ∧ WInv cfgEx w₁
    ∧ o = cloneFaultOutcome isZst w₁ (· + 100) 2
    ∧ runF cfgEx isZst wEx (histF.take 5) = some (w₁, log₁ ++ [o])
    ∧ ∃ n, o.dropped ++ o.leaked = (w₁.clonePerArch.flatten.take n).map (· + 100)
        ∧ ∃ v, w₁.clonePerArch.flatten[n]? = some v ∧ isZst v = false := by
  have hsplit : histF = histF.take 4 ++ .cloneFaulted (· + 100) 2 :: histF.drop 5 := rfl
  have ho := histF_ok
  have hs := histF_scoped
  rw [hsplit] at ho hs
  obtain ⟨w₁, log₁, _, _, o, h1, h2, _, h4, h5, _, _, _, ⟨n, _, n2, n3, _, _⟩, _⟩ :=
    C10_clone_fault_accounting isZst (wEx_winv cfgEx (by decide) cfgEx_ok) cfgEx_ok ho hs
  refine ⟨w₁, log₁, o, h1, h2, h4, h5, n, n2, n3.mp ?_⟩
  -- the fault is reached: evaluate `cloneFault` on the world reached by the four creations
  have hw₁ : w₁ = ((runF cfgEx isZst wEx (histF.take 4)).get rfl).1 := by simp [h1]
  subst hw₁
  rfl

/-- … and at the third one (`k = 9`, no fault): clone, then drop the clone. -/
example : ∃ w₁ log₁ o wc, runF cfgEx isZst wEx (histF.take 8) = some (w₁, log₁)
    ∧ o = cloneFaultOutcome isZst w₁ (· + 100) 9 ∧ o.leaked = []
    ∧ w₁.clone (· + 100) = .ok wc ()
    ∧ wc.drop = .ok ((w₁.archs.flatMap owned).map (· + 100)) ()
    ∧ o.dropped.Perm ((w₁.archs.flatMap owned).map (· + 100)) := by
  have hsplit : histF = histF.take 8 ++ .cloneFaulted (· + 100) 9 :: histF.drop 9 := rfl
  have ho := histF_ok
  have hs := histF_scoped
  rw [hsplit] at ho hs
  obtain ⟨w₁, log₁, _, _, o, h1, _, _, h4, _, _, _, _, ⟨n, _, _, _, _, n5⟩, _, _, hnf, _⟩ :=
    C10_clone_fault_accounting isZst (wEx_winv cfgEx (by decide) cfgEx_ok) cfgEx_ok ho hs
  have hnone : cloneFault isZst w₁.clonePerArch 9 = none := by
    have hw₁ : w₁ = ((runF cfgEx isZst wEx (histF.take 8)).get rfl).1 := by simp [h1]
    subst hw₁
    rfl
  obtain ⟨wc, c1, _, c3, c4⟩ := hnf hnone
  exact ⟨w₁, log₁, o, wc, h1, h4, (n5 hnone).2.1, c1, c3, c4⟩

/-- `C10_fault_log_complete` on `histF`: entry 1 of its log is the outcome of its second faulted
clone, on the world reached by the operations before it. -/
example : ∃ w' log o, runF cfgEx isZst wEx histF = some (w', log) ∧ log[1]? = some o
    ∧ ∃ ops₁ cl k ops₂ w₁ log₁, histF = ops₁ ++ .cloneFaulted cl k :: ops₂
        ∧ OpF.faultCount ops₁ = 1 ∧ runF cfgEx isZst wEx ops₁ = some (w₁, log₁)
        ∧ o = cloneFaultOutcome isZst w₁ cl k := by
  obtain ⟨w', log, h1, _, h3, _⟩ :=
    C10_fault_histories isZst (wEx_winv cfgEx (by decide) cfgEx_ok) cfgEx_ok histF_ok histF_scoped
  have hlt : 1 < log.length := by rw [h3]; decide
  have hg : log[1]? = some log[1] := List.getElem?_eq_getElem hlt
  exact ⟨w', log, log[1], h1, hg, C10_fault_log_complete isZst h1 1 _ hg⟩

/-- `C10_end_of_life` on `histF`, for every `k`. -/
example (k : Nat) : ∃ w' log, runF cfgEx isZst wEx histF = some (w', log)
    ∧ ((endOfLife isZst w' k).dropped ++ (endOfLife isZst w' k).leaked).Perm
        (w'.archs.flatMap owned)
    ∧ w'.drop = .ok (w'.archs.flatMap owned) () := by
  obtain ⟨w', log, h1, _, h3, _, _, h6, _⟩ :=
    C10_end_of_life isZst (wEx_winv cfgEx (by decide) cfgEx_ok) cfgEx_ok histF_ok histF_scoped k
  exact ⟨w', log, h1, h3, h6⟩

-- the owned values of the world reached by `histF` are pairwise distinct (hypothesis of the
-- `Nodup` part of `C10_end_of_life`)
example : (runF cfgEx isZst wEx histF).map (fun r => decide (r.1.archs.flatMap owned).Nodup)
    = some true := by decide

/-- `C04_lifecycle_with_faults` on `histF` (`wEx` is empty, the plain operations of `histF` are
creations, removals and `clear_events`), for every fault position `k` of the world drop. -/
example (k : Nat) : ∃ (w' : World Nat) (log : List (FaultOutcome Nat))
      (Ls : List (List (Lbl Nat))),
    runF cfgEx isZst wEx histF = some (w', log) ∧ Ls.length = 2
    ∧ ((endOfLife isZst w' k).dropped ++ (endOfLife isZst w' k).leaked
          ++ Ls.flatMap destroyedRows).Perm (Ls.flatMap createdRows) := by
  obtain ⟨w', log, Ls, h1, _, _, h4, h5, _, h7, _⟩ :=
    C04_lifecycle_with_faults isZst (wEx_winv cfgEx (by decide) cfgEx_ok) cfgEx_ok histF_ok
      histF_scoped wEx_empty histF_cdc k
  exact ⟨w', log, Ls, h1, by rw [h4, h5]; rfl, h7⟩

/-- … and from `World::with_capacity` itself. -/
example (k : Nat) : ∃ (w w' : World Nat) (log : List (FaultOutcome Nat))
      (Ls : List (List (Lbl Nat))),
    World.withCapacity cfgEx [3, 7] [2, 1] [2, 0] = .ok () w
    ∧ runF cfgEx isZst w histF = some (w', log) ∧ Ls.length = w'.archs.length
    ∧ ((endOfLife isZst w' k).dropped ++ (endOfLife isZst w' k).leaked
          ++ Ls.flatMap destroyedRows).Perm (Ls.flatMap createdRows) := by
  obtain ⟨w, w', log, Ls, h1, h2, _, _, h5, _, _, h8⟩ :=
    C04_lifecycle_with_faults_withCapacity cfgEx isZst [3, 7] [2, 1] [2, 0] (ops := histF)
      (by decide) (by decide) rfl rfl (by decide) cfgEx_ok histF_ok histF_scoped histF_cdc k
  exact ⟨w, w', log, Ls, h1, h2, h5, h8⟩

end WorldEx
end Gecs

section
open Gecs
#print axioms runF_erase
#print axioms runF_faults_unobservable
#print axioms C10_fault_histories
#print axioms C10_clone_fault_accounting
#print axioms C10_fault_log_complete
#print axioms C10_end_of_life
#print axioms C04_lifecycle_with_faults_from
#print axioms C04_lifecycle_with_faults
#print axioms C04_lifecycle_with_faults_withCapacity
end
