/-
C06 — Iteration visits every matching live entity exactly once with its own data.
Model: `iterLoop` / `iterQuery` in Gecs/Model/Query.lean — the `for idx in 0..len` loop the
generators of macros/src/generate/query.rs emit for `ecs_iter!` / `ecs_iter_borrow!`
(`version` and `len` read before the loop, arguments bound from the slices at `idx`,
`Break` returns out of the closure wrapping all archetype blocks); `Archetype::iter/iter_mut`,
`entities()` and the slice accessors are the same `0..len` prefix of the same arrays.
Tie: the `iter`/`iterb`/`rows` lines of harness/rt (per-call argument logs of the real
macros; every slice/iterator path compared in `rows`).
User closures are arbitrary state machines; what they were called with is observed by
wrapping them (`recR`), which provably does not change the run (`*_recR_sim`).
All theorems only need `Inv`, so they hold in every reachable state (empty archetypes,
exactly full, after removals at any position).
-/
import Gecs.Lemmas.Loops

-- OBLIGATIONS: Gecs.C06_visits_in_dense_order Gecs.C06_each_live_entity_once Gecs.C06_handles_distinct
-- OBLIGATIONS: Gecs.C06_only_components_change Gecs.C06_break_stops_all_archetypes Gecs.C06_count_is_sum_of_len
-- OBLIGATIONS: Gecs.Loops.iterLoop_recR_sim Gecs.Loops.iterLoop_bad_col Gecs.Loops.iterQuery_not_ub

namespace Gecs
open Gecs.Loops
variable {α σ : Type}

/-- The closure is called for dense indices `0, 1, …` in order, each time with exactly what
the slices hold at that index in the storage the loop started from — the entity's own
handle, its own cells, the direct handle `(idx, version)` — up to the first `Break` or
panic; it runs to `len` otherwise. -/
theorem C06_visits_in_dense_order {cfg : Cfg} {s : Storage α} (h : Inv cfg s) (idA : Nat)
    {ps : List Param} (hps : ColsExist s ps) (f : Closure σ α Step) (st : σ) :
    ∃ (k : Nat) (log : List (Call α Step)), k ≤ s.len
      ∧ (iterLoop idA ps (recR f) s.version (List.range s.len) (st, []) s).log? = some log
      ∧ log.map (fun c => some c.args)
          = (List.range k).map (fun d => bindArgs idA s s.version d ps)
      ∧ ((∃ t' s', iterLoop idA ps (recR f) s.version (List.range s.len) (st, []) s = .done t' s'
            ∧ k = s.len ∧ log.map (·.res) = List.replicate k (some .cont))
        ∨ (∃ t' s' j, iterLoop idA ps (recR f) s.version (List.range s.len) (st, []) s
              = .stop t' s'
            ∧ k = j + 1 ∧ log.map (·.res) = List.replicate j (some .cont) ++ [some .brk])
        ∨ (∃ t' s' j, iterLoop idA ps (recR f) s.version (List.range s.len) (st, []) s
              = .panic "closure" t' s'
            ∧ k = j + 1 ∧ log.map (·.res) = List.replicate j (some .cont) ++ [none])) :=
  iterLoop_visits h idA hps f st

/-- Run to the end, an entity parameter received the handles of the dense array in order:
each live entity exactly once, nothing else, `len` items. -/
theorem C06_each_live_entity_once {cfg : Cfg} {s : Storage α} (h : Inv cfg s) (idA : Nat)
    {ps : List Param} (hps : ColsExist s ps) (f : Closure σ α Step) (st : σ)
    {t' : σ × List (Call α Step)} {s' : Storage α}
    (hdone : iterLoop idA ps (recR f) s.version (List.range s.len) (st, []) s = .done t' s')
    {i : Nat} {p : Param} (hi : ps[i]? = some p) (hp : p = .ent ∨ p = .entAny) :
    t'.2.map (fun c => c.args[i]?)
      = s.ents.map (fun e => some (Arg.ent (mkKey e.slot idA e.ver))) :=
  iterLoop_done_entities h idA hps f st hdone hi hp

theorem C06_handles_distinct {cfg : Cfg} {s : Storage α} (h : Inv cfg s) (idA : Nat) :
    (s.ents.map (fun e => mkKey e.slot idA e.ver)).Nodup :=
  ents_keys_nodup h idA

/-- Iteration changes nothing but the cells written through `&mut` parameters. -/
theorem C06_only_components_change (idA : Nat) (ps : List Param) (f : Closure σ α Step) (v : Nat)
    (idxs : List Nat) (st : σ) (s s' : Storage α)
    (h : (iterLoop idA ps f v idxs st s).stor? = some s') : WFrame idxs ps s s' :=
  iterLoop_frame idA ps f v idxs st s s' h

/-- `Break` ends the whole query at once, across all archetypes: a call that did not answer
`Continue` is the last call. -/
theorem C06_break_stops_all_archetypes (cfg : Cfg) (f : Closure σ α Step) (q : Query) (st : σ)
    (w : World α) (log : List (Call α Step))
    (hlog : (iterQuery cfg (recR f) q (st, []) w).log? = some log) :
    ∀ k c, log[k]? = some c → c.res ≠ some .cont → log.length = k + 1 :=
  (iterQuery_break_stops_all cfg f q st w log hlog).1

/-- Without a `Break` the number of calls is the sum of `len()` over the matched archetypes. -/
theorem C06_count_is_sum_of_len {cfg : Cfg} {w : World α} (hw : WInv cfg w) {q : Query}
    (hq : QueryOk w q) (f : Closure σ α Step) (st : σ) :
    ∃ log, (iterQuery cfg (recR f) q (st, []) w).log? = some log
      ∧ ((∃ t' w', iterQuery cfg (recR f) q (st, []) w = .ok t' w')
        ∨ (∃ t' w' init c, iterQuery cfg (recR f) q (st, []) w = .panic "closure" t' w'
            ∧ log = init ++ [c] ∧ c.res = none))
      ∧ ((∀ c ∈ log, c.res = some .cont) →
          log.length = (q.map (fun qa => archLen w qa.a)).sum) :=
  iterQuery_total hw hq f st

end Gecs
