/-
The TRANSLATED bit-level expressions (Gecs/Gen/Exprs.lean: regenerated on every run by
tools/extract.py from the token sequences of src/entity.rs, src/archetype/slot.rs and
src/index.rs — key packing and unpacking, the hashed word, the slot-index encoding, the range
of a `TrimmedIndex`) are the functions the hand-written model computes with
(Model/Bits.lean: `packKey`, `keyId`, `keyIndex`, `hashInput`; Model/Check.lean: `encodeIdx`,
`decodeIdx`).  Proofs: Gecs/Lemmas/GenExprs.lean.  If one of these expressions changes in the
Rust code, the generated definition changes and its tie theorem stops checking; every property
that rests on the encoding is then reported, with a search for a failing input (the boundary
run `B12` issues all 2^24 handles of one archetype; `conv` / `cmp` / `dump` lines compare words).
Only the obligation lists live here.
-/
import Gecs.Lemmas.GenExprs
import Gecs.Lemmas.GenVersion

-- OBLIGATIONS(C08): Gecs.gen_expr_pack_key Gecs.gen_expr_pack_key_raw Gecs.gen_expr_pack_key_inj Gecs.gen_expr_trimmed
-- OBLIGATIONS(C14): Gecs.gen_expr_pack_key Gecs.gen_expr_key_id Gecs.gen_expr_key_index Gecs.gen_expr_hash_word
-- OBLIGATIONS(C03): Gecs.gen_expr_slot_decode Gecs.gen_expr_slot_encode Gecs.gen_expr_trimmed Gecs.gen_expr_key_index
-- OBLIGATIONS(C01): Gecs.gen_expr_slot_decode Gecs.gen_expr_slot_encode Gecs.gen_expr_key_index
-- OBLIGATIONS(C12): Gecs.gen_expr_trimmed
-- OBLIGATIONS(C08): Gecs.gen_version_step Gecs.gen_version_step_spec
-- OBLIGATIONS(C09): Gecs.gen_version_step
-- OBLIGATIONS(C10): Gecs.gen_version_step Gecs.gen_version_step_spec
-- OBLIGATIONS(C19): Gecs.gen_version_step Gecs.gen_version_step_spec

namespace Gecs
#check @gen_expr_pack_key
#check @gen_expr_slot_decode
end Gecs
