/-
`Clone for StorageN` and `Drop for StorageN`, TRANSLATED statement by statement (and, for the
`Self { … }` literal the clone returns, initialiser by initialiser) from the current source
(Gecs/Gen/Steps.lean), decide C13's "observationally identical" and C04's "dropped exactly
once" at the storage level: consequences of Lemmas/GenClone.lean in the words of the
properties.  An early return for an empty storage, a reset version, logs not carried over, a
copy loop bounded by `len` instead of `capacity`, a `drop_to` guarded by a type test or moved
behind the deallocation: each changes the extracted lists and these theorems stop checking.
-/
import Gecs.Lemmas.GenClone
import Gecs.Lemmas.GenStepsApi

-- OBLIGATIONS(C13): Gecs.gen_steps_clone Gecs.GenClone_C13_identical
-- OBLIGATIONS(C04): Gecs.gen_steps_clone Gecs.gen_steps_drop Gecs.GenClone_C04_drop_exactly_owned Gecs.GenClone_C04_clone_each_once
-- OBLIGATIONS(C10): Gecs.gen_steps_clone Gecs.gen_steps_drop
-- OBLIGATIONS(C17): Gecs.gen_steps_clone

namespace Gecs

variable {α : Type}

/-- C13 for the extracted statements: in every invariant state (an emptied, a grown, a
free-list-scrambled storage alike) the clone has the same `len`, `capacity`, archetype version,
free list head, slot array (generations and free chain), dense handles and both event logs, its
columns are the originals mapped through `Clone::clone`, and the original is untouched. -/
theorem GenClone_C13_identical (cfg : Cfg) (cl : α → α) (s : Storage α) (h : Inv cfg s) :
    execClone cfg cl Gen.cloneSteps Gen.cloneFields s = .ok { s with cols := s.cols.map (·.map cl) } s := by
  have h1 := gen_steps_clone cfg cl s h.lenCap
  rw [cloneStorage_spec h] at h1
  revert h1
  cases execClone cfg cl Gen.cloneSteps Gen.cloneFields s <;> simp [Out.same]

/-- C04 (clone side): the clone holds exactly one clone of each live cell, column by column. -/
theorem GenClone_C04_clone_each_once (cfg : Cfg) (cl : α → α) (s c s' : Storage α) (h : Inv cfg s)
    (hc : execClone cfg cl Gen.cloneSteps Gen.cloneFields s = .ok c s') :
    c.cols = s.cols.map (·.map cl) ∧ s' = s := by
  rw [GenClone_C13_identical cfg cl s h] at hc
  cases hc; exact ⟨rfl, rfl⟩

/-- C04 (drop side): the extracted `drop` drops exactly the cells the storage owns, each once. -/
theorem GenClone_C04_drop_exactly_owned (cfg : Cfg) (s : Storage α) (h : Inv cfg s) :
    execDrop Gen.dropSteps s = .ok s.cols.flatten () := by
  have h1 := gen_steps_drop s
  rw [dropStorage_spec_flatten h] at h1
  revert h1
  cases execDrop Gen.dropSteps s <;> simp [Out.same]

/-- Non-vacuity: the populated example storage (Lemmas/GenSteps.lean) is cloned and dropped by
the extracted statements. -/
example : (match execClone f1Cfg (· + 1) Gen.cloneSteps Gen.cloneFields f1State with
            | .ok c _ => (c.cols, c.version, c.len) | _ => ([], 0, 0)) = ([[43]], 7, 1)
    ∧ (match execDrop Gen.dropSteps f1State with | .ok l _ => l | _ => []) = [42] := by
  decide

end Gecs
