/-
C10 / C04 — what a PANICKING `Clone::clone` (during `world.clone()`) or `Drop::drop` (while a world
is dropped) leaves behind, for every world, every fault position `k` and any mix of zero-sized
values: definitions in Gecs/Model/Faults.lean (`cloneFault`, `dropFault` — the functions the
trace driver uses to predict the implementation's registry), theorems in
Gecs/Lemmas/Faults.lean.  In words:
 * clone: every clone that was made before the fault is, exactly once and in clone order,
   either dropped during the unwind (those of the archetypes cloned completely) or leaked
   (those of the partially cloned archetype); nothing after the fault point is cloned; the
   source world is not touched (the functions do not take it as a state);
 * drop: the values dropped and the values leaked partition everything the world owned
   (permutation; duplicate-free if the world's values are); the leak is the rest of exactly ONE
   archetype, starting right after the value whose `Drop` panicked; every other archetype is
   dropped.  No value is dropped twice on either path.
Leak-on-panic itself is not among the guarantees of C10; "no component is dropped twice or
left readable after being freed" is.
-/
import Gecs.Lemmas.Faults

-- OBLIGATIONS(C10): Gecs.cloneFault_some_iff Gecs.cloneFault_prefix Gecs.cloneFault_dropped_whole_archetypes
-- OBLIGATIONS(C10): Gecs.dropFault_some_iff Gecs.dropFault_partition Gecs.dropFault_nodup Gecs.dropFault_leak_one_archetype
-- OBLIGATIONS(C10): Gecs.cloneFault_counts Gecs.dropFault_driver Gecs.World.drop_ok_eq_flatten
-- OBLIGATIONS(C04): Gecs.dropFault_partition Gecs.dropFault_nodup Gecs.cloneFault_prefix

namespace Gecs
#check @cloneFault_prefix
#check @dropFault_partition
end Gecs
