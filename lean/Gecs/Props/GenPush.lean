/-
`StorageN::push` / `push_within_capacity` TRANSLATED statement by statement (Gen/Steps.lean:
`pushSteps`, `pushWithinSteps`) with `grow` and `force_create` run from their own extracted
lists: obligation lists for Lemmas/GenPush.lean.
-/
import Gecs.Lemmas.GenPush

-- OBLIGATIONS(C12): Gecs.gen_steps_create_all_statements Gecs.GenPush_C12_within_capacity_iff
-- OBLIGATIONS(C01): Gecs.gen_steps_create_all_statements
-- OBLIGATIONS(C08): Gecs.gen_steps_create_all_statements
-- OBLIGATIONS(C10): Gecs.gen_steps_create_all_statements

namespace Gecs
#check @gen_steps_create_all_statements
end Gecs
