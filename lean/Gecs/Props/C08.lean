/-
C08 — No handle is ever issued twice within a world.
Models: Gecs/Model/Storage.lean (`forceCreate`/`push`/`pushWithin` = storage.rs
`StorageN::force_create`/`push`/`push_within_capacity`: the returned handle is (head of the
free list, that slot's generation); `forceDestroy` = `force_destroy`: the slot generation and
the archetype version are advanced with `nextVer` = version.rs `SlotVersion::next` /
`ArchetypeVersion::next`, checked or wrapping), Gecs/Model/World.lean (`mkKey` = entity.rs
`(index << 8) | ARCHETYPE_ID`; `World.create` = the generated `World::create::<A>`) and
Gecs/Model/History.lean (`run`).  Tied to the Rust code by the `create`/`destroy` lines of
harness/rt (every returned handle is compared word for word).

A handle of archetype `a` "has been issued" at a point of a history iff it has been in the
dense array `ents` of `a`'s storage at some earlier point (a handle enters `ents` only as the
return value of a create).  All statements are for NON-wrapping generations
(`cfg.wrapping = false`); with the feature `wrapping_version` the property is false by design
(`C08_wrapping_is_the_documented_exception`).  Histories are arbitrary (`run cfg w₀ ops`, any
length, forged handles, arbitrary closures, continuing after panics), hypotheses as in
Props/C01.lean.
-/
import Gecs.Lemmas.CheckSound
import Gecs.Lemmas.WorldHistory
import Gecs.Lemmas.GenTie

-- OBLIGATIONS: Gecs.C08_new_handles_are_fresh Gecs.C08_unique_within_archetype
-- OBLIGATIONS: Gecs.C08_created_handle_is_new Gecs.C08_create_returns_unissued
-- OBLIGATIONS: Gecs.C08_never_issued_twice
-- OBLIGATIONS: Gecs.C08_createWithin_returns_unissued Gecs.C08_unique_across_archetypes
-- OBLIGATIONS: Gecs.C08_overflow_panics_instead_of_reissuing
-- OBLIGATIONS: Gecs.C08_wrapping_is_the_documented_exception
-- OBLIGATIONS: Gecs.gen_version_max Gecs.gen_version_start Gecs.gen_id_range
-- OBLIGATIONS: Gecs.invCheck_iff

namespace Gecs
variable {α : Type}

/-- Storage level, with the ghost set `seen` of all handles issued so far (`HInv`): along any
path of atomic steps, every handle that is stored at the end and was not stored at the
beginning is NEW — it has never been seen. -/
theorem C08_new_handles_are_fresh {cfg : Cfg} (hw : cfg.wrapping = false) {s s' : Storage α}
    {seen : List Ent} (h : HInv cfg s seen) (hr : SReach cfg s s') :
    ∀ e ∈ s'.ents, e ∉ s.ents → e ∉ seen :=
  fun e he hn hs => no_resurrection hw h hr e hs hn he

/-- World level, three points of a history `w₀ —ops₁→ w₁ —ops₂→ w₂`: a handle that was in
archetype `a`'s dense array at `w₀` and is not at `w₁` is not in it at `w₂`: whatever has been
created during `ops₂` differs from it. -/
theorem C08_unique_within_archetype {cfg : Cfg} (hw : cfg.wrapping = false)
    {w₀ w₁ w₂ : World α} {ops₁ ops₂ : List (Op α)}
    (hw₀ : WInv cfg w₀) (hc : CfgOk cfg) (ho : OpsOk cfg (ops₁ ++ ops₂))
    (hs : OpsScoped w₀.sch (ops₁ ++ ops₂))
    (h₁ : run cfg w₀ ops₁ = some w₁) (h₂ : run cfg w₁ ops₂ = some w₂)
    {a : Nat} {s₀ s₁ s₂ : Storage α} (g₀ : w₀.archs[a]? = some s₀) (g₁ : w₁.archs[a]? = some s₁)
    (g₂ : w₂.archs[a]? = some s₂) {e : Ent} (he₀ : e ∈ s₀.ents) (he₁ : e ∉ s₁.ents) :
    e ∉ s₂.ents := by
  obtain ⟨r₁, r₂, _⟩ := run_split hw₀ hc ho hs h₁ h₂
  exact sreach_dead_stays_dead hw (hw₀.get g₀) (r₁.reach a s₀ s₁ g₀ g₁) (r₂.reach a s₁ s₂ g₁ g₂)
    he₀ he₁

/-- Hence a create at any later point returns a handle different from every handle that
existed earlier: if after a history `ops₁` a `create` in archetype `a` succeeds, the handle it
adds (`e ∈ s₁'.ents`, `e ∉ s₁.ents`) was not in `a`'s dense array at the start `w₀` — for every
choice of the starting point, so at NO earlier point. -/
theorem C08_created_handle_is_new {cfg : Cfg} (hw : cfg.wrapping = false)
    {w₀ w₁ w₁' : World α} {ops₁ : List (Op α)} {a : Nat} {row : List α} {g : Nat → Nat}
    (hw₀ : WInv cfg w₀) (hc : CfgOk cfg) (ho : OpsOk cfg (ops₁ ++ [.create a row g]))
    (hs : OpsScoped w₀.sch (ops₁ ++ [.create a row g]))
    (h₁ : run cfg w₀ ops₁ = some w₁) (hcr : stepOp cfg w₁ (.create a row g) = .ok w₁')
    {s₀ s₁ s₁' : Storage α} (g₀ : w₀.archs[a]? = some s₀) (g₁ : w₁.archs[a]? = some s₁)
    (g₁' : w₁'.archs[a]? = some s₁') {e : Ent} (he : e ∈ s₁'.ents) (hne : e ∉ s₁.ents) :
    e ∉ s₀.ents :=
  fun he₀ => C08_unique_within_archetype hw hw₀ hc ho hs h₁ (run_single_ok hcr) g₀ g₁ g₁' he₀ hne he

/-- The same with the handle `e` RETURNED by `World::create`: after any history `ops₁` from
`w₀`, it is stored afterwards, was not stored just before, and was not stored at `w₀`. -/
theorem C08_create_returns_unissued {cfg : Cfg} (hw : cfg.wrapping = false)
    {w₀ w₁ w₁' : World α} {ops₁ : List (Op α)} {a : Nat} {row : List α} {g : Nat → Nat}
    (hw₀ : WInv cfg w₀) (hc : CfgOk cfg) (ho : OpsOk cfg ops₁) (hs : OpsScoped w₀.sch ops₁)
    (hg : GrowOk cfg g) (h₁ : run cfg w₀ ops₁ = some w₁) {e : Ent}
    (hcr : w₁.create cfg g a row = .ok e w₁') :
    ∃ s₀ s₁ s₁', w₀.archs[a]? = some s₀ ∧ w₁.archs[a]? = some s₁ ∧ w₁'.archs[a]? = some s₁'
      ∧ s₁'.ents = s₁.ents ++ [e] ∧ e ∉ s₁.ents ∧ e ∉ s₀.ents := by
  obtain ⟨s₁, s₁', g₁, hp, _, g₁'⟩ := create_ok hcr
  have r₁ := run_wrel hw₀ hc ho hs h₁
  have hlt : a < w₀.archs.length := by rw [← r₁.len]; exact (List.getElem?_eq_some_iff.mp g₁).1
  have g₀ : w₀.archs[a]? = some w₀.archs[a] := List.getElem?_eq_getElem hlt
  have hsc : SCreate cfg s₁ s₁' e := .push s₁ s₁' g row e (fun h => hg _ h) hp
  have f := screate_facts (r₁.winv.get g₁) hsc
  refine ⟨_, s₁, s₁', g₀, g₁, g₁', f.ents, f.notMem, ?_⟩
  intro he₀
  exact C08_never_reissued hw (hw₀.get g₀) he₀ (r₁.reach a _ s₁ g₀ g₁) hsc rfl

/-- Every earlier point: in a history `w₀ —ops₀→ wₘ —ops₁→ w₁` followed by a successful
`create` in archetype `a`, the returned handle was not in `a`'s dense array at the
intermediate point `wₘ` — wherever the history is cut. -/
theorem C08_never_issued_twice {cfg : Cfg} (hw : cfg.wrapping = false)
    {w₀ wₘ w₁ w₁' : World α} {ops₀ ops₁ : List (Op α)} {a : Nat} {row : List α} {g : Nat → Nat}
    (hw₀ : WInv cfg w₀) (hc : CfgOk cfg) (ho : OpsOk cfg (ops₀ ++ ops₁))
    (hs : OpsScoped w₀.sch (ops₀ ++ ops₁)) (hg : GrowOk cfg g)
    (h₀ : run cfg w₀ ops₀ = some wₘ) (h₁ : run cfg wₘ ops₁ = some w₁) {e : Ent}
    (hcr : w₁.create cfg g a row = .ok e w₁') {sₘ : Storage α} (gₘ : wₘ.archs[a]? = some sₘ) :
    e ∉ sₘ.ents := by
  obtain ⟨r₀, _, _⟩ := run_split hw₀ hc ho hs h₀ h₁
  have hsch : wₘ.sch = w₀.sch := r₀.ncols_map
  obtain ⟨s₀, _, _, g₀, _, _, _, _, h⟩ :=
    C08_create_returns_unissued hw r₀.winv hc (OpsOk_append.mp ho).2
      (by rw [hsch]; exact (OpsScoped_append.mp hs).2) hg h₁ hcr
  rw [gₘ] at g₀; cases g₀; exact h

/-- … and with the handle returned by `World::create_within_capacity`. -/
theorem C08_createWithin_returns_unissued {cfg : Cfg} (hw : cfg.wrapping = false)
    {w₀ w₁ w₁' : World α} {ops₁ : List (Op α)} {a : Nat} {row : List α}
    (hw₀ : WInv cfg w₀) (hc : CfgOk cfg) (ho : OpsOk cfg ops₁) (hs : OpsScoped w₀.sch ops₁)
    (h₁ : run cfg w₀ ops₁ = some w₁) {e : Ent}
    (hcr : w₁.createWithin cfg a row = .ok (some e) w₁') :
    ∃ s₀ s₁ s₁', w₀.archs[a]? = some s₀ ∧ w₁.archs[a]? = some s₁ ∧ w₁'.archs[a]? = some s₁'
      ∧ s₁'.ents = s₁.ents ++ [e] ∧ e ∉ s₁.ents ∧ e ∉ s₀.ents := by
  obtain ⟨s₁, s₁', g₁, hp, _, g₁'⟩ := createWithin_ok hcr
  have r₁ := run_wrel hw₀ hc ho hs h₁
  have hlt : a < w₀.archs.length := by rw [← r₁.len]; exact (List.getElem?_eq_some_iff.mp g₁).1
  have g₀ : w₀.archs[a]? = some w₀.archs[a] := List.getElem?_eq_getElem hlt
  have hsc : SCreate cfg s₁ s₁' e := .pushWithin s₁ s₁' row e hp
  have f := screate_facts (r₁.winv.get g₁) hsc
  refine ⟨_, s₁, s₁', g₀, g₁, g₁', f.ents, f.notMem, ?_⟩
  intro he₀
  exact C08_never_reissued hw (hw₀.get g₀) he₀ (r₁.reach a _ s₁ g₀ g₁) hsc rfl

/-- Handles of different archetypes differ as dynamic handles (`EntityAny`), whatever their
indices and generations: the id byte differs. -/
theorem C08_unique_across_archetypes {cfg : Cfg} {w : World α} (hw : WInv cfg w) {a b ia ib : Nat}
    (hab : a ≠ b) (ha : w.ids[a]? = some ia) (hb : w.ids[b]? = some ib) (i v j v' : Nat) :
    mkKey i ia v ≠ mkKey j ib v' :=
  mkKey_ne (hw.id_lt ha) (hw.id_lt hb) (.inr (.inl (hw.ids_ne hab ha hb)))

/-- At the last generation (`u32::MAX`) of a slot or of the archetype the removal panics and
the state is unchanged: the entity stays alive and nothing is reissued — through an `Entity`
key and through a direct key. -/
theorem C08_overflow_panics_instead_of_reissuing {cfg : Cfg} (hw : cfg.wrapping = false)
    {s : Storage α} {d : Nat} {t : Ent} (h : Inv cfg s) (hd : s.ents[d]? = some t)
    (hv : t.ver = cfg.vmax ∨ s.version = cfg.vmax) :
    (∃ msg, destroyEnt cfg s t = .panic msg s)
    ∧ (∃ msg, destroyDirect cfg s d s.version = .panic msg s) :=
  ⟨overflow_blocks_reissue hw h (List.mem_of_getElem? hd) hv,
   overflow_blocks_reissue_direct hw h hd hv⟩

open HistEx in
/-- With the feature `wrapping_version` the property fails, as documented: on a one-slot
storage with `vmax = 2`, create/destroy/create/destroy/create returns the first handle again
(model functions run directly); and all hypotheses of `no_resurrection`/`fresh_forever` other
than `cfg.wrapping = false` hold there while their conclusion fails. -/
theorem C08_wrapping_is_the_documented_exception :
    (∃ (s0 s1 s2 s3 s4 s5 : Storage Nat) (e e' : Ent) (r1 r2 : List Nat),
      cfgW.wrapping = true ∧ cfgW.vmax = 2
      ∧ withCapacity cfgW 1 1 = .ok () s0
      ∧ pushWithin cfgW s0 [7] = .ok (some e) s1
      ∧ destroyEnt cfgW s1 e = .ok (some r1) s2
      ∧ pushWithin cfgW s2 [8] = .ok (some e') s3
      ∧ destroyEnt cfgW s3 e' = .ok (some r2) s4
      ∧ pushWithin cfgW s4 [9] = .ok (some e) s5)
    ∧ (∃ (s s₁ s' : Storage Nat) (seen : List Ent) (e : Ent),
      HInv cfgW s seen ∧ SReach cfgW s s₁ ∧ SCreate cfgW s₁ s' e
      ∧ e ∈ seen ∧ e ∉ s.ents ∧ e ∈ s'.ents) :=
  ⟨C08_wrapping_witness, C08_wrapping_resurrection⟩

/-! ## Non-vacuity -/
section Examples
open WorldEx StorageEx HistEx

example : cfgEx.wrapping = false := rfl

-- storage level: `holeEx` with the ghost {(0,1), (2,1), (1,1)}; one creation later the new
-- handle (1,2) is none of them
example : ∀ e ∈ holeEx1.ents, e ∉ holeEx.ents → e ∉ [(⟨0, 1⟩ : Ent), ⟨2, 1⟩, ⟨1, 1⟩] :=
  C08_new_handles_are_fresh rfl holeEx_hinv
    (.step (.refl _) holeEx_inv (.pushWithin _ _ _ _ holeEx_create))
example : (⟨1, 2⟩ : Ent) ∈ holeEx1.ents ∧ (⟨1, 2⟩ : Ent) ∉ holeEx.ents := by decide

/-- world level: on `w2`, destroy (0,1) then create: the create returns (0,2). -/
def c08ops : List (Op Nat) := [.destroy ⟨true, false, ⟨.any, 0, mkKey 0 3 1⟩, none⟩]

example : ∃ w₁ e w₁', run cfgEx w2 c08ops = some w₁
    ∧ w₁.create cfgEx (codeGrowth cfgEx) 0 [13, 23] = .ok e w₁' ∧ e = ⟨0, 2⟩ :=
  ⟨_, _, _, rfl, rfl, rfl⟩

example (w₁ w₁' : World Nat) (e : Ent) (h₁ : run cfgEx w2 c08ops = some w₁)
    (hcr : w₁.create cfgEx (codeGrowth cfgEx) 0 [13, 23] = .ok e w₁') : e ∉ holeEx.ents := by
  obtain ⟨s₀, s₁, s₁', g₀, _, _, _, _, h⟩ :=
    C08_create_returns_unissued rfl w2_winv cfgEx_ok (ops₁ := c08ops) trivial
      (by intro op hop
          simp only [c08ops, List.mem_cons, List.not_mem_nil, or_false] at hop
          subst hop; exact KeyUse.scoped_of_untyped rfl)
      (fun c hc => codeGrowth_ok cfgEx c hc) h₁ hcr
  cases g₀; exact h

-- ids 3 and 7 of `w2`
example : mkKey 0 3 1 ≠ mkKey 0 7 1 :=
  C08_unique_across_archetypes w2_winv (a := 0) (b := 1) (by decide) rfl rfl 0 1 0 1

-- overflow: `ovfEx` holds an entity whose slot generation is `vmax = 5`
example : (∃ msg, destroyEnt cfgEx ovfEx ⟨0, 5⟩ = .panic msg ovfEx)
    ∧ (∃ msg, destroyDirect cfgEx ovfEx 0 ovfEx.version = .panic msg ovfEx) :=
  C08_overflow_panics_instead_of_reissuing rfl ovfEx_inv (d := 0) rfl (.inl rfl)

end Examples
end Gecs

section
open Gecs
#print axioms C08_new_handles_are_fresh
#print axioms C08_unique_within_archetype
#print axioms C08_created_handle_is_new
#print axioms C08_create_returns_unissued
#print axioms C08_never_issued_twice
#print axioms C08_createWithin_returns_unissued
#print axioms C08_unique_across_archetypes
#print axioms C08_overflow_panics_instead_of_reissuing
#print axioms C08_wrapping_is_the_documented_exception
end
