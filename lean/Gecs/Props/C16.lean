/-
C16 — `#[cfg]`-disabled archetypes, components and query parameters behave as absent.
Model: Gecs/Model/Macro.lean (`collectWorld`, `collectQuery`, `chain`, `mkLookup`,
`lookupCfg`, `expandWorld`, `expandQuery`), tied to macros/src/{parse,generate}/cfg.rs,
data.rs, generate/query.rs by harness/mac.  For ALL declarations and queries with any number
of predicates and ALL truth assignments.
Not modelled: that rustc expands the `macro_rules!` chain in order and honours `#[cfg]` on
closure parameters — that is rustc (exercised end-to-end by tools/e2e.py: generated programs compiled and run).
-/
import Gecs.Lemmas.MacCfgWorld
import Gecs.Lemmas.MacCfgQuery

-- OBLIGATIONS: Gecs.Mac.C16_lookup Gecs.Mac.C16_world_erasure Gecs.Mac.C16_world_true
-- OBLIGATIONS: Gecs.Mac.C16_query_erasure Gecs.Mac.C16_param_enabled Gecs.Mac.collectWorld_nodup
-- OBLIGATIONS: Gecs.Mac.collectWorld_complete Gecs.Mac.collectQuery_nodup Gecs.Mac.collectQuery_complete
-- OBLIGATIONS: Gecs.Mac.expandWorld_congr Gecs.Mac.query_erasure_strong

namespace Gecs.Mac

/-- The second parse re-collects the predicates and zips them with the booleans produced by
the macro chain; every predicate is looked up to the value the compiler gave it. -/
theorem C16_lookup (ρ : String → Bool) (preds : List String) (hn : preds.Nodup) :
    ∀ p ∈ preds, lookupCfg (mkLookup preds (chain ρ preds)) p = some (ρ p) :=
  lookup_correct ρ preds hn

/-- World erasure: under every assignment the declaration expands exactly like the
declaration with the false-predicate items deleted and all attributes stripped. -/
theorem C16_world_erasure (w : PWorld) (ρ : String → Bool) :
    expandWorld w ρ = expandWorld (eraseWorld ρ w) (fun _ => true) :=
  world_erasure w ρ

/-- With true predicates the attributes might as well be absent. -/
theorem C16_world_true {ρ : String → Bool} (h : ∀ p, ρ p = true) (w : PWorld) :
    expandWorld w ρ = expandWorld (stripWorld w) (fun _ => true) :=
  expandWorld_true h w

/-- Each parameter's `is_cfg_enabled` is the conjunction of its predicates' values. -/
theorem C16_param_enabled {ps : List QParam} {p : QParam} (ρ : String → Bool) (hp : p ∈ ps) :
    isCfgEnabled (mkLookup (collectQuery ps) (chain ρ (collectQuery ps))) p = some (p.cfgs.all ρ) :=
  isCfgEnabled_pipeline ρ hp

/-- Query erasure: same verdict, same matched archetypes and, position by position on the
enabled parameters, the same bound types, as the query with the disabled parameters deleted.
The hypothesis excludes the documented rejection "cfg attributes not currently supported
on OneOf". -/
theorem C16_query_erasure (w : DWorld) (ps : List QParam) (ρ : String → Bool)
    (h : ∀ p ∈ ps, (∃ cs, p.ty = .oneOf cs) → p.cfgs = []) :
    (expandQuery w ps ρ).map obs = (expandQuery w (eraseQuery ρ ps) (fun _ => true)).map obs :=
  query_erasure w ps ρ h

end Gecs.Mac
