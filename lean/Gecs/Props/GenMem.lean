/-
`DataPtr::swap_remove` / `drop_to` TRANSLATED statement by statement (Gen/Steps.lean:
`dataSwapRemoveSteps`, `dataDropToSteps`) over a memory of initialised / dead cells: obligation
lists for Lemmas/GenMem.lean.  This is the link between the list-level `swapRemove` / `take len`
the storage model computes with and the pointer statements of the code: the removed value is read
out exactly once, the last value is bit-copied into its place and its old cell is dead afterwards
(no double drop, C04; the moved entity keeps its own data, C02); `drop_to(len)` drops exactly the
first `len` values, unconditionally (zero-sized types included), each once.
-/
import Gecs.Lemmas.GenMem

-- OBLIGATIONS(C04): Gecs.gen_mem_swap_remove Gecs.gen_mem_drop_to
-- OBLIGATIONS(C02): Gecs.gen_mem_swap_remove
-- OBLIGATIONS(C10): Gecs.gen_mem_swap_remove Gecs.gen_mem_drop_to

namespace Gecs

/-- Non-vacuity: removing the middle of three. -/
example : execDataSwapRemove Gen.dataSwapRemoveSteps [some 10, some 11, some 12, none] 1 3
    = some (11, [some 10, some 12, none, none]) := by decide

end Gecs
