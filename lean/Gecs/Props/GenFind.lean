/-
The expansion of `ecs_find!` / `ecs_find_borrow!` TRANSLATED from macros/src/generate/query.rs
(Gen/Steps.lean: `findT` — the statements of the two arms pushed per matched archetype, their
tail expression, the `_ => None` default and the `.expect("invalid entity type")` scrutinee):
obligation list for Lemmas/GenFind.lean.  Every theorem of Props/ stated over `findQuery` (find
paths of C01, C02, C03, C09; "an unmatched archetype answers None without calling the closure"
of C05) is thereby about the extracted skeleton.
-/
import Gecs.Lemmas.GenFind

-- OBLIGATIONS(C01): Gecs.gen_find_query
-- OBLIGATIONS(C02): Gecs.gen_find_query
-- OBLIGATIONS(C03): Gecs.gen_find_query
-- OBLIGATIONS(C09): Gecs.gen_find_query
-- OBLIGATIONS(C10): Gecs.gen_find_query

namespace Gecs
#check @gen_find_query
end Gecs
