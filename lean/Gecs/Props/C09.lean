/-
C09 — A direct handle never designates another entity and dies with any removal.
Models: Gecs/Model/Storage.lean (`resolveDirect` = storage.rs `StorageN::resolve_direct`, the
validating one: archetype version first, then the dense index; `toDirectEnt`/`toDirectDirect`
= `StorageCanResolve<Entity<A>>::resolve_direct` / `<EntityDirect<A>>::resolve_direct`, the
latter in its repaired, validating form; `forceDestroy` = `force_destroy`, which advances the
archetype version on every removal), Gecs/Model/World.lean (`mkKey` = the `(dense << 8) | id`
packing of entity.rs, `World.contains/toDirect/fetch` with `direct := true` = the generated
world.rs dispatch for `EntityDirect<A>` / `EntityDirectAny`) and Gecs/Model/History.lean
(`run`).  Tied to the Rust code by the `to_direct`/`contains`/`resolve`/`destroy` lines of
harness/rt.

A direct handle for the entity `e` of archetype `a`, obtained at world `w₁`, is any key `k`
with `k.index = d` and `k.ver = s₁.version`, where `s₁` is `a`'s storage at `w₁` and
`s₁.ents[d]? = some e` (that is what `to_direct` mints, `C09_issue_world`; the id byte is
irrelevant for a typed `EntityDirect<A>`).  It is used at `w₂ = run cfg w₁ ops₂` for an
arbitrary history `ops₂` (any length, forged handles, arbitrary closures, continuing after
panics); `w₁` is any world satisfying `WInv`, in particular any world reached by a history
(`run_inv`).  NON-wrapping generations (`cfg.wrapping = false`); with `wrapping_version` the
archetype version returns to 1 after `u32::MAX` removals (documented limitation).
-/
import Gecs.Lemmas.WorldHistory

-- OBLIGATIONS: Gecs.C09_issue_world Gecs.C09_safe_world Gecs.C09_dies_world
-- OBLIGATIONS: Gecs.sreach_lost_version_lt Gecs.C09_lives_world Gecs.C09_lives_without_removal
-- OBLIGATIONS: Gecs.C09_to_direct_validates Gecs.C09_minted_by_to_direct_is_accepted

namespace Gecs
variable {α : Type}

/-- Issue: for a live entity `e` at dense index `d` of archetype `a` (declared id `id`),
`to_direct` of its handle mints `(d, id, archetype version)`, and that direct handle is
accepted in the same world, at `d`. -/
theorem C09_issue_world {cfg : Cfg} {w : World α} (hw : WInv cfg w) {a d id : Nat}
    {s : Storage α} {e : Ent} (g : w.archs[a]? = some s) (hid : w.ids[a]? = some id)
    (he : s.ents[d]? = some e) :
    w.toDirect cfg (.arch a (mkKey e.slot id e.ver)) false = .ok (some (mkKey d id s.version)) w
    ∧ w.contains cfg (.arch a (mkKey d id s.version)) true = .ok (some d) w := by
  have hlt := hw.id_lt hid
  exact ⟨toDirect_own_handle hw g hid he,
    (contains_dir_iff hw a _ d).mpr
      ⟨s, g, (Key.index_mkKey _ hlt).symm, rfl, (hw.get g).ents_lt he⟩⟩

/-- Safety: whenever the direct handle obtained for `e` at `w₁` is accepted at `w₂` — by
`contains`/`resolve` or by `view`/`borrow`/`find` — it designates `e` itself, still at dense
index `d`: never another entity. -/
theorem C09_safe_world {cfg : Cfg} (hw : cfg.wrapping = false) {w₁ w₂ : World α}
    {ops₂ : List (Op α)} (hw₁ : WInv cfg w₁) (hc : CfgOk cfg) (ho : OpsOk cfg ops₂)
    (hs : OpsScoped w₁.sch ops₂) (h₂ : run cfg w₁ ops₂ = some w₂)
    {a d : Nat} {s₁ s₂ : Storage α} (g₁ : w₁.archs[a]? = some s₁) (g₂ : w₂.archs[a]? = some s₂)
    {e : Ent} (he : s₁.ents[d]? = some e) {k : Key} (hkd : k.index = d)
    (hkv : k.ver = s₁.version) :
    (∀ d', w₂.contains cfg (.arch a k) true = .ok (some d') w₂ →
        d' = d ∧ s₂.ents[d]? = some e)
    ∧ (∀ d' e' row w', w₂.fetch cfg (.arch a k) true = .ok (some (d', e', row)) w' →
        d' = d ∧ e' = e ∧ s₂.ents[d]? = some e) := by
  have r := run_wrel hw₁ hc ho hs h₂
  have hr := r.reach a s₁ s₂ g₁ g₂
  have hi₁ := hw₁.get g₁
  have hi₂ := r.winv.get g₂
  have core : k.ver = s₂.version → d < s₂.len → s₂.ents[d]? = some e := by
    intro hv hd
    exact C09_safe hw hi₁ he hr
      ((resolveDirect_iff cfg s₂ d s₁.version hi₂).mpr ⟨by rw [← hkv, hv], hd⟩)
  constructor
  · intro d' h
    obtain ⟨s, g, h1, h2, h3⟩ := (contains_dir_iff r.winv a k d').mp h
    rw [g₂] at g; cases g
    rw [hkd] at h1; subst h1
    exact ⟨rfl, core h2 h3⟩
  · intro d' e' row w' h
    obtain ⟨_, a', k', s, h2, h3, h4, _, _, h7⟩ := fetch_ok r.winv h
    cases h2
    rw [g₂] at h3; cases h3
    obtain ⟨h8, h9⟩ := h7 rfl
    rw [hkd] at h8; subst h8
    have hcore := core h9 (hi₂.ents_lt h4)
    have : e' = e := by rw [h4] at hcore; exact Option.some.inj hcore
    exact ⟨rfl, this, hcore⟩

/-- Death: if some entity of archetype `a` that was alive at `w₁` is no longer alive at `w₂`
— ANY removal from its archetype after the handle was obtained, of `e` itself or of any other
entity, by any path — then every direct handle carrying `w₁`'s archetype version is answered
`None` at `w₂` by `contains`/`resolve`, `to_direct` and `view`/`borrow`/`find` (no panic, no
`ub`), even if `e` is still alive and still at index `d`. -/
theorem C09_dies_world {cfg : Cfg} (hw : cfg.wrapping = false) {w₁ w₂ : World α}
    {ops₂ : List (Op α)} (hw₁ : WInv cfg w₁) (hc : CfgOk cfg) (ho : OpsOk cfg ops₂)
    (hs : OpsScoped w₁.sch ops₂) (h₂ : run cfg w₁ ops₂ = some w₂)
    {a : Nat} {s₁ s₂ : Storage α} (g₁ : w₁.archs[a]? = some s₁) (g₂ : w₂.archs[a]? = some s₂)
    (hlost : ∃ t ∈ s₁.ents, t ∉ s₂.ents) {k : Key} (hkv : k.ver = s₁.version) :
    s₁.version < s₂.version
    ∧ w₂.contains cfg (.arch a k) true = .ok none w₂
    ∧ w₂.toDirect cfg (.arch a k) true = .ok none w₂
    ∧ w₂.fetch cfg (.arch a k) true = .ok none w₂ := by
  have hr := run_reach hw₁ hc ho hs h₂ g₁ g₂
  have hlt := sreach_lost_version_lt hw (hw₁.get g₁) hr hlost
  exact ⟨hlt, direct_stale_none g₂ (by omega)⟩

/-- Life: if archetype `a`'s version at `w₂` is what it was at `w₁` (no removal from `a` in
between took effect), the handle is still accepted at `d` and designates `e`; creations,
growth of the archetype and anything that happened in OTHER archetypes do not matter. -/
theorem C09_lives_world {cfg : Cfg} (hw : cfg.wrapping = false) {w₁ w₂ : World α}
    {ops₂ : List (Op α)} (hw₁ : WInv cfg w₁) (hc : CfgOk cfg) (ho : OpsOk cfg ops₂)
    (hs : OpsScoped w₁.sch ops₂) (h₂ : run cfg w₁ ops₂ = some w₂)
    {a d : Nat} {s₁ s₂ : Storage α} (g₁ : w₁.archs[a]? = some s₁) (g₂ : w₂.archs[a]? = some s₂)
    {e : Ent} (he : s₁.ents[d]? = some e) {k : Key} (hkd : k.index = d)
    (hkv : k.ver = s₁.version) (hv : s₂.version = s₁.version) :
    s₂.ents[d]? = some e
    ∧ w₂.contains cfg (.arch a k) true = .ok (some d) w₂
    ∧ w₂.toDirect cfg (.arch a k) true = .ok (some k) w₂
    ∧ ∃ row, readRow s₂ d = some row
        ∧ w₂.fetch cfg (.arch a k) true = .ok (some (d, e, row)) w₂ := by
  have r := run_wrel hw₁ hc ho hs h₂
  have hr := r.reach a s₁ s₂ g₁ g₂
  have hi₁ := hw₁.get g₁
  have hi₂ := r.winv.get g₂
  have hacc := C09_lives hw hi₁ he hr hv
  have hd₂ := C09_safe hw hi₁ he hr hacc
  have hlt := hi₂.ents_lt hd₂
  have hkv₂ : k.ver = s₂.version := by rw [hkv, hv]
  subst hkd
  refine ⟨hd₂, (contains_dir_iff r.winv a k _).mpr ⟨s₂, g₂, rfl, hkv₂, hlt⟩,
    toDirect_dir_of_valid r.winv g₂ hkv₂ hlt, fetch_dir_of_valid r.winv g₂ hkv₂ hd₂⟩

/-- In particular, along a history `ops₂` made of creations in any archetype (growth
included), component writes, `clear_events`, clones, and `destroy` calls that are refused or
routed to OTHER archetypes (`Op.NoRemovalIn cfg w₁.ids a`), the handle stays accepted and
keeps designating `e`. -/
theorem C09_lives_without_removal {cfg : Cfg} (hw : cfg.wrapping = false) {w₁ w₂ : World α}
    {ops₂ : List (Op α)} (hw₁ : WInv cfg w₁) (hc : CfgOk cfg) (ho : OpsOk cfg ops₂)
    (hs : OpsScoped w₁.sch ops₂) (h₂ : run cfg w₁ ops₂ = some w₂)
    {a d : Nat} {s₁ s₂ : Storage α} (g₁ : w₁.archs[a]? = some s₁) (g₂ : w₂.archs[a]? = some s₂)
    (hnr : ∀ op ∈ ops₂, op.NoRemovalIn cfg w₁.ids a)
    {e : Ent} (he : s₁.ents[d]? = some e) {k : Key} (hkd : k.index = d)
    (hkv : k.ver = s₁.version) :
    s₂.version = s₁.version ∧ s₂.ents[d]? = some e
    ∧ w₂.contains cfg (.arch a k) true = .ok (some d) w₂ := by
  have hv := run_keeps_version hc a ops₂ w₁ w₂ hw₁ ho hs hnr h₂ s₁ s₂ g₁ g₂
  obtain ⟨h1, h2, _⟩ := C09_lives_world hw hw₁ hc ho hs h₂ g₁ g₂ he hkd hkv hv
  exact ⟨hv, h1, h2⟩

/-- `to_direct` applied to a DIRECT key validates it: it returns only its own argument, and
it returns it exactly when the key is currently accepted by `contains`; a stale direct key
(version mismatch) gets `None` — it is not "re-issued".  (The unrepaired code returned the
argument unconditionally: defect F4.) -/
theorem C09_to_direct_validates {cfg : Cfg} {w : World α} (hw : WInv cfg w) (a : Nat) (k : Key) :
    (∀ k' w', w.toDirect cfg (.arch a k) true = .ok (some k') w' → w' = w ∧ k' = k)
    ∧ (w.toDirect cfg (.arch a k) true = .ok (some k) w
        ↔ w.contains cfg (.arch a k) true = .ok (some k.index) w)
    ∧ (∀ s, w.archs[a]? = some s → k.ver ≠ s.version →
        w.toDirect cfg (.arch a k) true = .ok none w) := by
  refine ⟨?_, ?_, ?_⟩
  · intro k' w' h
    obtain ⟨h1, a', k₁, s, h2, _, h4, _⟩ := toDirect_dir_ok hw h
    cases h2
    exact ⟨h1, h4⟩
  · constructor
    · intro h
      obtain ⟨_, a', k₁, s, h2, h3, _, h5, h6⟩ := toDirect_dir_ok hw h
      cases h2
      exact (contains_dir_iff hw a k k.index).mpr ⟨s, h3, rfl, h5, h6⟩
    · intro h
      obtain ⟨s, g, _, h2, h3⟩ := (contains_dir_iff hw a k k.index).mp h
      exact toDirect_dir_of_valid hw g h2 h3
  · intro s g hne
    exact (direct_stale_none g hne).2.1

/-- What `to_direct` returns from an `Entity` key is accepted by `contains` as a direct key
in the same world, at the dense index at which the `Entity` key itself is accepted. -/
theorem C09_minted_by_to_direct_is_accepted {cfg : Cfg} {w w' : World α} (hw : WInv cfg w)
    {a : Nat} {k k' : Key} (h : w.toDirect cfg (.arch a k) false = .ok (some k') w') :
    ∃ d, w.contains cfg (.arch a k) false = .ok (some d) w
      ∧ w.contains cfg (.arch a k') true = .ok (some d) w := by
  obtain ⟨_, a', k₁, s, d, h2, g, hd, rfl⟩ := toDirect_ent_ok hw h
  cases h2
  obtain ⟨id, hid, hlt⟩ := hw.ids_get g
  rw [getD_of_getElem? hid]
  exact ⟨d, (contains_ent_iff hw a k d).mpr ⟨s, g, hd⟩,
    (contains_dir_iff hw a _ d).mpr
      ⟨s, g, (Key.index_mkKey _ hlt).symm, rfl, (hw.get g).ents_lt hd⟩⟩

/-! ## Non-vacuity -/
section Examples
open WorldEx StorageEx

-- `w2`: archetype 0 (id 3, version 2) holds (0,1) at dense 0 and (2,1) at dense 1.
example : w2.toDirect cfgEx (.arch 0 (mkKey 2 3 1)) false = .ok (some (mkKey 1 3 2)) w2
    ∧ w2.contains cfgEx (.arch 0 (mkKey 1 3 2)) true = .ok (some 1) w2 :=
  C09_issue_world w2_winv (a := 0) (d := 1) (id := 3) (s := holeEx) (e := ⟨2, 1⟩) rfl rfl rfl

/-- A history without removal in archetype 0: a creation there, a write, a removal in
archetype 1 and a refused (stale) removal … -/
def c09keep : List (Op Nat) :=
  [.create 0 [13, 23] (codeGrowth cfgEx),
   .write ⟨true, false, ⟨.any, 0, mkKey 0 3 1⟩, none⟩ 0 99,
   .destroy ⟨true, false, ⟨.any, 1, mkKey 0 7 1⟩, none⟩,
   .clearEvents none]

/-- … and one that removes the OTHER entity (0,1) of archetype 0. -/
def c09kill : List (Op Nat) :=
  [.create 0 [13, 23] (codeGrowth cfgEx),
   .destroy ⟨true, true, ⟨.ent, 0, mkKey 0 3 1⟩, none⟩]

theorem c09keep_ok : OpsOk cfgEx c09keep := ⟨fun c hc => codeGrowth_ok cfgEx c hc, trivial⟩
theorem c09kill_ok : OpsOk cfgEx c09kill := ⟨fun c hc => codeGrowth_ok cfgEx c hc, trivial⟩

theorem c09keep_scoped : OpsScoped w2.sch c09keep := by
  intro op hop
  simp only [c09keep, List.mem_cons, List.not_mem_nil, or_false] at hop
  rcases hop with rfl | rfl | rfl | rfl
  · exact (rfl : w2.sch[0]? = some 2)
  · exact KeyUse.scoped_of_untyped rfl
  · exact KeyUse.scoped_of_untyped rfl
  · trivial

theorem c09kill_scoped : OpsScoped w2.sch c09kill := by
  intro op hop
  simp only [c09kill, List.mem_cons, List.not_mem_nil, or_false] at hop
  rcases hop with rfl | rfl
  · exact (rfl : w2.sch[0]? = some 2)
  · exact fun _ => (by decide : 0 < 2)

theorem c09keep_noRemoval : ∀ op ∈ c09keep, op.NoRemovalIn cfgEx w2.ids 0 := by
  intro op hop
  simp only [c09keep, List.mem_cons, List.not_mem_nil, or_false] at hop
  rcases hop with rfl | rfl | rfl | rfl
  · trivial
  · trivial
  · intro k hk
    have : KeyUse.route cfgEx w2.ids ⟨true, false, ⟨.any, 1, mkKey 0 7 1⟩, none⟩
        = .arch 1 (mkKey 0 7 1) := rfl
    rw [this] at hk; cases hk
  · trivial

-- both histories run, archetype 1 really loses an entity in the first one, and in the second
-- one (0,1) is gone while (2,1) is still at dense index 1
example : ∃ w s₀ s₁, run cfgEx w2 c09keep = some w ∧ w.archs[0]? = some s₀
    ∧ w.archs[1]? = some s₁ ∧ s₀.version = 2 ∧ s₀.capacity = 3 ∧ s₀.len = 3 ∧ s₁.len = 1 :=
  ⟨_, _, _, rfl, rfl, rfl, rfl, rfl, rfl, rfl⟩
example : ∃ w s₀, run cfgEx w2 c09kill = some w ∧ w.archs[0]? = some s₀
    ∧ (⟨0, 1⟩ : Ent) ∈ holeEx.ents ∧ (⟨0, 1⟩ : Ent) ∉ s₀.ents ∧ s₀.ents[1]? = some ⟨2, 1⟩ :=
  ⟨_, _, rfl, rfl, by decide, by decide, rfl⟩

-- the direct handle (1, 2) of entity (2,1) survives the first history …
example (w : World Nat) (s : Storage Nat) (h : run cfgEx w2 c09keep = some w)
    (g : w.archs[0]? = some s) :
    w.contains cfgEx (.arch 0 (mkKey 1 3 2)) true = .ok (some 1) w :=
  (C09_lives_without_removal rfl w2_winv cfgEx_ok c09keep_ok c09keep_scoped h (a := 0)
    (s₁ := holeEx) rfl g c09keep_noRemoval (d := 1) (e := ⟨2, 1⟩) rfl rfl rfl).2.2

-- … and dies in the second
example (w : World Nat) (s : Storage Nat) (h : run cfgEx w2 c09kill = some w)
    (g : w.archs[0]? = some s) (hl : (⟨0, 1⟩ : Ent) ∉ s.ents) :
    w.contains cfgEx (.arch 0 (mkKey 1 3 2)) true = .ok none w :=
  (C09_dies_world rfl w2_winv cfgEx_ok c09kill_ok c09kill_scoped h (a := 0) (s₁ := holeEx) rfl g
    ⟨⟨0, 1⟩, by decide, hl⟩ (k := mkKey 1 3 2) rfl).2.1

-- a stale direct key is not re-issued by `to_direct`; a current one is returned as given
example : w2.toDirect cfgEx (.arch 0 (mkKey 1 3 1)) true = .ok none w2 :=
  (C09_to_direct_validates w2_winv 0 (mkKey 1 3 1)).2.2 holeEx rfl (by decide)
example : w2.toDirect cfgEx (.arch 0 (mkKey 1 3 2)) true = .ok (some (mkKey 1 3 2)) w2 :=
  ((C09_to_direct_validates w2_winv 0 (mkKey 1 3 2)).2.1).mpr rfl

end Examples
end Gecs

section
open Gecs
#print axioms C09_issue_world
#print axioms C09_safe_world
#print axioms C09_dies_world
#print axioms sreach_lost_version_lt
#print axioms C09_lives_world
#print axioms C09_lives_without_removal
#print axioms C09_to_direct_validates
#print axioms C09_minted_by_to_direct_is_accepted
end
