/-
M-mac: the compile-time logic of the macro crate.
Mirrors macros/src/data.rs (DataWorld::new, advance_attribute_id, evaluate_cfgs,
contains_component), parse/world.rs + parse/query.rs (collect_all_cfg_predicates),
parse/cfg.rs (ParseCfgDecorated: zip predicates with states, lookup by string),
generate/cfg.rs (the macro chain appends one boolean per predicate, in order),
generate/query.rs (is_cfg_enabled, bind_query_params, bind_one_of, the empty-match error).
Import-free.
-/
namespace Gecs.Mac

/-! ### Parsed declarations (what `syn` hands to the macro crate) -/

structure PComp where
  cfgs : List String          -- predicates of `#[cfg(..)]` attributes, printed
  id : Option Nat             -- `#[component_id(N)]`
  name : String
deriving Repr, DecidableEq, Inhabited

structure PArch where
  cfgs : List String
  id : Option Nat             -- `#[archetype_id(N)]`
  name : String
  comps : List PComp
deriving Repr, DecidableEq, Inhabited

structure PWorld where
  name : String
  archs : List PArch
deriving Repr, DecidableEq, Inhabited

/-! ### DataWorld (what the generators consume) -/

structure DComp where
  id : Nat
  name : String
deriving Repr, DecidableEq, Inhabited

structure DArch where
  id : Nat
  name : String
  comps : List DComp
deriving Repr, DecidableEq, Inhabited

structure DWorld where
  name : String
  archs : List DArch
deriving Repr, DecidableEq, Inhabited

/-- An association list standing for the `HashMap<String, bool>` `cfg_lookup`.
`HashMap::insert` overwrites: a later entry for the same key wins. -/
abbrev CfgLookup := List (String × Bool)

def lookupCfg (l : CfgLookup) (p : String) : Option Bool :=
  (l.reverse.find? (fun kv => kv.1 == p)).map (·.2)

/-- `dedupPush filter result p`: `if filter.insert(p) { result.push(p) }`. -/
def dedupAppend (acc : List String) (ps : List String) : List String :=
  ps.foldl (fun acc p => if acc.contains p then acc else acc ++ [p]) acc

/-- parse/world.rs `collect_all_cfg_predicates`: first-appearance order, de-duplicated by
printed string; per archetype its own cfgs first, then each component's. -/
def collectWorld (w : PWorld) : List String :=
  w.archs.foldl (fun acc a =>
    let acc := dedupAppend acc a.cfgs
    a.comps.foldl (fun acc c => dedupAppend acc c.cfgs) acc) []

/-- generate/cfg.rs: the `macro_rules!` chain appends `eval pᵢ` for i = 0..k-1. -/
def chain (ρ : String → Bool) (preds : List String) : List Bool := preds.map ρ

/-- parse/cfg.rs `ParseCfgDecorated::parse`: re-collect and zip with the booleans. -/
def mkLookup (preds : List String) (states : List Bool) : CfgLookup := preds.zip states

/-- data.rs `evaluate_cfgs` (`none` = the `unwrap()` on a missing key would panic). -/
def evaluateCfgs (l : CfgLookup) : List String → Option Bool
  | [] => some true
  | p :: ps =>
    match lookupCfg l p with
    | none => none
    | some false => some false
    | some true => evaluateCfgs l ps

inductive IdErr where
  | exceeds (item : String)                       -- "attribute id may not exceed 255"
  | duplicate (id : Nat) (item prev : String)     -- "attribute id N is already assigned to prev"
deriving Repr, DecidableEq

/-- data.rs `advance_attribute_id`: `ids` is the `HashMap<u8, String>` as an assoc list. -/
def advanceId (explicit : Option Nat) (name : String) (ids : List (Nat × String)) (last : Option Nat) :
    Except IdErr (Nat × List (Nat × String)) :=
  let next : Except IdErr Nat :=
    match explicit with
    | some i => .ok i
    | none =>
      match last with
      | some l => if l + 1 ≤ 255 then .ok (l + 1) else .error (.exceeds name)
      | none => .ok 0
  match next with
  | .error e => .error e
  | .ok n =>
    match ids.find? (fun kv => kv.1 == n) with
    | some (_, prev) => .error (.duplicate n name prev)
    | none => .ok (n, ids ++ [(n, name)])

inductive NewErr where
  | id (e : IdErr)
  | missingCfg
deriving Repr, DecidableEq

def buildComps (l : CfgLookup) : List PComp → List (Nat × String) → Option Nat → Except NewErr (List DComp)
  | [], _, _ => .ok []
  | c :: cs, ids, last =>
    match evaluateCfgs l c.cfgs with
    | none => .error .missingCfg
    | some false => buildComps l cs ids last
    | some true =>
      match advanceId c.id c.name ids last with
      | .error e => .error (.id e)
      | .ok (n, ids') =>
        match buildComps l cs ids' (some n) with
        | .error e => .error e
        | .ok rest => .ok (⟨n, c.name⟩ :: rest)

def buildArchs (l : CfgLookup) : List PArch → List (Nat × String) → Option Nat → Except NewErr (List DArch)
  | [], _, _ => .ok []
  | a :: as, ids, last =>
    match evaluateCfgs l a.cfgs with
    | none => .error .missingCfg
    | some false => buildArchs l as ids last
    | some true =>
      match advanceId a.id a.name ids last with
      | .error e => .error (.id e)
      | .ok (n, ids') =>
        match buildComps l a.comps [] none with
        | .error e => .error e
        | .ok comps =>
          match buildArchs l as ids' (some n) with
          | .error e => .error e
          | .ok rest => .ok (⟨n, a.name, comps⟩ :: rest)

/-- data.rs `DataWorld::new`. -/
def DWorld.new (w : PWorld) (l : CfgLookup) : Except NewErr DWorld :=
  match buildArchs l w.archs [] none with
  | .error e => .error e
  | .ok archs => .ok ⟨w.name, archs⟩

/-- The whole pipeline for a truth assignment `ρ` of the predicates. -/
def expandWorld (w : PWorld) (ρ : String → Bool) : Except NewErr DWorld :=
  let preds := collectWorld w
  DWorld.new w (mkLookup preds (chain ρ preds))

/-! ### Queries -/

inductive PType where
  | comp (n : String)
  | ent (a : String)
  | entWild
  | entAny
  | dir (a : String)
  | dirWild
  | dirAny
  | oneOf (cs : List String)
deriving Repr, DecidableEq, Inhabited

structure QParam where
  cfgs : List String
  isMut : Bool
  ty : PType
  enabled : Bool := true       -- `is_cfg_enabled`, set during generation
deriving Repr, DecidableEq, Inhabited

def DArch.contains (a : DArch) (n : String) : Bool := a.comps.any (fun c => c.name == n)

/-- parse/query.rs `get_cfg_predicates`. -/
def collectQuery (ps : List QParam) : List String :=
  ps.foldl (fun acc p => dedupAppend acc p.cfgs) []

/-- generate/query.rs `is_cfg_enabled`. -/
def isCfgEnabled (l : CfgLookup) (p : QParam) : Option Bool := evaluateCfgs l p.cfgs

inductive BindErr where
  | ambiguous (arch first second : String)
  | cfgOnOneOf
  | noMatch
  | missingCfg
deriving Repr, DecidableEq

/-- generate/query.rs `bind_one_of`. -/
def bindOneOf (a : DArch) : List String → Option String → Except BindErr (Option String)
  | [], found => .ok found
  | c :: cs, found =>
    if a.contains c then
      match found with
      | some f => .error (.ambiguous a.name f c)
      | none => bindOneOf a cs (some c)
    else bindOneOf a cs found

/-- One parameter against one archetype: `some p'` = pushed to `bound`, `none` = `continue`. -/
def bindParam (a : DArch) (p : QParam) : Except BindErr (Option QParam) :=
  match p.ty with
  | .entAny | .dirAny | .entWild | .dirWild => .ok (some p)
  | .comp n => if p.enabled == false || a.contains n then .ok (some p) else .ok none
  | .ent n | .dir n => if p.enabled == false || a.name == n then .ok (some p) else .ok none
  | .oneOf cs =>
    if p.cfgs.length > 0 then .error .cfgOnOneOf
    else
      match bindOneOf a cs none with
      | .error e => .error e
      | .ok (some c) => .ok (some { p with ty := .comp c })
      | .ok none => .ok none

def bindArch (a : DArch) : List QParam → Except BindErr (List QParam)
  | [] => .ok []
  | p :: ps =>
    match bindParam a p with
    | .error e => .error e
    | .ok r =>
      match bindArch a ps with
      | .error e => .error e
      | .ok rest => .ok (match r with | some p' => p' :: rest | none => rest)

/-- generate/query.rs `bind_query_params`: per archetype (declaration order) the bound
parameter list, kept iff every parameter was bound (`bound.len() == params.len()`). -/
def bindQueryParams (w : DWorld) (ps : List QParam) : Except BindErr (List (String × List QParam)) :=
  let rec go : List DArch → Except BindErr (List (String × List QParam))
    | [] => .ok []
    | a :: as =>
      match bindArch a ps with
      | .error e => .error e
      | .ok bound =>
        match go as with
        | .error e => .error e
        | .ok rest => .ok (if bound.length == ps.length then (a.name, bound) :: rest else rest)
  go w.archs

/-- What the three generators do with the binding: the matched archetypes in declaration
order (`for archetype in world_data.archetypes { if let Some(b) = bound.get(name) …`),
or the "query matched no archetypes in world" error. -/
def generateQuery (w : DWorld) (ps : List QParam) : Except BindErr (List (DArch × List QParam)) :=
  match bindQueryParams w ps with
  | .error e => .error e
  | .ok bound =>
    let matched := w.archs.filterMap (fun a =>
      (bound.find? (fun kv => kv.1 == a.name)).map (fun kv => (a, kv.2)))
    if matched.isEmpty then .error .noMatch else .ok matched

/-- Full query pipeline for a truth assignment. -/
def expandQuery (w : DWorld) (ps : List QParam) (ρ : String → Bool) :
    Except BindErr (List (DArch × List QParam)) :=
  let preds := collectQuery ps
  let l := mkLookup preds (chain ρ preds)
  let rec setEnabled : List QParam → Option (List QParam)
    | [] => some []
    | p :: ps =>
      match isCfgEnabled l p, setEnabled ps with
      | some b, some rest => some ({ p with enabled := b } :: rest)
      | _, _ => none
  match setEnabled ps with
  | none => .error .missingCfg
  | some ps' => generateQuery w ps'

end Gecs.Mac
