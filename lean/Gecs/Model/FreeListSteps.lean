/-
Statement-level model of `Slot::populate_free_list(start, slots)` and `Slot::new_free`
(/repo/src/archetype/slot.rs): how `with_capacity` and `grow` thread the fresh slots into the free
chain.  The control skeleton and statements are regenerated from the source on every run
(Gecs/Gen/Steps.lean: `populateT`, `slotNewFreeFields`); Lemmas/GenFreeList.lean proves that
running them is the model's `populate` (Model/Storage.lean): cells below `start` untouched, cell
`i ≥ start` linked to `i + 1`, the last cell ends the chain, every fresh cell at the start
generation, head = `start`.
-/
import Gecs.Model.Steps

namespace Gecs

/-- Field initialisers of `Slot::new_free(next_free)`'s `Self { … }`. -/
inductive SFField where
  /-- `index: next_free` -/
  | indexNextFree
  /-- `version: SlotVersion::start()` -/
  | versionStart
  | unknown
deriving DecidableEq, Repr, Inhabited

def newFreeSlot (fields : List SFField) (next : SIdx) : Option Slot :=
  if fields = [.indexNextFree, .versionStart] ∨ fields = [.versionStart, .indexNextFree] then some ⟨next, VERSION_START⟩ else none

inductive FStep where
  /-- `let start_idx = start.into();` -/
  | bindStartIdx
  /-- `let end_idx = slots.len() - 1;` -/
  | bindEndIdx
  /-- `for idx in start_idx..end_idx { let next = TrimmedIndex::new_usize(idx + 1).unwrap();
       let slot = Slot::new_free(SlotIndex::new_free(next)); slots.get_mut(idx).unwrap().write(slot); }` -/
  | loopLinkNext
  /-- `let last_slot = Slot::new_free(SlotIndex::free_end());` -/
  | bindLastSlot
  /-- `slots.get_mut(end_idx).unwrap().write(last_slot);` -/
  | writeLast
  /-- tail `SlotIndex::new_free(start)` -/
  | returnNewFreeStart
  | unknown
deriving DecidableEq, Repr, Inhabited

inductive FElse where
  /-- `SlotIndex::free_end()` -/
  | freeEnd
  | unknown
deriving DecidableEq, Repr, Inhabited

structure FreeListT where
  /-- the body is `if slots.len() > 0 { thenSteps } else { elseTail }` -/
  guardNonEmpty : Bool
  thenSteps : List FStep
  elseTail : FElse
deriving Repr

structure FEnv where
  startIdx : Option Nat := none
  endIdx : Option Nat := none
  last : Option Slot := none

/-- Link cells `from, from+1, …` (`k` of them), each to its successor. -/
def linkCells (fields : List SFField) : Nat → Nat → List Slot → Option (List Slot)
  | _, 0, arr => some arr
  | i, k + 1, arr =>
    match newFreeSlot fields (.free (i + 1)) with
    | some sl => if i < arr.length then linkCells fields (i + 1) k (arr.set i sl) else none
    | none => none

def runFL (fields : List SFField) (maxCap start : Nat) : List FStep → List Slot → FEnv → Option (List Slot × SIdx)
  | [], _, _ => none
  | .bindStartIdx :: r, arr, e => runFL fields maxCap start r arr { e with startIdx := some start }
  | .bindEndIdx :: r, arr, e => if arr.length = 0 then none else runFL fields maxCap start r arr { e with endIdx := some (arr.length - 1) }
  | .loopLinkNext :: r, arr, e =>
    (match e.startIdx, e.endIdx with
    | some s, some en =>
      -- `TrimmedIndex::new_usize(idx + 1).unwrap()` for the largest idx + 1 = en
      if s < en ∧ ¬ en < maxCap then none else
      (match linkCells fields s (en - s) arr with
      | some arr' => runFL fields maxCap start r arr' e
      | none => none)
    | _, _ => none)
  | .bindLastSlot :: r, arr, e =>
    (match newFreeSlot fields .freeEnd with
    | some sl => runFL fields maxCap start r arr { e with last := some sl }
    | none => none)
  | .writeLast :: r, arr, e =>
    (match e.endIdx, e.last with
    | some en, some sl => if en < arr.length then runFL fields maxCap start r (arr.set en sl) e else none
    | _, _ => none)
  | .returnNewFreeStart :: _, arr, e =>
    (match e.last with
    | some _ => some (arr, .free start)      -- the chain must have been terminated before the head is handed out
    | none => none)
  | .unknown :: _, _, _ => none

/-- `populate_free_list(start, slots)` over the `n` cells of `slots` (cells the caller has not
initialised read as the model's default). -/
def execPopulate (T : FreeListT) (fields : List SFField) (maxCap start n : Nat) (old : List Slot) :
    Option (List Slot × SIdx) :=
  if T.guardNonEmpty then
    (if n > 0 then runFL fields maxCap start T.thenSteps ((List.range n).map (fun i => old.getD i ⟨.freeEnd, 0⟩)) {}
     else match T.elseTail with
       | .freeEnd => some ([], .freeEnd)
       | .unknown => none)
  else none

end Gecs
