/-
Executable (decidable) version of the representation invariant, evaluated by the driver on
the *implementation's* raw state as delivered by hook H1 (`verif_dump`), and the decoding
of the raw `u32` slot indices (slot.rs: FREE_BIT, FREE_LIST_END).  Import-free.
`Lemmas/CheckSound.lean` proves `invCheck cfg s = true ↔ Inv cfg s` (`invCheck_iff`).
-/
import Gecs.Model.Storage

namespace Gecs

def FREE_BIT : Nat := 2147483648          -- 1 << 31
def FREE_LIST_END : Nat := 4294967295     -- (FREE_BIT - 1) | FREE_BIT

/-- slot.rs `SlotIndex`: `is_free_end`, `is_free`, `index_free`, `index_data`. -/
def decodeIdx (raw : Nat) : SIdx :=
  if raw = FREE_LIST_END then .freeEnd
  else if raw ≥ FREE_BIT then .free (raw - FREE_BIT)
  else .data raw

def encodeIdx : SIdx → Nat
  | .data i => i
  | .free n => n + FREE_BIT
  | .freeEnd => FREE_LIST_END

variable {α : Type}

/-- Follow the free chain from `h` for at most `fuel` steps. -/
def chainWalk (slots : List Slot) : SIdx → Nat → Option (List Nat)
  | .freeEnd, _ => some []
  | .data _, _ => none
  | .free _, 0 => none
  | .free i, fuel + 1 =>
    match slots[i]? with
    | none => none
    | some sl =>
      if sl.idx.isFree then (chainWalk slots sl.idx fuel).map (i :: ·) else none

def invCheck (cfg : Cfg) (s : Storage α) : Bool :=
  s.slots.length == s.capacity &&
  s.ents.length == s.len &&
  s.cols.all (fun c => c.length == s.len) &&
  decide (s.len ≤ s.capacity) &&
  decide (s.capacity ≤ cfg.maxCap) &&
  decide (1 ≤ s.version ∧ s.version ≤ cfg.vmax) &&
  (List.range s.ents.length).all (fun d =>
    match s.ents[d]? with
    | some e => s.slots[e.slot]? == some ⟨.data d, e.ver⟩
    | none => false) &&
  (List.range s.slots.length).all (fun i =>
    match s.slots[i]? with
    | some ⟨.data d, v⟩ => s.ents[d]? == some ⟨i, v⟩
    | _ => true) &&
  (match chainWalk s.slots s.freeHead (s.capacity + 1) with
   | some L => L.Nodup && (L.length + s.len == s.capacity)
   | none => false) &&
  s.slots.all (fun sl => decide (1 ≤ sl.ver ∧ sl.ver ≤ cfg.vmax))

end Gecs
