/-
Histories with FAULT POINTS: the fault model of `Gecs/Model/Faults.lean` (a user `Clone::clone` /
`Drop::drop` that panics in the middle of `world.clone()` / of dropping a world) made an
OPERATION of histories.

* `OpF α`            : an operation of `Gecs/Model/History.lean` (`plain`), or a `world.clone()` during
                       which the `k`-th (0-based) `Clone::clone` of a non-zero-sized value panics
                       (`cloneFaulted cl k`).  The SOURCE world is not touched by it and the history
                       goes on with the source world (`catch_unwind`, then further use); what the
                       fault did to the clones made so far is appended to a log.
                       If `k` is at least the number of non-zero-sized values nothing faults: the
                       clone is completed and then dropped at once (all clones dropped).
* `runF cfg isZ w ops`: like `run`, and returns the log (one `FaultOutcome` per `cloneFaulted`, in
                       the order of the operations).  `none` = undefined behaviour was reached.
* `endOfLife isZ w k` : the world reached is dropped and the `k`-th `Drop::drop` panics
                       (`dropFault`); nothing faults when `k` is too large (everything dropped).

Generic over the value type `α` and `isZ : α → Bool` ("zero-sized": never faults, only counted), as
`Gecs/Model/Faults.lean`.  Core Lean only, structural recursion only, computable.
The theorems are in `Gecs/Lemmas/FaultHistories.lean` and `Gecs/Props/FaultHistories.lean`.
-/
import Gecs.Model.History
import Gecs.Model.Faults

namespace Gecs

/-- Operations of a history with fault points. -/
inductive OpF (α : Type) : Type 1 where
  | plain (op : Op α)
  | cloneFaulted (cl : α → α) (k : Nat)

variable {α : Type}

/-- What one `cloneFaulted cl k` on the world `w` did to the clones it made.
Fault (`cloneFault … = some o`): the clones of the completely cloned archetypes are dropped during
the unwind, those of the partially cloned archetype are leaked.  No fault: every value is cloned
and the finished clone is dropped at once. -/
def cloneFaultOutcome (isZ : α → Bool) (w : World α) (cl : α → α) (k : Nat) : FaultOutcome α :=
  match cloneFault isZ w.clonePerArch k with
  | some o => ⟨o.dropped.map cl, o.leaked.map cl⟩
  | none => ⟨w.clonePerArch.flatten.map cl, []⟩

/-- The plain operations of a history, in order (the fault points erased). -/
def OpF.erase : List (OpF α) → List (Op α)
  | [] => []
  | .plain op :: ops => op :: OpF.erase ops
  | .cloneFaulted _ _ :: ops => OpF.erase ops

/-- The number of `cloneFaulted` operations of a history. -/
def OpF.faultCount : List (OpF α) → Nat
  | [] => 0
  | .plain _ :: ops => OpF.faultCount ops
  | .cloneFaulted _ _ :: ops => OpF.faultCount ops + 1

/-- Run a history with fault points.  A plain operation is `stepOp` (a panic does not end the
history, only `ub` does); a `cloneFaulted` leaves the world as it is and logs its outcome.
Result: the world reached and the log (in the order of the operations). -/
def runF (cfg : Cfg) (isZ : α → Bool) :
    World α → List (OpF α) → Option (World α × List (FaultOutcome α))
  | w, [] => some (w, [])
  | w, .plain op :: ops =>
    match stepOp cfg w op with
    | .ok w' => runF cfg isZ w' ops
    | .panic _ w' => runF cfg isZ w' ops
    | .ub _ => none
  | w, .cloneFaulted cl k :: ops =>
    (runF cfg isZ w ops).map (fun r => (r.1, cloneFaultOutcome isZ w cl k :: r.2))

/-- End of life: the world reached is dropped and the `k`-th (0-based) `Drop::drop` of a
non-zero-sized value panics (`dropFault`); when `k` is too large nothing faults and everything is
dropped, in drop order. -/
def endOfLife (isZ : α → Bool) (w : World α) (k : Nat) : FaultOutcome α :=
  match dropFault isZ w.dropPerArch k with
  | some o => o
  | none => ⟨w.dropPerArch.flatten, []⟩

end Gecs
