/-
M-env: the compile-time envelope (C18).  The only model that is about rustc rather than
about gecs, deliberately tiny:
 * the structural auto-trait rule (`Send`/`Sync` of a struct = conjunction over its fields)
   with a leaf table, evaluated over the field table GENERATED from the struct definitions;
 * one rule of the borrow checker: while a result that borrows a receiver is live, a call
   needing an incompatible borrow of that receiver is rejected.
Import-free.
-/
namespace Gecs.Env

/-- Types, as far as the auto-trait rule needs them. -/
inductive Ty where
  | param (name : String)                 -- a generic parameter (`A`, `T~I`)
  | prim (name : String)                  -- integers, NonZeroU32
  | app (name : String) (args : List Ty)  -- `Name<args>`
  | fnPtr                                  -- `fn() -> A`
  | ref (isMut : Bool) (t : Ty)           -- `&'a T` / `&'a mut T`
  | perColumn (t : Ty)                    -- one field per component column (seq! repetition)
deriving Repr, Inhabited

/-- Assumptions about the generic parameters: which are `Send`, which `Sync`. -/
structure TEnv where
  send : String → Bool
  sync : String → Bool

/-- field table: struct name ↦ field types -/
abbrev Fields := List (String × List Ty)

/-- The structural auto-trait rule with the leaf table; `wantSync = false` asks for `Send`,
`true` for `Sync` (fuel bounds struct unfolding; structural recursion on the fuel so that
the definition reduces in the kernel). -/
def auto (tbl : Fields) (env : TEnv) : Nat → Bool → Ty → Bool
  | 0, _, _ => false
  | fuel + 1, wantSync, t =>
    match t with
    | .param n => if wantSync then env.sync n else env.send n
    | .prim _ => true
    | .fnPtr => true
    | .ref false t' => auto tbl env fuel true t'          -- &T: Send iff T: Sync; Sync iff T: Sync
    | .ref true t' => auto tbl env fuel wantSync t'       -- &mut T: Send iff T: Send; Sync iff T: Sync
    | .perColumn t' => auto tbl env fuel wantSync t'
    | .app n args =>
      if n == "RefCell" then
        -- RefCell<T>: Send iff T: Send; never Sync
        if wantSync then false else args.all (fun a => auto tbl env fuel false a)
      else if n == "DataPtr" then
        -- unsafe impl<T: Send> Send for DataPtr<T>; unsafe impl<T: Sync> Sync for DataPtr<T>
        args.all (fun a => auto tbl env fuel wantSync a)
      else if n == "PhantomData" || n == "Vec" || n == "MaybeUninit" then
        args.all (fun a => auto tbl env fuel wantSync a)
      else if n == "NonNull" then false
      else
        match tbl.find? (·.1 == n) with
        | some (_, fs) => fs.all (fun f => auto tbl env fuel wantSync f)
        | none => false

def isSend (tbl : Fields) (env : TEnv) (fuel : Nat) (t : Ty) : Bool := auto tbl env fuel false t
def isSync (tbl : Fields) (env : TEnv) (fuel : Nat) (t : Ty) : Bool := auto tbl env fuel true t

/-! ### the borrow rule -/

/-- How a method takes its receiver. -/
inductive Recv where
  | shared      -- `&self`
  | exclusive   -- `&mut self`
  | owned       -- `self` (moves / drops the value)
  | none
deriving DecidableEq, Repr, Inhabited

/-- One row of the API signature table. -/
structure Sig where
  item : String
  recv : Recv
  resultBorrows : Bool      -- the result's type mentions the receiver's lifetime
deriving Repr, Inhabited

/-- The single modelled rule of the borrow checker: a live result that borrows the world
through `hold.recv` is incompatible with a later call that needs `op.recv` on the same
world unless both are shared. -/
def rejected (hold op : Sig) : Bool :=
  hold.resultBorrows &&
  (match hold.recv, op.recv with
   | .shared, .shared => false
   | .shared, .exclusive => true
   | .shared, .owned => true
   | .exclusive, .shared => true
   | .exclusive, .exclusive => true
   | .exclusive, .owned => true
   | _, _ => false)

end Gecs.Env
