/-
Statement-level model of the two `DataPtr<T>` methods that move or destroy VALUES
(/repo/src/archetype/storage.rs `DataPtr::swap_remove`, `DataPtr::drop_to`), over a memory of
cells that are either initialised (`some x`) or not (`none`).  The statement lists are regenerated
from the source on every run (Gecs/Gen/Steps.lean: `dataSwapRemoveSteps`, `dataDropToSteps`);
Lemmas/GenMem.lean proves that on an array whose first `len` cells are initialised they are the
list-level `swapRemove` of Model/Storage.lean (the value at `index` is moved OUT exactly once, the
last value is moved INTO its place, nothing else is touched, the vacated cell is dead) and a drop
of exactly the first `len` values, each once, in order.
-/
import Gecs.Model.Steps

namespace Gecs

variable {β : Type}

inductive MStep where
  /-- `debug_assert!(…)` -/
  | debugAssert
  /-- `let last = len - 1;` -/
  | bindLast
  /-- `let array_ptr = self.0.as_ptr();` -/
  | bindArrayPtr
  /-- `let result = ptr::read(array_ptr.add(index)).assume_init();` -/
  | readIndex
  /-- `ptr::copy(array_ptr.add(last), array_ptr.add(index), 1);` -/
  | copyLastToIndex
  /-- `*array_ptr.add(last) = MaybeUninit::uninit();` -/
  | uninitLast
  /-- tail `result` -/
  | returnResult
  /-- `for i in 0..len { let i_ptr = self.0.as_ptr().add(i); ptr::drop_in_place(i_ptr as *mut T);
       ptr::write(i_ptr, MaybeUninit::uninit()); }` -/
  | dropLoopToLen
  | unknown
deriving DecidableEq, Repr, Inhabited

structure MEnv (β : Type) where
  last : Option Nat := none
  ptr : Bool := false
  result : Option β := none
  /-- the value read out of `index` has not been overwritten yet: it exists twice bitwise -/
  dup : Bool := false

/-- `swap_remove(index, len)`: `(result, memory)`; `none` = `ub` (read of an uninitialised or
out-of-range cell, a local read before its statement, a value left duplicated or lost). -/
def runMS (index len : Nat) : List MStep → List (Option β) → MEnv β → Option (β × List (Option β))
  | [], _, _ => none
  | .debugAssert :: r, mem, e => runMS index len r mem e
  | .bindLast :: r, mem, e => if len = 0 then none else runMS index len r mem { e with last := some (len - 1) }
  | .bindArrayPtr :: r, mem, e => runMS index len r mem { e with ptr := true }
  | .readIndex :: r, mem, e =>
    if e.ptr then
      (match mem[index]? with
      | some (some x) => runMS index len r mem { e with result := some x, dup := true }
      | _ => none)
    else none
  | .copyLastToIndex :: r, mem, e =>
    (match e.ptr, e.last, e.dup with
    | true, some l, true =>
      (match mem[l]? with
      | some (some y) => if index < mem.length then runMS index len r (mem.set index (some y)) { e with dup := false } else none
      | _ => none)
    | _, _, _ => none)      -- overwriting `index` before its value was read out would lose (leak) it
  | .uninitLast :: r, mem, e =>
    (match e.ptr, e.last with
    | true, some l => if l < mem.length then runMS index len r (mem.set l none) e else none
    | _, _ => none)
  | .returnResult :: _, mem, e =>
    (match e.result, e.dup, e.last with
    | some x, false, some l => (match mem[l]? with | some none => some (x, mem) | _ => none)
    | _, _, _ => none)
  | .dropLoopToLen :: _, _, _ => none
  | .unknown :: _, _, _ => none

def execDataSwapRemove (steps : List MStep) (mem : List (Option β)) (index len : Nat) :
    Option (β × List (Option β)) := runMS index len steps mem {}

/-- `drop_to(len)`: the values dropped, in order, and the memory afterwards. -/
def execDataDropTo (steps : List MStep) (mem : List (Option β)) (len : Nat) : Option (List β × List (Option β)) :=
  match steps with
  | [.dropLoopToLen] =>
    if (mem.take len).all Option.isSome ∧ len ≤ mem.length then
      some ((mem.take len).filterMap id, List.replicate len none ++ mem.drop len)
    else none
  | _ => none

end Gecs
