/-
Statement-level model of `StorageN::push` (= `Archetype::create`) and
`StorageN::push_within_capacity` (/repo/src/archetype/storage.rs): the capacity test in front
of `force_create`.  The statement lists are regenerated from the source on every run
(Gecs/Gen/Steps.lean: `pushSteps`, `pushWithinSteps`); `grow` and `force_create` are themselves
run from their extracted statement lists.  Lemmas/GenPush.lean: running them is the model's
`push` / `pushWithin`.
-/
import Gecs.Model.Steps

namespace Gecs

variable {α : Type}

inductive UStep where
  /-- `debug_assert!(self.len <= self.capacity());` -/
  | dbgLenLeCap
  /-- `if self.len >= self.capacity() { debug_assert!(…); if self.grow() == false { panic!("capacity overflow"); } }` -/
  | growIfFullOrPanic
  /-- `if self.len >= self.capacity() { debug_assert!(…); return Err(data); }` -/
  | errIfFull
  /-- the tail `unsafe { self.force_create(data) }` -/
  | tailForceCreate
  /-- the tail `Ok(unsafe { self.force_create(data) })` -/
  | tailOkForceCreate
  | unknown
deriving DecidableEq, Repr, Inhabited

/-- The extracted bodies of the primitives the two functions call. -/
structure Prims where
  slots : SlotBodies
  create : List CStep
  grow : List GStep

/-- `push`: result is the handle. `g` = the growth witness function. -/
def runPush (cfg : Cfg) (p : Prims) (g : Nat → Nat) (row : List α) :
    List UStep → Storage α → Out (Storage α) Ent
  | [], _ => .ub "push: body ends without returning"
  | .dbgLenLeCap :: rest, s =>
    if cfg.debug ∧ ¬ s.len ≤ s.capacity then .panic "debug_assert: len <= capacity" s
    else runPush cfg p g row rest s
  | .growIfFullOrPanic :: rest, s =>
    if s.len ≥ s.capacity then
      match execGrow cfg p.grow s (g s.capacity) with
      | .ok none _ => .panic "capacity overflow" s
      | .ok (some s') _ => runPush cfg p g row rest s'
      | .panic m _ => .panic m s
      | .ub m => .ub m
    else runPush cfg p g row rest s
  | .tailForceCreate :: _, s => execCreate cfg p.slots p.create s row
  | _ :: _, _ => .ub "untranslated statement in push"

/-- `push_within_capacity`: `none` = `Err(data)`. -/
def runPushWithin (cfg : Cfg) (p : Prims) (row : List α) :
    List UStep → Storage α → Out (Storage α) (Option Ent)
  | [], _ => .ub "push_within_capacity: body ends without returning"
  | .dbgLenLeCap :: rest, s =>
    if cfg.debug ∧ ¬ s.len ≤ s.capacity then .panic "debug_assert: len <= capacity" s
    else runPushWithin cfg p row rest s
  | .errIfFull :: rest, s =>
    if s.len ≥ s.capacity then .ok none s else runPushWithin cfg p row rest s
  | .tailOkForceCreate :: _, s =>
    (match execCreate cfg p.slots p.create s row with
    | .ok e s' => .ok (some e) s'
    | .panic m s' => .panic m s'
    | .ub m => .ub m)
  | _ :: _, _ => .ub "untranslated statement in push_within_capacity"

end Gecs
