/-
Runtime-borrowed access (C11): every component column of every archetype sits in a
`RefCell`.  A cell is the reader/writer counter of `std::cell::RefCell`; access programs
are trees of guards (a guard is held while its body runs and is released when the body
ends, also by unwinding).  The high-level accesses of the API (`borrow_slice(_mut)`,
`Borrow::component(_mut)`, `ecs_find_borrow!`, `ecs_iter_borrow!`, `clone`) compile to
such trees.  Import-free.
-/
namespace Gecs.Borrow

/-- (archetype index, column index) -/
abbrev CellId := Nat × Nat

/-- `RefCell` borrow state. -/
structure Cell where
  readers : Nat
  writer : Bool
deriving Repr, DecidableEq, Inhabited

/-- All cells not listed are unborrowed. -/
abbrev Cells := List (CellId × Cell)

def Cells.get (cs : Cells) (c : CellId) : Cell :=
  ((cs.find? (fun kv => kv.1 == c)).map (·.2)).getD ⟨0, false⟩

def Cells.put (cs : Cells) (c : CellId) (x : Cell) : Cells :=
  (c, x) :: cs.filter (fun kv => kv.1 != c)

/-- `RefCell::try_borrow` / `try_borrow_mut`. -/
def tryBorrow (cs : Cells) (c : CellId) (isMut : Bool) : Option Cells :=
  let x := cs.get c
  if isMut then
    if x.writer || x.readers > 0 then none else some (cs.put c ⟨0, true⟩)
  else
    if x.writer then none else some (cs.put c ⟨x.readers + 1, false⟩)

/-- Dropping a `Ref` / `RefMut`. -/
def release (cs : Cells) (c : CellId) (isMut : Bool) : Cells :=
  let x := cs.get c
  if isMut then cs.put c ⟨x.readers, false⟩ else cs.put c ⟨x.readers - 1, x.writer⟩

/-- Core access trees. -/
inductive Acc where
  | guard (c : CellId) (isMut : Bool) (body : List Acc)
  | ev (tag : String)          -- an observable point (closure entered / access skipped)

inductive PanicKind where
  | borrowError       -- `borrow()` while mutably borrowed
  | borrowMutError    -- `borrow_mut()` while borrowed
deriving Repr, DecidableEq

structure XOut where
  cells : Cells
  trace : List String
  panic : Option PanicKind

mutual
/-- A refused borrow panics; unwinding releases the guards already held. -/
def execOne (cs : Cells) (tr : List String) : Acc → XOut
  | .ev tag => ⟨cs, tr ++ [tag], none⟩
  | .guard c m body =>
    match tryBorrow cs c m with
    | none => ⟨cs, tr, some (if m then .borrowMutError else .borrowError)⟩
    | some cs' =>
      let r := execList cs' tr body
      -- the guard is dropped on normal exit and on unwind alike
      ⟨release r.cells c m, r.trace, r.panic⟩
def execList (cs : Cells) (tr : List String) : List Acc → XOut
  | [] => ⟨cs, tr, none⟩
  | a :: rest =>
    let r := execOne cs tr a
    match r.panic with
    | some _ => r
    | none => execList r.cells r.trace rest
end

/-- Nested guards, acquired left to right (the temporaries of one call expression). -/
def nest : List (CellId × Bool) → List Acc → List Acc
  | [], body => body
  | (c, m) :: gs, body => [Acc.guard c m (nest gs body)]

/-- High-level accesses, with the facts the world state determines already resolved. -/
inductive Node where
  /-- `borrow_slice::<C>()` / `borrow_slice_mut::<C>()` on archetype `a` -/
  | bs (a col : Nat) (isMut : Bool) (body : List Node)
  /-- `archetype.borrow(key)` then `component::<C>()` / `component_mut::<C>()`;
      `found = false` when the key is not accepted (nothing is borrowed) -/
  | bc (a col : Nat) (isMut : Bool) (found : Bool) (body : List Node)
  /-- `ecs_find_borrow!`: `none` = not found / archetype not matched (closure not run);
      `some gs` = the guards of the bound component parameters, left to right -/
  | fb (gs : Option (List (CellId × Bool))) (body : List Node)
  /-- `ecs_iter_borrow!`: one guard list per closure call (matched archetypes in order,
      dense indices in order) -/
  | ib (calls : List (List (CellId × Bool))) (body : List Node)
  /-- `world.clone()`: per archetype, all its columns shared, then released -/
  | cl (archCols : List (List CellId))

mutual
def compile : Node → List Acc
  | .bs a col m body => [Acc.guard (a, col) m (Acc.ev "bs+" :: compileList body)]
  | .bc a col m found body =>
    if found then [Acc.guard (a, col) m (Acc.ev "bc+" :: compileList body)] else [Acc.ev "bc-"]
  | .fb none _ => [Acc.ev "fb-"]
  | .fb (some gs) body => nest gs (Acc.ev "fb+" :: compileList body)
  | .ib calls body =>
    let b := compileList body
    calls.flatMap (fun gs => nest gs (Acc.ev "ib+" :: b))
  | .cl archCols =>
    archCols.flatMap (fun cols => nest (cols.map (fun c => (c, false))) []) ++ [Acc.ev "cl+"]
def compileList : List Node → List Acc
  | [] => []
  | n :: rest => compile n ++ compileList rest
end

def run (nodes : List Node) : XOut := execList [] [] (compileList nodes)

/-- No guard outstanding. -/
def Cells.idle (cs : Cells) : Bool := cs.all (fun kv => kv.2.readers == 0 && !kv.2.writer)

end Gecs.Borrow
