/-
The four parameter-binding tables of macros/src/generate/query.rs (`iter_bind_mut`,
`iter_bind_borrow`, `find_bind_mut`, `find_bind_borrow`): for every kind of query parameter, the
expression the generated code passes to the user closure.  tools/extract_steps.py regenerates
the tables from the source on every run (Gecs/Gen/Steps.lean: one row per `match` arm and
`is_mut` branch, the emitted expression classified into a `BindKind`); this file reads a table as
a binding function; Lemmas/GenBind.lean proves that each extracted table binds exactly what the
model's `bindArgs` (Model/Query.lean) binds — the component column of the SAME index with the
requested mutability, the handle stored at that index, a direct handle made of that index and the
version in scope.
-/
import Gecs.Model.Query

namespace Gecs

variable {α : Type}

/-- `ParseQueryParamType` variants. -/
inductive PVar where
  | Component | Entity | EntityAny | EntityWild | EntityDirect | EntityDirectAny | EntityDirectWild
  | OneOf | Option | With | Without | other
deriving DecidableEq, Repr, Inhabited

inductive BindKind where
  /-- `&mut` access to the component at the current index (`&mut slices.x[idx]`,
  `&mut archetype.borrow_slice_mut::<X>()[idx]`, `&mut found.component_mut::<X>()`) -/
  | compMut
  /-- shared access to the component at the current index -/
  | compRef
  /-- the view's field (`found.x`): mutability is the closure parameter's -/
  | compField
  /-- the handle stored at the current index -/
  | entityAtIdx
  /-- … converted with `.into()` to `EntityAny` -/
  | entityAtIdxIntoAny
  /-- `new_entity_direct::<MatchedArchetype>(<current index>, version)` -/
  | directIdxVersion
  /-- … converted with `.into()` -/
  | directIdxVersionIntoAny
  /-- `panic!` / `todo!` (parameter kinds that never reach binding) -/
  | unsupported
  | unknown
deriving DecidableEq, Repr, Inhabited

structure BindRow where
  variant : PVar
  /-- `some b`: the arm's `match param.is_mut { b => … }` branch; `none`: no distinction -/
  isMut : Option Bool
  kind : BindKind
deriving DecidableEq, Repr

def lookupBind (t : List BindRow) (v : PVar) (m : Bool) : Option BindKind :=
  match t.find? (fun r => r.variant == v && (r.isMut == none || r.isMut == some m)) with
  | some r => some r.kind
  | none => none

/-- What a binding expression of the given kind evaluates to. -/
def argOfKind (idA : Nat) (s : Storage α) (version idx : Nat) (col : Nat) (m : Bool) : BindKind → Option (Arg α)
  | .compMut => if m then ((s.cols.getD col [])[idx]?).map (Arg.comp true) else none
  | .compRef => if m then none else ((s.cols.getD col [])[idx]?).map (Arg.comp false)
  | .compField => ((s.cols.getD col [])[idx]?).map (Arg.comp m)
  | .entityAtIdx | .entityAtIdxIntoAny => (s.ents[idx]?).map (fun e => Arg.ent (mkKey e.slot idA e.ver))
  | .directIdxVersion | .directIdxVersionIntoAny => some (Arg.dir (mkKey idx idA version))
  | .unsupported | .unknown => none

/-- The macro-level variants a bound model parameter stands for, with the kind each must bind
to when converted (`Entity<A>` and `Entity<_>` bind alike; the `Any` forms add `.into()`). -/
def paramRows : Param → List (PVar × Bool)
  | .comp _ m => [(.Component, m)]
  | .ent => [(.Entity, false), (.EntityWild, false)]
  | .entAny => [(.EntityAny, false)]
  | .dir => [(.EntityDirect, false), (.EntityDirectWild, false)]
  | .dirAny => [(.EntityDirectAny, false)]

def paramCol : Param → Nat
  | .comp c _ => c
  | _ => 0

def paramMut : Param → Bool
  | .comp _ m => m
  | _ => false

/-- `Any` parameters must be bound through `.into()`, the typed ones without. -/
def kindFits : Param → BindKind → Bool
  | .comp _ _, k => k == .compMut || k == .compRef || k == .compField
  | .ent, k => k == .entityAtIdx
  | .entAny, k => k == .entityAtIdxIntoAny
  | .dir, k => k == .directIdxVersion
  | .dirAny, k => k == .directIdxVersionIntoAny

/-- Binding one parameter through a table: every macro-level variant the parameter stands for
must be present, fit, and evaluate alike. -/
def bindOneT (t : List BindRow) (idA : Nat) (s : Storage α) (version idx : Nat) (p : Param) : Option (Arg α) :=
  match (paramRows p).map (fun vm => lookupBind t vm.1 vm.2) with
  | some k :: rest =>
    if rest.all (· == some k) && kindFits p k then argOfKind idA s version idx (paramCol p) (paramMut p) k else none
  | _ => none

def bindArgsT (t : List BindRow) (idA : Nat) (s : Storage α) (version idx : Nat) : List Param → Option (List (Arg α))
  | [] => some []
  | p :: ps =>
    match bindOneT t idA s version idx p, bindArgsT t idA s version idx ps with
    | some a, some as => some (a :: as)
    | _, _ => none

end Gecs
