/-
Statement-level model of the three mutating primitives of `StorageN`
(/repo/src/archetype/storage.rs `force_create`, `force_destroy`, `grow`) and of the two slot
mutators (`slot.rs` `Slot::assign`, `Slot::release`).

Unlike Model/Storage.lean, which states each primitive as ONE hand-written function, this file
gives a meaning to every single STATEMENT of those bodies (`DStep`, `CStep`, `GStep`,
`SlotSet`), and an interpreter that runs a LIST of statements in order, with the local
variables of the Rust body kept in an environment.  The statement lists themselves are not
written here: tools/extract.py regenerates them from the source on every run
(Gecs/Gen/Steps.lean), in source order.  Lemmas/GenSteps.lean proves that running the
extracted lists IS the hand-written primitive, panic states included — so the order of
statements (which `next()` precedes which mutation, which read precedes which overwrite) is
tied to the code by translation + proof, not by sampling.

Conventions (as in Model/Storage.lean): `Out.ub` wherever a `// SAFETY:` precondition of the
statement does not hold, or a local is read before the statement that binds it, or a statement
could not be classified by the translator (`unknown`); `Out.panic` carries the state at the
panic.  Import-free apart from Model/Storage.
-/
import Gecs.Model.Storage

namespace Gecs

variable {α : Type}

/-! ## slot.rs: field assignments of `Slot::assign(index_data)` and
`Slot::release(index_next_free, next_version)` -/

inductive SlotSet where
  /-- `self.index = SlotIndex::new_data(index_data);` -/
  | indexNewData
  /-- `self.index = index_next_free;` -/
  | indexNextFree
  /-- `self.version = next_version;` -/
  | versionNext
  /-- `debug_assert!(…)` -/
  | debugAssert
  /-- anything else -/
  | unknown
deriving DecidableEq, Repr, Inhabited

/-- Arguments a slot mutator may refer to; `none` = not a parameter of that method. -/
structure SlotArgs where
  indexData : Option Nat := none
  nextFree : Option SIdx := none
  nextVer : Option Nat := none

def applySlotSet (a : SlotArgs) (sl : Slot) : SlotSet → Option Slot
  | .indexNewData => a.indexData.map (fun d => { sl with idx := .data d })
  | .indexNextFree => a.nextFree.map (fun f => { sl with idx := f })
  | .versionNext => a.nextVer.map (fun v => { sl with ver := v })
  | .debugAssert => some sl
  | .unknown => none

def applySlotSets (a : SlotArgs) : List SlotSet → Slot → Option Slot
  | [], sl => some sl
  | x :: xs, sl => match applySlotSet a sl x with
    | none => none
    | some sl' => applySlotSets a xs sl'

/-- The bodies of the two slot mutators as extracted. -/
structure SlotBodies where
  assign : List SlotSet
  release : List SlotSet
deriving Repr

/-! ## `force_destroy` -/

inductive DStep where
  /-- `let (slot_index, dense_index) = indices;` and the two `usize` conversions -/
  | bindIndices
  /-- `let entities = self.entities.slice(self.len);` -/
  | bindEntities
  /-- `let next_slot_version = self.slots.slice(cap).get_unchecked(slot_index).version().next();` -/
  | nextSlotVersion
  /-- `let next_version = self.version.next();` -/
  | nextArchVersion
  /-- `#[cfg(feature = "events")] { self.destroyed.push(*entities.get_unchecked(dense_index)); }` -/
  | pushDestroyed
  /-- `let last_dense_index = self.len - 1;` -/
  | lastDenseIndex
  /-- `let last_entity = *entities.get_unchecked(last_dense_index);` -/
  | lastEntity
  /-- `let last_slot_index: usize = last_entity.slot_index().into();` -/
  | lastSlotIndex
  /-- `self.entities.swap_remove(dense_index, self.len);` -/
  | swapRemoveEntities
  /-- `let result = raw_new(#(self.d~I.get_mut().swap_remove(dense_index, self.len),)*);` -/
  | swapRemoveColumns
  /-- `let slots = self.slots.slice_mut(self.capacity());` -/
  | bindSlots
  /-- `slots.get_unchecked_mut(last_slot_index).assign(dense_index);` -/
  | assignLast
  /-- `slots.get_unchecked_mut(slot_index).release(self.free_head, next_slot_version);` -/
  | releaseTarget
  /-- `self.version = next_version;` -/
  | setVersion
  /-- `self.free_head = SlotIndex::new_free(slot_index);` -/
  | setFreeHead
  /-- `self.len -= 1;` -/
  | decLen
  /-- `debug_assert!(…)` / `debug_assert_eq!(…)` (conditions not modelled here) -/
  | debugAssert
  /-- the tail expression `result` -/
  | returnResult
  /-- a statement the translator could not classify -/
  | unknown
deriving DecidableEq, Repr, Inhabited

/-- Locals of `force_destroy`. `entsMoved`: `self.entities.swap_remove` has run, so the
`entities` slice no longer shows the contents it was bound over. -/
structure DEnv (α : Type) where
  bound : Bool := false
  entities : Option (List Ent) := none
  nsv : Option Nat := none
  nav : Option Nat := none
  lastDense : Option Nat := none
  lastE : Option Ent := none
  lastSlot : Option Nat := none
  slotsBound : Bool := false
  result : Option (List α) := none
  entsMoved : Bool := false
  returned : Bool := false

/-- Outcome of one statement. -/
inductive SR (σ ε : Type) where
  | cont (s : σ) (e : ε)
  | panic (msg : String) (s : σ)
  | ub (msg : String)

def dstep (cfg : Cfg) (b : SlotBodies) (si d : Nat) (s : Storage α) (e : DEnv α) :
    DStep → SR (Storage α) (DEnv α)
  | .bindIndices => .cont s { e with bound := true }
  | .bindEntities =>
    if s.ents.length = s.len then .cont s { e with entities := some s.ents }
    else .ub "entities.slice(len): not valid up to len"
  | .nextSlotVersion =>
    if e.bound then
      match s.slots[si]? with
      | none => .ub "slots.get_unchecked(slot_index) out of bounds"
      | some sl => match nextVer cfg sl.ver with
        | none => .panic "slot version overflow" s
        | some v => .cont s { e with nsv := some v }
    else .ub "slot_index read before it is bound"
  | .nextArchVersion =>
    match nextVer cfg s.version with
    | none => .panic "arch version overflow" s
    | some v => .cont s { e with nav := some v }
  | .pushDestroyed =>
    if cfg.events then
      match e.entities, e.entsMoved, e.bound with
      | some es, false, true => match es[d]? with
        | some t => .cont { s with destroyed := s.destroyed ++ [t] } e
        | none => .ub "entities.get_unchecked(dense_index) out of bounds"
      | _, _, _ => .ub "entities read before bound / after swap_remove"
    else .cont s e
  | .lastDenseIndex =>
    if s.len = 0 then .ub "self.len - 1 underflows" else .cont s { e with lastDense := some (s.len - 1) }
  | .lastEntity =>
    match e.entities, e.entsMoved, e.lastDense with
    | some es, false, some ld => match es[ld]? with
      | some l => .cont s { e with lastE := some l }
      | none => .ub "entities.get_unchecked(last_dense_index) out of bounds"
    | _, _, _ => .ub "entities / last_dense_index read before bound / after swap_remove"
  | .lastSlotIndex =>
    match e.lastE with
    | some l => .cont s { e with lastSlot := some l.slot }
    | none => .ub "last_entity read before it is bound"
  | .swapRemoveEntities =>
    if e.bound ∧ s.ents.length = s.len ∧ d < s.len then
      .cont { s with ents := swapRemove s.ents d } { e with entsMoved := true }
    else .ub "entities.swap_remove(dense_index, len): out of range"
  | .swapRemoveColumns =>
    if e.bound ∧ d < s.len ∧ (s.cols.all (fun c => c.length == s.len)) then
      .cont { s with cols := s.cols.map (fun c => swapRemove c d) }
        { e with result := some (s.cols.filterMap (fun c => c[d]?)) }
    else .ub "column swap_remove(dense_index, len): out of range"
  | .bindSlots => .cont s { e with slotsBound := true }
  | .assignLast =>
    match e.slotsBound, e.bound, e.lastSlot with
    | true, true, some ls => match s.slots[ls]? with
      | none => .ub "slots.get_unchecked_mut(last_slot_index) out of bounds"
      | some lsl => match applySlotSets { indexData := some d } b.assign lsl with
        | none => .ub "Slot::assign: untranslated body"
        | some lsl' => .cont { s with slots := s.slots.set ls lsl' } e
    | _, _, _ => .ub "slots / last_slot_index read before bound"
  | .releaseTarget =>
    match e.slotsBound, e.bound, e.nsv with
    | true, true, some sv => match s.slots[si]? with
      | none => .ub "slots.get_unchecked_mut(slot_index) out of bounds"
      | some sl => match applySlotSets { nextFree := some s.freeHead, nextVer := some sv } b.release sl with
        | none => .ub "Slot::release: untranslated body"
        | some sl' => .cont { s with slots := s.slots.set si sl' } e
    | _, _, _ => .ub "slots / next_slot_version read before bound"
  | .setVersion =>
    match e.nav with
    | some av => .cont { s with version := av } e
    | none => .ub "next_version read before it is bound"
  | .setFreeHead =>
    if e.bound then .cont { s with freeHead := .free si } e else .ub "slot_index read before it is bound"
  | .decLen =>
    if s.len = 0 then .ub "self.len -= 1 underflows" else .cont { s with len := s.len - 1 } e
  | .debugAssert => .cont s e
  | .returnResult =>
    match e.result with
    | some _ => .cont s { e with returned := true }
    | none => .ub "result read before it is bound"
  | .unknown => .ub "untranslated statement in force_destroy"

def runD (cfg : Cfg) (b : SlotBodies) (si d : Nat) : List DStep → Storage α → DEnv α → Out (Storage α) (List α)
  | [], s, e =>
    match e.returned, e.result with
    | true, some r => .ok r s
    | _, _ => .ub "force_destroy: body ends without returning the removed components"
  | st :: rest, s, e =>
    if e.returned then .ub "statement after the return expression" else
    match dstep cfg b si d s e st with
    | .cont s' e' => runD cfg b si d rest s' e'
    | .panic m s' => .panic m s'
    | .ub m => .ub m

/-- `force_destroy((slot_index, dense_index))` as the given statement list. -/
def execDestroy (cfg : Cfg) (b : SlotBodies) (steps : List DStep) (s : Storage α) (si d : Nat) :
    Out (Storage α) (List α) :=
  runD cfg b si d steps s {}

/-! ## `force_create` -/

inductive CStep where
  /-- `let slot_index = self.free_head.index_free().unwrap_unchecked();` -/
  | slotIndex
  /-- `let dense_index = TrimmedIndex::new_usize(self.len).unwrap_unchecked();` -/
  | denseIndex
  /-- `let slots = self.slots.slice_mut(self.capacity());` -/
  | bindSlots
  /-- `let slot = slots.get_unchecked_mut(Into::<usize>::into(slot_index));` -/
  | bindSlot
  /-- `self.free_head = slot.index();` -/
  | setFreeHeadFromSlot
  /-- `slot.assign(dense_index);` -/
  | assignSlot
  /-- `let entity = Entity::new(slot_index, slot.version());` -/
  | newEntity
  /-- `let index = self.len;` -/
  | bindIndex
  /-- `self.len += 1;` -/
  | incLen
  /-- `debug_checked_assume!(index < self.len);` -/
  | assumeIndexLtLen
  /-- `let data = data.raw_get();` -/
  | rawGet
  /-- `self.entities.write(index, entity);` -/
  | writeEntity
  /-- `#(self.d~I.get_mut().write(index, data.I);)*` -/
  | writeColumns
  /-- `#[cfg(feature = "events")] { self.created.push(entity); }` -/
  | pushCreated
  /-- `debug_assert!(…)` -/
  | debugAssert
  /-- the tail expression `entity` -/
  | returnEntity
  | unknown
deriving DecidableEq, Repr, Inhabited

structure CEnv where
  slotIndex : Option Nat := none
  dense : Option Nat := none
  slotsBound : Bool := false
  slotRef : Option Nat := none
  entity : Option Ent := none
  index : Option Nat := none
  dataRaw : Bool := false
  returned : Bool := false

/-- `DataPtr::write(index, val)` on the initialised-prefix list: writing the cell just past the
prefix extends it; writing an initialised cell overwrites (and leaks) it; further out is not
representable (`none`). -/
def writeAt {β : Type} (l : List β) (i : Nat) (x : β) : Option (List β) :=
  if i = l.length then some (l ++ [x]) else if i < l.length then some (l.set i x) else none

def writeCols {β : Type} (cols : List (List β)) (i : Nat) (row : List β) : Option (List (List β)) :=
  if cols.all (fun c => c.length == i) then some (List.zipWith (fun c x => c ++ [x]) cols row) else none

def cstep (cfg : Cfg) (b : SlotBodies) (row : List α) (s : Storage α) (e : CEnv) :
    CStep → SR (Storage α) CEnv
  | .slotIndex =>
    match s.freeHead with
    | .free si => .cont s { e with slotIndex := some si }
    | _ => .ub "free_head.index_free().unwrap_unchecked() at list end"
  | .denseIndex =>
    if s.len < cfg.maxCap then .cont s { e with dense := some s.len }
    else .ub "TrimmedIndex::new_usize(len).unwrap_unchecked()"
  | .bindSlots => .cont s { e with slotsBound := true }
  | .bindSlot =>
    match e.slotsBound, e.slotIndex with
    | true, some si => if si < s.slots.length then .cont s { e with slotRef := some si }
                       else .ub "slots.get_unchecked_mut(slot_index) out of bounds"
    | _, _ => .ub "slots / slot_index read before bound"
  | .setFreeHeadFromSlot =>
    match e.slotRef with
    | some si => match s.slots[si]? with
      | some sl => .cont { s with freeHead := sl.idx } e
      | none => .ub "slot reference dangling"
    | none => .ub "slot read before it is bound"
  | .assignSlot =>
    match e.slotRef, e.dense with
    | some si, some dn => match s.slots[si]? with
      | some sl => match applySlotSets { indexData := some dn } b.assign sl with
        | some sl' => .cont { s with slots := s.slots.set si sl' } e
        | none => .ub "Slot::assign: untranslated body"
      | none => .ub "slot reference dangling"
    | _, _ => .ub "slot / dense_index read before bound"
  | .newEntity =>
    match e.slotRef, e.slotIndex with
    | some sr, some si => match s.slots[sr]? with
      | some sl => .cont s { e with entity := some ⟨si, sl.ver⟩ }
      | none => .ub "slot reference dangling"
    | _, _ => .ub "slot / slot_index read before bound"
  | .bindIndex => .cont s { e with index := some s.len }
  | .incLen => .cont { s with len := s.len + 1 } e
  | .assumeIndexLtLen =>
    match e.index with
    | some i => if i < s.len then .cont s e else .ub "debug_checked_assume!(index < self.len) violated"
    | none => .ub "index read before it is bound"
  | .rawGet => .cont s { e with dataRaw := true }
  | .writeEntity =>
    match e.index, e.entity with
    | some i, some en => match writeAt s.ents i en with
      | some l => .cont { s with ents := l } e
      | none => .ub "entities.write(index, entity) past the initialised prefix"
    | _, _ => .ub "index / entity read before bound"
  | .writeColumns =>
    match e.index, e.dataRaw with
    | some i, true => match writeCols s.cols i row with
      | some cs => .cont { s with cols := cs } e
      | none => .ub "column write(index, …) not at the end of the initialised prefix"
    | _, _ => .ub "index / data read before bound"
  | .pushCreated =>
    if cfg.events then
      match e.entity with
      | some en => .cont { s with created := s.created ++ [en] } e
      | none => .ub "entity read before it is bound"
    else .cont s e
  | .debugAssert => .cont s e
  | .returnEntity =>
    match e.entity with
    | some _ => .cont s { e with returned := true }
    | none => .ub "entity read before it is bound"
  | .unknown => .ub "untranslated statement in force_create"

def runC (cfg : Cfg) (b : SlotBodies) (row : List α) : List CStep → Storage α → CEnv → Out (Storage α) Ent
  | [], s, e =>
    match e.returned, e.entity with
    | true, some en => .ok en s
    | _, _ => .ub "force_create: body ends without returning the handle"
  | st :: rest, s, e =>
    if e.returned then .ub "statement after the return expression" else
    match cstep cfg b row s e st with
    | .cont s' e' => runC cfg b row rest s' e'
    | .panic m s' => .panic m s'
    | .ub m => .ub m

/-- `force_create(data)` as the given statement list. -/
def execCreate (cfg : Cfg) (b : SlotBodies) (steps : List CStep) (s : Storage α) (row : List α) :
    Out (Storage α) Ent :=
  runC cfg b row steps s {}

/-! ## `grow` -/

inductive GStep where
  /-- `if self.capacity() >= MAX_DATA_CAPACITY as usize { return false; }` -/
  | checkRoom
  /-- the `let new_capacity = …;` statements (the value itself is the growth witness `nc`) -/
  | newCapacity
  /-- `self.slots.grow(self.capacity, new_capacity);` -/
  | growSlots
  /-- `self.entities.grow(self.capacity, new_capacity);` -/
  | growEntities
  /-- `#(self.d~I.get_mut().grow(self.capacity, new_capacity);)*` -/
  | growColumns
  /-- `let free_start = TrimmedIndex::new_usize(self.len).unwrap_unchecked();` -/
  | freeStart
  /-- `let slots = self.slots.raw_data(new_capacity);` -/
  | bindSlots
  /-- `self.free_head = Slot::populate_free_list(free_start, slots);` -/
  | populate
  /-- `self.capacity = new_capacity;` -/
  | setCapacity
  | debugAssert
  /-- the tail expression `true` -/
  | returnTrue
  | unknown
deriving DecidableEq, Repr, Inhabited

structure GEnv where
  checked : Bool := false
  nc : Option Nat := none
  /-- capacity the slot / entity / column allocations currently have -/
  slotsCap : Option Nat := none
  entsGrown : Bool := false
  colsGrown : Bool := false
  freeStart : Option Nat := none
  slotsLen : Option Nat := none
  returned : Bool := false

/-- `none` = `return false` ("out of room to grow"). -/
def gstep (cfg : Cfg) (nc : Nat) (s : Storage α) (e : GEnv) : GStep → SR (Storage α) GEnv ⊕ Unit
  | .checkRoom => if s.capacity ≥ cfg.maxCap then .inr () else .inl (.cont s { e with checked := true })
  | .newCapacity => .inl (.cont s { e with nc := some nc })
  | .growSlots =>
    match e.nc with
    | some n => .inl (.cont s { e with slotsCap := some n })
    | none => .inl (.ub "new_capacity read before it is bound")
  | .growEntities =>
    match e.nc with
    | some _ => .inl (.cont s { e with entsGrown := true })
    | none => .inl (.ub "new_capacity read before it is bound")
  | .growColumns =>
    match e.nc with
    | some _ => .inl (.cont s { e with colsGrown := true })
    | none => .inl (.ub "new_capacity read before it is bound")
  | .freeStart =>
    if s.len < cfg.maxCap then .inl (.cont s { e with freeStart := some s.len })
    else .inl (.ub "TrimmedIndex::new_usize(len).unwrap_unchecked()")
  | .bindSlots =>
    match e.nc, e.slotsCap with
    | some n, some c => if n ≤ c then .inl (.cont s { e with slotsLen := some n })
                        else .inl (.ub "slots.raw_data(new_capacity) beyond the allocation")
    | _, _ => .inl (.ub "slots.raw_data(new_capacity) before slots.grow")
  | .populate =>
    match e.freeStart, e.slotsLen with
    | some fs, some n =>
      let p := Gecs.populate fs n s.slots
      .inl (.cont { s with slots := p.1, freeHead := p.2 } e)
    | _, _ => .inl (.ub "free_start / slots read before bound")
  | .setCapacity =>
    match e.nc, e.entsGrown, e.colsGrown, e.slotsCap with
    | some n, true, true, some _ => .inl (.cont { s with capacity := n } e)
    | _, _, _, _ => .inl (.ub "capacity raised before every array was grown")
  | .debugAssert => .inl (.cont s e)
  | .returnTrue => if e.checked then .inl (.cont s { e with returned := true })
                   else .inl (.ub "grow without the room check")
  | .unknown => .inl (.ub "untranslated statement in grow")

/-- `Out … Bool`-like result: `.ok none` = returned false, `.ok (some s')` = grew. -/
def runG (cfg : Cfg) (nc : Nat) : List GStep → Storage α → GEnv → Out Unit (Option (Storage α))
  | [], s, e => if e.returned then .ok (some s) () else .ub "grow: body ends without returning"
  | st :: rest, s, e =>
    if e.returned then .ub "statement after the return expression" else
    match gstep cfg nc s e st with
    | .inr () => .ok none ()
    | .inl (.cont s' e') => runG cfg nc rest s' e'
    | .inl (.panic m _) => .panic m ()
    | .inl (.ub m) => .ub m

def execGrow (cfg : Cfg) (steps : List GStep) (s : Storage α) (nc : Nat) : Out Unit (Option (Storage α)) :=
  runG cfg nc steps s {}

/-- Equality of outcomes up to the text of an `ub` message. -/
def Out.same {σ β : Type} (a b : Out σ β) : Prop :=
  match a, b with
  | .ok x s, .ok y t => x = y ∧ s = t
  | .panic m s, .panic n t => m = n ∧ s = t
  | .ub _, .ub _ => True
  | _, _ => False

end Gecs
