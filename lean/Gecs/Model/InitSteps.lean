/-
Statement-level model of `StorageN::with_capacity` and `StorageN::clear_events`
(/repo/src/archetype/storage.rs).  Lists regenerated from the source on every run
(Gecs/Gen/Steps.lean: `withCapacitySteps`, `withCapacityFields`, `clearEventsSteps`);
Lemmas/GenInit.lean: running them is `withCapacity` / `clearEvents` of Model/Storage.lean.
Pinned by translation: the capacity limit is tested before anything is allocated, the whole
slot array is threaded into one free chain starting at slot 0, the fresh storage starts at the
start version with `len = 0`, the requested capacity and empty logs; `clear_events` empties
both logs and touches nothing else.
-/
import Gecs.Model.CloneSteps

namespace Gecs

variable {α : Type}

inductive NStep where
  /-- `num_assert_leq!(size_of::<u32>(), size_of::<usize>());` -/
  | numAssert
  /-- `if capacity > MAX_DATA_CAPACITY as usize { panic!("capacity may not exceed {}", MAX_DATA_CAPACITY); }` -/
  | panicIfTooLarge
  /-- `let mut slots: DataPtr<Slot> = DataPtr::with_capacity(capacity);` -/
  | allocSlots
  /-- `let raw_data = unsafe { slots.raw_data(capacity) };` -/
  | rawData
  /-- `let free_head = Slot::populate_free_list(TrimmedIndex::zero(), raw_data);` -/
  | populateFromZero
  /-- the tail expression `Self { … }` (its initialisers: `NField`) -/
  | returnSelfLiteral
  | unknown
deriving DecidableEq, Repr, Inhabited

inductive NField where
  /-- `version: ArchetypeVersion::start()` -/
  | versionStart
  /-- `len: 0` -/
  | lenZero
  /-- `capacity` (shorthand for the parameter) -/
  | capacityParam
  /-- `free_head` (shorthand for the local) -/
  | freeHeadLocal
  /-- `slots` (shorthand for the local) -/
  | slotsLocal
  /-- `entities: DataPtr::with_capacity(capacity)` -/
  | entitiesAlloc
  /-- `#(d~I: RefCell::new(DataPtr::with_capacity(capacity)),)*` -/
  | columnsAlloc
  /-- `#[cfg(feature = "events")] created: Vec::new()` -/
  | createdNew
  /-- `#[cfg(feature = "events")] destroyed: Vec::new()` -/
  | destroyedNew
  | unknown
deriving DecidableEq, Repr, Inhabited

structure NEnv where
  checked : Bool := false
  slotsCap : Option Nat := none
  rawLen : Option Nat := none
  slots : Option (List Slot) := none
  freeHead : Option SIdx := none

def nfield (ncols cap : Nat) (e : NEnv) (l : KLit α) : NField → Option (KLit α)
  | .versionStart => some { l with version := some VERSION_START }
  | .lenZero => some { l with len := some 0 }
  | .capacityParam => some { l with capacity := some cap }
  | .freeHeadLocal => e.freeHead.map (fun x => { l with freeHead := some x })
  | .slotsLocal => e.slots.map (fun x => { l with slots := some x })
  | .entitiesAlloc => some { l with ents := some [] }
  | .columnsAlloc => some { l with cols := some (List.replicate ncols []) }
  | .createdNew => some { l with created := some [] }
  | .destroyedNew => some { l with destroyed := some [] }
  | .unknown => none

def nfields (ncols cap : Nat) (e : NEnv) : List NField → KLit α → Option (KLit α)
  | [], l => some l
  | f :: fs, l => match nfield ncols cap e l f with
    | none => none
    | some l' => nfields ncols cap e fs l'

def runN (cfg : Cfg) (fields : List NField) (ncols cap : Nat) : List NStep → NEnv → Out (Storage α) Unit
  | [], _ => .ub "with_capacity: body ends without returning"
  | .numAssert :: rest, e => runN cfg fields ncols cap rest e
  | .panicIfTooLarge :: rest, e =>
    if cap > cfg.maxCap then .panic "capacity may not exceed" (emptyStorage ncols)
    else runN cfg fields ncols cap rest { e with checked := true }
  | .allocSlots :: rest, e => runN cfg fields ncols cap rest { e with slotsCap := some cap }
  | .rawData :: rest, e =>
    (match e.slotsCap with
    | some c => if cap ≤ c then runN cfg fields ncols cap rest { e with rawLen := some cap }
                else .ub "slots.raw_data(capacity) beyond the allocation"
    | none => .ub "slots read before it is bound")
  | .populateFromZero :: rest, e =>
    (match e.rawLen with
    | some n =>
      let p := populate 0 n []
      runN cfg fields ncols cap rest { e with slots := some p.1, freeHead := some p.2 }
    | none => .ub "raw_data read before it is bound")
  | .returnSelfLiteral :: _, e =>
    if e.checked then
      (match nfields ncols cap e fields {} with
      | some l => match l.build cfg with
        | some s => .ok () s
        | none => .ub "with_capacity: Self { … } literal lacks a field"
      | none => .ub "with_capacity: untranslated field initialiser / local read before bound")
    else .ub "with_capacity: no capacity limit check before the storage is built"
  | .unknown :: _, _ => .ub "untranslated statement in with_capacity"

def execWithCapacity (cfg : Cfg) (steps : List NStep) (fields : List NField) (ncols cap : Nat) :
    Out (Storage α) Unit := runN cfg fields ncols cap steps {}

/-! ## `clear_events` -/

inductive EStep where
  /-- `self.created.clear();` -/
  | clearCreated
  /-- `self.destroyed.clear();` -/
  | clearDestroyed
  | unknown
deriving DecidableEq, Repr, Inhabited

def runE : List EStep → Storage α → Option (Storage α)
  | [], s => some s
  | .clearCreated :: rest, s => runE rest { s with created := [] }
  | .clearDestroyed :: rest, s => runE rest { s with destroyed := [] }
  | .unknown :: _, _ => none

end Gecs
