/-
The generated world-level event iterator (`EcsEventIterator::next`, emitted by
`section_event_iter` of /repo/macros/src/generate/world.rs): the repeated block
`if self.which == #index { match self.#iter.next() { Some(next) => return Some(next.into()),
None => #next } }`, the tail `None`, and the schedule of `#next` (`self.which += 1` in every block
but the last, `{}` in the last).  The skeleton is regenerated from the source on every run
(Gecs/Gen/Steps.lean: `evT`); Lemmas/GenEventIter.lean proves that read through it the iterator is
the hand-written state machine `EvIter.blocks` of Model/Events.lean, which the C17 theorems are about.
-/
import Gecs.Model.Events

namespace Gecs

structure EvT where
  /-- the repeated block has the shape quoted above (guard on `which == #index`, `Some` returns the
  converted handle, `None` runs the scheduled statement and falls through to the next block) -/
  blockOk : Bool
  /-- after the blocks: `None` -/
  tailNone : Bool
  /-- `#next` is `self.which += 1` for the first `n - 1` archetypes … -/
  incAllButLast : Bool
  /-- … and `{}` for the last -/
  lastEmpty : Bool
deriving DecidableEq, Repr

def EvIter.blocksT (T : EvT) (n : Nat) : List Nat → EvIter → Option Key × EvIter
  | [], it => (none, it)
  | i :: rest, it =>
    if T.blockOk && T.tailNone then
      if it.which = i then
        match it.iters.getD i [] with
        | x :: xs => (some x, { it with iters := it.iters.set i xs })
        | [] =>
          EvIter.blocksT T n rest
            (if i + 1 < n then (if T.incAllButLast then { it with which := it.which + 1 } else it)
             else (if T.lastEmpty then it else { it with which := it.which + 1 }))
      else EvIter.blocksT T n rest it
    else (none, { it with which := n + 1 })    -- an untranslated skeleton yields nothing

end Gecs
