/-
Histories: the state-changing operations of the API as data, and `run`, the fold of a
finite operation list over a world.  A panic does not end a history: the world is carried
on in the state the panic left it in (this is `catch_unwind` followed by further use, the
situation C10 is about).  Only `ub` is absorbing.  Import-free.
-/
import Gecs.Model.Query

namespace Gecs

/-- State-changing operations.  Handles are arbitrary words (forged, stale, foreign);
closures are arbitrary deterministic state machines. -/
inductive Op (α : Type) : Type 1 where
  | create (a : Nat) (row : List α) (g : Nat → Nat)      -- `g`: how far capacity grows
  | createWithin (a : Nat) (row : List α)
  | destroy (u : KeyUse)
  | write (u : KeyUse) (c : Nat) (x : α)                  -- view / borrow / slice write of one cell
  | iter (q : Query) (σ : Type) (f : Closure σ α Step) (st : σ)
  | iterDestroy (q : Query) (σ : Type) (f : Closure σ α Step4) (st : σ)
  | find (q : Query) (σ : Type) (f : Closure σ α Unit) (h : Handle) (st : σ)
  | clearEvents (a : Option Nat)
  | cloneSwitch (cl : α → α)                              -- clone, continue on the clone

/-- Outcome of one operation on a world. -/
inductive Res (α : Type) where
  | ok (w : World α)
  | panic (msg : String) (w : World α)
  | ub (msg : String)

variable {α : Type}

def Res.ofWOut {β : Type} : WOut α β → Res α
  | .ok _ w => .ok w
  | .panic m w => .panic m w
  | .ub m => .ub m

def stepOp (cfg : Cfg) (w : World α) : Op α → Res α
  | .create a row g => Res.ofWOut (w.create cfg g a row)
  | .createWithin a row => Res.ofWOut (w.createWithin cfg a row)
  | .destroy u => Res.ofWOut (w.destroy cfg (u.route cfg w.ids) u.h.kind.isDirect)
  | .write u c x =>
    (match w.fetch cfg (u.route cfg w.ids) u.h.kind.isDirect with
     | .ok (some (d, _, _)) _ =>
       (match u.route cfg w.ids with
        | .arch a _ =>
          (match w.archs[a]? with
           | some s => .ok (w.setArch a (writeCell s d c x))
           | none => .ub "no such archetype")
        | _ => .ok w)
     | .ok none _ => .ok w
     | .panic m w' => .panic m w'
     | .ub m => .ub m)
  | .iter q _ f st =>
    (match iterQuery cfg f q st w with
     | .ok _ w' => .ok w'
     | .panic m _ w' => .panic m w'
     | .ub m => .ub m)
  | .iterDestroy q _ f st =>
    (match iterDestroyQuery cfg f q st w with
     | .ok _ w' => .ok w'
     | .panic m _ w' => .panic m w'
     | .ub m => .ub m)
  | .find q _ f h st =>
    (match findQuery cfg q f h st w with
     | .ok _ _ w' => .ok w'
     | .panic m _ w' => .panic m w'
     | .ub m => .ub m)
  | .clearEvents none => .ok w.clearEvents
  | .clearEvents (some a) =>
    (match w.archs[a]? with
     | some s => .ok (w.setArch a (clearEvents s))
     | none => .ok w)
  | .cloneSwitch cl =>
    (match w.clone cl with
     | .ok w' _ => .ok w'
     | .panic m _ => .panic m w
     | .ub m => .ub m)

/-- Run a history.  `none` = undefined behaviour was reached. -/
def run (cfg : Cfg) : World α → List (Op α) → Option (World α)
  | w, [] => some w
  | w, op :: ops =>
    match stepOp cfg w op with
    | .ok w' => run cfg w' ops
    | .panic _ w' => run cfg w' ops
    | .ub _ => none

/-- Growth functions the theorems quantify over: strict and within `maxCap`
(the code's `(cap+1)*2` capped at `maxCap` is one of them). -/
def GrowOk (cfg : Cfg) (g : Nat → Nat) : Prop :=
  ∀ c, c < cfg.maxCap → c < g c ∧ g c ≤ cfg.maxCap

/-- Every `create` of the history uses an admissible growth function. -/
def OpsOk (cfg : Cfg) : List (Op α) → Prop
  | [] => True
  | .create _ _ g :: ops => GrowOk cfg g ∧ OpsOk cfg ops
  | _ :: ops => OpsOk cfg ops

end Gecs
