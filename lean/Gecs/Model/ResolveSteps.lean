/-
Statement-level model of the two validating lookups of `StorageN`
(/repo/src/archetype/storage.rs `resolve_entity`, inherent `resolve_direct`): the guard chains
every safe API call goes through before an unchecked access.  As in Model/Steps.lean each
STATEMENT of the bodies gets a meaning (`REStep`, `RDStep`) and an interpreter runs a list of
them in order; the lists are regenerated from the source on every run (Gecs/Gen/Steps.lean) and
Lemmas/GenResolve.lean proves that running them IS `resolveEntity` / `resolveDirect`, debug
assertions and their panics included.  So the ORDER of the guards (emptiness, range check,
generation compare, free-bit test before `index_data().unwrap_unchecked()`, range check before
`get_unchecked`) is tied to the code by translation + proof.
-/
import Gecs.Model.Steps

namespace Gecs

variable {α : Type}

/-- Outcome of one statement of a lookup: continue, return a value, panic, or `ub`. -/
inductive RR (ε : Type) where
  | cont (e : ε)
  | ret (r : Option (Nat × Nat))
  | panic (msg : String)
  | ub (msg : String)

/-! ## `resolve_entity(entity: Entity<A>)` -/

inductive REStep where
  /-- `debug_assert!(self.len <= self.capacity());` -/
  | dbgLenLeCap
  /-- `if self.len == 0 { return None; }` -/
  | ifEmptyReturnNone
  /-- `let slot_index = entity.slot_index();` -/
  | bindSlotIndex
  /-- `let slot_index_usize: usize = slot_index.into();` -/
  | bindSlotIndexUsize
  /-- `debug_assert!(slot_index_usize < self.capacity(), "invalid entity handle");` -/
  | dbgSlotInRange
  /-- `if slot_index_usize >= self.capacity() { return None; }` -/
  | ifSlotOutOfRangeReturnNone
  /-- `let slots = self.slots.slice(self.capacity());` -/
  | bindSlots
  /-- `let slot = slots.get_unchecked(slot_index_usize);` -/
  | bindSlot
  /-- `if (slot.version() != entity.version()) || slot.is_free() { return None; }` -/
  | ifStaleOrFreeReturnNone
  /-- `let dense_index = slot.index().index_data().unwrap_unchecked();` -/
  | bindDense
  /-- the `#[cfg(debug_assertions)] { … }` cross-check of the dense entry against the handle -/
  | debugCrossCheck
  /-- the tail expression `Some((slot_index, dense_index))` -/
  | returnSome
  | unknown
deriving DecidableEq, Repr, Inhabited

structure REEnv where
  slotIndex : Option Nat := none
  slotIndexUsize : Option Nat := none
  slotsBound : Bool := false
  slot : Option Slot := none
  dense : Option Nat := none

def restep (cfg : Cfg) (s : Storage α) (e : Ent) (env : REEnv) : REStep → RR REEnv
  | .dbgLenLeCap =>
    if cfg.debug ∧ ¬ s.len ≤ s.capacity then .panic "debug_assert: len <= capacity" else .cont env
  | .ifEmptyReturnNone => if s.len = 0 then .ret none else .cont env
  | .bindSlotIndex => .cont { env with slotIndex := some e.slot }
  | .bindSlotIndexUsize =>
    match env.slotIndex with
    | some i => .cont { env with slotIndexUsize := some i }
    | none => .ub "slot_index read before it is bound"
  | .dbgSlotInRange =>
    match env.slotIndexUsize with
    | some i => if cfg.debug ∧ ¬ i < s.capacity then .panic "debug_assert: invalid entity handle" else .cont env
    | none => .ub "slot_index_usize read before it is bound"
  | .ifSlotOutOfRangeReturnNone =>
    match env.slotIndexUsize with
    | some i => if i ≥ s.capacity then .ret none else .cont env
    | none => .ub "slot_index_usize read before it is bound"
  | .bindSlots => .cont { env with slotsBound := true }
  | .bindSlot =>
    match env.slotsBound, env.slotIndexUsize with
    | true, some i => match s.slots[i]? with
      | some sl => .cont { env with slot := some sl }
      | none => .ub "resolve_entity: slots.get_unchecked out of bounds"
    | _, _ => .ub "slots / slot_index_usize read before bound"
  | .ifStaleOrFreeReturnNone =>
    match env.slot with
    | some sl => if sl.ver ≠ e.ver || sl.idx.isFree then .ret none else .cont env
    | none => .ub "slot read before it is bound"
  | .bindDense =>
    match env.slot with
    | some sl => match sl.idx with
      | .data d => .cont { env with dense := some d }
      | _ => .ub "resolve_entity: unwrap_unchecked on a free index"
    | none => .ub "slot read before it is bound"
  | .debugCrossCheck =>
    if cfg.debug then
      match env.dense with
      | some d =>
        if d < s.len then
          match s.ents[d]? with
          | none => .ub "resolve_entity(debug): entities.get_unchecked out of bounds"
          | some l => if l = e then .cont env else .panic "debug_assert: lookup mismatch"
        else .panic "debug_assert: dense_index < len"
      | none => .ub "dense_index read before it is bound"
    else .cont env
  | .returnSome =>
    match env.slotIndex, env.dense with
    | some i, some d => .ret (some (i, d))
    | _, _ => .ub "slot_index / dense_index read before bound"
  | .unknown => .ub "untranslated statement in resolve_entity"

def runRE (cfg : Cfg) (s : Storage α) (e : Ent) : List REStep → REEnv → Out (Storage α) (Option (Nat × Nat))
  | [], _ => .ub "resolve_entity: body ends without returning"
  | st :: rest, env =>
    match restep cfg s e env st with
    | .cont env' => runRE cfg s e rest env'
    | .ret r => .ok r s
    | .panic m => .panic m s
    | .ub m => .ub m

def execResolveEntity (cfg : Cfg) (steps : List REStep) (s : Storage α) (e : Ent) :
    Out (Storage α) (Option (Nat × Nat)) := runRE cfg s e steps {}

/-! ## `resolve_direct(entity: EntityDirect<A>)` (the inherent, validating one) -/

inductive RDStep where
  /-- `debug_assert!(self.len <= self.capacity());` -/
  | dbgLenLeCap
  /-- `if self.len == 0 { return None; }` -/
  | ifEmptyReturnNone
  /-- `if entity.version() != self.version() { return None; }` -/
  | ifVersionMismatchReturnNone
  /-- `let dense_index = entity.dense_index();` -/
  | bindDenseIndex
  /-- `let dense_index_usize: usize = dense_index.into();` -/
  | bindDenseIndexUsize
  /-- `debug_assert!(dense_index_usize < self.len(), "invalid entity handle");` -/
  | dbgDenseInRange
  /-- `if dense_index_usize >= self.len() { return None; }` -/
  | ifDenseOutOfRangeReturnNone
  /-- `let entities = self.entities.slice(self.len);` -/
  | bindEntities
  /-- `let lookup = entities.get_unchecked(dense_index_usize);` -/
  | bindLookup
  /-- `let slot_index = lookup.slot_index();` -/
  | bindSlotIndex
  /-- the `#[cfg(debug_assertions)] { … }` cross-check of the slot against the dense entry -/
  | debugCrossCheck
  /-- the tail expression `Some((slot_index, dense_index))` -/
  | returnSome
  | unknown
deriving DecidableEq, Repr, Inhabited

structure RDEnv where
  dense : Option Nat := none
  denseUsize : Option Nat := none
  entsBound : Bool := false
  lookup : Option Ent := none
  slotIndex : Option Nat := none

def rdstep (cfg : Cfg) (s : Storage α) (d v : Nat) (env : RDEnv) : RDStep → RR RDEnv
  | .dbgLenLeCap =>
    if cfg.debug ∧ ¬ s.len ≤ s.capacity then .panic "debug_assert: len <= capacity" else .cont env
  | .ifEmptyReturnNone => if s.len = 0 then .ret none else .cont env
  | .ifVersionMismatchReturnNone => if v ≠ s.version then .ret none else .cont env
  | .bindDenseIndex => .cont { env with dense := some d }
  | .bindDenseIndexUsize =>
    match env.dense with
    | some i => .cont { env with denseUsize := some i }
    | none => .ub "dense_index read before it is bound"
  | .dbgDenseInRange =>
    match env.denseUsize with
    | some i => if cfg.debug ∧ ¬ i < s.len then .panic "debug_assert: invalid entity handle" else .cont env
    | none => .ub "dense_index_usize read before it is bound"
  | .ifDenseOutOfRangeReturnNone =>
    match env.denseUsize with
    | some i => if i ≥ s.len then .ret none else .cont env
    | none => .ub "dense_index_usize read before it is bound"
  | .bindEntities => .cont { env with entsBound := true }
  | .bindLookup =>
    match env.entsBound, env.denseUsize with
    | true, some i => match s.ents[i]? with
      | some l => .cont { env with lookup := some l }
      | none => .ub "resolve_direct: entities.get_unchecked out of bounds"
    | _, _ => .ub "entities / dense_index_usize read before bound"
  | .bindSlotIndex =>
    match env.lookup with
    | some l => .cont { env with slotIndex := some l.slot }
    | none => .ub "lookup read before it is bound"
  | .debugCrossCheck =>
    if cfg.debug then
      match env.lookup, env.slotIndex with
      | some l, some si =>
        if si < s.capacity then
          match s.slots[si]? with
          | none => .ub "resolve_direct(debug): slots.get_unchecked out of bounds"
          | some sl => if sl.ver = l.ver ∧ sl.idx.isFree = false then .cont env
                       else .panic "debug_assert: slot mismatch"
        else .panic "debug_assert: slot_index < capacity"
      | _, _ => .ub "lookup / slot_index read before bound"
    else .cont env
  | .returnSome =>
    match env.slotIndex, env.dense with
    | some i, some dn => .ret (some (i, dn))
    | _, _ => .ub "slot_index / dense_index read before bound"
  | .unknown => .ub "untranslated statement in resolve_direct"

def runRD (cfg : Cfg) (s : Storage α) (d v : Nat) : List RDStep → RDEnv → Out (Storage α) (Option (Nat × Nat))
  | [], _ => .ub "resolve_direct: body ends without returning"
  | st :: rest, env =>
    match rdstep cfg s d v env st with
    | .cont env' => runRD cfg s d v rest env'
    | .ret r => .ok r s
    | .panic m => .panic m s
    | .ub m => .ub m

def execResolveDirect (cfg : Cfg) (steps : List RDStep) (s : Storage α) (d v : Nat) :
    Out (Storage α) (Option (Nat × Nat)) := runRD cfg s d v steps {}

end Gecs
