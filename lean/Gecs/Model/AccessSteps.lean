/-
The accessor surface of `StorageN` (/repo/src/archetype/storage.rs): the three public wrappers
over `StorageCanResolve` (`destroy`, `resolve`, `to_direct`), `begin_borrow`, `get_view_mut`,
`get_all_slices_mut`, `get_slice_entities` and the four per-column slice accessors.  Their bodies
are regenerated from the source on every run and classified into shapes (Gecs/Gen/Steps.lean:
`accessors`); this file reads a shape as the read it performs on the storage model;
Lemmas/GenAccess.lean proves that every accessor reads what the model's `readRow` / column
prefix says: the SAME index for the handle and every column, slices bounded by `len`, column `I`
for accessor `I`, and each wrapper delegating to the trait method of the same operation.
-/
import Gecs.Model.Storage

namespace Gecs

variable {α : Type}

inductive AccShape where
  /-- `<Self as StorageCanResolve<K>>::METHOD(self, entity)` -/
  | delegate (method : String)
  /-- `self.resolve(entity).map(|index| $borrow { index, source: self })` -/
  | borrowAtResolved
  /-- `self.resolve(entity).map(|index| unsafe { E::new(index, self.entities.slice(self.len)
       .get_unchecked(index), #(self.d~I.get_mut().slice_mut(self.len).get_unchecked_mut(index),)*) })` -/
  | viewAtResolved
  /-- `S::new(self.entities.slice(self.len), #(self.d~I.get_mut().slice_mut(self.len),)*)` -/
  | allSlicesToLen
  /-- `self.entities.slice(self.len)` -/
  | entitiesToLen
  /-- column `~I` (the accessor's own), `slice(self.len)` / `slice_mut(self.len)`; `viaRefCell`:
  through `Ref::map(self.d~I.borrow(), …)` / `RefMut::map(self.d~I.borrow_mut(), …)` -/
  | columnToLen (isMut viaRefCell : Bool)
  | unknown
deriving DecidableEq, Repr, Inhabited

/-- What a view built by a `viewAtResolved` accessor shows for resolved index `d`. -/
def viewRead (s : Storage α) (d : Nat) : AccShape → Option (Option Ent × List α)
  | .viewAtResolved =>
    if d < s.len ∧ s.cols.all (fun c => c.length == s.len) ∧ s.ents.length = s.len then
      some (s.ents[d]?, s.cols.filterMap (fun c => c[d]?))
    else none
  | _ => none

/-- What a slice accessor of column `col` shows. -/
def sliceRead (s : Storage α) (col : Nat) : AccShape → Option (List α)
  | .columnToLen _ _ => (s.cols[col]?).map (fun c => c.take s.len)
  | _ => none

def entitiesRead (s : Storage α) : AccShape → Option (List Ent)
  | .entitiesToLen => some (s.ents.take s.len)
  | _ => none

def shapeOf (t : List (String × AccShape)) (name : String) : AccShape :=
  ((t.find? (fun r => r.1 == name)).map (·.2)).getD .unknown

end Gecs
