/-
Bit-level layout of handles (entity.rs, index.rs, slot.rs) over `Nat` words, and the
conversions between handle kinds (C14).  The world model (World.lean) uses the arithmetic
forms `index * 256 + id`, `key / 256`, `key % 256`; Lemmas/Bits.lean proves they are the
shift/or/truncate forms the Rust code computes, for all in-range words.  Import-free.
-/
import Gecs.Model.World
import Gecs.Model.Check

namespace Gecs

def ARCHETYPE_ID_BITS : Nat := 8
def U32 : Nat := 4294967296                  -- 2^32
def MAX_DATA_CAPACITY : Nat := 16777216      -- 1 << (32 - ARCHETYPE_ID_BITS)
def MAX_DATA_INDEX : Nat := MAX_DATA_CAPACITY - 1

/-- `EntityAny::new`: `(slot_index << ARCHETYPE_ID_BITS) | archetype_id`. -/
def packKey (index id : Nat) : Nat := (index <<< ARCHETYPE_ID_BITS) ||| id
/-- `archetype_id()`: `self.key as ArchetypeId`. -/
def keyId (key : Nat) : Nat := key % 256
/-- `slot_index()` / `dense_index()`: `self.key >> ARCHETYPE_ID_BITS`. -/
def keyIndex (key : Nat) : Nat := key >>> ARCHETYPE_ID_BITS
/-- `Hash`: `(key as u64) << 32 | version as u64`. -/
def hashInput (k : Key) : Nat := (k.key <<< 32) ||| k.ver

/-- A well-formed 64-bit handle value: both words are `u32`, version non-zero. -/
def Key.wf (k : Key) : Prop := k.key < U32 ∧ 1 ≤ k.ver ∧ k.ver < U32

/-- `EntityAny::raw`. -/
def Key.raw (k : Key) : Nat × Nat := (k.key, k.ver)

/-- `Entity::<A>::from_any` (panics on mismatch): `none` = panic "invalid entity conversion". -/
def fromAny (idA : Nat) (k : Key) : Option Key := if k.archId = idA then some k else none

/-- `into_any` / `From<Entity<A>> for EntityAny`: the inner value. -/
def intoAny (k : Key) : Key := k

/-- `TryFrom<EntityAny> for SelectEntity` (and `SelectEntityDirect`, `SelectArchetype`,
`__WorldSelectTotal`): the variant index of the unique archetype with that id and the
handle (converted with `from_any_unchecked` after the id matched), or `InvalidEntityType`. -/
def selectEntity (ids : List Nat) (k : Key) : Option (Nat × Key) :=
  (selectArch ids k.archId).map (fun a => (a, k))

/-- `SelectArchetype::archetype_id`. -/
def selectArchetypeId (ids : List Nat) (k : Key) : Option Nat :=
  (selectArch ids k.archId).map (fun a => ids.getD a 0)

end Gecs
