/-
Statement-level model of the loops that `ecs_iter!` / `ecs_iter_borrow!` and `ecs_iter_destroy!`
expand to: the per-archetype block templates inside `generate_query_iter` and
`generate_query_iter_destroy` (/repo/macros/src/generate/query.rs, the `quote!( { … } )` pushed
for every matched archetype) and the closure wrapper `(||{ #(#queries)* })()` around them.
tools/extract_steps.py regenerates the templates' control skeleton from the source on every run
(Gecs/Gen/Steps.lean: `iterLoopT`, `iterDestroyLoopT` — the statements before the loop, the loop
direction, the statements of the loop body before the `match`, and for every `match` arm its
statements); this file gives it a meaning over the storage model with arbitrary user closures
(the argument binding `bindArgs` and the write-back `applyWrites` are those of Model/Query.lean);
Lemmas/GenLoops.lean proves that the extracted templates ARE `iterLoop` / `destroyLoop`.  Pinned
by translation: ascending pass with version, length and slices read once (ecs_iter), descending
pass with version and slices re-read at EVERY step (ecs_iter_destroy; defect F2 was a hoisted
`version`), `Break`/`BreakDestroy` leave the whole query (`return` inside the wrapper closure),
the destroyed entity is the one at the current index.
-/
import Gecs.Model.Query

namespace Gecs

variable {α σ ρ : Type}

/-- Statements of a block outside the `match`. -/
inductive QS where
  /-- `type MatchedArchetype = #Archetype;` -/
  | aliasArchetype
  /-- `let mut closure = |…| #body;` -/
  | bindClosure
  /-- `let archetype = #get_archetype;` -/
  | bindArchetype
  /-- `let version = archetype.version();` -/
  | readVersion
  /-- `let len = archetype.len();` -/
  | readLen
  /-- `let slices = #get_slices;` -/
  | fetchSlices
  | unknown
deriving DecidableEq, Repr, Inhabited

/-- Statements of a `match` arm. -/
inductive AStep where
  /-- `let entity = slices.entity[idx];` -/
  | bindEntityAtIdx
  /-- `archetype.destroy(entity);` -/
  | destroyEntity
  /-- `return;` -/
  | ret
  | unknown
deriving DecidableEq, Repr, Inhabited

structure LoopT where
  pre : List QS
  /-- `for idx in (0..len).rev()` (true) or `for idx in 0..len` (false) -/
  rev : Bool
  /-- loop body before `match closure(…).into() { … }` -/
  body : List QS
  arms : List (String × List AStep)
  /-- statements after the loop -/
  post : List QS
  /-- the blocks are wrapped as `(||{ #(#queries)* })()`, so `return` ends the whole query -/
  wrapped : Bool
deriving Repr

structure LEnv where
  closure : Bool := false
  arch : Bool := false
  version : Option Nat := none
  len : Option Nat := none
  slices : Bool := false

def qsStep (cfg : Cfg) (s : Storage α) (e : LEnv) : QS → Except String LEnv
  | .aliasArchetype => .ok e
  | .bindClosure => .ok { e with closure := true }
  | .bindArchetype => .ok { e with arch := true }
  | .readVersion => if e.arch then .ok { e with version := some s.version } else .error "archetype read before it is bound"
  | .readLen => if e.arch then .ok { e with len := some s.len } else .error "archetype read before it is bound"
  | .fetchSlices =>
    if e.arch then
      (if slicesValid cfg s then .ok { e with slices := true } else .error "get_all_slices_mut: data not valid up to len")
    else .error "archetype read before it is bound"
  | .unknown => .error "untranslated statement in a query block"

def qsRun (cfg : Cfg) (s : Storage α) : List QS → LEnv → Except String LEnv
  | [], e => .ok e
  | q :: qs, e => match qsStep cfg s e q with
    | .ok e' => qsRun cfg s qs e'
    | .error m => .error m

inductive ArmOut (α : Type) where
  | next (s : Storage α)
  | stop (s : Storage α)
  | panic (m : String) (s : Storage α)
  | ub (m : String)

def runArm (cfg : Cfg) (idx : Nat) : List AStep → Storage α → Option Ent → ArmOut α
  | [], s, _ => .next s
  | .bindEntityAtIdx :: r, s, _ =>
    (match s.ents[idx]? with
    | none => .panic "index out of bounds" s
    | some e => runArm cfg idx r s (some e))
  | .destroyEntity :: r, s, some e =>
    (match destroyEnt cfg s e with
    | .ok _ s2 => runArm cfg idx r s2 (some e)
    | .panic m s2 => .panic m s2
    | .ub m => .ub m)
  | .destroyEntity :: _, _, none => .ub "entity read before it is bound"
  | .ret :: _, s, _ => .stop s
  | .unknown :: _, _, _ => .ub "untranslated statement in a match arm"

def lookupArm (arms : List (String × List AStep)) (n : String) : Option (List AStep) :=
  (arms.find? (fun a => a.1 == n)).map (·.2)

/-- The `for` loop of one block. `name` maps a closure result to the variant its arm is written
for; `e0` = the environment after the statements in front of the loop. -/
def runLoop (cfg : Cfg) (T : LoopT) (idA : Nat) (ps : List Param) (f : Closure σ α ρ) (name : ρ → String)
    (e0 : LEnv) : List Nat → σ → Storage α → LoopOut σ α
  | [], st, s => .done st s
  | idx :: rest, st, s =>
    match qsRun cfg s T.body e0 with
    | .error m => .ub m
    | .ok e =>
      match e.closure, e.version, e.slices with
      | true, some v, true =>
        (match bindArgs idA s v idx ps with
        | none => .panic "index out of bounds" st s
        | some args =>
          match f st args with
          | .panic st' ws => .panic "closure" st' (applyWrites s idx ps ws)
          | .ret st' ws r =>
            match lookupArm T.arms (name r) with
            | none => .ub "no arm for this variant (non-exhaustive match)"
            | some arm =>
              match runArm cfg idx arm (applyWrites s idx ps ws) none with
              | .next s2 => runLoop cfg T idA ps f name e0 rest st' s2
              | .stop s2 => .stop st' s2
              | .panic m s2 => .panic m st' s2
              | .ub m => .ub m)
      | _, _, _ => .ub "closure / version / slices read before bound"

/-- One per-archetype block. -/
def runBlock (cfg : Cfg) (T : LoopT) (idA : Nat) (ps : List Param) (f : Closure σ α ρ) (name : ρ → String)
    (st : σ) (s : Storage α) : LoopOut σ α :=
  match qsRun cfg s T.pre {} with
  | .error m => .ub m
  | .ok e0 =>
    match e0.len, T.post, T.wrapped with
    | some n, [], true =>
      runLoop cfg T idA ps f name e0 (if T.rev then (List.range n).reverse else List.range n) st s
    | _, _, _ => .ub "len read before bound / statements after the loop / blocks not wrapped in a closure"

def stepName : Step → String
  | .cont => "Continue"
  | .brk => "Break"

def step4Name : Step4 → String
  | .cont => "Continue"
  | .brk => "Break"
  | .contDestroy => "ContinueDestroy"
  | .brkDestroy => "BreakDestroy"

end Gecs
