/-
Statement-level model of the raw-pointer iterators behind `Archetype::iter` / `iter_mut`
(/repo/src/archetype/iter.rs `$iter::next`, `$iter_mut::next`; constructed by `StorageN::iter` /
`iter_mut` in storage.rs).  The statements of the two `next` bodies, the field initialisers of
the two constructor literals and the NAMES of the methods each `impl Iterator` block defines are
regenerated from the source on every run (Gecs/Gen/Steps.lean); Lemmas/GenIter.lean proves that
draining the extracted `next` from the extracted constructor presents every live entity exactly
once, in dense order, paired with its own handle and its own components, and then `None`
(C06 / C02 for `Archetype::iter`, `iter_mut`).  An `impl Iterator` block that defines anything
besides `next` (an overriding `nth`, `last`, `size_hint`, `count`, …) changes what the adapters
do and is not covered by the theorem: the list of method names is an obligation of its own.
-/
import Gecs.Model.Steps

namespace Gecs

variable {α : Type}

/-- Iterator state: items left, offset of `ptr_entity` from the start of the handle array, and
the (common) offset of every column pointer — the `#( … )*` repetition moves all of them by the
same statement. `none` offsets = field not initialised. -/
structure AIter where
  remaining : Nat
  pe : Nat
  pc : Nat
deriving DecidableEq, Repr

/-- Field initialisers of the `$iter { … }` / `$iter_mut { … }` literal in `StorageN::iter(_mut)`. -/
inductive IField where
  /-- `remaining: self.len` -/
  | remainingLen
  /-- `ptr_entity: self.entities.ptr_data()` -/
  | ptrEntityStart
  /-- `#(ptr_d~I: self.d~I.get_mut().ptr_data(),)*` -/
  | ptrColumnsStart
  /-- `phantom: PhantomData` -/
  | phantom
  | unknown
deriving DecidableEq, Repr, Inhabited

structure ILit where
  remaining : Option Nat := none
  pe : Option Nat := none
  pc : Option Nat := none

def ifields (s : Storage α) : List IField → ILit → Option ILit
  | [], l => some l
  | .remainingLen :: fs, l => ifields s fs { l with remaining := some s.len }
  | .ptrEntityStart :: fs, l => ifields s fs { l with pe := some 0 }
  | .ptrColumnsStart :: fs, l => ifields s fs { l with pc := some 0 }
  | .phantom :: fs, l => ifields s fs l
  | .unknown :: _, _ => none

def mkIter (fields : List IField) (s : Storage α) : Option AIter :=
  match ifields s fields {} with
  | some ⟨some r, some pe, some pc⟩ => some ⟨r, pe, pc⟩
  | _ => none

inductive IStep where
  /-- `if self.remaining == 0 { return None; }` -/
  | ifExhaustedReturnNone
  /-- `let result = (&*self.ptr_entity, #(&*self.ptr_d~I,)*);` (`&mut *` for `iter_mut`) -/
  | bindResult
  /-- `self.ptr_entity = self.ptr_entity.offset(1);` -/
  | advanceEntity
  /-- `#(self.ptr_d~I = self.ptr_d~I.offset(1);)*` -/
  | advanceColumns
  /-- `self.remaining -= 1;` -/
  | decRemaining
  /-- tail `Some(result)` -/
  | returnSomeResult
  | unknown
deriving DecidableEq, Repr, Inhabited

inductive NextR (α : Type) where
  | none
  | some (item : Ent × List α) (it : AIter)
  | ub (msg : String)

def runI (s : Storage α) : List IStep → AIter → Option (Ent × List α) → NextR α
  | [], _, _ => .ub "next: body ends without returning"
  | .ifExhaustedReturnNone :: rest, it, r => if it.remaining = 0 then .none else runI s rest it r
  | .bindResult :: rest, it, _ =>
    (match s.ents[it.pe]? with
    | none => .ub "next: *ptr_entity outside the initialised handles"
    | some e =>
      if s.cols.all (fun c => it.pc < c.length) then runI s rest it (some (e, s.cols.filterMap (fun c => c[it.pc]?)))
      else .ub "next: *ptr_d outside the initialised column")
  | .advanceEntity :: rest, it, r => runI s rest { it with pe := it.pe + 1 } r
  | .advanceColumns :: rest, it, r => runI s rest { it with pc := it.pc + 1 } r
  | .decRemaining :: rest, it, r =>
    if it.remaining = 0 then .ub "next: remaining underflows" else runI s rest { it with remaining := it.remaining - 1 } r
  | .returnSomeResult :: _, it, r =>
    (match r with
    | some x => .some x it
    | none => .ub "result read before it is bound")
  | .unknown :: _, _, _ => .ub "untranslated statement in next"

def nextS (steps : List IStep) (s : Storage α) (it : AIter) : NextR α := runI s steps it none

/-- A plain `for` pass: call `next` until `None` (at most `fuel` times); `none` = `ub` on the way. -/
def drain (steps : List IStep) (s : Storage α) : Nat → AIter → Option (List (Ent × List α))
  | 0, _ => some []
  | fuel + 1, it =>
    match nextS steps s it with
    | .none => some []
    | .some x it' => (drain steps s fuel it').map (x :: ·)
    | .ub _ => none

/-- Row `i` as the property states it: the handle stored at dense index `i` with the values of
every column at `i`. -/
def ownRow (s : Storage α) (i : Nat) : Option (Ent × List α) :=
  match s.ents[i]? with
  | some e => some (e, s.cols.filterMap (fun c => c[i]?))
  | none => none

end Gecs
