/-
Fault model: what happens to the values of a world when a user `Clone::clone` / `Drop::drop`
PANICS in the middle of `world.clone()` / of dropping a world.

Generic over the value type `α` and a predicate `isZ : α → Bool` ("zero-sized": its Clone/Drop
never faults, it is only counted).  Core Lean only, structural recursion only (so `decide`
evaluates everything), computable.

* `cloneFault isZ perArch k` : `perArch` = per archetype (declaration order) the values in CLONE
  order (entity-major, column-minor).  The `k`-th (0-based) clone of a non-zero-sized value panics.
* `dropFault  isZ perArch k` : `perArch` = per archetype the values in DROP order (column-major).
  The `k`-th (0-based) drop of a non-zero-sized value panics after having been registered.

`cloneFaultCounts` / `dropFaultDriver` restate, as top-level functions, the ad-hoc local
functions `split`/`pre` and `go`/`cut` of `Gecs/Driver.lean` (same logic, `v.tok = 0` replaced by
`isZ v`); `cloneFault_counts` / `dropFault_driver` prove that the list-valued model agrees with
them for all inputs.  The structural theorems are in `Gecs/Lemmas/Faults.lean`.
-/
import Gecs.Model.World

namespace Gecs

/-- Result of a faulting `world.clone()` / world drop.
`dropped`: values (clone: clones of these source values) whose `Drop` ran, in order;
`leaked` : values (clone: clones of these source values) that exist and are never dropped. -/
structure FaultOutcome (α : Type) where
  dropped : List α
  leaked : List α
deriving Repr, DecidableEq

/-- Number of non-zero-sized values of a list (the ones that count towards the fault countdown). -/
def nzCount (isZ : α → Bool) (l : List α) : Nat := (l.filter (fun v => !isZ v)).length

/-- Number of zero-sized values of a list. -/
def zCount (isZ : α → Bool) (l : List α) : Nat := (l.filter isZ).length

/-! ### `world.clone()` with a panicking `Clone::clone` -/

/-- The values of `l` strictly before its `k`-th (0-based) non-zero-sized value (zero-sized values
met on the way are included); all of `l` when there is no such value. -/
def takeBeforeFault (isZ : α → Bool) : List α → Nat → List α
  | [], _ => []
  | v :: l, k =>
    if isZ v then v :: takeBeforeFault isZ l k
    else match k with
      | 0 => []
      | k + 1 => v :: takeBeforeFault isZ l k

/-- `none`: no fault (`k` is at least the number of non-zero-sized values).
`some o`: `o.dropped` = all values of the archetypes cloned completely before the fault (their
clones are dropped during the unwind), `o.leaked` = the values of the partially cloned archetype
that precede the faulting one (their clones are leaked). -/
def cloneFault (isZ : α → Bool) : List (List α) → Nat → Option (FaultOutcome α)
  | [], _ => none
  | a :: rest, k =>
    if k < nzCount isZ a then some ⟨[], takeBeforeFault isZ a k⟩
    else (cloneFault isZ rest (k - nzCount isZ a)).map (fun o => ⟨a ++ o.dropped, o.leaked⟩)

/-- Driver.lean, `clone` branch, local function `pre` (verbatim, `v.tok = 0` ↦ `isZ v`). -/
def cloneFaultPre (isZ : α → Bool) : List α → Nat → Nat → Nat → Nat × Nat
  | [], _, t, z => (t, z)
  | v :: l', k, t, z =>
    if isZ v then cloneFaultPre isZ l' k t (z + 1)
    else if k = 0 then (t, z) else cloneFaultPre isZ l' (k - 1) (t + 1) z

/-- Driver.lean, `clone` branch, local function `split` (verbatim): `(non-zst count of the complete
archetypes, their zst count, non-zst count of the partial prefix, its zst count)`. -/
def cloneFaultCounts (isZ : α → Bool) : List (List α) → Nat → Nat → Nat → Nat × Nat × Nat × Nat
  | [], _, doneToks, doneZ => (doneToks, doneZ, 0, 0)
  | a :: rest, k, doneToks, doneZ =>
    let nz := (a.filter (fun v => !isZ v)).length
    if k < nz then
      let (pt, pz) := cloneFaultPre isZ a k 0 0
      (doneToks, doneZ, pt, pz)
    else cloneFaultCounts isZ rest (k - nz) (doneToks + nz) (doneZ + (a.length - nz))

/-! ### dropping a world with a panicking `Drop::drop` -/

/-- Split `l` right AFTER its `k`-th (0-based) non-zero-sized value: `(prefix up to and including
it, rest)`; `(l, [])` when there is no such value. -/
def dropCut (isZ : α → Bool) : List α → Nat → List α × List α
  | [], _ => ([], [])
  | v :: l, k =>
    if isZ v then ((v :: (dropCut isZ l k).1), (dropCut isZ l k).2)
    else match k with
      | 0 => ([v], l)
      | k + 1 => ((v :: (dropCut isZ l k).1), (dropCut isZ l k).2)

/-- `none`: no fault.  `some o`: `o.dropped` = everything of the archetypes before the faulting
one, then the prefix of the faulting archetype up to AND INCLUDING the faulting value, then
everything of the archetypes after it (dropped during the unwind); `o.leaked` = the rest of the
faulting archetype. -/
def dropFault (isZ : α → Bool) : List (List α) → Nat → Option (FaultOutcome α)
  | [], _ => none
  | a :: rest, k =>
    if k < nzCount isZ a then some ⟨(dropCut isZ a k).1 ++ rest.flatten, (dropCut isZ a k).2⟩
    else (dropFault isZ rest (k - nzCount isZ a)).map (fun o => ⟨a ++ o.dropped, o.leaked⟩)

/-- Driver.lean, `drop` branch, local function `cut` (verbatim). -/
def dropFaultCut (isZ : α → Bool) : List α → Nat → List α → List α × List α
  | [], _, acc => (acc, [])
  | v :: l', k, acc =>
    if isZ v then dropFaultCut isZ l' k (acc ++ [v])
    else if k = 0 then (acc ++ [v], l') else dropFaultCut isZ l' (k - 1) (acc ++ [v])

/-- Driver.lean, `drop` branch, local function `go` (verbatim): `(dropped, leakT, leakZ)`. -/
def dropFaultDriver (isZ : α → Bool) :
    List (List α) → Nat → Bool → List α → Nat → Nat → List α × Nat × Nat
  | [], _, _, dropped, leakT, leakZ => (dropped, leakT, leakZ)
  | a :: rest, k, hit, dropped, leakT, leakZ =>
    let nz := (a.filter (fun v => !isZ v)).length
    if hit || k ≥ nz then dropFaultDriver isZ rest (k - nz) hit (dropped ++ a) leakT leakZ
    else
      let (dr, lk) := dropFaultCut isZ a k []
      dropFaultDriver isZ rest 0 true (dropped ++ dr)
        (leakT + (lk.filter (fun v => !isZ v)).length) (leakZ + (lk.filter isZ).length)

/-! ### the inputs, from a world (same expressions as in Driver.lean) -/

/-- Per archetype, the values in clone order: entity-major, column-minor (`cloneOrder`). -/
def World.clonePerArch (w : World α) : List (List α) :=
  w.archs.map (fun s => (List.range s.len).flatMap (fun i => s.cols.filterMap (fun c => c[i]?)))

/-- Per archetype, the values in drop order: column-major (`worldVals`, `dropStorage`). -/
def World.dropPerArch (w : World α) : List (List α) :=
  w.archs.map (fun s => s.cols.flatMap (fun c => c.take s.len))

/-! ### agreement with the driver's functions -/

theorem cloneFaultPre_eq (isZ : α → Bool) (l : List α) (k t z : Nat)
    (hk : k < nzCount isZ l) :
    cloneFaultPre isZ l k t z =
      (t + nzCount isZ (takeBeforeFault isZ l k), z + zCount isZ (takeBeforeFault isZ l k)) := by
  induction l generalizing k t z with
  | nil => simp [nzCount] at hk
  | cons v l ih =>
    unfold cloneFaultPre takeBeforeFault
    cases hv : isZ v with
    | true =>
      have hk' : k < nzCount isZ l := by simpa [nzCount, hv] using hk
      simp [ih k t (z + 1) hk', nzCount, zCount, hv]
      omega
    | false =>
      cases k with
      | zero => simp [nzCount, zCount]
      | succ k =>
        have hk' : k < nzCount isZ l := by simpa [nzCount, hv] using hk
        simp [ih k (t + 1) z hk', nzCount, zCount, hv]
        omega

theorem length_eq_nz_add_z (isZ : α → Bool) (l : List α) :
    l.length = nzCount isZ l + zCount isZ l := by
  induction l with
  | nil => simp [nzCount, zCount]
  | cons v l ih =>
    cases hv : isZ v <;> simp [nzCount, zCount, hv] at ih ⊢ <;> omega

/-- General form (arbitrary accumulators), both cases. -/
theorem cloneFaultCounts_eq (isZ : α → Bool) (perArch : List (List α)) (k dT dZ : Nat) :
    cloneFaultCounts isZ perArch k dT dZ =
      match cloneFault isZ perArch k with
      | some o => (dT + nzCount isZ o.dropped, dZ + zCount isZ o.dropped,
                   nzCount isZ o.leaked, zCount isZ o.leaked)
      | none => (dT + nzCount isZ perArch.flatten, dZ + zCount isZ perArch.flatten, 0, 0) := by
  induction perArch generalizing k dT dZ with
  | nil => simp [cloneFaultCounts, cloneFault, nzCount, zCount]
  | cons a rest ih =>
    unfold cloneFaultCounts cloneFault
    by_cases hk : k < nzCount isZ a
    · have hk' : k < (a.filter (fun v => !isZ v)).length := hk
      simp only [hk, hk', if_true]
      rw [cloneFaultPre_eq isZ a k 0 0 hk]
      simp [nzCount, zCount]
    · have hk' : ¬ k < (a.filter (fun v => !isZ v)).length := hk
      simp only [hk, hk', if_false]
      have hl := length_eq_nz_add_z isZ a
      have hnz : (a.filter (fun v => !isZ v)).length = nzCount isZ a := rfl
      rw [ih, hnz]
      cases hc : cloneFault isZ rest (k - nzCount isZ a) with
      | none =>
        simp only [Option.map_none, List.flatten_cons]
        simp only [nzCount, zCount, List.filter_append, List.length_append] at hl ⊢
        refine Prod.ext ?_ (Prod.ext ?_ rfl) <;> simp <;> omega
      | some o =>
        simp only [Option.map_some]
        simp only [nzCount, zCount, List.filter_append, List.length_append] at hl ⊢
        refine Prod.ext ?_ (Prod.ext ?_ rfl) <;> simp <;> omega

/-- The four numbers computed by the driver's `split`/`pre` are the non-zst / zst counts of the
model's `dropped` and `leaked` lists (fault case), for all inputs. -/
theorem cloneFault_counts (isZ : α → Bool) (perArch : List (List α)) (k : Nat)
    (o : FaultOutcome α) (h : cloneFault isZ perArch k = some o) :
    cloneFaultCounts isZ perArch k 0 0 =
      ((o.dropped.filter (fun v => !isZ v)).length, (o.dropped.filter isZ).length,
       (o.leaked.filter (fun v => !isZ v)).length, (o.leaked.filter isZ).length) := by
  rw [cloneFaultCounts_eq, h]; simp [nzCount, zCount]

/-- ... and in the no-fault case (not reached by the driver, which tests `k < expected.length`
first) `split` reports everything as complete. -/
theorem cloneFault_counts_none (isZ : α → Bool) (perArch : List (List α)) (k : Nat)
    (h : cloneFault isZ perArch k = none) :
    cloneFaultCounts isZ perArch k 0 0 =
      ((perArch.flatten.filter (fun v => !isZ v)).length, (perArch.flatten.filter isZ).length,
       0, 0) := by
  rw [cloneFaultCounts_eq, h]; simp [nzCount, zCount]

theorem dropFaultCut_eq (isZ : α → Bool) (l : List α) (k : Nat) (acc : List α) :
    dropFaultCut isZ l k acc = (acc ++ (dropCut isZ l k).1, (dropCut isZ l k).2) := by
  induction l generalizing k acc with
  | nil => simp [dropFaultCut, dropCut]
  | cons v l ih =>
    unfold dropFaultCut dropCut
    cases hv : isZ v with
    | true => simp [ih]
    | false =>
      cases k with
      | zero => simp
      | succ k => simp [ih]

/-- Once the fault has been hit (`hit = true`), everything else is dropped. -/
theorem dropFaultDriver_hit (isZ : α → Bool) (archs : List (List α)) (k : Nat)
    (dr : List α) (lT lZ : Nat) :
    dropFaultDriver isZ archs k true dr lT lZ = (dr ++ archs.flatten, lT, lZ) := by
  induction archs generalizing k dr with
  | nil => simp [dropFaultDriver]
  | cons a rest ih => simp [dropFaultDriver, ih]

/-- General form (arbitrary accumulators), both cases. -/
theorem dropFaultDriver_eq (isZ : α → Bool) (perArch : List (List α)) (k : Nat)
    (dr : List α) (lT lZ : Nat) :
    dropFaultDriver isZ perArch k false dr lT lZ =
      match dropFault isZ perArch k with
      | some o => (dr ++ o.dropped, lT + nzCount isZ o.leaked, lZ + zCount isZ o.leaked)
      | none => (dr ++ perArch.flatten, lT, lZ) := by
  induction perArch generalizing k dr lT lZ with
  | nil => simp [dropFaultDriver, dropFault]
  | cons a rest ih =>
    unfold dropFaultDriver dropFault
    by_cases hk : k < nzCount isZ a
    · have hk' : ¬ (a.filter (fun v => !isZ v)).length ≤ k := by
        have : (a.filter (fun v => !isZ v)).length = nzCount isZ a := rfl
        omega
      simp only [hk, if_true, Bool.false_or, ge_iff_le, decide_eq_true_eq, hk', if_false]
      rw [dropFaultCut_eq]
      simp [dropFaultDriver_hit, nzCount, zCount]
    · have hk' : (a.filter (fun v => !isZ v)).length ≤ k := by
        have : (a.filter (fun v => !isZ v)).length = nzCount isZ a := rfl
        omega
      have hnz : (a.filter (fun v => !isZ v)).length = nzCount isZ a := rfl
      simp only [hk, if_false, Bool.false_or, ge_iff_le, decide_eq_true_eq, hk', if_true]
      rw [ih, hnz]
      cases hc : dropFault isZ rest (k - nzCount isZ a) with
      | none => simp
      | some o => simp

/-- The driver's `go`/`cut` (called with `hit = false`, empty accumulators) compute exactly the
model's `dropped` list and the non-zst / zst counts of its `leaked` list (fault case). -/
theorem dropFault_driver (isZ : α → Bool) (perArch : List (List α)) (k : Nat)
    (o : FaultOutcome α) (h : dropFault isZ perArch k = some o) :
    dropFaultDriver isZ perArch k false [] 0 0 =
      (o.dropped, (o.leaked.filter (fun v => !isZ v)).length, (o.leaked.filter isZ).length) := by
  rw [dropFaultDriver_eq, h]; simp [nzCount, zCount]

/-- No-fault case (not reached by the driver, which tests `k < nd` first): all dropped. -/
theorem dropFault_driver_none (isZ : α → Bool) (perArch : List (List α)) (k : Nat)
    (h : dropFault isZ perArch k = none) :
    dropFaultDriver isZ perArch k false [] 0 0 = (perArch.flatten, 0, 0) := by
  rw [dropFaultDriver_eq, h]; simp

end Gecs
