/-
Statement-level model of the six `StorageCanResolve` methods (/repo/src/archetype/storage.rs:
`resolve_for`, `resolve_direct`, `resolve_destroy` for `Entity<A>` and for `EntityDirect<A>`) —
the glue between the public `resolve` / `to_direct` / `destroy` of an archetype and the
validating lookups.  Defect F4 (a direct key handed back unvalidated by `to_direct`) lived here.
The statement lists are regenerated from the source on every run (Gecs/Gen/Steps.lean:
`entResolveFor`, `entToDirect`, `entDestroy`, `dirResolveFor`, `dirToDirect`, `dirDestroy`);
the lookups and `force_destroy` they call are run from THEIR extracted lists.
Lemmas/GenKeys.lean: running them is `resolveForEnt`, `toDirectEnt`, `destroyEnt`,
`resolveForDirect`, `toDirectDirect`, `destroyDirect` of Model/Storage.lean.
-/
import Gecs.Model.Steps
import Gecs.Model.ResolveSteps

namespace Gecs

variable {α : Type}

inductive WStep where
  /-- `let (_, dense_index) = self.resolve_entity(entity)?;` -/
  | bindDenseFromResolveEntity
  /-- `let (_, dense_index) = self.resolve_direct(entity)?;` -/
  | bindDenseFromResolveDirect
  /-- `let dense_index_usize = dense_index.into();` -/
  | bindDenseUsize
  /-- `debug_checked_assume!(self.len <= MAX_DATA_CAPACITY as usize);` -/
  | assumeLenLeMax
  /-- `debug_checked_assume!(self.len >= dense_index_usize);` -/
  | assumeLenGeDense
  /-- tail `Some(dense_index_usize)` -/
  | returnSomeDenseUsize
  /-- tail `Some(EntityDirect::new(dense_index, self.version()))` -/
  | returnSomeDirectCurrentVersion
  /-- tail `self.resolve_direct(entity).map(|_| entity)` -/
  | returnResolveDirectMapEntity
  /-- tail `Some(self.force_destroy(self.resolve_entity(entity)?))` -/
  | returnSomeForceDestroyResolveEntity
  /-- tail `Some(self.force_destroy(self.resolve_direct(entity)?))` -/
  | returnSomeForceDestroyResolveDirect
  | unknown
deriving DecidableEq, Repr, Inhabited

/-- The key a method is called with. -/
inductive SKey where
  | ent (e : Ent)
  | direct (d v : Nat)
deriving DecidableEq, Repr

/-- What a method returns inside `Some`. -/
inductive WVal (α : Type) where
  | dense (d : Nat)
  | direct (d v : Nat)
  | comps (r : List α)
deriving Repr

/-- Extracted bodies the glue calls. -/
structure Lookups where
  slots : SlotBodies
  resolveEntity : List REStep
  resolveDirect : List RDStep
  destroy : List DStep

structure WEnv where
  dense : Option Nat := none
  denseUsize : Option Nat := none

def lookupEntity (cfg : Cfg) (L : Lookups) (s : Storage α) : SKey → Out (Storage α) (Option (Nat × Nat))
  | .ent e => execResolveEntity cfg L.resolveEntity s e
  | .direct _ _ => .ub "resolve_entity called with a direct key (does not type-check)"

def lookupDirect (cfg : Cfg) (L : Lookups) (s : Storage α) : SKey → Out (Storage α) (Option (Nat × Nat))
  | .direct d v => execResolveDirect cfg L.resolveDirect s d v
  | .ent _ => .ub "inherent resolve_direct called with a slot-map key (does not type-check)"

def destroyAt (cfg : Cfg) (L : Lookups) (s : Storage α) (r : Out (Storage α) (Option (Nat × Nat))) :
    Out (Storage α) (Option (WVal α)) :=
  match r with
  | .ok (some (si, d)) _ =>
    (match execDestroy cfg L.slots L.destroy s si d with
    | .ok row s' => .ok (some (.comps row)) s'
    | .panic m s' => .panic m s'
    | .ub m => .ub m)
  | .ok none _ => .ok none s
  | .panic m s' => .panic m s'
  | .ub m => .ub m

def runW (cfg : Cfg) (L : Lookups) (k : SKey) : List WStep → Storage α → WEnv → Out (Storage α) (Option (WVal α))
  | [], _, _ => .ub "StorageCanResolve method: body ends without returning"
  | .bindDenseFromResolveEntity :: rest, s, env =>
    (match lookupEntity cfg L s k with
    | .ok (some (_, d)) _ => runW cfg L k rest s { env with dense := some d }
    | .ok none _ => .ok none s
    | .panic m s' => .panic m s'
    | .ub m => .ub m)
  | .bindDenseFromResolveDirect :: rest, s, env =>
    (match lookupDirect cfg L s k with
    | .ok (some (_, d)) _ => runW cfg L k rest s { env with dense := some d }
    | .ok none _ => .ok none s
    | .panic m s' => .panic m s'
    | .ub m => .ub m)
  | .bindDenseUsize :: rest, s, env =>
    (match env.dense with
    | some d => runW cfg L k rest s { env with denseUsize := some d }
    | none => .ub "dense_index read before it is bound")
  | .assumeLenLeMax :: rest, s, env =>
    if s.len ≤ cfg.maxCap then runW cfg L k rest s env
    else if cfg.debug then .panic "debug_checked_assume" s else .ub "resolve_for: debug_checked_assume violated"
  | .assumeLenGeDense :: rest, s, env =>
    (match env.denseUsize with
    | some d => if d ≤ s.len then runW cfg L k rest s env
                else if cfg.debug then .panic "debug_checked_assume" s else .ub "resolve_for: debug_checked_assume violated"
    | none => .ub "dense_index_usize read before it is bound")
  | .returnSomeDenseUsize :: _, s, env =>
    (match env.denseUsize with
    | some d => .ok (some (.dense d)) s
    | none => .ub "dense_index_usize read before it is bound")
  | .returnSomeDirectCurrentVersion :: _, s, env =>
    (match env.dense with
    | some d => .ok (some (.direct d s.version)) s
    | none => .ub "dense_index read before it is bound")
  | .returnResolveDirectMapEntity :: _, s, _ =>
    (match k, lookupDirect cfg L s k with
    | .direct d v, .ok (some _) _ => .ok (some (.direct d v)) s
    | _, .ok (some _) _ => .ub "map(|_| entity) over a slot-map key"
    | _, .ok none _ => .ok none s
    | _, .panic m s' => .panic m s'
    | _, .ub m => .ub m)
  | .returnSomeForceDestroyResolveEntity :: _, s, _ => destroyAt cfg L s (lookupEntity cfg L s k)
  | .returnSomeForceDestroyResolveDirect :: _, s, _ => destroyAt cfg L s (lookupDirect cfg L s k)
  | .unknown :: _, _, _ => .ub "untranslated statement in a StorageCanResolve method"

def execKey (cfg : Cfg) (L : Lookups) (steps : List WStep) (s : Storage α) (k : SKey) :
    Out (Storage α) (Option (WVal α)) := runW cfg L k steps s {}

/-- Lift a model result into `WVal`. -/
def Out.mapSome {σ β γ : Type} (f : β → γ) : Out σ (Option β) → Out σ (Option γ)
  | .ok r s => .ok (r.map f) s
  | .panic m s => .panic m s
  | .ub m => .ub m

end Gecs
