/-
L1 storage model.  Mirrors /repo/src/archetype/storage.rs (StorageN), slot.rs, version.rs,
index.rs statement by statement.  Import-free (core Lean only) so that the driver links as
a `lean_exe`.

Conventions
* `Out.ub` is returned wherever the Rust code would execute an unchecked access
  (`get_unchecked`, `unwrap_unchecked`, `slice(len)`, `swap_remove`, `debug_checked_assume!`)
  whose `// SAFETY:` precondition does not hold in the model state.
* `Out.panic` carries the state at the point of the panic.
* Dense arrays (`ents`, `cols`) hold the *initialised prefix* only; `len` is a separate
  field, as in the code.  `slots` holds all `capacity` cells.
-/
namespace Gecs

inductive SIdx where
  | data (i : Nat)
  | free (next : Nat)
  | freeEnd
deriving DecidableEq, Repr, Inhabited

def SIdx.isFree : SIdx → Bool
  | .data _ => false
  | _ => true

structure Slot where
  idx : SIdx
  ver : Nat
deriving DecidableEq, Repr, Inhabited

/-- `Entity<A>`: (slot index, slot generation).  The archetype is the static type. -/
structure Ent where
  slot : Nat
  ver : Nat
deriving DecidableEq, Repr, Inhabited

/-- index.rs / version.rs constants, crate features and build profile. -/
structure Cfg where
  maxCap : Nat      -- MAX_DATA_CAPACITY
  vmax : Nat        -- u32::MAX
  wrapping : Bool   -- feature "wrapping_version"
  events : Bool     -- feature "events"
  debug : Bool      -- debug assertions on
deriving Repr, DecidableEq

structure Storage (α : Type) where
  version : Nat
  len : Nat
  capacity : Nat
  freeHead : SIdx
  slots : List Slot
  ents : List Ent
  cols : List (List α)
  created : List Ent
  destroyed : List Ent
deriving Repr

inductive Out (σ : Type) (β : Type) where
  | ok (b : β) (s : σ)
  | panic (msg : String) (s : σ)
  | ub (msg : String)
deriving Repr

def Out.isUb {σ β : Type} : Out σ β → Bool
  | .ub _ => true
  | _ => false

variable {α : Type}

def VERSION_START : Nat := 1

/-- slot.rs `Slot::populate_free_list`: cells `start..n-1` become a fresh chain
`start → start+1 → … → n-1 → end`, cells below `start` are kept. -/
def populate (start n : Nat) (old : List Slot) : List Slot × SIdx :=
  if n > 0 then
    ((List.range n).map (fun i =>
        if i < start then old.getD i ⟨.freeEnd, 0⟩
        else if i + 1 < n then ⟨.free (i + 1), VERSION_START⟩ else ⟨.freeEnd, VERSION_START⟩),
     .free start)
  else ([], .freeEnd)

def emptyStorage (ncols : Nat) : Storage α :=
  ⟨VERSION_START, 0, 0, .freeEnd, [], [], List.replicate ncols [], [], []⟩

/-- `StorageN::with_capacity`. -/
def withCapacity (cfg : Cfg) (ncols cap : Nat) : Out (Storage α) Unit :=
  if cap > cfg.maxCap then .panic "capacity may not exceed" (emptyStorage ncols)
  else
    let p := populate 0 cap []
    .ok () ⟨VERSION_START, 0, cap, p.2, p.1, [], List.replicate ncols [], [], []⟩

/-- version.rs `SlotVersion::next` / `ArchetypeVersion::next`:
checked (`none` = panic) or wrapping back to `VERSION_START`. -/
def nextVer (cfg : Cfg) (v : Nat) : Option Nat :=
  if v < cfg.vmax then some (v + 1)
  else if cfg.wrapping then some VERSION_START else none

/-- `StorageN::resolve_entity`. -/
def resolveEntity (cfg : Cfg) (s : Storage α) (e : Ent) : Out (Storage α) (Option (Nat × Nat)) :=
  if s.len = 0 then .ok none s
  else if e.slot ≥ s.capacity then
    (if cfg.debug then .panic "debug_assert: invalid entity handle" s else .ok none s)
  else match s.slots[e.slot]? with
    | none => .ub "resolve_entity: slots.get_unchecked out of bounds"
    | some sl =>
      if sl.ver ≠ e.ver || sl.idx.isFree then .ok none s
      else match sl.idx with
        | .data d =>
          if cfg.debug then
            (if d < s.len then
              match s.ents[d]? with
              | none => .ub "resolve_entity(debug): entities.get_unchecked out of bounds"
              | some l => if l = e then .ok (some (e.slot, d)) s
                          else .panic "debug_assert: lookup mismatch" s
             else .panic "debug_assert: dense_index < len" s)
          else .ok (some (e.slot, d)) s
        | _ => .ub "resolve_entity: unwrap_unchecked on a free index"

/-- `StorageN::resolve_direct` (the inherent, validating one). -/
def resolveDirect (cfg : Cfg) (s : Storage α) (d v : Nat) : Out (Storage α) (Option (Nat × Nat)) :=
  if s.len = 0 then .ok none s
  else if v ≠ s.version then .ok none s
  else if d ≥ s.len then
    (if cfg.debug then .panic "debug_assert: invalid entity handle" s else .ok none s)
  else match s.ents[d]? with
    | none => .ub "resolve_direct: entities.get_unchecked out of bounds"
    | some e =>
      if cfg.debug then
        (if e.slot < s.capacity then
          match s.slots[e.slot]? with
          | none => .ub "resolve_direct(debug): slots.get_unchecked out of bounds"
          | some sl => if sl.ver = e.ver ∧ sl.idx.isFree = false then .ok (some (e.slot, d)) s
                       else .panic "debug_assert: slot mismatch" s
         else .panic "debug_assert: slot_index < capacity" s)
      else .ok (some (e.slot, d)) s

/-- The code's own growth formula (diagnostic only; theorems are parametric in growth). -/
def codeGrowth (cfg : Cfg) (cap : Nat) : Nat := min ((cap + 1) * 2) cfg.maxCap

/-- `StorageN::grow` with the new capacity `nc` supplied (by the growth function / as a
witness observed on the implementation).  `none` = "out of room to grow". -/
def grow (cfg : Cfg) (s : Storage α) (nc : Nat) : Option (Storage α) :=
  if s.capacity ≥ cfg.maxCap then none
  else
    let p := populate s.len nc s.slots
    some { s with slots := p.1, freeHead := p.2, capacity := nc }

/-- `StorageN::force_create`.  `row` has one value per column. -/
def forceCreate (cfg : Cfg) (s : Storage α) (row : List α) : Out (Storage α) Ent :=
  match s.freeHead with
  | .free si =>
    match s.slots[si]? with
    | none => .ub "force_create: slots.get_unchecked_mut out of bounds"
    | some sl =>
      if s.len < cfg.maxCap then
        let e : Ent := ⟨si, sl.ver⟩
        .ok e { s with
          freeHead := sl.idx
          slots := s.slots.set si ⟨.data s.len, sl.ver⟩
          len := s.len + 1
          ents := s.ents ++ [e]
          cols := List.zipWith (fun c x => c ++ [x]) s.cols row
          created := if cfg.events then s.created ++ [e] else s.created }
      else .ub "force_create: TrimmedIndex::new_usize(len).unwrap_unchecked()"
  | _ => .ub "force_create: free_head.index_free().unwrap_unchecked() at list end"

/-- `StorageN::push` (= `Archetype::create`).  `g` is the growth function. -/
def push (cfg : Cfg) (g : Nat → Nat) (s : Storage α) (row : List α) : Out (Storage α) Ent :=
  if s.len ≥ s.capacity then
    match grow cfg s (g s.capacity) with
    | none => .panic "capacity overflow" s
    | some s' => forceCreate cfg s' row
  else forceCreate cfg s row

/-- `StorageN::push_within_capacity`; `none` = `Err(data)`. -/
def pushWithin (cfg : Cfg) (s : Storage α) (row : List α) : Out (Storage α) (Option Ent) :=
  if s.len ≥ s.capacity then .ok none s
  else match forceCreate cfg s row with
    | .ok e s' => .ok (some e) s'
    | .panic m s' => .panic m s'
    | .ub m => .ub m

/-- `DataPtr::swap_remove(index, len)` on the initialised prefix. -/
def swapRemove {β : Type} (l : List β) (i : Nat) : List β :=
  match l.getLast? with
  | none => l
  | some x => (l.set i x).dropLast

/-- `StorageN::force_destroy((slot_index, dense_index))`, in the order of the repaired code:
both next versions (the only panicking steps) are computed before anything is modified. -/
def forceDestroy (cfg : Cfg) (s : Storage α) (si d : Nat) : Out (Storage α) (List α) :=
  if s.ents.length ≠ s.len ∨ d ≥ s.len ∨ (s.cols.any (fun c => c.length != s.len)) then
    .ub "force_destroy: entities/columns not valid up to len, or dense index out of range"
  else
  match s.slots[si]?, s.ents[d]?, s.ents[s.len - 1]? with
  | some sl, some tgt, some lastE =>
    match nextVer cfg sl.ver, nextVer cfg s.version with
    | none, _ => .panic "slot version overflow" s
    | some _, none => .panic "arch version overflow" s
    | some sv, some av =>
      match s.slots[lastE.slot]? with
      | none => .ub "force_destroy: slots.get_unchecked_mut(last_slot_index) out of bounds"
      | some lsl =>
        let slots1 := s.slots.set lastE.slot ⟨.data d, lsl.ver⟩
        let slots2 := slots1.set si ⟨s.freeHead, sv⟩
        .ok (s.cols.filterMap (fun c => c[d]?)) { s with
          ents := swapRemove s.ents d
          cols := s.cols.map (fun c => swapRemove c d)
          slots := slots2
          version := av
          freeHead := .free si
          len := s.len - 1
          destroyed := if cfg.events then s.destroyed ++ [tgt] else s.destroyed }
  | _, _, _ => .ub "force_destroy: slot or dense index out of bounds"

/-- `force_destroy` in the statement order of the pinned (pre-fix) tree: the two overflow
panics fire after the swap-remove, event push and slot fix-up, before `free_head`/`len` are
updated.  Kept as a regression witness for defect F1 (see Props/C10). -/
def forceDestroyPreFix (cfg : Cfg) (s : Storage α) (si d : Nat) : Out (Storage α) (List α) :=
  if s.ents.length ≠ s.len ∨ d ≥ s.len ∨ (s.cols.any (fun c => c.length != s.len)) then
    .ub "force_destroy: entities/columns not valid up to len, or dense index out of range"
  else
  match s.slots[si]?, s.ents[d]?, s.ents[s.len - 1]? with
  | some sl, some tgt, some lastE =>
    match s.slots[lastE.slot]? with
    | none => .ub "force_destroy: slots.get_unchecked_mut(last_slot_index) out of bounds"
    | some lsl =>
      let s1 : Storage α := { s with
        destroyed := if cfg.events then s.destroyed ++ [tgt] else s.destroyed
        ents := swapRemove s.ents d
        cols := s.cols.map (fun c => swapRemove c d)
        slots := s.slots.set lastE.slot ⟨.data d, lsl.ver⟩ }
      match nextVer cfg sl.ver with
      | none => .panic "slot version overflow" { s1 with slots := s1.slots.set si ⟨s.freeHead, sl.ver⟩ }
      | some sv =>
        let s2 : Storage α := { s1 with slots := s1.slots.set si ⟨s.freeHead, sv⟩ }
        match nextVer cfg s.version with
        | none => .panic "arch version overflow" s2
        | some av =>
          .ok (s.cols.filterMap (fun c => c[d]?)) { s2 with
            version := av, freeHead := .free si, len := s.len - 1 }
  | _, _, _ => .ub "force_destroy: slot or dense index out of bounds"

/-- `StorageCanResolve<Entity<A>>::resolve_destroy`. -/
def destroyEnt (cfg : Cfg) (s : Storage α) (e : Ent) : Out (Storage α) (Option (List α)) :=
  match resolveEntity cfg s e with
  | .ok (some (si, d)) _ =>
    (match forceDestroy cfg s si d with
    | .ok r s' => .ok (some r) s'
    | .panic m s' => .panic m s'
    | .ub m => .ub m)
  | .ok none _ => .ok none s
  | .panic m s' => .panic m s'
  | .ub m => .ub m

/-- `StorageCanResolve<EntityDirect<A>>::resolve_destroy`. -/
def destroyDirect (cfg : Cfg) (s : Storage α) (d v : Nat) : Out (Storage α) (Option (List α)) :=
  match resolveDirect cfg s d v with
  | .ok (some (si, d')) _ =>
    (match forceDestroy cfg s si d' with
    | .ok r s' => .ok (some r) s'
    | .panic m s' => .panic m s'
    | .ub m => .ub m)
  | .ok none _ => .ok none s
  | .panic m s' => .panic m s'
  | .ub m => .ub m

/-- `StorageCanResolve<Entity<A>>::resolve_for` (dense index) -/
def resolveForEnt (cfg : Cfg) (s : Storage α) (e : Ent) : Out (Storage α) (Option Nat) :=
  match resolveEntity cfg s e with
  | .ok (some (_, d)) _ =>
    -- debug_checked_assume!(self.len <= MAX_DATA_CAPACITY); debug_checked_assume!(self.len >= dense)
    if s.len ≤ cfg.maxCap ∧ d ≤ s.len then .ok (some d) s
    else if cfg.debug then .panic "debug_checked_assume" s else .ub "resolve_for: debug_checked_assume violated"
  | .ok none _ => .ok none s
  | .panic m s' => .panic m s'
  | .ub m => .ub m

def resolveForDirect (cfg : Cfg) (s : Storage α) (d v : Nat) : Out (Storage α) (Option Nat) :=
  match resolveDirect cfg s d v with
  | .ok (some (_, d')) _ =>
    if s.len ≤ cfg.maxCap ∧ d' ≤ s.len then .ok (some d') s
    else if cfg.debug then .panic "debug_checked_assume" s else .ub "resolve_for: debug_checked_assume violated"
  | .ok none _ => .ok none s
  | .panic m s' => .panic m s'
  | .ub m => .ub m

/-- `StorageCanResolve<Entity<A>>::resolve_direct`: the direct handle `(dense, version)`. -/
def toDirectEnt (cfg : Cfg) (s : Storage α) (e : Ent) : Out (Storage α) (Option (Nat × Nat)) :=
  match resolveEntity cfg s e with
  | .ok (some (_, d)) _ => .ok (some (d, s.version)) s
  | .ok none _ => .ok none s
  | .panic m s' => .panic m s'
  | .ub m => .ub m

/-- `StorageCanResolve<EntityDirect<A>>::resolve_direct` (repaired: validates first). -/
def toDirectDirect (cfg : Cfg) (s : Storage α) (d v : Nat) : Out (Storage α) (Option (Nat × Nat)) :=
  match resolveDirect cfg s d v with
  | .ok (some _) _ => .ok (some (d, v)) s
  | .ok none _ => .ok none s
  | .panic m s' => .panic m s'
  | .ub m => .ub m

/-- Reading row `d` through `slice(len).get_unchecked(d)` of every column
(`get_view_mut`, `Borrow::component`, slices). -/
def readRow (s : Storage α) (d : Nat) : Option (List α) :=
  if d < s.len ∧ s.cols.all (fun c => c.length == s.len) then
    some (s.cols.filterMap (fun c => c[d]?))
  else none

/-- Writing one cell through a mutable path. -/
def writeCell (s : Storage α) (d c : Nat) (x : α) : Storage α :=
  { s with cols := s.cols.modify c (fun col => col.set d x) }

/-- `Clone for StorageN`: copies all `capacity` slots, the `len`-prefix of handles and
columns, the scalar fields and the event vectors.  `cl` is the user `Clone::clone`. -/
def cloneStorage (cl : α → α) (s : Storage α) : Out (Storage α) (Storage α) :=
  if s.slots.length < s.capacity ∨ s.ents.length < s.len ∨ s.cols.any (fun c => c.length < s.len) then
    .ub "clone: slots not valid to capacity or data not valid to len"
  else
    .ok { s with
      slots := s.slots.take s.capacity
      ents := s.ents.take s.len
      cols := s.cols.map (fun c => (c.take s.len).map cl) } s

/-- `Drop for StorageN`: values dropped, in the code's order (column-major, `0..len`). -/
def dropStorage (s : Storage α) : Out Unit (List α) :=
  if s.cols.any (fun c => c.length < s.len) then .ub "drop: data not valid to len"
  else .ok (s.cols.flatMap (fun c => c.take s.len)) ()

/-- `clear_events`. -/
def clearEvents (s : Storage α) : Storage α := { s with created := [], destroyed := [] }

/-- Hook H2 `verif_preset_versions` (only on an empty storage). -/
def presetVersions (s : Storage α) (sv av : Nat) : Option (Storage α) :=
  if s.len = 0 ∧ 1 ≤ sv ∧ 1 ≤ av then
    some { s with slots := s.slots.map (fun sl => { sl with ver := sv }), version := av }
  else none

end Gecs
