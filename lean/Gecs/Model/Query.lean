/-
L1 query model: the loops emitted by macros/src/generate/query.rs
(`ecs_find!`, `ecs_iter!`, `ecs_iter_destroy!` and the `_borrow` variants, whose data
semantics are the same; their RefCell behaviour is modelled in Borrow.lean).
User closures are arbitrary deterministic state machines.  Import-free.
-/
import Gecs.Model.World

namespace Gecs

/-- A query parameter after binding, for one matched archetype. -/
inductive Param where
  | comp (col : Nat) (isMut : Bool)   -- `&C` / `&mut C` bound to this archetype's column
  | ent                                 -- `&Entity<A>` / `&Entity<_>`
  | entAny                              -- `&EntityAny`
  | dir                                 -- `&EntityDirect<A>` / `&EntityDirect<_>`
  | dirAny                              -- `&EntityDirectAny`
deriving DecidableEq, Repr, Inhabited

structure QArch where
  a : Nat
  params : List Param
deriving Repr, Inhabited

/-- Matched archetypes, in declaration order, each with its bound parameters. -/
abbrev Query := List QArch

/-- What the closure receives for one parameter. -/
inductive Arg (α : Type) where
  | comp (isMut : Bool) (x : α)
  | ent (k : Key)      -- words of the Entity / EntityAny
  | dir (k : Key)      -- words of the EntityDirect / EntityDirectAny
deriving Repr

inductive CallRes (σ α ρ : Type) where
  | ret (st : σ) (writes : List (Option α)) (r : ρ)
  | panic (st : σ) (writes : List (Option α))

/-- A user closure: own state, arguments ↦ new state, values written through `&mut`
parameters (positionally, `none` = untouched), and a result or a panic. -/
abbrev Closure (σ α ρ : Type) := σ → List (Arg α) → CallRes σ α ρ

inductive Step where
  | cont | brk
deriving DecidableEq, Repr, Inhabited

inductive Step4 where
  | cont | brk | contDestroy | brkDestroy
deriving DecidableEq, Repr, Inhabited

variable {α σ : Type}

/-- Arguments bound for dense index `idx` (`slices.x[idx]`, `slices.entity[idx]`,
`new_entity_direct::<A>(idx, version)`); `none` if an index is out of the slice. -/
def bindArgs (idA : Nat) (s : Storage α) (version idx : Nat) : List Param → Option (List (Arg α))
  | [] => some []
  | p :: ps =>
    let a : Option (Arg α) :=
      match p with
      | .comp c m => ((s.cols.getD c [])[idx]?).map (Arg.comp m)
      | .ent | .entAny => (s.ents[idx]?).map (fun e => Arg.ent (mkKey e.slot idA e.ver))
      | .dir | .dirAny => some (Arg.dir (mkKey idx idA version))
    match a, bindArgs idA s version idx ps with
    | some a, some as => some (a :: as)
    | _, _ => none

/-- Apply the closure's writes to the `&mut` component parameters. -/
def applyWrites (s : Storage α) (idx : Nat) : List Param → List (Option α) → Storage α
  | .comp c true :: ps, some x :: ws => applyWrites (writeCell s idx c x) idx ps ws
  | _ :: ps, _ :: ws => applyWrites s idx ps ws
  | _, _ => s

inductive LoopOut (σ α : Type) where
  | done (st : σ) (s : Storage α)        -- ran to the end of this archetype
  | stop (st : σ) (s : Storage α)        -- closure returned Break: end the whole query
  | panic (msg : String) (st : σ) (s : Storage α)
  | ub (msg : String)

/-- `for idx in 0..len` of `ecs_iter!` over one archetype; `version` read before the loop. -/
def iterLoop (idA : Nat) (ps : List Param) (f : Closure σ α Step) (version : Nat) :
    List Nat → σ → Storage α → LoopOut σ α
  | [], st, s => .done st s
  | idx :: rest, st, s =>
    match bindArgs idA s version idx ps with
    | none => .panic "index out of bounds" st s
    | some args =>
      match f st args with
      | .panic st' ws => .panic "closure" st' (applyWrites s idx ps ws)
      | .ret st' ws .brk => .stop st' (applyWrites s idx ps ws)
      | .ret st' ws .cont => iterLoop idA ps f version rest st' (applyWrites s idx ps ws)

/-- Precondition of `get_all_slices_mut` / `get_slice_entities`: data valid up to `len`. -/
def slicesValid (cfg : Cfg) (s : Storage α) : Bool :=
  s.ents.length == s.len && s.cols.all (fun c => c.length == s.len) && decide (s.len ≤ cfg.maxCap)

inductive QOut (σ α : Type) where
  | ok (st : σ) (w : World α)
  | panic (msg : String) (st : σ) (w : World α)
  | ub (msg : String)

/-- `ecs_iter!` / `ecs_iter_borrow!`. -/
def iterQuery (cfg : Cfg) (f : Closure σ α Step) : Query → σ → World α → QOut σ α
  | [], st, w => .ok st w
  | qa :: rest, st, w =>
    match w.archs[qa.a]? with
    | none => .ub "no such archetype"
    | some s =>
      if slicesValid cfg s then
        match iterLoop (w.ids.getD qa.a ID_RANGE) qa.params f s.version (List.range s.len) st s with
        | .done st' s' => iterQuery cfg f rest st' (w.setArch qa.a s')
        | .stop st' s' => .ok st' (w.setArch qa.a s')
        | .panic m st' s' => .panic m st' (w.setArch qa.a s')
        | .ub m => .ub m
      else .ub "get_all_slices_mut: data not valid up to len"

/-- `for idx in (0..len).rev()` of `ecs_iter_destroy!` over one archetype (repaired order:
`version` is re-read at each step, slices are re-fetched at each step). -/
def destroyLoop (cfg : Cfg) (idA : Nat) (ps : List Param) (f : Closure σ α Step4) :
    List Nat → σ → Storage α → LoopOut σ α
  | [], st, s => .done st s
  | idx :: rest, st, s =>
    if slicesValid cfg s then
      match bindArgs idA s s.version idx ps with
      | none => .panic "index out of bounds" st s
      | some args =>
        match f st args with
        | .panic st' ws => .panic "closure" st' (applyWrites s idx ps ws)
        | .ret st' ws r =>
          let s1 := applyWrites s idx ps ws
          match r with
          | .cont => destroyLoop cfg idA ps f rest st' s1
          | .brk => .stop st' s1
          | .contDestroy | .brkDestroy =>
            match s1.ents[idx]? with
            | none => .panic "index out of bounds" st' s1
            | some e =>
              match destroyEnt cfg s1 e with
              | .ok _ s2 => if r = .brkDestroy then .stop st' s2 else destroyLoop cfg idA ps f rest st' s2
              | .panic m s2 => .panic m st' s2
              | .ub m => .ub m
    else .ub "get_all_slices_mut: data not valid up to len"

/-- `ecs_iter_destroy!`. -/
def iterDestroyQuery (cfg : Cfg) (f : Closure σ α Step4) : Query → σ → World α → QOut σ α
  | [], st, w => .ok st w
  | qa :: rest, st, w =>
    match w.archs[qa.a]? with
    | none => .ub "no such archetype"
    | some s =>
      match destroyLoop cfg (w.ids.getD qa.a ID_RANGE) qa.params f (List.range s.len).reverse st s with
      | .done st' s' => iterDestroyQuery cfg f rest st' (w.setArch qa.a s')
      | .stop st' s' => .ok st' (w.setArch qa.a s')
      | .panic m st' s' => .panic m st' (w.setArch qa.a s')
      | .ub m => .ub m

inductive FOut (σ α ρ : Type) where
  | ok (r : Option ρ) (st : σ) (w : World α)
  | panic (msg : String) (st : σ) (w : World α)
  | ub (msg : String)

/-- `ecs_find!` / `ecs_find_borrow!`: route the key, `_ => None` for unmatched archetypes,
`archetype.view(entity).map(|found| closure(..))`. -/
def findQuery {ρ : Type} (cfg : Cfg) (q : Query) (f : Closure σ α ρ) (h : Handle) (st : σ)
    (w : World α) : FOut σ α ρ :=
  match routeWorld cfg w.ids h with
  | .absent => .ok none st w
  | .panic m => .panic m st w
  | .arch a k =>
    match q.find? (fun qa => qa.a == a) with
    | none => .ok none st w      -- `_ => None`
    | some qa =>
      match w.archs[a]? with
      | none => .ub "no such archetype"
      | some s =>
        match storageResolve cfg s h.kind.isDirect k with
        | .ub m => .ub m
        | .panic m _ => .panic m st w
        | .ok none _ => .ok none st w
        | .ok (some d) _ =>
          if slicesValid cfg s then
            match bindArgs (w.ids.getD a ID_RANGE) s s.version d qa.params with
            | none => .ub "view: get_unchecked(index) out of the valid region"
            | some args =>
              match f st args with
              | .panic st' ws => .panic "closure" st' (w.setArch a (applyWrites s d qa.params ws))
              | .ret st' ws r => .ok (some r) st' (w.setArch a (applyWrites s d qa.params ws))
          else .ub "view: data not valid up to len"

end Gecs
