/-
The world-level key dispatch the macros generate (/repo/macros/src/generate/world.rs, inside the
big `quote!` of `generate_world`): the twelve `WorldCanResolve<K>` methods (`resolve_contains`,
`resolve_direct`, `resolve_destroy` for `Entity<A>`, `EntityDirect<A>`, `EntityAny`,
`EntityDirectAny`) and the `TryFrom<EntityAny> for SelectEntity` /
`TryFrom<EntityDirectAny> for SelectEntityDirect` conversions they go through.  Their bodies are
regenerated from the source on every run (Gecs/Gen/Steps.lean: `worldRows`, `worldTryFrom`),
classified into a small set of shapes; this file reads the tables as a routing function;
Lemmas/GenDispatch.lean proves it is the model's `routeWorld` (Model/World.lean): a typed key goes
to ITS archetype with the SAME operation, a dynamic key is matched on its archetype id against
every archetype's `ARCHETYPE_ID`, converted with `from_any_unchecked`, handed to THAT archetype
with the same operation, and an unknown id panics with "invalid entity type".
-/
import Gecs.Model.World

namespace Gecs

inductive DOp where
  | contains | toDirect | destroy | other
deriving DecidableEq, Repr, Inhabited

inductive DKey where
  | entity | entityDirect | entityAny | entityDirectAny | other
deriving DecidableEq, Repr, Inhabited

inductive DPost where
  /-- the archetype's answer is returned as is -/
  | none
  /-- `.map(|e| e.into())` -/
  | mapInto
  /-- `.map(|_| ())` -/
  | mapUnit
  | unknown
deriving DecidableEq, Repr, Inhabited

inductive DBody where
  /-- `self.archetype::<#Archetype>().OP(entity)` (`archetype_mut` when `mutAccess`) -/
  | typedDelegate (op : DOp) (mutAccess : Bool)
  /-- `match entity.try_into() { #( Ok(SEL::#Archetype(entity)) => self.#archetype.OP(entity)POST, )*
       Err(_) => panic!("invalid entity type"), }`; `sel` = the typed key the `Select…` enum carries -/
  | dynMatch (sel : DKey) (op : DOp) (post : DPost)
  | unknown
deriving DecidableEq, Repr, Inhabited

structure DRow where
  key : DKey
  method : DOp
  body : DBody
deriving DecidableEq, Repr

inductive TFBody where
  /-- `match entity.archetype_id() { #( #Archetype::ARCHETYPE_ID => { Ok(SEL::#Archetype(
       TYPED::<#Archetype>::from_any_unchecked(entity))) }, )* _ => Err(EcsError::InvalidEntityType), }` -/
  | okFromAnyUnchecked (typed : DKey)
  | unknown
deriving DecidableEq, Repr, Inhabited

structure TFRow where
  src : DKey
  /-- the typed key kind carried by the target `Select…` enum -/
  carries : DKey
  body : TFBody
deriving DecidableEq, Repr

def wkeyOf : KeyKind → DKey
  | .ent => .entity
  | .dir => .entityDirect
  | .any => .entityAny
  | .dirAny => .entityDirectAny

def typedOf : DKey → DKey
  | .entityAny => .entity
  | .entityDirectAny => .entityDirect
  | k => k

def postFor : DOp → DPost
  | .contains => .none
  | .toDirect => .mapInto
  | .destroy => .mapUnit
  | .other => .unknown

/-- What the tables prescribe for a key kind and an operation (a closed computation on the
tables alone). -/
inductive Plan where
  /-- straight to the key's own archetype, same operation -/
  | typed
  /-- match on the archetype id, `from_any_unchecked`, that archetype, same operation -/
  | dyn
  | bad (msg : String)
deriving DecidableEq, Repr

def planT (rows : List DRow) (tf : List TFRow) (kind : KeyKind) (op : DOp) : Plan :=
  match rows.find? (fun r => r.key == wkeyOf kind && r.method == op) with
  | none => .bad "no WorldCanResolve method for this key kind"
  | some r =>
    match r.body with
    | .typedDelegate op' m =>
      if op' = op ∧ m = (op == .destroy) ∧ kind.isTyped then .typed
      else .bad "typed method does not delegate the same operation to its archetype"
    | .dynMatch sel op' post =>
      if op' = op ∧ post = postFor op ∧ sel = typedOf (wkeyOf kind) ∧ ¬ kind.isTyped then
        match tf.find? (fun t => t.src == wkeyOf kind && t.carries == sel) with
        | some ⟨_, _, .okFromAnyUnchecked typed⟩ =>
          if typed = sel then .dyn else .bad "TryFrom converts to the wrong typed key"
        | _ => .bad "no TryFrom conversion for this dynamic key"
      else .bad "dynamic method does not dispatch the same operation"
    | .unknown => .bad "untranslated WorldCanResolve body"

/-- Routing a handle for operation `op` through the extracted tables. -/
def routeT (rows : List DRow) (tf : List TFRow) (cfg : Cfg) (ids : List Nat) (h : Handle) (op : DOp) : Route :=
  match planT rows tf h.kind op with
  | .typed => .arch h.a h.key
  | .dyn =>
    (match selectArch ids h.key.archId with
    | none => .panic "invalid entity type"
    | some a =>
      match fromAnyUnchecked cfg (ids.getD a ID_RANGE) h.key with
      | some k => .arch a k
      | none => .panic "debug_assert: from_any_unchecked")
  | .bad m => .panic m

end Gecs
