/-
Statement-level model of `Clone for StorageN` and `Drop for StorageN`
(/repo/src/archetype/storage.rs).  As in Model/Steps.lean every STATEMENT of the two bodies —
and every FIELD INITIALISER of the `Self { … }` literal the clone returns — gets a meaning, an
interpreter runs the lists in order, the lists are regenerated from the source on every run
(Gecs/Gen/Steps.lean) and Lemmas/GenClone.lean proves that running them IS `cloneStorage` /
`dropStorage` of Model/Storage.lean.  What this pins down by translation: the clone copies ALL
`capacity` slots (generations and free list of an emptied storage included), exactly the
`len`-prefix of handles and columns, takes `len`, `version`, `capacity`, `free_head` and both
event logs from `self`, has no early return; the drop runs `drop_to(len)` on every column
before any deallocation.
-/
import Gecs.Model.Steps

namespace Gecs

variable {α : Type}

/-! ## `Clone::clone(&self)` -/

inductive KStep where
  /-- `#(let ref_d~I = self.d~I.borrow();)*` -/
  | borrowColumns
  /-- `let mut new_slots = DataPtr::with_capacity(self.capacity);` -/
  | allocSlots
  /-- `let mut new_entities = DataPtr::with_capacity(self.capacity);` -/
  | allocEntities
  /-- `#(let mut new_d~I = DataPtr::with_capacity(self.capacity);)*` -/
  | allocColumns
  /-- `let old_slots = self.slots.slice(self.capacity);` -/
  | bindOldSlots
  /-- `let old_entities = self.entities.slice(self.len);` -/
  | bindOldEntities
  /-- `#(let old_~I = ref_d~I.slice(self.len);)*` -/
  | bindOldColumns
  /-- `for idx in 0..self.capacity { new_slots.write(idx, old_slots.get_unchecked(idx).clone()); }` -/
  | copySlotsLoop
  /-- `for idx in 0..self.len { new_entities.write(idx, old_entities.get_unchecked(idx).clone());
       #(new_d~I.write(idx, old_~I.get_unchecked(idx).clone());)* }` -/
  | copyRowsLoop
  /-- the tail expression `Self { … }` (its initialisers: `KField`) -/
  | returnSelfLiteral
  | unknown
deriving DecidableEq, Repr, Inhabited

/-- Field initialisers of the returned `Self { … }` literal. -/
inductive KField where
  /-- `len: self.len` -/
  | lenFromSelf
  /-- `version: self.version` -/
  | versionFromSelf
  /-- `capacity: self.capacity` -/
  | capacityFromSelf
  /-- `free_head: self.free_head` -/
  | freeHeadFromSelf
  /-- `slots: new_slots` -/
  | slotsNew
  /-- `entities: new_entities` -/
  | entitiesNew
  /-- `#(d~I: RefCell::new(new_d~I),)*` -/
  | columnsNew
  /-- `#[cfg(feature = "events")] created: self.created.clone()` -/
  | createdClone
  /-- `#[cfg(feature = "events")] destroyed: self.destroyed.clone()` -/
  | destroyedClone
  | unknown
deriving DecidableEq, Repr, Inhabited

structure KEnv (α : Type) where
  borrowed : Bool := false
  /-- allocated capacity of the new arrays -/
  slotsCap : Option Nat := none
  entsCap : Option Nat := none
  colsCap : Option Nat := none
  oldSlots : Option (List Slot) := none
  oldEnts : Option (List Ent) := none
  oldCols : Option (List (List α)) := none
  newSlots : Option (List Slot) := none
  newEnts : Option (List Ent) := none
  newCols : Option (List (List α)) := none

/-- The record under construction: `none` = field not initialised. -/
structure KLit (α : Type) where
  len : Option Nat := none
  version : Option Nat := none
  capacity : Option Nat := none
  freeHead : Option SIdx := none
  slots : Option (List Slot) := none
  ents : Option (List Ent) := none
  cols : Option (List (List α)) := none
  created : Option (List Ent) := none
  destroyed : Option (List Ent) := none

def kfield (s : Storage α) (e : KEnv α) (l : KLit α) : KField → Option (KLit α)
  | .lenFromSelf => some { l with len := some s.len }
  | .versionFromSelf => some { l with version := some s.version }
  | .capacityFromSelf => some { l with capacity := some s.capacity }
  | .freeHeadFromSelf => some { l with freeHead := some s.freeHead }
  | .slotsNew => e.newSlots.map (fun x => { l with slots := some x })
  | .entitiesNew => e.newEnts.map (fun x => { l with ents := some x })
  | .columnsNew => e.newCols.map (fun x => { l with cols := some x })
  | .createdClone => some { l with created := some s.created }
  | .destroyedClone => some { l with destroyed := some s.destroyed }
  | .unknown => none

def kfields (s : Storage α) (e : KEnv α) : List KField → KLit α → Option (KLit α)
  | [], l => some l
  | f :: fs, l => match kfield s e l f with
    | none => none
    | some l' => kfields s e fs l'

/-- A complete literal.  With the `events` feature off the two log fields do not exist in the
Rust struct; the model keeps them (always empty then), so a literal without them stands for
empty logs. -/
def KLit.build (cfg : Cfg) (l : KLit α) : Option (Storage α) :=
  match l.len, l.version, l.capacity, l.freeHead, l.slots, l.ents, l.cols with
  | some len, some version, some capacity, some freeHead, some slots, some ents, some cols =>
    match cfg.events, l.created, l.destroyed with
    | _, some c, some d => some ⟨version, len, capacity, freeHead, slots, ents, cols, c, d⟩
    | false, none, none => some ⟨version, len, capacity, freeHead, slots, ents, cols, [], []⟩
    | _, _, _ => none
  | _, _, _, _, _, _, _ => none

inductive KR (α : Type) where
  | cont (e : KEnv α)
  | ret (c : Storage α)
  | ub (msg : String)

def kstep (cfg : Cfg) (cl : α → α) (fields : List KField) (s : Storage α) (e : KEnv α) : KStep → KR α
  | .borrowColumns => .cont { e with borrowed := true }
  | .allocSlots => .cont { e with slotsCap := some s.capacity }
  | .allocEntities => .cont { e with entsCap := some s.capacity }
  | .allocColumns => .cont { e with colsCap := some s.capacity }
  | .bindOldSlots =>
    if s.slots.length < s.capacity then .ub "clone: slots.slice(capacity) not valid to capacity"
    else .cont { e with oldSlots := some (s.slots.take s.capacity) }
  | .bindOldEntities =>
    if s.ents.length < s.len then .ub "clone: entities.slice(len) not valid to len"
    else .cont { e with oldEnts := some (s.ents.take s.len) }
  | .bindOldColumns =>
    if e.borrowed then
      (if s.cols.any (fun c => c.length < s.len) then .ub "clone: column slice(len) not valid to len"
       else .cont { e with oldCols := some (s.cols.map (fun c => c.take s.len)) })
    else .ub "ref_d read before it is bound"
  | .copySlotsLoop =>
    match e.slotsCap, e.oldSlots with
    | some c, some os => if s.capacity ≤ c then .cont { e with newSlots := some os }
                         else .ub "clone: new_slots.write past its allocation"
    | _, _ => .ub "new_slots / old_slots read before bound"
  | .copyRowsLoop =>
    match e.entsCap, e.colsCap, e.oldEnts, e.oldCols with
    | some ce, some cc, some oe, some oc =>
      if s.len ≤ ce ∧ s.len ≤ cc then
        .cont { e with newEnts := some oe, newCols := some (oc.map (fun c => c.map cl)) }
      else .ub "clone: new_entities / new_d write past its allocation"
    | _, _, _, _ => .ub "new / old arrays read before bound"
  | .returnSelfLiteral =>
    match kfields s e fields {} with
    | some l => match l.build cfg with
      | some c => .ret c
      | none => .ub "clone: Self { … } literal lacks a field"
    | none => .ub "clone: untranslated field initialiser / array read before bound"
  | .unknown => .ub "untranslated statement in clone"

def runK (cfg : Cfg) (cl : α → α) (fields : List KField) (s : Storage α) :
    List KStep → KEnv α → Out (Storage α) (Storage α)
  | [], _ => .ub "clone: body ends without returning"
  | st :: rest, e =>
    match kstep cfg cl fields s e st with
    | .cont e' => runK cfg cl fields s rest e'
    | .ret c => .ok c s
    | .ub m => .ub m

def execClone (cfg : Cfg) (cl : α → α) (steps : List KStep) (fields : List KField) (s : Storage α) :
    Out (Storage α) (Storage α) := runK cfg cl fields s steps {}

/-! ## `Drop::drop(&mut self)` -/

inductive PStep where
  /-- `#(self.d~I.get_mut().drop_to(self.len);)*` -/
  | dropColumnsToLen
  /-- `self.slots.dealloc(self.capacity);` -/
  | deallocSlots
  /-- `self.entities.dealloc(self.capacity);` -/
  | deallocEntities
  /-- `#(self.d~I.get_mut().dealloc(self.capacity);)*` -/
  | deallocColumns
  | unknown
deriving DecidableEq, Repr, Inhabited

structure PEnv (α : Type) where
  dropped : Option (List α) := none
  slotsFreed : Bool := false
  entsFreed : Bool := false
  colsFreed : Bool := false

def pstep (s : Storage α) (e : PEnv α) : PStep → Option (PEnv α) ⊕ String
  | .dropColumnsToLen =>
    if e.colsFreed then .inr "drop: drop_to after the columns were deallocated"
    else if e.dropped.isSome then .inr "drop: drop_to twice (double drop)"
    else if s.cols.any (fun c => c.length < s.len) then .inr "drop: data not valid to len"
    else .inl (some { e with dropped := some (s.cols.flatMap (fun c => c.take s.len)) })
  | .deallocSlots => if e.slotsFreed then .inr "drop: double free" else .inl (some { e with slotsFreed := true })
  | .deallocEntities => if e.entsFreed then .inr "drop: double free" else .inl (some { e with entsFreed := true })
  | .deallocColumns => if e.colsFreed then .inr "drop: double free" else .inl (some { e with colsFreed := true })
  | .unknown => .inr "untranslated statement in drop"

/-- Values dropped by the body; every array must have been deallocated exactly once and the
columns dropped to `len` before that (otherwise a leak — reported as `ub` like every other
departure from the contract, because the model's `dropStorage` has no such outcome). -/
def runP (s : Storage α) : List PStep → PEnv α → Out Unit (List α)
  | [], e =>
    match e.dropped, e.slotsFreed, e.entsFreed, e.colsFreed with
    | some ds, true, true, true => .ok ds ()
    | _, _, _, _ => .ub "drop: body ends with values not dropped or an array not deallocated"
  | st :: rest, e =>
    match pstep s e st with
    | .inl (some e') => runP s rest e'
    | .inl none => .ub "drop: stuck"
    | .inr m => .ub m

def execDrop (steps : List PStep) (s : Storage α) : Out Unit (List α) := runP s steps {}

end Gecs
