/-
Statement-level model of the expansion of `ecs_find!` / `ecs_find_borrow!`: the two `match` arms
`generate_query_find` (/repo/macros/src/generate/query.rs) pushes for every matched archetype
(`#Archetype(key)` for slot-map keys, `#ArchetypeDirect(key)` for direct keys) and the wrapper
`match #__WorldSelectTotal::try_from(#entity).expect("invalid entity type") { … _ => None }`.
The control skeleton is regenerated from the source on every run (Gecs/Gen/Steps.lean: `findT`);
Lemmas/GenFind.lean proves that the extracted skeleton IS the model's `findQuery`.
-/
import Gecs.Model.LoopSteps

namespace Gecs

variable {α σ ρ : Type}

inductive FTail where
  /-- `#fetch.map(|found| closure(#(#attrs #bind),*))` -/
  | fetchMapClosure
  | unknown
deriving DecidableEq, Repr, Inhabited

structure FindT where
  /-- statements of the `#Archetype(..)` arm before its tail expression -/
  armTyped : List QS
  tailTyped : FTail
  /-- statements of the `#ArchetypeDirect(..)` arm -/
  armDirect : List QS
  tailDirect : FTail
  /-- the wrapper ends with `_ => None` -/
  defaultNone : Bool
  /-- the scrutinee is `try_from(#entity).expect("invalid entity type")` -/
  expectInvalid : Bool
deriving Repr

/-- One arm, given what `archetype.view(key)` resolved the key to; the second component of the
state is the archetype's storage when the closure ran (`none` = untouched). -/
-- One arm, given what `archetype.view(key)` / `archetype.borrow(key)` resolved the key to. -/
def runFindArm (cfg : Cfg) (pre : List QS) (tail : FTail) (idA : Nat) (ps : List Param) (f : Closure σ α ρ)
    (st : σ) (s : Storage α) (res : Out (Storage α) (Option Nat)) :
    Out (σ × Option (Storage α)) (Option ρ) :=
  match qsRun cfg s pre {} with
  | .error m => .ub m
  | .ok e =>
    match tail, e.closure, e.arch, e.version with
    | .fetchMapClosure, true, true, some v =>
      (match res with
      | .ub m => .ub m
      | .panic m _ => .panic m (st, none)
      | .ok none _ => .ok none (st, none)
      | .ok (some d) _ =>
        if slicesValid cfg s then
          match bindArgs idA s v d ps with
          | none => .ub "view: get_unchecked(index) out of the valid region"
          | some args =>
            match f st args with
            | .panic st' ws => .panic "closure" (st', some (applyWrites s d ps ws))
            | .ret st' ws r => .ok (some r) (st', some (applyWrites s d ps ws))
        else .ub "view: data not valid up to len")
    | _, _, _, _ => .ub "untranslated tail / closure, archetype or version read before bound"

/-- The whole expansion. -/
def findQueryT (cfg : Cfg) (T : FindT) (q : Query) (f : Closure σ α ρ) (h : Handle) (st : σ) (w : World α) :
    FOut σ α ρ :=
  if T.defaultNone && T.expectInvalid then
    match routeWorld cfg w.ids h with
    | .absent => .ok none st w
    | .panic m => .panic m st w
    | .arch a k =>
      match q.find? (fun qa => qa.a == a) with
      | none => .ok none st w
      | some qa =>
        match w.archs[a]? with
        | none => .ub "no such archetype"
        | some s =>
          let pre := if h.kind.isDirect then T.armDirect else T.armTyped
          let tail := if h.kind.isDirect then T.tailDirect else T.tailTyped
          match runFindArm cfg pre tail (w.ids.getD a ID_RANGE) qa.params f st s
                  (storageResolve cfg s h.kind.isDirect k) with
          | .ub m => .ub m
          | .panic m (st', s') => .panic m st' (match s' with | some s' => w.setArch a s' | none => w)
          | .ok r (st', s') => .ok r st' (match s' with | some s' => w.setArch a s' | none => w)
  else .ub "ecs_find!: wrapper without `_ => None` / `.expect(\"invalid entity type\")`"

end Gecs
