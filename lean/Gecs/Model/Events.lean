/-
The generated world-level event iterator `EcsEventIterator` (generate/world.rs,
`section_event_iter`) as a state machine: `which` plus one remaining slice per archetype.
`next` mirrors the emitted sequence of `if self.which == i { … }` blocks, `sizeHint` the
emitted sum over `self.which <= i`.  Import-free.
-/
import Gecs.Model.World

namespace Gecs

structure EvIter where
  which : Nat
  iters : List (List Key)      -- remaining items of each archetype's slice iterator
deriving Repr, DecidableEq

/-- The blocks `i ∈ idxs` of `next()`, in order.  `n` = number of archetypes. -/
def EvIter.blocks (n : Nat) : List Nat → EvIter → Option Key × EvIter
  | [], it => (none, it)
  | i :: rest, it =>
    if it.which = i then
      match it.iters.getD i [] with
      | x :: xs => (some x, { it with iters := it.iters.set i xs })
      | [] =>
        -- `None => self.which += 1` in every block except the last, where it is `{}`
        EvIter.blocks n rest (if i + 1 < n then { it with which := it.which + 1 } else it)
    else EvIter.blocks n rest it

def EvIter.next (it : EvIter) : Option Key × EvIter :=
  EvIter.blocks it.iters.length (List.range it.iters.length) it

/-- `size_hint`: sum of the exact slice hints of all iterators with `which <= index`. -/
def EvIter.sizeHint (it : EvIter) : Nat × Option Nat :=
  let n := (((List.range it.iters.length).filter (fun i => it.which ≤ i)).map
    (fun i => (it.iters.getD i []).length)).sum
  (n, some n)

/-- `iter_created` / `iter_destroyed`: `which: 0` and the per-archetype logs. -/
def EvIter.start (logs : List (List Key)) : EvIter := ⟨0, logs⟩

/-- Drain the iterator, recording `size_hint` before every `next` (fuel = an upper bound
on the number of calls; `logs.flatten.length + 1` suffices). -/
def EvIter.drain : Nat → EvIter → List Key × List (Nat × Option Nat)
  | 0, it => ([], [it.sizeHint])
  | fuel + 1, it =>
    match it.next with
    | (none, _) => ([], [it.sizeHint])
    | (some x, it') =>
      let r := EvIter.drain fuel it'
      (x :: r.1, it.sizeHint :: r.2)

variable {α : Type}

/-- The per-archetype logs of a world as dynamic handles. -/
def World.createdLogs (w : World α) : List (List Key) :=
  (w.archs.zip (w.ids ++ List.replicate w.archs.length 0)).map
    (fun (s, id) => s.created.map (fun e => mkKey e.slot id e.ver))

def World.destroyedLogs (w : World α) : List (List Key) :=
  (w.archs.zip (w.ids ++ List.replicate w.archs.length 0)).map
    (fun (s, id) => s.destroyed.map (fun e => mkKey e.slot id e.ver))

end Gecs
