/-
C04 — ownership: each component value moved into a storage is dropped exactly once.

`owned s` is the list of all cells of all columns.  Under `Inv` these are exactly the
initialised cells `0..len` of every column, i.e. exactly what `Drop for StorageN` drops
(`drop_returns_owned`, from `dropStorage_spec`).  Values are treated as tokens and lists are
compared up to `List.Perm` (a multiset view):

* per step: a creation adds the row moved in, a removal takes out the row handed back and
  nothing else, a write replaces exactly one cell, `clear_events` changes nothing, clone clones
  every cell exactly once;
* `conservation`: along a path of creations / removals / clears, what was there plus what was
  moved in is what is still owned plus what was handed back;
* `nodup_preserved`: with pairwise distinct tokens no token is ever owned twice, handed back
  twice, or handed back while still owned (no double drop, no drop of a live entity's value);
* `conservation_drop`: dropping the final storage drops exactly the remaining tokens.

A failed `push_within_capacity` returns its argument and changes nothing (`pushWithin_full`);
it is not an `LStep` and contributes no label.
-/
import Gecs.Lemmas.Values

namespace Gecs
variable {α : Type}

/-- All cells of all columns, column-major (the order in which `Drop` visits them). -/
def owned (s : Storage α) : List α := s.cols.flatMap id

/-- `Drop for StorageN` drops exactly the owned cells, each once, and never reaches UB. -/
theorem drop_returns_owned {cfg : Cfg} {s : Storage α} (h : Inv cfg s) :
    dropStorage s = .ok (owned s) () := dropStorage_spec h

/-! ## Column lemmas up to permutation -/

theorem flatMap_push_perm (cols : List (List α)) (row : List α)
    (hr : row.length = cols.length) :
    ((List.zipWith (fun c x => c ++ [x]) cols row).flatMap id).Perm (cols.flatMap id ++ row) := by
  induction cols generalizing row with
  | nil => cases row with
    | nil => simp
    | cons x xs => simp at hr
  | cons c cs ih =>
    cases row with
    | nil => simp at hr
    | cons x xs =>
      have ih' := ih xs (by simpa using hr)
      simp only [List.zipWith_cons_cons, List.flatMap_cons, id, List.append_assoc]
      refine List.Perm.append_left c ?_
      -- [x] ++ F' ~ F ++ x :: xs
      exact (List.Perm.cons x ih').trans List.perm_middle.symm

theorem flatMap_swapRemove_perm (cols : List (List α)) (n d : Nat)
    (h : ∀ c ∈ cols, c.length = n) (hd : d < n) :
    ((cols.map (fun c => swapRemove c d)).flatMap id ++ cols.filterMap (·[d]?)).Perm
      (cols.flatMap id) := by
  induction cols with
  | nil => simp
  | cons c cs ih =>
    have hc : d < c.length := by rw [h c List.mem_cons_self]; exact hd
    have hcd : c[d]? = some c[d] := List.getElem?_eq_getElem hc
    have ih' := ih (fun c' hc' => h c' (List.mem_cons_of_mem _ hc'))
    have h1 := swapRemove_append_perm c d c[d] hcd
    simp only [List.map_cons, List.flatMap_cons, id, List.filterMap_cons, hcd]
    -- (sr c ++ F') ++ c[d] :: R  ~  c ++ F
    have h2 : ((swapRemove c d ++ (cs.map (fun c => swapRemove c d)).flatMap id)
          ++ c[d] :: cs.filterMap (·[d]?)).Perm
        ((swapRemove c d ++ [c[d]]) ++ ((cs.map (fun c => swapRemove c d)).flatMap id
          ++ cs.filterMap (·[d]?))) := by
      rw [List.append_assoc, List.append_assoc]
      refine List.Perm.append_left _ ?_
      exact List.perm_middle
    exact h2.trans (h1.append ih')

theorem set_append_perm (col : List α) (d : Nat) (x : α) (hd : d < col.length) :
    (col.set d x ++ [col[d]]).Perm (col ++ [x]) := by
  have h1 : col.set d x = col.take d ++ x :: col.drop (d + 1) := by
    rw [List.set_eq_take_append_cons_drop, if_pos hd]
  have h2 : col = col.take d ++ col[d] :: col.drop (d + 1) := by
    conv => lhs; rw [← List.take_append_drop d col]
    rw [List.drop_eq_getElem_cons hd]
  rw [h1]
  conv => rhs; rw [h2]
  -- (T ++ x :: D) ++ [y]  ~  (T ++ y :: D) ++ [x]
  have a : ((col.take d ++ x :: col.drop (d + 1)) ++ [col[d]]).Perm
      (col[d] :: x :: (col.take d ++ col.drop (d + 1))) :=
    (List.perm_append_singleton _ _).trans (List.Perm.cons _ List.perm_middle)
  have b : ((col.take d ++ col[d] :: col.drop (d + 1)) ++ [x]).Perm
      (x :: col[d] :: (col.take d ++ col.drop (d + 1))) :=
    (List.perm_append_singleton _ _).trans (List.Perm.cons _ List.perm_middle)
  exact a.trans ((List.Perm.swap _ _ _).trans b.symm)

theorem flatMap_modify_set_perm (cols : List (List α)) (n c d : Nat) (x : α)
    (h : ∀ col ∈ cols, col.length = n) (hd : d < n) (hc : c < cols.length) :
    ∃ old, cols[c]?.bind (·[d]?) = some old
      ∧ ((cols.modify c (·.set d x)).flatMap id ++ [old]).Perm (cols.flatMap id ++ [x]) := by
  induction cols generalizing c with
  | nil => simp at hc
  | cons col cs ih =>
    have hcl : d < col.length := by rw [h col List.mem_cons_self]; exact hd
    cases c with
    | zero =>
      refine ⟨col[d], by simp [hcl], ?_⟩
      simp only [List.modify_zero_cons, List.flatMap_cons, id]
      -- (set ++ F) ++ [old] ~ (col ++ F) ++ [x]
      have h1 : ((col.set d x ++ cs.flatMap id) ++ [col[d]]).Perm
          ((col.set d x ++ [col[d]]) ++ cs.flatMap id) := by
        rw [List.append_assoc, List.append_assoc]
        exact List.Perm.append_left _ List.perm_append_comm
      have h2 : ((col ++ [x]) ++ cs.flatMap id).Perm ((col ++ cs.flatMap id) ++ [x]) := by
        rw [List.append_assoc, List.append_assoc]
        exact List.Perm.append_left _ List.perm_append_comm
      exact h1.trans (((set_append_perm col d x hcl).append_right _).trans h2)
    | succ c =>
      obtain ⟨old, ho, hp⟩ := ih c (fun c' hc' => h c' (List.mem_cons_of_mem _ hc'))
        (by simpa using hc)
      refine ⟨old, by simpa using ho, ?_⟩
      simp only [List.modify_succ_cons, List.flatMap_cons, id, List.append_assoc]
      exact List.Perm.append_left col hp

theorem modify_set_noop (cols : List (List α)) (n c d : Nat) (x : α)
    (h : ∀ col ∈ cols, col.length = n) (hno : ¬ (d < n ∧ c < cols.length)) :
    cols.modify c (·.set d x) = cols := by
  apply List.ext_getElem?
  intro j
  rw [List.getElem?_modify]
  cases hj : cols[j]? with
  | none => rfl
  | some col =>
    have hjl : j < cols.length := (List.getElem?_eq_some_iff.mp hj).1
    have hcl : col.length = n := h col (List.mem_of_getElem? hj)
    by_cases hcj : c = j
    · subst hcj
      have : ¬ d < n := fun hd => hno ⟨hd, hjl⟩
      simp [List.set_eq_of_length_le (show col.length ≤ d by omega)]
    · simp [hcj]

/-! ## One step -/

/-- Creation: exactly the row moved in is added. -/
theorem created_owned {cfg : Cfg} {s s' : Storage α} {e : Ent} {row : List α} (h : Inv cfg s)
    (hr : row.length = s.cols.length) (st : LStep cfg s (.created e row) s') :
    (owned s').Perm (owned s ++ row) := by
  obtain ⟨_, _, _, hcols, _⟩ := lstep_created h st
  unfold owned; rw [hcols]
  exact flatMap_push_perm s.cols row hr

/-- Removal: exactly the row handed back is taken out (the caller now owns and drops it). -/
theorem destroyed_owned {cfg : Cfg} {s s' : Storage α} {t : Ent} {row : List α} (h : Inv cfg s)
    (st : LStep cfg s (.destroyed t row) s') :
    (owned s' ++ row).Perm (owned s) := by
  obtain ⟨d, hd, _, hrow, _, hcols, _⟩ := lstep_destroyed h st
  unfold owned; rw [hcols, hrow]
  exact flatMap_swapRemove_perm s.cols s.len d h.colsLen (h.ents_lt hd)

/-- A write in range replaces exactly one owned cell — cell `c` of the row at `d` — by the
written value; a write out of range changes nothing. -/
theorem write_owned {cfg : Cfg} {s s' : Storage α} {d c : Nat} {x : α} (h : Inv cfg s)
    (st : LStep cfg s (.write d c x) s') :
    (d < s.len ∧ c < s.cols.length →
      ∃ old, (rowAt s d)[c]? = some old ∧ (owned s' ++ [old]).Perm (owned s ++ [x]))
    ∧ (¬ (d < s.len ∧ c < s.cols.length) → s' = s) := by
  cases st
  constructor
  · rintro ⟨hd, hc⟩
    obtain ⟨old, ho, hp⟩ := flatMap_modify_set_perm s.cols s.len c d x h.colsLen hd hc
    refine ⟨old, ?_, hp⟩
    unfold rowAt
    rw [filterMap_getElem?_getElem? s.cols s.len c d h.colsLen hd]; exact ho
  · intro hno
    unfold writeCell
    rw [modify_set_noop s.cols s.len c d x h.colsLen hno]

theorem clear_owned {cfg : Cfg} {s s' : Storage α} (st : LStep cfg s .clear s') :
    owned s' = owned s := by
  cases st; rfl

/-- Clone: every live component is cloned exactly once (and the source keeps its own). -/
theorem clone_owned {cfg : Cfg} {s s' : Storage α} {cl : α → α}
    (st : LStep cfg s (.clone cl) s') : owned s' = (owned s).map cl := by
  cases st
  unfold owned
  rw [List.map_flatMap, List.flatMap_map]; rfl

theorem cloneStorage_owned {cfg : Cfg} {s s' s₀ : Storage α} {cl : α → α} (h : Inv cfg s)
    (hc : cloneStorage cl s = .ok s' s₀) : owned s' = (owned s).map cl ∧ owned s₀ = owned s := by
  rw [cloneStorage_spec h] at hc
  cases hc
  exact ⟨clone_owned (cfg := cfg) (.clone s cl), rfl⟩

/-- The values of a stored entity are owned cells. -/
theorem valueOf_subset_owned {s : Storage α} {e : Ent} {r : List α} (hv : valueOf s e = some r) :
    ∀ x ∈ r, x ∈ owned s := by
  unfold valueOf at hv
  cases hi : s.ents.idxOf? e with
  | none => rw [hi] at hv; cases hv
  | some d =>
    rw [hi] at hv
    simp only [Option.map_some, Option.some.injEq] at hv
    subst hv
    intro x hx
    unfold rowAt at hx
    obtain ⟨col, hcol, hcx⟩ := List.mem_filterMap.mp hx
    unfold owned
    exact List.mem_flatMap.mpr ⟨col, hcol, List.mem_of_getElem? hcx⟩

/-! ## Along a path -/

/-- Creation, removal or `clear_events` (no write, no clone). -/
def Lbl.isCDC : Lbl α → Bool
  | .created _ _ => true
  | .destroyed _ _ => true
  | .clear => true
  | _ => false

/-- All values moved in by the creations of `L`. -/
def createdRows (L : List (Lbl α)) : List α :=
  L.flatMap (fun l => match l with | .created _ row => row | _ => [])

/-- All values handed back by the removals of `L`. -/
def destroyedRows (L : List (Lbl α)) : List α :=
  L.flatMap (fun l => match l with | .destroyed _ row => row | _ => [])

/-- Conservation of component values: everything that was in the storage or was moved in
is either still owned — and will be dropped exactly once by `Drop` (`drop_returns_owned`) —
or was handed back exactly once. -/
theorem conservation {cfg : Cfg} {s s' : Storage α} {L : List (Lbl α)}
    (hr : RowsOk s.cols.length L) (hcdc : ∀ l ∈ L, l.isCDC = true) (r : LReach cfg s L s') :
    (owned s' ++ destroyedRows L).Perm (owned s ++ createdRows L) := by
  induction r with
  | refl => simp [createdRows, destroyedRows]
  | @step s₁ s₂ L₁ l r hi st ih =>
    have ih' := ih hr.init (fun l hl => hcdc l (List.mem_append_left _ hl))
    have hcl := cols_length_preserved hr.init r
    have hl : l.isCDC = true := hcdc l (by simp)
    have hcr : createdRows (L₁ ++ [l]) = createdRows L₁ ++ createdRows [l] := by
      simp [createdRows]
    have hde : destroyedRows (L₁ ++ [l]) = destroyedRows L₁ ++ destroyedRows [l] := by
      simp [destroyedRows]
    rw [hcr, hde]
    cases l with
    | created e row =>
      have hrow : row.length = s₁.cols.length := by
        rw [hcl]; exact hr e row (by simp)
      have h1 := created_owned hi hrow st
      have e1 : createdRows [Lbl.created e row] = row := by simp [createdRows]
      have e2 : destroyedRows [Lbl.created e row] = [] := by simp [destroyedRows]
      rw [e1, e2, List.append_nil, ← List.append_assoc]
      -- owned s₂ ++ D ~ (owned s₁ ++ row) ++ D ~ (owned s₁ ++ D) ++ row
      have h2 : ((owned s₁ ++ row) ++ destroyedRows L₁).Perm
          ((owned s₁ ++ destroyedRows L₁) ++ row) := by
        rw [List.append_assoc, List.append_assoc]
        exact List.Perm.append_left _ List.perm_append_comm
      exact (h1.append_right _).trans (h2.trans (ih'.append_right row))
    | destroyed t row =>
      have h1 := destroyed_owned hi st
      have e1 : createdRows [Lbl.destroyed t row] = [] := by simp [createdRows]
      have e2 : destroyedRows [Lbl.destroyed t row] = row := by simp [destroyedRows]
      rw [e1, e2, List.append_nil]
      -- owned s₂ ++ (D ++ row) ~ (owned s₂ ++ row) ++ D ~ owned s₁ ++ D
      have h2 : (owned s₂ ++ (destroyedRows L₁ ++ row)).Perm
          ((owned s₂ ++ row) ++ destroyedRows L₁) := by
        rw [List.append_assoc]
        exact List.Perm.append_left _ List.perm_append_comm
      exact h2.trans ((h1.append_right _).trans ih')
    | clear =>
      have e1 : createdRows [(Lbl.clear : Lbl α)] = [] := by simp [createdRows]
      have e2 : destroyedRows [(Lbl.clear : Lbl α)] = [] := by simp [destroyedRows]
      rw [e1, e2, List.append_nil, List.append_nil, clear_owned st]
      exact ih'
    | write d c x => simp [Lbl.isCDC] at hl
    | clone cl => simp [Lbl.isCDC] at hl

/-- … and dropping the final storage drops exactly the rest: nothing leaks, nothing is dropped
twice. -/
theorem conservation_drop {cfg : Cfg} {s s' : Storage α} {L : List (Lbl α)} (h : Inv cfg s)
    (hr : RowsOk s.cols.length L) (hcdc : ∀ l ∈ L, l.isCDC = true) (r : LReach cfg s L s') :
    ∃ dropped, dropStorage s' = .ok dropped ()
      ∧ (dropped ++ destroyedRows L).Perm (owned s ++ createdRows L) :=
  ⟨owned s', drop_returns_owned (lockstep h r), conservation hr hcdc r⟩

/-- With pairwise distinct tokens: no token is owned twice, none is handed back twice, and none
is handed back while still owned (in particular while its entity is alive). -/
theorem nodup_preserved {cfg : Cfg} {s s' : Storage α} {L : List (Lbl α)}
    (hr : RowsOk s.cols.length L) (hcdc : ∀ l ∈ L, l.isCDC = true) (r : LReach cfg s L s')
    (hnd : (owned s ++ createdRows L).Nodup) :
    (owned s').Nodup ∧ (destroyedRows L).Nodup ∧ (∀ x ∈ destroyedRows L, x ∉ owned s')
      ∧ (∀ e row, valueOf s' e = some row → ∀ x ∈ row, x ∉ destroyedRows L) := by
  have hp := conservation hr hcdc r
  have hnd' : (owned s' ++ destroyedRows L).Nodup := hp.nodup_iff.mpr hnd
  obtain ⟨h1, h2, h3⟩ := List.nodup_append.mp hnd'
  refine ⟨h1, h2, fun x hx ho => h3 x ho x hx rfl, ?_⟩
  intro e row hv x hx hd
  exact h3 x (valueOf_subset_owned hv x hx) x hd rfl

/-- Everything handed back or still owned was there initially or was moved in (nothing is
made up), and conversely (nothing is lost). -/
theorem conservation_mem {cfg : Cfg} {s s' : Storage α} {L : List (Lbl α)}
    (hr : RowsOk s.cols.length L) (hcdc : ∀ l ∈ L, l.isCDC = true) (r : LReach cfg s L s')
    (x : α) : (x ∈ owned s' ∨ x ∈ destroyedRows L) ↔ (x ∈ owned s ∨ x ∈ createdRows L) := by
  have := (conservation hr hcdc r).mem_iff (a := x)
  simpa [List.mem_append] using this

/-! ## Non-vacuity on the 2-column storage `holeEx` -/
namespace StorageEx

/-- Creation, removal (with relocation), clear, creation into the recycled slot. -/
def ownExL : List (Lbl Nat) :=
  [.created ⟨1, 2⟩ [13, 23], .destroyed ⟨0, 1⟩ [10, 20], .clear]

def ownEx2 : Storage Nat :=
  ⟨3, 2, 3, .free 0, [⟨.freeEnd, 2⟩, ⟨.data 0, 2⟩, ⟨.data 1, 1⟩], [⟨1, 2⟩, ⟨2, 1⟩],
    [[13, 12], [23, 22]], [⟨1, 2⟩], [⟨0, 1⟩]⟩

theorem ownEx_step2 : LStep cfgEx pathEx1 (.destroyed ⟨0, 1⟩ [10, 20]) ownEx2 :=
  .destroyEnt _ _ _ _ rfl

theorem ownEx_reach : LReach cfgEx holeEx ownExL (clearEvents ownEx2) := by
  have i1 := lstep_inv holeEx_inv pathEx_step1
  have i2 := lstep_inv i1 ownEx_step2
  exact .step (.step (.step (.refl _) holeEx_inv pathEx_step1) i1 ownEx_step2) i2 (.clear _)

theorem ownEx_rowsOk : RowsOk holeEx.cols.length ownExL := by
  intro e row hm
  simp only [ownExL, List.mem_cons, List.not_mem_nil, or_false] at hm
  rcases hm with hm | hm | hm
  · cases hm; rfl
  · cases hm
  · cases hm

theorem ownEx_cdc : ∀ l ∈ ownExL, l.isCDC = true := by
  intro l hm
  simp only [ownExL, List.mem_cons, List.not_mem_nil, or_false] at hm
  rcases hm with rfl | rfl | rfl <;> rfl

example : owned holeEx = [10, 12, 20, 22] := by decide
example : createdRows ownExL = [13, 23] ∧ destroyedRows ownExL = [10, 20] := by decide
example : (owned holeEx ++ createdRows ownExL).Nodup := by decide

example : (owned (clearEvents ownEx2) ++ [10, 20]).Perm ([10, 12, 20, 22] ++ [13, 23]) :=
  conservation ownEx_rowsOk ownEx_cdc ownEx_reach

example : (owned (clearEvents ownEx2)).Nodup ∧ ∀ x ∈ [10, 20], x ∉ owned (clearEvents ownEx2) :=
  let h := nodup_preserved ownEx_rowsOk ownEx_cdc ownEx_reach (by decide)
  ⟨h.1, h.2.2.1⟩

example : ∃ dropped, dropStorage (clearEvents ownEx2) = .ok dropped ()
    ∧ (dropped ++ [10, 20]).Perm ([10, 12, 20, 22] ++ [13, 23]) :=
  conservation_drop holeEx_inv ownEx_rowsOk ownEx_cdc ownEx_reach

-- a write in range replaces one cell; one out of range is a no-op
example : ∃ old, (rowAt pathEx1 2)[1]? = some old
    ∧ (owned (writeCell pathEx1 2 1 77) ++ [old]).Perm (owned pathEx1 ++ [77]) :=
  (write_owned (lstep_inv holeEx_inv pathEx_step1) pathEx_step2).1 (by decide)

example : writeCell holeEx 5 0 1 = holeEx :=
  (write_owned holeEx_inv (.write holeEx 5 0 1)).2 (by decide)

example : owned { holeEx with cols := holeEx.cols.map (·.map (· + 1)) } = [11, 13, 21, 23] := by
  rw [clone_owned (cfg := cfgEx) (.clone holeEx (· + 1))]; decide

-- a refused `push_within_capacity` changes nothing
example : pushWithin cfgEx pathEx1 [1, 2] = .ok none pathEx1 := pushWithin_full _ (by decide)

end StorageEx
end Gecs

section
open Gecs
#print axioms drop_returns_owned
#print axioms created_owned
#print axioms destroyed_owned
#print axioms write_owned
#print axioms clear_owned
#print axioms clone_owned
#print axioms cloneStorage_owned
#print axioms valueOf_subset_owned
#print axioms conservation
#print axioms conservation_drop
#print axioms nodup_preserved
#print axioms conservation_mem
end
