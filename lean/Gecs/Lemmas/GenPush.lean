/-
`StorageN::push` / `push_within_capacity` run from their extracted statements (with `grow` and
`force_create` run from theirs) are the model's `push` / `pushWithin` in every invariant state.
-/
import Gecs.Lemmas.GenStepsApi

namespace Gecs

variable {α : Type}

def Gen.prims : Prims := { slots := Gen.slotBodies, create := Gen.forceCreateSteps, grow := Gen.growSteps }

theorem gen_steps_push_body (cfg : Cfg) (g : Nat → Nat) (s : Storage α) (row : List α) (hle : s.len ≤ s.capacity) :
    runPush cfg Gen.prims g row Gen.pushSteps s = pushS cfg g s row := by
  have hnl : ¬ (cfg.debug = true ∧ ¬ s.len ≤ s.capacity) := fun h => h.2 hle
  unfold Gen.pushSteps pushS Gen.prims
  by_cases hfull : s.len ≥ s.capacity
  · simp only [runPush, hnl, hfull, if_true, if_false]
    cases execGrow cfg Gen.growSteps s (g s.capacity) with
    | ok r u => cases r <;> simp [runPush]
    | panic m u => rfl
    | ub m => rfl
  · have : ¬ s.capacity < s.len := by omega
    simp [runPush, hfull, this]

theorem gen_steps_push_within_body (cfg : Cfg) (s : Storage α) (row : List α) (hle : s.len ≤ s.capacity) :
    runPushWithin cfg Gen.prims row Gen.pushWithinSteps s = pushWithinS cfg s row := by
  have hnl : ¬ (cfg.debug = true ∧ ¬ s.len ≤ s.capacity) := fun h => h.2 hle
  unfold Gen.pushWithinSteps pushWithinS Gen.prims
  have : ¬ s.capacity < s.len := by omega
  by_cases hfull : s.len ≥ s.capacity
  · simp [runPushWithin, hfull, this, hle]
  · simp only [runPushWithin, hfull, hnl, if_false]
    cases execCreate cfg Gen.slotBodies Gen.forceCreateSteps s row <;> rfl

/-- `create` / `create_within_capacity`, every statement below the API taken from the source,
are the model's operations (C12: the capacity test; C01/C08: the handle returned). -/
theorem gen_steps_create_all_statements (cfg : Cfg) (g : Nat → Nat) (s : Storage α) (row : List α) (h : Inv cfg s) :
    Out.same (runPush cfg Gen.prims g row Gen.pushSteps s) (push cfg g s row)
    ∧ Out.same (runPushWithin cfg Gen.prims row Gen.pushWithinSteps s) (pushWithin cfg s row) := by
  rw [gen_steps_push_body cfg g s row h.lenCap, gen_steps_push_within_body cfg s row h.lenCap]
  exact ⟨gen_steps_push cfg g s row h, gen_steps_push_within cfg s row h⟩

/-- C12: `create_within_capacity`, as extracted, fails exactly when `len ≥ capacity`, and then
changes nothing. -/
theorem GenPush_C12_within_capacity_iff (cfg : Cfg) (s : Storage α) (row : List α) (h : Inv cfg s) :
    (runPushWithin cfg Gen.prims row Gen.pushWithinSteps s = .ok none s) ↔ s.len ≥ s.capacity := by
  rw [gen_steps_push_within_body cfg s row h.lenCap]
  unfold pushWithinS
  by_cases hfull : s.len ≥ s.capacity
  · simp [hfull]
  · simp only [hfull, if_false, iff_false]
    cases execCreate cfg Gen.slotBodies Gen.forceCreateSteps s row <;> simp

end Gecs
