/-
Theorems about the fault model `Gecs/Model/Faults.lean` (panicking `Clone::clone` during
`world.clone()`, panicking `Drop::drop` while dropping a world), for ALL inputs.

Headline theorems
  clone: `cloneFault_some_iff`, `cloneFault_prefix`, `cloneFault_dropped_whole_archetypes`
         (+ the sharper `cloneFault_struct`)
  drop : `dropFault_some_iff`, `dropFault_partition`, `dropFault_nodup`,
         `dropFault_leak_one_archetype`, `dropFault_other_archetypes_dropped`
         (+ the sharper `dropFault_struct`)
  tie to the world model: `World.drop_ok_eq_flatten` (the list returned by `World.drop` is the
         flattening of `World.dropPerArch`).
-/
import Gecs.Model.Faults

namespace Gecs

/-! ### counting helpers -/

theorem nzCount_nil (isZ : α → Bool) : nzCount isZ ([] : List α) = 0 := rfl

theorem nzCount_append (isZ : α → Bool) (l₁ l₂ : List α) :
    nzCount isZ (l₁ ++ l₂) = nzCount isZ l₁ + nzCount isZ l₂ := by
  simp [nzCount]

theorem nzCount_cons_z (isZ : α → Bool) (v : α) (l : List α) (hv : isZ v = true) :
    nzCount isZ (v :: l) = nzCount isZ l := by
  simp [nzCount, hv]

theorem nzCount_cons_nz (isZ : α → Bool) (v : α) (l : List α) (hv : isZ v = false) :
    nzCount isZ (v :: l) = nzCount isZ l + 1 := by
  simp [nzCount, hv]

theorem nzCount_flatten_cons (isZ : α → Bool) (a : List α) (rest : List (List α)) :
    nzCount isZ (a :: rest).flatten = nzCount isZ a + nzCount isZ rest.flatten := by
  simp [nzCount_append]

/-! ### the two list cutters -/

/-- `takeBeforeFault` stops exactly in front of the `k`-th non-zero-sized value. -/
theorem takeBeforeFault_spec (isZ : α → Bool) (l : List α) (k : Nat) (hk : k < nzCount isZ l) :
    ∃ v rest, l = takeBeforeFault isZ l k ++ v :: rest ∧ isZ v = false ∧
      nzCount isZ (takeBeforeFault isZ l k) = k := by
  induction l generalizing k with
  | nil => simp [nzCount] at hk
  | cons x l ih =>
    unfold takeBeforeFault
    cases hx : isZ x with
    | true =>
      rw [nzCount_cons_z isZ x l hx] at hk
      obtain ⟨v, rest, h1, h2, h3⟩ := ih k hk
      refine ⟨v, rest, ?_, h2, ?_⟩
      · simp only [if_true, List.cons_append]; rw [← h1]
      · simp only [if_true]; rw [nzCount_cons_z isZ x _ hx]; exact h3
    | false =>
      cases k with
      | zero => exact ⟨x, l, by simp, hx, by simp [nzCount]⟩
      | succ k =>
        rw [nzCount_cons_nz isZ x l hx] at hk
        obtain ⟨v, rest, h1, h2, h3⟩ := ih k (by omega)
        refine ⟨v, rest, ?_, h2, ?_⟩
        · simp only [Bool.false_eq_true, if_false, List.cons_append]; rw [← h1]
        · simp only [Bool.false_eq_true, if_false]; rw [nzCount_cons_nz isZ x _ hx]; omega

theorem takeBeforeFault_prefix (isZ : α → Bool) (l : List α) (k : Nat) :
    takeBeforeFault isZ l k <+: l := by
  induction l generalizing k with
  | nil => simp [takeBeforeFault]
  | cons x l ih =>
    unfold takeBeforeFault
    cases hx : isZ x with
    | true => simpa using (List.prefix_cons_inj x).2 (ih k)
    | false =>
      cases k with
      | zero => simp
      | succ k => simpa using (List.prefix_cons_inj x).2 (ih k)

/-- `dropCut` never loses or duplicates anything. -/
theorem dropCut_append (isZ : α → Bool) (l : List α) (k : Nat) :
    (dropCut isZ l k).1 ++ (dropCut isZ l k).2 = l := by
  induction l generalizing k with
  | nil => simp [dropCut]
  | cons x l ih =>
    unfold dropCut
    cases hx : isZ x with
    | true => simp [ih]
    | false =>
      cases k with
      | zero => simp
      | succ k => simp [ih]

/-- `dropCut` cuts right after the `k`-th non-zero-sized value. -/
theorem dropCut_spec (isZ : α → Bool) (l : List α) (k : Nat) (hk : k < nzCount isZ l) :
    ∃ p v, (dropCut isZ l k).1 = p ++ [v] ∧ isZ v = false ∧ nzCount isZ p = k := by
  induction l generalizing k with
  | nil => simp [nzCount] at hk
  | cons x l ih =>
    unfold dropCut
    cases hx : isZ x with
    | true =>
      rw [nzCount_cons_z isZ x l hx] at hk
      obtain ⟨p, v, h1, h2, h3⟩ := ih k hk
      refine ⟨x :: p, v, ?_, h2, ?_⟩
      · simp [h1]
      · rw [nzCount_cons_z isZ x _ hx]; exact h3
    | false =>
      cases k with
      | zero => exact ⟨[], x, by simp, hx, rfl⟩
      | succ k =>
        rw [nzCount_cons_nz isZ x l hx] at hk
        obtain ⟨p, v, h1, h2, h3⟩ := ih k (by omega)
        refine ⟨x :: p, v, ?_, h2, ?_⟩
        · simp [h1]
        · rw [nzCount_cons_nz isZ x _ hx]; omega

/-! ### `world.clone()` with a panicking `Clone::clone` -/

/-- 1. A fault happens iff `k` is smaller than the number of non-zero-sized values. -/
theorem cloneFault_some_iff (isZ : α → Bool) (perArch : List (List α)) (k : Nat) :
    (cloneFault isZ perArch k).isSome ↔ k < ((perArch.flatten).filter (fun v => !isZ v)).length := by
  show _ ↔ k < nzCount isZ perArch.flatten
  induction perArch generalizing k with
  | nil => simp [cloneFault, nzCount]
  | cons a rest ih =>
    unfold cloneFault
    rw [nzCount_flatten_cons]
    by_cases hk : k < nzCount isZ a
    · simp only [hk, if_true, Option.isSome_some, true_iff]; omega
    · simp only [hk, if_false, Option.isSome_map, ih]; omega

/-- Sharp structural description of the outcome: the fault is in archetype `n`, everything of
the archetypes before it is `dropped`, `leaked` is what `takeBeforeFault` cuts off archetype `n`. -/
theorem cloneFault_struct (isZ : α → Bool) (perArch : List (List α)) (k : Nat)
    (o : FaultOutcome α) (h : cloneFault isZ perArch k = some o) :
    ∃ n a, perArch[n]? = some a ∧ o.dropped = (perArch.take n).flatten ∧
      nzCount isZ (perArch.take n).flatten ≤ k ∧
      k - nzCount isZ (perArch.take n).flatten < nzCount isZ a ∧
      o.leaked = takeBeforeFault isZ a (k - nzCount isZ (perArch.take n).flatten) := by
  induction perArch generalizing k o with
  | nil => simp [cloneFault] at h
  | cons a rest ih =>
    unfold cloneFault at h
    by_cases hk : k < nzCount isZ a
    · simp only [hk, if_true, Option.some.injEq] at h
      subst h
      exact ⟨0, a, by simp, by simp, by simp [nzCount], by simpa [nzCount] using hk,
        by simp [nzCount]⟩
    · simp only [hk, if_false, Option.map_eq_some_iff] at h
      obtain ⟨o', ho', rfl⟩ := h
      obtain ⟨n, b, h1, h2, h3, h4, h5⟩ := ih _ _ ho'
      refine ⟨n + 1, b, by simpa using h1, by simp [h2], ?_, ?_, ?_⟩
      · rw [List.take_succ_cons, nzCount_flatten_cons]; omega
      · rw [List.take_succ_cons, nzCount_flatten_cons]
        have : k - (nzCount isZ a + nzCount isZ (List.take n rest).flatten)
            = k - nzCount isZ a - nzCount isZ (List.take n rest).flatten := by omega
        rw [this]; exact h4
      · rw [List.take_succ_cons, nzCount_flatten_cons]
        have : k - (nzCount isZ a + nzCount isZ (List.take n rest).flatten)
            = k - nzCount isZ a - nzCount isZ (List.take n rest).flatten := by omega
        rw [this]; exact h5

/-- 2. Every clone that was made is either dropped or leaked, exactly once, in clone order;
exactly `k` of them are non-zero-sized; the next value in clone order is the (non-zero-sized)
faulting one, and nothing from there on was cloned. -/
theorem cloneFault_prefix (isZ : α → Bool) (perArch : List (List α)) (k : Nat)
    (o : FaultOutcome α) (h : cloneFault isZ perArch k = some o) :
    ∃ rest, perArch.flatten = o.dropped ++ o.leaked ++ rest ∧
      ((o.dropped ++ o.leaked).filter (fun v => !isZ v)).length = k ∧
      ∃ v rest', rest = v :: rest' ∧ isZ v = false := by
  induction perArch generalizing k o with
  | nil => simp [cloneFault] at h
  | cons a rest ih =>
    unfold cloneFault at h
    by_cases hk : k < nzCount isZ a
    · simp only [hk, if_true, Option.some.injEq] at h
      subst h
      obtain ⟨v, r, h1, h2, h3⟩ := takeBeforeFault_spec isZ a k hk
      refine ⟨v :: r ++ rest.flatten, ?_, ?_, v, r ++ rest.flatten, rfl, h2⟩
      · simp only [List.flatten_cons, List.nil_append]
        conv => lhs; rw [h1]
        simp
      · simpa [nzCount] using h3
    · simp only [hk, if_false, Option.map_eq_some_iff] at h
      obtain ⟨o', ho', rfl⟩ := h
      obtain ⟨r, h1, h2, h3⟩ := ih _ _ ho'
      refine ⟨r, ?_, ?_, h3⟩
      · simp only [List.flatten_cons, h1, List.append_assoc]
      · have h2' : nzCount isZ (o'.dropped ++ o'.leaked) = k - nzCount isZ a := h2
        show nzCount isZ (a ++ o'.dropped ++ o'.leaked) = k
        rw [List.append_assoc, nzCount_append, h2']; omega

/-- 2'. In terms of the driver's `expected` list (the non-zero-sized values in clone order):
the clones that were made are exactly its first `k` entries (so `dT + pT = k` and
`expected.take (dT + pT)` is the list of sources of the made clones). -/
theorem cloneFault_made_eq_take (isZ : α → Bool) (perArch : List (List α)) (k : Nat)
    (o : FaultOutcome α) (h : cloneFault isZ perArch k = some o) :
    (perArch.flatten.filter (fun v => !isZ v)).take k =
      (o.dropped ++ o.leaked).filter (fun v => !isZ v) := by
  obtain ⟨rest, h1, h2, _⟩ := cloneFault_prefix isZ perArch k o h
  rw [h1, List.filter_append, ← h2, List.take_left]

/-- 3. The dropped clones are exactly those of the completely cloned archetypes; the leaked ones
are a prefix of the partially cloned archetype. -/
theorem cloneFault_dropped_whole_archetypes (isZ : α → Bool) (perArch : List (List α)) (k : Nat)
    (o : FaultOutcome α) (h : cloneFault isZ perArch k = some o) :
    ∃ n, o.dropped = (perArch.take n).flatten ∧ ∃ a, perArch[n]? = some a ∧ o.leaked <+: a := by
  obtain ⟨n, a, h1, h2, _, _, h5⟩ := cloneFault_struct isZ perArch k o h
  exact ⟨n, h2, a, h1, h5 ▸ takeBeforeFault_prefix isZ a _⟩

/-- 3'. ... and that prefix is a PROPER one: the partial archetype continues with the faulting
(non-zero-sized) value. -/
theorem cloneFault_leaked_then_fault (isZ : α → Bool) (perArch : List (List α)) (k : Nat)
    (o : FaultOutcome α) (h : cloneFault isZ perArch k = some o) :
    ∃ n a v rest, perArch[n]? = some a ∧ o.dropped = (perArch.take n).flatten ∧
      a = o.leaked ++ v :: rest ∧ isZ v = false := by
  obtain ⟨n, a, h1, h2, _, h4, h5⟩ := cloneFault_struct isZ perArch k o h
  obtain ⟨v, rest, h6, h7, _⟩ := takeBeforeFault_spec isZ a _ h4
  exact ⟨n, a, v, rest, h1, h2, h5 ▸ h6, h7⟩

/-! ### dropping a world with a panicking `Drop::drop` -/

/-- 4. A fault happens iff `k` is smaller than the number of non-zero-sized values. -/
theorem dropFault_some_iff (isZ : α → Bool) (perArch : List (List α)) (k : Nat) :
    (dropFault isZ perArch k).isSome ↔ k < ((perArch.flatten).filter (fun v => !isZ v)).length := by
  show _ ↔ k < nzCount isZ perArch.flatten
  induction perArch generalizing k with
  | nil => simp [dropFault, nzCount]
  | cons a rest ih =>
    unfold dropFault
    rw [nzCount_flatten_cons]
    by_cases hk : k < nzCount isZ a
    · simp only [hk, if_true, Option.isSome_some, true_iff]; omega
    · simp only [hk, if_false, Option.isSome_map, ih]; omega

/-- Sharp structural description: the fault is in archetype `n`; `dropped` is everything before
it, the cut prefix of archetype `n`, everything after it; `leaked` is the cut suffix. -/
theorem dropFault_struct (isZ : α → Bool) (perArch : List (List α)) (k : Nat)
    (o : FaultOutcome α) (h : dropFault isZ perArch k = some o) :
    ∃ n a, perArch[n]? = some a ∧
      nzCount isZ (perArch.take n).flatten ≤ k ∧
      k - nzCount isZ (perArch.take n).flatten < nzCount isZ a ∧
      o.dropped = (perArch.take n).flatten ++
        (dropCut isZ a (k - nzCount isZ (perArch.take n).flatten)).1 ++
        (perArch.drop (n + 1)).flatten ∧
      o.leaked = (dropCut isZ a (k - nzCount isZ (perArch.take n).flatten)).2 := by
  induction perArch generalizing k o with
  | nil => simp [dropFault] at h
  | cons a rest ih =>
    unfold dropFault at h
    by_cases hk : k < nzCount isZ a
    · simp only [hk, if_true, Option.some.injEq] at h
      subst h
      exact ⟨0, a, by simp, by simp [nzCount], by simpa [nzCount] using hk,
        by simp [nzCount], by simp [nzCount]⟩
    · simp only [hk, if_false, Option.map_eq_some_iff] at h
      obtain ⟨o', ho', rfl⟩ := h
      obtain ⟨n, b, h1, h2, h3, h4, h5⟩ := ih _ _ ho'
      have e : k - (nzCount isZ a + nzCount isZ (List.take n rest).flatten)
          = k - nzCount isZ a - nzCount isZ (List.take n rest).flatten := by omega
      refine ⟨n + 1, b, by simpa using h1, ?_, ?_, ?_, ?_⟩
      · rw [List.take_succ_cons, nzCount_flatten_cons]; omega
      · rw [List.take_succ_cons, nzCount_flatten_cons, e]; exact h3
      · rw [List.take_succ_cons, nzCount_flatten_cons, e]
        simp only [h4, List.flatten_cons, List.drop_succ_cons, List.append_assoc]
      · rw [List.take_succ_cons, nzCount_flatten_cons, e]; exact h5

/-- 5a. Every owned value is either dropped or leaked, exactly once (as multisets). -/
theorem dropFault_partition (isZ : α → Bool) (perArch : List (List α)) (k : Nat)
    (o : FaultOutcome α) (h : dropFault isZ perArch k = some o) :
    (o.dropped ++ o.leaked).Perm perArch.flatten := by
  induction perArch generalizing k o with
  | nil => simp [dropFault] at h
  | cons a rest ih =>
    unfold dropFault at h
    by_cases hk : k < nzCount isZ a
    · simp only [hk, if_true, Option.some.injEq] at h
      subst h
      simp only [List.flatten_cons, List.append_assoc]
      conv => rhs; rw [← dropCut_append isZ a k]
      rw [List.append_assoc]
      exact List.Perm.append_left _ List.perm_append_comm
    · simp only [hk, if_false, Option.map_eq_some_iff] at h
      obtain ⟨o', ho', rfl⟩ := h
      simp only [List.flatten_cons, List.append_assoc]
      exact List.Perm.append_left _ (ih _ _ ho')

/-- 5b. If no value is owned twice, nothing is dropped twice, nothing is leaked twice, and
nothing is both dropped and leaked. -/
theorem dropFault_nodup (isZ : α → Bool) (perArch : List (List α)) (k : Nat)
    (o : FaultOutcome α) (h : dropFault isZ perArch k = some o) (hnd : perArch.flatten.Nodup) :
    o.dropped.Nodup ∧ o.leaked.Nodup ∧ ∀ x, x ∈ o.dropped → x ∈ o.leaked → False := by
  have hp := dropFault_partition isZ perArch k o h
  have hnd' : (o.dropped ++ o.leaked).Nodup := hp.nodup_iff.2 hnd
  rw [List.nodup_append] at hnd'
  exact ⟨hnd'.1, hnd'.2.1, fun x hx hy => hnd'.2.2 x hx x hy rfl⟩

/-- 5c. Membership form: a value is owned iff it is dropped or leaked. -/
theorem dropFault_mem (isZ : α → Bool) (perArch : List (List α)) (k : Nat)
    (o : FaultOutcome α) (h : dropFault isZ perArch k = some o) (x : α) :
    x ∈ perArch.flatten ↔ x ∈ o.dropped ∨ x ∈ o.leaked := by
  rw [← (dropFault_partition isZ perArch k o h).mem_iff, List.mem_append]

/-- 6a. The leak is a suffix of exactly one archetype `n`, starting right after the faulting
value `v` (non-zero-sized, the `k`-th one overall, counted over the archetypes before `n` and
the part `p` of archetype `n` in front of it); `dropped` is, in order: all archetypes before `n`,
`p ++ [v]`, all archetypes after `n`. -/
theorem dropFault_leak_one_archetype (isZ : α → Bool) (perArch : List (List α)) (k : Nat)
    (o : FaultOutcome α) (h : dropFault isZ perArch k = some o) :
    ∃ n a pre, perArch[n]? = some a ∧ a = pre ++ o.leaked ∧
      ((perArch.take n).flatten.filter (fun v => !isZ v)).length ≤ k ∧
      (pre.filter (fun v => !isZ v)).length =
        (k - ((perArch.take n).flatten.filter (fun v => !isZ v)).length) + 1 ∧
      (∃ p v, pre = p ++ [v] ∧ isZ v = false) ∧
      o.dropped = (perArch.take n).flatten ++ pre ++ (perArch.drop (n + 1)).flatten := by
  obtain ⟨n, a, h1, h2, h3, h4, h5⟩ := dropFault_struct isZ perArch k o h
  obtain ⟨p, v, h6, h7, h8⟩ := dropCut_spec isZ a _ h3
  refine ⟨n, a, (dropCut isZ a (k - nzCount isZ (perArch.take n).flatten)).1, h1, ?_, h2, ?_,
    ⟨p, v, h6, h7⟩, h4⟩
  · rw [h5, dropCut_append]
  · show nzCount isZ _ = k - nzCount isZ _ + 1
    rw [h6, nzCount_append, h8]; simp [nzCount, h7]

/-- 6b. Every archetype other than the faulting one is completely contained in `dropped`
(and the index `n` is the same as in 6a: the archetype of which `leaked` is a suffix). -/
theorem dropFault_other_archetypes_dropped (isZ : α → Bool) (perArch : List (List α)) (k : Nat)
    (o : FaultOutcome α) (h : dropFault isZ perArch k = some o) :
    ∃ n a, perArch[n]? = some a ∧ o.leaked <:+ a ∧
      ∀ (m : Nat) (b : List α), m ≠ n → perArch[m]? = some b → ∀ x, x ∈ b → x ∈ o.dropped := by
  obtain ⟨n, a, pre, h1, h2, _, _, _, h6⟩ := dropFault_leak_one_archetype isZ perArch k o h
  refine ⟨n, a, h1, ⟨pre, h2.symm⟩, ?_⟩
  intro m b hm hb x hx
  rw [h6]
  simp only [List.mem_append, List.mem_flatten]
  rcases Nat.lt_or_gt_of_ne hm with hlt | hgt
  · left; left
    exact ⟨b, List.mem_of_getElem? (by rw [List.getElem?_take, if_pos hlt]; exact hb), hx⟩
  · right
    refine ⟨b, List.mem_of_getElem? (i := m - (n + 1)) ?_, hx⟩
    rw [List.getElem?_drop]
    have : n + 1 + (m - (n + 1)) = m := by omega
    rw [this]; exact hb

/-! ### tie to the world model -/

theorem World.drop_go_eq (l : List (Storage α)) (acc vals : List α) (u : Unit)
    (h : World.drop.go l acc = .ok vals u) :
    vals = acc ++ (l.map (fun s => s.cols.flatMap (fun c => c.take s.len))).flatten := by
  induction l generalizing acc with
  | nil =>
    simp only [World.drop.go, Out.ok.injEq] at h
    simp [h.1]
  | cons s l ih =>
    unfold World.drop.go at h
    split at h
    · rename_i d _ heq
      unfold dropStorage at heq
      split at heq
      · simp at heq
      · simp only [Out.ok.injEq] at heq
        rw [ih _ h, ← heq.1]; simp
    · simp at h
    · simp at h

/-- The list of values `World.drop` reports (when it does not hit UB) is exactly the flattening
of `World.dropPerArch`, i.e. `dropFault`'s input covers precisely the values owned by the world
and `nd` of the driver is `nzCount` of that flattening. -/
theorem World.drop_ok_eq_flatten (w : World α) (vals : List α) (u : Unit)
    (h : w.drop = .ok vals u) : vals = w.dropPerArch.flatten := by
  have := World.drop_go_eq w.archs [] vals u h
  simpa [World.dropPerArch] using this

/-- `cloneFault`'s input flattens to the driver's `cloneOrder`. -/
theorem World.clonePerArch_flatten (w : World α) :
    w.clonePerArch.flatten =
      w.archs.flatMap (fun s =>
        (List.range s.len).flatMap (fun i => s.cols.filterMap (fun c => c[i]?))) := by
  simp [World.clonePerArch, List.flatMap_def]

/-- `dropFault`'s input flattens to the driver's `worldVals`. -/
theorem World.dropPerArch_flatten (w : World α) :
    w.dropPerArch.flatten =
      w.archs.flatMap (fun s => s.cols.flatMap (fun c => c.take s.len)) := by
  simp [World.dropPerArch, List.flatMap_def]

/-! ### non-vacuity: three archetypes, a zero-sized value (0) in the middle of the second -/

section Examples

private def isZ0 : Nat → Bool := fun v => v == 0
/-- archetype 0: `1 2`; archetype 1: `3 0 4 5` (zero-sized value in the middle); archetype 2: `0 6`;
plus an empty archetype in front of the last one. -/
private def ex : List (List Nat) := [[1, 2], [3, 0, 4, 5], [], [0, 6]]

-- clone: fault at the 3rd (0-based) non-zst value = `4`: archetype 0 dropped, `3 0` leaked
example : cloneFault isZ0 ex 3 = some ⟨[1, 2], [3, 0]⟩ := by decide
-- clone: fault at the first value of an archetype: nothing leaked
example : cloneFault isZ0 ex 2 = some ⟨[1, 2], []⟩ := by decide
-- clone: fault at the last value, behind an empty archetype and a leading zero-sized value
example : cloneFault isZ0 ex 5 = some ⟨[1, 2, 3, 0, 4, 5], [0]⟩ := by decide
example : cloneFault isZ0 ex 0 = some ⟨[], []⟩ := by decide
example : cloneFault isZ0 ex 6 = none := by decide
example : cloneFaultCounts isZ0 ex 3 0 0 = (2, 0, 1, 1) := by decide
example : cloneFaultCounts isZ0 ex 5 0 0 = (5, 1, 0, 1) := by decide
example : (cloneFault isZ0 ex 3).isSome ∧ 3 < ((ex.flatten).filter (fun v => !isZ0 v)).length := by
  decide

-- drop: fault at `3` (k = 2): `0 4 5` leaked (zero-sized one included), everything else dropped
example : dropFault isZ0 ex 2 = some ⟨[1, 2, 3, 0, 6], [0, 4, 5]⟩ := by decide
-- drop: fault at `4` (k = 3): the zero-sized value before it is dropped
example : dropFault isZ0 ex 3 = some ⟨[1, 2, 3, 0, 4, 0, 6], [5]⟩ := by decide
-- drop: fault at the last value of an archetype: nothing leaked
example : dropFault isZ0 ex 4 = some ⟨[1, 2, 3, 0, 4, 5, 0, 6], []⟩ := by decide
example : dropFault isZ0 ex 1 = some ⟨[1, 2, 3, 0, 4, 5, 0, 6], []⟩ := by decide
example : dropFault isZ0 ex 6 = none := by decide
example : dropFaultDriver isZ0 ex 2 false [] 0 0 = ([1, 2, 3, 0, 6], 2, 1) := by decide
example : dropFaultDriver isZ0 ex 3 false [] 0 0 = ([1, 2, 3, 0, 4, 0, 6], 1, 0) := by decide
-- the hypotheses of 5b are satisfiable together with a fault (distinct values, one zst)
example : (dropFault isZ0 [[1, 2], [3, 0, 4, 5], [6]] 2).isSome ∧
    ([[1, 2], [3, 0, 4, 5], [6]] : List (List Nat)).flatten.Nodup := by decide
-- trailing zero-sized values of the faulting archetype are leaked too
example : dropFault isZ0 [[1, 0], [2]] 0 = some ⟨[1, 2], [0]⟩ := by decide
-- an archetype consisting of zero-sized values only can never be the faulting one
example : dropFault isZ0 [[0, 0], [1]] 0 = some ⟨[0, 0, 1], []⟩ := by decide
example : cloneFault isZ0 [[0, 0], [1]] 0 = some ⟨[0, 0], []⟩ := by decide

end Examples

end Gecs

#print axioms Gecs.cloneFault_counts
#print axioms Gecs.cloneFault_counts_none
#print axioms Gecs.dropFault_driver
#print axioms Gecs.dropFault_driver_none
#print axioms Gecs.cloneFault_some_iff
#print axioms Gecs.cloneFault_struct
#print axioms Gecs.cloneFault_prefix
#print axioms Gecs.cloneFault_made_eq_take
#print axioms Gecs.cloneFault_dropped_whole_archetypes
#print axioms Gecs.cloneFault_leaked_then_fault
#print axioms Gecs.dropFault_some_iff
#print axioms Gecs.dropFault_struct
#print axioms Gecs.dropFault_partition
#print axioms Gecs.dropFault_nodup
#print axioms Gecs.dropFault_mem
#print axioms Gecs.dropFault_leak_one_archetype
#print axioms Gecs.dropFault_other_archetypes_dropped
#print axioms Gecs.World.drop_ok_eq_flatten
#print axioms Gecs.World.clonePerArch_flatten
#print axioms Gecs.World.dropPerArch_flatten

/-
Checked in a scratch file against the CURRENT `Gecs/Driver.lean` (not part of this module, because
the driver's local functions disappear once it is rewired to `cloneFault`/`dropFault`): the
restated functions ARE the driver's local functions, at `isZ v := decide (v.tok = 0)`.

  import Gecs.Driver
  import Gecs.Model.Faults
  open Gecs Gecs.Driver
  def isZV : Val → Bool := fun v => decide (v.tok = 0)
  theorem filt_nz (a : List Val) :
      a.filter (fun v => !isZV v) = a.filter (fun v => decide (v.tok ≠ 0)) := by
    congr 1; funext v; simp [isZV]
  theorem filt_z (a : List Val) : a.filter isZV = a.filter (fun v => decide (v.tok = 0)) := rfl
  theorem pre_eq (l : List Val) (k t z : Nat) :
      stepShort.split.pre l k t z = cloneFaultPre isZV l k t z := by
    induction l generalizing k t z with
    | nil => simp [stepShort.split.pre, cloneFaultPre]
    | cons v l ih =>
      unfold stepShort.split.pre cloneFaultPre
      simp only [isZV, decide_eq_true_eq, ih]
  theorem split_eq (archs : List (List Val)) (k dT dZ : Nat) :
      stepShort.split archs k dT dZ = cloneFaultCounts isZV archs k dT dZ := by
    induction archs generalizing k dT dZ with
    | nil => simp [stepShort.split, cloneFaultCounts]
    | cons a rest ih =>
      unfold stepShort.split cloneFaultCounts
      simp only [filt_nz, pre_eq, ih]
  theorem cut_eq (l : List Val) (k : Nat) (acc : List Val) :
      stepShort.go.cut l k acc = dropFaultCut isZV l k acc := by
    induction l generalizing k acc with
    | nil => simp [stepShort.go.cut, dropFaultCut]
    | cons v l ih =>
      unfold stepShort.go.cut dropFaultCut
      simp only [isZV, decide_eq_true_eq, ih]
  theorem go_eq (archs : List (List Val)) (k : Nat) (hit : Bool) (dr : List Val) (lT lZ : Nat) :
      stepShort.go archs k hit dr lT lZ = dropFaultDriver isZV archs k hit dr lT lZ := by
    induction archs generalizing k hit dr lT lZ with
    | nil => simp [stepShort.go, dropFaultDriver]
    | cons a rest ih =>
      unfold stepShort.go dropFaultDriver
      simp only [filt_nz, filt_z, cut_eq, ih]
  -- #print axioms split_eq / go_eq : [propext, Quot.sound]
-/
