/-
C17, iterator half: the generated world-level event iterator (`EcsEventIterator`, model
`EvIter` in Model/Events.lean) yields exactly the concatenation of the per-archetype logs, in
archetype declaration order, and reports an exact `size_hint` at every position.

`EvIter.Ok` is the invariant of the iterator state (`which` stays inside the archetype range,
every archetype before `which` is exhausted); `EvIter.remaining` is the abstract "items not yet
yielded".  `next_spec` is the one-step refinement, `sizeHint_exact` the hint, `drain_spec` the
whole run with the hint recorded before every call of `next`.
-/
import Gecs.Model.Events

namespace Gecs

/-! ### Generic list facts -/

/-- If the first `s` lists are empty, the concatenation starts at position `s`. -/
theorem flatten_eq_drop_of_prefix_nil {β : Type} :
    ∀ (l : List (List β)) (s : Nat), (∀ i, i < s → l[i]?.getD [] = []) →
      l.flatten = (l.drop s).flatten := by
  intro l
  induction l with
  | nil => intro s _; simp
  | cons a l ih =>
    intro s h
    cases s with
    | zero => simp
    | succ s =>
      have ha : a = [] := by
        have := h 0 (by omega)
        simpa using this
      have h' : ∀ i, i < s → l[i]?.getD [] = [] := by
        intro i hi
        have := h (i + 1) (by omega)
        simpa using this
      rw [List.drop_succ_cons, List.flatten_cons, ha, List.nil_append]
      exact ih s h'

/-- If the first `s` lists are empty and list `s` is `x :: xs`, then `x` is the head of the
concatenation, and replacing list `s` by `xs` gives the tail. -/
theorem flatten_eq_cons_set {β : Type} :
    ∀ (l : List (List β)) (s : Nat) (x : β) (xs : List β),
      (∀ i, i < s → l[i]?.getD [] = []) → l[s]?.getD [] = x :: xs →
      l.flatten = x :: (l.set s xs).flatten := by
  intro l
  induction l with
  | nil => intro s x xs _ h; simp at h
  | cons a l ih =>
    intro s x xs h hs
    cases s with
    | zero =>
      have ha : a = x :: xs := by simpa using hs
      simp [ha]
    | succ s =>
      have ha : a = [] := by
        have := h 0 (by omega)
        simpa using this
      have h' : ∀ i, i < s → l[i]?.getD [] = [] := by
        intro i hi
        have := h (i + 1) (by omega)
        simpa using this
      have hs' : l[s]?.getD [] = x :: xs := by simpa using hs
      rw [List.set_cons_succ, List.flatten_cons, List.flatten_cons, ha, List.nil_append,
        List.nil_append]
      exact ih s x xs h' hs'

/-- The emitted `size_hint` sum (over all indices `i` with `w ≤ i`) is the length of the
concatenation from position `w`. -/
theorem sum_filter_range_eq_length_drop {β : Type} :
    ∀ (l : List (List β)) (w : Nat),
      (((List.range l.length).filter (fun i => decide (w ≤ i))).map
        (fun i => (l.getD i []).length)).sum = ((l.drop w).flatten).length := by
  intro l
  induction l with
  | nil => intro w; simp
  | cons a l ih =>
    intro w
    rw [List.length_cons, List.range_succ_eq_map, List.filter_cons]
    cases w with
    | zero =>
      simpa [List.filter_map, Function.comp_def] using ih 0
    | succ w =>
      simpa [List.filter_map, Function.comp_def] using ih w

/-! ### Invariant and abstraction -/

/-- Invariant of the iterator state: `which` never exceeds the last archetype index (with zero
archetypes it stays `0`), and every archetype before `which` is exhausted. -/
structure EvIter.Ok (it : EvIter) : Prop where
  whichLt : it.which < it.iters.length ∨ (it.iters = [] ∧ it.which = 0)
  exhausted : ∀ i, i < it.which → it.iters.getD i [] = []

/-- The items not yet yielded: the concatenation of all remaining per-archetype slices. -/
def EvIter.remaining (it : EvIter) : List Key := it.iters.flatten

/-- Under the invariant, only archetypes at indices `≥ which` contribute. -/
theorem EvIter.remaining_eq_drop {it : EvIter} (h : it.Ok) :
    it.remaining = (it.iters.drop it.which).flatten := by
  unfold EvIter.remaining
  apply flatten_eq_drop_of_prefix_nil
  intro i hi
  have := h.exhausted i hi
  rwa [List.getD_eq_getElem?_getD] at this

theorem EvIter.start_ok (logs : List (List Key)) : (EvIter.start logs).Ok := by
  constructor
  · cases logs with
    | nil => right; exact ⟨rfl, rfl⟩
    | cons a l => left; simp [EvIter.start]
  · intro i hi
    simp [EvIter.start] at hi

@[simp] theorem EvIter.remaining_start (logs : List (List Key)) :
    (EvIter.start logs).remaining = logs.flatten := rfl

/-! ### One step -/

theorem EvIter.blocks_cons_hit {n i : Nat} {rest : List Nat} {it : EvIter} {x : Key}
    {xs : List Key} (h : it.which = i) (hg : it.iters.getD i [] = x :: xs) :
    EvIter.blocks n (i :: rest) it = (some x, { it with iters := it.iters.set i xs }) := by
  rw [EvIter.blocks, if_pos h, hg]

theorem EvIter.blocks_cons_empty {n i : Nat} {rest : List Nat} {it : EvIter}
    (h : it.which = i) (hg : it.iters.getD i [] = []) :
    EvIter.blocks n (i :: rest) it =
      EvIter.blocks n rest (if i + 1 < n then { it with which := it.which + 1 } else it) := by
  rw [EvIter.blocks, if_pos h, hg]

theorem EvIter.blocks_cons_miss {n i : Nat} {rest : List Nat} {it : EvIter}
    (h : it.which ≠ i) : EvIter.blocks n (i :: rest) it = EvIter.blocks n rest it := by
  rw [EvIter.blocks, if_neg h]

/-- What one call of `next` must do, relative to the abstract remaining items `rem`. -/
def EvIter.NextSpec (rem : List Key) : Option Key × EvIter → Prop
  | (some x, it') => rem = x :: it'.remaining ∧ it'.Ok
  | (none, it') => rem = [] ∧ it'.remaining = [] ∧ it'.Ok

/-- The blocks `s, s+1, …, n-1` of `next()`, entered with `s ≤ which`. -/
theorem EvIter.blocks_spec (n : Nat) :
    ∀ (m s : Nat) (it : EvIter), it.iters.length = n → s + m = n → s ≤ it.which → it.Ok →
      EvIter.NextSpec it.remaining (EvIter.blocks n (List.range' s m) it) := by
  intro m
  induction m with
  | zero =>
    intro s it hn hsm hs hok
    have hrem : it.remaining = [] := by
      rcases hok.whichLt with h | ⟨h, _⟩
      · omega
      · simp [EvIter.remaining, h]
    simp only [List.range'_zero, EvIter.blocks, EvIter.NextSpec]
    exact ⟨hrem, hrem, hok⟩
  | succ m ih =>
    intro s it hn hsm hs hok
    rw [List.range'_succ]
    by_cases hw : it.which = s
    · have hpre : ∀ i, i < s → it.iters[i]?.getD [] = [] := by
        intro i hi
        have := hok.exhausted i (by omega)
        rwa [List.getD_eq_getElem?_getD] at this
      cases hg : it.iters.getD s [] with
      | cons x xs =>
        rw [EvIter.blocks_cons_hit hw hg]
        simp only [EvIter.NextSpec]
        have hg' : it.iters[s]?.getD [] = x :: xs := by
          rwa [List.getD_eq_getElem?_getD] at hg
        refine ⟨flatten_eq_cons_set it.iters s x xs hpre hg', ?_, ?_⟩
        · left
          simp only [List.length_set]
          omega
        · intro i hi
          simp only at hi
          have hne : s ≠ i := by omega
          simp only [List.getD_eq_getElem?_getD, List.getElem?_set_ne hne]
          exact hpre i (by omega)
      | nil =>
        rw [EvIter.blocks_cons_empty hw hg]
        have hg' : it.iters[s]?.getD [] = [] := by
          rwa [List.getD_eq_getElem?_getD] at hg
        by_cases hlast : s + 1 < n
        · rw [if_pos hlast]
          have hok1 : EvIter.Ok { it with which := it.which + 1 } := by
            constructor
            · left; simp only; omega
            · intro i hi
              simp only at hi ⊢
              by_cases his : i = s
              · rw [his]; exact hg
              · exact hok.exhausted i (by omega)
          exact ih (s + 1) { it with which := it.which + 1 } hn (by omega)
            (by simp only; omega) hok1
        · rw [if_neg hlast]
          have hm : m = 0 := by omega
          subst hm
          have hrem : it.remaining = [] := by
            unfold EvIter.remaining
            rw [flatten_eq_drop_of_prefix_nil it.iters (s + 1)]
            · rw [List.drop_of_length_le (by omega)]; rfl
            · intro i hi
              by_cases his : i = s
              · rw [his]; exact hg'
              · exact hpre i (by omega)
          simp only [List.range'_zero, EvIter.blocks, EvIter.NextSpec]
          exact ⟨hrem, hrem, hok⟩
    · rw [EvIter.blocks_cons_miss hw]
      exact ih (s + 1) it hn (by omega) (by omega) hok

/-- `next` under the invariant, in terms of `NextSpec`. -/
theorem EvIter.next_nextSpec {it : EvIter} (h : it.Ok) : EvIter.NextSpec it.remaining it.next := by
  unfold EvIter.next
  rw [List.range_eq_range']
  exact EvIter.blocks_spec it.iters.length it.iters.length 0 it rfl (by omega) (by omega) h

/-- One call of `next`: either it yields the head of the remaining items and the tail remains,
or nothing remained and nothing remains; the invariant is preserved either way.  Logs with
empty lists anywhere (first, middle, last, all, or no archetypes at all) are covered. -/
theorem EvIter.next_spec {it : EvIter} (h : it.Ok) :
    match it.next with
    | (some x, it') => it.remaining = x :: it'.remaining ∧ it'.Ok
    | (none, it') => it.remaining = [] ∧ it'.remaining = [] ∧ it'.Ok := by
  have := EvIter.next_nextSpec h
  unfold EvIter.NextSpec at this
  exact this

/-- `next` never changes the number of per-archetype iterators. -/
theorem EvIter.blocks_length (n : Nat) :
    ∀ (idxs : List Nat) (it : EvIter),
      (EvIter.blocks n idxs it).2.iters.length = it.iters.length := by
  intro idxs
  induction idxs with
  | nil => intro it; rfl
  | cons i rest ih =>
    intro it
    by_cases hw : it.which = i
    · cases hg : it.iters.getD i [] with
      | cons x xs => rw [EvIter.blocks_cons_hit hw hg]; simp
      | nil =>
        rw [EvIter.blocks_cons_empty hw hg, ih]
        split <;> rfl
    · rw [EvIter.blocks_cons_miss hw, ih]

theorem EvIter.next_length (it : EvIter) : it.next.2.iters.length = it.iters.length :=
  EvIter.blocks_length _ _ _

/-- `which` never exceeds the last archetype index, at any position of the iteration. -/
theorem EvIter.next_which_lt {it : EvIter} (h : it.Ok) (hne : it.iters ≠ []) :
    it.next.2.which < it.iters.length := by
  have hs := EvIter.next_nextSpec h
  have hl := EvIter.next_length it
  have hok : it.next.2.Ok := by
    unfold EvIter.NextSpec at hs
    split at hs
    · rename_i heq; rw [heq]; exact hs.2
    · rename_i heq; rw [heq]; exact hs.2.2
  rcases hok.whichLt with h1 | ⟨h1, _⟩
  · omega
  · have : it.iters.length = 0 := by rw [← hl, h1]; rfl
    exact absurd (List.eq_nil_of_length_eq_zero this) hne

/-! ### `size_hint` -/

/-- `size_hint` is exact at every position: lower bound = upper bound = number of items not yet
yielded. -/
theorem EvIter.sizeHint_exact {it : EvIter} (h : it.Ok) :
    it.sizeHint = (it.remaining.length, some it.remaining.length) := by
  unfold EvIter.sizeHint
  simp only
  rw [sum_filter_range_eq_length_drop it.iters it.which, ← EvIter.remaining_eq_drop h]

/-! ### The whole run -/

/-- Draining with enough fuel yields exactly the remaining items, in order, and the hint
recorded before the `j`-th call of `next` is exactly the number of items not yet yielded:
`n, n-1, …, 1, 0` (the last one before the call that returns `None`). -/
theorem EvIter.drain_spec :
    ∀ (fuel : Nat) (it : EvIter), it.Ok → fuel ≥ it.remaining.length + 1 →
      (EvIter.drain fuel it).1 = it.remaining ∧
      (EvIter.drain fuel it).2 =
        (List.range (it.remaining.length + 1)).reverse.map (fun r => (r, some r)) := by
  intro fuel
  induction fuel with
  | zero => intro it _ hf; omega
  | succ fuel ih =>
    intro it hok hf
    have hs := EvIter.next_nextSpec hok
    have hh := EvIter.sizeHint_exact hok
    rw [EvIter.drain]
    cases hn : it.next with
    | mk o it' =>
      rw [hn] at hs
      cases o with
      | none =>
        obtain ⟨hrem, _, _⟩ := hs
        simp only
        rw [hh, hrem]
        exact ⟨rfl, rfl⟩
      | some x =>
        obtain ⟨hrem, hok'⟩ := hs
        simp only
        have hlen : it.remaining.length = it'.remaining.length + 1 := by rw [hrem]; rfl
        obtain ⟨h1, h2⟩ := ih it' hok' (by omega)
        rw [h1, h2, hh, hlen]
        refine ⟨hrem.symm, ?_⟩
        rw [List.range_succ (n := it'.remaining.length + 1), List.reverse_append]
        rfl

/-- The `j`-th recorded hint is exactly the number of items not yet yielded. -/
theorem EvIter.drain_hint_getElem {fuel : Nat} {it : EvIter} (hok : it.Ok)
    (hf : fuel ≥ it.remaining.length + 1) {j : Nat} (hj : j ≤ it.remaining.length) :
    (EvIter.drain fuel it).2[j]? =
      some (it.remaining.length - j, some (it.remaining.length - j)) := by
  rw [(EvIter.drain_spec fuel it hok hf).2, List.getElem?_map,
    List.getElem?_reverse (by simp; omega), List.length_range, List.getElem?_range (by omega)]
  simp only [Option.map_some, Option.some.injEq, Prod.mk.injEq]
  have : it.remaining.length + 1 - 1 - j = it.remaining.length - j := by omega
  rw [this]
  exact ⟨rfl, rfl⟩

/-- One hint per call of `next`: `n` successful calls and the final `None`. -/
theorem EvIter.drain_hints_length {fuel : Nat} {it : EvIter} (hok : it.Ok)
    (hf : fuel ≥ it.remaining.length + 1) :
    (EvIter.drain fuel it).2.length = it.remaining.length + 1 := by
  rw [(EvIter.drain_spec fuel it hok hf).2]
  simp

/-- `iter_created` / `iter_destroyed` yield exactly the concatenation of the per-archetype
logs, in archetype declaration order. -/
theorem EvIter.iter_yields (logs : List (List Key)) :
    (EvIter.drain (logs.flatten.length + 1) (EvIter.start logs)).1 = logs.flatten :=
  (EvIter.drain_spec _ _ (EvIter.start_ok logs) (Nat.le_refl _)).1

/-- … with an exact `size_hint` before every call. -/
theorem EvIter.iter_hints (logs : List (List Key)) :
    (EvIter.drain (logs.flatten.length + 1) (EvIter.start logs)).2 =
      (List.range (logs.flatten.length + 1)).reverse.map (fun r => (r, some r)) :=
  (EvIter.drain_spec _ _ (EvIter.start_ok logs) (Nat.le_refl _)).2

/-! ### Non-vacuity -/

section Examples

private def ka : Key := ⟨256, 1⟩
private def kb : Key := ⟨4294967295, 4294967295⟩
private def kc : Key := ⟨513, 7⟩

private def exLogs : List (List Key) := [[], [ka, kb], [], [kc], []]

-- empty logs first, in the middle, last
example : EvIter.drain 4 (EvIter.start exLogs) =
    ([ka, kb, kc], [(3, some 3), (2, some 2), (1, some 1), (0, some 0)]) := by decide
-- more fuel changes nothing
example : EvIter.drain 10 (EvIter.start exLogs) =
    ([ka, kb, kc], [(3, some 3), (2, some 2), (1, some 1), (0, some 0)]) := by decide
-- step by step: `which` moves over the empty logs and stops at the last index
example : (EvIter.start exLogs).next = (some ka, ⟨1, [[], [kb], [], [kc], []]⟩) := by decide
example : (⟨1, [[], [kb], [], [kc], []]⟩ : EvIter).next
    = (some kb, ⟨1, [[], [], [], [kc], []]⟩) := by decide
example : (⟨1, [[], [], [], [kc], []]⟩ : EvIter).next
    = (some kc, ⟨3, [[], [], [], [], []]⟩) := by decide
example : (⟨3, [[], [], [], [], []]⟩ : EvIter).next
    = (none, ⟨4, [[], [], [], [], []]⟩) := by decide
-- fused: a further call changes nothing
example : (⟨4, [[], [], [], [], []]⟩ : EvIter).next
    = (none, ⟨4, [[], [], [], [], []]⟩) := by decide
example : (⟨1, [[], [], [], [kc], []]⟩ : EvIter).sizeHint = (1, some 1) := by decide
-- the invariant holds at a mid-iteration state (hypothesis of `next_spec` is satisfiable
-- away from `start`)
example : (⟨3, [[], [], [], [kc], []]⟩ : EvIter).Ok := ⟨by decide, by decide⟩
example : (⟨4, [[], [], [], [], []]⟩ : EvIter).Ok := ⟨by decide, by decide⟩
-- all logs empty; no archetypes at all
example : EvIter.drain 1 (EvIter.start [[], [], []]) = ([], [(0, some 0)]) := by decide
example : EvIter.drain 1 (EvIter.start []) = ([], [(0, some 0)]) := by decide
example : (EvIter.start []).next = (none, EvIter.start []) := by decide
example : (EvIter.start []).Ok := EvIter.start_ok []
-- a single archetype
example : EvIter.drain 3 (EvIter.start [[ka, kb]]) =
    ([ka, kb], [(2, some 2), (1, some 1), (0, some 0)]) := by decide
-- the invariant is needed: a state that skipped a non-empty archetype under-reports
example : (⟨1, [[ka], [kb]]⟩ : EvIter).sizeHint = (1, some 1) ∧
    (⟨1, [[ka], [kb]]⟩ : EvIter).remaining.length = 2 := by decide
-- with too little fuel the drain is cut short (the fuel bound of `drain_spec` is needed for
-- the hints list; `remaining.length` alone does not record the final `0`)
example : (EvIter.drain 1 (EvIter.start [[ka, kb]])).1 = [ka] := by decide

end Examples

#print axioms EvIter.start_ok
#print axioms EvIter.remaining_start
#print axioms EvIter.remaining_eq_drop
#print axioms EvIter.next_spec
#print axioms EvIter.next_which_lt
#print axioms EvIter.sizeHint_exact
#print axioms EvIter.drain_spec
#print axioms EvIter.drain_hint_getElem
#print axioms EvIter.iter_yields
#print axioms EvIter.iter_hints

end Gecs
