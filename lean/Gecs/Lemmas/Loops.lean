/-
C06 / C07: the loops emitted by `ecs_iter!` and `ecs_iter_destroy!` (`Gecs/Model/Query.lean`).

Instrumentation.  The user closure `f : Closure σ α ρ` is wrapped, the model is untouched:
* `recArgs f : Closure (σ × List (List (Arg α))) α ρ` behaves like `f` and appends the argument
  list of every call to the second state component;
* `recR f : Closure (σ × List (Call α ρ)) α ρ` additionally records the answer of the call
  (`none` = the closure panicked), so that "the call that answered `Break`" can be named.
`*_sim`: running a loop / query with a wrapped closure and forgetting the log is running it
with `f`; forgetting only the answers turns the `recR` run into the `recArgs` run.

C06  `iterLoop_visits`, `iterLoop_done_entities`, `iterLoop_frame`, `iterLoop_bad_col`,
     `iterQuery_break_stops_all`, `iterQuery_total`, `iterQuery_not_ub`.
C07  `destroyLoop_spec` (+ `_wrapping`, `destroyLoop_entity_args`, `destroyLoop_not_ub`),
     `minted_direct_designates` (+ `destroyLoop_args_of_trace`),
     `destroyLoop_stale_version_witness`, `iterDestroyQuery_stop`, `iterDestroyQuery_not_ub`.
Overflow of a generation / of the archetype version is not excluded by hypothesis: the panic
ends the loop like a break and the theorems say what state it leaves.
-/
import Gecs.Model.Query
import Gecs.Lemmas.Inv
import Gecs.Lemmas.SwapRemove
import Gecs.Lemmas.Destroy
import Gecs.Lemmas.StorageOps

namespace Gecs
variable {α σ τ ρ : Type}

/-! ## Accessors on the model's result types
(declared in `Gecs` so that dot notation works; everything else lives in `Gecs.Loops`) -/

def CallRes.mapSt (π : τ → σ) : CallRes τ α ρ → CallRes σ α ρ
  | .ret st ws r => .ret (π st) ws r
  | .panic st ws => .panic (π st) ws

def LoopOut.mapSt (π : τ → σ) : LoopOut τ α → LoopOut σ α
  | .done st s => .done (π st) s
  | .stop st s => .stop (π st) s
  | .panic m st s => .panic m (π st) s
  | .ub m => .ub m

def QOut.mapSt (π : τ → σ) : QOut τ α → QOut σ α
  | .ok st w => .ok (π st) w
  | .panic m st w => .panic m (π st) w
  | .ub m => .ub m

def LoopOut.st? : LoopOut σ α → Option σ
  | .done st _ => some st
  | .stop st _ => some st
  | .panic _ st _ => some st
  | .ub _ => none

def LoopOut.stor? : LoopOut σ α → Option (Storage α)
  | .done _ s => some s
  | .stop _ s => some s
  | .panic _ _ s => some s
  | .ub _ => none

/-- The recorded calls of an instrumented run (`none` after UB). -/
def LoopOut.log? {β : Type} (o : LoopOut (σ × List β) α) : Option (List β) := o.st?.map Prod.snd

def QOut.st? : QOut σ α → Option σ
  | .ok st _ => some st
  | .panic _ st _ => some st
  | .ub _ => none

def QOut.world? : QOut σ α → Option (World α)
  | .ok _ w => some w
  | .panic _ _ w => some w
  | .ub _ => none

def QOut.log? {β : Type} (o : QOut (σ × List β) α) : Option (List β) := o.st?.map Prod.snd

end Gecs

namespace Gecs.Loops
variable {α σ τ ρ : Type}

/-! ## Instrumentation: wrapping the user closure -/

/-- One recorded closure call: the arguments it was given and what it answered
(`none` = it panicked). -/
structure Call (α ρ : Type) where
  args : List (Arg α)
  res : Option ρ

/-- `recArgs f` behaves like `f` and appends the argument list of every call to the second
state component. -/
def recArgs (f : Closure σ α ρ) : Closure (σ × List (List (Arg α))) α ρ :=
  fun st args =>
    match f st.1 args with
    | .ret st' ws r => .ret (st', st.2 ++ [args]) ws r
    | .panic st' ws => .panic (st', st.2 ++ [args]) ws

/-- `recR f` behaves like `f` and appends the argument list *and the answer* of every call to
the second state component. -/
def recR (f : Closure σ α ρ) : Closure (σ × List (Call α ρ)) α ρ :=
  fun st args =>
    match f st.1 args with
    | .ret st' ws r => .ret (st', st.2 ++ [⟨args, some r⟩]) ws r
    | .panic st' ws => .panic (st', st.2 ++ [⟨args, none⟩]) ws

/-- Projection simulation for `iterLoop`: if `g` projects onto `f` along `π`, so do the loops. -/
theorem iterLoop_sim (π : τ → σ) (g : Closure τ α Step) (f : Closure σ α Step)
    (h : ∀ t args, (g t args).mapSt π = f (π t) args) (idA : Nat) (ps : List Param) (v : Nat) :
    ∀ (idxs : List Nat) (t : τ) (s : Storage α),
      (iterLoop idA ps g v idxs t s).mapSt π = iterLoop idA ps f v idxs (π t) s := by
  intro idxs
  induction idxs with
  | nil => intro t s; rfl
  | cons idx rest ih =>
    intro t s
    unfold iterLoop
    cases hb : bindArgs idA s v idx ps with
    | none => rfl
    | some args =>
      simp only
      have hh := h t args
      cases hg : g t args with
      | panic t' ws =>
        rw [hg] at hh; simp only [CallRes.mapSt] at hh; rw [← hh]; rfl
      | ret t' ws r =>
        rw [hg] at hh; simp only [CallRes.mapSt] at hh; rw [← hh]
        cases r with
        | cont => simp only; exact ih t' _
        | brk => rfl

theorem destroyLoop_sim (π : τ → σ) (g : Closure τ α Step4) (f : Closure σ α Step4)
    (h : ∀ t args, (g t args).mapSt π = f (π t) args) (cfg : Cfg) (idA : Nat) (ps : List Param) :
    ∀ (idxs : List Nat) (t : τ) (s : Storage α),
      (destroyLoop cfg idA ps g idxs t s).mapSt π = destroyLoop cfg idA ps f idxs (π t) s := by
  intro idxs
  induction idxs with
  | nil => intro t s; rfl
  | cons idx rest ih =>
    intro t s
    unfold destroyLoop
    cases hv : slicesValid cfg s with
    | false => rfl
    | true =>
      simp only [if_true]
      cases hb : bindArgs idA s s.version idx ps with
      | none => rfl
      | some args =>
        simp only
        have hh := h t args
        cases hg : g t args with
        | panic t' ws =>
          rw [hg] at hh; simp only [CallRes.mapSt] at hh; rw [← hh]; rfl
        | ret t' ws r =>
          rw [hg] at hh; simp only [CallRes.mapSt] at hh; rw [← hh]
          cases r with
          | cont => simp only; exact ih t' _
          | brk => rfl
          | contDestroy =>
            simp only
            cases he : (applyWrites s idx ps ws).ents[idx]? with
            | none => rfl
            | some e =>
              simp only
              cases hd : destroyEnt cfg (applyWrites s idx ps ws) e with
              | ok r s2 => simp; exact ih t' _
              | panic m s2 => rfl
              | ub m => rfl
          | brkDestroy =>
            simp only
            cases he : (applyWrites s idx ps ws).ents[idx]? with
            | none => rfl
            | some e =>
              simp only
              cases hd : destroyEnt cfg (applyWrites s idx ps ws) e with
              | ok r s2 => simp [LoopOut.mapSt]
              | panic m s2 => rfl
              | ub m => rfl

theorem iterQuery_sim (π : τ → σ) (g : Closure τ α Step) (f : Closure σ α Step)
    (h : ∀ t args, (g t args).mapSt π = f (π t) args) (cfg : Cfg) :
    ∀ (q : Query) (t : τ) (w : World α),
      (iterQuery cfg g q t w).mapSt π = iterQuery cfg f q (π t) w := by
  intro q
  induction q with
  | nil => intro t w; rfl
  | cons qa rest ih =>
    intro t w
    unfold iterQuery
    cases ha : w.archs[qa.a]? with
    | none => rfl
    | some s =>
      simp only
      cases hv : slicesValid cfg s with
      | false => rfl
      | true =>
        simp only [if_true]
        rw [← iterLoop_sim π g f h]
        cases iterLoop (w.ids.getD qa.a ID_RANGE) qa.params g s.version (List.range s.len) t s with
        | done t' s' => simp only [LoopOut.mapSt]; exact ih t' _
        | stop t' s' => rfl
        | panic m t' s' => rfl
        | ub m => rfl

theorem iterDestroyQuery_sim (π : τ → σ) (g : Closure τ α Step4) (f : Closure σ α Step4)
    (h : ∀ t args, (g t args).mapSt π = f (π t) args) (cfg : Cfg) :
    ∀ (q : Query) (t : τ) (w : World α),
      (iterDestroyQuery cfg g q t w).mapSt π = iterDestroyQuery cfg f q (π t) w := by
  intro q
  induction q with
  | nil => intro t w; rfl
  | cons qa rest ih =>
    intro t w
    unfold iterDestroyQuery
    cases ha : w.archs[qa.a]? with
    | none => rfl
    | some s =>
      simp only
      rw [← destroyLoop_sim π g f h]
      cases destroyLoop cfg (w.ids.getD qa.a ID_RANGE) qa.params g (List.range s.len).reverse t s with
      | done t' s' => simp only [LoopOut.mapSt]; exact ih t' _
      | stop t' s' => rfl
      | panic m t' s' => rfl
      | ub m => rfl

theorem recArgs_proj (f : Closure σ α ρ) (t : σ × List (List (Arg α))) (args : List (Arg α)) :
    ((recArgs f) t args).mapSt Prod.fst = f t.1 args := by
  unfold recArgs; cases f t.1 args <;> rfl

theorem recR_proj (f : Closure σ α ρ) (t : σ × List (Call α ρ)) (args : List (Arg α)) :
    ((recR f) t args).mapSt Prod.fst = f t.1 args := by
  unfold recR; cases f t.1 args <;> rfl

/-- Forgetting the answers turns the `recR` log into the `recArgs` log. -/
def forgetRes (t : σ × List (Call α ρ)) : σ × List (List (Arg α)) := (t.1, t.2.map Call.args)

theorem recR_proj_recArgs (f : Closure σ α ρ) (t : σ × List (Call α ρ)) (args : List (Arg α)) :
    ((recR f) t args).mapSt forgetRes = (recArgs f) (forgetRes t) args := by
  unfold recR recArgs forgetRes; cases f t.1 args <;> simp [CallRes.mapSt]

/-! ## `bindArgs` -/

/-- What one parameter is bound to at dense index `idx`. -/
def bindArg (idA : Nat) (s : Storage α) (version idx : Nat) : Param → Option (Arg α)
  | .comp c m => ((s.cols.getD c [])[idx]?).map (Arg.comp m)
  | .ent | .entAny => (s.ents[idx]?).map (fun e => Arg.ent (mkKey e.slot idA e.ver))
  | .dir | .dirAny => some (Arg.dir (mkKey idx idA version))

theorem bindArgs_cons (idA : Nat) (s : Storage α) (v idx : Nat) (p : Param) (ps : List Param) :
    bindArgs idA s v idx (p :: ps) =
      (match bindArg idA s v idx p, bindArgs idA s v idx ps with
       | some a, some as => some (a :: as)
       | _, _ => none) := by
  cases p <;> rfl

/-- `bindArgs` is the pointwise `bindArg`, defined iff all of them are. -/
theorem bindArgs_eq_some_iff (idA : Nat) (s : Storage α) (v idx : Nat) :
    ∀ (ps : List Param) (args : List (Arg α)),
      bindArgs idA s v idx ps = some args ↔ ps.map (bindArg idA s v idx) = args.map some := by
  intro ps
  induction ps with
  | nil => intro args; cases args <;> simp [bindArgs]
  | cons p ps ih =>
    intro args
    rw [bindArgs_cons]
    cases hp : bindArg idA s v idx p with
    | none => cases args <;> simp [hp]
    | some a =>
      cases hb : bindArgs idA s v idx ps with
      | none =>
        cases args with
        | nil => simp
        | cons a' as =>
          simp only [List.map_cons, hp, List.cons.injEq, Option.some.injEq]
          constructor
          · intro h; cases h
          · rintro ⟨_, h2⟩; rw [← ih] at h2; rw [hb] at h2; cases h2
      | some as =>
        cases args with
        | nil => simp
        | cons a' as' =>
          simp only [List.map_cons, hp, List.cons.injEq, Option.some.injEq]
          rw [← ih, hb]; simp

theorem bindArgs_length {idA : Nat} {s : Storage α} {v idx : Nat} {ps : List Param}
    {args : List (Arg α)} (h : bindArgs idA s v idx ps = some args) : args.length = ps.length := by
  have := congrArg List.length ((bindArgs_eq_some_iff idA s v idx ps args).mp h)
  simpa using this.symm

/-- The argument bound for the `i`-th parameter. -/
theorem bindArgs_getElem? {idA : Nat} {s : Storage α} {v idx : Nat} {ps : List Param}
    {args : List (Arg α)} (h : bindArgs idA s v idx ps = some args) {i : Nat} {p : Param}
    (hp : ps[i]? = some p) : ∃ a, args[i]? = some a ∧ bindArg idA s v idx p = some a := by
  have hm := (bindArgs_eq_some_iff idA s v idx ps args).mp h
  have := congrArg (fun l => l[i]?) hm
  simp only [List.getElem?_map, hp, Option.map_some] at this
  cases ha : args[i]? with
  | none => rw [ha] at this; cases this
  | some a => rw [ha] at this; exact ⟨a, rfl, by simpa using this⟩

/-- `bindArgs` at `idx` only reads `ents[idx]` and row `idx` of the columns. -/
theorem bindArgs_congr (idA : Nat) (s s' : Storage α) (v idx : Nat)
    (he : s.ents[idx]? = s'.ents[idx]?)
    (hc : ∀ c, (s.cols.getD c [])[idx]? = (s'.cols.getD c [])[idx]?) (ps : List Param) :
    bindArgs idA s v idx ps = bindArgs idA s' v idx ps := by
  induction ps with
  | nil => rfl
  | cons p ps ih =>
    rw [bindArgs_cons, bindArgs_cons, ih]
    have : bindArg idA s v idx p = bindArg idA s' v idx p := by
      cases p with
      | comp c m => simp only [bindArg]; rw [hc c]
      | ent => simp only [bindArg, he]
      | entAny => simp only [bindArg, he]
      | dir => rfl
      | dirAny => rfl
    rw [this]

theorem bindArgs_isSome (idA : Nat) (s : Storage α) (v idx : Nat) :
    ∀ (ps : List Param), (∀ p ∈ ps, (bindArg idA s v idx p).isSome) →
      ∃ args, bindArgs idA s v idx ps = some args := by
  intro ps
  induction ps with
  | nil => intro _; exact ⟨[], rfl⟩
  | cons p ps ih =>
    intro h
    obtain ⟨as, has⟩ := ih (fun q hq => h q (List.mem_cons_of_mem _ hq))
    have hp := h p List.mem_cons_self
    cases hb : bindArg idA s v idx p with
    | none => rw [hb] at hp; cases hp
    | some a => exact ⟨a :: as, by rw [bindArgs_cons, hb, has]⟩

/-- The parameters' component columns exist in `s`. -/
def ColsExist (s : Storage α) (ps : List Param) : Prop :=
  ∀ p ∈ ps, ∀ (c : Nat) (m : Bool), p = .comp c m → c < s.cols.length

/-- Under the invariant every live dense index can be bound. -/
theorem bindArgs_of_inv {cfg : Cfg} {s : Storage α} (h : Inv cfg s) (idA v : Nat) {idx : Nat}
    (hidx : idx < s.len) {ps : List Param} (hps : ColsExist s ps) :
    ∃ args, bindArgs idA s v idx ps = some args := by
  apply bindArgs_isSome
  intro p hp
  cases p with
  | comp c m =>
    have hc := hps _ hp c m rfl
    have hmem : s.cols[c] ∈ s.cols := List.getElem_mem hc
    have hl := h.colsLen _ hmem
    simp [bindArg, hc, hl, hidx]
  | ent => simp [bindArg, h.entsLen, hidx]
  | entAny => simp [bindArg, h.entsLen, hidx]
  | dir => simp [bindArg]
  | dirAny => simp [bindArg]

/-- A missing component column makes every binding fail. -/
theorem bindArgs_bad_col (idA : Nat) (s : Storage α) (v idx : Nat) {ps : List Param}
    (hbad : ∃ p ∈ ps, ∃ (c : Nat) (m : Bool), p = .comp c m ∧ s.cols.length ≤ c) :
    bindArgs idA s v idx ps = none := by
  cases hb : bindArgs idA s v idx ps with
  | none => rfl
  | some args =>
    obtain ⟨p, hp, c, m, rfl, hc⟩ := hbad
    obtain ⟨i, hi⟩ := List.getElem?_of_mem hp
    obtain ⟨a, _, ha⟩ := bindArgs_getElem? hb hi
    have : s.cols[c]? = none := List.getElem?_eq_none_iff.mpr hc
    simp [bindArg, this] at ha

theorem mkKey_inj {i i' id v v' : Nat} (h : mkKey i id v = mkKey i' id v') : i = i' ∧ v = v' := by
  simp only [mkKey, Key.mk.injEq, ID_RANGE] at h
  omega

/-! ## `applyWrites` -/

theorem writeCell_getD_ne (s : Storage α) (d c : Nat) (x : α) (c' j : Nat) (hj : j ≠ d) :
    ((writeCell s d c x).cols.getD c' [])[j]? = (s.cols.getD c' [])[j]? := by
  simp only [writeCell, List.getD_eq_getElem?_getD, List.getElem?_modify]
  by_cases hc : c = c'
  · subst hc
    cases hs : s.cols[c]? with
    | none => simp
    | some col => simp [List.getElem?_set_ne (Ne.symm hj)]
  · simp [hc]

theorem writeCell_col_ne (s : Storage α) (d c : Nat) (x : α) (c' : Nat) (hc : c' ≠ c) :
    (writeCell s d c x).cols[c']? = s.cols[c']? := by
  simp only [writeCell, List.getElem?_modify]
  simp [Ne.symm hc]

/-- The effect of one positional write. -/
def writeOne (s : Storage α) (idx : Nat) : Param → Option α → Storage α
  | .comp c true, some x => writeCell s idx c x
  | _, _ => s

theorem applyWrites_cons (s : Storage α) (idx : Nat) (p : Param) (ps : List Param)
    (w : Option α) (ws : List (Option α)) :
    applyWrites s idx (p :: ps) (w :: ws) = applyWrites (writeOne s idx p w) idx ps ws := by
  cases p with
  | comp c m => cases m <;> cases w <;> rfl
  | ent => cases w <;> rfl
  | entAny => cases w <;> rfl
  | dir => cases w <;> rfl
  | dirAny => cases w <;> rfl

/-- Everything that writes through the `&mut` parameters `ps` at the rows `I` leave alone. -/
structure WFrame (I : List Nat) (ps : List Param) (s s' : Storage α) : Prop where
  ents : s'.ents = s.ents
  len : s'.len = s.len
  version : s'.version = s.version
  slots : s'.slots = s.slots
  capacity : s'.capacity = s.capacity
  freeHead : s'.freeHead = s.freeHead
  created : s'.created = s.created
  destroyed : s'.destroyed = s.destroyed
  ncols : s'.cols.length = s.cols.length
  /-- only rows in `I` are written -/
  rows : ∀ (c j : Nat), j ∉ I → (s'.cols.getD c [])[j]? = (s.cols.getD c [])[j]?
  /-- only columns bound mutably are written -/
  cols : ∀ (c : Nat), Param.comp c true ∉ ps → s'.cols[c]? = s.cols[c]?

theorem WFrame.refl (I : List Nat) (ps : List Param) (s : Storage α) : WFrame I ps s s :=
  ⟨rfl, rfl, rfl, rfl, rfl, rfl, rfl, rfl, rfl, fun _ _ _ => rfl, fun _ _ => rfl⟩

theorem WFrame.trans {I : List Nat} {ps : List Param} {s s' s'' : Storage α}
    (h1 : WFrame I ps s s') (h2 : WFrame I ps s' s'') : WFrame I ps s s'' :=
  ⟨h2.ents.trans h1.ents, h2.len.trans h1.len, h2.version.trans h1.version,
   h2.slots.trans h1.slots, h2.capacity.trans h1.capacity, h2.freeHead.trans h1.freeHead,
   h2.created.trans h1.created, h2.destroyed.trans h1.destroyed, h2.ncols.trans h1.ncols,
   fun c j hj => (h2.rows c j hj).trans (h1.rows c j hj),
   fun c hc => (h2.cols c hc).trans (h1.cols c hc)⟩

theorem WFrame.mono {I I' : List Nat} {ps ps' : List Param} {s s' : Storage α}
    (h : WFrame I ps s s') (hI : ∀ i ∈ I, i ∈ I') (hsub : ∀ p ∈ ps, p ∈ ps') : WFrame I' ps' s s' :=
  { h with
    rows := fun c j hj => h.rows c j (fun hm => hj (hI _ hm))
    cols := fun c hc => h.cols c (fun hm => hc (hsub _ hm)) }

theorem writeOne_frame (s : Storage α) (idx : Nat) (p : Param) (w : Option α) :
    WFrame [idx] [p] s (writeOne s idx p w) := by
  by_cases hw : ∃ c x, p = .comp c true ∧ w = some x
  · obtain ⟨c, x, rfl, rfl⟩ := hw
    refine ⟨rfl, rfl, rfl, rfl, rfl, rfl, rfl, rfl, by simp [writeOne, writeCell], ?_, ?_⟩
    · intro c' j hj; exact writeCell_getD_ne s idx c x c' j (by simpa using hj)
    · intro c' hc'
      apply writeCell_col_ne
      intro heq; subst heq; exact hc' List.mem_cons_self
  · have : writeOne s idx p w = s := by
      cases p with
      | comp c m =>
        cases m with
        | false => cases w <;> rfl
        | true =>
          cases w with
          | none => rfl
          | some x => exact absurd ⟨c, x, rfl, rfl⟩ hw
      | ent => cases w <;> rfl
      | entAny => cases w <;> rfl
      | dir => cases w <;> rfl
      | dirAny => cases w <;> rfl
    rw [this]; exact WFrame.refl _ _ _

theorem writeOne_inv {cfg : Cfg} {s : Storage α} (idx : Nat) (p : Param) (w : Option α)
    (h : Inv cfg s) : Inv cfg (writeOne s idx p w) := by
  cases p with
  | comp c m =>
    cases m with
    | false => cases w <;> exact h
    | true =>
      cases w with
      | none => exact h
      | some x => exact writeCell_inv h
  | ent => cases w <;> exact h
  | entAny => cases w <;> exact h
  | dir => cases w <;> exact h
  | dirAny => cases w <;> exact h

theorem applyWrites_frame (idx : Nat) : ∀ (ps : List Param) (ws : List (Option α)) (s : Storage α),
    WFrame [idx] ps s (applyWrites s idx ps ws) := by
  intro ps
  induction ps with
  | nil => intro ws s; simp only [applyWrites]; exact WFrame.refl _ _ _
  | cons p ps ih =>
    intro ws s
    cases ws with
    | nil => simp only [applyWrites]; exact WFrame.refl _ _ _
    | cons w ws =>
      rw [applyWrites_cons]
      exact ((writeOne_frame s idx p w).mono (fun _ h => h) (by simp)).trans
        ((ih ws _).mono (fun _ h => h) (fun q hq => List.mem_cons_of_mem _ hq))

theorem applyWrites_inv {cfg : Cfg} (idx : Nat) : ∀ (ps : List Param) (ws : List (Option α))
    (s : Storage α), Inv cfg s → Inv cfg (applyWrites s idx ps ws) := by
  intro ps
  induction ps with
  | nil => intro ws s h; simpa only [applyWrites] using h
  | cons p ps ih =>
    intro ws s h
    cases ws with
    | nil => simpa only [applyWrites] using h
    | cons w ws =>
      rw [applyWrites_cons]
      exact ih ws _ (writeOne_inv idx p w h)

/-- Every element but the last satisfies `P`. -/
def ContPrefix {β : Type} (P : β → Prop) (l : List β) : Prop :=
  ∀ (i : Nat) (c : β), l[i]? = some c → i + 1 < l.length → P c

theorem ContPrefix.nil {β : Type} (P : β → Prop) : ContPrefix P [] := by
  intro i c h; simp at h

theorem ContPrefix.single {β : Type} (P : β → Prop) (c : β) : ContPrefix P [c] := by
  intro i c' _ h2; simp at h2

theorem ContPrefix.cons {β : Type} {P : β → Prop} {c : β} {l : List β} (hc : P c)
    (h : ContPrefix P l) : ContPrefix P (c :: l) := by
  intro i c' h1 h2
  cases i with
  | zero => simp at h1; subst h1; exact hc
  | succ i => exact h i c' (by simpa using h1) (by simp at h2; omega)

theorem ContPrefix.of_all {β : Type} {P : β → Prop} {l : List β} (h : ∀ c ∈ l, P c) :
    ContPrefix P l := fun _ _ h1 _ => h _ (List.mem_of_getElem? h1)

theorem ContPrefix.append {β : Type} {P : β → Prop} {l1 l2 : List β} (h1 : ∀ c ∈ l1, P c)
    (h2 : ContPrefix P l2) : ContPrefix P (l1 ++ l2) := by
  induction l1 with
  | nil => simpa using h2
  | cons c l1 ih =>
    exact ContPrefix.cons (h1 c List.mem_cons_self) (ih (fun x hx => h1 x (List.mem_cons_of_mem _ hx)))

/-- The point of `ContPrefix`: an element that does not satisfy `P` is the last one. -/
theorem ContPrefix.last_of_not {β : Type} {P : β → Prop} {l : List β} (h : ContPrefix P l)
    {k : Nat} {c : β} (hk : l[k]? = some c) (hc : ¬ P c) : l.length = k + 1 := by
  have hlt := (List.getElem?_eq_some_iff.mp hk).1
  by_cases h2 : k + 1 < l.length
  · exact absurd (h k c hk h2) hc
  · omega

/-! ## C06: `ecs_iter!` -/

theorem iterLoop_recR_cons (idA : Nat) (ps : List Param) (f : Closure σ α Step) (v idx : Nat)
    (rest : List Nat) (st : σ) (L : List (Call α Step)) (s : Storage α) :
    iterLoop idA ps (recR f) v (idx :: rest) (st, L) s =
      (match bindArgs idA s v idx ps with
       | none => .panic "index out of bounds" (st, L) s
       | some args =>
         match f st args with
         | .panic st' ws => .panic "closure" (st', L ++ [⟨args, none⟩]) (applyWrites s idx ps ws)
         | .ret st' ws .brk => .stop (st', L ++ [⟨args, some .brk⟩]) (applyWrites s idx ps ws)
         | .ret st' ws .cont =>
           iterLoop idA ps (recR f) v rest (st', L ++ [⟨args, some .cont⟩])
             (applyWrites s idx ps ws)) := by
  rw [iterLoop]
  cases bindArgs idA s v idx ps with
  | none => rfl
  | some args =>
    simp only [recR]
    cases f st args with
    | panic st' ws => rfl
    | ret st' ws r => cases r <;> rfl

/-- `iterLoop` never reports UB. -/
theorem iterLoop_not_ub (idA : Nat) (ps : List Param) (f : Closure σ α Step) (v : Nat) :
    ∀ (idxs : List Nat) (st : σ) (s : Storage α) (m : String),
      iterLoop idA ps f v idxs st s ≠ .ub m := by
  intro idxs
  induction idxs with
  | nil => intro st s m h; simp [iterLoop] at h
  | cons idx rest ih =>
    intro st s m
    rw [iterLoop]
    cases bindArgs idA s v idx ps with
    | none => simp
    | some args =>
      simp only
      cases f st args with
      | panic st' ws => simp
      | ret st' ws r =>
        cases r with
        | cont => exact ih _ _ m
        | brk => simp

/-- `iterLoop_frame`: the loop only writes cells: rows in `idxs` of the columns bound `&mut`.
Handles, length, version, slots, capacity, free list and events are untouched. -/
theorem iterLoop_frame (idA : Nat) (ps : List Param) (f : Closure σ α Step) (v : Nat) :
    ∀ (idxs : List Nat) (st : σ) (s s' : Storage α),
      (iterLoop idA ps f v idxs st s).stor? = some s' → WFrame idxs ps s s' := by
  intro idxs
  induction idxs with
  | nil => intro st s s' h; simp [iterLoop, LoopOut.stor?] at h; subst h; exact WFrame.refl _ _ _
  | cons idx rest ih =>
    intro st s s'
    rw [iterLoop]
    have hw : ∀ ws, WFrame (idx :: rest) ps s (applyWrites s idx ps ws) := fun ws =>
      (applyWrites_frame idx ps ws s).mono (by simp) (fun _ h => h)
    cases bindArgs idA s v idx ps with
    | none => intro h; simp [LoopOut.stor?] at h; subst h; exact WFrame.refl _ _ _
    | some args =>
      simp only
      cases f st args with
      | panic st' ws => intro h; simp [LoopOut.stor?] at h; subst h; exact hw ws
      | ret st' ws r =>
        cases r with
        | cont =>
          intro h
          exact (hw ws).trans ((ih _ _ _ h).mono (fun _ h => List.mem_cons_of_mem _ h) (fun _ h => h))
        | brk => intro h; simp [LoopOut.stor?] at h; subst h; exact hw ws

/-- The loop preserves the representation invariant. -/
theorem iterLoop_inv {cfg : Cfg} (idA : Nat) (ps : List Param) (f : Closure σ α Step) (v : Nat) :
    ∀ (idxs : List Nat) (st : σ) (s s' : Storage α), Inv cfg s →
      (iterLoop idA ps f v idxs st s).stor? = some s' → Inv cfg s' := by
  intro idxs
  induction idxs with
  | nil => intro st s s' hi h; simp [iterLoop, LoopOut.stor?] at h; subst h; exact hi
  | cons idx rest ih =>
    intro st s s' hi
    rw [iterLoop]
    cases bindArgs idA s v idx ps with
    | none => intro h; simp [LoopOut.stor?] at h; subst h; exact hi
    | some args =>
      simp only
      cases f st args with
      | panic st' ws => intro h; simp [LoopOut.stor?] at h; subst h; exact applyWrites_inv _ _ _ _ hi
      | ret st' ws r =>
        cases r with
        | cont => intro h; exact ih _ _ _ (applyWrites_inv _ _ _ _ hi) h
        | brk => intro h; simp [LoopOut.stor?] at h; subst h; exact applyWrites_inv _ _ _ _ hi

/-- `iterLoop_bad_col`: a parameter bound to a column the storage does not have makes the
first step fail with "index out of bounds"; the closure is never called. -/
theorem iterLoop_bad_col (idA : Nat) (ps : List Param) (f : Closure σ α Step) (v : Nat) (st : σ)
    (s : Storage α) (hlen : 0 < s.len)
    (hbad : ∃ p ∈ ps, ∃ (c : Nat) (m : Bool), p = .comp c m ∧ s.cols.length ≤ c) :
    iterLoop idA ps f v (List.range s.len) st s = .panic "index out of bounds" st s := by
  obtain ⟨n, hn⟩ : ∃ n, s.len = n + 1 := ⟨s.len - 1, by omega⟩
  rw [hn, List.range_eq_range', List.range'_succ, iterLoop, bindArgs_bad_col idA s v 0 hbad]

/-- Shape of the recorded answers of one `ecs_iter!` loop, for any storage and index list:
every call but the last answered `Continue`; `.done` means one call per index, all
`Continue`; `.stop` means the last call answered `Break`; a closure panic is the last call. -/
theorem iterLoop_shape (idA : Nat) (ps : List Param) (f : Closure σ α Step) (v : Nat) :
    ∀ (idxs : List Nat) (st : σ) (L : List (Call α Step)) (s : Storage α),
      ∃ new, (iterLoop idA ps (recR f) v idxs (st, L) s).log? = some (L ++ new)
        ∧ new.length ≤ idxs.length
        ∧ ContPrefix (fun c => c.res = some .cont) new
        ∧ (∀ t' s', iterLoop idA ps (recR f) v idxs (st, L) s = .done t' s' →
            new.length = idxs.length ∧ ∀ c ∈ new, c.res = some .cont)
        ∧ (∀ t' s', iterLoop idA ps (recR f) v idxs (st, L) s = .stop t' s' →
            ∃ init c, new = init ++ [c] ∧ c.res = some .brk)
        ∧ (∀ m t' s', iterLoop idA ps (recR f) v idxs (st, L) s = .panic m t' s' →
            (m = "closure" ∧ ∃ init c, new = init ++ [c] ∧ c.res = none)
            ∨ (m = "index out of bounds" ∧ ∀ c ∈ new, c.res = some .cont)) := by
  intro idxs
  induction idxs with
  | nil =>
    intro st L s
    refine ⟨[], by simp [iterLoop, LoopOut.log?, LoopOut.st?], by simp, ContPrefix.nil _, ?_, ?_, ?_⟩
    · intro t' s' _; simp
    · intro t' s' h; simp [iterLoop] at h
    · intro m t' s' h; simp [iterLoop] at h
  | cons idx rest ih =>
    intro st L s
    rw [iterLoop_recR_cons]
    cases bindArgs idA s v idx ps with
    | none =>
      refine ⟨[], by simp [LoopOut.log?, LoopOut.st?], by simp, ContPrefix.nil _, ?_, ?_, ?_⟩
      · intro t' s' h; simp at h
      · intro t' s' h; simp at h
      · intro m t' s' h; simp at h; exact .inr ⟨h.1.symm, by simp⟩
    | some args =>
      simp only
      cases f st args with
      | panic st' ws =>
        refine ⟨[⟨args, none⟩], by simp [LoopOut.log?, LoopOut.st?], by simp,
          ContPrefix.single _ _, ?_, ?_, ?_⟩
        · intro t' s' h; simp at h
        · intro t' s' h; simp at h
        · intro m t' s' h; simp at h; exact .inl ⟨h.1.symm, [], _, rfl, rfl⟩
      | ret st' ws r =>
        cases r with
        | brk =>
          refine ⟨[⟨args, some .brk⟩], by simp [LoopOut.log?, LoopOut.st?], by simp,
            ContPrefix.single _ _, ?_, ?_, ?_⟩
          · intro t' s' h; simp at h
          · intro t' s' _; exact ⟨[], _, rfl, rfl⟩
          · intro m t' s' h; simp at h
        | cont =>
          simp only
          obtain ⟨new, h1, h2, h3, h4, h5, h6⟩ :=
            ih st' (L ++ [⟨args, some .cont⟩]) (applyWrites s idx ps ws)
          refine ⟨⟨args, some .cont⟩ :: new, by rw [h1]; simp, by simp; omega,
            ContPrefix.cons rfl h3, ?_, ?_, ?_⟩
          · intro t' s' h
            obtain ⟨ha, hb⟩ := h4 t' s' h
            refine ⟨by simp [ha], ?_⟩
            intro c hc
            rcases List.mem_cons.mp hc with rfl | hc
            · rfl
            · exact hb c hc
          · intro t' s' h
            obtain ⟨init, c, ha, hb⟩ := h5 t' s' h
            exact ⟨_ :: init, c, by rw [ha]; rfl, hb⟩
          · intro m t' s' h
            rcases h6 m t' s' h with ⟨hm, init, c, ha, hb⟩ | ⟨hm, hb⟩
            · exact .inl ⟨hm, _ :: init, c, by rw [ha]; rfl, hb⟩
            · refine .inr ⟨hm, ?_⟩
              intro c hc
              rcases List.mem_cons.mp hc with rfl | hc
              · rfl
              · exact hb c hc

/-- The calls of `ecs_iter!` over the dense indices `a, a+1, …, a+n-1`, starting from a
storage `s` that agrees with `s0` on the handles and on the rows `≥ a`: the `d`-th call gets
what `bindArgs` binds at `d` **in `s0`** (earlier calls only wrote rows `< d`). -/
theorem iterLoop_trace (idA : Nat) (ps : List Param) (f : Closure σ α Step) (v : Nat)
    (s0 : Storage α) :
    ∀ (n a : Nat) (st : σ) (L : List (Call α Step)) (s : Storage α),
      s.ents = s0.ents →
      (∀ c j, a ≤ j → (s.cols.getD c [])[j]? = (s0.cols.getD c [])[j]?) →
      (∀ d, a ≤ d → d < a + n → ∃ args, bindArgs idA s0 v d ps = some args) →
      ∃ (k : Nat) (new : List (Call α Step)), k ≤ n
        ∧ (iterLoop idA ps (recR f) v (List.range' a n) (st, L) s).log? = some (L ++ new)
        ∧ new.map (fun c => some c.args) = (List.range' a k).map (fun d => bindArgs idA s0 v d ps)
        ∧ ((∃ t' s', iterLoop idA ps (recR f) v (List.range' a n) (st, L) s = .done t' s'
              ∧ k = n ∧ new.map (·.res) = List.replicate k (some .cont))
          ∨ (∃ t' s' j, iterLoop idA ps (recR f) v (List.range' a n) (st, L) s = .stop t' s'
              ∧ k = j + 1 ∧ new.map (·.res) = List.replicate j (some .cont) ++ [some .brk])
          ∨ (∃ t' s' j, iterLoop idA ps (recR f) v (List.range' a n) (st, L) s
                = .panic "closure" t' s'
              ∧ k = j + 1 ∧ new.map (·.res) = List.replicate j (some .cont) ++ [none])) := by
  intro n
  induction n with
  | zero =>
    intro a st L s _ _ _
    refine ⟨0, [], Nat.le_refl _, by simp [iterLoop, LoopOut.log?, LoopOut.st?], by simp, ?_⟩
    exact .inl ⟨(st, L), s, by simp [iterLoop], rfl, by simp⟩
  | succ n ih =>
    intro a st L s hents hrows hbind
    obtain ⟨args, hargs⟩ := hbind a (Nat.le_refl _) (by omega)
    have hb : bindArgs idA s v a ps = some args := by
      rw [bindArgs_congr idA s s0 v a (by rw [hents]) (fun c => hrows c a (Nat.le_refl _))]
      exact hargs
    rw [List.range'_succ, iterLoop_recR_cons, hb]
    simp only
    cases f st args with
    | panic st' ws =>
      refine ⟨1, [⟨args, none⟩], by omega, by simp [LoopOut.log?, LoopOut.st?], ?_, ?_⟩
      · simp [List.range'_succ, hargs]
      · exact .inr (.inr ⟨_, _, 0, rfl, rfl, by simp⟩)
    | ret st' ws r =>
      cases r with
      | brk =>
        refine ⟨1, [⟨args, some .brk⟩], by omega, by simp [LoopOut.log?, LoopOut.st?], ?_, ?_⟩
        · simp [List.range'_succ, hargs]
        · exact .inr (.inl ⟨_, _, 0, rfl, rfl, by simp⟩)
      | cont =>
        simp only
        have hfr := applyWrites_frame a ps ws s
        obtain ⟨k, new, hk, hlog, hmap, hcases⟩ :=
          ih (a + 1) st' (L ++ [⟨args, some .cont⟩]) (applyWrites s a ps ws)
            (by rw [hfr.ents, hents])
            (fun c j hj => by
              rw [hfr.rows c j (by simp; omega)]; exact hrows c j (by omega))
            (fun d h1 h2 => hbind d (by omega) (by omega))
        refine ⟨k + 1, ⟨args, some .cont⟩ :: new, by omega, by rw [hlog]; simp, ?_, ?_⟩
        · rw [List.range'_succ]; simp [hmap, hargs]
        · rcases hcases with ⟨t', s', h1, h2, h3⟩ | ⟨t', s', j, h1, h2, h3⟩ | ⟨t', s', j, h1, h2, h3⟩
          · exact .inl ⟨t', s', h1, by omega, by simp [h3, List.replicate_succ]⟩
          · exact .inr (.inl ⟨t', s', j + 1, h1, by omega, by simp [h3, List.replicate_succ]⟩)
          · exact .inr (.inr ⟨t', s', j + 1, h1, by omega, by simp [h3, List.replicate_succ]⟩)

/-- **C06 `iterLoop_visits`.**  Under the invariant, with existing component columns, the
instrumented `ecs_iter!` loop over one archetype makes `k ≤ len` calls; call number `d`
(`d = 0, 1, …`) receives exactly what `bindArgs` binds at dense index `d` in the *initial*
storage `s` — its own handle `s.ents[d]`, its own row `d`, the direct handle `(d, s.version)` —
because earlier calls only wrote rows `< d`.  The loop ran to the end (`.done`) iff every call
answered `Continue`, and then `k = len`: every live entity exactly once.  Otherwise the loop
ended at the call that answered `Break` (`.stop`) or panicked (`.panic "closure"`): that call
is the last recorded one. -/
theorem iterLoop_visits {cfg : Cfg} {s : Storage α} (h : Inv cfg s) (idA : Nat) {ps : List Param}
    (hps : ColsExist s ps) (f : Closure σ α Step) (st : σ) :
    ∃ (k : Nat) (log : List (Call α Step)), k ≤ s.len
      ∧ (iterLoop idA ps (recR f) s.version (List.range s.len) (st, []) s).log? = some log
      ∧ log.map (fun c => some c.args)
          = (List.range k).map (fun d => bindArgs idA s s.version d ps)
      ∧ ((∃ t' s', iterLoop idA ps (recR f) s.version (List.range s.len) (st, []) s = .done t' s'
            ∧ k = s.len ∧ log.map (·.res) = List.replicate k (some .cont))
        ∨ (∃ t' s' j, iterLoop idA ps (recR f) s.version (List.range s.len) (st, []) s
              = .stop t' s'
            ∧ k = j + 1 ∧ log.map (·.res) = List.replicate j (some .cont) ++ [some .brk])
        ∨ (∃ t' s' j, iterLoop idA ps (recR f) s.version (List.range s.len) (st, []) s
              = .panic "closure" t' s'
            ∧ k = j + 1 ∧ log.map (·.res) = List.replicate j (some .cont) ++ [none])) := by
  have := iterLoop_trace idA ps f s.version s s.len 0 st [] s rfl (fun _ _ _ => rfl)
    (fun d _ hd => bindArgs_of_inv h idA s.version (by omega) hps)
  simpa [← List.range_eq_range'] using this

/-- Consequences of the args equation of `iterLoop_visits`, per call and per parameter. -/
theorem visits_arg {idA : Nat} {s : Storage α} {v k : Nat} {ps : List Param}
    {log : List (Call α ρ)}
    (hmap : log.map (fun c => some c.args) = (List.range k).map (fun d => bindArgs idA s v d ps))
    {d : Nat} {c : Call α ρ} (hd : log[d]? = some c) :
    d < k ∧ bindArgs idA s v d ps = some c.args
      ∧ ∀ (i : Nat) (p : Param), ps[i]? = some p →
          ∃ a, c.args[i]? = some a ∧ bindArg idA s v d p = some a := by
  have hlen : log.length = k := by simpa using congrArg List.length hmap
  have hdk : d < k := hlen ▸ (List.getElem?_eq_some_iff.mp hd).1
  have := congrArg (fun l => l[d]?) hmap
  simp only [List.getElem?_map, hd, Option.map_some, List.getElem?_range hdk] at this
  have hb : bindArgs idA s v d ps = some c.args := by simpa using this.symm
  exact ⟨hdk, hb, fun i p hp => bindArgs_getElem? hb hp⟩

/-- The three kinds of argument, spelled out: own handle, own cell, minted direct handle. -/
theorem bindArg_ent_eq {idA : Nat} {s : Storage α} {v d : Nat} {a : Arg α} {p : Param}
    (hp : p = .ent ∨ p = .entAny) (h : bindArg idA s v d p = some a) :
    ∃ e, s.ents[d]? = some e ∧ a = Arg.ent (mkKey e.slot idA e.ver) := by
  rcases hp with rfl | rfl <;>
  · simp only [bindArg, Option.map_eq_some_iff] at h
    obtain ⟨e, he, rfl⟩ := h
    exact ⟨e, he, rfl⟩

theorem bindArg_dir_eq {idA : Nat} {s : Storage α} {v d : Nat} {a : Arg α} {p : Param}
    (hp : p = .dir ∨ p = .dirAny) (h : bindArg idA s v d p = some a) :
    a = Arg.dir (mkKey d idA v) := by
  rcases hp with rfl | rfl <;>
  · simp only [bindArg, Option.some.injEq] at h
    exact h.symm

theorem bindArg_comp_eq {idA : Nat} {s : Storage α} {v d c : Nat} {m : Bool} {a : Arg α}
    (h : bindArg idA s v d (.comp c m) = some a) :
    ∃ col x, s.cols[c]? = some col ∧ col[d]? = some x ∧ a = Arg.comp m x := by
  simp only [bindArg, Option.map_eq_some_iff] at h
  obtain ⟨x, hx, rfl⟩ := h
  cases hc : s.cols[c]? with
  | none => simp [hc] at hx
  | some col => exact ⟨col, x, rfl, by simpa [hc] using hx, rfl⟩

/-- What the `i`-th argument is, by kind of parameter: the entity's own handle, its own cell,
or the direct handle minted from `(d, v)`. -/
theorem bindArgs_own {idA : Nat} {s : Storage α} {v d : Nat} {ps : List Param}
    {args : List (Arg α)} (h : bindArgs idA s v d ps = some args) {i : Nat} {p : Param}
    (hp : ps[i]? = some p) :
    match p with
    | .ent | .entAny => ∃ e, s.ents[d]? = some e ∧ args[i]? = some (Arg.ent (mkKey e.slot idA e.ver))
    | .dir | .dirAny => args[i]? = some (Arg.dir (mkKey d idA v))
    | .comp c m => ∃ col x, s.cols[c]? = some col ∧ col[d]? = some x
        ∧ args[i]? = some (Arg.comp m x) := by
  obtain ⟨a, ha, hb⟩ := bindArgs_getElem? h hp
  cases p with
  | ent => obtain ⟨e, he, rfl⟩ := bindArg_ent_eq (.inl rfl) hb; exact ⟨e, he, ha⟩
  | entAny => obtain ⟨e, he, rfl⟩ := bindArg_ent_eq (.inr rfl) hb; exact ⟨e, he, ha⟩
  | dir => rw [bindArg_dir_eq (.inl rfl) hb] at ha; exact ha
  | dirAny => rw [bindArg_dir_eq (.inr rfl) hb] at ha; exact ha
  | comp c m => obtain ⟨col, x, h1, h2, rfl⟩ := bindArg_comp_eq hb; exact ⟨col, x, h1, h2, ha⟩

/-- The dense handles, as keys of archetype `idA`, are pairwise distinct. -/
theorem ents_keys_nodup {cfg : Cfg} {s : Storage α} (h : Inv cfg s) (idA : Nat) :
    (s.ents.map (fun e => mkKey e.slot idA e.ver)).Nodup := by
  have hnd := ents_nodup h
  rw [List.nodup_iff_pairwise_ne] at hnd ⊢
  rw [List.pairwise_map]
  refine hnd.imp ?_
  intro a b hab heq
  obtain ⟨h1, h2⟩ := mkKey_inj heq
  apply hab; cases a; cases b; simp_all

/-- **C06, "exactly once".**  When the loop runs to the end, the entity parameter at
position `i` received, call after call, the keys of `s.ents` in dense order — each live
entity once (`ents_keys_nodup`). -/
theorem iterLoop_done_entities {cfg : Cfg} {s : Storage α} (h : Inv cfg s) (idA : Nat)
    {ps : List Param} (hps : ColsExist s ps) (f : Closure σ α Step) (st : σ)
    {t' : σ × List (Call α Step)} {s' : Storage α}
    (hdone : iterLoop idA ps (recR f) s.version (List.range s.len) (st, []) s = .done t' s')
    {i : Nat} {p : Param} (hi : ps[i]? = some p) (hp : p = .ent ∨ p = .entAny) :
    t'.2.map (fun c => c.args[i]?)
      = s.ents.map (fun e => some (Arg.ent (mkKey e.slot idA e.ver))) := by
  obtain ⟨k, log, hk, hlog, hmap, hcases⟩ := iterLoop_visits h idA hps f st
  rw [hdone] at hlog hcases
  simp only [LoopOut.log?, LoopOut.st?, Option.map_some, Option.some.injEq] at hlog
  subst hlog
  have hklen : k = s.len := by
    rcases hcases with ⟨_, _, _, h2, _⟩ | ⟨_, _, _, h1, _⟩ | ⟨_, _, _, h1, _⟩
    · exact h2
    · cases h1
    · cases h1
  have hlen : t'.2.length = k := by simpa using congrArg List.length hmap
  apply List.ext_getElem?
  intro d
  simp only [List.getElem?_map]
  cases hd : t'.2[d]? with
  | none =>
    have : s.ents.length ≤ d := by
      rw [h.entsLen, ← hklen, ← hlen]; exact List.getElem?_eq_none_iff.mp hd
    simp [List.getElem?_eq_none_iff.mpr this]
  | some c =>
    obtain ⟨_, _, hall⟩ := visits_arg hmap hd
    obtain ⟨a, ha, hba⟩ := hall i p hi
    obtain ⟨e, he, rfl⟩ := bindArg_ent_eq hp hba
    simp [he, ha]

/-! ### `iterQuery`: across archetypes -/

/-- Number of live entities of archetype `a` (0 if there is no such archetype). -/
def archLen (w : World α) (a : Nat) : Nat := ((w.archs[a]?).map (·.len)).getD 0

theorem archLen_setArch {w : World α} {a : Nat} {s s' : Storage α} (ha : w.archs[a]? = some s)
    (hlen : s'.len = s.len) (b : Nat) : archLen (w.setArch a s') b = archLen w b := by
  unfold archLen World.setArch
  simp only [List.getElem?_set]
  by_cases hab : a = b
  · subst hab
    obtain ⟨hlt, heq⟩ := List.getElem?_eq_some_iff.mp ha
    simp [hlt, heq, hlen]
  · simp [hab]

/-- Shape of the recorded answers of a whole `ecs_iter!`, for any world (no invariant needed):
every call but the last answered `Continue`; and if the query returned normally with all
answers `Continue`, there was one call per entity of every listed archetype. -/
theorem iterQuery_shape (cfg : Cfg) (f : Closure σ α Step) :
    ∀ (q : Query) (st : σ) (L : List (Call α Step)) (w : World α) (log : List (Call α Step)),
      (iterQuery cfg (recR f) q (st, L) w).log? = some log →
      ∃ new, log = L ++ new ∧ ContPrefix (fun c => c.res = some .cont) new
        ∧ (∀ t' w', iterQuery cfg (recR f) q (st, L) w = .ok t' w' →
            (∀ c ∈ new, c.res = some .cont) →
            new.length = (q.map (fun qa => archLen w qa.a)).sum)
        ∧ (∀ m t' w', iterQuery cfg (recR f) q (st, L) w = .panic m t' w' →
            (m = "closure" ∧ ∃ init c, new = init ++ [c] ∧ c.res = none)
            ∨ m = "index out of bounds") := by
  intro q
  induction q with
  | nil =>
    intro st L w log h
    simp [iterQuery, QOut.log?, QOut.st?] at h
    subst h
    refine ⟨[], by simp, ContPrefix.nil _, ?_, ?_⟩
    · intro _ _ _ _; simp
    · intro m t' w' h; simp [iterQuery] at h
  | cons qa rest ih =>
    intro st L w log
    rw [iterQuery]
    cases ha : w.archs[qa.a]? with
    | none => intro h; simp [QOut.log?, QOut.st?] at h
    | some s =>
      simp only
      cases hv : slicesValid cfg s with
      | false => intro h; simp [QOut.log?, QOut.st?] at h
      | true =>
        simp only [if_true]
        obtain ⟨new1, h1, h2, h3, h4, h5, h6⟩ :=
          iterLoop_shape (w.ids.getD qa.a ID_RANGE) qa.params f s.version (List.range s.len) st L s
        have hfr := iterLoop_frame (w.ids.getD qa.a ID_RANGE) qa.params (recR f) s.version
          (List.range s.len) (st, L) s
        cases ho : iterLoop (w.ids.getD qa.a ID_RANGE) qa.params (recR f) s.version
            (List.range s.len) (st, L) s with
        | done t' s' =>
          simp only
          rw [ho] at h1 h4 hfr
          simp only [LoopOut.log?, LoopOut.st?, Option.map_some, Option.some.injEq] at h1
          obtain ⟨hl1, hc1⟩ := h4 t' s' rfl
          have hlen : s'.len = s.len := (hfr s' rfl).len
          intro h
          have ht' : t' = (t'.1, L ++ new1) := by rw [← h1]
          rw [ht'] at h ⊢
          obtain ⟨new2, hlog, hcp, hcount, hpan⟩ := ih t'.1 (L ++ new1) _ log h
          refine ⟨new1 ++ new2, by rw [hlog]; simp, ContPrefix.append hc1 hcp, ?_, ?_⟩
          · intro t'' w'' hok hall
            have := hcount t'' w'' hok (fun c hc => hall c (List.mem_append_right _ hc))
            simp only [List.length_append, List.map_cons, List.sum_cons, this, hl1,
              List.length_range]
            have e1 : archLen w qa.a = s.len := by simp [archLen, ha]
            rw [e1]
            congr 2
            apply List.map_congr_left
            intro qb _
            exact archLen_setArch ha hlen qb.a
          · intro m t'' w'' hp
            rcases hpan m t'' w'' hp with ⟨hm, init, c, hi, hc⟩ | hm
            · exact .inl ⟨hm, new1 ++ init, c, by rw [hi]; simp, hc⟩
            · exact .inr hm
        | stop t' s' =>
          simp only
          rw [ho] at h1 h5
          simp only [LoopOut.log?, LoopOut.st?, Option.map_some, Option.some.injEq] at h1
          obtain ⟨init, c, hi, hc⟩ := h5 t' s' rfl
          intro h
          simp only [QOut.log?, QOut.st?, Option.map_some, Option.some.injEq] at h
          refine ⟨new1, by rw [← h, h1], h3, ?_, ?_⟩
          · intro _ _ _ hall
            have := hall c (by rw [hi]; simp)
            rw [hc] at this; cases this
          · intro m t'' w'' hp; cases hp
        | panic m t' s' =>
          simp only
          rw [ho] at h1 h6
          simp only [LoopOut.log?, LoopOut.st?, Option.map_some, Option.some.injEq] at h1
          intro h
          simp only [QOut.log?, QOut.st?, Option.map_some, Option.some.injEq] at h
          refine ⟨new1, by rw [← h, h1], h3, ?_, ?_⟩
          · intro _ _ hp; cases hp
          · intro m' t'' w'' hp
            cases hp
            rcases h6 m t' s' rfl with ⟨hm, hx⟩ | ⟨hm, _⟩
            · exact .inl ⟨hm, hx⟩
            · exact .inr hm
        | ub m => intro h; simp [QOut.log?, QOut.st?] at h

/-- **C06 `iterQuery_break_stops_all`.**  In the recorded calls of a whole `ecs_iter!`
(counted across archetypes), a call that did not answer `Continue` — it answered `Break` or
panicked — is the last one: if it is call number `k` (0-based), the total number of calls is
`k + 1`; no later entity and no later archetype is visited.  And if the query returns with
every answer `Continue`, the total is the sum of the lengths of the listed archetypes (an
archetype listed twice is visited twice and counted twice; no `Nodup` hypothesis is needed
with this formula). -/
theorem iterQuery_break_stops_all (cfg : Cfg) (f : Closure σ α Step) (q : Query) (st : σ)
    (w : World α) (log : List (Call α Step))
    (hlog : (iterQuery cfg (recR f) q (st, []) w).log? = some log) :
    (∀ k c, log[k]? = some c → c.res ≠ some .cont → log.length = k + 1)
    ∧ (∀ t' w', iterQuery cfg (recR f) q (st, []) w = .ok t' w' →
        (∀ c ∈ log, c.res = some .cont) →
        log.length = (q.map (fun qa => archLen w qa.a)).sum) := by
  obtain ⟨new, h1, h2, h3, _⟩ := iterQuery_shape cfg f q st [] w log hlog
  simp only [List.nil_append] at h1
  subst h1
  exact ⟨fun k c hk hc => h2.last_of_not hk hc, h3⟩

/-- Every listed archetype exists and has the columns its parameters are bound to. -/
def QueryOk (w : World α) (q : Query) : Prop :=
  ∀ qa ∈ q, ∃ s, w.archs[qa.a]? = some s ∧ ColsExist s qa.params

theorem winv_setArch {cfg : Cfg} {w : World α} (hw : WInv cfg w) (a : Nat) {s' : Storage α}
    (hs : Inv cfg s') : WInv cfg (w.setArch a s') := by
  refine ⟨by simp [World.setArch, hw.idsLen], hw.idsNodup, hw.idsLt, ?_⟩
  intro x hx
  simp only [World.setArch] at hx
  rcases List.mem_or_eq_of_mem_set hx with h | h
  · exact hw.inv x h
  · subst h; exact hs

theorem QueryOk.setArch {w : World α} {q : Query} (hq : QueryOk w q) {a : Nat} {s s' : Storage α}
    (ha : w.archs[a]? = some s) (hn : s'.cols.length = s.cols.length) :
    QueryOk (w.setArch a s') q := by
  intro qa hqa
  obtain ⟨sb, hsb, hcols⟩ := hq qa hqa
  simp only [World.setArch, List.getElem?_set]
  by_cases hab : a = qa.a
  · subst hab
    have : qa.a < w.archs.length := (List.getElem?_eq_some_iff.mp ha).1
    rw [ha] at hsb; cases hsb
    refine ⟨s', by simp [this], ?_⟩
    intro p hp c m hpc
    rw [hn]; exact hcols p hp c m hpc
  · exact ⟨sb, by simp [hab, hsb], hcols⟩

theorem slicesValid_of_inv {cfg : Cfg} {s : Storage α} (h : Inv cfg s) : slicesValid cfg s = true := by
  have hall : s.cols.all (fun c => c.length == s.len) = true := by
    rw [List.all_eq_true]; intro c hc; simp [h.colsLen c hc]
  have : s.len ≤ cfg.maxCap := Nat.le_trans h.lenCap h.capMax
  simp [slicesValid, h.entsLen, hall, this]

/-- Under the invariant, with existing columns, one `ecs_iter!` loop ends in `.done`, `.stop`
or a closure panic — never "index out of bounds", never UB. -/
theorem iterLoop_cases {cfg : Cfg} {s : Storage α} (h : Inv cfg s) (idA : Nat) {ps : List Param}
    (hps : ColsExist s ps) (f : Closure σ α Step) (st : σ) (L : List (Call α Step)) :
    (∃ t' s', iterLoop idA ps (recR f) s.version (List.range s.len) (st, L) s = .done t' s')
    ∨ (∃ t' s', iterLoop idA ps (recR f) s.version (List.range s.len) (st, L) s = .stop t' s')
    ∨ (∃ t' s', iterLoop idA ps (recR f) s.version (List.range s.len) (st, L) s
          = .panic "closure" t' s') := by
  obtain ⟨k, new, _, _, _, hc⟩ := iterLoop_trace idA ps f s.version s s.len 0 st L s rfl
    (fun _ _ _ => rfl) (fun d _ hd => bindArgs_of_inv h idA s.version (by omega) hps)
  rw [← List.range_eq_range'] at hc
  rcases hc with ⟨t', s', h1, _⟩ | ⟨t', s', _, h1, _⟩ | ⟨t', s', _, h1, _⟩
  · exact .inl ⟨t', s', h1⟩
  · exact .inr (.inl ⟨t', s', h1⟩)
  · exact .inr (.inr ⟨t', s', h1⟩)

/-- Under the world invariant a well-formed `ecs_iter!` never reaches UB and never fails with
"index out of bounds": it returns, or the closure panicked. -/
theorem iterQuery_cases {cfg : Cfg} (f : Closure σ α Step) :
    ∀ (q : Query) (st : σ) (L : List (Call α Step)) (w : World α), WInv cfg w → QueryOk w q →
      (∃ t' w', iterQuery cfg (recR f) q (st, L) w = .ok t' w' ∧ WInv cfg w')
      ∨ (∃ t' w', iterQuery cfg (recR f) q (st, L) w = .panic "closure" t' w' ∧ WInv cfg w') := by
  intro q
  induction q with
  | nil => intro st L w hw _; exact .inl ⟨_, _, rfl, hw⟩
  | cons qa rest ih =>
    intro st L w hw hq
    obtain ⟨s, ha, hcols⟩ := hq qa List.mem_cons_self
    have hinv : Inv cfg s := hw.inv s (List.mem_of_getElem? ha)
    rw [iterQuery, ha]
    simp only [slicesValid_of_inv hinv, if_true]
    have hfr := iterLoop_frame (w.ids.getD qa.a ID_RANGE) qa.params (recR f) s.version
      (List.range s.len) (st, L) s
    have hi := iterLoop_inv (cfg := cfg) (w.ids.getD qa.a ID_RANGE) qa.params (recR f) s.version
      (List.range s.len) (st, L) s
    rcases iterLoop_cases hinv (w.ids.getD qa.a ID_RANGE) hcols f st L with
      ⟨t', s', ho⟩ | ⟨t', s', ho⟩ | ⟨t', s', ho⟩
    · rw [ho] at hfr hi ⊢
      simp only
      have hq' : QueryOk (w.setArch qa.a s') rest :=
        QueryOk.setArch (fun x hx => hq x (List.mem_cons_of_mem _ hx)) ha (hfr s' rfl).ncols
      exact ih t'.1 t'.2 _ (winv_setArch hw qa.a (hi s' hinv rfl)) hq'
    · rw [ho] at hi ⊢
      exact .inl ⟨_, _, rfl, winv_setArch hw qa.a (hi s' hinv rfl)⟩
    · rw [ho] at hi ⊢
      exact .inr ⟨_, _, rfl, winv_setArch hw qa.a (hi s' hinv rfl)⟩

/-- **C06, totals.**  For a world satisfying the invariant and a well-formed query: the
instrumented `ecs_iter!` returns or the closure panicked (then the panicking call is the last
recorded one), and if no call answered `Break` or panicked, the number of calls is the sum of
the lengths of the listed archetypes. -/
theorem iterQuery_total {cfg : Cfg} {w : World α} (hw : WInv cfg w) {q : Query}
    (hq : QueryOk w q) (f : Closure σ α Step) (st : σ) :
    ∃ log, (iterQuery cfg (recR f) q (st, []) w).log? = some log
      ∧ ((∃ t' w', iterQuery cfg (recR f) q (st, []) w = .ok t' w')
        ∨ (∃ t' w' init c, iterQuery cfg (recR f) q (st, []) w = .panic "closure" t' w'
            ∧ log = init ++ [c] ∧ c.res = none))
      ∧ ((∀ c ∈ log, c.res = some .cont) →
          log.length = (q.map (fun qa => archLen w qa.a)).sum) := by
  rcases iterQuery_cases f q st [] w hw hq with ⟨t', w', ho, _⟩ | ⟨t', w', ho, _⟩
  · have hlog : (iterQuery cfg (recR f) q (st, []) w).log? = some t'.2 := by
      rw [ho]; rfl
    refine ⟨t'.2, hlog, .inl ⟨t', w', ho⟩, ?_⟩
    exact (iterQuery_break_stops_all cfg f q st w t'.2 hlog).2 t' w' ho
  · have hlog : (iterQuery cfg (recR f) q (st, []) w).log? = some t'.2 := by
      rw [ho]; rfl
    obtain ⟨new, h1, _, _, h4⟩ := iterQuery_shape cfg f q st [] w t'.2 hlog
    simp only [List.nil_append] at h1
    subst h1
    rcases h4 _ t' w' ho with ⟨_, init, c, hi, hc⟩ | hm
    · refine ⟨t'.2, hlog, .inr ⟨t', w', init, c, ho, hi, hc⟩, ?_⟩
      intro hall
      have := hall c (by rw [hi]; simp)
      rw [hc] at this; cases this
    · exact absurd hm (by decide)

/-! ## C07: `ecs_iter_destroy!` -/

theorem destroyLoop_recR_cons (cfg : Cfg) (idA : Nat) (ps : List Param) (f : Closure σ α Step4)
    (idx : Nat) (rest : List Nat) (st : σ) (L : List (Call α Step4)) (s : Storage α) :
    destroyLoop cfg idA ps (recR f) (idx :: rest) (st, L) s =
      (if slicesValid cfg s then
        match bindArgs idA s s.version idx ps with
        | none => .panic "index out of bounds" (st, L) s
        | some args =>
          match f st args with
          | .panic st' ws => .panic "closure" (st', L ++ [⟨args, none⟩]) (applyWrites s idx ps ws)
          | .ret st' ws r =>
            match r with
            | .cont => destroyLoop cfg idA ps (recR f) rest (st', L ++ [⟨args, some .cont⟩])
                (applyWrites s idx ps ws)
            | .brk => .stop (st', L ++ [⟨args, some .brk⟩]) (applyWrites s idx ps ws)
            | .contDestroy =>
              (match (applyWrites s idx ps ws).ents[idx]? with
              | none => .panic "index out of bounds" (st', L ++ [⟨args, some .contDestroy⟩])
                  (applyWrites s idx ps ws)
              | some e =>
                match destroyEnt cfg (applyWrites s idx ps ws) e with
                | .ok _ s2 =>
                  destroyLoop cfg idA ps (recR f) rest (st', L ++ [⟨args, some .contDestroy⟩]) s2
                | .panic m s2 => .panic m (st', L ++ [⟨args, some .contDestroy⟩]) s2
                | .ub m => .ub m)
            | .brkDestroy =>
              (match (applyWrites s idx ps ws).ents[idx]? with
              | none => .panic "index out of bounds" (st', L ++ [⟨args, some .brkDestroy⟩])
                  (applyWrites s idx ps ws)
              | some e =>
                match destroyEnt cfg (applyWrites s idx ps ws) e with
                | .ok _ s2 => .stop (st', L ++ [⟨args, some .brkDestroy⟩]) s2
                | .panic m s2 => .panic m (st', L ++ [⟨args, some .brkDestroy⟩]) s2
                | .ub m => .ub m)
      else .ub "get_all_slices_mut: data not valid up to len") := by
  rw [destroyLoop]
  cases slicesValid cfg s with
  | false => rfl
  | true =>
    simp only [if_true]
    cases bindArgs idA s s.version idx ps with
    | none => rfl
    | some args =>
      simp only [recR]
      cases f st args with
      | panic st' ws => rfl
      | ret st' ws r =>
        cases r with
        | cont => rfl
        | brk => rfl
        | contDestroy =>
          simp only
          cases (applyWrites s idx ps ws).ents[idx]? with
          | none => rfl
          | some e =>
            simp only
            cases destroyEnt cfg (applyWrites s idx ps ws) e <;> simp
        | brkDestroy =>
          simp only
          cases (applyWrites s idx ps ws).ents[idx]? with
          | none => rfl
          | some e =>
            simp only
            cases destroyEnt cfg (applyWrites s idx ps ws) e <;> simp

/-- The `(dense index, storage)` pairs that `destroyLoop` passes to `bindArgs` (as
`bindArgs idA s s.version idx ps`), in call order: the storage every closure call runs in.
Same control flow as `destroyLoop`, collecting the pair at the `bindArgs` site. -/
def destroyTrace (cfg : Cfg) (idA : Nat) (ps : List Param) (f : Closure σ α Step4) :
    List Nat → σ → Storage α → List (Nat × Storage α)
  | [], _, _ => []
  | idx :: rest, st, s =>
    if slicesValid cfg s then
      match bindArgs idA s s.version idx ps with
      | none => []
      | some args =>
        (idx, s) ::
          (match f st args with
          | .panic _ _ => []
          | .ret st' ws r =>
            let s1 := applyWrites s idx ps ws
            match r with
            | .cont => destroyTrace cfg idA ps f rest st' s1
            | .brk => []
            | .contDestroy | .brkDestroy =>
              match s1.ents[idx]? with
              | none => []
              | some e =>
                match destroyEnt cfg s1 e with
                | .ok _ s2 => if r = .brkDestroy then [] else destroyTrace cfg idA ps f rest st' s2
                | .panic _ _ => []
                | .ub _ => [])
    else []

theorem destroyTrace_recR_cons (cfg : Cfg) (idA : Nat) (ps : List Param) (f : Closure σ α Step4)
    (idx : Nat) (rest : List Nat) (st : σ) (L : List (Call α Step4)) (s : Storage α) :
    destroyTrace cfg idA ps (recR f) (idx :: rest) (st, L) s =
      (if slicesValid cfg s then
        match bindArgs idA s s.version idx ps with
        | none => []
        | some args =>
          (idx, s) ::
          (match f st args with
          | .panic _ _ => []
          | .ret st' ws r =>
            match r with
            | .cont => destroyTrace cfg idA ps (recR f) rest (st', L ++ [⟨args, some .cont⟩])
                (applyWrites s idx ps ws)
            | .brk => []
            | .contDestroy =>
              (match (applyWrites s idx ps ws).ents[idx]? with
              | none => []
              | some e =>
                match destroyEnt cfg (applyWrites s idx ps ws) e with
                | .ok _ s2 =>
                  destroyTrace cfg idA ps (recR f) rest (st', L ++ [⟨args, some .contDestroy⟩]) s2
                | .panic _ _ => []
                | .ub _ => [])
            | .brkDestroy => [])
      else []) := by
  rw [destroyTrace]
  cases slicesValid cfg s with
  | false => rfl
  | true =>
    simp only [if_true]
    cases bindArgs idA s s.version idx ps with
    | none => rfl
    | some args =>
      simp only [recR]
      cases f st args with
      | panic st' ws => rfl
      | ret st' ws r =>
        cases r with
        | cont => rfl
        | brk => rfl
        | contDestroy =>
          simp only
          cases (applyWrites s idx ps ws).ents[idx]? with
          | none => rfl
          | some e =>
            simp only
            cases destroyEnt cfg (applyWrites s idx ps ws) e <;> simp
        | brkDestroy =>
          simp only
          cases (applyWrites s idx ps ws).ents[idx]? with
          | none => rfl
          | some e =>
            simp only
            cases destroyEnt cfg (applyWrites s idx ps ws) e <;> simp

/-- The trace does not depend on the instrumentation. -/
theorem destroyTrace_sim (π : τ → σ) (g : Closure τ α Step4) (f : Closure σ α Step4)
    (h : ∀ t args, (g t args).mapSt π = f (π t) args) (cfg : Cfg) (idA : Nat) (ps : List Param) :
    ∀ (idxs : List Nat) (t : τ) (s : Storage α),
      destroyTrace cfg idA ps g idxs t s = destroyTrace cfg idA ps f idxs (π t) s := by
  intro idxs
  induction idxs with
  | nil => intro t s; rfl
  | cons idx rest ih =>
    intro t s
    rw [destroyTrace, destroyTrace]
    cases hv : slicesValid cfg s with
    | false => rfl
    | true =>
      simp only [if_true]
      cases hb : bindArgs idA s s.version idx ps with
      | none => rfl
      | some args =>
        simp only
        have hh := h t args
        cases hg : g t args with
        | panic t' ws =>
          rw [hg] at hh; simp only [CallRes.mapSt] at hh; rw [← hh]
        | ret t' ws r =>
          rw [hg] at hh; simp only [CallRes.mapSt] at hh; rw [← hh]
          cases r with
          | cont => simp only; rw [ih]
          | brk => rfl
          | contDestroy =>
            simp only
            cases he : (applyWrites s idx ps ws).ents[idx]? with
            | none => rfl
            | some e =>
              simp only
              cases hd : destroyEnt cfg (applyWrites s idx ps ws) e with
              | ok r s2 => simp; rw [ih]
              | panic m s2 => rfl
              | ub m => rfl
          | brkDestroy =>
            simp only
            cases he : (applyWrites s idx ps ws).ents[idx]? with
            | none => rfl
            | some e =>
              simp only
              cases hd : destroyEnt cfg (applyWrites s idx ps ws) e with
              | ok r s2 => simp
              | panic m s2 => rfl
              | ub m => rfl

/-! ### Invariant of the reverse loop -/

theorem getD_map_swapRemove (cols : List (List α)) (c i : Nat) :
    (cols.map (fun col => swapRemove col i)).getD c [] = swapRemove (cols.getD c []) i := by
  simp only [List.getD_eq_getElem?_getD, List.getElem?_map]
  cases cols[c]? with
  | none => simp [swapRemove]
  | some col => simp

/-- Where the element at position `d` of `swapRemove l i` came from. -/
def swapSrc (n i d : Nat) : Nat := if d = i then n - 1 else d

theorem swapRemove_getElem?_src {β : Type} (l : List β) (i d : Nat) (hi : i < l.length)
    (hd : d < l.length - 1) : (swapRemove l i)[d]? = l[swapSrc l.length i d]? := by
  rw [swapRemove_getElem? l i d hi]
  simp only [hd, if_true, swapSrc]
  split <;> rfl

/-- Invariant of `for idx in (0..i).rev()`: the unvisited prefix `0..i` of the current storage
`s1` — handles and rows — is still that of the initial storage `s0`. -/
structure DInv (cfg : Cfg) (ps : List Param) (s0 : Storage α) (i : Nat) (s1 : Storage α) :
    Prop where
  inv : Inv cfg s1
  le : i ≤ s1.len
  ents : s1.ents.take i = s0.ents.take i
  rows : ∀ (c j : Nat), j < i → (s1.cols.getD c [])[j]? = (s0.cols.getD c [])[j]?
  cols : ColsExist s1 ps

theorem DInv.ents_lt {cfg : Cfg} {ps : List Param} {s0 s1 : Storage α} {i : Nat}
    (h : DInv cfg ps s0 i s1) {j : Nat} (hj : j < i) : s1.ents[j]? = s0.ents[j]? := by
  have := congrArg (fun l => l[j]?) h.ents
  simpa [List.getElem?_take, hj] using this

theorem DInv.mono {cfg : Cfg} {ps : List Param} {s0 s1 : Storage α} {i i' : Nat}
    (h : DInv cfg ps s0 i s1) (hi : i' ≤ i) : DInv cfg ps s0 i' s1 := by
  refine ⟨h.inv, Nat.le_trans hi h.le, ?_, fun c j hj => h.rows c j (by omega), h.cols⟩
  have := congrArg (List.take i') h.ents
  simpa [List.take_take, Nat.min_eq_left hi] using this

/-- Writing row `i` keeps the prefix `0..i`. -/
theorem DInv.write {cfg : Cfg} {ps : List Param} {s0 s1 : Storage α} {i : Nat}
    (h : DInv cfg ps s0 (i + 1) s1) (ws : List (Option α)) :
    DInv cfg ps s0 i (applyWrites s1 i ps ws) := by
  have hfr := applyWrites_frame i ps ws s1
  have h' := h.mono (Nat.le_succ i)
  refine ⟨applyWrites_inv _ _ _ _ h.inv, by rw [hfr.len]; exact h'.le, by rw [hfr.ents]; exact h'.ents,
    ?_, ?_⟩
  · intro c j hj
    rw [hfr.rows c j (by simp; omega)]; exact h'.rows c j hj
  · intro p hp c m hpc; rw [hfr.ncols]; exact h.cols p hp c m hpc

/-- Swap-removing position `i` keeps the prefix `0..i`. -/
theorem DInv.destroy {cfg : Cfg} {ps : List Param} {s0 s1 s2 : Storage α} {i : Nat}
    (h : DInv cfg ps s0 i s1) (hi : i < s1.len) (hinv2 : Inv cfg s2)
    (hlen : s2.len = s1.len - 1) (hents : s2.ents = swapRemove s1.ents i)
    (hcols : s2.cols = s1.cols.map (fun c => swapRemove c i)) : DInv cfg ps s0 i s2 := by
  refine ⟨hinv2, by omega, ?_, ?_, ?_⟩
  · rw [hents, swapRemove_take _ _ (by rw [h.inv.entsLen]; exact hi)]; exact h.ents
  · intro c j hj
    rw [hcols, getD_map_swapRemove, ← h.rows c j hj]
    by_cases hc : c < s1.cols.length
    · have hl : (s1.cols.getD c []).length = s1.len := by
        simp only [List.getD_eq_getElem?_getD, List.getElem?_eq_getElem hc, Option.getD_some]
        exact h.inv.colsLen _ (List.getElem_mem hc)
      rw [swapRemove_getElem? _ _ _ (by rw [hl]; exact hi), hl]
      have h1 : j < s1.len - 1 := by omega
      have h2 : j ≠ i := by omega
      simp [h1, h2]
    · have : s1.cols.getD c [] = [] := by
        simp [List.getD_eq_getElem?_getD, List.getElem?_eq_none_iff.mpr (Nat.le_of_not_lt hc)]
      rw [this]; simp [swapRemove]
  · intro p hp c m hpc
    rw [hcols, List.length_map]; exact h.cols p hp c m hpc

/-- Relation between the storage `s1` at the start of a (sub-)run and the final storage `s'`,
`removed` being the handles destroyed in between, in order. -/
structure DRel (cfg : Cfg) (ps : List Param) (s1 s' : Storage α) (removed : List Ent) : Prop where
  /-- survivors and removed handles together are the handles at the start -/
  perm : (s'.ents ++ removed).Perm s1.ents
  /-- a survivor keeps its handle and, in every column not bound `&mut`, its cell -/
  assoc : ∀ (d : Nat) (e : Ent), s'.ents[d]? = some e → ∃ d0 : Nat, s1.ents[d0]? = some e
    ∧ ∀ (c : Nat), Param.comp c true ∉ ps → (s'.cols.getD c [])[d]? = (s1.cols.getD c [])[d0]?
  ncols : s'.cols.length = s1.cols.length
  capacity : s'.capacity = s1.capacity
  len : s'.len + removed.length = s1.len
  created : s'.created = s1.created
  /-- the `destroyed` event list grows by exactly the removed handles -/
  destroyed : s'.destroyed = if cfg.events then s1.destroyed ++ removed else s1.destroyed

theorem DRel.refl (cfg : Cfg) (ps : List Param) (s : Storage α) : DRel cfg ps s s [] :=
  ⟨by simp, fun d e h => ⟨d, h, fun _ _ => rfl⟩, rfl, rfl, rfl, rfl, by simp⟩

theorem DRel.trans {cfg : Cfg} {ps : List Param} {s1 s2 s3 : Storage α} {r1 r2 : List Ent}
    (h1 : DRel cfg ps s1 s2 r1) (h2 : DRel cfg ps s2 s3 r2) : DRel cfg ps s1 s3 (r1 ++ r2) := by
  refine ⟨?_, ?_, h2.ncols.trans h1.ncols, h2.capacity.trans h1.capacity, ?_,
    h2.created.trans h1.created, ?_⟩
  · have a : (s3.ents ++ (r1 ++ r2)).Perm ((s3.ents ++ r2) ++ r1) := by
      rw [List.append_assoc]; exact List.Perm.append_left _ List.perm_append_comm
    exact a.trans ((h2.perm.append_right r1).trans h1.perm)
  · intro d e hd
    obtain ⟨d1, hd1, hc1⟩ := h2.assoc d e hd
    obtain ⟨d0, hd0, hc0⟩ := h1.assoc d1 e hd1
    exact ⟨d0, hd0, fun c hc => (hc1 c hc).trans (hc0 c hc)⟩
  · have := h1.len; have := h2.len; simp only [List.length_append]; omega
  · rw [h2.destroyed, h1.destroyed]; split <;> simp

theorem DRel.write (cfg : Cfg) (ps : List Param) (s1 : Storage α) (i : Nat)
    (ws : List (Option α)) : DRel cfg ps s1 (applyWrites s1 i ps ws) [] := by
  have hfr := applyWrites_frame i ps ws s1
  refine ⟨by rw [hfr.ents]; simp, ?_, hfr.ncols, hfr.capacity, by simp [hfr.len], hfr.created,
    by simp [hfr.destroyed]⟩
  intro d e hd
  refine ⟨d, by rw [← hfr.ents]; exact hd, ?_⟩
  intro c hc
  simp only [List.getD_eq_getElem?_getD, hfr.cols c hc]

theorem DRel.destroy {cfg : Cfg} (ps : List Param) {s1 s2 : Storage α} {i : Nat} {e : Ent}
    (hinv : Inv cfg s1) (he : s1.ents[i]? = some e)
    (hlen : s2.len = s1.len - 1) (hcap : s2.capacity = s1.capacity)
    (hents : s2.ents = swapRemove s1.ents i)
    (hcols : s2.cols = s1.cols.map (fun c => swapRemove c i))
    (hcr : s2.created = s1.created)
    (hde : s2.destroyed = if cfg.events then s1.destroyed ++ [e] else s1.destroyed) :
    DRel cfg ps s1 s2 [e] := by
  have hi : i < s1.len := hinv.ents_lt he
  refine ⟨by rw [hents]; exact swapRemove_append_perm _ _ _ he, ?_, by rw [hcols]; simp, hcap,
    by simp [hlen]; omega, hcr, hde⟩
  intro d e' hd
  rw [hents] at hd
  have hdlt : d < s1.ents.length - 1 := by
    have := (List.getElem?_eq_some_iff.mp hd).1
    rwa [swapRemove_length] at this
  rw [swapRemove_getElem?_src _ _ _ (by rw [hinv.entsLen]; exact hi) hdlt] at hd
  refine ⟨_, hd, ?_⟩
  intro c _
  rw [hcols, getD_map_swapRemove]
  by_cases hc : c < s1.cols.length
  · have hl : (s1.cols.getD c []).length = s1.ents.length := by
      simp only [List.getD_eq_getElem?_getD, List.getElem?_eq_getElem hc, Option.getD_some]
      rw [hinv.entsLen]; exact hinv.colsLen _ (List.getElem_mem hc)
    rw [swapRemove_getElem?_src _ _ _ (by rw [hl, hinv.entsLen]; exact hi) (by rw [hl]; exact hdlt), hl]
  · have : s1.cols.getD c [] = [] := by
      simp [List.getD_eq_getElem?_getD, List.getElem?_eq_none_iff.mpr (Nat.le_of_not_lt hc)]
    rw [this]; simp [swapRemove]

/-! ### The reverse loop, one archetype -/

/-- How a loop ended. -/
inductive OKind where
  | done | stop | panic (m : String)
deriving DecidableEq

def OKind.out (k : OKind) (st : σ) (s : Storage α) : LoopOut σ α :=
  match k with
  | .done => .done st s
  | .stop => .stop st s
  | .panic m => .panic m st s

/-- The loop was ended by one of the two version-overflow panics of `force_destroy`. -/
def OKind.overflow (k : OKind) : Prop :=
  k = .panic "slot version overflow" ∨ k = .panic "arch version overflow"

/-- The call answered `Continue` or `ContinueDestroy`. -/
def Call.contLike (c : Call α Step4) : Bool :=
  match c.res with
  | some .cont | some .contDestroy => true
  | _ => false

/-- The call answered `ContinueDestroy` or `BreakDestroy`. -/
def Call.flagged (c : Call α Step4) : Bool :=
  match c.res with
  | some .contDestroy | some .brkDestroy => true
  | _ => false

/-- The visited entities whose call flagged them for destruction, in call order. -/
def flaggedEnts : List Ent → List (Call α Step4) → List Ent
  | e :: es, c :: cs => if c.flagged then e :: flaggedEnts es cs else flaggedEnts es cs
  | _, _ => []

/-- What ended the loop, in terms of the last recorded call. -/
def LastOk (k : OKind) (c : Call α Step4) : Prop :=
  match k with
  | .done => False
  | .stop => c.res = some .brk ∨ c.res = some .brkDestroy
  | .panic m => (m = "closure" ∧ c.res = none)
      ∨ ((m = "slot version overflow" ∨ m = "arch version overflow") ∧ c.flagged = true)

/-- Facts about one closure call: the dense index `idx` it visited, the storage `sj` it ran in
(the one passed to `bindArgs`), and the recorded call `c`. -/
structure StepOk (cfg : Cfg) (idA : Nat) (ps : List Param) (s0 : Storage α) (idx : Nat)
    (sj : Storage α) (c : Call α Step4) : Prop where
  inv : Inv cfg sj
  /-- the entity at `idx` is the one that was there in the initial storage, and the direct
  handle minted with the *current* version designates it -/
  ent : ∃ e : Ent, s0.ents[idx]? = some e ∧ sj.ents[idx]? = some e
      ∧ resolveDirect cfg sj idx sj.version = .ok (some (e.slot, idx)) sj
  /-- the recorded arguments are those bound in `sj` with the current version -/
  args : bindArgs idA sj sj.version idx ps = some c.args
  /-- … which are the handle and row `idx` of the initial storage -/
  args0 : bindArgs idA s0 sj.version idx ps = some c.args

/-- The entities at the visited positions, in the storages the calls ran in. -/
def visitedOf (tr : List (Nat × Storage α)) : List Ent := tr.filterMap (fun x => x.2.ents[x.1]?)

structure DFacts (cfg : Cfg) (idA : Nat) (ps : List Param) (s0 : Storage α) (i : Nat)
    (s1 : Storage α) (tr : List (Nat × Storage α)) (new : List (Call α Step4)) (kind : OKind)
    (s' : Storage α) (removed : List Ent) : Prop where
  final : DInv cfg ps s0 (i - new.length) s'
  rel : DRel cfg ps s1 s' removed
  trLen : tr.length = new.length
  lenLe : new.length ≤ i
  idxs : tr.map (·.1) = (List.range i).reverse.take new.length
  steps : ∀ x ∈ tr.zip new, StepOk cfg idA ps s0 x.1.1 x.1.2 x.2
  doneAll : kind = .done → new.length = i ∧ ∀ c ∈ new, c.contLike = true
  notDone : kind ≠ .done →
    ∃ init c, new = init ++ [c] ∧ (∀ x ∈ init, x.contLike = true) ∧ LastOk kind c
  removedEq : (¬ kind.overflow → removed = flaggedEnts (visitedOf tr) new)
    ∧ (kind.overflow → ∃ x, removed ++ [x] = flaggedEnts (visitedOf tr) new)
  visited : visitedOf tr = (s0.ents.take i).reverse.take new.length
  ovf : kind.overflow → ∃ v, nextVer cfg v = none

theorem take_succ_reverse_take {β : Type} (l : List β) (i n : Nat) (e : β) (he : l[i]? = some e) :
    (l.take (i + 1)).reverse.take (n + 1) = e :: (l.take i).reverse.take n := by
  have : l.take (i + 1) = l.take i ++ [e] := by rw [List.take_add_one, he]; rfl
  rw [this]; simp

theorem DFacts.nil {cfg : Cfg} {idA : Nat} {ps : List Param} {s0 s1 : Storage α}
    (hD : DInv cfg ps s0 0 s1) : DFacts cfg idA ps s0 0 s1 [] [] .done s1 [] := by
  refine ⟨hD, DRel.refl _ _ _, rfl, Nat.le_refl _, by simp, by simp, fun _ => ⟨rfl, by simp⟩,
    fun h => absurd rfl h, ⟨?_, ?_⟩, by simp [visitedOf], ?_⟩
  · intro _; simp [flaggedEnts, visitedOf]
  · intro h; rcases h with h | h <;> cases h
  · intro h; rcases h with h | h <;> cases h

theorem DFacts.cons {cfg : Cfg} {idA : Nat} {ps : List Param} {s0 s1 snext s' : Storage α}
    {i : Nat} {tr' : List (Nat × Storage α)} {new' : List (Call α Step4)} {kind : OKind}
    {removed' pre : List Ent} {c : Call α Step4} {e : Ent}
    (hstep : StepOk cfg idA ps s0 i s1 c) (he : s1.ents[i]? = some e)
    (hc : c.contLike = true) (hpre : pre = if c.flagged then [e] else [])
    (hrel : DRel cfg ps s1 snext pre)
    (T : DFacts cfg idA ps s0 i snext tr' new' kind s' removed') :
    DFacts cfg idA ps s0 (i + 1) s1 ((i, s1) :: tr') (c :: new') kind s' (pre ++ removed') := by
  have hvis : visitedOf ((i, s1) :: tr') = e :: visitedOf tr' := by simp [visitedOf, he]
  have hfl : flaggedEnts (e :: visitedOf tr') (c :: new') = pre ++ flaggedEnts (visitedOf tr') new' := by
    rw [hpre, flaggedEnts]; split <;> simp
  have he0 : s0.ents[i]? = some e := by
    obtain ⟨e', h1, h2, _⟩ := hstep.ent
    rw [he] at h2; cases h2; exact h1
  refine ⟨?_, hrel.trans T.rel, by simp [T.trLen], by simp; exact T.lenLe, ?_, ?_, ?_, ?_, ⟨?_, ?_⟩,
    ?_, T.ovf⟩
  · have : i + 1 - (c :: new').length = i - new'.length := by simp
    rw [this]; exact T.final
  · simp [List.range_succ, T.idxs]
  · intro x hx
    simp only [List.zip_cons_cons, List.mem_cons] at hx
    rcases hx with rfl | hx
    · exact hstep
    · exact T.steps x hx
  · intro hk
    obtain ⟨h1, h2⟩ := T.doneAll hk
    refine ⟨by simp [h1], ?_⟩
    intro x hx
    rcases List.mem_cons.mp hx with rfl | hx
    · exact hc
    · exact h2 x hx
  · intro hk
    obtain ⟨init, cl, h1, h2, h3⟩ := T.notDone hk
    refine ⟨c :: init, cl, by rw [h1]; rfl, ?_, h3⟩
    intro x hx
    rcases List.mem_cons.mp hx with rfl | hx
    · exact hc
    · exact h2 x hx
  · intro hk; rw [hvis, hfl, T.removedEq.1 hk]
  · intro hk
    obtain ⟨x, hx⟩ := T.removedEq.2 hk
    exact ⟨x, by rw [hvis, hfl, ← hx, List.append_assoc]⟩
  · rw [hvis, T.visited, List.length_cons, take_succ_reverse_take _ _ _ _ he0]

theorem DFacts.last {cfg : Cfg} {idA : Nat} {ps : List Param} {s0 s1 s' : Storage α}
    {i : Nat} {kind : OKind} {removed : List Ent} {c : Call α Step4} {e : Ent}
    (hstep : StepOk cfg idA ps s0 i s1 c) (he : s1.ents[i]? = some e)
    (hfinal : DInv cfg ps s0 i s') (hrel : DRel cfg ps s1 s' removed)
    (hk : LastOk kind c)
    (hrem : (¬ kind.overflow → removed = if c.flagged then [e] else [])
      ∧ (kind.overflow → removed = [] ∧ c.flagged = true))
    (hovf : kind.overflow → ∃ v, nextVer cfg v = none) :
    DFacts cfg idA ps s0 (i + 1) s1 [(i, s1)] [c] kind s' removed := by
  have he0 : s0.ents[i]? = some e := by
    obtain ⟨e', h1, h2, _⟩ := hstep.ent
    rw [he] at h2; cases h2; exact h1
  have hvis : visitedOf [(i, s1)] = [e] := by simp [visitedOf, he]
  have hfl : flaggedEnts [e] [c] = if c.flagged then [e] else [] := by
    rw [flaggedEnts]; split <;> simp [flaggedEnts]
  refine ⟨by simpa using hfinal, hrel, rfl, by simp, by simp [List.range_succ], ?_, ?_, ?_, ⟨?_, ?_⟩,
    ?_, hovf⟩
  · intro x hx
    simp only [List.zip_cons_cons, List.zip_nil_right, List.mem_singleton] at hx
    subst hx; exact hstep
  · intro h; subst h; exact absurd hk (by simp [LastOk])
  · intro _; exact ⟨[], c, rfl, by simp, hk⟩
  · intro h; rw [hvis, hfl]; exact hrem.1 h
  · intro h
    obtain ⟨h1, h2⟩ := hrem.2 h
    exact ⟨e, by rw [hvis, hfl, h1, h2]; simp⟩
  · rw [hvis, List.length_singleton, take_succ_reverse_take _ _ _ _ he0]; simp


/-- Main induction for `for idx in (0..i).rev()`. -/
theorem destroyLoop_main {cfg : Cfg} (idA : Nat) (ps : List Param) (f : Closure σ α Step4)
    (s0 : Storage α) :
    ∀ (i : Nat) (st : σ) (L : List (Call α Step4)) (s1 : Storage α), DInv cfg ps s0 i s1 →
      ∃ (kind : OKind) (t' : σ) (new : List (Call α Step4)) (s' : Storage α) (removed : List Ent),
        destroyLoop cfg idA ps (recR f) (List.range i).reverse (st, L) s1
            = kind.out (t', L ++ new) s'
        ∧ DFacts cfg idA ps s0 i s1
            (destroyTrace cfg idA ps (recR f) (List.range i).reverse (st, L) s1)
            new kind s' removed := by
  intro i
  induction i with
  | zero =>
    intro st L s1 hD
    exact ⟨.done, st, [], s1, [], by simp [destroyLoop, OKind.out],
      by simpa [destroyTrace] using DFacts.nil hD⟩
  | succ i ih =>
    intro st L s1 hD
    have hinv := hD.inv
    have hilt : i < s1.len := hD.le
    obtain ⟨args, hargs⟩ := bindArgs_of_inv hinv idA s1.version hilt hD.cols
    have hie : i < s1.ents.length := by rw [hinv.entsLen]; exact hilt
    obtain ⟨e, he⟩ : ∃ e, s1.ents[i]? = some e := ⟨_, List.getElem?_eq_getElem hie⟩
    have he0 : s0.ents[i]? = some e := by rw [← hD.ents_lt (Nat.lt_succ_self i)]; exact he
    have hargs0 : bindArgs idA s0 s1.version i ps = some args := by
      rw [← bindArgs_congr idA s1 s0 s1.version i (hD.ents_lt (Nat.lt_succ_self i))
        (fun c => hD.rows c i (Nat.lt_succ_self i))]
      exact hargs
    have hstep : ∀ r, StepOk cfg idA ps s0 i s1 ⟨args, r⟩ := fun r =>
      ⟨hinv, ⟨e, he0, he, resolveDirect_of_lt hinv he⟩, hargs, hargs0⟩
    have hnov1 : ¬ OKind.overflow (.panic "closure") := by simp [OKind.overflow]
    have hnov2 : ¬ OKind.overflow .stop := by simp [OKind.overflow]
    rw [List.range_succ, List.reverse_append, List.reverse_singleton, List.singleton_append,
      destroyLoop_recR_cons, destroyTrace_recR_cons]
    simp only [slicesValid_of_inv hinv, if_true, hargs]
    cases f st args with
    | panic st' ws =>
      simp only
      exact ⟨.panic "closure", st', [⟨args, none⟩], applyWrites s1 i ps ws, [], rfl,
        DFacts.last (hstep none) he (hD.write ws) (DRel.write cfg ps s1 i ws) (.inl ⟨rfl, rfl⟩)
          ⟨fun _ => by simp [Call.flagged], fun h => absurd h hnov1⟩ (fun h => absurd h hnov1)⟩
    | ret st' ws r =>
      have hDw := hD.write ws
      have hfr := applyWrites_frame i ps ws s1
      have hew : (applyWrites s1 i ps ws).ents[i]? = some e := by rw [hfr.ents]; exact he
      have hiw : i < (applyWrites s1 i ps ws).len := by rw [hfr.len]; exact hilt
      cases r with
      | cont =>
        simp only
        obtain ⟨kind, t', new, s', removed, hrun, T⟩ :=
          ih st' (L ++ [⟨args, some .cont⟩]) _ hDw
        refine ⟨kind, t', ⟨args, some .cont⟩ :: new, s', removed, by rw [hrun]; simp, ?_⟩
        have := DFacts.cons (pre := []) (hstep (some .cont)) he rfl (by simp [Call.flagged])
          (DRel.write cfg ps s1 i ws) T
        simpa using this
      | brk =>
        simp only
        exact ⟨.stop, st', [⟨args, some .brk⟩], applyWrites s1 i ps ws, [], rfl,
          DFacts.last (hstep _) he hDw (DRel.write cfg ps s1 i ws) (.inl rfl)
            ⟨fun _ => by simp [Call.flagged], fun h => absurd h hnov2⟩ (fun h => absurd h hnov2)⟩
      | contDestroy =>
        simp only [hew]
        rw [destroyEnt_of_mem hDw.inv hew]
        rcases forceDestroy_live cfg _ i e hDw.inv hew with
          ⟨row, s2, sv, av, hok, hinv2, _, _, _, _, hlen2, hcap2, _, hents2, _, hcols2, hcr2, hde2⟩
          | ⟨hp, hn⟩ | ⟨hp, hn⟩
        · rw [hok]
          simp only
          have hD2 : DInv cfg ps s0 i s2 := hDw.destroy hiw hinv2 hlen2 hents2 hcols2
          have hrel : DRel cfg ps s1 s2 ([] ++ [e]) :=
            (DRel.write cfg ps s1 i ws).trans
              (DRel.destroy ps hDw.inv hew hlen2 hcap2 hents2 hcols2 hcr2 hde2)
          obtain ⟨kind, t', new, s', removed, hrun, T⟩ :=
            ih st' (L ++ [⟨args, some .contDestroy⟩]) s2 hD2
          refine ⟨kind, t', ⟨args, some .contDestroy⟩ :: new, s', ([] ++ [e]) ++ removed,
            by rw [hrun]; simp, ?_⟩
          exact DFacts.cons (hstep (some .contDestroy)) he rfl rfl hrel T
        · rw [hp]
          simp only
          exact ⟨.panic "slot version overflow", st', [⟨args, some .contDestroy⟩],
            applyWrites s1 i ps ws, [], rfl,
            DFacts.last (hstep _) he hDw (DRel.write cfg ps s1 i ws)
              (.inr ⟨.inl rfl, rfl⟩) ⟨fun h => absurd (.inl rfl) h, fun _ => ⟨rfl, rfl⟩⟩
              (fun _ => ⟨_, hn⟩)⟩
        · rw [hp]
          simp only
          exact ⟨.panic "arch version overflow", st', [⟨args, some .contDestroy⟩],
            applyWrites s1 i ps ws, [], rfl,
            DFacts.last (hstep _) he hDw (DRel.write cfg ps s1 i ws)
              (.inr ⟨.inr rfl, rfl⟩) ⟨fun h => absurd (.inr rfl) h, fun _ => ⟨rfl, rfl⟩⟩
              (fun _ => ⟨_, hn⟩)⟩
      | brkDestroy =>
        simp only [hew]
        rw [destroyEnt_of_mem hDw.inv hew]
        rcases forceDestroy_live cfg _ i e hDw.inv hew with
          ⟨row, s2, sv, av, hok, hinv2, _, _, _, _, hlen2, hcap2, _, hents2, _, hcols2, hcr2, hde2⟩
          | ⟨hp, hn⟩ | ⟨hp, hn⟩
        · rw [hok]
          simp only
          have hD2 : DInv cfg ps s0 i s2 := hDw.destroy hiw hinv2 hlen2 hents2 hcols2
          have hrel : DRel cfg ps s1 s2 ([] ++ [e]) :=
            (DRel.write cfg ps s1 i ws).trans
              (DRel.destroy ps hDw.inv hew hlen2 hcap2 hents2 hcols2 hcr2 hde2)
          exact ⟨.stop, st', [⟨args, some .brkDestroy⟩], s2, [] ++ [e], rfl,
            DFacts.last (hstep _) he hD2 hrel (.inr rfl)
              ⟨fun _ => by simp [Call.flagged], fun h => absurd h hnov2⟩ (fun h => absurd h hnov2)⟩
        · rw [hp]
          simp only
          exact ⟨.panic "slot version overflow", st', [⟨args, some .brkDestroy⟩],
            applyWrites s1 i ps ws, [], rfl,
            DFacts.last (hstep _) he hDw (DRel.write cfg ps s1 i ws)
              (.inr ⟨.inl rfl, rfl⟩) ⟨fun h => absurd (.inl rfl) h, fun _ => ⟨rfl, rfl⟩⟩
              (fun _ => ⟨_, hn⟩)⟩
        · rw [hp]
          simp only
          exact ⟨.panic "arch version overflow", st', [⟨args, some .brkDestroy⟩],
            applyWrites s1 i ps ws, [], rfl,
            DFacts.last (hstep _) he hDw (DRel.write cfg ps s1 i ws)
              (.inr ⟨.inr rfl, rfl⟩) ⟨fun h => absurd (.inr rfl) h, fun _ => ⟨rfl, rfl⟩⟩
              (fun _ => ⟨_, hn⟩)⟩


theorem flaggedEnts_take : ∀ (es : List Ent) (cs : List (Call α Step4)),
    flaggedEnts (es.take cs.length) cs = flaggedEnts es cs
  | [], cs => by simp
  | e :: es, [] => by simp [flaggedEnts]
  | e :: es, c :: cs => by
    simp only [List.length_cons, List.take_succ_cons, flaggedEnts, flaggedEnts_take es cs]

theorem mem_zip_of_mem_left {β γ : Type} {l1 : List β} {l2 : List γ} (hl : l1.length = l2.length)
    {x : β} (hx : x ∈ l1) : ∃ y, (x, y) ∈ l1.zip l2 := by
  obtain ⟨j, hj⟩ := List.getElem?_of_mem hx
  have hjl : j < l2.length := hl ▸ (List.getElem?_eq_some_iff.mp hj).1
  refine ⟨l2[j], ?_⟩
  apply List.mem_of_getElem? (i := j)
  rw [List.getElem?_zip_eq_some]
  exact ⟨hj, List.getElem?_eq_getElem hjl⟩

theorem range_reverse_take_getElem? (n k j : Nat) (hk : k ≤ n) (hj : j < k) :
    ((List.range n).reverse.take k)[j]? = some (n - 1 - j) := by
  rw [List.getElem?_take, if_pos hj, List.getElem?_reverse (by simp; omega)]
  simp only [List.length_range]
  rw [List.getElem?_range (by omega)]

theorem DInv.init {cfg : Cfg} {s : Storage α} (h : Inv cfg s) {ps : List Param}
    (hps : ColsExist s ps) : DInv cfg ps s s.len s :=
  ⟨h, Nat.le_refl _, rfl, fun _ _ _ => rfl, hps⟩

/-- **C07 `destroyLoop_spec`.**  `ecs_iter_destroy!` over one archetype satisfying the
invariant, any closure, overflow panics included (a panic ends the loop like a break):

* the outcome is `.done`, `.stop` or `.panic` — never UB — and the invariant holds again;
* the closure is called on the entities alive at loop start in reverse dense order
  (`visited = D₀.reverse.take (number of calls)`): each at most once, and exactly once when the
  loop runs to the end (`.done`: number of calls `= len`);
* call `j` visits dense index `len-1-j` of the storage `sj` it runs in; `sj` satisfies the
  invariant, holds there the entity that was there initially, its arguments are those bound in
  `sj` with `sj`'s current version — equal to the handle and row of the *initial* storage —
  and the minted direct handle `(len-1-j, sj.version)` resolves to it (`StepOk`);
* every call but the last answered `Continue`/`ContinueDestroy`; unless `.done`, the loop
  stopped at the last recorded call, which answered `Break`/`BreakDestroy`, or panicked, or
  was flagged and hit a version overflow (`LastOk`);
* the removed entities are exactly the flagged ones: `(s'.ents ++ removed).Perm D₀` with
  `removed = flaggedEnts D₀.reverse log` (on an overflow panic the last flagged entity was
  *not* removed: `removed ++ [x] = flaggedEnts …`);
* `DRel`: survivors keep their handle and their cells in columns not bound `&mut`, the
  `destroyed` events are exactly `removed`, capacity and column count unchanged;
* `DInv`: the unvisited prefix (after an early stop) is untouched. -/
theorem destroyLoop_spec {cfg : Cfg} {s : Storage α} (h : Inv cfg s) (idA : Nat)
    {ps : List Param} (hps : ColsExist s ps) (f : Closure σ α Step4) (st : σ) :
    ∃ (kind : OKind) (t' : σ) (log : List (Call α Step4)) (s' : Storage α) (removed : List Ent),
      destroyLoop cfg idA ps (recR f) (List.range s.len).reverse (st, []) s
          = kind.out (t', log) s'
      ∧ Inv cfg s'
      ∧ log.length ≤ s.len
      ∧ visitedOf (destroyTrace cfg idA ps (recR f) (List.range s.len).reverse (st, []) s)
          = s.ents.reverse.take log.length
      ∧ (∀ j c, log[j]? = some c → ∃ sj,
          (destroyTrace cfg idA ps (recR f) (List.range s.len).reverse (st, []) s)[j]?
            = some (s.len - 1 - j, sj)
          ∧ StepOk cfg idA ps s (s.len - 1 - j) sj c)
      ∧ (kind = .done → log.length = s.len ∧ ∀ c ∈ log, c.contLike = true)
      ∧ (kind ≠ .done →
          ∃ init c, log = init ++ [c] ∧ (∀ x ∈ init, x.contLike = true) ∧ LastOk kind c)
      ∧ (s'.ents ++ removed).Perm s.ents
      ∧ (¬ kind.overflow → removed = flaggedEnts s.ents.reverse log)
      ∧ (kind.overflow → (∃ x, removed ++ [x] = flaggedEnts s.ents.reverse log)
          ∧ ∃ v, nextVer cfg v = none)
      ∧ DRel cfg ps s s' removed
      ∧ DInv cfg ps s (s.len - log.length) s' := by
  obtain ⟨kind, t', new, s', removed, hrun, F⟩ :=
    destroyLoop_main idA ps f s s.len st [] s (DInv.init h hps)
  have htake : s.ents.take s.len = s.ents := List.take_of_length_le (by rw [h.entsLen]; exact Nat.le_refl _)
  have hvis := F.visited
  rw [htake] at hvis
  have hfl : flaggedEnts (visitedOf (destroyTrace cfg idA ps (recR f) (List.range s.len).reverse
      (st, []) s)) new = flaggedEnts s.ents.reverse new := by
    rw [hvis, flaggedEnts_take]
  refine ⟨kind, t', new, s', removed, by simpa using hrun, F.final.inv, F.lenLe, hvis, ?_,
    F.doneAll, F.notDone, F.rel.perm, ?_, ?_, F.rel, F.final⟩
  · intro j c hj
    have hjn : j < new.length := (List.getElem?_eq_some_iff.mp hj).1
    have hjt : j < (destroyTrace cfg idA ps (recR f) (List.range s.len).reverse (st, []) s).length := by
      rw [F.trLen]; exact hjn
    obtain ⟨x, hx⟩ : ∃ x, (destroyTrace cfg idA ps (recR f) (List.range s.len).reverse
        (st, []) s)[j]? = some x := ⟨_, List.getElem?_eq_getElem hjt⟩
    have hx1 : x.1 = s.len - 1 - j := by
      have := congrArg (fun l => l[j]?) F.idxs
      simp only [List.getElem?_map, hx, Option.map_some,
        range_reverse_take_getElem? s.len new.length j F.lenLe hjn] at this
      exact Option.some.inj this
    have hz : (x, c) ∈ (destroyTrace cfg idA ps (recR f) (List.range s.len).reverse
        (st, []) s).zip new := by
      apply List.mem_of_getElem? (i := j)
      rw [List.getElem?_zip_eq_some]; exact ⟨hx, hj⟩
    have hs := F.steps (x, c) hz
    refine ⟨x.2, ?_, ?_⟩
    · rw [hx, ← hx1]
    · rw [← hx1]; exact hs
  · intro hk; rw [← hfl]; exact F.removedEq.1 hk
  · intro hk; rw [← hfl]; exact ⟨F.removedEq.2 hk, F.ovf hk⟩

/-- With `wrapping_version` (no overflow possible) the removed entities are exactly the
flagged ones, whatever the outcome. -/
theorem destroyLoop_spec_wrapping {cfg : Cfg} {s : Storage α} (h : Inv cfg s) (idA : Nat)
    {ps : List Param} (hps : ColsExist s ps) (f : Closure σ α Step4) (st : σ)
    (hwrap : cfg.wrapping = true) :
    ∃ (kind : OKind) (t' : σ) (log : List (Call α Step4)) (s' : Storage α),
      destroyLoop cfg idA ps (recR f) (List.range s.len).reverse (st, []) s
          = kind.out (t', log) s'
      ∧ (kind = .done ∨ kind = .stop ∨ kind = .panic "closure")
      ∧ (s'.ents ++ flaggedEnts s.ents.reverse log).Perm s.ents := by
  obtain ⟨kind, t', log, s', removed, h1, _, _, _, _, _, h7, h8, h9, h10, _⟩ :=
    destroyLoop_spec h idA hps f st
  have hno : ¬ kind.overflow := by
    intro hk
    obtain ⟨_, v, hv⟩ := h10 hk
    simp only [nextVer, hwrap, if_true] at hv
    split at hv <;> cases hv
  refine ⟨kind, t', log, s', h1, ?_, by rw [← h9 hno]; exact h8⟩
  cases kind with
  | done => exact .inl rfl
  | stop => exact .inr (.inl rfl)
  | panic m =>
    obtain ⟨_, c, _, _, hl⟩ := h7 (by simp)
    rcases hl with ⟨hm, _⟩ | ⟨hm, _⟩
    · subst hm; exact .inr (.inr rfl)
    · exact absurd (by rcases hm with rfl | rfl <;> simp [OKind.overflow]) hno

/-- **C07 `minted_direct_designates`.**  At every closure call of `ecs_iter_destroy!`, in the
storage `x.2` the closure runs in (the one passed to `bindArgs`, see `destroyTrace`), the
direct handle minted for the visited dense index `x.1` with the version read *at that step*
is accepted by `resolveDirect` and designates the visited entity, which is the entity that
was at that index when the loop started. -/
theorem minted_direct_designates {cfg : Cfg} {s : Storage α} (h : Inv cfg s) (idA : Nat)
    {ps : List Param} (hps : ColsExist s ps) (f : Closure σ α Step4) (st : σ) :
    ∀ x ∈ destroyTrace cfg idA ps f (List.range s.len).reverse st s,
      Inv cfg x.2 ∧ ∃ visited : Ent, s.ents[x.1]? = some visited ∧ x.2.ents[x.1]? = some visited
        ∧ resolveDirect cfg x.2 x.1 x.2.version = .ok (some (visited.slot, x.1)) x.2 := by
  intro x hx
  rw [← destroyTrace_sim Prod.fst (recR f) f (recR_proj f) cfg idA ps _ (st, [])] at hx
  obtain ⟨kind, t', new, s', removed, hrun, F⟩ :=
    destroyLoop_main idA ps f s s.len st [] s (DInv.init h hps)
  obtain ⟨c, hc⟩ := mem_zip_of_mem_left F.trLen hx
  have hs := F.steps (x, c) hc
  exact ⟨hs.inv, hs.ent⟩

/-- … and the arguments the closure receives at that call are the ones bound in that storage
with that version (so a `&EntityDirect` parameter carries exactly the handle above). -/
theorem destroyLoop_args_of_trace {cfg : Cfg} {s : Storage α} (h : Inv cfg s) (idA : Nat)
    {ps : List Param} (hps : ColsExist s ps) (f : Closure σ α Step4) (st : σ) :
    ∃ log, (destroyLoop cfg idA ps (recR f) (List.range s.len).reverse (st, []) s).log? = some log
      ∧ (destroyTrace cfg idA ps f (List.range s.len).reverse st s).map
          (fun x => bindArgs idA x.2 x.2.version x.1 ps) = log.map (fun c => some c.args) := by
  rw [← destroyTrace_sim Prod.fst (recR f) f (recR_proj f) cfg idA ps _ (st, [])]
  obtain ⟨kind, t', new, s', removed, hrun, F⟩ :=
    destroyLoop_main idA ps f s s.len st [] s (DInv.init h hps)
  refine ⟨new, by rw [hrun]; cases kind <;> simp [OKind.out, LoopOut.log?, LoopOut.st?], ?_⟩
  apply List.ext_getElem?
  intro j
  simp only [List.getElem?_map]
  cases hx : (destroyTrace cfg idA ps (recR f) (List.range s.len).reverse (st, []) s)[j]? with
  | none =>
    have := List.getElem?_eq_none_iff.mp hx
    rw [F.trLen] at this
    simp [List.getElem?_eq_none_iff.mpr this]
  | some x =>
    have hjn : j < new.length := F.trLen ▸ (List.getElem?_eq_some_iff.mp hx).1
    have hc : new[j]? = some new[j] := List.getElem?_eq_getElem hjn
    have hz : (x, new[j]) ∈ (destroyTrace cfg idA ps (recR f) (List.range s.len).reverse
        (st, []) s).zip new := by
      apply List.mem_of_getElem? (i := j)
      rw [List.getElem?_zip_eq_some]; exact ⟨hx, hc⟩
    have hs := F.steps _ hz
    simp [hc, hs.args]


/-- **C07, entity arguments.**  The entity parameter at position `i` received, call after
call, the keys of `D₀.reverse` (as many as there were calls): every call gets the handle of
the entity it visits, each entity alive at loop start at most once. -/
theorem destroyLoop_entity_args {cfg : Cfg} {s : Storage α} (h : Inv cfg s) (idA : Nat)
    {ps : List Param} (hps : ColsExist s ps) (f : Closure σ α Step4) (st : σ)
    {i : Nat} {p : Param} (hi : ps[i]? = some p) (hp : p = .ent ∨ p = .entAny) :
    ∃ log, (destroyLoop cfg idA ps (recR f) (List.range s.len).reverse (st, []) s).log? = some log
      ∧ log.map (fun c => c.args[i]?)
        = (s.ents.reverse.take log.length).map (fun e => some (Arg.ent (mkKey e.slot idA e.ver))) := by
  obtain ⟨kind, t', log, s', removed, h1, _, h3, _, h5, _⟩ := destroyLoop_spec h idA hps f st
  refine ⟨log, by rw [h1]; cases kind <;> simp [OKind.out, LoopOut.log?, LoopOut.st?], ?_⟩
  apply List.ext_getElem?
  intro j
  simp only [List.getElem?_map, List.getElem?_take]
  cases hj : log[j]? with
  | none =>
    have := List.getElem?_eq_none_iff.mp hj
    simp [Nat.not_lt.mpr this]
  | some c =>
    have hjn : j < log.length := (List.getElem?_eq_some_iff.mp hj).1
    obtain ⟨sj, _, hs⟩ := h5 j c hj
    obtain ⟨a, ha, hba⟩ := bindArgs_getElem? hs.args0 hi
    obtain ⟨e, he, rfl⟩ := bindArg_ent_eq hp hba
    have hjl : j < s.ents.length := by rw [h.entsLen]; omega
    rw [if_pos hjn, List.getElem?_reverse hjl, h.entsLen, he]
    simp [ha]

/-! ### Shape of the recorded answers, without any invariant; the whole query -/

theorem destroyLoop_shape (cfg : Cfg) (idA : Nat) (ps : List Param) (f : Closure σ α Step4) :
    ∀ (idxs : List Nat) (st : σ) (L : List (Call α Step4)) (s : Storage α)
      (log : List (Call α Step4)),
      (destroyLoop cfg idA ps (recR f) idxs (st, L) s).log? = some log →
      ∃ new, log = L ++ new ∧ ContPrefix (fun c => c.contLike = true) new
        ∧ (∀ t' s', destroyLoop cfg idA ps (recR f) idxs (st, L) s = .done t' s' →
            ∀ c ∈ new, c.contLike = true)
        ∧ (∀ t' s', destroyLoop cfg idA ps (recR f) idxs (st, L) s = .stop t' s' →
            ∃ init c, new = init ++ [c] ∧ (c.res = some .brk ∨ c.res = some .brkDestroy)) := by
  intro idxs
  induction idxs with
  | nil =>
    intro st L s log h
    simp [destroyLoop, LoopOut.log?, LoopOut.st?] at h
    subst h
    exact ⟨[], by simp, ContPrefix.nil _, by simp, by intro t' s' h; simp [destroyLoop] at h⟩
  | cons idx rest ih =>
    intro st L s log
    rw [destroyLoop_recR_cons]
    -- terminal outcomes with a last call `c` (or none)
    have hterm1 : ∀ (c : Call α Step4) (o : LoopOut (σ × List (Call α Step4)) α),
        o.log? = some (L ++ [c]) → (∀ t' s', o ≠ .done t' s') →
        (∀ t' s', o = .stop t' s' → c.res = some .brk ∨ c.res = some .brkDestroy) →
        o.log? = some log →
        ∃ new, log = L ++ new ∧ ContPrefix (fun c => c.contLike = true) new
          ∧ (∀ t' s', o = .done t' s' → ∀ c ∈ new, c.contLike = true)
          ∧ (∀ t' s', o = .stop t' s' →
              ∃ init c, new = init ++ [c] ∧ (c.res = some .brk ∨ c.res = some .brkDestroy)) := by
      intro c o ho hnd hst h
      rw [ho] at h; cases h
      exact ⟨[c], rfl, ContPrefix.single _ _, fun t' s' hd => absurd hd (hnd t' s'),
        fun t' s' hs => ⟨[], c, rfl, hst t' s' hs⟩⟩
    have hcons : ∀ (c : Call α Step4) (st' : σ) (s1 : Storage α), c.contLike = true →
        (destroyLoop cfg idA ps (recR f) rest (st', L ++ [c]) s1).log? = some log →
        ∃ new, log = L ++ new ∧ ContPrefix (fun c => c.contLike = true) new
          ∧ (∀ t' s', destroyLoop cfg idA ps (recR f) rest (st', L ++ [c]) s1 = .done t' s' →
              ∀ c ∈ new, c.contLike = true)
          ∧ (∀ t' s', destroyLoop cfg idA ps (recR f) rest (st', L ++ [c]) s1 = .stop t' s' →
              ∃ init c, new = init ++ [c] ∧ (c.res = some .brk ∨ c.res = some .brkDestroy)) := by
      intro c st' s1 hc h
      obtain ⟨new, h1, h2, h3, h4⟩ := ih st' (L ++ [c]) s1 log h
      refine ⟨c :: new, by rw [h1]; simp, ContPrefix.cons hc h2, ?_, ?_⟩
      · intro t' s' hd x hx
        rcases List.mem_cons.mp hx with rfl | hx
        · exact hc
        · exact h3 t' s' hd x hx
      · intro t' s' hs
        obtain ⟨init, cl, ha, hb⟩ := h4 t' s' hs
        exact ⟨c :: init, cl, by rw [ha]; rfl, hb⟩
    cases slicesValid cfg s with
    | false => intro h; simp [LoopOut.log?, LoopOut.st?] at h
    | true =>
      simp only [if_true]
      cases bindArgs idA s s.version idx ps with
      | none =>
        intro h
        simp only [LoopOut.log?, LoopOut.st?, Option.map_some, Option.some.injEq] at h
        subst h
        refine ⟨[], by simp, ContPrefix.nil _, ?_, ?_⟩
        · intro t' s' h; cases h
        · intro t' s' h; cases h
      | some args =>
        simp only
        cases f st args with
        | panic st' ws =>
          exact hterm1 ⟨args, none⟩ _ rfl (by intro _ _ h; cases h) (by intro _ _ h; cases h)
        | ret st' ws r =>
          cases r with
          | cont => exact hcons ⟨args, some .cont⟩ st' _ rfl
          | brk =>
            exact hterm1 ⟨args, some .brk⟩ _ rfl (by intro _ _ h; cases h) (fun _ _ _ => .inl rfl)
          | contDestroy =>
            simp only
            cases (applyWrites s idx ps ws).ents[idx]? with
            | none =>
              exact hterm1 ⟨args, some .contDestroy⟩ _ rfl (by intro _ _ h; cases h)
                (by intro _ _ h; cases h)
            | some e =>
              simp only
              cases destroyEnt cfg (applyWrites s idx ps ws) e with
              | ok r s2 => exact hcons ⟨args, some .contDestroy⟩ st' s2 rfl
              | panic m s2 =>
                exact hterm1 ⟨args, some .contDestroy⟩ _ rfl (by intro _ _ h; cases h)
                  (by intro _ _ h; cases h)
              | ub m => intro h; simp [LoopOut.log?, LoopOut.st?] at h
          | brkDestroy =>
            simp only
            cases (applyWrites s idx ps ws).ents[idx]? with
            | none =>
              exact hterm1 ⟨args, some .brkDestroy⟩ _ rfl (by intro _ _ h; cases h)
                (by intro _ _ h; cases h)
            | some e =>
              simp only
              cases destroyEnt cfg (applyWrites s idx ps ws) e with
              | ok r s2 =>
                exact hterm1 ⟨args, some .brkDestroy⟩ _ rfl (by intro _ _ h; cases h)
                  (fun _ _ _ => .inr rfl)
              | panic m s2 =>
                exact hterm1 ⟨args, some .brkDestroy⟩ _ rfl (by intro _ _ h; cases h)
                  (by intro _ _ h; cases h)
              | ub m => intro h; simp [LoopOut.log?, LoopOut.st?] at h

theorem iterDestroyQuery_shape (cfg : Cfg) (f : Closure σ α Step4) :
    ∀ (q : Query) (st : σ) (L : List (Call α Step4)) (w : World α) (log : List (Call α Step4)),
      (iterDestroyQuery cfg (recR f) q (st, L) w).log? = some log →
      ∃ new, log = L ++ new ∧ ContPrefix (fun c => c.contLike = true) new := by
  intro q
  induction q with
  | nil =>
    intro st L w log h
    simp [iterDestroyQuery, QOut.log?, QOut.st?] at h
    subst h
    exact ⟨[], by simp, ContPrefix.nil _⟩
  | cons qa rest ih =>
    intro st L w log
    rw [iterDestroyQuery]
    cases ha : w.archs[qa.a]? with
    | none => intro h; simp [QOut.log?, QOut.st?] at h
    | some s =>
      simp only
      have hsh := destroyLoop_shape cfg (w.ids.getD qa.a ID_RANGE) qa.params f
        (List.range s.len).reverse st L s
      cases ho : destroyLoop cfg (w.ids.getD qa.a ID_RANGE) qa.params (recR f)
          (List.range s.len).reverse (st, L) s with
      | done t' s' =>
        simp only
        rw [ho] at hsh
        obtain ⟨new1, h1, _, h3, _⟩ := hsh t'.2 rfl
        intro h
        have ht' : t' = (t'.1, L ++ new1) := by rw [← h1]
        rw [ht'] at h
        obtain ⟨new2, hlog, hcp⟩ := ih t'.1 (L ++ new1) _ log h
        exact ⟨new1 ++ new2, by rw [hlog]; simp, ContPrefix.append (h3 t' s' rfl) hcp⟩
      | stop t' s' =>
        simp only
        rw [ho] at hsh
        obtain ⟨new1, h1, h2, _⟩ := hsh t'.2 rfl
        intro h
        simp only [QOut.log?, QOut.st?, Option.map_some, Option.some.injEq] at h
        exact ⟨new1, by rw [← h, h1], h2⟩
      | panic m t' s' =>
        simp only
        rw [ho] at hsh
        obtain ⟨new1, h1, h2, _⟩ := hsh t'.2 rfl
        intro h
        simp only [QOut.log?, QOut.st?, Option.map_some, Option.some.injEq] at h
        exact ⟨new1, by rw [← h, h1], h2⟩
      | ub m => intro h; simp [QOut.log?, QOut.st?] at h

/-- **C07 `iterDestroyQuery_stop`.**  In the recorded calls of a whole `ecs_iter_destroy!`
(counted across archetypes), a call that answered `Break` or `BreakDestroy` (or panicked) is
the last one: nothing else of its archetype and no later archetype is visited. -/
theorem iterDestroyQuery_stop (cfg : Cfg) (f : Closure σ α Step4) (q : Query) (st : σ)
    (w : World α) (log : List (Call α Step4))
    (hlog : (iterDestroyQuery cfg (recR f) q (st, []) w).log? = some log)
    (k : Nat) (c : Call α Step4) (hk : log[k]? = some c)
    (hc : c.res = some .brk ∨ c.res = some .brkDestroy ∨ c.res = none) :
    log.length = k + 1 := by
  obtain ⟨new, h1, h2⟩ := iterDestroyQuery_shape cfg f q st [] w log hlog
  simp only [List.nil_append] at h1
  subst h1
  apply h2.last_of_not hk
  rcases hc with hc | hc | hc <;> simp [Call.contLike, hc]

/-- Under the world invariant a well-formed `ecs_iter_destroy!` never reaches UB; the world
invariant holds afterwards, panic or not. -/
theorem iterDestroyQuery_cases {cfg : Cfg} (f : Closure σ α Step4) :
    ∀ (q : Query) (st : σ) (L : List (Call α Step4)) (w : World α), WInv cfg w → QueryOk w q →
      (∃ t' w', iterDestroyQuery cfg (recR f) q (st, L) w = .ok t' w' ∧ WInv cfg w')
      ∨ (∃ m t' w', iterDestroyQuery cfg (recR f) q (st, L) w = .panic m t' w' ∧ WInv cfg w'
          ∧ (m = "closure" ∨ m = "slot version overflow" ∨ m = "arch version overflow")) := by
  intro q
  induction q with
  | nil => intro st L w hw _; exact .inl ⟨_, _, rfl, hw⟩
  | cons qa rest ih =>
    intro st L w hw hq
    obtain ⟨s, ha, hcols⟩ := hq qa List.mem_cons_self
    have hinv : Inv cfg s := hw.inv s (List.mem_of_getElem? ha)
    rw [iterDestroyQuery, ha]
    simp only
    obtain ⟨kind, t', new, s', removed, hrun, F⟩ :=
      destroyLoop_main (w.ids.getD qa.a ID_RANGE) qa.params f s s.len st L s (DInv.init hinv hcols)
    rw [hrun]
    have hw' : WInv cfg (w.setArch qa.a s') := winv_setArch hw qa.a F.final.inv
    cases kind with
    | done =>
      simp only [OKind.out]
      exact ih t' (L ++ new) _ hw'
        (QueryOk.setArch (fun x hx => hq x (List.mem_cons_of_mem _ hx)) ha F.rel.ncols)
    | stop => exact .inl ⟨_, _, rfl, hw'⟩
    | panic m =>
      refine .inr ⟨m, _, _, rfl, hw', ?_⟩
      obtain ⟨_, c, _, _, hl⟩ := F.notDone (by simp)
      rcases hl with ⟨hm, _⟩ | ⟨hm, _⟩
      · exact .inl hm
      · exact .inr hm


/-! ### Simulation: the instrumented runs are the plain runs -/

theorem iterLoop_recArgs_sim (idA : Nat) (ps : List Param) (f : Closure σ α Step) (v : Nat)
    (idxs : List Nat) (st : σ) (L : List (List (Arg α))) (s : Storage α) :
    (iterLoop idA ps (recArgs f) v idxs (st, L) s).mapSt Prod.fst = iterLoop idA ps f v idxs st s :=
  iterLoop_sim Prod.fst (recArgs f) f (recArgs_proj f) idA ps v idxs (st, L) s

theorem iterLoop_recR_sim (idA : Nat) (ps : List Param) (f : Closure σ α Step) (v : Nat)
    (idxs : List Nat) (st : σ) (L : List (Call α Step)) (s : Storage α) :
    (iterLoop idA ps (recR f) v idxs (st, L) s).mapSt Prod.fst = iterLoop idA ps f v idxs st s :=
  iterLoop_sim Prod.fst (recR f) f (recR_proj f) idA ps v idxs (st, L) s

/-- The `recArgs` run is the `recR` run with the answers forgotten. -/
theorem iterLoop_recR_recArgs (idA : Nat) (ps : List Param) (f : Closure σ α Step) (v : Nat)
    (idxs : List Nat) (st : σ) (L : List (Call α Step)) (s : Storage α) :
    (iterLoop idA ps (recR f) v idxs (st, L) s).mapSt forgetRes
      = iterLoop idA ps (recArgs f) v idxs (st, L.map Call.args) s :=
  iterLoop_sim forgetRes (recR f) (recArgs f) (recR_proj_recArgs f) idA ps v idxs (st, L) s

theorem destroyLoop_recArgs_sim (cfg : Cfg) (idA : Nat) (ps : List Param) (f : Closure σ α Step4)
    (idxs : List Nat) (st : σ) (L : List (List (Arg α))) (s : Storage α) :
    (destroyLoop cfg idA ps (recArgs f) idxs (st, L) s).mapSt Prod.fst
      = destroyLoop cfg idA ps f idxs st s :=
  destroyLoop_sim Prod.fst (recArgs f) f (recArgs_proj f) cfg idA ps idxs (st, L) s

theorem destroyLoop_recR_sim (cfg : Cfg) (idA : Nat) (ps : List Param) (f : Closure σ α Step4)
    (idxs : List Nat) (st : σ) (L : List (Call α Step4)) (s : Storage α) :
    (destroyLoop cfg idA ps (recR f) idxs (st, L) s).mapSt Prod.fst
      = destroyLoop cfg idA ps f idxs st s :=
  destroyLoop_sim Prod.fst (recR f) f (recR_proj f) cfg idA ps idxs (st, L) s

theorem destroyLoop_recR_recArgs (cfg : Cfg) (idA : Nat) (ps : List Param)
    (f : Closure σ α Step4) (idxs : List Nat) (st : σ) (L : List (Call α Step4)) (s : Storage α) :
    (destroyLoop cfg idA ps (recR f) idxs (st, L) s).mapSt forgetRes
      = destroyLoop cfg idA ps (recArgs f) idxs (st, L.map Call.args) s :=
  destroyLoop_sim forgetRes (recR f) (recArgs f) (recR_proj_recArgs f) cfg idA ps idxs (st, L) s

theorem iterQuery_recArgs_sim (cfg : Cfg) (f : Closure σ α Step) (q : Query) (st : σ)
    (L : List (List (Arg α))) (w : World α) :
    (iterQuery cfg (recArgs f) q (st, L) w).mapSt Prod.fst = iterQuery cfg f q st w :=
  iterQuery_sim Prod.fst (recArgs f) f (recArgs_proj f) cfg q (st, L) w

theorem iterQuery_recR_sim (cfg : Cfg) (f : Closure σ α Step) (q : Query) (st : σ)
    (L : List (Call α Step)) (w : World α) :
    (iterQuery cfg (recR f) q (st, L) w).mapSt Prod.fst = iterQuery cfg f q st w :=
  iterQuery_sim Prod.fst (recR f) f (recR_proj f) cfg q (st, L) w

theorem iterQuery_recR_recArgs (cfg : Cfg) (f : Closure σ α Step) (q : Query) (st : σ)
    (L : List (Call α Step)) (w : World α) :
    (iterQuery cfg (recR f) q (st, L) w).mapSt forgetRes
      = iterQuery cfg (recArgs f) q (st, L.map Call.args) w :=
  iterQuery_sim forgetRes (recR f) (recArgs f) (recR_proj_recArgs f) cfg q (st, L) w

theorem iterDestroyQuery_recArgs_sim (cfg : Cfg) (f : Closure σ α Step4) (q : Query) (st : σ)
    (L : List (List (Arg α))) (w : World α) :
    (iterDestroyQuery cfg (recArgs f) q (st, L) w).mapSt Prod.fst = iterDestroyQuery cfg f q st w :=
  iterDestroyQuery_sim Prod.fst (recArgs f) f (recArgs_proj f) cfg q (st, L) w

theorem iterDestroyQuery_recR_sim (cfg : Cfg) (f : Closure σ α Step4) (q : Query) (st : σ)
    (L : List (Call α Step4)) (w : World α) :
    (iterDestroyQuery cfg (recR f) q (st, L) w).mapSt Prod.fst = iterDestroyQuery cfg f q st w :=
  iterDestroyQuery_sim Prod.fst (recR f) f (recR_proj f) cfg q (st, L) w

theorem iterDestroyQuery_recR_recArgs (cfg : Cfg) (f : Closure σ α Step4) (q : Query) (st : σ)
    (L : List (Call α Step4)) (w : World α) :
    (iterDestroyQuery cfg (recR f) q (st, L) w).mapSt forgetRes
      = iterDestroyQuery cfg (recArgs f) q (st, L.map Call.args) w :=
  iterDestroyQuery_sim forgetRes (recR f) (recArgs f) (recR_proj_recArgs f) cfg q (st, L) w

/-- The argument lists recorded by `recArgs` are those of the `recR` log. -/
theorem LoopOut.log?_forgetRes (o : LoopOut (σ × List (Call α ρ)) α) :
    (o.mapSt forgetRes).log? = o.log?.map (fun l => l.map Call.args) := by
  cases o <;> rfl

theorem QOut.log?_forgetRes (o : QOut (σ × List (Call α ρ)) α) :
    (o.mapSt forgetRes).log? = o.log?.map (fun l => l.map Call.args) := by
  cases o <;> rfl

theorem LoopOut.stor?_mapSt (π : τ → σ) (o : LoopOut τ α) : (o.mapSt π).stor? = o.stor? := by
  cases o <;> rfl

/-! ### Safety for the plain (uninstrumented) closures -/

/-- `ecs_iter_destroy!` over one archetype never reaches UB from a state satisfying the
invariant, for any closure. -/
theorem destroyLoop_not_ub {cfg : Cfg} {s : Storage α} (h : Inv cfg s) (idA : Nat)
    {ps : List Param} (hps : ColsExist s ps) (f : Closure σ α Step4) (st : σ) (m : String) :
    destroyLoop cfg idA ps f (List.range s.len).reverse st s ≠ .ub m := by
  obtain ⟨kind, t', log, s', removed, h1, _⟩ := destroyLoop_spec h idA hps f st
  rw [← destroyLoop_recR_sim cfg idA ps f _ st [] s, h1]
  cases kind <;> simp [OKind.out, LoopOut.mapSt]

theorem iterQuery_not_ub {cfg : Cfg} {w : World α} (hw : WInv cfg w) {q : Query}
    (hq : QueryOk w q) (f : Closure σ α Step) (st : σ) (m : String) :
    iterQuery cfg f q st w ≠ .ub m := by
  rw [← iterQuery_recR_sim cfg f q st [] w]
  rcases iterQuery_cases f q st [] w hw hq with ⟨t', w', ho, _⟩ | ⟨t', w', ho, _⟩ <;>
    rw [ho] <;> simp [QOut.mapSt]

theorem iterDestroyQuery_not_ub {cfg : Cfg} {w : World α} (hw : WInv cfg w) {q : Query}
    (hq : QueryOk w q) (f : Closure σ α Step4) (st : σ) (m : String) :
    iterDestroyQuery cfg f q st w ≠ .ub m := by
  rw [← iterDestroyQuery_recR_sim cfg f q st [] w]
  rcases iterDestroyQuery_cases f q st [] w hw hq with ⟨t', w', ho, _⟩ | ⟨m', t', w', ho, _⟩ <;>
    rw [ho] <;> simp [QOut.mapSt]

/-- A parameter bound to a column the storage does not have: the first step fails with
"index out of bounds"; the closure is never called (cf. `iterLoop_bad_col`). -/
theorem destroyLoop_bad_col {cfg : Cfg} {s : Storage α} (h : Inv cfg s) (idA : Nat)
    (ps : List Param) (f : Closure σ α Step4) (st : σ) (hlen : 0 < s.len)
    (hbad : ∃ p ∈ ps, ∃ (c : Nat) (m : Bool), p = .comp c m ∧ s.cols.length ≤ c) :
    destroyLoop cfg idA ps f (List.range s.len).reverse st s
      = .panic "index out of bounds" st s := by
  obtain ⟨n, hn⟩ : ∃ n, s.len = n + 1 := ⟨s.len - 1, by omega⟩
  rw [hn, List.range_succ, List.reverse_append, List.reverse_singleton, List.singleton_append,
    destroyLoop, slicesValid_of_inv h, if_pos rfl, bindArgs_bad_col idA s s.version n hbad]

/-- The entities visited by `ecs_iter_destroy!` are pairwise distinct: each entity alive at
loop start is visited at most once. -/
theorem visited_nodup {cfg : Cfg} {s : Storage α} (h : Inv cfg s) (k : Nat) :
    (s.ents.reverse.take k).Nodup :=
  List.Nodup.sublist (List.take_sublist k _)
    ((List.reverse_perm s.ents).nodup_iff.mpr (ents_nodup h))

/-! ### The same, read off the argument-only instrumentation `recArgs` -/

/-- C06 for `recArgs f`: the recorded argument lists are, in order, what `bindArgs` binds at
`d = 0, 1, …, k-1` in the initial storage, and `k = len` if the loop ran to the end. -/
theorem iterLoop_visits_recArgs {cfg : Cfg} {s : Storage α} (h : Inv cfg s) (idA : Nat)
    {ps : List Param} (hps : ColsExist s ps) (f : Closure σ α Step) (st : σ) :
    ∃ (k : Nat) (calls : List (List (Arg α))), k ≤ s.len
      ∧ (iterLoop idA ps (recArgs f) s.version (List.range s.len) (st, []) s).log? = some calls
      ∧ calls.map some = (List.range k).map (fun d => bindArgs idA s s.version d ps)
      ∧ (∀ t' s', iterLoop idA ps (recArgs f) s.version (List.range s.len) (st, []) s
            = .done t' s' → k = s.len) := by
  obtain ⟨k, log, hk, hlog, hmap, hcases⟩ := iterLoop_visits h idA hps f st
  have hsim := iterLoop_recR_recArgs idA ps f s.version (List.range s.len) st [] s
  simp only [List.map_nil] at hsim
  refine ⟨k, log.map Call.args, hk, ?_, by simpa [Function.comp_def] using hmap, ?_⟩
  · rw [← hsim, LoopOut.log?_forgetRes, hlog]; rfl
  · intro t' s' hd
    rw [← hsim] at hd
    rcases hcases with ⟨_, _, h1, h2, _⟩ | ⟨_, _, _, h1, _⟩ | ⟨_, _, _, h1, _⟩
    · exact h2
    · rw [h1] at hd; cases hd
    · rw [h1] at hd; cases hd

/-- C07 for `recArgs f`: the entity parameter at position `i` received, call after call, the
keys of `D₀.reverse`, as many as there were calls (all of them if the loop ran to the end). -/
theorem destroyLoop_entity_args_recArgs {cfg : Cfg} {s : Storage α} (h : Inv cfg s) (idA : Nat)
    {ps : List Param} (hps : ColsExist s ps) (f : Closure σ α Step4) (st : σ)
    {i : Nat} {p : Param} (hi : ps[i]? = some p) (hp : p = .ent ∨ p = .entAny) :
    ∃ calls, (destroyLoop cfg idA ps (recArgs f) (List.range s.len).reverse (st, []) s).log?
        = some calls
      ∧ calls.map (fun args => args[i]?)
        = (s.ents.reverse.take calls.length).map
            (fun e => some (Arg.ent (mkKey e.slot idA e.ver)))
      ∧ (∀ t' s', destroyLoop cfg idA ps (recArgs f) (List.range s.len).reverse (st, []) s
            = .done t' s' → calls.length = s.len) := by
  obtain ⟨log, hlog, hmap⟩ := destroyLoop_entity_args h idA hps f st hi hp
  have hsim := destroyLoop_recR_recArgs cfg idA ps f (List.range s.len).reverse st [] s
  simp only [List.map_nil] at hsim
  refine ⟨log.map Call.args, ?_, by simpa [Function.comp_def] using hmap, ?_⟩
  · rw [← hsim, LoopOut.log?_forgetRes, hlog]; rfl
  · intro t' s' hd
    rw [← hsim] at hd
    obtain ⟨kind, t'', log', s'', removed, h1, _, _, _, _, h6, _⟩ := destroyLoop_spec h idA hps f st
    rw [h1] at hlog hd
    cases kind with
    | done =>
      simp only [OKind.out, LoopOut.log?, LoopOut.st?, Option.map_some, Option.some.injEq] at hlog
      subst hlog
      simpa using (h6 rfl).1
    | stop => cases hd
    | panic m => cases hd

/-! ### Why the version must be re-read at every step -/

/-- `destroyLoop` with the defect of the pinned tree: the archetype version is read once,
*before* the loop, and that stale value is used to mint the direct handles. -/
def destroyLoopStale (cfg : Cfg) (idA : Nat) (ps : List Param) (f : Closure σ α Step4)
    (version : Nat) : List Nat → σ → Storage α → LoopOut σ α
  | [], st, s => .done st s
  | idx :: rest, st, s =>
    if slicesValid cfg s then
      match bindArgs idA s version idx ps with
      | none => .panic "index out of bounds" st s
      | some args =>
        match f st args with
        | .panic st' ws => .panic "closure" st' (applyWrites s idx ps ws)
        | .ret st' ws r =>
          let s1 := applyWrites s idx ps ws
          match r with
          | .cont => destroyLoopStale cfg idA ps f version rest st' s1
          | .brk => .stop st' s1
          | .contDestroy | .brkDestroy =>
            match s1.ents[idx]? with
            | none => .panic "index out of bounds" st' s1
            | some e =>
              match destroyEnt cfg s1 e with
              | .ok _ s2 =>
                if r = .brkDestroy then .stop st' s2
                else destroyLoopStale cfg idA ps f version rest st' s2
              | .panic m s2 => .panic m st' s2
              | .ub m => .ub m
    else .ub "get_all_slices_mut: data not valid up to len"

/-- The storages the calls of `destroyLoopStale` run in (cf. `destroyTrace`). -/
def destroyTraceStale (cfg : Cfg) (idA : Nat) (ps : List Param) (f : Closure σ α Step4)
    (version : Nat) : List Nat → σ → Storage α → List (Nat × Storage α)
  | [], _, _ => []
  | idx :: rest, st, s =>
    if slicesValid cfg s then
      match bindArgs idA s version idx ps with
      | none => []
      | some args =>
        (idx, s) ::
          (match f st args with
          | .panic _ _ => []
          | .ret st' ws r =>
            let s1 := applyWrites s idx ps ws
            match r with
            | .cont => destroyTraceStale cfg idA ps f version rest st' s1
            | .brk => []
            | .contDestroy | .brkDestroy =>
              match s1.ents[idx]? with
              | none => []
              | some e =>
                match destroyEnt cfg s1 e with
                | .ok _ s2 =>
                  if r = .brkDestroy then [] else destroyTraceStale cfg idA ps f version rest st' s2
                | .panic _ _ => []
                | .ub _ => [])
    else []

/-! ### Concrete instances (non-vacuity) -/
namespace LoopsEx
open StorageEx

/-- Three live entities, one column. -/
def triEx : Storage Nat :=
  ⟨1, 3, 3, .freeEnd, [⟨.data 0, 1⟩, ⟨.data 1, 1⟩, ⟨.data 2, 1⟩], [⟨0, 1⟩, ⟨1, 1⟩, ⟨2, 1⟩],
    [[10, 11, 12]], [], []⟩

theorem triEx_inv : Inv cfgEx triEx where
  slotsLen := rfl
  entsLen := rfl
  colsLen := by decide
  lenCap := by decide
  capMax := by decide
  dense := by
    intro d e he
    match d, he with
    | 0, he => cases he; rfl
    | 1, he => cases he; rfl
    | 2, he => cases he; rfl
    | d + 3, he => simp [triEx] at he
  sparse := by
    intro i d v hi
    match i, hi with
    | 0, hi => cases hi; rfl
    | 1, hi => cases hi; rfl
    | 2, hi => cases hi; rfl
    | i + 3, hi => simp [triEx] at hi
  chain := ⟨[], .nil, List.nodup_nil, rfl⟩
  verPos := by
    intro i sl hi
    match i, hi with
    | 0, hi => cases hi; decide
    | 1, hi => cases hi; decide
    | 2, hi => cases hi; decide
    | i + 3, hi => simp [triEx] at hi
  archVer := by decide

/-- Parameters `(&Entity<A>, &EntityDirect<A>, &mut C0)`. -/
def psEx : List Param := [.ent, .dir, .comp 0 true]

theorem psEx_cols : ColsExist triEx psEx := by
  intro p hp c m hpc
  simp only [psEx, List.mem_cons, List.not_mem_nil, or_false] at hp
  rcases hp with rfl | rfl | rfl <;> cases hpc
  decide

/-- Counts its calls; decisions `[contDestroy, cont, brkDestroy]`; writes nothing. -/
def fDestroyEx : Closure Nat Nat Step4 := fun n _ =>
  .ret (n + 1) [] (match n with | 0 => .contDestroy | 1 => .cont | _ => .brkDestroy)

/-- Counts its calls; destroys at the first call, then continues. -/
def fDestroyThenCont : Closure Nat Nat Step4 := fun n _ =>
  .ret (n + 1) [] (match n with | 0 => .contDestroy | _ => .cont)

/-- Counts its calls; writes `100 + n` to the `&mut` column; breaks at the second call. -/
def fIterEx : Closure Nat Nat Step := fun n _ =>
  .ret (n + 1) [none, none, some (100 + n)] (if n = 1 then .brk else .cont)

/-! #### C06 on `triEx` -/

/-- The hypotheses of `iterLoop_visits` / `iterLoop_done_entities` hold on `triEx`. -/
example := iterLoop_visits triEx_inv 7 psEx_cols fIterEx 0

/-- The run itself: two calls, each with its own handle, the direct handle `(d, version 1)`
and its own cell (`10`, `11` — the values of the initial storage, although call 0 wrote `100`
into row 0 before call 1 ran); the second call answered `Break` and is the last; only the
`&mut` column changed, rows 0 and 1. -/
example :
    iterLoop 7 psEx (recR fIterEx) triEx.version (List.range triEx.len) (0, []) triEx
      = .stop (2, [⟨[.ent (mkKey 0 7 1), .dir (mkKey 0 7 1), .comp true 10], some .cont⟩,
                   ⟨[.ent (mkKey 1 7 1), .dir (mkKey 1 7 1), .comp true 11], some .brk⟩])
          { triEx with cols := [[100, 101, 12]] } := rfl

/-- A closure that never breaks visits all three entities. -/
example :
    (iterLoop 7 [.ent] (recR (fun (n : Nat) _ => .ret (n + 1) [] .cont)) triEx.version
        (List.range triEx.len) (0, []) triEx).log?
      = some [⟨[.ent (mkKey 0 7 1)], some .cont⟩, ⟨[.ent (mkKey 1 7 1)], some .cont⟩,
              ⟨[.ent (mkKey 2 7 1)], some .cont⟩] := rfl

/-- `iterLoop_done_entities` applies to it (`hdone` holds by computation). -/
example :=
  iterLoop_done_entities triEx_inv 7 (ps := [.ent]) (by intro p hp c m h; simp at hp; subst hp; cases h)
    (fun (n : Nat) _ => .ret (n + 1) [] .cont) 0 (hdone := rfl) (i := 0) rfl (.inl rfl)

/-- A column the storage does not have: "index out of bounds" before any call. -/
example : iterLoop 7 [.comp 3 false] fIterEx triEx.version (List.range triEx.len) 0 triEx
    = .panic "index out of bounds" 0 triEx :=
  iterLoop_bad_col 7 _ fIterEx _ 0 triEx (by decide) ⟨_, List.mem_cons_self, 3, false, rfl, by decide⟩

/-- A two-archetype world (`triEx` twice, ids 7 and 9). -/
def worldEx : World Nat := ⟨[7, 9], [triEx, triEx]⟩

theorem worldEx_inv : WInv cfgEx worldEx :=
  ⟨rfl, by decide, by decide, by
    intro s hs
    simp only [worldEx, List.mem_cons, List.not_mem_nil, or_false, or_self] at hs
    subst hs; exact triEx_inv⟩

def queryEx : Query := [⟨0, psEx⟩, ⟨1, psEx⟩]

theorem queryEx_ok : QueryOk worldEx queryEx := by
  intro qa hqa
  simp only [queryEx, List.mem_cons, List.not_mem_nil, or_false] at hqa
  rcases hqa with rfl | rfl
  · exact ⟨triEx, rfl, psEx_cols⟩
  · exact ⟨triEx, rfl, psEx_cols⟩

example := iterQuery_total worldEx_inv queryEx_ok fIterEx 0

/-- `Break` at the second call (in the first archetype): two calls in total, the second
archetype is never visited. -/
example : ((iterQuery cfgEx (recR fIterEx) queryEx (0, []) worldEx).log?.map List.length)
    = some 2 := rfl

/-- `iterQuery_break_stops_all` on that run: the `Break` at call 1 is the last call. -/
example : ∀ log, (iterQuery cfgEx (recR fIterEx) queryEx (0, []) worldEx).log? = some log →
    log.length = 1 + 1 := fun log hlog =>
  (iterQuery_break_stops_all cfgEx fIterEx queryEx 0 worldEx log hlog).1 1
    ⟨[.ent (mkKey 1 7 1), .dir (mkKey 1 7 1), .comp true 11], some .brk⟩
    (by rw [← Option.some.inj hlog]; rfl) (by simp)

/-- Never breaking: `3 + 3` calls. -/
example : ((iterQuery cfgEx (recR (fun (n : Nat) _ => .ret (n + 1) [] .cont)) queryEx (0, [])
    worldEx).log?.map List.length) = some ((queryEx.map (fun qa => archLen worldEx qa.a)).sum) := rfl

/-! #### C07 on `triEx`, decisions `[contDestroy, cont, brkDestroy]` -/

/-- The hypotheses of `destroyLoop_spec` hold on `triEx`. -/
example := destroyLoop_spec triEx_inv 7 psEx_cols fDestroyEx 0

/-- The run itself.  Call 0 visits dense index 2 (entity `(2,1)`) and destroys it: the
archetype version becomes 2.  Call 1 visits index 1 (entity `(1,1)`), its direct handle
carries the *new* version 2.  Call 2 visits index 0 (entity `(0,1)`), destroys it — the last
entity `(1,1)` moves into position 0 — and stops.  Survivor: `(1,1)` with its cell `11`;
`destroyed` events: `(2,1)`, `(0,1)`. -/
example :
    destroyLoop cfgEx 7 psEx (recR fDestroyEx) (List.range triEx.len).reverse (0, []) triEx
      = .stop (3, [⟨[.ent (mkKey 2 7 1), .dir (mkKey 2 7 1), .comp true 12], some .contDestroy⟩,
                   ⟨[.ent (mkKey 1 7 1), .dir (mkKey 1 7 2), .comp true 11], some .cont⟩,
                   ⟨[.ent (mkKey 0 7 1), .dir (mkKey 0 7 2), .comp true 10], some .brkDestroy⟩])
          ⟨3, 1, 3, .free 0, [⟨.free 2, 2⟩, ⟨.data 0, 1⟩, ⟨.freeEnd, 2⟩], [⟨1, 1⟩], [[11]], [],
            [⟨2, 1⟩, ⟨0, 1⟩]⟩ := rfl

/-- The flagged entities of that run are the two removed ones. -/
example : flaggedEnts triEx.ents.reverse
    [(⟨[], some .contDestroy⟩ : Call Nat Step4), ⟨[], some .cont⟩, ⟨[], some .brkDestroy⟩]
      = [⟨2, 1⟩, ⟨0, 1⟩] := rfl

example : (([⟨1, 1⟩] : List Ent) ++ ([⟨2, 1⟩, ⟨0, 1⟩] : List Ent)).Perm triEx.ents := by decide

/-- Overflow: in a non-wrapping configuration with `vmax = 1` the first flagged destroy
panics; nothing is removed although the call was flagged. -/
def cfgOvf : Cfg := ⟨8, 1, false, true, true⟩

theorem triEx_inv_ovf : Inv cfgOvf triEx :=
  { triEx_inv with
    verPos := by
      intro i sl hi
      match i, hi with
      | 0, hi => cases hi; decide
      | 1, hi => cases hi; decide
      | 2, hi => cases hi; decide
      | i + 3, hi => simp [triEx] at hi
    archVer := by decide }

example := destroyLoop_spec triEx_inv_ovf 7 psEx_cols fDestroyEx 0

example :
    destroyLoop cfgOvf 7 psEx (recR fDestroyEx) (List.range triEx.len).reverse (0, []) triEx
      = .panic "slot version overflow"
          (1, [⟨[.ent (mkKey 2 7 1), .dir (mkKey 2 7 1), .comp true 12], some .contDestroy⟩])
          triEx := rfl

/-- The whole query: `BreakDestroy` at the third call ends it; the second archetype is never
visited. -/
example : ((iterDestroyQuery cfgEx (recR fDestroyEx) queryEx (0, []) worldEx).log?.map
    List.length) = some 3 := rfl

/-- `iterDestroyQuery_stop` on that run: the `BreakDestroy` at call 2 is the last call. -/
example : ∀ log, (iterDestroyQuery cfgEx (recR fDestroyEx) queryEx (0, []) worldEx).log? = some log →
    log.length = 2 + 1 := fun log hlog =>
  iterDestroyQuery_stop cfgEx fDestroyEx queryEx 0 worldEx log hlog 2
    ⟨[.ent (mkKey 0 7 1), .dir (mkKey 0 7 2), .comp true 10], some .brkDestroy⟩
    (by rw [← Option.some.inj hlog]; rfl) (.inr (.inl rfl))

example (m : String) : iterDestroyQuery cfgEx fDestroyEx queryEx 0 worldEx ≠ .ub m :=
  iterDestroyQuery_not_ub worldEx_inv queryEx_ok fDestroyEx 0 m

/-- `minted_direct_designates` on the run above. -/
example := minted_direct_designates triEx_inv 7 psEx_cols fDestroyEx 0

/-- The storage the second call runs in. -/
def triAfter : Storage Nat :=
  ⟨2, 2, 3, .free 2, [⟨.data 0, 1⟩, ⟨.data 1, 1⟩, ⟨.freeEnd, 2⟩], [⟨0, 1⟩, ⟨1, 1⟩], [[10, 11]], [],
    [⟨2, 1⟩]⟩

example : (destroyTrace cfgEx 7 psEx fDestroyThenCont (List.range triEx.len).reverse 0 triEx)[1]?
    = some (1, triAfter) := rfl

/-- Repaired loop: the second call's direct handle is `(1, version 2)` and it resolves. -/
example :
    ((destroyLoop cfgEx 7 psEx (recR fDestroyThenCont) (List.range triEx.len).reverse (0, [])
        triEx).log?.map (fun l => l.map (fun c => c.args[1]?)))
      = some [some (.dir (mkKey 2 7 1)), some (.dir (mkKey 1 7 2)), some (.dir (mkKey 0 7 2))]
    ∧ resolveDirect cfgEx triAfter 1 2 = .ok (some (1, 1)) triAfter := ⟨rfl, rfl⟩

end LoopsEx

open LoopsEx StorageEx in
/-- **C07 `destroyLoop_stale_version_witness`.**  With the version read once before the loop
(`destroyLoopStale`), on three entities and the decisions destroy-then-continue: the second
call runs in `triAfter` (archetype version 2, entity `(1,1)` alive at dense index 1) but its
direct handle is `(1, version 1)`: `resolveDirect` rejects it.  (With the repaired loop it is
`(1, version 2)` and resolves, see the example above and `minted_direct_designates`.) -/
theorem destroyLoop_stale_version_witness :
    ∃ (log : List (Call Nat Step4)) (c : Call Nat Step4),
      (destroyLoopStale cfgEx 7 psEx (recR fDestroyThenCont) triEx.version
          (List.range triEx.len).reverse (0, []) triEx).log? = some log
      ∧ log[1]? = some c
      -- the direct-handle argument of the second call: dense index 1, *stale* version 1
      ∧ c.args[1]? = some (Arg.dir (mkKey 1 7 1))
      -- the storage that call ran in
      ∧ (destroyTraceStale cfgEx 7 psEx (recR fDestroyThenCont) triEx.version
          (List.range triEx.len).reverse (0, []) triEx)[1]? = some (1, triAfter)
      ∧ Inv cfgEx triAfter
      ∧ triAfter.ents[1]? = some ⟨1, 1⟩ ∧ triAfter.version = 2
      -- the handle is refused there
      ∧ resolveDirect cfgEx triAfter 1 1 = .ok none triAfter
      ∧ ¬ ∃ si, resolveDirect cfgEx triAfter 1 1 = .ok (some (si, 1)) triAfter := by
  refine ⟨_, _, rfl, rfl, rfl, rfl, ?_, rfl, rfl, rfl, ?_⟩
  · obtain ⟨h1, _⟩ := minted_direct_designates triEx_inv 7 psEx_cols fDestroyThenCont 0
      (1, triAfter) (List.mem_of_getElem? (i := 1) rfl)
    exact h1
  · rintro ⟨si, h⟩
    have : resolveDirect cfgEx triAfter 1 1 = .ok none triAfter := rfl
    rw [this] at h; cases h

end Gecs.Loops

section
open Gecs
#print axioms Loops.iterLoop_sim
#print axioms Loops.destroyLoop_sim
#print axioms Loops.iterQuery_sim
#print axioms Loops.iterDestroyQuery_sim
#print axioms Loops.iterLoop_recArgs_sim
#print axioms Loops.iterLoop_recR_sim
#print axioms Loops.iterLoop_recR_recArgs
#print axioms Loops.destroyLoop_recArgs_sim
#print axioms Loops.destroyLoop_recR_sim
#print axioms Loops.destroyLoop_recR_recArgs
#print axioms Loops.iterQuery_recArgs_sim
#print axioms Loops.iterQuery_recR_sim
#print axioms Loops.iterDestroyQuery_recArgs_sim
#print axioms Loops.iterDestroyQuery_recR_sim
#print axioms Loops.destroyTrace_sim
#print axioms Loops.bindArgs_eq_some_iff
#print axioms Loops.bindArgs_own
#print axioms Loops.applyWrites_frame
#print axioms Loops.applyWrites_inv
#print axioms Loops.iterLoop_visits
#print axioms Loops.visits_arg
#print axioms Loops.iterLoop_done_entities
#print axioms Loops.ents_keys_nodup
#print axioms Loops.iterLoop_frame
#print axioms Loops.iterLoop_inv
#print axioms Loops.iterLoop_bad_col
#print axioms Loops.iterLoop_shape
#print axioms Loops.iterQuery_break_stops_all
#print axioms Loops.iterQuery_total
#print axioms Loops.iterQuery_not_ub
#print axioms Loops.destroyLoop_main
#print axioms Loops.destroyLoop_spec
#print axioms Loops.destroyLoop_spec_wrapping
#print axioms Loops.destroyLoop_entity_args
#print axioms Loops.destroyLoop_args_of_trace
#print axioms Loops.destroyLoop_not_ub
#print axioms Loops.destroyLoop_bad_col
#print axioms Loops.visited_nodup
#print axioms Loops.iterLoop_visits_recArgs
#print axioms Loops.destroyLoop_entity_args_recArgs
#print axioms Loops.minted_direct_designates
#print axioms Loops.destroyLoop_stale_version_witness
#print axioms Loops.destroyLoop_shape
#print axioms Loops.iterDestroyQuery_stop
#print axioms Loops.iterDestroyQuery_cases
#print axioms Loops.iterDestroyQuery_not_ub
end
