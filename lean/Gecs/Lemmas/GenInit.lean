/-
`StorageN::with_capacity` and `clear_events`, run from their extracted statements, are the
model's `withCapacity` / `clearEvents`, for every capacity, column count and storage.
-/
import Gecs.Gen.Steps

set_option linter.unusedSimpArgs false

namespace Gecs

variable {α : Type}

theorem gen_steps_with_capacity (cfg : Cfg) (ncols cap : Nat) :
    execWithCapacity (α := α) cfg Gen.withCapacitySteps Gen.withCapacityFields ncols cap
      = withCapacity cfg ncols cap := by
  unfold execWithCapacity withCapacity Gen.withCapacitySteps Gen.withCapacityFields
  by_cases h : cap > cfg.maxCap
  · simp [runN, h]
  · cases hev : cfg.events <;> simp [runN, h, nfields, nfield, KLit.build, hev]

theorem gen_steps_clear_events (s : Storage α) :
    runE Gen.clearEventsSteps s = some (clearEvents s) := by
  simp [Gen.clearEventsSteps, runE, clearEvents]

end Gecs
