/-
`DataPtr::swap_remove` / `drop_to`, from their extracted statements, on an array whose first
`len` cells are initialised: the list-level `swapRemove` of the model, and a drop of exactly the
first `len` values.
-/
import Gecs.Gen.Steps

set_option linter.unusedSimpArgs false

namespace Gecs

variable {β : Type}

theorem set_last_none (l : List β) (tail : List (Option β)) (h : l ≠ []) :
    (l.map some ++ tail).set (l.length - 1) none = l.dropLast.map some ++ none :: tail := by
  have hl : l = l.dropLast ++ [l.getLast h] := (List.dropLast_concat_getLast h).symm
  have hlen : l.length - 1 = (l.dropLast.map some).length := by simp
  rw [hlen]
  conv => lhs; rw [hl]
  simp [List.set_append_right]

/-- `swap_remove(index, len)` moves the value at `index` out, the last value into its place,
and leaves the vacated last cell dead; cells past `len` are untouched. -/
theorem gen_mem_swap_remove (l : List β) (tail : List (Option β)) (i : Nat) (hi : i < l.length) :
    execDataSwapRemove Gen.dataSwapRemoveSteps (l.map some ++ tail) i l.length
      = some (l[i], (swapRemove l i).map some ++ none :: tail) := by
  have hne : l ≠ [] := by intro h; subst h; simp at hi
  have hn : ¬ l.length = 0 := by omega
  have hlast : l.length - 1 < l.length := by omega
  have hi' : i < (l.map some ++ tail).length := by
    simp only [List.length_append, List.length_map]; omega
  have hgl : l.getLast? = some (l[l.length - 1]) := by
    rw [List.getLast?_eq_getElem?]; simp [hlast]
  have hmi : (l.map some ++ tail)[i]? = some (some l[i]) := by
    rw [List.getElem?_append_left (by simpa using hi)]; simp [hi]
  have hml : (l.map some ++ tail)[l.length - 1]? = some (some l[l.length - 1]) := by
    rw [List.getElem?_append_left (by simpa using hlast)]; simp [hlast]
  have hset : (l.map some ++ tail).set i (some l[l.length - 1]) = (l.set i l[l.length - 1]).map some ++ tail := by
    rw [List.set_append_left _ _ (by simpa using hi)]; simp [List.map_set]
  have hfin := set_last_none (l.set i l[l.length - 1]) tail (by simp [List.set_eq_nil_iff, hne])
  simp only [List.length_set] at hfin
  unfold execDataSwapRemove Gen.dataSwapRemoveSteps
  simp only [runMS, hn, if_false, hmi, hml, hi', if_true, hset]
  have hl2 : l.length - 1 < ((l.set i l[l.length - 1]).map some ++ tail).length := by
    simp only [List.length_append, List.length_map, List.length_set]; omega
  simp only [hl2, if_true, hfin]
  simp [swapRemove, hgl, List.getElem?_append_right]

theorem gen_mem_drop_to (l : List β) (tail : List (Option β)) :
    execDataDropTo Gen.dataDropToSteps (l.map some ++ tail) l.length
      = some (l, List.replicate l.length none ++ tail) := by
  unfold execDataDropTo Gen.dataDropToSteps
  simp [List.take_append_of_le_length, List.all_map, List.filterMap_map]

end Gecs
