/-
Soundness and completeness of the executable invariant checker `invCheck`
(Gecs/Model/Check.lean) with respect to the representation invariant `Inv`
(Gecs/Lemmas/Inv.lean), and the round-trip laws of the raw slot-word encoding (slot.rs).

The correspondence driver evaluates `invCheck` on the implementation's raw dumped state;
`invCheck_iff` shows that this decides exactly the `Inv` all property theorems are about.
-/
import Gecs.Model.Check
import Gecs.Lemmas.Inv
import Gecs.Lemmas.Bits

namespace Gecs

variable {α : Type}

/-! ### `chainWalk` computes exactly the `Chain` relation -/

theorem chainWalk_sound {slots : List Slot} {h : SIdx} {fuel : Nat} {L : List Nat} :
    chainWalk slots h fuel = some L → Chain slots h L := by
  induction fuel generalizing h L with
  | zero =>
    intro hw
    cases h with
    | data d => simp [chainWalk] at hw
    | free i => simp [chainWalk] at hw
    | freeEnd =>
      simp [chainWalk] at hw
      subst hw; exact .nil
  | succ n ih =>
    intro hw
    cases h with
    | data d => simp [chainWalk] at hw
    | freeEnd =>
      simp [chainWalk] at hw
      subst hw; exact .nil
    | free i =>
      unfold chainWalk at hw
      split at hw
      · cases hw
      · rename_i sl hs
        split at hw
        · rename_i hfree
          cases hr : chainWalk slots sl.idx n with
          | none => rw [hr] at hw; cases hw
          | some L' =>
            rw [hr] at hw
            simp only [Option.map_some, Option.some.injEq] at hw
            subst hw
            exact .cons hs hfree (ih hr)
        · cases hw

/-- The fuel bound is tight: a chain of `n` nodes needs exactly `n` units of fuel
(`.freeEnd` is accepted with fuel `0`, every `.free` node consumes one unit). -/
theorem chainWalk_complete {slots : List Slot} {h : SIdx} {L : List Nat}
    (c : Chain slots h L) {fuel : Nat} (hf : L.length ≤ fuel) :
    chainWalk slots h fuel = some L := by
  induction c generalizing fuel with
  | nil => cases fuel <;> simp [chainWalk]
  | @cons s sl L' hs hfree _ ih =>
    cases fuel with
    | zero => simp at hf
    | succ n =>
      have hn : L'.length ≤ n := by simpa using hf
      simp [chainWalk, hs, hfree, ih hn]

/-- Tightness of the fuel bound: with less fuel than nodes the walk fails. -/
theorem chainWalk_fuel_tight {slots : List Slot} {h : SIdx} {L : List Nat}
    (c : Chain slots h L) {fuel : Nat} (hf : fuel < L.length) :
    chainWalk slots h fuel = none := by
  induction c generalizing fuel with
  | nil => simp at hf
  | @cons s sl L' hs hfree _ ih =>
    cases fuel with
    | zero => simp [chainWalk]
    | succ n =>
      have hn : n < L'.length := by simpa using hf
      simp [chainWalk, hs, hfree, ih hn]

/-- `Chain` is functional in the list. -/
theorem Chain.unique {slots : List Slot} {h : SIdx} {L₁ L₂ : List Nat}
    (c₁ : Chain slots h L₁) (c₂ : Chain slots h L₂) : L₁ = L₂ := by
  have h₁ := chainWalk_complete c₁ (fuel := max L₁.length L₂.length) (Nat.le_max_left _ _)
  have h₂ := chainWalk_complete c₂ (fuel := max L₁.length L₂.length) (Nat.le_max_right _ _)
  rw [h₁] at h₂
  exact Option.some.inj h₂

/-! ### Pigeonhole -/

/-- A duplicate-free list of naturals all below `n` has at most `n` elements. -/
theorem CheckSound.nodup_lt_length_le : ∀ (n : Nat) (L : List Nat),
    L.Nodup → (∀ i ∈ L, i < n) → L.length ≤ n := by
  intro n
  induction n with
  | zero =>
    intro L _ hlt
    cases L with
    | nil => simp
    | cons a t => exact absurd (hlt a List.mem_cons_self) (Nat.not_lt_zero _)
  | succ n ih =>
    intro L hnd hlt
    have hnd' : (L.erase n).Nodup := hnd.erase n
    have hlt' : ∀ i ∈ L.erase n, i < n := by
      intro i hi
      have hmem := (List.Nodup.mem_erase_iff hnd).mp hi
      have := hlt i hmem.2
      have hne := hmem.1
      omega
    have := ih (L.erase n) hnd' hlt'
    have hlen := List.length_erase (a := n) (l := L)
    split at hlen <;> omega

/-! ### `invCheck` decides `Inv` -/

theorem invCheck_sound (cfg : Cfg) (s : Storage α) : invCheck cfg s = true → Inv cfg s := by
  intro h
  simp only [invCheck, Bool.and_eq_true, beq_iff_eq, decide_eq_true_eq, List.all_eq_true,
    List.mem_range] at h
  obtain ⟨⟨⟨⟨⟨⟨⟨⟨⟨hsl, hel⟩, hcl⟩, hlc⟩, hcm⟩, hav⟩, hde⟩, hsp⟩, hch⟩, hvp⟩ := h
  refine
    { slotsLen := hsl
      entsLen := hel
      colsLen := hcl
      lenCap := hlc
      capMax := hcm
      dense := ?_
      sparse := ?_
      chain := ?_
      verPos := ?_
      archVer := hav }
  · intro d e he
    have hd : d < s.ents.length := (List.getElem?_eq_some_iff.mp he).1
    have := hde d hd
    rw [he] at this
    simpa using this
  · intro i d v hi
    have hlt : i < s.slots.length := (List.getElem?_eq_some_iff.mp hi).1
    have := hsp i hlt
    rw [hi] at this
    simpa using this
  · cases hw : chainWalk s.slots s.freeHead (s.capacity + 1) with
    | none => rw [hw] at hch; cases hch
    | some L =>
      rw [hw] at hch
      simp only [Bool.and_eq_true, decide_eq_true_eq, beq_iff_eq] at hch
      exact ⟨L, chainWalk_sound hw, hch.1, hch.2⟩
  · intro i sl hi
    exact hvp sl (List.mem_of_getElem? hi)

theorem invCheck_complete (cfg : Cfg) (s : Storage α) : Inv cfg s → invCheck cfg s = true := by
  intro inv
  obtain ⟨L, hc, hnd, hlen⟩ := inv.chain
  have hfuel : L.length ≤ s.capacity + 1 := by
    have := CheckSound.nodup_lt_length_le s.slots.length L hnd hc.mem_lt
    rw [inv.slotsLen] at this
    omega
  have hw := chainWalk_complete hc hfuel
  simp only [invCheck, Bool.and_eq_true, beq_iff_eq, decide_eq_true_eq, List.all_eq_true,
    List.mem_range]
  refine ⟨⟨⟨⟨⟨⟨⟨⟨⟨inv.slotsLen, inv.entsLen⟩, inv.colsLen⟩, inv.lenCap⟩, inv.capMax⟩,
    inv.archVer⟩, ?_⟩, ?_⟩, ?_⟩, ?_⟩
  · intro d hd
    have he : s.ents[d]? = some s.ents[d] := List.getElem?_eq_getElem hd
    rw [he]
    simpa using inv.dense d _ he
  · intro i hi
    split
    · rename_i d v hs
      simpa using inv.sparse i d v hs
    · rfl
  · rw [hw]
    simp [hnd, hlen]
  · intro sl hsl
    obtain ⟨i, hi⟩ := List.getElem?_of_mem hsl
    exact inv.verPos i sl hi

theorem invCheck_iff (cfg : Cfg) (s : Storage α) : invCheck cfg s = true ↔ Inv cfg s :=
  ⟨invCheck_sound cfg s, invCheck_complete cfg s⟩

/-- `Inv` is decidable (by running the checker). -/
instance (cfg : Cfg) (s : Storage α) : Decidable (Inv cfg s) :=
  decidable_of_iff _ (invCheck_iff cfg s)

/-! ### Non-vacuity -/

/-- capacity 3, two live entities whose dense order (slot 2, then slot 0) differs from the
slot order, one free slot (slot 1). -/
def CheckSound.exGood : Storage Nat :=
  { version := 4, len := 2, capacity := 3, freeHead := .free 1
    slots := [⟨.data 1, 7⟩, ⟨.freeEnd, 2⟩, ⟨.data 0, 5⟩]
    ents := [⟨2, 5⟩, ⟨0, 7⟩]
    cols := [[10, 20], [30, 40]]
    created := [], destroyed := [] }

def CheckSound.exCfg : Cfg := { maxCap := 16, vmax := 100, wrapping := false, events := false, debug := true }

example : invCheck CheckSound.exCfg CheckSound.exGood = true := by decide
example : Inv CheckSound.exCfg CheckSound.exGood := (invCheck_iff _ _).mp (by decide)

/-- Same storage, but slot 0 points back to dense row 0 instead of 1. -/
def CheckSound.exBad : Storage Nat := { CheckSound.exGood with slots := [⟨.data 0, 7⟩, ⟨.freeEnd, 2⟩, ⟨.data 0, 5⟩] }

example : invCheck CheckSound.exCfg CheckSound.exBad = false := by decide
example : ¬ Inv CheckSound.exCfg CheckSound.exBad := fun h => absurd ((invCheck_iff _ _).mpr h) (by decide)

/-- A free chain that loops (`1 → 1`) is rejected by the fuel bound. -/
example : invCheck CheckSound.exCfg { CheckSound.exGood with slots := [⟨.data 1, 7⟩, ⟨.free 1, 2⟩, ⟨.data 0, 5⟩] } = false := by
  decide

/-- `chainWalk` on a two-node chain: fuel `2` suffices, fuel `1` does not. -/
example : chainWalk [⟨.free 2, 1⟩, ⟨.data 0, 1⟩, ⟨.freeEnd, 1⟩] (.free 0) 2 = some [0, 2] := by decide
example : chainWalk [⟨.free 2, 1⟩, ⟨.data 0, 1⟩, ⟨.freeEnd, 1⟩] (.free 0) 1 = none := by decide

/-! ### Raw slot words (slot.rs `SlotIndex`)

`Gecs/Lemmas/Bits.lean` already has `Gecs.decode_encode` (payloads `< MAX_DATA_CAPACITY`, the
range the code can actually construct) and the unconditional `Gecs.encode_decode`.  Here the
*exact* domain of the round trip is characterised; the names carry a suffix because the
unsuffixed ones are taken by `Bits.lean`. -/

/-- Exact characterisation: decoding an encoded index gives it back iff the index is a data
index below `FREE_BIT`, or a free-list link other than `FREE_BIT - 1` (that link value *is*
the end marker: `.free (FREE_BIT - 1)` encodes to `FREE_LIST_END`), or the end marker. -/
theorem decode_encode_iff (x : SIdx) :
    decodeIdx (encodeIdx x) = x ↔
      (match x with
       | .data i => i < FREE_BIT
       | .free n => n ≠ FREE_BIT - 1
       | .freeEnd => True) := by
  have hB : FREE_BIT = 2147483648 := rfl
  have hE : FREE_LIST_END = 4294967295 := rfl
  cases x with
  | data i =>
    show decodeIdx i = .data i ↔ i < FREE_BIT
    unfold decodeIdx
    split
    · exact ⟨fun h => (by cases h), fun h => (by omega)⟩
    · split
      · exact ⟨fun h => (by cases h), fun h => (by omega)⟩
      · exact ⟨fun _ => (by omega), fun _ => rfl⟩
  | free n =>
    show decodeIdx (n + FREE_BIT) = .free n ↔ n ≠ FREE_BIT - 1
    unfold decodeIdx
    split
    · exact ⟨fun h => (by cases h), fun h => (by omega)⟩
    · split
      · rw [Nat.add_sub_cancel]
        exact ⟨fun _ => (by omega), fun _ => rfl⟩
      · omega
  | freeEnd =>
    show decodeIdx FREE_LIST_END = .freeEnd ↔ True
    unfold decodeIdx
    exact ⟨fun _ => trivial, fun _ => if_pos rfl⟩

/-- The requested form (`Gecs.decode_encode` of the task; that name is taken by `Bits.lean`):
data indices below `FREE_BIT`, free-list links below `FREE_BIT - 1`. -/
theorem decode_encode_tight (x : SIdx)
    (h : match x with
      | .data i => i < FREE_BIT
      | .free n => n < FREE_BIT - 1
      | .freeEnd => True) :
    decodeIdx (encodeIdx x) = x := by
  refine (decode_encode_iff x).mpr ?_
  cases x with
  | data i => exact h
  | free n => exact Nat.ne_of_lt h
  | freeEnd => trivial

/-- Encoding a decoded word gives it back.  This holds for every natural number
(`Gecs.encode_decode` in `Bits.lean`), so the bound `raw < 2^32` is not needed; the requested
statement with the bound is kept for reference. -/
theorem encode_decode_u32 (raw : Nat) (_h : raw < 4294967296) :
    encodeIdx (decodeIdx raw) = raw :=
  encode_decode raw

/-- Decoding a `u32` word always lands in the domain of `decode_encode_tight`, so on `u32`
words `decodeIdx`/`encodeIdx` are mutually inverse bijections onto that domain. -/
theorem decodeIdx_range (raw : Nat) (h : raw < 4294967296) :
    match decodeIdx raw with
    | .data i => i < FREE_BIT
    | .free n => n < FREE_BIT - 1
    | .freeEnd => True := by
  have hB : FREE_BIT = 2147483648 := rfl
  have hE : FREE_LIST_END = 4294967295 := rfl
  by_cases h1 : raw = FREE_LIST_END
  · simp only [decodeIdx, if_pos h1]
  · by_cases h2 : raw ≥ FREE_BIT
    · simp only [decodeIdx, if_neg h1, if_pos h2]; omega
    · simp only [decodeIdx, if_neg h1, if_neg h2]; omega

/-- The side conditions of `decode_encode_tight` are necessary … -/
example : decodeIdx (encodeIdx (.free (FREE_BIT - 1))) = .freeEnd := by decide
example : decodeIdx (encodeIdx (.data FREE_BIT)) = .free 0 := by decide
/-- … and satisfiable, up to the last admissible payloads. -/
example : decodeIdx (encodeIdx (.free (FREE_BIT - 2))) = .free (FREE_BIT - 2) :=
  decode_encode_tight _ (by decide)
example : decodeIdx (encodeIdx (.data (FREE_BIT - 1))) = .data (FREE_BIT - 1) :=
  decode_encode_tight _ (by decide)
example : encodeIdx (decodeIdx 4294967295) = 4294967295 := encode_decode_u32 _ (by decide)

end Gecs

#print axioms Gecs.chainWalk_sound
#print axioms Gecs.chainWalk_complete
#print axioms Gecs.invCheck_sound
#print axioms Gecs.invCheck_complete
#print axioms Gecs.invCheck_iff
#print axioms Gecs.decode_encode_iff
#print axioms Gecs.decode_encode_tight
#print axioms Gecs.encode_decode_u32
#print axioms Gecs.decodeIdx_range
