/-
C16 (world half): `#[cfg]`-disabled archetypes/components behave exactly as if they were absent,
and enabled ones as if the attribute were absent.

* `dedupAppend_spec`, `collectWorld_eq_eraseDups`, `collectWorld_nodup`, `collectWorld_complete`:
  the predicate collection is the first-appearance de-duplication of all predicate occurrences;
* `lookup_correct`, `evaluateCfgs_correct`: zipping the collected predicates with the macro chain
  and looking them up again recovers the truth assignment;
* `world_erasure`: for EVERY assignment `ρ` and declaration `w`, the pipeline gives the same
  result (same world or same error) as on the declaration with the disabled items deleted and all
  attributes removed; `expandWorld_true`, `expandWorld_congr`, `expandWorld_ne_missingCfg`.
-/
import Gecs.Lemmas.MacIds

namespace Gecs.Mac

/-! ### `dedupAppend` -/

@[simp] theorem dedupAppend_nil (acc : List String) : dedupAppend acc [] = acc := rfl

theorem dedupAppend_cons (acc : List String) (p : String) (ps : List String) :
    dedupAppend acc (p :: ps) = dedupAppend (if acc.contains p then acc else acc ++ [p]) ps := rfl

theorem dedupAppend_cons_mem {acc : List String} {p : String} (ps : List String) (h : p ∈ acc) :
    dedupAppend acc (p :: ps) = dedupAppend acc ps := by
  rw [dedupAppend_cons, if_pos (List.contains_iff_mem.mpr h)]

theorem dedupAppend_cons_not_mem {acc : List String} {p : String} (ps : List String) (h : p ∉ acc) :
    dedupAppend acc (p :: ps) = dedupAppend (acc ++ [p]) ps := by
  rw [dedupAppend_cons, if_neg (by rwa [List.contains_iff_mem])]

theorem dedupAppend_append (acc xs ys : List String) :
    dedupAppend acc (xs ++ ys) = dedupAppend (dedupAppend acc xs) ys := by
  simp [dedupAppend, List.foldl_append]

/-- **`dedupAppend` keeps `acc` and appends, in first-appearance order and without repetition,
the elements of `ps` that are not yet in `acc`.** -/
theorem dedupAppend_spec (acc ps : List String) :
    dedupAppend acc ps = acc ++ (ps.filter (fun p => !acc.contains p)).eraseDups := by
  induction ps generalizing acc with
  | nil => simp
  | cons p ps ih =>
    by_cases h : p ∈ acc
    · rw [dedupAppend_cons_mem ps h, ih]
      simp [h]
    · rw [dedupAppend_cons_not_mem ps h, ih]
      have hc : acc.contains p = false := by
        rw [← Bool.not_eq_true, List.contains_iff_mem]; exact h
      simp only [List.filter_cons, hc, Bool.not_false, if_true, List.eraseDups_cons,
        List.filter_filter, List.append_assoc, List.singleton_append]
      congr 3
      apply List.filter_congr
      intro q _
      simp only [List.contains_append, List.contains_cons, List.contains_nil, Bool.or_false,
        Bool.not_or]
      exact Bool.and_comm _ _

theorem mem_dedupAppend {acc ps : List String} {p : String} :
    p ∈ dedupAppend acc ps ↔ p ∈ acc ∨ p ∈ ps := by
  rw [dedupAppend_spec]
  simp only [List.mem_append, List.mem_eraseDups, List.mem_filter, Bool.not_eq_true',
    ← Bool.not_eq_true, List.contains_iff_mem]
  constructor
  · rintro (h | ⟨h, _⟩)
    · exact .inl h
    · exact .inr h
  · rintro (h | h)
    · exact .inl h
    · by_cases hp : p ∈ acc
      · exact .inl hp
      · exact .inr ⟨h, hp⟩

theorem dedupAppend_nodup {acc : List String} (ps : List String) (h : acc.Nodup) :
    (dedupAppend acc ps).Nodup := by
  induction ps generalizing acc with
  | nil => simpa
  | cons p ps ih =>
    by_cases hp : p ∈ acc
    · rw [dedupAppend_cons_mem ps hp]; exact ih h
    · rw [dedupAppend_cons_not_mem ps hp]
      apply ih
      rw [List.nodup_append]
      refine ⟨h, by simp, ?_⟩
      intro a ha b hb
      simp only [List.mem_singleton] at hb
      subst hb
      intro hab; subst hab; exact hp ha

theorem filter_const_true (xs : List String) : xs.filter (fun _ => true) = xs :=
  List.filter_eq_self.mpr (by simp)

/-- first-appearance de-duplication is duplicate free (not in core) -/
theorem eraseDups_nodup (xs : List String) : xs.eraseDups.Nodup := by
  have := dedupAppend_nodup (acc := []) xs (by simp)
  rw [dedupAppend_spec] at this
  simpa [filter_const_true] using this

/-! ### `collectWorld` -/

/-- every predicate occurrence of the declaration, in source order: per archetype its own
attributes, then those of each of its components -/
def allPreds (w : PWorld) : List String :=
  w.archs.flatMap (fun a => a.cfgs ++ a.comps.flatMap (·.cfgs))

theorem foldl_dedupAppend_comps (acc : List String) (cs : List PComp) :
    cs.foldl (fun acc c => dedupAppend acc c.cfgs) acc = dedupAppend acc (cs.flatMap (·.cfgs)) := by
  induction cs generalizing acc with
  | nil => simp
  | cons c cs ih => simp only [List.foldl_cons, List.flatMap_cons, dedupAppend_append, ih]

theorem foldl_dedupAppend_archs (acc : List String) (as : List PArch) :
    as.foldl (fun acc a =>
      a.comps.foldl (fun acc c => dedupAppend acc c.cfgs) (dedupAppend acc a.cfgs)) acc =
      dedupAppend acc (as.flatMap (fun a => a.cfgs ++ a.comps.flatMap (·.cfgs))) := by
  induction as generalizing acc with
  | nil => rfl
  | cons a as ih =>
    rw [List.foldl_cons, ih, List.flatMap_cons, dedupAppend_append, dedupAppend_append,
      foldl_dedupAppend_comps]

theorem collectWorld_eq (w : PWorld) : collectWorld w = dedupAppend [] (allPreds w) :=
  foldl_dedupAppend_archs [] w.archs

/-- **`collectWorld` is the first-appearance de-duplication of all predicate occurrences.** -/
theorem collectWorld_eq_eraseDups (w : PWorld) : collectWorld w = (allPreds w).eraseDups := by
  rw [collectWorld_eq, dedupAppend_spec]
  simp [filter_const_true]

theorem mem_collectWorld {w : PWorld} {p : String} : p ∈ collectWorld w ↔ p ∈ allPreds w := by
  rw [collectWorld_eq, mem_dedupAppend]; simp

theorem collectWorld_nodup (w : PWorld) : (collectWorld w).Nodup := by
  rw [collectWorld_eq]; exact dedupAppend_nodup _ (by simp)

theorem collectWorld_complete (w : PWorld) :
    ∀ a ∈ w.archs, (∀ p ∈ a.cfgs, p ∈ collectWorld w) ∧
      ∀ c ∈ a.comps, ∀ p ∈ c.cfgs, p ∈ collectWorld w := by
  intro a ha
  constructor
  · intro p hp
    rw [mem_collectWorld]
    exact List.mem_flatMap.mpr ⟨a, ha, List.mem_append_left _ hp⟩
  · intro c hc p hp
    rw [mem_collectWorld]
    exact List.mem_flatMap.mpr
      ⟨a, ha, List.mem_append_right _ (List.mem_flatMap.mpr ⟨c, hc, hp⟩)⟩

/-- nothing else is collected -/
theorem collectWorld_sound {w : PWorld} {p : String} (h : p ∈ collectWorld w) :
    ∃ a ∈ w.archs, p ∈ a.cfgs ∨ ∃ c ∈ a.comps, p ∈ c.cfgs := by
  rw [mem_collectWorld] at h
  obtain ⟨a, ha, hp⟩ := List.mem_flatMap.mp h
  rcases List.mem_append.mp hp with hp | hp
  · exact ⟨a, ha, .inl hp⟩
  · obtain ⟨c, hc, hp⟩ := List.mem_flatMap.mp hp
    exact ⟨a, ha, .inr ⟨c, hc, hp⟩⟩

/-! ### The lookup recovers the assignment -/

theorem mkLookup_chain (ρ : String → Bool) (preds : List String) :
    mkLookup preds (chain ρ preds) = preds.map (fun p => (p, ρ p)) := by
  unfold mkLookup chain
  induction preds with
  | nil => rfl
  | cons p ps ih => simp [ih]

theorem find?_graph (ρ : String → Bool) (xs : List String) (p : String) :
    (xs.map (fun q => (q, ρ q))).find? (fun kv => kv.1 == p) =
      if p ∈ xs then some (p, ρ p) else none := by
  induction xs with
  | nil => simp
  | cons q xs ih =>
    simp only [List.map_cons, List.find?_cons, List.mem_cons]
    by_cases hq : q = p
    · subst hq; simp
    · have : (q == p) = false := by simpa using hq
      simp only [this, ih]
      have : ¬ p = q := fun h => hq h.symm
      simp [this]

/-- the lookup built from the macro chain, on any predicate (no `Nodup` needed: a repeated
predicate would be inserted twice with the same value) -/
theorem lookupCfg_mkLookup (ρ : String → Bool) (preds : List String) (p : String) :
    lookupCfg (mkLookup preds (chain ρ preds)) p = if p ∈ preds then some (ρ p) else none := by
  unfold lookupCfg
  rw [mkLookup_chain, ← List.map_reverse, find?_graph]
  by_cases h : p ∈ preds <;> simp [h]

theorem lookup_correct (ρ : String → Bool) :
    ∀ (preds : List String), preds.Nodup → ∀ p ∈ preds,
      lookupCfg (mkLookup preds (chain ρ preds)) p = some (ρ p) := by
  intro preds _ p hp
  rw [lookupCfg_mkLookup, if_pos hp]

theorem evaluateCfgs_correct (ρ : String → Bool) {cfgs preds : List String}
    (hsub : ∀ p ∈ cfgs, p ∈ preds) (hnd : preds.Nodup) :
    evaluateCfgs (mkLookup preds (chain ρ preds)) cfgs = some (cfgs.all ρ) :=
  evaluateCfgs_of_present (fun p hp => lookup_correct ρ preds hnd p (hsub p hp))

/-- a predicate that was not collected makes `evaluate_cfgs` panic, unless an earlier
predicate of the same item is false -/
example : evaluateCfgs (mkLookup ["f"] (chain (fun _ => true) ["f"])) ["f", "g"] = none := by
  decide

/-! ### Erasure -/

def eraseComps (ρ : String → Bool) (cs : List PComp) : List PComp :=
  (cs.filter (fun c => c.cfgs.all ρ)).map (fun c => { c with cfgs := [] })

def eraseWorld (ρ : String → Bool) (w : PWorld) : PWorld :=
  { w with
    archs := (w.archs.filter (fun a => a.cfgs.all ρ)).map (fun a => { a with cfgs := [], comps := eraseComps ρ a.comps }) }

/-- the archetype list of `eraseWorld` -/
def eraseArchs (ρ : String → Bool) (as : List PArch) : List PArch :=
  (as.filter (fun a => a.cfgs.all ρ)).map
    (fun a => { a with cfgs := [], comps := eraseComps ρ a.comps })

theorem eraseWorld_archs (ρ : String → Bool) (w : PWorld) :
    (eraseWorld ρ w).archs = eraseArchs ρ w.archs := rfl

theorem eraseComps_cons_true {ρ : String → Bool} {c : PComp} (cs : List PComp)
    (h : c.cfgs.all ρ = true) :
    eraseComps ρ (c :: cs) = { c with cfgs := [] } :: eraseComps ρ cs := by
  simp [eraseComps, h]

theorem eraseComps_cons_false {ρ : String → Bool} {c : PComp} (cs : List PComp)
    (h : c.cfgs.all ρ = false) : eraseComps ρ (c :: cs) = eraseComps ρ cs := by
  simp [eraseComps, h]

theorem eraseArchs_cons_true {ρ : String → Bool} {a : PArch} (as : List PArch)
    (h : a.cfgs.all ρ = true) :
    eraseArchs ρ (a :: as) =
      { a with cfgs := [], comps := eraseComps ρ a.comps } :: eraseArchs ρ as := by
  simp [eraseArchs, h]

theorem eraseArchs_cons_false {ρ : String → Bool} {a : PArch} (as : List PArch)
    (h : a.cfgs.all ρ = false) : eraseArchs ρ (a :: as) = eraseArchs ρ as := by
  simp [eraseArchs, h]

theorem evaluateCfgs_nil (l : CfgLookup) : evaluateCfgs l [] = some true := rfl

/-- With a lookup that answers `ρ` on every occurring predicate, `buildComps` equals
`buildComps` on the erased list with the empty lookup. -/
theorem buildComps_erase {L : CfgLookup} {ρ : String → Bool} (cs : List PComp)
    (ids : List (Nat × String)) (last : Option Nat)
    (h : ∀ c ∈ cs, evaluateCfgs L c.cfgs = some (c.cfgs.all ρ)) :
    buildComps L cs ids last = buildComps [] (eraseComps ρ cs) ids last := by
  induction cs generalizing ids last with
  | nil => rfl
  | cons c cs ih =>
    have ih' := fun ids last => ih ids last (fun c hc => h c (List.mem_cons_of_mem _ hc))
    have hc := h c (by simp)
    cases hρ : c.cfgs.all ρ with
    | false =>
      rw [hρ] at hc
      rw [buildComps_cons_false hc, eraseComps_cons_false cs hρ]
      exact ih' ids last
    | true =>
      rw [hρ] at hc
      rw [eraseComps_cons_true cs hρ]
      have hc' : evaluateCfgs [] ({ c with cfgs := [] } : PComp).cfgs = some true := rfl
      cases ha : advanceId c.id c.name ids last with
      | error e =>
        rw [buildComps_cons_true_error hc ha, buildComps_cons_true_error hc' ha]
      | ok r =>
        obtain ⟨n, ids'⟩ := r
        rw [buildComps_cons_true_ok hc ha, buildComps_cons_true_ok hc' ha, ih' ids' (some n)]

theorem buildArchs_erase {L : CfgLookup} {ρ : String → Bool} (as : List PArch)
    (ids : List (Nat × String)) (last : Option Nat)
    (h : ∀ a ∈ as, evaluateCfgs L a.cfgs = some (a.cfgs.all ρ) ∧
      ∀ c ∈ a.comps, evaluateCfgs L c.cfgs = some (c.cfgs.all ρ)) :
    buildArchs L as ids last = buildArchs [] (eraseArchs ρ as) ids last := by
  induction as generalizing ids last with
  | nil => rfl
  | cons a as ih =>
    have ih' := fun ids last => ih ids last (fun a ha => h a (List.mem_cons_of_mem _ ha))
    obtain ⟨hc, hcomps⟩ := h a (by simp)
    cases hρ : a.cfgs.all ρ with
    | false =>
      rw [hρ] at hc
      rw [buildArchs_cons_false hc, eraseArchs_cons_false as hρ]
      exact ih' ids last
    | true =>
      rw [hρ] at hc
      rw [eraseArchs_cons_true as hρ]
      have hc' : evaluateCfgs []
          ({ a with cfgs := [], comps := eraseComps ρ a.comps } : PArch).cfgs = some true := rfl
      have hb := buildComps_erase (L := L) (ρ := ρ) a.comps [] none hcomps
      cases ha : advanceId a.id a.name ids last with
      | error e =>
        rw [buildArchs_cons_true_error hc ha, buildArchs_cons_true_error hc' ha]
      | ok r =>
        obtain ⟨n, ids'⟩ := r
        cases hbc : buildComps L a.comps [] none with
        | error e =>
          rw [buildArchs_cons_true_comps_error hc ha hbc,
            buildArchs_cons_true_comps_error hc' ha (hb ▸ hbc)]
        | ok comps =>
          rw [buildArchs_cons_true_ok hc ha hbc, buildArchs_cons_true_ok hc' ha (hb ▸ hbc),
            ih' ids' (some n)]

theorem allPreds_eraseWorld (ρ : String → Bool) (w : PWorld) : allPreds (eraseWorld ρ w) = [] := by
  unfold allPreds
  rw [List.flatMap_eq_nil_iff]
  intro a ha
  rw [eraseWorld_archs] at ha
  obtain ⟨a', _, rfl⟩ := List.mem_map.mp ha
  simp only [List.nil_append, List.flatMap_eq_nil_iff]
  intro c hc
  obtain ⟨c', _, rfl⟩ := List.mem_map.mp hc
  rfl

theorem collectWorld_eraseWorld (ρ : String → Bool) (w : PWorld) :
    collectWorld (eraseWorld ρ w) = [] := by
  rw [collectWorld_eq, allPreds_eraseWorld]; rfl

/-- In the pipeline every cfg list of the declaration evaluates to its truth value under `ρ`. -/
theorem expandWorld_evaluate (w : PWorld) (ρ : String → Bool) :
    ∀ a ∈ w.archs,
      evaluateCfgs (mkLookup (collectWorld w) (chain ρ (collectWorld w))) a.cfgs =
        some (a.cfgs.all ρ) ∧
      ∀ c ∈ a.comps,
        evaluateCfgs (mkLookup (collectWorld w) (chain ρ (collectWorld w))) c.cfgs =
          some (c.cfgs.all ρ) := by
  intro a ha
  obtain ⟨h1, h2⟩ := collectWorld_complete w a ha
  exact ⟨evaluateCfgs_correct ρ h1 (collectWorld_nodup w),
    fun c hc => evaluateCfgs_correct ρ (h2 c hc) (collectWorld_nodup w)⟩

/-- **C16, world half.** For every truth assignment and every declaration, the pipeline yields
the same `DataWorld`, or the same error, as on the declaration from which the disabled
archetypes/components have been deleted and all `#[cfg]` attributes removed. -/
theorem world_erasure (w : PWorld) (ρ : String → Bool) :
    expandWorld w ρ = expandWorld (eraseWorld ρ w) (fun _ => true) := by
  unfold expandWorld
  simp only [collectWorld_eraseWorld]
  unfold DWorld.new
  rw [buildArchs_erase (ρ := ρ) w.archs [] none (expandWorld_evaluate w ρ)]
  rfl

/-- only the attributes are removed -/
def stripWorld (w : PWorld) : PWorld :=
  { w with
    archs := w.archs.map (fun a => { a with cfgs := [], comps := a.comps.map (fun c => { c with cfgs := [] }) }) }

theorem eraseComps_true {ρ : String → Bool} (h : ∀ p, ρ p = true) (cs : List PComp) :
    eraseComps ρ cs = cs.map (fun c => { c with cfgs := [] }) := by
  unfold eraseComps
  rw [List.filter_eq_self.mpr]
  intro c _
  simp [h]

theorem eraseWorld_true {ρ : String → Bool} (h : ∀ p, ρ p = true) (w : PWorld) :
    eraseWorld ρ w = stripWorld w := by
  unfold eraseWorld stripWorld
  rw [List.filter_eq_self.mpr]
  · simp only [eraseComps_true h]
  · intro a _
    simp [h]

/-- **A true predicate behaves as if the attribute were absent.** -/
theorem expandWorld_true {ρ : String → Bool} (h : ∀ p, ρ p = true) (w : PWorld) :
    expandWorld w ρ = expandWorld (stripWorld w) (fun _ => true) := by
  rw [world_erasure, eraseWorld_true h]

/-- The result depends only on the values of the predicates that occur in the declaration. -/
theorem expandWorld_congr {ρ ρ' : String → Bool} (w : PWorld)
    (h : ∀ p ∈ collectWorld w, ρ p = ρ' p) : expandWorld w ρ = expandWorld w ρ' := by
  have hall : ∀ cfgs : List String, (∀ p ∈ cfgs, p ∈ collectWorld w) → cfgs.all ρ = cfgs.all ρ' := by
    intro cfgs hsub
    induction cfgs with
    | nil => rfl
    | cons p ps ih =>
      simp only [List.all_cons]
      rw [h p (hsub p (by simp)), ih (fun q hq => hsub q (List.mem_cons_of_mem _ hq))]
  have hcomps : ∀ a ∈ w.archs, eraseComps ρ a.comps = eraseComps ρ' a.comps := by
    intro a ha
    unfold eraseComps
    rw [List.filter_congr]
    intro c hc
    exact hall c.cfgs ((collectWorld_complete w a ha).2 c hc)
  rw [world_erasure w ρ, world_erasure w ρ']
  congr 1
  unfold eraseWorld
  congr 1
  rw [List.filter_congr (q := fun a => a.cfgs.all ρ')
    (fun a ha => hall a.cfgs (collectWorld_complete w a ha).1)]
  apply List.map_congr_left
  intro a ha
  rw [hcomps a (List.mem_filter.mp ha).1]

/-- The `unwrap()` in `evaluate_cfgs` never panics in the world pipeline. -/
theorem expandWorld_ne_missingCfg (w : PWorld) (ρ : String → Bool) :
    expandWorld w ρ ≠ .error .missingCfg := by
  intro h
  unfold expandWorld at h
  rcases ids_error_missingCfg h with ⟨a, ha, hn⟩ | ⟨a, ha, c, hc, hn⟩
  · rw [(expandWorld_evaluate w ρ a ha).1] at hn; cases hn
  · rw [(expandWorld_evaluate w ρ a (List.mem_filter.mp ha).1).2 c hc] at hn; cases hn

/-! ### Non-vacuity: a declaration with two predicates under all four assignments -/

namespace Ex

/-- `A` is `#[cfg(f)]` with a `#[cfg(g)]` component, `B` has a `#[cfg(f)]` component,
`C` is `#[cfg(g)]` -/
def w2 : PWorld :=
  ⟨"W", [arch none "A" ["f"] [comp none "X", comp none "Y" ["g"], comp none "Z"],
         arch none "B" [] [comp none "X" ["f"], comp none "Z"],
         arch none "C" ["g"]]⟩

def asg (f g : Bool) : String → Bool := fun p => if p = "f" then f else if p = "g" then g else false

example : collectWorld w2 = ["f", "g"] := by decide
example : allPreds w2 = ["f", "g", "f", "g"] := by decide
example : (collectWorld w2).Nodup := collectWorld_nodup w2
example : mkLookup (collectWorld w2) (chain (asg false true) (collectWorld w2)) =
    [("f", false), ("g", true)] := by decide

example : expandWorld w2 (asg true true) =
    .ok ⟨"W", [⟨0, "A", [⟨0, "X"⟩, ⟨1, "Y"⟩, ⟨2, "Z"⟩]⟩, ⟨1, "B", [⟨0, "X"⟩, ⟨1, "Z"⟩]⟩,
      ⟨2, "C", []⟩]⟩ := by decide
example : expandWorld w2 (asg true false) =
    .ok ⟨"W", [⟨0, "A", [⟨0, "X"⟩, ⟨1, "Z"⟩]⟩, ⟨1, "B", [⟨0, "X"⟩, ⟨1, "Z"⟩]⟩]⟩ := by decide
/-- `A` disabled: the ids of `B` and `C` shift down, and so does `Z` inside `B` -/
example : expandWorld w2 (asg false true) =
    .ok ⟨"W", [⟨0, "B", [⟨0, "Z"⟩]⟩, ⟨1, "C", []⟩]⟩ := by decide
example : expandWorld w2 (asg false false) = .ok ⟨"W", [⟨0, "B", [⟨0, "Z"⟩]⟩]⟩ := by decide

example : eraseWorld (asg false true) w2 =
    ⟨"W", [arch none "B" [] [comp none "Z"], arch none "C"]⟩ := by decide
example : stripWorld w2 =
    ⟨"W", [arch none "A" [] [comp none "X", comp none "Y", comp none "Z"],
           arch none "B" [] [comp none "X", comp none "Z"], arch none "C"]⟩ := by decide

/-- whether the declaration is an error can depend on the assignment: `B`'s explicit id `0`
collides with `A`'s implicit `0` only when `A` is enabled -/
def w3 : PWorld := ⟨"W", [arch none "A" ["f"], arch (some 0) "B"]⟩

example : expandWorld w3 (asg true true) = .error (.id (.duplicate 0 "B" "A")) := by decide
example : expandWorld w3 (asg false true) = .ok ⟨"W", [⟨0, "B", []⟩]⟩ := by decide
example : expandWorld (eraseWorld (asg true true) w3) (fun _ => true) =
    .error (.id (.duplicate 0 "B" "A")) := by decide

end Ex

#print axioms dedupAppend_spec
#print axioms collectWorld_eq_eraseDups
#print axioms collectWorld_nodup
#print axioms collectWorld_complete
#print axioms lookup_correct
#print axioms evaluateCfgs_correct
#print axioms world_erasure
#print axioms expandWorld_true
#print axioms expandWorld_congr
#print axioms expandWorld_ne_missingCfg

end Gecs.Mac
