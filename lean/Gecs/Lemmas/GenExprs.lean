/-
Ties the small bit-level expressions GENERATED from /repo's sources on every run
(Gecs/Gen/Exprs.lean, by tools/extract.py: handle packing / unpacking, the hash word, the
`SlotIndex` encoding, the `TrimmedIndex` range test) to the hand-written model
(Model/Bits.lean, Model/Check.lean).  If one of these expressions changes in the Rust code the
generated definition changes and the theorem about it stops checking.

Everything is over `Nat`; the generated definitions make the machine width explicit
(`<<` truncates, `!` complements within the width, `as u8` is `% 256`).
-/
import Gecs.Gen.Exprs
import Gecs.Lemmas.GenTie
import Gecs.Lemmas.Bits

namespace Gecs

/-! ### Auxiliary facts -/

/-- An in-range index shifted by the id width is still a `u32`: the truncation of `<<` is the
identity. -/
private theorem shl8_mod_of_lt {i : Nat} (hi : i < MAX_DATA_CAPACITY) :
    (i <<< 8) % 4294967296 = i <<< 8 := by
  apply Nat.mod_eq_of_lt
  rw [Nat.shiftLeft_eq]
  unfold MAX_DATA_CAPACITY at hi
  omega

/-- A `u32` shifted by 32 is still a `u64`. -/
private theorem shl32_mod_of_lt {k : Nat} (hk : k < U32) :
    (k <<< 32) % 18446744073709551616 = k <<< 32 := by
  apply Nat.mod_eq_of_lt
  rw [Nat.shiftLeft_eq]
  unfold U32 at hk
  omega

/-- Setting the (clear) top bit of a word below `2^31` adds `2^31`. -/
private theorem or_freeBit_of_lt {n : Nat} (h : n < 2147483648) :
    n ||| 2147483648 = n + 2147483648 := by
  have h' : n < 2 ^ 31 := by omega
  have := Nat.two_pow_add_eq_or_of_lt h' 1
  rw [Nat.or_comm, Nat.add_comm]
  simpa using this.symm

/-- Clearing the top bit of a `u32`: `x & !FREE_BIT = x % 2^31`. -/
private theorem and_not_freeBit (x : Nat) :
    x &&& (4294967295 - 2147483648) = x % 2147483648 := by
  have := Nat.and_two_pow_sub_one_eq_mod x 31
  simpa using this

/-! ### Handle packing (entity.rs) -/

/-- … WITHOUT a range hypothesis the translated packing is `packKey` with the shift truncated
to the `u32` width (so the tie does not depend on the range). -/
theorem gen_expr_pack_key_raw (i a : Nat) :
    Gen.entityAnyNewKey i a = ((i <<< ARCHETYPE_ID_BITS) % U32) ||| a
      ∧ Gen.entityDirectAnyNewKey i a = ((i <<< ARCHETYPE_ID_BITS) % U32) ||| a :=
  ⟨rfl, rfl⟩

/-- key packing: the translated expression is the model's `packKey` for every in-range index
(for an index ≥ 2^24 the u32 shift would lose bits; `TrimmedIndex` excludes that) -/
theorem gen_expr_pack_key (i a : Nat) (hi : i < MAX_DATA_CAPACITY) :
    Gen.entityAnyNewKey i a = packKey i a ∧ Gen.entityDirectAnyNewKey i a = packKey i a := by
  have hraw := gen_expr_pack_key_raw i a
  have hm : (i <<< ARCHETYPE_ID_BITS) % U32 = i <<< ARCHETYPE_ID_BITS := shl8_mod_of_lt hi
  rw [hm] at hraw
  exact hraw

theorem gen_expr_key_id (k : Nat) :
    Gen.entityAnyArchetypeId k = keyId k ∧ Gen.entityDirectAnyArchetypeId k = keyId k :=
  ⟨rfl, rfl⟩

theorem gen_expr_key_index (k : Nat) :
    Gen.entityAnyIndex k = keyIndex k ∧ Gen.entityDirectAnyIndex k = keyIndex k :=
  ⟨rfl, rfl⟩

theorem gen_expr_hash_word (k : Key) (h : k.key < U32) :
    Gen.entityAnyHashWord k.key k.ver = hashInput k
      ∧ Gen.entityDirectAnyHashWord k.key k.ver = hashInput k := by
  unfold Gen.entityAnyHashWord Gen.entityDirectAnyHashWord hashInput
  rw [shl32_mod_of_lt h]
  exact ⟨rfl, rfl⟩

/-! ### Slot-index encoding (slot.rs) -/

/-- slot encoding: what `new_free` / `new_data` store is `encodeIdx` of the model's index -/
theorem gen_expr_slot_encode (n : Nat) (h : n < MAX_DATA_CAPACITY) :
    Gen.slotNewFree n = encodeIdx (.free n) ∧ Gen.slotNewData n = encodeIdx (.data n) := by
  refine ⟨?_, rfl⟩
  have hn : n < 2147483648 := by unfold MAX_DATA_CAPACITY at h; omega
  show n ||| 2147483648 = n + 2147483648
  exact or_freeBit_of_lt hn

/-- slot decoding: the model's `decodeIdx` is the case analysis the Rust accessors make
(`is_free_end`, then `is_free`, then `index_free` / `index_data`), for every u32 word -/
theorem gen_expr_slot_decode (x : Nat) (hx : x < U32) :
    decodeIdx x =
      if Gen.slotIsFreeEnd x then .freeEnd
      else if Gen.slotIsFree x then .free (Gen.slotIndexFree x)
      else .data (Gen.slotIndexData x) := by
  have hfree : (Gen.FREE_BIT &&& x ≠ 0) ↔ x ≥ FREE_BIT := by
    rw [gen_free_bit]; exact freeBit_and_ne_zero_iff hx
  have hidx : Gen.slotIndexFree x = x % 2147483648 := and_not_freeBit x
  unfold Gen.slotIsFreeEnd Gen.slotIsFree Gen.slotIndexData decodeIdx
  rw [gen_free_list_end, hidx]
  by_cases h1 : x = FREE_LIST_END
  · simp [h1]
  · by_cases h2 : x ≥ FREE_BIT
    · have h2' : Gen.FREE_BIT &&& x ≠ 0 := hfree.2 h2
      have hsub : x % 2147483648 = x - FREE_BIT := by
        unfold FREE_BIT at h2 ⊢; unfold U32 at hx; omega
      simp [h1, h2, h2', hsub]
    · have h2' : ¬ (Gen.FREE_BIT &&& x ≠ 0) := fun h => h2 (hfree.1 h)
      simp [h1, h2, h2']

/-! ### `TrimmedIndex` (index.rs) -/

theorem gen_expr_trimmed (i : Nat) :
    Gen.trimmedNewU32 i = decide (i < MAX_DATA_CAPACITY)
      ∧ Gen.trimmedNewUsize i = decide (i < MAX_DATA_CAPACITY) :=
  ⟨rfl, rfl⟩

/-! ### Consequence -/

/-- consequence used by C08 / C14: the translated packing is injective on in-range words -/
theorem gen_expr_pack_key_inj {i₁ a₁ i₂ a₂ : Nat} (h₁ : i₁ < MAX_DATA_CAPACITY)
    (h₂ : i₂ < MAX_DATA_CAPACITY) (ha₁ : a₁ < 256) (ha₂ : a₂ < 256)
    (h : Gen.entityAnyNewKey i₁ a₁ = Gen.entityAnyNewKey i₂ a₂) :
    i₁ = i₂ ∧ a₁ = a₂ := by
  rw [(gen_expr_pack_key i₁ a₁ h₁).1, (gen_expr_pack_key i₂ a₂ h₂).1,
    packKey_eq i₁ a₁ ha₁, packKey_eq i₂ a₂ ha₂] at h
  omega

/-! ### Non-vacuity: boundary words -/

section Examples

-- largest index, largest id: hypotheses satisfiable, and both sides are the all-ones word
example : (16777215 : Nat) < MAX_DATA_CAPACITY := by decide
example : Gen.entityAnyNewKey 16777215 255 = 4294967295 := by decide
example : Gen.entityDirectAnyNewKey 16777215 255 = 4294967295 := by decide
example : Gen.entityAnyNewKey 16777215 255 = packKey 16777215 255 := by decide
example : Gen.entityAnyNewKey 16777215 255 = packKey 16777215 255 :=
  (gen_expr_pack_key 16777215 255 (by decide)).1
example : Gen.entityAnyNewKey 0 0 = packKey 0 0 := by decide
-- one past the largest index: the translated (truncating) packing and `packKey` differ, so the
-- range hypothesis of `gen_expr_pack_key` is needed, and `gen_expr_pack_key_raw` is the full story
example : Gen.entityAnyNewKey 16777216 0 ≠ packKey 16777216 0 := by decide
example : Gen.entityAnyNewKey 16777216 0 = 0 := by decide
-- ... and injectivity fails there as well
example : Gen.entityAnyNewKey 16777216 0 = Gen.entityAnyNewKey 0 0 := by decide
example : Gen.entityAnyNewKey 16777215 255 ≠ Gen.entityAnyNewKey 16777215 254 := by decide
example : Gen.entityAnyNewKey 16777215 255 ≠ Gen.entityAnyNewKey 16777214 255 := by decide

example : Gen.entityAnyArchetypeId 4294967295 = 255 := by decide
example : Gen.entityAnyIndex 4294967295 = 16777215 := by decide
example : Gen.entityDirectAnyArchetypeId 4294967295 = 255 := by decide
example : Gen.entityDirectAnyIndex 4294967295 = 16777215 := by decide
example : Gen.entityAnyArchetypeId (Gen.entityAnyNewKey 16777215 255) = 255 := by decide
example : Gen.entityAnyIndex (Gen.entityAnyNewKey 16777215 255) = 16777215 := by decide

example : (⟨4294967295, 4294967295⟩ : Key).key < U32 := by decide
example : Gen.entityAnyHashWord 4294967295 4294967295 = 18446744073709551615 := by decide
example : Gen.entityAnyHashWord 4294967295 4294967295 = hashInput ⟨4294967295, 4294967295⟩ := by
  decide
example : Gen.entityDirectAnyHashWord 4294967295 1 = hashInput ⟨4294967295, 1⟩ :=
  (gen_expr_hash_word ⟨4294967295, 1⟩ (by decide)).2
-- a key word of 2^32 would be shifted out: the `u32` hypothesis of `gen_expr_hash_word` is needed
example : Gen.entityAnyHashWord 4294967296 1 ≠ hashInput ⟨4294967296, 1⟩ := by decide

example : Gen.slotNewFree 16777215 = encodeIdx (.free 16777215) := by decide
example : Gen.slotNewFree 16777215 = 2164260863 := by decide
example : Gen.slotNewData 16777215 = encodeIdx (.data 16777215) := by decide
example : Gen.slotNewFree 0 = FREE_BIT := by decide
-- with the top bit already set `|` is not `+`: a bound on `n` is needed in `gen_expr_slot_encode`
example : Gen.slotNewFree 2147483648 ≠ encodeIdx (.free 2147483648) := by decide

-- x = FREE_LIST_END, x = FREE_BIT, x = FREE_BIT - 1, x = 0, and the largest free link
example : FREE_LIST_END < U32 ∧ FREE_BIT < U32 ∧ FREE_BIT - 1 < U32 := by decide
example : Gen.slotIsFreeEnd FREE_LIST_END = true := by decide
example : Gen.slotIsFree FREE_LIST_END = true := by decide
example : decodeIdx FREE_LIST_END = .freeEnd := by decide
example : Gen.slotIsFreeEnd FREE_BIT = false ∧ Gen.slotIsFree FREE_BIT = true
    ∧ Gen.slotIndexFree FREE_BIT = 0 := by decide
example : decodeIdx FREE_BIT = .free 0 := by decide
example : Gen.slotIsFreeEnd (FREE_BIT - 1) = false ∧ Gen.slotIsFree (FREE_BIT - 1) = false
    ∧ Gen.slotIndexData (FREE_BIT - 1) = 2147483647 := by decide
example : decodeIdx (FREE_BIT - 1) = .data 2147483647 := by decide
example : decodeIdx 0 = .data 0 ∧ Gen.slotIsFree 0 = false := by decide
example : Gen.slotIsFreeEnd 4294967294 = false ∧ Gen.slotIsFree 4294967294 = true
    ∧ Gen.slotIndexFree 4294967294 = 2147483646 := by decide
example : decodeIdx 4294967294 = .free 2147483646 := by decide
example : decodeIdx FREE_BIT =
    if Gen.slotIsFreeEnd FREE_BIT then .freeEnd
    else if Gen.slotIsFree FREE_BIT then .free (Gen.slotIndexFree FREE_BIT)
    else .data (Gen.slotIndexData FREE_BIT) := gen_expr_slot_decode FREE_BIT (by decide)
-- beyond the `u32` range the bit test and the comparison disagree (the hypothesis is needed)
example : decodeIdx 4294967296 ≠
    (if Gen.slotIsFreeEnd 4294967296 then .freeEnd
     else if Gen.slotIsFree 4294967296 then .free (Gen.slotIndexFree 4294967296)
     else .data (Gen.slotIndexData 4294967296)) := by decide

example : Gen.trimmedNewU32 16777215 = true ∧ Gen.trimmedNewU32 16777216 = false := by decide
example : Gen.trimmedNewUsize 16777215 = true ∧ Gen.trimmedNewUsize 16777216 = false := by decide
example : Gen.trimmedNewU32 0 = true ∧ Gen.trimmedNewUsize 4294967295 = false := by decide

example : (fun i a => (((i <<< 8) % 4294967296) &&& 16777215) ||| a) 65536 0 ≠ packKey 65536 0 := by
  decide

end Examples

#print axioms gen_expr_pack_key
#print axioms gen_expr_pack_key_raw
#print axioms gen_expr_key_id
#print axioms gen_expr_key_index
#print axioms gen_expr_hash_word
#print axioms gen_expr_slot_encode
#print axioms gen_expr_slot_decode
#print axioms gen_expr_trimmed
#print axioms gen_expr_pack_key_inj

end Gecs
