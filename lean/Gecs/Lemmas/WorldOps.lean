/-
World-level plumbing (`setArch`, `liftArch`, `lookup`, `World.withCapacity`), the closure
properties of the atomic-step relation (`SReach.trans`, `SReach.inv`, …) and the lookup
theorems: under `WInv` every use of every key — forged, stale, foreign, of any kind, typed
with a mismatching id — is answered by `ok` or `panic` in the SAME world, never by `ub`.

Deviation from the requested statements (see the counterexamples at the end of the file):
a *typed* key use names its archetype statically (`u.at_.getD u.h.a`); the model answers
`.ub "no such archetype"` when that index does not exist (in Rust such a program does not
type-check).  The lookup theorems therefore carry the hypothesis `u.Scoped w.archs.length`.
-/
import Gecs.Lemmas.StorageOps
import Gecs.Lemmas.Reach

namespace Gecs
variable {α : Type}

/-! ## Closure properties of `SStep` / `SReach` -/

/-- `Inv` of any storage already implies the sanity condition on the constants. -/
theorem Inv.cfgOkW {cfg : Cfg} {s : Storage α} (h : Inv cfg s) : CfgOk cfg :=
  ⟨Nat.le_trans h.archVer.1 h.archVer.2⟩

theorem Inv.len_le_maxCap {cfg : Cfg} {s : Storage α} (h : Inv cfg s) : s.len ≤ cfg.maxCap :=
  Nat.le_trans h.lenCap h.capMax

theorem SReach.of_step {cfg : Cfg} {s s' : Storage α} (hi : Inv cfg s) (h : SStep cfg s s') :
    SReach cfg s s' :=
  .step (.refl s) hi h

theorem SReach.trans {cfg : Cfg} {s s' s'' : Storage α}
    (h1 : SReach cfg s s') (h2 : SReach cfg s' s'') : SReach cfg s s'' := by
  induction h2 with
  | refl => exact h1
  | step _ hi hs ih => exact .step ih hi hs

theorem length_zipWith_push (cols : List (List α)) (row : List α) :
    (List.zipWith (fun c x => c ++ [x]) cols row).length = min cols.length row.length := by
  simp

/-- Extended outcome description of `destroyEnt`: in addition to `destroyEnt_spec`, the
number of columns is kept. -/
theorem destroyEnt_cases (cfg : Cfg) (s : Storage α) (e : Ent) (h : Inv cfg s) :
    destroyEnt cfg s e = .ok none s
    ∨ (∃ row s', destroyEnt cfg s e = .ok (some row) s' ∧ Inv cfg s'
        ∧ s'.capacity = s.capacity ∧ s'.cols.length = s.cols.length ∧ s'.len = s.len - 1)
    ∨ (∃ msg, destroyEnt cfg s e = .panic msg s) := by
  by_cases hm : e ∈ s.ents
  · obtain ⟨d, hd⟩ := List.getElem?_of_mem hm
    rw [destroyEnt_of_mem h hd]
    rcases forceDestroy_live cfg s d e h hd with
      ⟨row, s', sv, av, hok, hinv, _, _, _, _, hlen, hcap, _, _, _, hcols, _⟩ | ⟨hp, _⟩ | ⟨hp, _⟩
    · right; left; rw [hok]
      exact ⟨row, s', rfl, hinv, hcap, by rw [hcols, List.length_map], hlen⟩
    · right; right; rw [hp]; exact ⟨_, rfl⟩
    · right; right; rw [hp]; exact ⟨_, rfl⟩
  · rcases destroyEnt_spec cfg s e h with ⟨h1, _⟩ | ⟨_, _, _, _, h2, _⟩ | ⟨m, h1, _⟩
    · exact .inl h1
    · exact absurd h2 hm
    · exact .inr (.inr ⟨m, h1⟩)

theorem destroyDirect_cases (cfg : Cfg) (s : Storage α) (d v : Nat) (h : Inv cfg s) :
    destroyDirect cfg s d v = .ok none s
    ∨ (∃ row s', destroyDirect cfg s d v = .ok (some row) s' ∧ Inv cfg s'
        ∧ s'.capacity = s.capacity ∧ s'.cols.length = s.cols.length ∧ s'.len = s.len - 1)
    ∨ (∃ msg, destroyDirect cfg s d v = .panic msg s) := by
  rcases resolveDirect_spec cfg s d v h with h1 | ⟨e, _, rfl, hd⟩ | ⟨msg, h1, _⟩
  · left; simp [destroyDirect, h1]
  · rw [destroyDirect_of_lt h hd]
    rcases forceDestroy_live cfg s d e h hd with
      ⟨row, s', sv, av, hok, hinv, _, _, _, _, hlen, hcap, _, _, _, hcols, _⟩ | ⟨hp, _⟩ | ⟨hp, _⟩
    · right; left; rw [hok]
      exact ⟨row, s', rfl, hinv, hcap, by rw [hcols, List.length_map], hlen⟩
    · right; right; rw [hp]; exact ⟨_, rfl⟩
    · right; right; rw [hp]; exact ⟨_, rfl⟩
  · right; right; exact ⟨msg, by simp [destroyDirect, h1]⟩

/-- Each atomic step from a state satisfying `Inv` lands in a state satisfying `Inv`, never
shrinks the capacity and never adds a column. -/
theorem SStep.spec {cfg : Cfg} {s s' : Storage α} (hi : Inv cfg s) (h : SStep cfg s s') :
    Inv cfg s' ∧ s.capacity ≤ s'.capacity ∧ s'.cols.length ≤ s.cols.length := by
  cases h with
  | write d c x =>
    exact ⟨writeCell_inv hi, Nat.le_refl _, by simp [writeCell]⟩
  | push _ g row e hg hp =>
    by_cases hlt : s.len < cfg.maxCap
    · obtain ⟨e', s1, h1, h2, _, h4, _, _, _, _, _, h10, _⟩ :=
        push_ok cfg g s row hi hi.cfgOkW hg hlt
      rw [h1] at hp; cases hp
      refine ⟨h2, h4, ?_⟩
      rw [h10, length_zipWith_push]; exact Nat.min_le_left _ _
    · have hfull : s.len = cfg.maxCap := by have := hi.len_le_maxCap; omega
      rw [(push_overflow cfg g s row hi hfull).2] at hp; cases hp
  | pushWithin _ row e hp =>
    by_cases hlt : s.len < s.capacity
    · obtain ⟨e', s1, h1, h2, _, h4, _, _, _, h8, _⟩ := pushWithin_ok cfg s row hi hlt
      rw [h1] at hp; cases hp
      refine ⟨h2, Nat.le_of_eq h4.symm, ?_⟩
      rw [h8, length_zipWith_push]; exact Nat.min_le_left _ _
    · rw [(pushWithin_spec cfg s row hi).2 (by omega)] at hp; cases hp
  | destroyEnt _ e row hp =>
    rcases destroyEnt_cases cfg s e hi with h1 | ⟨row', s1, h1, h2, h3, h4, _⟩ | ⟨m, h1⟩
    · rw [h1] at hp; cases hp
    · rw [h1] at hp; cases hp
      exact ⟨h2, Nat.le_of_eq h3.symm, Nat.le_of_eq h4⟩
    · rw [h1] at hp; cases hp
  | destroyDirect _ d v row hp =>
    rcases destroyDirect_cases cfg s d v hi with h1 | ⟨row', s1, h1, h2, h3, h4, _⟩ | ⟨m, h1⟩
    · rw [h1] at hp; cases hp
    · rw [h1] at hp; cases hp
      exact ⟨h2, Nat.le_of_eq h3.symm, Nat.le_of_eq h4⟩
    · rw [h1] at hp; cases hp
  | clear => exact ⟨clearEvents_inv hi, Nat.le_refl _, Nat.le_refl _⟩
  | clone cl => exact ⟨cloneStorage_inv hi, Nat.le_refl _, by simp⟩

theorem SStep.inv {cfg : Cfg} {s s' : Storage α} (hi : Inv cfg s) (h : SStep cfg s s') :
    Inv cfg s' := (h.spec hi).1

theorem SReach.inv {cfg : Cfg} {s s' : Storage α} (hi : Inv cfg s) (h : SReach cfg s s') :
    Inv cfg s' := by
  cases h with
  | refl => exact hi
  | step _ hi' hs => exact hs.inv hi'

theorem SReach.capacity_mono {cfg : Cfg} {s s' : Storage α} (_hi : Inv cfg s)
    (h : SReach cfg s s') : s.capacity ≤ s'.capacity := by
  induction h with
  | refl => exact Nat.le_refl _
  | step _ hi' hs ih => exact Nat.le_trans ih (hs.spec hi').2.1

/-- Requested `SReach.cols_length` (equality) is false: `SStep.push` with a row shorter than
the number of columns truncates `cols` (`zipWith`).  What holds in general is `≤`; equality
holds along the steps taken by well-scoped operations (`WRel.ncols` in `QueryOps.lean`). -/
theorem SReach.cols_length_le {cfg : Cfg} {s s' : Storage α} (_hi : Inv cfg s)
    (h : SReach cfg s s') : s'.cols.length ≤ s.cols.length := by
  induction h with
  | refl => exact Nat.le_refl _
  | step _ hi' hs ih => exact Nat.le_trans (hs.spec hi').2.2 ih

/-! ## A. World plumbing -/

theorem set_eq_self {β : Type} (l : List β) (a : Nat) (x : β) (h : l[a]? = some x) :
    l.set a x = l := by
  obtain ⟨hlt, rfl⟩ := List.getElem?_eq_some_iff.mp h
  exact List.set_getElem_self hlt

/-- Writing back the storage that is already there is the identity. -/
theorem World.setArch_self {w : World α} {a : Nat} {s : Storage α} (h : w.archs[a]? = some s) :
    w.setArch a s = w := by
  cases w with
  | mk ids archs => simp only [World.setArch]; rw [set_eq_self archs a s h]

@[simp] theorem World.setArch_ids (w : World α) (a : Nat) (s : Storage α) :
    (w.setArch a s).ids = w.ids := rfl

@[simp] theorem World.setArch_length (w : World α) (a : Nat) (s : Storage α) :
    (w.setArch a s).archs.length = w.archs.length := by
  simp [World.setArch]

theorem World.setArch_get_self {w : World α} {a : Nat} (s : Storage α) (h : a < w.archs.length) :
    (w.setArch a s).archs[a]? = some s := by
  simp [World.setArch, h]

theorem World.setArch_get_ne {w : World α} {a b : Nat} (s : Storage α) (h : a ≠ b) :
    (w.setArch a s).archs[b]? = w.archs[b]? := by
  simp [World.setArch, List.getElem?_set_ne h]

theorem WInv.get {cfg : Cfg} {w : World α} (hw : WInv cfg w) {a : Nat} {s : Storage α}
    (h : w.archs[a]? = some s) : Inv cfg s :=
  hw.inv s (List.mem_of_getElem? h)

theorem WInv.lt_of_get {cfg : Cfg} {w : World α} (_hw : WInv cfg w) {a : Nat} {s : Storage α}
    (h : w.archs[a]? = some s) : a < w.archs.length :=
  (List.getElem?_eq_some_iff.mp h).1

/-- `WInv` is preserved by replacing one storage by a storage satisfying `Inv` (the ids are
not touched by `setArch`). -/
theorem WInv.setArch {cfg : Cfg} {w : World α} (hw : WInv cfg w) (a : Nat) {s' : Storage α}
    (hs : Inv cfg s') : WInv cfg (w.setArch a s') where
  idsLen := by rw [World.setArch_ids, World.setArch_length]; exact hw.idsLen
  idsNodup := hw.idsNodup
  idsLt := hw.idsLt
  inv := by
    intro s hm
    rcases List.mem_or_eq_of_mem_set hm with h | h
    · exact hw.inv s h
    · rw [h]; exact hs

theorem liftArch_none {β : Type} {w : World α} {a : Nat} (f : Storage α → Out (Storage α) β)
    (h : w.archs[a]? = none) : liftArch w a f = .ub "no such archetype" := by
  simp [liftArch, h]

theorem liftArch_some {β : Type} {w : World α} {a : Nat} {s : Storage α}
    (f : Storage α → Out (Storage α) β) (h : w.archs[a]? = some s) :
    liftArch w a f =
      (match f s with
       | .ok b s' => .ok b (w.setArch a s')
       | .panic m s' => .panic m (w.setArch a s')
       | .ub m => .ub m) := by
  simp only [liftArch, h]
  cases f s <;> rfl

theorem liftArch_ok {β : Type} {w : World α} {a : Nat} {s s' : Storage α} {b : β}
    {f : Storage α → Out (Storage α) β} (h : w.archs[a]? = some s) (hf : f s = .ok b s') :
    liftArch w a f = .ok b (w.setArch a s') := by
  rw [liftArch_some f h, hf]

theorem liftArch_panic {β : Type} {w : World α} {a : Nat} {s s' : Storage α} {m : String}
    {f : Storage α → Out (Storage α) β} (h : w.archs[a]? = some s) (hf : f s = .panic m s') :
    liftArch w a f = .panic m (w.setArch a s') := by
  rw [liftArch_some f h, hf]

/-- A storage operation that leaves the storage as it was leaves the world as it was. -/
theorem liftArch_ok_same {β : Type} {w : World α} {a : Nat} {s : Storage α} {b : β}
    {f : Storage α → Out (Storage α) β} (h : w.archs[a]? = some s) (hf : f s = .ok b s) :
    liftArch w a f = .ok b w := by
  rw [liftArch_ok h hf, World.setArch_self h]

theorem liftArch_panic_same {β : Type} {w : World α} {a : Nat} {s : Storage α} {m : String}
    {f : Storage α → Out (Storage α) β} (h : w.archs[a]? = some s) (hf : f s = .panic m s) :
    liftArch w a f = .panic m w := by
  rw [liftArch_panic h hf, World.setArch_self h]

@[simp] theorem lookup_absent {β : Type} (w : World α)
    (f : Storage α → Key → Out (Storage α) (Option β)) : lookup w .absent f = .ok none w := rfl

@[simp] theorem lookup_panic {β : Type} (w : World α) (m : String)
    (f : Storage α → Key → Out (Storage α) (Option β)) : lookup w (.panic m) f = .panic m w := rfl

@[simp] theorem lookup_arch {β : Type} (w : World α) (a : Nat) (k : Key)
    (f : Storage α → Key → Out (Storage α) (Option β)) :
    lookup w (.arch a k) f = liftArch w a (fun s => f s k) := rfl

/-! ### `World::with_capacity` -/

theorem withCapacity_go_ok (cfg : Cfg) (ids : List Nat) (hv : CfgOk cfg) :
    ∀ (ncs caps : List Nat) (acc : List (Storage α)), ncs.length = caps.length →
      (∀ c ∈ caps, c ≤ cfg.maxCap) →
      ∃ l : List (Storage α),
        World.withCapacity.go cfg ids ncs caps acc = .ok () ⟨ids, acc ++ l⟩
        ∧ l.length = ncs.length
        ∧ (∀ s ∈ l, Inv cfg s ∧ s.len = 0 ∧ s.version = 1 ∧ s.created = [] ∧ s.destroyed = [])
        ∧ l.map (fun s => s.capacity) = caps
        ∧ l.map (fun s => s.cols.length) = ncs := by
  intro ncs
  induction ncs with
  | nil =>
    intro caps acc hl _
    cases caps with
    | nil => exact ⟨[], by simp [World.withCapacity.go], rfl, by simp, rfl, rfl⟩
    | cons c caps => simp at hl
  | cons n ncs ih =>
    intro caps acc hl hc
    cases caps with
    | nil => simp at hl
    | cons c caps =>
      obtain ⟨s, h1, h2, h3, h4, h5, h6, h7, h8⟩ :=
        withCapacity_inv (α := α) cfg n c (hc c List.mem_cons_self) hv
      obtain ⟨l, g1, g2, g3, g4, g5⟩ :=
        ih caps (acc ++ [s]) (by simpa using hl) (fun c' hc' => hc c' (List.mem_cons_of_mem _ hc'))
      refine ⟨s :: l, ?_, by simp [g2], ?_, by simp [g4, h4], by simp [g5, h5]⟩
      · simp only [World.withCapacity.go, h1]
        rw [g1]; simp
      · intro s' hs'
        rcases List.mem_cons.mp hs' with rfl | hs'
        · exact ⟨h2, h3, h6, h7, h8⟩
        · exact g3 s' hs'

/-- `World::with_capacity` with admissible capacities: an empty world satisfying `WInv`, with
the requested ids, per-archetype capacities and column counts. -/
theorem World.withCapacity_winv (cfg : Cfg) (ids ncols caps : List Nat)
    (hnd : ids.Nodup) (hlt : ∀ i ∈ ids, i < ID_RANGE) (hl1 : ids.length = ncols.length)
    (hl2 : ncols.length = caps.length) (hc : ∀ c ∈ caps, c ≤ cfg.maxCap) (hv : CfgOk cfg) :
    ∃ w : World α, World.withCapacity cfg ids ncols caps = .ok () w ∧ WInv cfg w ∧ w.ids = ids
      ∧ (∀ s ∈ w.archs, s.len = 0)
      ∧ w.archs.map (fun s => s.capacity) = caps
      ∧ w.archs.map (fun s => s.cols.length) = ncols
      ∧ (∀ s ∈ w.archs, s.version = 1 ∧ s.created = [] ∧ s.destroyed = []) := by
  obtain ⟨l, g1, g2, g3, g4, g5⟩ := withCapacity_go_ok (α := α) cfg ids hv ncols caps [] hl2 hc
  refine ⟨⟨ids, l⟩, by simpa [World.withCapacity] using g1, ?_, rfl, fun s hs => (g3 s hs).2.1,
    g4, g5, fun s hs => ⟨(g3 s hs).2.2.1, (g3 s hs).2.2.2⟩⟩
  exact ⟨by simp [g2, hl1], hnd, hlt, fun s hs => (g3 s hs).1⟩

/-- Per-index form of the capacity statement. -/
theorem World.withCapacity_capacity {w : World α} {caps : List Nat}
    (h : w.archs.map (fun s => s.capacity) = caps) (i : Nat) (s : Storage α)
    (hs : w.archs[i]? = some s) : caps[i]? = some s.capacity := by
  rw [← h, List.getElem?_map, hs]; rfl

theorem withCapacity_go_panic (cfg : Cfg) (ids : List Nat) (hv : CfgOk cfg) :
    ∀ (ncs caps : List Nat) (acc : List (Storage α)), ncs.length = caps.length →
      (∃ c ∈ caps, c > cfg.maxCap) →
      ∃ acc', World.withCapacity.go cfg ids ncs caps acc
        = .panic "capacity may not exceed" ⟨ids, acc'⟩ := by
  intro ncs
  induction ncs with
  | nil =>
    intro caps acc hl hc
    cases caps with
    | nil => obtain ⟨c, hc, _⟩ := hc; cases hc
    | cons c caps => simp at hl
  | cons n ncs ih =>
    intro caps acc hl hc
    cases caps with
    | nil => simp at hl
    | cons c caps =>
      by_cases hbad : c > cfg.maxCap
      · exact ⟨acc, by simp [World.withCapacity.go, withCapacity, hbad]⟩
      · obtain ⟨s, h1, _⟩ := withCapacity_inv (α := α) cfg n c (by omega) hv
        obtain ⟨c', hc', hgt⟩ := hc
        have hc'' : c' ∈ caps := by
          rcases List.mem_cons.mp hc' with rfl | h
          · exact absurd hgt hbad
          · exact h
        obtain ⟨acc', g⟩ := ih caps (acc ++ [s]) (by simpa using hl) ⟨c', hc'', hgt⟩
        exact ⟨acc', by simp only [World.withCapacity.go, h1]; exact g⟩

/-- `World::with_capacity` panics (it never reaches UB) when some requested capacity exceeds
`MAX_DATA_CAPACITY`. -/
theorem World.withCapacity_panics (cfg : Cfg) (ids ncols caps : List Nat)
    (hl2 : ncols.length = caps.length) (hbad : ∃ c ∈ caps, c > cfg.maxCap) (hv : CfgOk cfg) :
    ∃ w : World α, World.withCapacity cfg ids ncols caps = .panic "capacity may not exceed" w := by
  obtain ⟨acc', g⟩ := withCapacity_go_panic (α := α) cfg ids hv ncols caps [] hl2 hbad
  exact ⟨⟨ids, acc'⟩, by simpa [World.withCapacity] using g⟩


/-! ## B. Lookups -/

/-- Static well-scopedness of a key use: a *typed* use (`Entity<A>` / `EntityDirect<A>`, or an
archetype-level call `A::…`) names an archetype that exists in the world.  This is a guarantee
of the Rust type system (there is no type `A` otherwise); the model, which uses numbers for
archetypes, answers `.ub "no such archetype"` without it.  Untyped (dynamic) uses are
unconstrained: every word pattern is allowed. -/
def KeyUse.Scoped (n : Nat) (u : KeyUse) : Prop := u.typed = true → u.at_.getD u.h.a < n

theorem KeyUse.scoped_of_untyped {n : Nat} {u : KeyUse} (h : u.typed = false) : u.Scoped n := by
  intro ht; rw [h] at ht; cases ht

theorem kindOf_isTyped (t d : Bool) : (kindOf t d).isTyped = t := by cases t <;> cases d <;> rfl
theorem kindOf_isDirect (t d : Bool) : (kindOf t d).isDirect = d := by cases t <;> cases d <;> rfl

theorem selectArch_lt {ids : List Nat} {id a : Nat} (h : selectArch ids id = some a) :
    a < ids.length ∧ ids[a]? = some id := by
  unfold selectArch at h
  obtain ⟨hlt, hp, _⟩ := List.findIdx?_eq_some_iff_getElem.mp h
  refine ⟨hlt, ?_⟩
  rw [List.getElem?_eq_getElem hlt]
  simpa using hp

theorem Key.archId_lt_range (k : Key) : k.archId < ID_RANGE := by
  unfold Key.archId ID_RANGE; omega

theorem routeWorld_arch {cfg : Cfg} {ids : List Nat} {h : Handle} {a : Nat} {k : Key}
    (hh : h.kind.isTyped = true → h.a < ids.length) (hr : routeWorld cfg ids h = .arch a k) :
    a < ids.length ∧ k = h.key := by
  unfold routeWorld at hr
  split at hr
  · rename_i ht
    cases hr; exact ⟨hh ht, rfl⟩
  · split at hr
    · cases hr
    · rename_i a' hsel
      split at hr
      · rename_i k' hk
        cases hr
        unfold fromAnyUnchecked at hk
        split at hk
        · cases hk
        · cases hk; exact ⟨(selectArch_lt hsel).1, rfl⟩
      · cases hr

theorem routeArch_arch {ids : List Nat} {b : Nat} {h : Handle} {a : Nat} {k : Key}
    (hh : h.kind.isTyped = true → b < ids.length) (hr : routeArch ids b h = .arch a k) :
    a < ids.length ∧ k = h.key := by
  unfold routeArch at hr
  split at hr
  · rename_i ht
    split at hr
    · cases hr; exact ⟨hh ht, rfl⟩
    · cases hr
  · split at hr
    · rename_i k' hk
      cases hr
      unfold tryFromAny at hk
      split at hk
      · rename_i heq
        cases hk
        refine ⟨?_, rfl⟩
        by_cases hlt : b < ids.length
        · exact hlt
        · have : ids.getD b ID_RANGE = ID_RANGE := by
            simp [List.getD_eq_getElem?_getD, List.getElem?_eq_none (Nat.le_of_not_lt hlt)]
          have := Key.archId_lt_range h.key
          omega
      · cases hk
    · cases hr

theorem KeyUse.route_arch {cfg : Cfg} {ids : List Nat} {u : KeyUse} {a : Nat} {k : Key}
    (hu : u.Scoped ids.length) (h : u.route cfg ids = .arch a k) :
    a < ids.length ∧ k = u.h.key := by
  unfold KeyUse.route at h
  simp only [] at h
  split at h
  · rename_i ht
    have hb := hu ht
    split at h
    · cases h
    · split at h
      · have := routeWorld_arch (fun _ => hb) h; exact this
      · have := routeArch_arch (fun _ => hb) h; exact this
  · split at h
    · have := routeWorld_arch (by intro hc; rw [kindOf_isTyped] at hc; cases hc) h; exact this
    · have := routeArch_arch (by intro hc; rw [kindOf_isTyped] at hc; cases hc) h; exact this

/-! ### Storage-level lookups are pure -/

/-- The outcome is `ok` or `panic` and leaves the storage exactly as it was. -/
def Out.Pure {β : Type} (s : Storage α) (o : Out (Storage α) β) : Prop :=
  (∃ b, o = .ok b s) ∨ (∃ m, o = .panic m s)

theorem resolveForEnt_pure {cfg : Cfg} {s : Storage α} (h : Inv cfg s) (e : Ent) :
    Out.Pure s (resolveForEnt cfg s e) := by
  by_cases hm : e ∈ s.ents
  · obtain ⟨d, hd⟩ := List.getElem?_of_mem hm
    exact .inl ⟨_, resolveForEnt_of_mem h hd⟩
  · rcases resolveForEnt_of_not_mem cfg s e h hm with h1 | ⟨h1, _⟩
    · exact .inl ⟨_, h1⟩
    · exact .inr ⟨_, h1⟩

theorem resolveForEnt_ok_some {cfg : Cfg} {s s' : Storage α} {e : Ent} {d : Nat} (h : Inv cfg s)
    (hr : resolveForEnt cfg s e = .ok (some d) s') : s.ents[d]? = some e ∧ s' = s := by
  by_cases hm : e ∈ s.ents
  · obtain ⟨d', hd'⟩ := List.getElem?_of_mem hm
    rw [resolveForEnt_of_mem h hd'] at hr; cases hr; exact ⟨hd', rfl⟩
  · rcases resolveForEnt_of_not_mem cfg s e h hm with h1 | ⟨h1, _⟩ <;> rw [h1] at hr <;> cases hr

theorem resolveForDirect_pure {cfg : Cfg} {s : Storage α} (h : Inv cfg s) (d v : Nat) :
    Out.Pure s (resolveForDirect cfg s d v) := by
  by_cases hc : v = s.version ∧ d < s.len
  · obtain ⟨rfl, hd⟩ := hc
    exact .inl ⟨_, resolveForDirect_of_lt h hd⟩
  · rcases resolveForDirect_of_not cfg s d v h hc with h1 | ⟨h1, _⟩
    · exact .inl ⟨_, h1⟩
    · exact .inr ⟨_, h1⟩

theorem resolveForDirect_ok_some {cfg : Cfg} {s s' : Storage α} {d v d' : Nat} (h : Inv cfg s)
    (hr : resolveForDirect cfg s d v = .ok (some d') s') :
    d' = d ∧ v = s.version ∧ d < s.len ∧ s' = s := by
  by_cases hc : v = s.version ∧ d < s.len
  · obtain ⟨rfl, hd⟩ := hc
    rw [resolveForDirect_of_lt h hd] at hr; cases hr; exact ⟨rfl, rfl, hd, rfl⟩
  · rcases resolveForDirect_of_not cfg s d v h hc with h1 | ⟨h1, _⟩ <;> rw [h1] at hr <;> cases hr

theorem storageResolve_pure {cfg : Cfg} {s : Storage α} (h : Inv cfg s) (direct : Bool) (k : Key) :
    Out.Pure s (storageResolve cfg s direct k) := by
  cases direct
  · exact resolveForEnt_pure h _
  · exact resolveForDirect_pure h _ _

/-- What an accepting storage lookup tells: the storage is unchanged, the dense index is in
range; an `Entity` key is accepted exactly at the position holding these very words, an
`EntityDirect` key exactly when its version is the current archetype version. -/
theorem storageResolve_ok_some {cfg : Cfg} {s s' : Storage α} {direct : Bool} {k : Key} {d : Nat}
    (h : Inv cfg s) (hr : storageResolve cfg s direct k = .ok (some d) s') :
    s' = s ∧ d < s.len ∧ (direct = false → s.ents[d]? = some k.toEnt)
      ∧ (direct = true → d = k.index ∧ k.ver = s.version) := by
  cases direct
  · obtain ⟨h1, h2⟩ := resolveForEnt_ok_some h hr
    exact ⟨h2, h.ents_lt h1, (fun _ => h1), fun hc => by cases hc⟩
  · obtain ⟨h1, h2, h3, h4⟩ := resolveForDirect_ok_some h hr
    exact ⟨h4, (by rw [h1]; exact h3), (fun hc => by cases hc), fun _ => ⟨h1, h2⟩⟩

theorem storageResolve_ent_iff {cfg : Cfg} {s : Storage α} (h : Inv cfg s) (k : Key) (d : Nat) :
    storageResolve cfg s false k = .ok (some d) s ↔ s.ents[d]? = some k.toEnt := by
  constructor
  · intro hr; exact (storageResolve_ok_some h hr).2.2.1 rfl
  · intro hd; exact resolveForEnt_of_mem h hd

theorem storageResolve_dir_iff {cfg : Cfg} {s : Storage α} (h : Inv cfg s) (k : Key) (d : Nat) :
    storageResolve cfg s true k = .ok (some d) s
      ↔ (d = k.index ∧ k.ver = s.version ∧ d < s.len) := by
  constructor
  · intro hr
    obtain ⟨_, h2, _, h4⟩ := storageResolve_ok_some h hr
    exact ⟨(h4 rfl).1, (h4 rfl).2, h2⟩
  · rintro ⟨rfl, hv, hd⟩
    have := resolveForDirect_of_lt (cfg := cfg) h hd
    simp only [storageResolve, if_true, hv]; exact this

theorem storageFetch_pure {cfg : Cfg} {s : Storage α} (h : Inv cfg s) (direct : Bool) (k : Key) :
    Out.Pure s (storageFetch cfg s direct k) := by
  unfold storageFetch
  rcases storageResolve_pure (cfg := cfg) h direct k with ⟨b, hb⟩ | ⟨m, hm⟩
  · cases b with
    | none => rw [hb]; exact .inl ⟨_, rfl⟩
    | some d =>
      obtain ⟨_, hd, _⟩ := storageResolve_ok_some h hb
      obtain ⟨e0, he⟩ : ∃ e0, s.ents[d]? = some e0 :=
        ⟨_, List.getElem?_eq_getElem (by rw [h.entsLen]; exact hd)⟩
      have hrow := ((readRow_spec h d).1 hd).1
      rw [hb]; simp only [he, hrow]; exact .inl ⟨_, rfl⟩
  · rw [hm]; exact .inr ⟨_, rfl⟩

/-- `view`/`borrow`/`ecs_find!` hand out the accepted entity's OWN handle and row. -/
theorem storageFetch_ok_some {cfg : Cfg} {s s' : Storage α} {direct : Bool} {k : Key} {d : Nat}
    {e : Ent} {row : List α} (h : Inv cfg s)
    (hr : storageFetch cfg s direct k = .ok (some (d, e, row)) s') :
    s' = s ∧ s.ents[d]? = some e ∧ readRow s d = some row
      ∧ (direct = false → e = k.toEnt) ∧ (direct = true → d = k.index ∧ k.ver = s.version) := by
  unfold storageFetch at hr
  rcases storageResolve_pure (cfg := cfg) h direct k with ⟨b, hb⟩ | ⟨m, hm⟩
  · cases b with
    | none => rw [hb] at hr; cases hr
    | some d' =>
      obtain ⟨_, hd, h3, h4⟩ := storageResolve_ok_some h hb
      obtain ⟨e0, he⟩ : ∃ e0, s.ents[d']? = some e0 :=
        ⟨_, List.getElem?_eq_getElem (by rw [h.entsLen]; exact hd)⟩
      have hrow := ((readRow_spec h d').1 hd).1
      rw [hb] at hr; simp only [he, hrow] at hr
      cases hr
      refine ⟨rfl, he, hrow, fun hc => ?_, h4⟩
      have := h3 hc; rw [he] at this; exact Option.some.inj this
  · rw [hm] at hr; cases hr

theorem storageToDirect_pure {cfg : Cfg} {s : Storage α} (h : Inv cfg s) (idA : Nat)
    (direct : Bool) (k : Key) : Out.Pure s (storageToDirect cfg idA s direct k) := by
  unfold storageToDirect
  cases direct
  · simp only [Bool.false_eq_true, if_false]
    by_cases hm : k.toEnt ∈ s.ents
    · obtain ⟨d, hd⟩ := List.getElem?_of_mem hm
      rw [toDirectEnt_of_mem h hd]; exact .inl ⟨_, rfl⟩
    · rcases toDirectEnt_of_not_mem cfg s _ h hm with h1 | ⟨h1, _⟩
      · rw [h1]; exact .inl ⟨_, rfl⟩
      · rw [h1]; exact .inr ⟨_, rfl⟩
  · simp only [if_true]
    by_cases hc : k.ver = s.version ∧ k.index < s.len
    · obtain ⟨hv, hd⟩ := hc
      rw [hv, toDirectDirect_of_lt h hd]; exact .inl ⟨_, rfl⟩
    · rcases toDirectDirect_of_not cfg s _ _ h hc with h1 | ⟨h1, _⟩
      · rw [h1]; exact .inl ⟨_, rfl⟩
      · rw [h1]; exact .inr ⟨_, rfl⟩

/-- `to_direct`: from an `Entity` key the minted words are `(dense, id, archetype version)`
of the position holding these very words; a direct key is returned as given, and only when
it is currently valid. -/
theorem storageToDirect_ok_some {cfg : Cfg} {s s' : Storage α} {idA : Nat} {direct : Bool}
    {k k' : Key} (h : Inv cfg s)
    (hr : storageToDirect cfg idA s direct k = .ok (some k') s') :
    s' = s
    ∧ (direct = false → ∃ d, s.ents[d]? = some k.toEnt ∧ k' = mkKey d idA s.version)
    ∧ (direct = true → k' = k ∧ k.ver = s.version ∧ k.index < s.len) := by
  unfold storageToDirect at hr
  cases direct
  · simp only [Bool.false_eq_true, if_false] at hr
    by_cases hm : k.toEnt ∈ s.ents
    · obtain ⟨d, hd⟩ := List.getElem?_of_mem hm
      rw [toDirectEnt_of_mem h hd] at hr; cases hr
      exact ⟨rfl, (fun _ => ⟨d, hd, rfl⟩), fun hc => by cases hc⟩
    · rcases toDirectEnt_of_not_mem cfg s _ h hm with h1 | ⟨h1, _⟩ <;> rw [h1] at hr <;> cases hr
  · simp only [if_true] at hr
    by_cases hc : k.ver = s.version ∧ k.index < s.len
    · obtain ⟨hv, hd⟩ := hc
      rw [hv, toDirectDirect_of_lt h hd] at hr; cases hr
      exact ⟨rfl, (fun hc => by cases hc), fun _ => ⟨rfl, hv, hd⟩⟩
    · rcases toDirectDirect_of_not cfg s _ _ h hc with h1 | ⟨h1, _⟩ <;> rw [h1] at hr <;> cases hr


/-! ### World-level lookups -/

theorem liftArch_ok_of_pure {β : Type} {cfg : Cfg} {w w' : World α} (hw : WInv cfg w) {a : Nat}
    {f : Storage α → Out (Storage α) β} {b : β}
    (hf : ∀ s, Inv cfg s → Out.Pure s (f s)) (h : liftArch w a f = .ok b w') :
    w' = w ∧ ∃ s, w.archs[a]? = some s ∧ f s = .ok b s := by
  cases hs : w.archs[a]? with
  | none => rw [liftArch_none f hs] at h; cases h
  | some s =>
    rcases hf s (hw.get hs) with ⟨b', hb⟩ | ⟨m, hm⟩
    · rw [liftArch_ok_same hs hb] at h; cases h; exact ⟨rfl, s, rfl, hb⟩
    · rw [liftArch_panic_same hs hm] at h; cases h

theorem lookup_pure {β : Type} {cfg : Cfg} {w : World α} (hw : WInv cfg w) (r : Route)
    (f : Storage α → Key → Out (Storage α) (Option β))
    (hr : ∀ a k, r = .arch a k → a < w.archs.length)
    (hf : ∀ s k, Inv cfg s → Out.Pure s (f s k)) :
    (∃ b, lookup w r f = .ok b w) ∨ (∃ m, lookup w r f = .panic m w) := by
  cases r with
  | absent => exact .inl ⟨_, rfl⟩
  | panic m => exact .inr ⟨_, rfl⟩
  | arch a k =>
    have hlt := hr a k rfl
    obtain ⟨s, hs⟩ : ∃ s, w.archs[a]? = some s := ⟨_, List.getElem?_eq_getElem hlt⟩
    rcases hf s k (hw.get hs) with ⟨b, hb⟩ | ⟨m, hm⟩
    · exact .inl ⟨b, liftArch_ok_same hs hb⟩
    · exact .inr ⟨m, liftArch_panic_same hs hm⟩

theorem lookup_ok_some_of_pure {β : Type} {cfg : Cfg} {w w' : World α} (hw : WInv cfg w)
    {r : Route} {f : Storage α → Key → Out (Storage α) (Option β)} {b : β}
    (hf : ∀ s k, Inv cfg s → Out.Pure s (f s k)) (h : lookup w r f = .ok (some b) w') :
    w' = w ∧ ∃ a k s, r = .arch a k ∧ w.archs[a]? = some s ∧ f s k = .ok (some b) s := by
  cases r with
  | absent => cases h
  | panic m => cases h
  | arch a k =>
    obtain ⟨h1, s, h2, h3⟩ := liftArch_ok_of_pure hw (fun s hs => hf s k hs) h
    exact ⟨h1, a, k, s, rfl, h2, h3⟩

/-- Where a well-scoped key use is routed to exists. -/
theorem WInv.route_lt {cfg : Cfg} {w : World α} (hw : WInv cfg w) {u : KeyUse}
    (hu : u.Scoped w.archs.length) {a : Nat} {k : Key} (h : u.route cfg w.ids = .arch a k) :
    a < w.archs.length ∧ k = u.h.key := by
  have := KeyUse.route_arch (ids := w.ids) (by rw [hw.idsLen]; exact hu) h
  rw [hw.idsLen] at this; exact this

/-- `contains`/`resolve` through ANY key use (forged, stale, foreign words, any kind, a typed
key with a mismatching id, any `at_`): `ok` or `panic`, in the same world, never `ub`.
`direct` is arbitrary (the requested statement is the instance `direct := u.h.kind.isDirect`).
Original request (false, see `WorldEx.uBad`): the same without `hu`.  `hu` is vacuous for
untyped uses (`contains_safe_untyped`) and says `u.at_.getD u.h.a < w.archs.length` for typed
ones (`contains_safe_typed`). -/
theorem contains_safe {cfg : Cfg} {w : World α} (hw : WInv cfg w) (u : KeyUse)
    (hu : u.Scoped w.archs.length) (direct : Bool) :
    (∃ r, w.contains cfg (u.route cfg w.ids) direct = .ok r w)
    ∨ (∃ m, w.contains cfg (u.route cfg w.ids) direct = .panic m w) :=
  lookup_pure hw _ _ (fun _ _ h => (hw.route_lt hu h).1) (fun _ k hs => storageResolve_pure hs _ k)

theorem toDirect_pure {cfg : Cfg} {w : World α} (hw : WInv cfg w) (r : Route)
    (hr : ∀ a k, r = .arch a k → a < w.archs.length) (direct : Bool) :
    (∃ b, w.toDirect cfg r direct = .ok b w) ∨ (∃ m, w.toDirect cfg r direct = .panic m w) := by
  cases r with
  | absent => exact .inl ⟨_, rfl⟩
  | panic m => exact .inr ⟨_, rfl⟩
  | arch a k =>
    exact lookup_pure hw (.arch a k) _ hr (fun _ k hs => storageToDirect_pure hs _ _ k)

theorem toDirect_safe {cfg : Cfg} {w : World α} (hw : WInv cfg w) (u : KeyUse)
    (hu : u.Scoped w.archs.length) (direct : Bool) :
    (∃ r, w.toDirect cfg (u.route cfg w.ids) direct = .ok r w)
    ∨ (∃ m, w.toDirect cfg (u.route cfg w.ids) direct = .panic m w) :=
  toDirect_pure hw _ (fun _ _ h => (hw.route_lt hu h).1) direct

theorem fetch_safe {cfg : Cfg} {w : World α} (hw : WInv cfg w) (u : KeyUse)
    (hu : u.Scoped w.archs.length) (direct : Bool) :
    (∃ r, w.fetch cfg (u.route cfg w.ids) direct = .ok r w)
    ∨ (∃ m, w.fetch cfg (u.route cfg w.ids) direct = .panic m w) :=
  lookup_pure hw _ _ (fun _ _ h => (hw.route_lt hu h).1) (fun _ k hs => storageFetch_pure hs _ k)

/-- (a) Dynamic (untyped) uses: unconditional, for ANY words. -/
theorem contains_safe_untyped {cfg : Cfg} {w : World α} (hw : WInv cfg w) (u : KeyUse)
    (ht : u.typed = false) (direct : Bool) :
    (∃ r, w.contains cfg (u.route cfg w.ids) direct = .ok r w)
    ∨ (∃ m, w.contains cfg (u.route cfg w.ids) direct = .panic m w) :=
  contains_safe hw u (KeyUse.scoped_of_untyped ht) direct

theorem toDirect_safe_untyped {cfg : Cfg} {w : World α} (hw : WInv cfg w) (u : KeyUse)
    (ht : u.typed = false) (direct : Bool) :
    (∃ r, w.toDirect cfg (u.route cfg w.ids) direct = .ok r w)
    ∨ (∃ m, w.toDirect cfg (u.route cfg w.ids) direct = .panic m w) :=
  toDirect_safe hw u (KeyUse.scoped_of_untyped ht) direct

theorem fetch_safe_untyped {cfg : Cfg} {w : World α} (hw : WInv cfg w) (u : KeyUse)
    (ht : u.typed = false) (direct : Bool) :
    (∃ r, w.fetch cfg (u.route cfg w.ids) direct = .ok r w)
    ∨ (∃ m, w.fetch cfg (u.route cfg w.ids) direct = .panic m w) :=
  fetch_safe hw u (KeyUse.scoped_of_untyped ht) direct

/-- (b) Typed uses naming an existing archetype. -/
theorem contains_safe_typed {cfg : Cfg} {w : World α} (hw : WInv cfg w) (u : KeyUse)
    (hb : u.at_.getD u.h.a < w.archs.length) (direct : Bool) :
    (∃ r, w.contains cfg (u.route cfg w.ids) direct = .ok r w)
    ∨ (∃ m, w.contains cfg (u.route cfg w.ids) direct = .panic m w) :=
  contains_safe hw u (fun _ => hb) direct

theorem toDirect_safe_typed {cfg : Cfg} {w : World α} (hw : WInv cfg w) (u : KeyUse)
    (hb : u.at_.getD u.h.a < w.archs.length) (direct : Bool) :
    (∃ r, w.toDirect cfg (u.route cfg w.ids) direct = .ok r w)
    ∨ (∃ m, w.toDirect cfg (u.route cfg w.ids) direct = .panic m w) :=
  toDirect_safe hw u (fun _ => hb) direct

theorem fetch_safe_typed {cfg : Cfg} {w : World α} (hw : WInv cfg w) (u : KeyUse)
    (hb : u.at_.getD u.h.a < w.archs.length) (direct : Bool) :
    (∃ r, w.fetch cfg (u.route cfg w.ids) direct = .ok r w)
    ∨ (∃ m, w.fetch cfg (u.route cfg w.ids) direct = .panic m w) :=
  fetch_safe hw u (fun _ => hb) direct

/-! ### Exactness -/

/-- An `Entity` key is accepted in archetype `a` exactly at the dense position that holds
these very words (index AND generation).  No hypothesis on where `(a, k)` comes from. -/
theorem contains_ent_iff {cfg : Cfg} {w : World α} (hw : WInv cfg w) (a : Nat) (k : Key) (d : Nat) :
    w.contains cfg (.arch a k) false = .ok (some d) w
      ↔ (∃ s, w.archs[a]? = some s ∧ s.ents[d]? = some k.toEnt) := by
  constructor
  · intro h
    obtain ⟨_, s, hs, hf⟩ := liftArch_ok_of_pure hw (fun s hs => storageResolve_pure hs false k) h
    exact ⟨s, hs, (storageResolve_ent_iff (hw.get hs) k d).mp hf⟩
  · rintro ⟨s, hs, hd⟩
    exact liftArch_ok_same hs ((storageResolve_ent_iff (hw.get hs) k d).mpr hd)

/-- An `EntityDirect` key is accepted exactly when its version is the archetype's current
version and its index is below `len`. -/
theorem contains_dir_iff {cfg : Cfg} {w : World α} (hw : WInv cfg w) (a : Nat) (k : Key) (d : Nat) :
    w.contains cfg (.arch a k) true = .ok (some d) w
      ↔ (∃ s, w.archs[a]? = some s ∧ d = k.index ∧ k.ver = s.version ∧ d < s.len) := by
  constructor
  · intro h
    obtain ⟨_, s, hs, hf⟩ := liftArch_ok_of_pure hw (fun s hs => storageResolve_pure hs true k) h
    exact ⟨s, hs, (storageResolve_dir_iff (hw.get hs) k d).mp hf⟩
  · rintro ⟨s, hs, hd⟩
    exact liftArch_ok_same hs ((storageResolve_dir_iff (hw.get hs) k d).mpr hd)

/-- `view`/`borrow`/`find` through any route: an accepted lookup hands out the accepted
entity's OWN handle and row, of the archetype it was routed to, and leaves the world as it
was. -/
theorem fetch_ok {cfg : Cfg} {w w' : World α} (hw : WInv cfg w) {r : Route} {direct : Bool}
    {d : Nat} {e : Ent} {row : List α}
    (h : w.fetch cfg r direct = .ok (some (d, e, row)) w') :
    w' = w ∧ ∃ a k s, r = .arch a k ∧ w.archs[a]? = some s
      ∧ s.ents[d]? = some e ∧ readRow s d = some row
      ∧ (direct = false → e = k.toEnt) ∧ (direct = true → d = k.index ∧ k.ver = s.version) := by
  obtain ⟨h1, a, k, s, h2, h3, h4⟩ :=
    lookup_ok_some_of_pure hw (fun s k hs => storageFetch_pure hs direct k) h
  obtain ⟨_, g2, g3, g4, g5⟩ := storageFetch_ok_some (hw.get h3) h4
  exact ⟨h1, a, k, s, h2, h3, g2, g3, g4, g5⟩

/-- `to_direct` from an `Entity` key: the minted words are `mkKey d id s.version` for the
position `d` that holds these very words. -/
theorem toDirect_ent_ok {cfg : Cfg} {w w' : World α} (hw : WInv cfg w) {r : Route} {k' : Key}
    (h : w.toDirect cfg r false = .ok (some k') w') :
    w' = w ∧ ∃ a k s d, r = .arch a k ∧ w.archs[a]? = some s ∧ s.ents[d]? = some k.toEnt
      ∧ k' = mkKey d (w.ids.getD a ID_RANGE) s.version := by
  cases r with
  | absent => cases h
  | panic m => cases h
  | arch a k =>
    obtain ⟨h1, s, h3, h4⟩ := liftArch_ok_of_pure hw
      (fun s hs => storageToDirect_pure hs (w.ids.getD a ID_RANGE) false k) h
    obtain ⟨_, g2, _⟩ := storageToDirect_ok_some (hw.get h3) h4
    obtain ⟨d, g3, g4⟩ := g2 rfl
    exact ⟨h1, a, k, s, d, rfl, h3, g3, g4⟩

/-- `to_direct` from a direct key: returned as given, only when currently valid. -/
theorem toDirect_dir_ok {cfg : Cfg} {w w' : World α} (hw : WInv cfg w) {r : Route} {k' : Key}
    (h : w.toDirect cfg r true = .ok (some k') w') :
    w' = w ∧ ∃ a k s, r = .arch a k ∧ w.archs[a]? = some s ∧ k' = k ∧ k.ver = s.version
      ∧ k.index < s.len := by
  cases r with
  | absent => cases h
  | panic m => cases h
  | arch a k =>
    obtain ⟨h1, s, h3, h4⟩ := liftArch_ok_of_pure hw
      (fun s hs => storageToDirect_pure hs (w.ids.getD a ID_RANGE) true k) h
    obtain ⟨_, _, g3⟩ := storageToDirect_ok_some (hw.get h3) h4
    obtain ⟨g4, g5, g6⟩ := g3 rfl
    exact ⟨h1, a, k, s, rfl, h3, g4, g5, g6⟩

/-! ## Non-vacuity and counterexamples -/
namespace WorldEx
open StorageEx

/-- Two archetypes (ids 3 and 7) with 2 and 1 columns, capacities 2 and 0. -/
def wEx : World Nat :=
  ⟨[3, 7],
   [⟨1, 0, 2, .free 0, [⟨.free 1, 1⟩, ⟨.freeEnd, 1⟩], [], [[], []], [], []⟩,
    ⟨1, 0, 0, .freeEnd, [], [], [[]], [], []⟩]⟩

theorem wEx_eq (cfg : Cfg) (h : 2 ≤ cfg.maxCap) :
    World.withCapacity cfg [3, 7] [2, 1] [2, 0] = .ok () wEx := by
  have h1 : ¬ 2 > cfg.maxCap := by omega
  have h2 : ¬ 0 > cfg.maxCap := by omega
  simp [World.withCapacity, World.withCapacity.go, withCapacity, h1, h2, populate, wEx,
    VERSION_START, List.range, List.range.loop]

theorem wEx_winv (cfg : Cfg) (h : 2 ≤ cfg.maxCap) (hv : CfgOk cfg) : WInv cfg wEx := by
  obtain ⟨w, h1, h2, _⟩ := World.withCapacity_winv (α := Nat) cfg [3, 7] [2, 1] [2, 0]
    (by decide) (by decide) rfl rfl (by intro c hc; simp at hc; omega) hv
  rw [wEx_eq cfg h] at h1; cases h1; exact h2

example : World.withCapacity cfgEx [3, 7] [2, 1] [2, 0] = .ok () wEx := rfl
example : WInv cfgEx wEx := wEx_winv cfgEx (by decide) cfgEx_ok
example : wEx.archs.map (fun s => s.cols.length) = [2, 1] := rfl

-- `World::with_capacity` beyond `MAX_DATA_CAPACITY` panics
example : ∃ w : World Nat, World.withCapacity cfgEx [3, 7] [2, 1] [2, 9]
    = .panic "capacity may not exceed" w :=
  World.withCapacity_panics cfgEx _ _ _ rfl ⟨9, by decide, by decide⟩ cfgEx_ok

/-- A world with live entities: archetype 0 (id 3) is the 3-slot storage with one hole
(handles `(0,1)` at dense 0 and `(2,1)` at dense 1, slot 1 free at generation 2, archetype
version 2), archetype 1 (id 7) the full two-slot storage. -/
def w2 : World Nat := ⟨[3, 7], [holeEx, fullEx]⟩

theorem w2_winv : WInv cfgEx w2 where
  idsLen := rfl
  idsNodup := by decide
  idsLt := by decide
  inv := by
    intro s hs
    simp only [w2, List.mem_cons, List.not_mem_nil, or_false] at hs
    rcases hs with rfl | rfl
    · exact holeEx_inv
    · exact fullEx_inv

-- a live dynamic key (slot 2, generation 1, id 3), used at world level: accepted at dense 1
example : w2.contains cfgEx (KeyUse.route cfgEx w2.ids ⟨true, false, ⟨.any, 0, mkKey 2 3 1⟩, none⟩)
    false = .ok (some 1) w2 := rfl
example : w2.contains cfgEx (.arch 0 (mkKey 2 3 1)) false = .ok (some 1) w2 :=
  (contains_ent_iff w2_winv 0 _ 1).mpr ⟨holeEx, rfl, rfl⟩
-- a stale key (slot 1 was freed, its generation is now 2): refused
example : w2.contains cfgEx (KeyUse.route cfgEx w2.ids ⟨true, false, ⟨.any, 0, mkKey 1 3 1⟩, none⟩)
    false = .ok none w2 := rfl
-- a forged key with an unknown archetype id: the generated `match` panics
example : w2.contains cfgEx (KeyUse.route cfgEx w2.ids ⟨true, false, ⟨.any, 0, mkKey 0 9 1⟩, none⟩)
    false = .panic "invalid entity type" w2 := rfl
-- a foreign key (id 7) used as a typed key of archetype 0: debug assertion
example : w2.contains cfgEx (KeyUse.route cfgEx w2.ids ⟨true, true, ⟨.ent, 0, mkKey 0 7 1⟩, none⟩)
    false = .panic "debug_assert: from_any_unchecked" w2 := rfl
-- … and in a release build it is looked up in archetype 0 by its words (slot 0, gen 1: live)
example : w2.contains ⟨8, 5, false, true, false⟩
    (KeyUse.route ⟨8, 5, false, true, false⟩ w2.ids ⟨true, true, ⟨.ent, 0, mkKey 0 7 1⟩, none⟩)
    false = .ok (some 0) w2 := rfl
-- an out-of-range slot index in a debug build: assertion, world unchanged
example : w2.contains cfgEx (.arch 0 (mkKey 77 3 1)) false
    = .panic "debug_assert: invalid entity handle" w2 := rfl
-- direct keys: current version 2 accepted, stale version refused
example : w2.contains cfgEx (.arch 0 (mkKey 1 3 2)) true = .ok (some 1) w2 := rfl
example : w2.contains cfgEx (.arch 0 (mkKey 1 3 1)) true = .ok none w2 := rfl
-- fetch hands out the entity's own handle and row; to_direct mints (dense, id, version)
example : w2.fetch cfgEx (.arch 0 (mkKey 2 3 1)) false = .ok (some (1, ⟨2, 1⟩, [12, 22])) w2 := rfl
example : w2.toDirect cfgEx (.arch 0 (mkKey 2 3 1)) false = .ok (some (mkKey 1 3 2)) w2 := rfl
-- the `_safe` theorems apply to every use
example (u : KeyUse) (ht : u.typed = false) :
    (∃ r, w2.fetch cfgEx (u.route cfgEx w2.ids) u.h.kind.isDirect = .ok r w2)
    ∨ (∃ m, w2.fetch cfgEx (u.route cfgEx w2.ids) u.h.kind.isDirect = .panic m w2) :=
  fetch_safe_untyped w2_winv u ht _

/-! ### Counterexample to the `_safe` statements without `Scoped` -/

/-- release build (no debug assertions) -/
def cfgRel : Cfg := ⟨8, 5, false, true, false⟩

example : WInv cfgRel wEx := wEx_winv cfgRel (by decide) ⟨by decide⟩

/-- 1. A typed key naming archetype 99 (does not exist): routed to `.arch 99`, every lookup
and `destroy` is `ub "no such archetype"`. -/
def uBad : KeyUse := ⟨true, true, ⟨.ent, 99, ⟨0, 1⟩⟩, none⟩

example : uBad.route cfgRel wEx.ids = .arch 99 ⟨0, 1⟩ := rfl
example : wEx.contains cfgRel (uBad.route cfgRel wEx.ids) false = .ub "no such archetype" := rfl
example : wEx.toDirect cfgRel (uBad.route cfgRel wEx.ids) false = .ub "no such archetype" := rfl
example : wEx.fetch cfgRel (uBad.route cfgRel wEx.ids) false = .ub "no such archetype" := rfl
example : ¬ uBad.Scoped wEx.archs.length := by
  intro h; exact absurd (h rfl) (by decide)

end WorldEx
end Gecs

section
open Gecs
#print axioms SReach.trans
#print axioms SReach.inv
#print axioms SReach.capacity_mono
#print axioms SReach.cols_length_le
#print axioms WInv.setArch
#print axioms liftArch_some
#print axioms World.withCapacity_winv
#print axioms World.withCapacity_panics
#print axioms KeyUse.route_arch
#print axioms contains_safe
#print axioms toDirect_safe
#print axioms fetch_safe
#print axioms contains_ent_iff
#print axioms contains_dir_iff
#print axioms fetch_ok
#print axioms toDirect_ent_ok
#print axioms toDirect_dir_ok
end
