/-
Ties the constants GENERATED from /repo's sources on every run (Gecs/Gen/Consts.lean, by
tools/extract.py) to the constants the models and theorems use.  If a constant changes in
the Rust code these obligations stop checking, and every property that lists them is
reported (with a search for a failing input).
-/
import Gecs.Gen.Consts
import Gecs.Model.Bits
import Gecs.Model.Check
import Gecs.Model.Storage

namespace Gecs

theorem gen_id_bits : Gen.ARCHETYPE_ID_BITS = ARCHETYPE_ID_BITS := by decide
theorem gen_id_range : 2 ^ Gen.ARCHETYPE_ID_BITS = ID_RANGE := by decide
theorem gen_max_capacity : Gen.MAX_DATA_CAPACITY = MAX_DATA_CAPACITY := by decide
theorem gen_max_index : Gen.MAX_DATA_INDEX = MAX_DATA_INDEX := by decide
theorem gen_free_bit : Gen.FREE_BIT = FREE_BIT := by decide
theorem gen_free_list_end : Gen.FREE_LIST_END = FREE_LIST_END := by decide
theorem gen_version_start : Gen.VERSION_START = VERSION_START := by decide
theorem gen_version_max : Gen.VERSION_MAX + 1 = U32 := by decide

/-- The slot-index encoding leaves room for every data index below the free bit, and the
end marker is not a data index (slot.rs: the `const` assertion and the crate's unit test). -/
theorem gen_slot_encoding_sound :
    Gen.MAX_DATA_INDEX < Gen.FREE_BIT ∧ Gen.FREE_LIST_END - Gen.FREE_BIT ≥ Gen.MAX_DATA_CAPACITY ∧
    Gen.MAX_DATA_CAPACITY * 2 ^ Gen.ARCHETYPE_ID_BITS = U32 := by decide

/-- The code's growth expression, when recognised as `(cap + a) * m`, is strict (diagnostic:
the theorems are parametric in the growth function; the driver checks every observed
growth step against the hypothesis they make). -/
def growthStrictB : Option Nat → Option Nat → Bool
  | some a, some m => decide (1 ≤ a) && decide (1 ≤ m)
  | _, _ => true

theorem gen_growth_strict : growthStrictB Gen.growthAdd Gen.growthMul = true := by decide

/-- The set of crate features the C19 theorems and streams account for. -/
theorem gen_features : Gen.features = ["default", "32_components", "wrapping_version", "events"] := by decide

/-- Storage arities instantiated by `seq!` (1..=16, and 17..=32 behind `32_components`): the
same macro body, so the model is arity-generic. -/
theorem gen_arities : Gen.storageArities = [(1, 16), (17, 32)] := by decide

end Gecs
