/-
The statement-level tie (Lemmas/GenSteps.lean) lifted to the storage API the history theorems
speak about: `push` (= `Archetype::create`), `push_within_capacity`, and `destroy` through a
slot-map handle or a direct handle, each re-stated with the three mutating primitives REPLACED
by the interpreter running the statement lists extracted from the current source
(`pushS`, `pushWithinS`, `destroyEntS`, `destroyDirectS`).  Under the representation invariant
they are the model's operations — so every theorem of Props/ about histories of `push` /
`destroy` is a theorem about histories of the extracted statements.
-/
import Gecs.Lemmas.GenSteps
import Gecs.Lemmas.StorageOps
import Gecs.Lemmas.Reach

namespace Gecs

variable {α : Type}

theorem Out.same_refl {σ β : Type} (a : Out σ β) : Out.same a a := by
  cases a <;> simp [Out.same]

theorem Inv.denseOk {cfg : Cfg} {s : Storage α} (h : Inv cfg s) : DenseOk s := ⟨h.entsLen, h.colsLen⟩

/-- `StorageN::push` with `grow` and `force_create` run from the extracted statement lists. -/
def pushS (cfg : Cfg) (g : Nat → Nat) (s : Storage α) (row : List α) : Out (Storage α) Ent :=
  if s.len ≥ s.capacity then
    match execGrow cfg Gen.growSteps s (g s.capacity) with
    | .ok none _ => .panic "capacity overflow" s
    | .ok (some s') _ => execCreate cfg Gen.slotBodies Gen.forceCreateSteps s' row
    | .panic m _ => .panic m s
    | .ub m => .ub m
  else execCreate cfg Gen.slotBodies Gen.forceCreateSteps s row

/-- `StorageN::push_within_capacity` with `force_create` run from the extracted statements. -/
def pushWithinS (cfg : Cfg) (s : Storage α) (row : List α) : Out (Storage α) (Option Ent) :=
  if s.len ≥ s.capacity then .ok none s
  else match execCreate cfg Gen.slotBodies Gen.forceCreateSteps s row with
    | .ok e s' => .ok (some e) s'
    | .panic m s' => .panic m s'
    | .ub m => .ub m

/-- `resolve_destroy` for `Entity<A>` with `force_destroy` run from the extracted statements. -/
def destroyEntS (cfg : Cfg) (s : Storage α) (e : Ent) : Out (Storage α) (Option (List α)) :=
  match resolveEntity cfg s e with
  | .ok (some (si, d)) _ =>
    (match execDestroy cfg Gen.slotBodies Gen.forceDestroySteps s si d with
    | .ok r s' => .ok (some r) s'
    | .panic m s' => .panic m s'
    | .ub m => .ub m)
  | .ok none _ => .ok none s
  | .panic m s' => .panic m s'
  | .ub m => .ub m

/-- `resolve_destroy` for `EntityDirect<A>` with `force_destroy` run from the extracted statements. -/
def destroyDirectS (cfg : Cfg) (s : Storage α) (d v : Nat) : Out (Storage α) (Option (List α)) :=
  match resolveDirect cfg s d v with
  | .ok (some (si, d')) _ =>
    (match execDestroy cfg Gen.slotBodies Gen.forceDestroySteps s si d' with
    | .ok r s' => .ok (some r) s'
    | .panic m s' => .panic m s'
    | .ub m => .ub m)
  | .ok none _ => .ok none s
  | .panic m s' => .panic m s'
  | .ub m => .ub m

theorem gen_steps_push (cfg : Cfg) (g : Nat → Nat) (s : Storage α) (row : List α) (h : Inv cfg s) :
    Out.same (pushS cfg g s row) (push cfg g s row) := by
  unfold pushS push
  by_cases hfull : s.len ≥ s.capacity
  · simp only [hfull, if_true]
    rw [gen_steps_grow cfg s (g s.capacity) h.lenCap]
    cases hg : grow cfg s (g s.capacity) with
    | none => simp [Out.same]
    | some s' =>
      have hs' : DenseOk s' := by
        unfold grow at hg
        split at hg
        · cases hg
        · cases hg; exact h.denseOk
      exact gen_steps_force_create cfg s' row hs'
  · simp only [hfull, if_false]
    exact gen_steps_force_create cfg s row h.denseOk

theorem gen_steps_push_within (cfg : Cfg) (s : Storage α) (row : List α) (h : Inv cfg s) :
    Out.same (pushWithinS cfg s row) (pushWithin cfg s row) := by
  unfold pushWithinS pushWithin
  by_cases hfull : s.len ≥ s.capacity
  · simp [hfull, Out.same]
  · simp only [hfull, if_false]
    have := gen_steps_force_create cfg s row h.denseOk
    revert this
    cases execCreate cfg Gen.slotBodies Gen.forceCreateSteps s row <;>
      cases forceCreate cfg s row <;> simp [Out.same]

private theorem lift_destroy (cfg : Cfg) (s : Storage α) (si d : Nat) (hok : DenseOk s) (hd : d < s.len) :
    Out.same
      (match execDestroy cfg Gen.slotBodies Gen.forceDestroySteps s si d with
        | .ok r s' => (.ok (some r) s' : Out (Storage α) (Option (List α)))
        | .panic m s' => .panic m s'
        | .ub m => .ub m)
      (match forceDestroy cfg s si d with
        | .ok r s' => .ok (some r) s'
        | .panic m s' => .panic m s'
        | .ub m => .ub m) := by
  have := gen_steps_force_destroy cfg s si d hok hd
  revert this
  cases execDestroy cfg Gen.slotBodies Gen.forceDestroySteps s si d <;>
    cases forceDestroy cfg s si d <;> simp [Out.same]

theorem gen_steps_destroy_ent (cfg : Cfg) (s : Storage α) (e : Ent) (h : Inv cfg s) :
    Out.same (destroyEntS cfg s e) (destroyEnt cfg s e) := by
  unfold destroyEntS destroyEnt
  rcases resolveEntity_spec cfg s e h with h1 | ⟨d, h1, hd⟩ | ⟨msg, h1, _⟩
  · rw [h1]; simp [Out.same]
  · rw [h1]
    have hlt : d < s.len := by
      have := (List.getElem?_eq_some_iff.mp hd).1; rw [h.entsLen] at this; exact this
    exact lift_destroy cfg s e.slot d h.denseOk hlt
  · rw [h1]; simp [Out.same]

theorem gen_steps_destroy_direct (cfg : Cfg) (s : Storage α) (d v : Nat) (h : Inv cfg s) :
    Out.same (destroyDirectS cfg s d v) (destroyDirect cfg s d v) := by
  unfold destroyDirectS destroyDirect
  rcases resolveDirect_spec cfg s d v h with h1 | ⟨e, h1, _, hd⟩ | ⟨msg, h1, _⟩
  · rw [h1]; simp [Out.same]
  · rw [h1]
    have hlt : d < s.len := by
      have := (List.getElem?_eq_some_iff.mp hd).1; rw [h.entsLen] at this; exact this
    exact lift_destroy cfg s e.slot d h.denseOk hlt
  · rw [h1]; simp [Out.same]

end Gecs

namespace Gecs

variable {α : Type}

theorem Out.same_ok {σ β : Type} {a b : Out σ β} (h : Out.same a b) {x : β} {s : σ}
    (ha : a = .ok x s) : b = .ok x s := by
  subst ha; cases b <;> simp [Out.same] at h ⊢; exact ⟨h.1.symm, h.2.symm⟩

theorem Out.same_panic {σ β : Type} {a b : Out σ β} (h : Out.same a b) {m : String} {s : σ}
    (ha : a = .panic m s) : b = .panic m s := by
  subst ha; cases b <;> simp [Out.same] at h ⊢; exact ⟨h.1.symm, h.2.symm⟩

theorem Out.same_not_ub {σ β : Type} {a b : Out σ β} (h : Out.same a b) (hb : ∀ m, b ≠ .ub m) :
    ∀ m, a ≠ .ub m := by
  intro m ha; subst ha
  cases b with
  | ub m' => exact hb m' rfl
  | ok _ _ => simp [Out.same] at h
  | panic _ _ => simp [Out.same] at h

/-- One atomic change of a storage, with every structural primitive run from the statement
lists extracted from the current source (compare `SStep`, Lemmas/Reach.lean). -/
inductive SStepS (cfg : Cfg) : Storage α → Storage α → Prop where
  | write (s : Storage α) (d c : Nat) (x : α) : SStepS cfg s (writeCell s d c x)
  | push (s s' : Storage α) (g : Nat → Nat) (row : List α) (e : Ent)
      (hg : s.capacity < cfg.maxCap → s.capacity < g s.capacity ∧ g s.capacity ≤ cfg.maxCap)
      (h : pushS cfg g s row = .ok e s') : SStepS cfg s s'
  | pushWithin (s s' : Storage α) (row : List α) (e : Ent)
      (h : pushWithinS cfg s row = .ok (some e) s') : SStepS cfg s s'
  | destroyEnt (s s' : Storage α) (e : Ent) (row : List α)
      (h : destroyEntS cfg s e = .ok (some row) s') : SStepS cfg s s'
  | destroyDirect (s s' : Storage α) (d v : Nat) (row : List α)
      (h : destroyDirectS cfg s d v = .ok (some row) s') : SStepS cfg s s'
  | clear (s : Storage α) : SStepS cfg s (clearEvents s)
  | clone (s : Storage α) (cl : α → α) : SStepS cfg s { s with cols := s.cols.map (·.map cl) }

/-- Under the invariant an extracted-statement step IS a model step. -/
theorem SStepS.toSStep {cfg : Cfg} {s s' : Storage α} (h : Inv cfg s) (st : SStepS cfg s s') :
    SStep cfg s s' := by
  match st with
  | .write _ d c x => exact .write s d c x
  | .push _ _ g row e hg hp => exact .push s s' g row e hg (Out.same_ok (gen_steps_push cfg g s row h) hp)
  | .pushWithin _ _ row e hp => exact .pushWithin s s' row e (Out.same_ok (gen_steps_push_within cfg s row h) hp)
  | .destroyEnt _ _ e row hp => exact .destroyEnt s s' e row (Out.same_ok (gen_steps_destroy_ent cfg s e h) hp)
  | .destroyDirect _ _ d v row hp =>
    exact .destroyDirect s s' d v row (Out.same_ok (gen_steps_destroy_direct cfg s d v h) hp)
  | .clear _ => exact .clear s
  | .clone _ cl => exact .clone s cl

/-- Histories of extracted-statement steps. -/
inductive SReachS (cfg : Cfg) : Storage α → Storage α → Prop where
  | refl (s : Storage α) : SReachS cfg s s
  | step {s s' s'' : Storage α} : SReachS cfg s s' → Inv cfg s' → SStepS cfg s' s'' → SReachS cfg s s''

/-- Every history of extracted-statement steps is a history of model steps: whatever
`Props/` proves along `SReach` (C01, C08, C09, C12, C17) holds along the statements of the
current source. -/
theorem SReachS.toSReach {cfg : Cfg} {s s' : Storage α} (r : SReachS cfg s s') : SReach cfg s s' := by
  induction r with
  | refl => exact .refl _
  | step _ hinv st ih => exact .step ih hinv (st.toSStep hinv)

/-- C10 for the extracted statements: a panic out of a removal (either key kind) or a creation
leaves the storage exactly as it was. -/
theorem gen_steps_panic_atomic (cfg : Cfg) (g : Nat → Nat) (s s' : Storage α) (h : Inv cfg s) (m : String) :
    (∀ e, destroyEntS cfg s e = .panic m s' → destroyEnt cfg s e = .panic m s')
    ∧ (∀ d v, destroyDirectS cfg s d v = .panic m s' → destroyDirect cfg s d v = .panic m s')
    ∧ (∀ row, pushS cfg g s row = .panic m s' → push cfg g s row = .panic m s') :=
  ⟨fun e hp => Out.same_panic (gen_steps_destroy_ent cfg s e h) hp,
   fun d v hp => Out.same_panic (gen_steps_destroy_direct cfg s d v h) hp,
   fun row hp => Out.same_panic (gen_steps_push cfg g s row h) hp⟩

/-- The extracted statements never reach an unchecked access outside its contract. -/
theorem gen_steps_not_ub (cfg : Cfg) (s : Storage α) (h : Inv cfg s) (e : Ent) (d v : Nat) :
    (∀ m, destroyEntS cfg s e ≠ .ub m) ∧ (∀ m, destroyDirectS cfg s d v ≠ .ub m) :=
  ⟨Out.same_not_ub (gen_steps_destroy_ent cfg s e h) (destroyEnt_not_ub cfg s e h),
   Out.same_not_ub (gen_steps_destroy_direct cfg s d v h) (destroyDirect_not_ub cfg s d v h)⟩

end Gecs
