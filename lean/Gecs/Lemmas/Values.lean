/-
C02 — every access path returns the entity's own, latest values; C13 — clone.

The component data of an archetype live in N parallel dense columns next to the dense array
of handles.  This file shows that the columns and the handle array move in lock-step:

* `rowAt s d` is the row read by `readRow`, by the component arguments of `bindArgs` and by
  the result of `forceDestroy`; `valueOf s e` is the row at the dense index of `e`.
* Step anatomy (`lstep_created`, `lstep_destroyed`, `lstep_inv`): what each labelled atomic
  step (`LStep`) does to a state satisfying `Inv`.
* Frame rule per step (`created_values`, `destroyed_values`, `write_values`, `clear_values`,
  `clone_values`): an operation designating an entity changes the values of that entity only;
  growth and relocation by swap-remove never change an entity's values.
* Refinement (`lreach_view`, `lreach_values`): along any labelled path the storage is, entity
  for entity, the fold of the labels over an association list `Ent ↦ row`.
* `readRow_eq_valueOf`, `resolveEntity_reads_valueOf`, `resolveDirect_reads_valueOf`.
* Clone: `clone_observations`, `clone_resolveEntity`, `clone_resolveDirect`, `clone_values_obs`,
  `clone_refill`.

A refused operation (stale handle, `push_within_capacity` on a full storage, a panic) is not
an `LStep` — by construction every constructor of `LStep` carries the successful outcome —
so it contributes no label and, by the outcome specs of `StorageOps.lean`
(`destroyEnt_spec`, `pushWithin_full`, `push_overflow`), leaves the state unchanged.
-/
import Gecs.Lemmas.StorageOps
import Gecs.Lemmas.Labelled

namespace Gecs
variable {α : Type}

/-! ## Abstract view -/

/-- Row `d` across all columns (what `readRow`, `forceDestroy` and the binders read). -/
def rowAt (s : Storage α) (d : Nat) : List α := s.cols.filterMap (·[d]?)

/-- The values of entity `e`: the row at its dense index; `none` if `e` is not stored. -/
def valueOf (s : Storage α) (e : Ent) : Option (List α) := (s.ents.idxOf? e).map (rowAt s)

theorem idxOf?_of_nodup {l : List Ent} (nd : l.Nodup) {d : Nat} {e : Ent}
    (hd : l[d]? = some e) : l.idxOf? e = some d := by
  obtain ⟨hlt, he⟩ := List.getElem?_eq_some_iff.mp hd
  rw [List.idxOf?_eq_some_iff]
  refine ⟨hlt, he, ?_⟩
  intro j hj hje
  have hjl : j < l.length := by omega
  exact (List.pairwise_iff_getElem.mp (List.nodup_iff_pairwise_ne.mp nd)) j d hjl hlt hj
    (hje.trans he.symm)

theorem valueOf_of_getElem? {cfg : Cfg} {s : Storage α} (h : Inv cfg s) {d : Nat} {e : Ent}
    (hd : s.ents[d]? = some e) : valueOf s e = some (rowAt s d) := by
  unfold valueOf
  rw [idxOf?_of_nodup (ents_nodup h) hd]; rfl

theorem valueOf_of_not_mem {s : Storage α} {e : Ent} (hn : e ∉ s.ents) : valueOf s e = none := by
  unfold valueOf
  rw [List.idxOf?_eq_none_iff.mpr hn]; rfl

theorem valueOf_isSome_iff {s : Storage α} {e : Ent} : (valueOf s e).isSome ↔ e ∈ s.ents := by
  unfold valueOf
  cases hi : s.ents.idxOf? e with
  | none => simpa using List.idxOf?_eq_none_iff.mp hi
  | some d =>
    obtain ⟨hlt, he, _⟩ := List.idxOf?_eq_some_iff.mp hi
    simpa using he ▸ List.getElem_mem hlt

theorem rowAt_length {cfg : Cfg} {s : Storage α} (h : Inv cfg s) {d : Nat} (hd : d < s.len) :
    (rowAt s d).length = s.cols.length :=
  filterMap_getElem?_length s.cols d s.len h.colsLen hd

/-- `readRow` at the dense index of `e` is `valueOf s e`: view, borrow, find and the slices all
read `readRow` / `rowAt` at the resolved index. -/
theorem readRow_eq_valueOf {cfg : Cfg} {s : Storage α} (h : Inv cfg s) {d : Nat} {e : Ent}
    (hd : s.ents[d]? = some e) : readRow s d = valueOf s e := by
  rw [valueOf_of_getElem? h hd, ((readRow_spec h d).1 (h.ents_lt hd)).1]; rfl

/-- Resolution by handle followed by a read returns the handle's own row. -/
theorem resolveEntity_reads_valueOf {cfg : Cfg} {s s₁ : Storage α} (h : Inv cfg s) {e : Ent}
    {si d : Nat} (hr : resolveEntity cfg s e = .ok (some (si, d)) s₁) :
    s.ents[d]? = some e ∧ readRow s d = valueOf s e ∧ (valueOf s e).isSome := by
  rcases resolveEntity_spec cfg s e h with h1 | ⟨d', h1, h2⟩ | ⟨msg, h1, _⟩
  · rw [h1] at hr; cases hr
  · rw [h1] at hr; cases hr
    exact ⟨h2, readRow_eq_valueOf h h2, valueOf_isSome_iff.mpr (List.mem_of_getElem? h2)⟩
  · rw [h1] at hr; cases hr

/-- Resolution by direct handle followed by a read returns the row of the entity stored at
that dense index. -/
theorem resolveDirect_reads_valueOf {cfg : Cfg} {s s₁ : Storage α} (h : Inv cfg s)
    {d v si d' : Nat} (hr : resolveDirect cfg s d v = .ok (some (si, d')) s₁) :
    ∃ e, d' = d ∧ s.ents[d]? = some e ∧ si = e.slot ∧ readRow s d = valueOf s e := by
  rcases resolveDirect_spec cfg s d v h with h1 | ⟨e, h1, _, h3⟩ | ⟨msg, h1, _⟩
  · rw [h1] at hr; cases hr
  · rw [h1] at hr; cases hr
    exact ⟨e, rfl, h3, rfl, readRow_eq_valueOf h h3⟩
  · rw [h1] at hr; cases hr

/-! ## Step anatomy -/

theorem Inv.toCfgOk {cfg : Cfg} {s : Storage α} (h : Inv cfg s) : CfgOk cfg :=
  ⟨Nat.le_trans h.archVer.1 h.archVer.2⟩

/-- A successful creation (either `push` or `push_within_capacity`). -/
theorem lstep_created {cfg : Cfg} {s s' : Storage α} {e : Ent} {row : List α} (h : Inv cfg s)
    (st : LStep cfg s (.created e row) s') :
    Inv cfg s' ∧ s'.ents = s.ents ++ [e] ∧ e ∉ s.ents
      ∧ s'.cols = List.zipWith (fun c x => c ++ [x]) s.cols row
      ∧ s'.len = s.len + 1 ∧ s'.version = s.version
      ∧ s'.created = (if cfg.events then s.created ++ [e] else s.created)
      ∧ s'.destroyed = s.destroyed := by
  cases st with
  | push _ g _ _ hg hp =>
    by_cases hlt : s.len < cfg.maxCap
    · obtain ⟨e', s'', h1, h2, h3, _, h5, h6, h7, _, _, h10, h11, h12, _⟩ :=
        push_ok cfg g s row h h.toCfgOk hg hlt
      rw [h1] at hp; cases hp
      exact ⟨h2, h5, h6, h10, h3, h7, h11, h12⟩
    · have : s.len = cfg.maxCap := by have := h.lenCap; have := h.capMax; omega
      rw [(push_overflow cfg g s row h this).2] at hp; cases hp
  | pushWithin _ _ _ hp =>
    by_cases hlt : s.len < s.capacity
    · obtain ⟨e', s'', h1, h2, h3, _, h5, h6, h7, h8, h9, h10⟩ := pushWithin_ok cfg s row h hlt
      rw [h1] at hp; cases hp
      exact ⟨h2, h5, h6, h8, h3, h7, h9, h10⟩
    · rw [pushWithin_full row (by omega)] at hp; cases hp

/-- A successful removal (by `Entity` or by `EntityDirect`): the label names the handle stored
at the designated dense index, and the returned row is read at that index. -/
theorem lstep_destroyed {cfg : Cfg} {s s' : Storage α} {t : Ent} {row : List α} (h : Inv cfg s)
    (st : LStep cfg s (.destroyed t row) s') :
    ∃ d, s.ents[d]? = some t ∧ Inv cfg s' ∧ row = s.cols.filterMap (·[d]?)
      ∧ s'.ents = swapRemove s.ents d
      ∧ s'.cols = s.cols.map (fun c => swapRemove c d)
      ∧ s'.len = s.len - 1
      ∧ s'.created = s.created
      ∧ s'.destroyed = (if cfg.events then s.destroyed ++ [t] else s.destroyed) := by
  have key : ∀ d, s.ents[d]? = some t →
      (match forceDestroy cfg s t.slot d with
        | .ok r s₁ => (.ok (some r) s₁ : Out (Storage α) (Option (List α)))
        | .panic m s₁ => .panic m s₁
        | .ub m => .ub m) = .ok (some row) s' →
      ∃ d, s.ents[d]? = some t ∧ Inv cfg s' ∧ row = s.cols.filterMap (·[d]?)
        ∧ s'.ents = swapRemove s.ents d
        ∧ s'.cols = s.cols.map (fun c => swapRemove c d)
        ∧ s'.len = s.len - 1
        ∧ s'.created = s.created
        ∧ s'.destroyed = (if cfg.events then s.destroyed ++ [t] else s.destroyed) := by
    intro d hd hm
    rcases forceDestroy_live cfg s d t h hd with
      ⟨row', s'', sv, av, hok, hinv, _, _, hrow, _, hlen, _, _, hents, _, hcols, hcr, hde⟩
      | ⟨hp, _⟩ | ⟨hp, _⟩
    · rw [hok] at hm; cases hm
      exact ⟨d, hd, hinv, hrow, hents, hcols, hlen, hcr, hde⟩
    · rw [hp] at hm; cases hm
    · rw [hp] at hm; cases hm
  cases st with
  | destroyEnt _ _ _ hp =>
    by_cases hm : t ∈ s.ents
    · obtain ⟨d, hd⟩ := List.getElem?_of_mem hm
      rw [destroyEnt_of_mem h hd] at hp
      exact key d hd hp
    · rcases destroyEnt_spec cfg s t h with ⟨h1, _⟩ | ⟨_, _, _, _, h2, _⟩ | ⟨m, h1, _⟩
      · rw [h1] at hp; cases hp
      · exact absurd h2 hm
      · rw [h1] at hp; cases hp
  | destroyDirect _ d v _ _ ht hp =>
    rcases resolveDirect_spec cfg s d v h with h1 | ⟨e, _, rfl, hd⟩ | ⟨msg, h1, _⟩
    · simp [destroyDirect, h1] at hp
    · rw [ht] at hd; cases hd
      rw [destroyDirect_of_lt h ht] at hp
      exact key d ht hp
    · simp [destroyDirect, h1] at hp

/-- Every labelled step preserves the representation invariant. -/
theorem lstep_inv {cfg : Cfg} {s s' : Storage α} {l : Lbl α} (h : Inv cfg s)
    (st : LStep cfg s l s') : Inv cfg s' := by
  cases l with
  | write d c x => cases st; exact writeCell_inv h
  | created e row => exact (lstep_created h st).1
  | destroyed t row => obtain ⟨_, _, hi, _⟩ := lstep_destroyed h st; exact hi
  | clear => cases st; exact clearEvents_inv h
  | clone cl => cases st; exact cloneStorage_inv h

/-- Handles, columns and slots stay in lock-step along every path. -/
theorem lockstep {cfg : Cfg} {s s' : Storage α} {L : List (Lbl α)} (h : Inv cfg s)
    (r : LReach cfg s L s') : Inv cfg s' := by
  cases r with
  | refl => exact h
  | step _ hi st => exact lstep_inv hi st

/-! ## Parallel columns: reading a row after each kind of column update -/

theorem filterMap_push_lt (cols : List (List α)) (row : List α) (n d : Nat)
    (h : ∀ c ∈ cols, c.length = n) (hr : row.length = cols.length) (hd : d < n) :
    (List.zipWith (fun c x => c ++ [x]) cols row).filterMap (·[d]?) = cols.filterMap (·[d]?) := by
  induction cols generalizing row with
  | nil => simp
  | cons c cs ih =>
    cases row with
    | nil => simp at hr
    | cons x xs =>
      have hc : d < c.length := by rw [h c List.mem_cons_self]; exact hd
      simp only [List.zipWith_cons_cons, List.filterMap_cons]
      rw [List.getElem?_append_left hc]
      rw [ih xs (fun c' hc' => h c' (List.mem_cons_of_mem _ hc')) (by simpa using hr)]

theorem filterMap_push_eq (cols : List (List α)) (row : List α) (n : Nat)
    (h : ∀ c ∈ cols, c.length = n) (hr : row.length = cols.length) :
    (List.zipWith (fun c x => c ++ [x]) cols row).filterMap (·[n]?) = row := by
  induction cols generalizing row with
  | nil => cases row with
    | nil => rfl
    | cons x xs => simp at hr
  | cons c cs ih =>
    cases row with
    | nil => simp at hr
    | cons x xs =>
      have hc : c.length = n := h c List.mem_cons_self
      simp only [List.zipWith_cons_cons, List.filterMap_cons]
      have : (c ++ [x])[n]? = some x := by rw [← hc]; simp
      rw [this, ih xs (fun c' hc' => h c' (List.mem_cons_of_mem _ hc')) (by simpa using hr)]

theorem filterMap_swapRemove (cols : List (List α)) (n d j : Nat)
    (h : ∀ c ∈ cols, c.length = n) (hd : d < n) (hj : j < n - 1) :
    (cols.map (fun c => swapRemove c d)).filterMap (·[j]?)
      = cols.filterMap (·[if j = d then n - 1 else j]?) := by
  induction cols with
  | nil => rfl
  | cons c cs ih =>
    have hl := h c List.mem_cons_self
    simp only [List.map_cons, List.filterMap_cons]
    have hcell : (swapRemove c d)[j]? = c[if j = d then n - 1 else j]? := by
      rw [swapRemove_getElem? c d j (by omega), hl, if_pos hj]
      split <;> rfl
    rw [hcell, ih (fun c' hc' => h c' (List.mem_cons_of_mem _ hc'))]

theorem filterMap_modify_set_ne (cols : List (List α)) (c d j : Nat) (x : α) (hj : j ≠ d) :
    (cols.modify c (·.set d x)).filterMap (·[j]?) = cols.filterMap (·[j]?) := by
  induction cols generalizing c with
  | nil => simp
  | cons col cs ih =>
    cases c with
    | zero =>
      rw [List.modify_zero_cons, List.filterMap_cons, List.filterMap_cons,
        List.getElem?_set_ne (Ne.symm hj)]
    | succ c =>
      rw [List.modify_succ_cons, List.filterMap_cons, List.filterMap_cons, ih c]

theorem filterMap_modify_set_eq (cols : List (List α)) (n c d : Nat) (x : α)
    (h : ∀ col ∈ cols, col.length = n) (hd : d < n) :
    (cols.modify c (·.set d x)).filterMap (·[d]?) = (cols.filterMap (·[d]?)).set c x := by
  induction cols generalizing c with
  | nil => simp
  | cons col cs ih =>
    have hc : d < col.length := by rw [h col List.mem_cons_self]; exact hd
    have hcol : col[d]? = some col[d] := List.getElem?_eq_getElem hc
    have h' : ∀ col ∈ cs, col.length = n := fun c' hc' => h c' (List.mem_cons_of_mem _ hc')
    cases c with
    | zero => simp [hc]
    | succ c => simp [hcol, ih c h']

theorem filterMap_map_map (cols : List (List α)) (cl : α → α) (d : Nat) :
    (cols.map (·.map cl)).filterMap (·[d]?) = (cols.filterMap (·[d]?)).map cl := by
  induction cols with
  | nil => rfl
  | cons c cs ih =>
    simp only [List.map_cons, List.filterMap_cons, List.getElem?_map]
    cases c[d]? with
    | none => simpa using ih
    | some y => simpa using ih

/-- Cell `c` of row `d` is cell `d` of column `c`. -/
theorem filterMap_getElem?_getElem? (cols : List (List α)) (n c d : Nat)
    (h : ∀ col ∈ cols, col.length = n) (hd : d < n) :
    (cols.filterMap (·[d]?))[c]? = cols[c]?.bind (·[d]?) := by
  induction cols generalizing c with
  | nil => simp
  | cons col cs ih =>
    have hcl : d < col.length := by rw [h col List.mem_cons_self]; exact hd
    have hcd : col[d]? = some col[d] := List.getElem?_eq_getElem hcl
    rw [List.filterMap_cons, hcd]
    cases c with
    | zero => simp [hcl]
    | succ c =>
      simp only [List.getElem?_cons_succ]
      exact ih c (fun c' hc' => h c' (List.mem_cons_of_mem _ hc'))

/-- Cell `c` of the row at `d`, as a column access. -/
theorem rowAt_getElem? {cfg : Cfg} {s : Storage α} (h : Inv cfg s) {d : Nat} (hd : d < s.len)
    (c : Nat) : (rowAt s d)[c]? = s.cols[c]?.bind (·[d]?) :=
  filterMap_getElem?_getElem? s.cols s.len c d h.colsLen hd

/-- The component argument bound by `bindArgs` (`slices.c[idx]`, i.e.
`(s.cols.getD c [])[idx]?`) for the entity stored at `idx` is cell `c` of that entity's own
row. -/
theorem comp_cell_eq_valueOf {cfg : Cfg} {s : Storage α} (h : Inv cfg s) {d : Nat} {e : Ent}
    (hd : s.ents[d]? = some e) (c : Nat) :
    (s.cols.getD c [])[d]? = (valueOf s e).bind (·[c]?) := by
  rw [valueOf_of_getElem? h hd, Option.bind_some, rowAt_getElem? h (h.ents_lt hd),
    List.getD_eq_getElem?_getD]
  cases s.cols[c]? <;> simp

/-! ## Frame rule, step by step -/

/-- Creation: the new entity has exactly the row that was moved in; nobody else changes (growth
included); the number of columns is kept. -/
theorem created_values {cfg : Cfg} {s s' : Storage α} {e : Ent} {row : List α} (h : Inv cfg s)
    (hr : row.length = s.cols.length) (st : LStep cfg s (.created e row) s') :
    valueOf s' e = some row ∧ valueOf s e = none
      ∧ (∀ x, x ≠ e → valueOf s' x = valueOf s x)
      ∧ (∀ x ∈ s.ents, valueOf s' x = valueOf s x)
      ∧ s'.cols.length = s.cols.length := by
  obtain ⟨hinv, hents, hfresh, hcols, hlen, _⟩ := lstep_created h st
  have hrow_lt : ∀ j, j < s.len → rowAt s' j = rowAt s j := by
    intro j hj; unfold rowAt; rw [hcols]
    exact filterMap_push_lt s.cols row s.len j h.colsLen hr hj
  have hrow_eq : rowAt s' s.len = row := by
    unfold rowAt; rw [hcols]; exact filterMap_push_eq s.cols row s.len h.colsLen hr
  have hat : s'.ents[s.len]? = some e := by rw [hents, ← h.entsLen]; simp
  have hother : ∀ x ∈ s.ents, valueOf s' x = valueOf s x := by
    intro x hx
    obtain ⟨j, hj⟩ := List.getElem?_of_mem hx
    have hjl : j < s.ents.length := (List.getElem?_eq_some_iff.mp hj).1
    have hj' : s'.ents[j]? = some x := by rw [hents, List.getElem?_append_left hjl]; exact hj
    rw [valueOf_of_getElem? hinv hj', valueOf_of_getElem? h hj, hrow_lt j (h.entsLen ▸ hjl)]
  refine ⟨by rw [valueOf_of_getElem? hinv hat, hrow_eq], valueOf_of_not_mem hfresh, ?_, hother, ?_⟩
  · intro x hx
    by_cases hm : x ∈ s.ents
    · exact hother x hm
    · rw [valueOf_of_not_mem hm, valueOf_of_not_mem]
      rw [hents]; simp [hm, hx]
  · rw [hcols, List.length_zipWith, hr]; simp

/-- Removal: the row handed back is the removed entity's own row; the entity is gone; nobody
else changes, although the last entity's handle and all its cells are relocated. -/
theorem destroyed_values {cfg : Cfg} {s s' : Storage α} {t : Ent} {row : List α} (h : Inv cfg s)
    (st : LStep cfg s (.destroyed t row) s') :
    valueOf s t = some row ∧ valueOf s' t = none
      ∧ (∀ x, x ≠ t → valueOf s' x = valueOf s x)
      ∧ row.length = s.cols.length ∧ s'.cols.length = s.cols.length := by
  obtain ⟨d, hd, hinv, hrow, hents, hcols, hlen, _⟩ := lstep_destroyed h st
  have hdl : d < s.len := h.ents_lt hd
  have hdl' : d < s.ents.length := by rw [h.entsLen]; exact hdl
  have hmem := mem_swapRemove_ents cfg s h d t hd
  have hrowAt : ∀ j, j < s.len - 1 → rowAt s' j = rowAt s (if j = d then s.len - 1 else j) := by
    intro j hj; unfold rowAt; rw [hcols]
    exact filterMap_swapRemove s.cols s.len d j h.colsLen hdl hj
  refine ⟨by rw [valueOf_of_getElem? h hd, hrow]; rfl, ?_, ?_, ?_, by rw [hcols]; simp⟩
  · apply valueOf_of_not_mem; rw [hents, hmem]; simp
  · intro x hx
    by_cases hm : x ∈ s.ents
    · obtain ⟨j, hj⟩ := List.getElem?_of_mem hm
      have hjl : j < s.len := h.ents_lt hj
      have hjd : j ≠ d := by intro heq; subst heq; rw [hd] at hj; cases hj; exact hx rfl
      by_cases hlast : j = s.len - 1
      · -- the last entity moves into the hole
        have hd1 : d < s.len - 1 := by omega
        have hx' : s'.ents[d]? = some x := by
          rw [hents, swapRemove_getElem? _ _ _ hdl', h.entsLen, if_pos hd1, if_pos rfl, ← hlast]
          exact hj
        rw [valueOf_of_getElem? hinv hx', valueOf_of_getElem? h hj, hrowAt d hd1, if_pos rfl,
          hlast]
      · have hj1 : j < s.len - 1 := by omega
        have hx' : s'.ents[j]? = some x := by
          rw [hents, swapRemove_getElem? _ _ _ hdl', h.entsLen, if_pos hj1, if_neg hjd]
          exact hj
        rw [valueOf_of_getElem? hinv hx', valueOf_of_getElem? h hj, hrowAt j hj1, if_neg hjd]
    · rw [valueOf_of_not_mem hm, valueOf_of_not_mem]
      rw [hents, hmem]; simp [hm]
  · rw [hrow]; exact filterMap_getElem?_length s.cols d s.len h.colsLen hdl

/-- A write through dense position `d`, column `c`: the entity stored at `d` gets cell `c` of
its row replaced, every other entity keeps its row, nothing moves. -/
theorem write_values {cfg : Cfg} {s s' : Storage α} {d c : Nat} {x : α} (h : Inv cfg s)
    (st : LStep cfg s (.write d c x) s') :
    s'.ents = s.ents
      ∧ (∀ t, s.ents[d]? = some t → valueOf s' t = (valueOf s t).map (·.set c x))
      ∧ (∀ y, s.ents[d]? ≠ some y → valueOf s' y = valueOf s y)
      ∧ s'.cols.length = s.cols.length := by
  cases st
  have hinv : Inv cfg (writeCell s d c x) := writeCell_inv h
  refine ⟨rfl, ?_, ?_, by simp [writeCell]⟩
  · intro t ht
    have ht' : (writeCell s d c x).ents[d]? = some t := ht
    rw [valueOf_of_getElem? hinv ht', valueOf_of_getElem? h ht]
    simp only [Option.map_some, rowAt, writeCell]
    rw [filterMap_modify_set_eq s.cols s.len c d x h.colsLen (h.ents_lt ht)]
  · intro y hy
    by_cases hm : y ∈ s.ents
    · obtain ⟨j, hj⟩ := List.getElem?_of_mem hm
      have hjd : j ≠ d := by intro heq; subst heq; exact hy hj
      have hj' : (writeCell s d c x).ents[j]? = some y := hj
      rw [valueOf_of_getElem? hinv hj', valueOf_of_getElem? h hj]
      simp only [rowAt, writeCell]
      rw [filterMap_modify_set_ne s.cols c d j x hjd]
    · rw [valueOf_of_not_mem hm, valueOf_of_not_mem (s := writeCell s d c x) hm]

/-- `clear_events` changes no value. -/
theorem clear_values {cfg : Cfg} {s s' : Storage α} (st : LStep cfg s .clear s') :
    s'.ents = s.ents ∧ s'.cols = s.cols ∧ ∀ x, valueOf s' x = valueOf s x := by
  cases st; exact ⟨rfl, rfl, fun _ => rfl⟩

theorem rowAt_clone (s : Storage α) (cl : α → α) (d : Nat) :
    rowAt { s with cols := s.cols.map (·.map cl) } d = (rowAt s d).map cl :=
  filterMap_map_map s.cols cl d

/-- Clone: every entity's row is cloned cell by cell. -/
theorem clone_values {cfg : Cfg} {s s' : Storage α} {cl : α → α}
    (st : LStep cfg s (.clone cl) s') :
    s'.ents = s.ents ∧ (∀ x, valueOf s' x = (valueOf s x).map (·.map cl))
      ∧ s'.cols.length = s.cols.length := by
  cases st
  refine ⟨rfl, ?_, by simp⟩
  intro x
  unfold valueOf
  cases s.ents.idxOf? x with
  | none => rfl
  | some d => simp only [Option.map_some]; rw [rowAt_clone]

/-! ## Refinement: the storage is the fold of its labels over an association list -/

/-- All rows, in dense order. -/
def rows (s : Storage α) : List (List α) := (List.range s.len).map (rowAt s)

/-- The storage seen as an association list `handle ↦ row`, in dense order. -/
def view (s : Storage α) : List (Ent × List α) := s.ents.zip (rows s)

/-- Specification of one label on the association list: creation appends `(e, row)`; removal
erases the entry with key `t`, the last entry taking its place (so that positions keep
mirroring the dense order, which is what write labels refer to); a write updates cell `c` of
the entry at position `d`; clone maps every cell; `clear_events` does nothing. -/
def applyLbl (v : List (Ent × List α)) : Lbl α → List (Ent × List α)
  | .created e row => v ++ [(e, row)]
  | .destroyed t _ =>
    match (v.map (·.1)).idxOf? t with
    | some i => swapRemove v i
    | none => v
  | .write d c x => v.modify d (fun p => (p.1, p.2.set c x))
  | .clear => v
  | .clone cl => v.map (fun p => (p.1, p.2.map cl))

/-- Rows moved in by the creations of `L` have one value per column. -/
def RowsOk (n : Nat) (L : List (Lbl α)) : Prop :=
  ∀ (e : Ent) (row : List α), Lbl.created e row ∈ L → row.length = n

theorem view_getElem? {cfg : Cfg} {s : Storage α} (h : Inv cfg s) (d : Nat) :
    (view s)[d]? = s.ents[d]?.map (fun e => (e, rowAt s d)) := by
  unfold view rows
  by_cases hd : d < s.len
  · have hd' : d < s.ents.length := by rw [h.entsLen]; exact hd
    have h1 : s.ents[d]? = some s.ents[d] := List.getElem?_eq_getElem hd'
    rw [h1, Option.map_some, List.getElem?_zip_eq_some]
    exact ⟨h1, by simp [hd]⟩
  · have : s.ents[d]? = none := by rw [List.getElem?_eq_none_iff, h.entsLen]; omega
    rw [this, Option.map_none, List.getElem?_eq_none_iff]
    simp [h.entsLen]; omega

theorem view_length {cfg : Cfg} {s : Storage α} (h : Inv cfg s) : (view s).length = s.len := by
  simp [view, rows, h.entsLen]

/-- The keys of the view are the dense handle array: position `d` of the view is the entry
of the entity stored at dense index `d`. -/
theorem view_keys {cfg : Cfg} {s : Storage α} (h : Inv cfg s) : (view s).map (·.1) = s.ents := by
  apply List.ext_getElem?
  intro d
  rw [List.getElem?_map, view_getElem? h]
  cases s.ents[d]? <;> rfl

/-- One step on the storage is one `applyLbl` on its view. -/
theorem view_step {cfg : Cfg} {s s' : Storage α} {l : Lbl α} (h : Inv cfg s)
    (hr : RowsOk s.cols.length [l]) (st : LStep cfg s l s') :
    view s' = applyLbl (view s) l := by
  have hinv' : Inv cfg s' := lstep_inv h st
  cases l with
  | created e row =>
    have hrl : row.length = s.cols.length := hr e row (by simp)
    obtain ⟨_, hents, _, hcols, hlen, _⟩ := lstep_created h st
    apply List.ext_getElem?
    intro i
    rw [view_getElem? hinv']
    show _ = (view s ++ [(e, row)])[i]?
    by_cases hi : i < s.len
    · have hi' : i < s.ents.length := by rw [h.entsLen]; exact hi
      rw [List.getElem?_append_left (by rw [view_length h]; exact hi), view_getElem? h, hents,
        List.getElem?_append_left hi']
      have : rowAt s' i = rowAt s i := by
        unfold rowAt; rw [hcols]; exact filterMap_push_lt s.cols row s.len i h.colsLen hrl hi
      rw [this]
    · by_cases hi2 : i = s.len
      · subst hi2
        have h1 : s'.ents[s.len]? = some e := by rw [hents, ← h.entsLen]; simp
        have h2 : rowAt s' s.len = row := by
          unfold rowAt; rw [hcols]; exact filterMap_push_eq s.cols row s.len h.colsLen hrl
        rw [h1, Option.map_some, h2]
        rw [List.getElem?_append_right (by rw [view_length h]; exact Nat.le_refl _), view_length h]
        simp
      · have h1 : s'.ents[i]? = none := by
          rw [List.getElem?_eq_none_iff, hinv'.entsLen, hlen]; omega
        rw [h1, Option.map_none]
        symm; rw [List.getElem?_eq_none_iff]; simp [view_length h]; omega
  | destroyed t row =>
    obtain ⟨d, hd, _, _, hents, hcols, hlen, _⟩ := lstep_destroyed h st
    have hdl : d < s.len := h.ents_lt hd
    have hdl' : d < s.ents.length := by rw [h.entsLen]; exact hdl
    have hidx : ((view s).map (·.1)).idxOf? t = some d := by
      rw [view_keys h]; exact idxOf?_of_nodup (ents_nodup h) hd
    show _ = (match ((view s).map (·.1)).idxOf? t with
      | some i => swapRemove (view s) i
      | none => view s)
    rw [hidx]
    apply List.ext_getElem?
    intro i
    rw [view_getElem? hinv', hents, swapRemove_getElem? _ _ _ hdl',
      swapRemove_getElem? _ _ _ (by rw [view_length h]; exact hdl), view_length h, h.entsLen]
    by_cases hi : i < s.len - 1
    · have hrow : rowAt s' i = rowAt s (if i = d then s.len - 1 else i) := by
        unfold rowAt; rw [hcols]; exact filterMap_swapRemove s.cols s.len d i h.colsLen hdl hi
      rw [if_pos hi, if_pos hi, hrow]
      by_cases hid : i = d
      · rw [if_pos hid, if_pos hid, if_pos hid, view_getElem? h]
      · rw [if_neg hid, if_neg hid, if_neg hid, view_getElem? h]
    · rw [if_neg hi, if_neg hi]; rfl
  | write d c x =>
    cases st
    apply List.ext_getElem?
    intro i
    rw [view_getElem? hinv']
    show _ = ((view s).modify d (fun p => (p.1, p.2.set c x)))[i]?
    rw [List.getElem?_modify, view_getElem? h]
    show (s.ents[i]?).map _ = _
    cases hi : s.ents[i]? with
    | none => rfl
    | some y =>
      simp only [Option.map_some, Option.map_eq_map]
      by_cases hdi : d = i
      · subst hdi
        rw [if_pos rfl]
        simp only [rowAt, writeCell]
        rw [filterMap_modify_set_eq s.cols s.len c d x h.colsLen (h.ents_lt hi)]
      · rw [if_neg hdi]
        simp only [rowAt, writeCell]
        rw [filterMap_modify_set_ne s.cols c d i x (Ne.symm hdi)]
  | clear => cases st; rfl
  | clone cl =>
    cases st
    apply List.ext_getElem?
    intro i
    rw [view_getElem? hinv']
    show _ = ((view s).map (fun p => (p.1, p.2.map cl)))[i]?
    rw [List.getElem?_map, view_getElem? h, rowAt_clone]
    show (s.ents[i]?).map _ = _
    cases s.ents[i]? <;> rfl

theorem RowsOk.init {n : Nat} {L : List (Lbl α)} {l : Lbl α} (h : RowsOk n (L ++ [l])) :
    RowsOk n L := fun e row hm => h e row (List.mem_append_left _ hm)

theorem RowsOk.last {n : Nat} {L : List (Lbl α)} {l : Lbl α} (h : RowsOk n (L ++ [l])) :
    RowsOk n [l] := fun e row hm => h e row (List.mem_append_right _ hm)

/-- One step keeps the number of columns (creations need a row of the right width:
`zipWith` would otherwise truncate the column list, see `Create.lean`). -/
theorem lstep_cols_length {cfg : Cfg} {s s' : Storage α} {l : Lbl α} (h : Inv cfg s)
    (hr : RowsOk s.cols.length [l]) (st : LStep cfg s l s') : s'.cols.length = s.cols.length := by
  cases l with
  | created e row => exact (created_values h (hr e row (by simp)) st).2.2.2.2
  | destroyed t row => exact (destroyed_values h st).2.2.2.2
  | write d c x => exact (write_values h st).2.2.2
  | clear => rw [(clear_values st).2.1]
  | clone cl => exact (clone_values st).2.2

theorem cols_length_preserved {cfg : Cfg} {s s' : Storage α} {L : List (Lbl α)}
    (hr : RowsOk s.cols.length L) (r : LReach cfg s L s') : s'.cols.length = s.cols.length := by
  induction r with
  | refl => rfl
  | step r hi st ih =>
    have h1 := ih hr.init
    rw [← h1]
    exact lstep_cols_length hi (by rw [h1]; exact hr.last) st

/-- The view of the final state is the fold of the labels over the view of the initial state
(as lists: same entries in the same order). -/
theorem lreach_view {cfg : Cfg} {s s' : Storage α} {L : List (Lbl α)}
    (hr : RowsOk s.cols.length L) (r : LReach cfg s L s') :
    view s' = L.foldl applyLbl (view s) := by
  induction r with
  | refl => rfl
  | step r hi st ih =>
    have h1 := cols_length_preserved hr.init r
    rw [List.foldl_append, ← ih hr.init]
    exact view_step hi (by rw [h1]; exact hr.last) st

theorem lookup_of_getElem? {v : List (Ent × List α)} (nd : (v.map (·.1)).Nodup) {i : Nat}
    {e : Ent} {r : List α} (hi : v[i]? = some (e, r)) : v.lookup e = some r := by
  induction v generalizing i with
  | nil => simp at hi
  | cons p v ih =>
    obtain ⟨k, r0⟩ := p
    simp only [List.map_cons, List.nodup_cons] at nd
    cases i with
    | zero => simp at hi; obtain ⟨rfl, rfl⟩ := hi; simp
    | succ i =>
      simp only [List.getElem?_cons_succ] at hi
      have hm : e ∈ v.map (·.1) := List.mem_map.mpr ⟨(e, r), List.mem_of_getElem? hi, rfl⟩
      have hne : e ≠ k := fun heq => nd.1 (heq ▸ hm)
      have : (e == k) = false := by simpa using hne
      rw [List.lookup_cons, this]
      exact ih nd.2 hi

theorem lookup_of_not_mem {v : List (Ent × List α)} {e : Ent} (hn : e ∉ v.map (·.1)) :
    v.lookup e = none := by
  rw [List.lookup_eq_none_iff]
  intro p hp
  have : e ≠ p.1 := fun heq => hn (List.mem_map.mpr ⟨p, hp, heq.symm⟩)
  simpa using this

/-- `valueOf` is lookup in the view. -/
theorem valueOf_eq_lookup {cfg : Cfg} {s : Storage α} (h : Inv cfg s) (e : Ent) :
    valueOf s e = (view s).lookup e := by
  by_cases hm : e ∈ s.ents
  · obtain ⟨d, hd⟩ := List.getElem?_of_mem hm
    have hv : (view s)[d]? = some (e, rowAt s d) := by rw [view_getElem? h, hd]; rfl
    rw [valueOf_of_getElem? h hd,
      lookup_of_getElem? (by rw [view_keys h]; exact ents_nodup h) hv]
  · rw [valueOf_of_not_mem hm, lookup_of_not_mem (by rw [view_keys h]; exact hm)]

/-- C02, refinement form: after any labelled path from an `Inv` state, every entity's values
are what the fold of the labels over the initial association list says. -/
theorem lreach_values {cfg : Cfg} {s s' : Storage α} {L : List (Lbl α)} (h : Inv cfg s)
    (hr : RowsOk s.cols.length L) (r : LReach cfg s L s') (e : Ent) :
    valueOf s' e = (L.foldl applyLbl (view s)).lookup e := by
  rw [valueOf_eq_lookup (lockstep h r), lreach_view hr r]

/-- … and so does every read: resolving a handle in the final state and reading the row at the
resolved index returns the values the label history assigns to that handle. -/
theorem lreach_read {cfg : Cfg} {s s' s₁ : Storage α} {L : List (Lbl α)} (h : Inv cfg s)
    (hr : RowsOk s.cols.length L) (r : LReach cfg s L s') {e : Ent} {si d : Nat}
    (hres : resolveEntity cfg s' e = .ok (some (si, d)) s₁) :
    readRow s' d = (L.foldl applyLbl (view s)).lookup e := by
  rw [(resolveEntity_reads_valueOf (lockstep h r) hres).2.1, lreach_values h hr r]

/-! ## `applyLbl` read as finite-map updates

On an association list with pairwise distinct keys (`view s` under `Inv`), `applyLbl` is:
insert `e ↦ row`; erase key `t`; update the row of the entity sitting at position `d`
(`view_keys`: that is the entity stored at dense index `d`); map all rows.  So the fold in
`lreach_values` is the entity-level history of values, and in particular the frame rule holds
at the specification level as well. -/

theorem lookup_eq_some_iff_mem {v : List (Ent × List α)} (nd : (v.map (·.1)).Nodup) (x : Ent)
    (r : List α) : v.lookup x = some r ↔ (x, r) ∈ v := by
  constructor
  · intro hl
    by_cases hm : x ∈ v.map (·.1)
    · obtain ⟨p, hp, hpx⟩ := List.mem_map.mp hm
      obtain ⟨i, hi⟩ := List.getElem?_of_mem hp
      obtain ⟨k, r'⟩ := p
      simp only at hpx; subst hpx
      rw [lookup_of_getElem? nd hi] at hl
      cases hl; exact hp
    · rw [lookup_of_not_mem hm] at hl; cases hl
  · intro hm
    obtain ⟨i, hi⟩ := List.getElem?_of_mem hm
    exact lookup_of_getElem? nd hi

theorem nodup_of_keys_nodup {v : List (Ent × List α)} (nd : (v.map (·.1)).Nodup) : v.Nodup := by
  induction v with
  | nil => exact List.nodup_nil
  | cons p v ih =>
    simp only [List.map_cons, List.nodup_cons] at nd ⊢
    exact ⟨fun hp => nd.1 (List.mem_map.mpr ⟨p, hp, rfl⟩), ih nd.2⟩

theorem lookup_applyLbl_created {v : List (Ent × List α)} {e : Ent} {row : List α}
    (hn : e ∉ v.map (·.1)) (x : Ent) :
    (applyLbl v (.created e row)).lookup x = if x = e then some row else v.lookup x := by
  show (v ++ [(e, row)]).lookup x = _
  rw [List.lookup_append]
  by_cases hx : x = e
  · subst hx; rw [if_pos rfl, lookup_of_not_mem hn]; simp
  · have : (x == e) = false := by simpa using hx
    rw [if_neg hx]; simp [List.lookup_cons, this]

theorem lookup_applyLbl_destroyed {v : List (Ent × List α)} (nd : (v.map (·.1)).Nodup)
    (t : Ent) (row : List α) (x : Ent) :
    (applyLbl v (.destroyed t row)).lookup x = if x = t then none else v.lookup x := by
  show (match (v.map (fun p : Ent × List α => p.1)).idxOf? t with
      | some i => swapRemove v i
      | none => v).lookup x = _
  cases hidx : (v.map (·.1)).idxOf? t with
  | none =>
    have hn : t ∉ v.map (·.1) := List.idxOf?_eq_none_iff.mp hidx
    by_cases hx : x = t
    · subst hx; rw [if_pos rfl]; exact lookup_of_not_mem hn
    · rw [if_neg hx]
  | some i =>
    obtain ⟨hlt, hk, _⟩ := List.idxOf?_eq_some_iff.mp hidx
    have hlt' : i < v.length := by simpa using hlt
    have hvi : v[i]? = some v[i] := List.getElem?_eq_getElem hlt'
    have hkey : v[i].1 = t := by simpa using hk
    have vnd : v.Nodup := nodup_of_keys_nodup nd
    have hperm := swapRemove_append_perm v i v[i] hvi
    have nd' : ((swapRemove v i).map (·.1)).Nodup := by
      have : ((swapRemove v i ++ [v[i]]).map (·.1)).Nodup := (hperm.map (·.1)).nodup_iff.mpr nd
      rw [List.map_append] at this
      exact (List.nodup_append.mp this).1
    have hmem := mem_swapRemove_of_nodup v i v[i] vnd hvi
    apply Option.ext
    intro r
    show (swapRemove v i).lookup x = some r ↔ _
    rw [lookup_eq_some_iff_mem nd', hmem]
    by_cases hx : x = t
    · subst hx
      rw [if_pos rfl]
      constructor
      · rintro ⟨hin, hne⟩
        exfalso; apply hne
        have h1 := (lookup_eq_some_iff_mem nd _ r).mpr hin
        have h2 : v.lookup v[i].1 = some v[i].2 := lookup_of_getElem? nd hvi
        rw [← hkey] at h1; rw [h1] at h2; cases h2; rw [← hkey]
      · intro hc; cases hc
    · rw [if_neg hx, lookup_eq_some_iff_mem nd]
      constructor
      · exact fun hh => hh.1
      · intro hin
        refine ⟨hin, ?_⟩
        intro heq
        apply hx
        have := congrArg Prod.fst heq
        simp only at this
        rw [this, hkey]

theorem assoc_keys_modify (v : List (Ent × List α)) (d : Nat) (f : List α → List α) :
    (v.modify d (fun p => (p.1, f p.2))).map (·.1) = v.map (·.1) := by
  apply List.ext_getElem?
  intro i
  rw [List.getElem?_map, List.getElem?_map, List.getElem?_modify]
  cases v[i]? with
  | none => rfl
  | some p => by_cases hdi : d = i <;> simp [hdi]

theorem lookup_applyLbl_write {v : List (Ent × List α)} (nd : (v.map (·.1)).Nodup)
    (d c : Nat) (y : α) (x : Ent) :
    (applyLbl v (.write d c y)).lookup x
      = if v[d]?.map (·.1) = some x then (v.lookup x).map (·.set c y) else v.lookup x := by
  show (v.modify d (fun p => (p.1, p.2.set c y))).lookup x = _
  have nd' : ((v.modify d (fun p => (p.1, p.2.set c y))).map (·.1)).Nodup := by
    rw [assoc_keys_modify v d (·.set c y)]; exact nd
  by_cases hm : x ∈ v.map (·.1)
  · obtain ⟨p, hp, hpx⟩ := List.mem_map.mp hm
    obtain ⟨j, hj⟩ := List.getElem?_of_mem hp
    obtain ⟨k, r⟩ := p
    simp only at hpx; subst hpx
    have hlk := lookup_of_getElem? nd hj
    by_cases hdj : d = j
    · subst hdj
      have : (v.modify d (fun p => (p.1, p.2.set c y)))[d]? = some (k, r.set c y) := by
        rw [List.getElem?_modify, hj]; simp
      rw [lookup_of_getElem? nd' this, hj, hlk]; simp
    · have : (v.modify d (fun p => (p.1, p.2.set c y)))[j]? = some (k, r) := by
        rw [List.getElem?_modify, hj]; simp [hdj]
      rw [lookup_of_getElem? nd' this, hlk]
      have hcond : ¬ (v[d]?.map (·.1) = some k) := by
        intro hc
        cases hvd : v[d]? with
        | none => rw [hvd] at hc; cases hc
        | some q =>
          rw [hvd] at hc
          simp only [Option.map_some, Option.some.injEq] at hc
          have h1 : (v.map (·.1))[d]? = some k := by rw [List.getElem?_map, hvd]; simp [hc]
          have h2 : (v.map (·.1))[j]? = some k := by rw [List.getElem?_map, hj]; rfl
          have hd' := (List.getElem?_eq_some_iff.mp h1).1
          exact hdj ((List.getElem?_inj hd' nd).mp (h1.trans h2.symm))
      rw [if_neg hcond]
  · have hm' : x ∉ (v.modify d (fun p => (p.1, p.2.set c y))).map (·.1) := by
      rw [assoc_keys_modify v d (·.set c y)]; exact hm
    rw [lookup_of_not_mem hm', lookup_of_not_mem hm]
    split <;> rfl

theorem lookup_applyLbl_clone (v : List (Ent × List α)) (cl : α → α) (x : Ent) :
    (applyLbl v (.clone cl)).lookup x = (v.lookup x).map (·.map cl) := by
  show (v.map (fun p => (p.1, p.2.map cl))).lookup x = _
  induction v with
  | nil => rfl
  | cons p v ih =>
    obtain ⟨k, r⟩ := p
    simp only [List.map_cons, List.lookup_cons]
    cases x == k with
    | true => rfl
    | false => exact ih

theorem lookup_applyLbl_clear (v : List (Ent × List α)) (x : Ent) :
    (applyLbl v (.clear : Lbl α)).lookup x = v.lookup x := rfl

/-! ## Clone (C13) -/

/-- An outcome with its state component replaced. -/
def Out.withState {σ β : Type} (o : Out σ β) (s' : σ) : Out σ β :=
  match o with
  | .ok b _ => .ok b s'
  | .panic m _ => .panic m s'
  | .ub m => .ub m

/-- `resolve_entity` reads `len`, `capacity`, `slots` and the handle array only. -/
theorem resolveEntity_congr {cfg : Cfg} {s s' : Storage α} (hl : s'.len = s.len)
    (hc : s'.capacity = s.capacity) (hs : s'.slots = s.slots) (he : s'.ents = s.ents) (e : Ent) :
    resolveEntity cfg s' e = (resolveEntity cfg s e).withState s' := by
  unfold resolveEntity
  rw [hl, hc, hs, he]
  repeat' split
  all_goals rfl

/-- `resolve_direct` reads `len`, `version`, `capacity`, `slots` and the handle array only. -/
theorem resolveDirect_congr {cfg : Cfg} {s s' : Storage α} (hl : s'.len = s.len)
    (hv : s'.version = s.version)
    (hc : s'.capacity = s.capacity) (hs : s'.slots = s.slots) (he : s'.ents = s.ents)
    (d v : Nat) :
    resolveDirect cfg s' d v = (resolveDirect cfg s d v).withState s' := by
  unfold resolveDirect
  rw [hl, hc, hs, he, hv]
  repeat' split
  all_goals rfl

/-- C13: the clone has the same handles, slots, scalar fields and event logs as the source
(which is left unchanged), and row for row the cloned cells. -/
theorem clone_observations {cfg : Cfg} {s s' s₀ : Storage α} {cl : α → α} (h : Inv cfg s)
    (hc : cloneStorage cl s = .ok s' s₀) :
    s₀ = s ∧ s'.ents = s.ents ∧ s'.slots = s.slots ∧ s'.len = s.len
      ∧ s'.capacity = s.capacity ∧ s'.version = s.version ∧ s'.freeHead = s.freeHead
      ∧ s'.created = s.created ∧ s'.destroyed = s.destroyed
      ∧ (∀ d, rowAt s' d = (rowAt s d).map cl) := by
  rw [cloneStorage_spec h] at hc
  cases hc
  exact ⟨rfl, rfl, rfl, rfl, rfl, rfl, rfl, rfl, rfl, fun d => rowAt_clone s cl d⟩

/-- Every lookup on the clone behaves as on the source: handles and direct handles resolve
identically (same hit/miss/panic, same indices), and every read returns the cloned row. -/
theorem clone_lookups {cfg : Cfg} {s s' s₀ : Storage α} {cl : α → α} (h : Inv cfg s)
    (hc : cloneStorage cl s = .ok s' s₀) :
    Inv cfg s'
      ∧ (∀ e, resolveEntity cfg s' e = (resolveEntity cfg s e).withState s')
      ∧ (∀ d v, resolveDirect cfg s' d v = (resolveDirect cfg s d v).withState s')
      ∧ (∀ e, valueOf s' e = (valueOf s e).map (·.map cl))
      ∧ (∀ d, readRow s' d = (readRow s d).map (·.map cl)) := by
  obtain ⟨_, he, hs, hl, hcap, hv, _, _, _, hrow⟩ := clone_observations h hc
  have hinv : Inv cfg s' := by
    rw [cloneStorage_spec h] at hc; cases hc; exact cloneStorage_inv h
  refine ⟨hinv, resolveEntity_congr hl hcap hs he, resolveDirect_congr hl hv hcap hs he, ?_, ?_⟩
  · intro e
    unfold valueOf
    rw [he]
    cases s.ents.idxOf? e with
    | none => rfl
    | some d => simp only [Option.map_some]; rw [hrow]
  · intro d
    by_cases hd : d < s.len
    · rw [((readRow_spec h d).1 hd).1, ((readRow_spec hinv d).1 (hl ▸ hd)).1]
      exact congrArg some (hrow d)
    · rw [(readRow_spec h d).2 (by omega), (readRow_spec hinv d).2 (by rw [hl]; omega)]; rfl

/-- Whatever observation of a value `Clone::clone` preserves (`obs (cl x) = obs x`: "the clone
of `x` is equal to `x`"), every entity of the clone shows the same observations as in the
source. -/
theorem clone_values_obs {cfg : Cfg} {s s' s₀ : Storage α} {cl : α → α} {β : Type}
    (obs : α → β) (hobs : ∀ x, obs (cl x) = obs x) (h : Inv cfg s)
    (hc : cloneStorage cl s = .ok s' s₀) (e : Ent) :
    (valueOf s' e).map (·.map obs) = (valueOf s e).map (·.map obs) := by
  rw [(clone_lookups h hc).2.2.2.1 e]
  cases valueOf s e with
  | none => rfl
  | some r =>
    simp only [Option.map_some, List.map_map]
    congr 1
    apply List.map_congr_left
    intro x _; exact hobs x

/-- With a `clone` that returns its argument the clone is the source. -/
theorem clone_id {cfg : Cfg} {s s' s₀ : Storage α} {cl : α → α} (hid : ∀ x, cl x = x)
    (h : Inv cfg s) (hc : cloneStorage cl s = .ok s' s₀) : s' = s := by
  rw [cloneStorage_spec h] at hc
  cases hc
  have : cl = id := funext hid
  subst this
  simp

/-- The clone satisfies the invariant, so it can be refilled up to the (copied) capacity
exactly like the source (`refill`). -/
theorem clone_refill {cfg : Cfg} {s s' s₀ : Storage α} {cl : α → α} (h : Inv cfg s)
    (hc : cloneStorage cl s = .ok s' s₀) (rws : List (List α))
    (hk : rws.length ≤ s.capacity - s.len) :
    ∃ es s'', pushWithinN cfg s' rws = .ok (es.map some) s'' ∧ es.length = rws.length
      ∧ Inv cfg s'' ∧ s''.len = s.len + rws.length ∧ s''.capacity = s.capacity
      ∧ s''.ents = s.ents ++ es ∧ s''.version = s.version := by
  obtain ⟨_, he, _, hl, hcap, hv, _⟩ := clone_observations h hc
  obtain ⟨es, s'', h1, h2, h3, h4, h5, h6, h7⟩ :=
    refill cfg s' rws (clone_lookups h hc).1 (by rw [hcap, hl]; exact hk)
  exact ⟨es, s'', h1, h2, h3, by rw [h4, hl], by rw [h5, hcap], by rw [h6, he], by rw [h7, hv]⟩

/-! ## Non-vacuity: a labelled path on the 2-column storage `holeEx`

`holeEx` has handles `⟨0,1⟩ ↦ [10,20]`, `⟨2,1⟩ ↦ [12,22]` and one free slot.  The path creates
`⟨1,2⟩ ↦ [13,23]`, writes 77 into its second component, destroys `⟨0,1⟩` (which relocates
`⟨1,2⟩` from dense index 2 to 0) and clears the event logs. -/
namespace StorageEx

def pathEx1 : Storage Nat :=
  ⟨2, 3, 3, .freeEnd, [⟨.data 0, 1⟩, ⟨.data 2, 2⟩, ⟨.data 1, 1⟩], [⟨0, 1⟩, ⟨2, 1⟩, ⟨1, 2⟩],
    [[10, 12, 13], [20, 22, 23]], [⟨1, 2⟩], []⟩

def pathEx3 : Storage Nat :=
  ⟨3, 2, 3, .free 0, [⟨.freeEnd, 2⟩, ⟨.data 0, 2⟩, ⟨.data 1, 1⟩], [⟨1, 2⟩, ⟨2, 1⟩],
    [[13, 12], [77, 22]], [⟨1, 2⟩], [⟨0, 1⟩]⟩

def pathExL : List (Lbl Nat) :=
  [.created ⟨1, 2⟩ [13, 23], .write 2 1 77, .destroyed ⟨0, 1⟩ [10, 20], .clear]

theorem pathEx_step1 : LStep cfgEx holeEx (.created ⟨1, 2⟩ [13, 23]) pathEx1 :=
  .pushWithin _ _ _ _ rfl

theorem pathEx_step2 : LStep cfgEx pathEx1 (.write 2 1 77) (writeCell pathEx1 2 1 77) :=
  .write _ _ _ _

theorem pathEx_step3 :
    LStep cfgEx (writeCell pathEx1 2 1 77) (.destroyed ⟨0, 1⟩ [10, 20]) pathEx3 :=
  .destroyEnt _ _ _ _ rfl

theorem pathEx_step4 : LStep cfgEx pathEx3 .clear (clearEvents pathEx3) := .clear _

theorem pathEx_reach : LReach cfgEx holeEx pathExL (clearEvents pathEx3) := by
  have i1 := lstep_inv holeEx_inv pathEx_step1
  have i2 := lstep_inv i1 pathEx_step2
  have i3 := lstep_inv i2 pathEx_step3
  exact .step (.step (.step (.step (.refl _) holeEx_inv pathEx_step1) i1 pathEx_step2)
    i2 pathEx_step3) i3 pathEx_step4

theorem pathEx_rowsOk : RowsOk holeEx.cols.length pathExL := by
  intro e row hm
  simp only [pathExL, List.mem_cons, List.not_mem_nil, or_false] at hm
  rcases hm with hm | hm | hm | hm
  · cases hm; rfl
  · cases hm
  · cases hm
  · cases hm

-- the frame rule on the first step: the new entity has its row, the old ones keep theirs
example : valueOf pathEx1 ⟨1, 2⟩ = some [13, 23] ∧ valueOf pathEx1 ⟨2, 1⟩ = valueOf holeEx ⟨2, 1⟩ :=
  let h := created_values holeEx_inv rfl pathEx_step1
  ⟨h.1, h.2.2.1 _ (by decide)⟩

-- the removal hands back the removed entity's own row
example : valueOf (writeCell pathEx1 2 1 77) ⟨0, 1⟩ = some [10, 20] :=
  (destroyed_values (lstep_inv (lstep_inv holeEx_inv pathEx_step1) pathEx_step2) pathEx_step3).1

-- the whole path, through the refinement theorem: the relocated entity `⟨1,2⟩` carries the
-- written value, `⟨2,1⟩` is untouched, `⟨0,1⟩` is gone
example : valueOf (clearEvents pathEx3) ⟨1, 2⟩ = some [13, 77]
    ∧ valueOf (clearEvents pathEx3) ⟨2, 1⟩ = some [12, 22]
    ∧ valueOf (clearEvents pathEx3) ⟨0, 1⟩ = none := by
  have h := lreach_values holeEx_inv pathEx_rowsOk pathEx_reach
  exact ⟨by rw [h]; decide, by rw [h]; decide, by rw [h]; decide⟩

example : view holeEx = [(⟨0, 1⟩, [10, 20]), (⟨2, 1⟩, [12, 22])] := by decide

example : pathExL.foldl applyLbl (view holeEx) = [(⟨1, 2⟩, [13, 77]), (⟨2, 1⟩, [12, 22])] := by
  decide

-- Why creations need `row.length = s.cols.length` (`RowsOk`): the model's `zipWith` truncates
-- the column list to the width of the row, so a short row (which the Rust types rule out)
-- would cut every other entity's row.  Without the hypothesis the frame rule is false:
example : ∃ s', LStep cfgEx holeEx (.created ⟨1, 2⟩ [13]) s'
    ∧ valueOf holeEx ⟨0, 1⟩ = some [10, 20] ∧ valueOf s' ⟨0, 1⟩ = some [10] :=
  ⟨{ pathEx1 with cols := [[10, 12, 13]] }, .pushWithin _ _ _ _ rfl, by decide, by decide⟩

example : readRow holeEx 1 = valueOf holeEx ⟨2, 1⟩ := readRow_eq_valueOf holeEx_inv (d := 1) rfl

-- clone with `(· + 1)`: same handles and indices, every cell cloned
example : ∃ s', cloneStorage (· + 1) holeEx = .ok s' holeEx
    ∧ valueOf s' ⟨2, 1⟩ = some [13, 23]
    ∧ resolveEntity cfgEx s' ⟨2, 1⟩ = .ok (some (2, 1)) s' := by
  refine ⟨_, cloneStorage_spec holeEx_inv, ?_, ?_⟩
  · rw [(clone_lookups holeEx_inv (cloneStorage_spec holeEx_inv)).2.2.2.1]; decide
  · rw [(clone_lookups holeEx_inv (cloneStorage_spec holeEx_inv)).2.1,
      resolveEntity_of_mem holeEx_inv (d := 1) rfl]; rfl

example : ∃ (es : List Ent) (s'' : Storage Nat), pushWithinN cfgEx { holeEx with cols := holeEx.cols.map (·.map (· + 1)) }
    [[1, 2]] = .ok (es.map some) s'' ∧ es.length = 1 ∧ Inv cfgEx s'' := by
  obtain ⟨es, s'', h1, h2, h3, _⟩ :=
    clone_refill (cl := (· + 1)) holeEx_inv (cloneStorage_spec holeEx_inv) [[1, 2]] (by decide)
  exact ⟨es, s'', h1, h2, h3⟩

end StorageEx
end Gecs

section
open Gecs
#print axioms readRow_eq_valueOf
#print axioms resolveEntity_reads_valueOf
#print axioms resolveDirect_reads_valueOf
#print axioms lstep_created
#print axioms lstep_destroyed
#print axioms lstep_inv
#print axioms lockstep
#print axioms created_values
#print axioms destroyed_values
#print axioms write_values
#print axioms clear_values
#print axioms clone_values
#print axioms view_keys
#print axioms view_step
#print axioms cols_length_preserved
#print axioms lreach_view
#print axioms valueOf_eq_lookup
#print axioms lreach_values
#print axioms lreach_read
#print axioms comp_cell_eq_valueOf
#print axioms lookup_applyLbl_created
#print axioms lookup_applyLbl_destroyed
#print axioms lookup_applyLbl_write
#print axioms lookup_applyLbl_clone
#print axioms clone_observations
#print axioms clone_lookups
#print axioms clone_values_obs
#print axioms clone_id
#print axioms clone_refill
end
