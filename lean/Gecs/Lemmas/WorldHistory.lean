/-
Helpers for the world-history property files C01, C03, C08, C09.

* histories: the world after `run` is `WRel`-related to the initial world, hence every
  archetype's storage is `SReach`-related to its initial storage (`run_wrel`, `run_reach`);
* storage paths: a handle that was stored and has left the dense array stays out
  (`sreach_dead_stays_dead`), and a path that loses a handle strictly increases the archetype
  version (`sreach_lost_version_lt`);
* routing: where the four uses of a key (typed / dynamic, archetype level / world level) are
  routed to, in both directions (`route_*`);
* positive lookup lemmas at world level (`contains_*`, `toDirect_*`, `fetch_*`, `destroy_*`);
* operations that do not remove from an archetype keep its version (`run_keeps_version`).
-/
import Gecs.Lemmas.QueryOps
import Gecs.Lemmas.HistoryLemmas
import Gecs.Lemmas.Bits

namespace Gecs
variable {α : Type}

/-! ## Histories -/

/-- The world after a well-formed history is a legitimate successor of the initial world. -/
theorem run_wrel {cfg : Cfg} {w w' : World α} {ops : List (Op α)} (hw : WInv cfg w)
    (hc : CfgOk cfg) (ho : OpsOk cfg ops) (hs : OpsScoped w.sch ops)
    (hr : run cfg w ops = some w') : WRel cfg w w' := by
  obtain ⟨w'', h1, h2⟩ := run_rel hc ops w hw ho hs
  rw [hr] at h1; cases h1; exact h2

/-- Along a well-formed history every archetype's storage changes by atomic steps only. -/
theorem run_reach {cfg : Cfg} {w w' : World α} {ops : List (Op α)} (hw : WInv cfg w)
    (hc : CfgOk cfg) (ho : OpsOk cfg ops) (hs : OpsScoped w.sch ops)
    (hr : run cfg w ops = some w') {a : Nat} {s s' : Storage α}
    (g : w.archs[a]? = some s) (g' : w'.archs[a]? = some s') : SReach cfg s s' :=
  (run_wrel hw hc ho hs hr).reach a s s' g g'

/-- The archetypes of a world stay where they are along `WRel`. -/
theorem WRel.get {cfg : Cfg} {w w' : World α} (h : WRel cfg w w') {a : Nat} {s : Storage α}
    (g : w.archs[a]? = some s) : ∃ s', w'.archs[a]? = some s' ∧ SReach cfg s s' := by
  have hlt : a < w'.archs.length := by rw [h.len]; exact (List.getElem?_eq_some_iff.mp g).1
  exact ⟨w'.archs[a], List.getElem?_eq_getElem hlt, h.reach a s _ g (List.getElem?_eq_getElem hlt)⟩

/-- A history in two halves: the intermediate and the final world, with the relations between
them, from the hypotheses on the whole history. -/
theorem run_split {cfg : Cfg} {w₀ w₁ w₂ : World α} {ops₁ ops₂ : List (Op α)}
    (hw : WInv cfg w₀) (hc : CfgOk cfg) (ho : OpsOk cfg (ops₁ ++ ops₂))
    (hs : OpsScoped w₀.sch (ops₁ ++ ops₂))
    (h₁ : run cfg w₀ ops₁ = some w₁) (h₂ : run cfg w₁ ops₂ = some w₂) :
    WRel cfg w₀ w₁ ∧ WRel cfg w₁ w₂ ∧ run cfg w₀ (ops₁ ++ ops₂) = some w₂ := by
  obtain ⟨v₁, v₂, g₁, g₂, g₃, r₁, r₂⟩ := run_prefix hw hc ho hs
  rw [h₁] at g₁; cases g₁
  rw [h₂] at g₂; cases g₂
  exact ⟨r₁, r₂, g₃⟩

/-- One operation as a history. -/
theorem run_single_ok {cfg : Cfg} {w w' : World α} {op : Op α} (h : stepOp cfg w op = .ok w') :
    run cfg w [op] = some w' := by
  simp [run, h]

theorem run_single_panic {cfg : Cfg} {w w' : World α} {op : Op α} {m : String}
    (h : stepOp cfg w op = .panic m w') : run cfg w [op] = some w' := by
  simp [run, h]

/-! ## Storage paths -/

/-- Three-point form of `no_resurrection`, ghost-free: a handle that was stored at `s₀` and is
not stored at a later `s₁` is not stored at any `s₂` later still (non-wrapping). -/
theorem sreach_dead_stays_dead {cfg : Cfg} (hw : cfg.wrapping = false) {s₀ s₁ s₂ : Storage α}
    (h : Inv cfg s₀) (r₁ : SReach cfg s₀ s₁) (r₂ : SReach cfg s₁ s₂) {e : Ent}
    (he₀ : e ∈ s₀.ents) (he₁ : e ∉ s₁.ents) : e ∉ s₂.ents := by
  obtain ⟨seen₁, h₁, hsub, _⟩ := sreach_hinv_strong hw (HInv.of_inv h) r₁
  exact no_resurrection hw h₁ r₂ e (hsub e he₀) he₁

/-- A version mismatch is answered `None` by the validating `resolve_direct`. -/
theorem resolveDirect_of_ver_ne (cfg : Cfg) (s : Storage α) (d : Nat) {v : Nat}
    (hne : v ≠ s.version) : resolveDirect cfg s d v = .ok none s := by
  unfold resolveDirect
  split
  · rfl
  · first | rfl | rw [if_pos hne]

/-- A path along which some stored handle disappears contains a removal, hence strictly
increases the archetype version (non-wrapping). -/
theorem sreach_lost_version_lt {cfg : Cfg} (hw : cfg.wrapping = false) {s s' : Storage α}
    (_h : Inv cfg s) (hr : SReach cfg s s') (hl : ∃ t ∈ s.ents, t ∉ s'.ents) :
    s.version < s'.version := by
  induction hr with
  | refl => obtain ⟨t, h1, h2⟩ := hl; exact absurd h1 h2
  | @step s₁ s₂ r hi hs ih =>
    obtain ⟨t, ht, hn⟩ := hl
    have hle := (sstep_later hw hi hs).ver_le
    by_cases hm : t ∈ s₁.ents
    · have hle0 := (sreach_later hw r).ver_le
      rcases hs.classify hi with ⟨q, _⟩ | ⟨e, hc⟩ | ⟨t', hrm⟩
      · rw [q.ents] at hn; exact absurd hm hn
      · have f := screate_facts hi hc
        rw [f.ents] at hn
        exact absurd (List.mem_append_left _ hm) hn
      · have := sstep_version_strict hw hi hrm
        omega
    · have := ih ⟨t, ht, hm⟩
      omega

/-! ## Routing -/

theorem getD_of_getElem? {ids : List Nat} {a id : Nat} (h : ids[a]? = some id) :
    ids.getD a ID_RANGE = id := by
  simp [List.getD_eq_getElem?_getD, h]

/-- `ids.getD a ID_RANGE` is a declared id exactly when it is below `ID_RANGE`. -/
theorem getElem?_of_getD_lt {ids : List Nat} {a id : Nat} (h : ids.getD a ID_RANGE = id)
    (hlt : id < ID_RANGE) : ids[a]? = some id := by
  rw [List.getD_eq_getElem?_getD] at h
  cases hg : ids[a]? with
  | none => rw [hg] at h; simp at h; omega
  | some x => rw [hg] at h; simp at h; rw [h]

theorem WInv.ids_get {cfg : Cfg} {w : World α} (hw : WInv cfg w) {a : Nat} {s : Storage α}
    (g : w.archs[a]? = some s) : ∃ id, w.ids[a]? = some id ∧ id < ID_RANGE := by
  have hlt : a < w.ids.length := by rw [hw.idsLen]; exact (List.getElem?_eq_some_iff.mp g).1
  exact ⟨w.ids[a], List.getElem?_eq_getElem hlt, hw.idsLt _ (List.getElem_mem hlt)⟩

theorem WInv.id_lt {cfg : Cfg} {w : World α} (hw : WInv cfg w) {a id : Nat}
    (h : w.ids[a]? = some id) : id < ID_RANGE :=
  hw.idsLt id (List.mem_of_getElem? h)

/-- Distinct archetypes have distinct ids. -/
theorem WInv.ids_ne {cfg : Cfg} {w : World α} (hw : WInv cfg w) {a b ia ib : Nat} (hab : a ≠ b)
    (ha : w.ids[a]? = some ia) (hb : w.ids[b]? = some ib) : ia ≠ ib := by
  intro heq
  subst heq
  have hlt := (List.getElem?_eq_some_iff.mp ha).1
  have := (List.getElem?_inj hlt hw.idsNodup).1 (ha.trans hb.symm)
  exact hab this

/-- A typed use goes to its static archetype with the words it carries — unless a debug build
asserts on a mismatching id. -/
theorem route_typed {cfg : Cfg} {ids : List Nat} {u : KeyUse} (ht : u.typed = true)
    (hd : cfg.debug = true → u.h.key.archId = ids.getD (u.at_.getD u.h.a) ID_RANGE) :
    u.route cfg ids = .arch (u.at_.getD u.h.a) u.h.key := by
  have hnd : ¬ (cfg.debug = true ∧ u.h.key.archId ≠ ids.getD (u.at_.getD u.h.a) ID_RANGE) :=
    fun ⟨h1, h2⟩ => h2 (hd h1)
  unfold KeyUse.route
  simp only [ht, if_true]
  rw [if_neg hnd]
  cases hwl : u.worldLevel
  · simp only [Bool.false_eq_true, if_false, routeArch, kindOf_isTyped, if_true]
  · simp only [if_true, routeWorld, kindOf_isTyped]

/-- Where a typed use is routed to when it is routed to an archetype. -/
theorem route_typed_arch {cfg : Cfg} {ids : List Nat} {u : KeyUse} {a : Nat} {k : Key}
    (ht : u.typed = true) (h : u.route cfg ids = .arch a k) :
    a = u.at_.getD u.h.a ∧ k = u.h.key
      ∧ (cfg.debug = true → u.h.key.archId = ids.getD a ID_RANGE) := by
  by_cases hnd : cfg.debug = true ∧ u.h.key.archId ≠ ids.getD (u.at_.getD u.h.a) ID_RANGE
  · unfold KeyUse.route at h
    simp only [ht, if_true] at h
    rw [if_pos hnd] at h
    cases h
  · have hd : cfg.debug = true → u.h.key.archId = ids.getD (u.at_.getD u.h.a) ID_RANGE := by
      intro h1; exact Decidable.by_contra (fun h2 => hnd ⟨h1, h2⟩)
    rw [route_typed ht hd] at h
    cases h
    exact ⟨rfl, rfl, hd⟩

/-- A dynamic use at world level: the generated `match` on the id byte (the
`from_any_unchecked` in the selected arm never fires: the arm was selected by that id). -/
theorem route_dynamic_world {cfg : Cfg} {ids : List Nat} {u : KeyUse}
    (ht : u.typed = false) (hwl : u.worldLevel = true) :
    u.route cfg ids =
      match selectArch ids u.h.key.archId with
      | none => .panic "invalid entity type"
      | some a => .arch a u.h.key := by
  unfold KeyUse.route
  simp only [ht, hwl, Bool.false_eq_true, if_false, if_true, routeWorld, kindOf_isTyped]
  cases hsel : selectArch ids u.h.key.archId with
  | none => rfl
  | some a =>
    have hid : ids.getD a ID_RANGE = u.h.key.archId := getD_of_getElem? (selectArch_some hsel)
    simp only []
    rw [fromAnyUnchecked_of_eq cfg hid.symm]

/-- A dynamic use at archetype level: `try_from`. -/
theorem route_dynamic_arch {cfg : Cfg} {ids : List Nat} {u : KeyUse}
    (ht : u.typed = false) (hwl : u.worldLevel = false) :
    u.route cfg ids =
      if u.h.key.archId = ids.getD (u.at_.getD u.h.a) ID_RANGE
      then .arch (u.at_.getD u.h.a) u.h.key else .absent := by
  unfold KeyUse.route
  simp only [ht, hwl, Bool.false_eq_true, if_false, routeArch, kindOf_isTyped, tryFromAny]
  by_cases hc : u.h.key.archId = ids.getD (u.at_.getD u.h.a) ID_RANGE
  · rw [if_pos hc, if_pos hc]
  · rw [if_neg hc, if_neg hc]

/-- A dynamic use is only ever routed to the archetype whose declared id is the key's id
byte, with the words it carries. -/
theorem route_dynamic_to {cfg : Cfg} {ids : List Nat} {u : KeyUse} {a : Nat} {k : Key}
    (ht : u.typed = false) (h : u.route cfg ids = .arch a k) :
    k = u.h.key ∧ ids[a]? = some u.h.key.archId := by
  cases hwl : u.worldLevel
  · rw [route_dynamic_arch ht hwl] at h
    split at h
    · rename_i heq
      cases h
      exact ⟨rfl, getElem?_of_getD_lt heq.symm (Key.archId_lt_range _)⟩
    · cases h
  · rw [route_dynamic_world ht hwl] at h
    cases hsel : selectArch ids u.h.key.archId with
    | none => rw [hsel] at h; cases h
    | some a' =>
      rw [hsel] at h
      cases h
      exact ⟨rfl, selectArch_some hsel⟩

/-- Whatever a use is routed to carries the key's own words. -/
theorem route_key {cfg : Cfg} {ids : List Nat} {u : KeyUse} {a : Nat} {k : Key}
    (h : u.route cfg ids = .arch a k) : k = u.h.key := by
  cases ht : u.typed
  · exact (route_dynamic_to ht h).1
  · exact (route_typed_arch ht h).2.1

/-- A dynamic key whose id byte is not declared: clean panic at world level, `None` at
archetype level. -/
theorem route_unknown_id {cfg : Cfg} {ids : List Nat} {u : KeyUse} (ht : u.typed = false)
    (hid : u.h.key.archId ∉ ids) :
    u.route cfg ids = if u.worldLevel then .panic "invalid entity type" else .absent := by
  cases hwl : u.worldLevel
  · rw [route_dynamic_arch ht hwl]
    have : ¬ u.h.key.archId = ids.getD (u.at_.getD u.h.a) ID_RANGE := by
      intro heq
      exact hid (List.mem_of_getElem? (getElem?_of_getD_lt heq.symm (Key.archId_lt_range _)))
    rw [if_neg this]; rfl
  · have hsel := (selectArch_none_iff ids u.h.key.archId).mpr hid
    rw [route_dynamic_world ht hwl, hsel]; rfl

/-- All four uses of the handle `mkKey i id v` of archetype `a` (`ids[a] = id`) — typed or
dynamic, at archetype level (on `a`) or at world level, debug or release build — are routed
to archetype `a` with exactly these words. -/
theorem route_own_handle {cfg : Cfg} {ids : List Nat} (hn : ids.Nodup) {a id : Nat}
    (hid : ids[a]? = some id) (hlt : id < ID_RANGE) (i v : Nat) (kind : KeyKind)
    (worldLevel typed : Bool) (at_ : Option Nat) (hat : at_ = none ∨ at_ = some a) :
    KeyUse.route cfg ids ⟨worldLevel, typed, ⟨kind, a, mkKey i id v⟩, at_⟩
      = .arch a (mkKey i id v) := by
  have hb : at_.getD a = a := by rcases hat with rfl | rfl <;> rfl
  have harch : (mkKey i id v).archId = id := Key.archId_mkKey v hlt
  have hgd := getD_of_getElem? hid
  cases typed
  · cases worldLevel
    · have h := route_dynamic_arch (cfg := cfg) (ids := ids)
        (u := ⟨false, false, ⟨kind, a, mkKey i id v⟩, at_⟩) rfl rfl
      rw [h]; simp only [hb, harch, hgd, if_true]
    · have hsel : selectArch ids (mkKey i id v).archId = some a := by
        rw [harch]; exact (selectArch_spec hn id a).mpr hid
      have h := route_dynamic_world (cfg := cfg) (ids := ids)
        (u := ⟨true, false, ⟨kind, a, mkKey i id v⟩, at_⟩) rfl rfl
      rw [h]; simp only [hsel]
  · have h := route_typed (cfg := cfg) (ids := ids)
      (u := ⟨worldLevel, true, ⟨kind, a, mkKey i id v⟩, at_⟩) rfl
      (by intro _; simp only [hb, harch, hgd])
    rw [h]; simp only [hb]

/-- A dynamic key of archetype `a` used at archetype level on another archetype `b`: `None`. -/
theorem route_foreign_absent {cfg : Cfg} {ids : List Nat} (hn : ids.Nodup) {a b id : Nat}
    (hid : ids[a]? = some id) (hlt : id < ID_RANGE) (hab : b ≠ a) (i v : Nat) (kind : KeyKind)
    (a' : Nat) :
    KeyUse.route cfg ids ⟨false, false, ⟨kind, a', mkKey i id v⟩, some b⟩ = .absent := by
  have harch : (mkKey i id v).archId = id := Key.archId_mkKey v hlt
  have h := route_dynamic_arch (cfg := cfg) (ids := ids)
    (u := ⟨false, false, ⟨kind, a', mkKey i id v⟩, some b⟩) rfl rfl
  rw [h]
  have : ¬ (mkKey i id v).archId = ids.getD ((some b).getD a') ID_RANGE := by
    rw [harch]
    intro heq
    have hb : ids[b]? = some id := getElem?_of_getD_lt heq.symm hlt
    have hblt := (List.getElem?_eq_some_iff.mp hb).1
    exact hab ((List.getElem?_inj hblt hn).1 (hb.trans hid.symm))
  simp only [this, if_false]

/-! ## Positive lookup lemmas at world level -/

/-- `to_direct` by an `Entity` key that is stored at dense index `d`. -/
theorem toDirect_ent_of_alive {cfg : Cfg} {w : World α} (hw : WInv cfg w) {a d : Nat} {k : Key}
    {s : Storage α} (g : w.archs[a]? = some s) (hd : s.ents[d]? = some k.toEnt) :
    w.toDirect cfg (.arch a k) false
      = .ok (some (mkKey d (w.ids.getD a ID_RANGE) s.version)) w := by
  simp only [World.toDirect, lookup_arch]
  refine liftArch_ok_same g ?_
  simp [storageToDirect, toDirectEnt_of_mem (hw.get g) hd]

theorem mkKey_toEnt {id : Nat} (hlt : id < ID_RANGE) (e : Ent) :
    (mkKey e.slot id e.ver).toEnt = e := by
  show (⟨(mkKey e.slot id e.ver).index, (mkKey e.slot id e.ver).ver⟩ : Ent) = e
  rw [Key.index_mkKey e.ver hlt, Key.ver_mkKey]

/-- `to_direct` of the handle of the entity stored at dense index `d` of archetype `a`
(declared id `id`) mints `(d, id, archetype version)`. -/
theorem toDirect_own_handle {cfg : Cfg} {w : World α} (hw : WInv cfg w) {a d id : Nat}
    {s : Storage α} {e : Ent} (g : w.archs[a]? = some s) (hid : w.ids[a]? = some id)
    (he : s.ents[d]? = some e) :
    w.toDirect cfg (.arch a (mkKey e.slot id e.ver)) false
      = .ok (some (mkKey d id s.version)) w := by
  rw [toDirect_ent_of_alive hw g (by rw [mkKey_toEnt (hw.id_lt hid)]; exact he),
    getD_of_getElem? hid]

/-- `view`/`borrow`/`find` by an `Entity` key that is stored at dense index `d`. -/
theorem fetch_ent_of_alive {cfg : Cfg} {w : World α} (hw : WInv cfg w) {a d : Nat} {k : Key}
    {s : Storage α} (g : w.archs[a]? = some s) (hd : s.ents[d]? = some k.toEnt) :
    ∃ row, readRow s d = some row
      ∧ w.fetch cfg (.arch a k) false = .ok (some (d, k.toEnt, row)) w := by
  have hi := hw.get g
  have hrow := ((readRow_spec hi d).1 (hi.ents_lt hd)).1
  refine ⟨_, hrow, ?_⟩
  simp only [World.fetch, lookup_arch]
  refine liftArch_ok_same g ?_
  have hres : storageResolve cfg s false k = .ok (some d) s :=
    (storageResolve_ent_iff hi k d).mpr hd
  simp [storageFetch, hres, hd, hrow]

/-- `to_direct` by a direct key that is currently valid returns the key. -/
theorem toDirect_dir_of_valid {cfg : Cfg} {w : World α} (hw : WInv cfg w) {a : Nat} {k : Key}
    {s : Storage α} (g : w.archs[a]? = some s) (hv : k.ver = s.version) (hd : k.index < s.len) :
    w.toDirect cfg (.arch a k) true = .ok (some k) w := by
  simp only [World.toDirect, lookup_arch]
  refine liftArch_ok_same g ?_
  simp [storageToDirect, hv, toDirectDirect_of_lt (hw.get g) hd]

/-- `view`/`borrow`/`find` by a direct key that is currently valid hands out the entity stored
at its index. -/
theorem fetch_dir_of_valid {cfg : Cfg} {w : World α} (hw : WInv cfg w) {a : Nat} {k : Key}
    {s : Storage α} {e : Ent} (g : w.archs[a]? = some s) (hv : k.ver = s.version)
    (hd : s.ents[k.index]? = some e) :
    ∃ row, readRow s k.index = some row
      ∧ w.fetch cfg (.arch a k) true = .ok (some (k.index, e, row)) w := by
  have hi := hw.get g
  have hlt := hi.ents_lt hd
  have hrow := ((readRow_spec hi k.index).1 hlt).1
  refine ⟨_, hrow, ?_⟩
  simp only [World.fetch, lookup_arch]
  refine liftArch_ok_same g ?_
  have hres : storageResolve cfg s true k = .ok (some k.index) s :=
    (storageResolve_dir_iff hi k k.index).mpr ⟨rfl, hv, hlt⟩
  simp [storageFetch, hres, hd, hrow]

/-- Every lookup by a direct key whose version is not the archetype's current version is
answered `None` (no panic, no `ub`, same world). -/
theorem direct_stale_none {cfg : Cfg} {w : World α} {a : Nat} {k : Key} {s : Storage α}
    (g : w.archs[a]? = some s) (hne : k.ver ≠ s.version) :
    w.contains cfg (.arch a k) true = .ok none w
    ∧ w.toDirect cfg (.arch a k) true = .ok none w
    ∧ w.fetch cfg (.arch a k) true = .ok none w := by
  have hr := resolveDirect_of_ver_ne cfg s k.index hne
  have h1 : storageResolve cfg s true k = .ok none s := by
    simp [storageResolve, resolveForDirect, hr]
  refine ⟨?_, ?_, ?_⟩
  · simp only [World.contains, lookup_arch]
    exact liftArch_ok_same g h1
  · simp only [World.toDirect, lookup_arch]
    refine liftArch_ok_same g ?_
    simp [storageToDirect, toDirectDirect, hr]
  · simp only [World.fetch, lookup_arch]
    refine liftArch_ok_same g ?_
    simp [storageFetch, h1]

/-- A successful `World::destroy` through `.arch a k` by an `Entity` key, decomposed. -/
theorem destroy_ent_ok {cfg : Cfg} {w w' : World α} (hw : WInv cfg w) {a : Nat} {k : Key}
    {row : List α} (h : w.destroy cfg (.arch a k) false = .ok (some row) w') :
    ∃ s s' d, w.archs[a]? = some s ∧ destroyEnt cfg s k.toEnt = .ok (some row) s'
      ∧ w' = w.setArch a s' ∧ w'.archs[a]? = some s'
      ∧ s.ents[d]? = some k.toEnt ∧ readRow s d = some row := by
  simp only [World.destroy, lookup_arch] at h
  cases g : w.archs[a]? with
  | none => rw [liftArch_none _ g] at h; cases h
  | some s =>
    have hi := hw.get g
    rw [liftArch_some _ g] at h
    simp only [storageDestroy, Bool.false_eq_true, if_false] at h
    cases hde : destroyEnt cfg s k.toEnt with
    | ub m => rw [hde] at h; cases h
    | panic m s' => rw [hde] at h; cases h
    | ok b s' =>
      rw [hde] at h
      simp only [WOut.ok.injEq] at h
      obtain ⟨rfl, rfl⟩ := h
      obtain ⟨hm, _, _⟩ := destroyEnt_removed hi hde
      obtain ⟨d, hd⟩ := List.getElem?_of_mem hm
      have hrow : readRow s d = some row := by
        rw [destroyEnt_of_mem hi hd] at hde
        rcases forceDestroy_live cfg s d k.toEnt hi hd with
          ⟨row', s'', sv, av, hok, _, _, _, hr, _⟩ | ⟨hp, _⟩ | ⟨hp, _⟩
        · rw [hok] at hde
          simp only [Out.ok.injEq, Option.some.injEq] at hde
          obtain ⟨rfl, _⟩ := hde
          rw [hr]; exact ((readRow_spec hi d).1 (hi.ents_lt hd)).1
        · rw [hp] at hde; cases hde
        · rw [hp] at hde; cases hde
      exact ⟨s, s', d, rfl, hde, rfl, World.setArch_get_self s' (hw.lt_of_get g), hd, hrow⟩

/-- The handle returned by a successful `World::create`, at storage level. -/
theorem create_ok {cfg : Cfg} {w w' : World α} {g : Nat → Nat} {a : Nat} {row : List α} {e : Ent}
    (h : w.create cfg g a row = .ok e w') :
    ∃ s s', w.archs[a]? = some s ∧ push cfg g s row = .ok e s' ∧ w' = w.setArch a s'
      ∧ w'.archs[a]? = some s' := by
  simp only [World.create] at h
  cases ga : w.archs[a]? with
  | none => rw [liftArch_none _ ga] at h; cases h
  | some s =>
    rw [liftArch_some _ ga] at h
    cases hp : push cfg g s row with
    | ub m => rw [hp] at h; cases h
    | panic m s' => rw [hp] at h; cases h
    | ok b s' =>
      rw [hp] at h
      simp only [WOut.ok.injEq] at h
      obtain ⟨rfl, rfl⟩ := h
      exact ⟨s, s', rfl, hp, rfl,
        World.setArch_get_self s' (List.getElem?_eq_some_iff.mp ga).1⟩

theorem createWithin_ok {cfg : Cfg} {w w' : World α} {a : Nat} {row : List α} {e : Ent}
    (h : w.createWithin cfg a row = .ok (some e) w') :
    ∃ s s', w.archs[a]? = some s ∧ pushWithin cfg s row = .ok (some e) s'
      ∧ w' = w.setArch a s' ∧ w'.archs[a]? = some s' := by
  simp only [World.createWithin] at h
  cases ga : w.archs[a]? with
  | none => rw [liftArch_none _ ga] at h; cases h
  | some s =>
    rw [liftArch_some _ ga] at h
    cases hp : pushWithin cfg s row with
    | ub m => rw [hp] at h; cases h
    | panic m s' => rw [hp] at h; cases h
    | ok b s' =>
      rw [hp] at h
      simp only [WOut.ok.injEq] at h
      obtain ⟨rfl, rfl⟩ := h
      exact ⟨s, s', rfl, hp, rfl,
        World.setArch_get_self s' (List.getElem?_eq_some_iff.mp ga).1⟩

/-! ## Operations that do not remove from one archetype keep its version -/

/-- Archetype `a`'s version is the same in `w'` as in `w`. -/
def VerKept (a : Nat) (w w' : World α) : Prop :=
  ∀ (s s' : Storage α), w.archs[a]? = some s → w'.archs[a]? = some s' → s'.version = s.version

theorem VerKept.refl (a : Nat) (w : World α) : VerKept a w w := by
  intro s s' g g'; rw [g] at g'; cases g'; rfl

theorem VerKept.setArch {a b : Nat} {w : World α} {s s' : Storage α}
    (g : w.archs[b]? = some s) (h : b = a → s'.version = s.version) :
    VerKept a w (w.setArch b s') := by
  intro t t' gt gt'
  by_cases hab : b = a
  · subst hab
    rw [World.setArch_get_self s' (List.getElem?_eq_some_iff.mp g).1] at gt'
    rw [g] at gt; cases gt; cases gt'; exact h rfl
  · rw [World.setArch_get_ne s' hab, gt] at gt'; cases gt'; rfl

theorem VerKept.map {a : Nat} {w : World α} (F : Storage α → Storage α)
    (hF : ∀ s, (F s).version = s.version) : VerKept a w ⟨w.ids, w.archs.map F⟩ := by
  intro s s' g g'
  simp only [List.getElem?_map, g, Option.map_some, Option.some.injEq] at g'
  subst g'; exact hF s

/-- Operations that never remove an entity from archetype `a`: creations (in any archetype,
growth included), component writes through any key, `clear_events`, clone, and `destroy`
calls that are not routed to `a` (refused, panicking, or routed to another archetype).
(`ecs_iter!` and `ecs_find!` do not remove either, but are not covered by this corollary.) -/
def Op.NoRemovalIn (cfg : Cfg) (ids : List Nat) (a : Nat) : Op α → Prop
  | .create _ _ _ => True
  | .createWithin _ _ => True
  | .write _ _ _ => True
  | .clearEvents _ => True
  | .cloneSwitch _ => True
  | .destroy u => ∀ k, u.route cfg ids ≠ .arch a k
  | _ => False

theorem stepOp_keeps_version {cfg : Cfg} {w : World α} (hw : WInv cfg w) (hc : CfgOk cfg)
    (op : Op α) (hop : OpsOk cfg [op]) (hs : op.Scoped w.sch) (a : Nat)
    (hn : op.NoRemovalIn cfg w.ids a) : (stepOp cfg w op).sat (VerKept a w) := by
  cases op with
  | create b row g =>
    have hg : GrowOk cfg g := hop.1
    obtain ⟨s, hs1, _⟩ := World.sch_get hs
    have hi := hw.get hs1
    simp only [stepOp, World.create]
    by_cases hlt : s.len < cfg.maxCap
    · obtain ⟨e, s', h1, _, _, _, _, _, h7, _⟩ := push_ok cfg g s row hi hc (fun h => hg _ h) hlt
      rw [liftArch_ok hs1 h1]
      exact VerKept.setArch hs1 (fun _ => h7)
    · have hfull : s.len = cfg.maxCap := by have := hi.len_le_maxCap; omega
      rw [liftArch_panic_same hs1 (push_overflow cfg g s row hi hfull).2]
      exact VerKept.refl a w
  | createWithin b row =>
    obtain ⟨s, hs1, _⟩ := World.sch_get hs
    have hi := hw.get hs1
    simp only [stepOp, World.createWithin]
    by_cases hlt : s.len < s.capacity
    · obtain ⟨e, s', h1, _, _, _, _, _, h7, _⟩ := pushWithin_ok cfg s row hi hlt
      rw [liftArch_ok hs1 h1]
      exact VerKept.setArch hs1 (fun _ => h7)
    · rw [liftArch_ok_same hs1 ((pushWithin_spec cfg s row hi).2 (by omega))]
      exact VerKept.refl a w
  | destroy u =>
    have hu : u.Scoped w.archs.length := by simpa [Op.Scoped] using hs
    have hne : ∀ k, u.route cfg w.ids ≠ .arch a k := hn
    simp only [stepOp, World.destroy]
    cases hr : u.route cfg w.ids with
    | absent => exact VerKept.refl a w
    | panic m => exact VerKept.refl a w
    | arch b k =>
      have hba : b ≠ a := by rintro rfl; exact hne k hr
      have hlt := (hw.route_lt hu hr).1
      obtain ⟨s, hs1⟩ : ∃ s, w.archs[b]? = some s := ⟨_, List.getElem?_eq_getElem hlt⟩
      simp only [lookup_arch]
      rcases storageDestroy_post (hw.get hs1) u.h.kind.isDirect k with ⟨r, s', g, _⟩ | ⟨m, g⟩
      · rw [liftArch_ok hs1 g]; exact VerKept.setArch hs1 (fun h => absurd h hba)
      · rw [liftArch_panic_same hs1 g]; exact VerKept.refl a w
  | write u c x =>
    have hu : u.Scoped w.archs.length := by simpa [Op.Scoped] using hs
    rcases fetch_safe hw u hu u.h.kind.isDirect with ⟨r, hr⟩ | ⟨m, hm⟩
    · cases r with
      | none => simp only [stepOp, hr]; exact VerKept.refl a w
      | some t =>
        obtain ⟨d, e, row⟩ := t
        obtain ⟨_, b, k, s, h2, h3, _⟩ := fetch_ok hw hr
        rw [h2] at hr
        simp only [stepOp, h2, hr, h3]
        exact VerKept.setArch h3 (fun _ => rfl)
    · simp only [stepOp, hm]; exact VerKept.refl a w
  | clearEvents oa =>
    cases oa with
    | none =>
      simp only [stepOp, World.clearEvents]
      exact VerKept.map clearEvents (fun _ => rfl)
    | some b =>
      simp only [stepOp]
      cases hs1 : w.archs[b]? with
      | none => exact VerKept.refl a w
      | some s => exact VerKept.setArch hs1 (fun _ => rfl)
  | cloneSwitch cl =>
    simp only [stepOp, World.clone_spec hw cl]
    exact VerKept.map _ (fun _ => rfl)
  | iter q σ f st => exact hn.elim
  | iterDestroy q σ f st => exact hn.elim
  | find q σ f h st => exact hn.elim

/-- Along a history made of such operations archetype `a`'s version does not change. -/
theorem run_keeps_version {cfg : Cfg} (hc : CfgOk cfg) (a : Nat) :
    ∀ (ops : List (Op α)) (w w' : World α), WInv cfg w → OpsOk cfg ops → OpsScoped w.sch ops →
      (∀ op ∈ ops, op.NoRemovalIn cfg w.ids a) → run cfg w ops = some w' → VerKept a w w' := by
  intro ops
  induction ops with
  | nil => intro w w' _ _ _ _ hr; cases hr; exact VerKept.refl a w
  | cons op ops ih =>
    intro w w' hw ho hs hn hr
    have ho' := (OpsOk_cons op ops).mp ho
    have hsat := stepOp_sat hw hc op ho'.1 (hs op List.mem_cons_self)
    have hk := stepOp_keeps_version hw hc op ho'.1 (hs op List.mem_cons_self) a
      (hn op List.mem_cons_self)
    have next : ∀ w1, WRel cfg w w1 → VerKept a w w1 → run cfg w1 ops = some w' →
        VerKept a w w' := by
      intro w1 hrel hk1 hr1
      have hs1 : OpsScoped w1.sch ops := by
        intro op' hop'
        have : w1.sch = w.sch := hrel.ncols_map
        rw [this]; exact hs op' (List.mem_cons_of_mem _ hop')
      have hn1 : ∀ op' ∈ ops, op'.NoRemovalIn cfg w1.ids a := by
        intro op' hop'; rw [hrel.ids]; exact hn op' (List.mem_cons_of_mem _ hop')
      have hk2 := ih w1 w' hrel.winv ho'.2 hs1 hn1 hr1
      intro s s' g g'
      obtain ⟨s1, g1, _⟩ := hrel.get g
      rw [hk2 s1 s' g1 g', hk1 s s1 g g1]
    simp only [run] at hr
    cases hstep : stepOp cfg w op with
    | ok w1 => rw [hstep] at hr hsat hk; exact next w1 hsat hk hr
    | panic m w1 => rw [hstep] at hr hsat hk; exact next w1 hsat hk hr
    | ub m => rw [hstep] at hsat; exact hsat.elim

end Gecs

section
open Gecs
#print axioms run_wrel
#print axioms run_reach
#print axioms run_split
#print axioms sreach_dead_stays_dead
#print axioms sreach_lost_version_lt
#print axioms route_typed_arch
#print axioms route_dynamic_to
#print axioms route_unknown_id
#print axioms route_own_handle
#print axioms route_foreign_absent
#print axioms toDirect_ent_of_alive
#print axioms toDirect_own_handle
#print axioms fetch_ent_of_alive
#print axioms toDirect_dir_of_valid
#print axioms direct_stale_none
#print axioms fetch_dir_of_valid
#print axioms destroy_ent_ok
#print axioms create_ok
#print axioms createWithin_ok
#print axioms stepOp_keeps_version
#print axioms run_keeps_version
end
