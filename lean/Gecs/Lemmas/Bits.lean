/-
C14: handle conversions are lossless and type-faithful, plus the raw slot-index encoding
(slot.rs) used by C03/C12.

The world model (Model/World.lean) uses the arithmetic forms `index * 256 + id`, `key / 256`,
`key % 256`; Model/Bits.lean states the shift/or/truncate forms the Rust code computes.  This
file proves that the two coincide for all in-range words, that packing is injective, that
every conversion between handle kinds returns the very same two words (or refuses exactly
when the archetype id differs), and that the `SlotIndex` encoding round-trips.

Everything is over `Nat`; proofs are `omega` plus the core `Nat` bit lemmas.
-/
import Gecs.Model.World
import Gecs.Model.Bits
import Gecs.Model.Check

namespace Gecs

/-! ### Constants -/

theorem ID_RANGE_eq : ID_RANGE = 2 ^ ARCHETYPE_ID_BITS := by decide
theorem U32_eq : U32 = 2 ^ 32 := by decide
theorem MAX_DATA_CAPACITY_eq : MAX_DATA_CAPACITY = 2 ^ (32 - ARCHETYPE_ID_BITS) := by decide
theorem FREE_BIT_eq : FREE_BIT = 2 ^ 31 := by decide
theorem FREE_LIST_END_eq : FREE_LIST_END = U32 - 1 := by decide

/-! ### Packing: shift/or form = arithmetic form -/

/-- `(index << 8) | id = index * 256 + id` for every `u8` id. -/
theorem packKey_eq (index id : Nat) (h : id < 256) : packKey index id = index * 256 + id := by
  unfold packKey ARCHETYPE_ID_BITS
  have h' : id < 2 ^ 8 := by omega
  rw [← Nat.shiftLeft_add_eq_or_of_lt h' index, Nat.shiftLeft_eq]

/-- `EntityAny::new` computes the `key` word of the model's `mkKey`. -/
theorem packKey_eq_mkKey {index id : Nat} (v : Nat) (h : id < 256) :
    packKey index id = (mkKey index id v).key := by
  rw [packKey_eq index id h]; rfl

/-- `archetype_id()` of a packed key is the id that was packed. -/
theorem keyId_pack {index id : Nat} (h : id < 256) : keyId (packKey index id) = id := by
  rw [packKey_eq index id h]; unfold keyId; omega

/-- `key >> 8 = key / 256`. -/
theorem keyIndex_eq (k : Nat) : keyIndex k = k / 256 := by
  unfold keyIndex ARCHETYPE_ID_BITS
  rw [Nat.shiftRight_eq_div_pow]

/-- `slot_index()` / `dense_index()` of a packed key is the index that was packed. -/
theorem keyIndex_pack {index id : Nat} (h : id < 256) : keyIndex (packKey index id) = index := by
  rw [keyIndex_eq, packKey_eq index id h]; omega

/-- `key as u8` is also `key & 0xFF`. -/
theorem keyId_eq_and (k : Nat) : keyId k = k &&& 255 := by
  unfold keyId
  have := Nat.and_two_pow_sub_one_eq_mod k 8
  simpa using this.symm

/-- The packed key of an in-range index and a `u8` id is a `u32` (no bits are shifted out);
the largest position `2^24 - 1` and id `255` are included. -/
theorem packKey_lt {index id : Nat} (hi : index < MAX_DATA_CAPACITY) (h : id < 256) :
    packKey index id < U32 := by
  rw [packKey_eq index id h]; unfold MAX_DATA_CAPACITY at hi; unfold U32; omega

/-- The model's accessors are the Rust accessors. -/
theorem Key.archId_eq_keyId (k : Key) : k.archId = keyId k.key := rfl

theorem Key.index_eq_keyIndex (k : Key) : k.index = keyIndex k.key := by
  rw [keyIndex_eq]; rfl

theorem Key.archId_mkKey {index id : Nat} (v : Nat) (h : id < 256) :
    (mkKey index id v).archId = id := by
  unfold Key.archId mkKey ID_RANGE; simp only; omega

theorem Key.index_mkKey {index id : Nat} (v : Nat) (h : id < 256) :
    (mkKey index id v).index = index := by
  unfold Key.index mkKey ID_RANGE; simp only; omega

@[simp] theorem Key.ver_mkKey (index id v : Nat) : (mkKey index id v).ver = v := rfl

theorem Key.archId_lt (k : Key) : k.archId < 256 := by
  unfold Key.archId ID_RANGE; omega

/-- For any `u32` key word the extracted index is `≤ MAX_DATA_INDEX`: the
`debug_assert!(key >> 8 <= MAX_DATA_INDEX)` and the `unwrap_unchecked` of
`TrimmedIndex::new_u32` in `slot_index()` can never fail. -/
theorem Key.index_lt {k : Key} (h : k.key < U32) : k.index < MAX_DATA_CAPACITY := by
  unfold Key.index ID_RANGE; unfold U32 at h; unfold MAX_DATA_CAPACITY; omega

theorem Key.index_le_max {k : Key} (h : k.key < U32) : k.index ≤ MAX_DATA_INDEX := by
  have := Key.index_lt h
  unfold MAX_DATA_INDEX; omega

/-- Every key is the packing of its own index, id and version (the decomposition is total). -/
theorem Key.eq_mkKey (k : Key) : k = mkKey k.index k.archId k.ver := by
  cases k with
  | mk key ver =>
    unfold mkKey Key.index Key.archId ID_RANGE
    simp only [Key.mk.injEq, and_true]
    omega

/-- Packing is injective: distinct (slot/dense index, archetype id, generation) triples give
unequal handles. -/
theorem mkKey_inj {i₁ id₁ v₁ i₂ id₂ v₂ : Nat} (h₁ : id₁ < 256) (h₂ : id₂ < 256)
    (h : mkKey i₁ id₁ v₁ = mkKey i₂ id₂ v₂) : i₁ = i₂ ∧ id₁ = id₂ ∧ v₁ = v₂ := by
  unfold mkKey ID_RANGE at h
  simp only [Key.mk.injEq] at h
  omega

theorem mkKey_ne {i₁ id₁ v₁ i₂ id₂ v₂ : Nat} (h₁ : id₁ < 256) (h₂ : id₂ < 256)
    (h : i₁ ≠ i₂ ∨ id₁ ≠ id₂ ∨ v₁ ≠ v₂) : mkKey i₁ id₁ v₁ ≠ mkKey i₂ id₂ v₂ := by
  intro e
  have := mkKey_inj h₁ h₂ e
  omega

/-- A packed handle of in-range parts with a non-zero `u32` generation is well formed. -/
theorem mkKey_wf {index id v : Nat} (hi : index < MAX_DATA_CAPACITY) (h : id < 256)
    (hv : 1 ≤ v) (hv' : v < U32) : (mkKey index id v).wf := by
  refine ⟨?_, hv, hv'⟩
  rw [← packKey_eq_mkKey v h]
  exact packKey_lt hi h

/-! ### `raw` / `from_raw` -/

theorem fromRaw_raw {k : Key} (h : k.wf) : fromRaw k.raw.1 k.raw.2 = some k := by
  obtain ⟨_, hv, _⟩ := h
  unfold fromRaw Key.raw
  have : k.ver ≠ 0 := by omega
  simp [this]

theorem fromRaw_none_iff (key ver : Nat) : fromRaw key ver = none ↔ ver = 0 := by
  unfold fromRaw
  split <;> simp_all

theorem raw_fromRaw {key ver : Nat} {k : Key} (h : fromRaw key ver = some k) :
    k.raw = (key, ver) := by
  unfold fromRaw at h
  split at h
  · cases h
  · cases h; rfl

/-- `from_raw` of in-range words with a non-zero version yields a well-formed handle. -/
theorem fromRaw_wf {key ver : Nat} {k : Key} (hk : key < U32) (hv : ver < U32)
    (h : fromRaw key ver = some k) : k.wf := by
  unfold fromRaw at h
  split at h
  · cases h
  · rename_i hne
    cases h; exact ⟨hk, Nat.pos_of_ne_zero hne, hv⟩

/-! ### Typed ↔ dynamic conversions -/

@[simp] theorem intoAny_eq (k : Key) : intoAny k = k := rfl

/-- `TryFrom<EntityAny> for Entity<A>`: succeeds exactly when the id is `A`'s, and then returns
the same words. -/
theorem tryFrom_iff (idA : Nat) (k k' : Key) :
    tryFromAny idA (intoAny k) = some k' ↔ (k.archId = idA ∧ k' = k) := by
  unfold tryFromAny intoAny
  split
  · constructor
    · intro h; cases h; exact ⟨‹_›, rfl⟩
    · rintro ⟨_, rfl⟩; rfl
  · constructor
    · intro h; cases h
    · rintro ⟨h, _⟩; contradiction

theorem tryFrom_none_iff (idA : Nat) (k : Key) :
    tryFromAny idA (intoAny k) = none ↔ k.archId ≠ idA := by
  unfold tryFromAny intoAny
  split <;> simp_all

/-- `Entity::<A>::from_any`: `none` (the panic "invalid entity conversion") exactly on a
mismatching id, the same words otherwise. -/
theorem fromAny_iff (idA : Nat) (k k' : Key) :
    fromAny idA (intoAny k) = some k' ↔ (k.archId = idA ∧ k' = k) := by
  unfold fromAny intoAny
  split
  · constructor
    · intro h; cases h; exact ⟨‹_›, rfl⟩
    · rintro ⟨_, rfl⟩; rfl
  · constructor
    · intro h; cases h
    · rintro ⟨h, _⟩; contradiction

theorem fromAny_none_iff (idA : Nat) (k : Key) :
    fromAny idA (intoAny k) = none ↔ k.archId ≠ idA := by
  unfold fromAny intoAny
  split <;> simp_all

/-- Round trip typed → dynamic → typed. -/
theorem tryFrom_intoAny_self (k : Key) : tryFromAny k.archId (intoAny k) = some k :=
  (tryFrom_iff _ _ _).2 ⟨rfl, rfl⟩

theorem fromAny_intoAny_self (k : Key) : fromAny k.archId (intoAny k) = some k :=
  (fromAny_iff _ _ _).2 ⟨rfl, rfl⟩

/-- Release builds: `from_any_unchecked` is the identity on the words, whatever the id. -/
theorem fromAnyUnchecked_release {cfg : Cfg} (idA : Nat) (k : Key) (h : cfg.debug = false) :
    fromAnyUnchecked cfg idA k = some k := by
  unfold fromAnyUnchecked
  simp [h]

/-- Debug builds: `from_any_unchecked` returns the same words iff the id matches (otherwise the
`debug_assert!` fires). -/
theorem fromAnyUnchecked_debug {cfg : Cfg} (idA : Nat) (k : Key) (h : cfg.debug = true) :
    fromAnyUnchecked cfg idA k = some k ↔ k.archId = idA := by
  unfold fromAnyUnchecked
  simp [h]

/-- In every build, a result of `from_any_unchecked` is the argument itself. -/
theorem fromAnyUnchecked_some {cfg : Cfg} {idA : Nat} {k k' : Key}
    (h : fromAnyUnchecked cfg idA k = some k') : k' = k := by
  unfold fromAnyUnchecked at h
  split at h
  · cases h
  · cases h; rfl

/-- In every build, `from_any_unchecked` on a matching id succeeds. -/
theorem fromAnyUnchecked_of_eq (cfg : Cfg) {idA : Nat} {k : Key} (h : k.archId = idA) :
    fromAnyUnchecked cfg idA k = some k := by
  unfold fromAnyUnchecked
  simp [h]

/-! ### The generated `match entity.archetype_id() { … }` -/

/-- With pairwise distinct archetype ids the match selects archetype `a` iff `a` is the
position of the id in the declaration. -/
theorem selectArch_spec {ids : List Nat} (hn : ids.Nodup) (id a : Nat) :
    selectArch ids id = some a ↔ ids[a]? = some id := by
  unfold selectArch
  rw [List.findIdx?_eq_some_iff_getElem]
  constructor
  · rintro ⟨h, hp, _⟩
    rw [List.getElem?_eq_some_iff]
    exact ⟨h, by simpa using hp⟩
  · intro h
    rw [List.getElem?_eq_some_iff] at h
    obtain ⟨hlt, he⟩ := h
    refine ⟨hlt, by simpa using he, ?_⟩
    intro j hj hp
    have hjlt : j < ids.length := Nat.lt_trans hj hlt
    have hje : ids[j] = id := by simpa using hp
    have : ids[j]? = ids[a]? := by
      rw [List.getElem?_eq_getElem hjlt, List.getElem?_eq_getElem hlt, hje, he]
    have := (List.getElem?_inj hjlt hn).1 this
    omega

/-- Without the distinctness hypothesis the selected archetype still carries the id. -/
theorem selectArch_some {ids : List Nat} {id a : Nat} (h : selectArch ids id = some a) :
    ids[a]? = some id := by
  unfold selectArch at h
  rw [List.findIdx?_eq_some_iff_getElem] at h
  obtain ⟨hlt, hp, _⟩ := h
  rw [List.getElem?_eq_some_iff]
  exact ⟨hlt, by simpa using hp⟩

/-- The wildcard arm (`InvalidEntityType` / panic "invalid entity type") is taken exactly for
ids that no archetype of the world has. -/
theorem selectArch_none_iff (ids : List Nat) (id : Nat) :
    selectArch ids id = none ↔ id ∉ ids := by
  unfold selectArch
  rw [List.findIdx?_eq_none_iff]
  constructor
  · intro h hm
    have := h id hm
    simp at this
  · intro h x hx
    simp only [beq_eq_false_iff_ne, ne_eq]
    intro e
    exact h (e ▸ hx)

/-- `TryFrom<EntityAny> for SelectEntity`: the unique archetype with the handle's id, and the
same words. -/
theorem selectEntity_spec {ids : List Nat} (hn : ids.Nodup) (k k' : Key) (a : Nat) :
    selectEntity ids k = some (a, k') ↔ (ids[a]? = some k.archId ∧ k' = k) := by
  unfold selectEntity
  rw [← selectArch_spec hn]
  cases h : selectArch ids k.archId with
  | none => simp
  | some b =>
    simp only [Option.map_some, Option.some.injEq, Prod.mk.injEq]
    constructor
    · rintro ⟨rfl, rfl⟩; exact ⟨rfl, rfl⟩
    · rintro ⟨rfl, rfl⟩; exact ⟨rfl, rfl⟩

/-- … or `InvalidEntityType`, exactly when no archetype has that id. -/
theorem selectEntity_none_iff (ids : List Nat) (k : Key) :
    selectEntity ids k = none ↔ k.archId ∉ ids := by
  unfold selectEntity
  rw [Option.map_eq_none_iff, selectArch_none_iff]

/-- Uniqueness of the selected variant. -/
theorem selectEntity_unique {ids : List Nat} (hn : ids.Nodup) {k k₁ : Key} {a₁ a₂ : Nat}
    (h₁ : selectEntity ids k = some (a₁, k₁)) (_h₂ : ids[a₂]? = some k.archId) :
    a₂ = a₁ ∧ k₁ = k := by
  have h₂ := (selectEntity_spec hn k k a₂).2 ⟨_h₂, rfl⟩
  rw [h₁] at h₂
  simp only [Option.some.injEq, Prod.mk.injEq] at h₂
  exact ⟨h₂.1.symm, h₂.2⟩

/-- `SelectArchetype::archetype_id` returns the handle's own id (holds even without
distinctness of the ids). -/
theorem selectArchetypeId_eq {ids : List Nat} {k : Key} {i : Nat}
    (h : selectArchetypeId ids k = some i) : i = k.archId := by
  unfold selectArchetypeId at h
  cases hs : selectArch ids k.archId with
  | none => rw [hs] at h; cases h
  | some a =>
    rw [hs] at h
    have := selectArch_some hs
    simp only [Option.map_some, Option.some.injEq] at h
    rw [List.getD_eq_getElem?_getD, this] at h
    exact h.symm

theorem selectArchetypeId_spec {ids : List Nat} (_hn : ids.Nodup) {k : Key} {i : Nat}
    (h : selectArchetypeId ids k = some i) : i = k.archId :=
  selectArchetypeId_eq h

theorem selectArchetypeId_iff (ids : List Nat) (k : Key) (i : Nat) :
    selectArchetypeId ids k = some i ↔ (i = k.archId ∧ k.archId ∈ ids) := by
  constructor
  · intro h
    refine ⟨selectArchetypeId_eq h, ?_⟩
    apply Classical.byContradiction
    intro hm
    have := (selectArch_none_iff ids k.archId).2 hm
    unfold selectArchetypeId at h
    rw [this] at h
    cases h
  · rintro ⟨rfl, hm⟩
    cases hs : selectArch ids k.archId with
    | none => exact absurd hm ((selectArch_none_iff _ _).1 hs)
    | some a =>
      have := selectArch_some hs
      unfold selectArchetypeId
      rw [hs]
      simp only [Option.map_some, Option.some.injEq]
      rw [List.getD_eq_getElem?_getD, this]
      rfl

/-! ### `Eq` / `Hash` -/

/-- `(key as u64) << 32 | version as u64 = key * 2^32 + version` for a `u32` version. -/
theorem hashInput_eq {k : Key} (h : k.ver < U32) : hashInput k = k.key * U32 + k.ver := by
  unfold hashInput
  have h' : k.ver < 2 ^ 32 := by unfold U32 at h; omega
  rw [← Nat.shiftLeft_add_eq_or_of_lt h' k.key, Nat.shiftLeft_eq]
  rfl

/-- The value fed to the hasher determines the handle: no two well-formed handles collide
before hashing. -/
theorem hashInput_inj {k₁ k₂ : Key} (h₁ : k₁.wf) (h₂ : k₂.wf)
    (h : hashInput k₁ = hashInput k₂) : k₁ = k₂ := by
  obtain ⟨_, _, hv₁⟩ := h₁
  obtain ⟨_, _, hv₂⟩ := h₂
  rw [hashInput_eq hv₁, hashInput_eq hv₂] at h
  cases k₁ with
  | mk a b =>
    cases k₂ with
    | mk c d =>
      simp only [Key.mk.injEq]
      simp only at h hv₁ hv₂
      unfold U32 at h hv₁ hv₂
      omega

/-- `k1 == k2 → hash(k1) == hash(k2)`. -/
theorem hashInput_congr {k₁ k₂ : Key} (h : k₁ = k₂) : hashInput k₁ = hashInput k₂ := by
  rw [h]

theorem hashInput_eq_iff {k₁ k₂ : Key} (h₁ : k₁.wf) (h₂ : k₂.wf) :
    hashInput k₁ = hashInput k₂ ↔ k₁ = k₂ :=
  ⟨hashInput_inj h₁ h₂, hashInput_congr⟩

/-- The hash input of a well-formed handle is a `u64`. -/
theorem hashInput_lt {k : Key} (h : k.wf) : hashInput k < 2 ^ 64 := by
  obtain ⟨hk, _, hv⟩ := h
  rw [hashInput_eq hv]
  unfold U32 at *
  omega

/-- `Eq` is structural equality of the two words. -/
theorem Key.eq_iff (k₁ k₂ : Key) : k₁ = k₂ ↔ (k₁.key = k₂.key ∧ k₁.ver = k₂.ver) := by
  cases k₁; cases k₂; simp

/-! ### Slot-index encoding (slot.rs) -/

/-- The reserved end marker with the free bit cleared is not a valid data index (the crate's
own unit test). -/
theorem free_end_not_index : FREE_LIST_END - FREE_BIT ≥ MAX_DATA_CAPACITY := by decide

theorem max_index_lt_free_bit : MAX_DATA_INDEX < FREE_BIT := by decide

/-- Encoding then decoding a slot index with in-range payload is the identity. -/
theorem decode_encode {x : SIdx}
    (hd : ∀ i, x = .data i → i < MAX_DATA_CAPACITY)
    (hf : ∀ n, x = .free n → n < MAX_DATA_CAPACITY) :
    decodeIdx (encodeIdx x) = x := by
  cases x with
  | data i =>
    have := hd i rfl
    unfold MAX_DATA_CAPACITY at this
    unfold encodeIdx decodeIdx FREE_LIST_END FREE_BIT
    have h1 : ¬ i = 4294967295 := by omega
    have h2 : ¬ i ≥ 2147483648 := by omega
    simp [h1, h2]
  | free n =>
    have := hf n rfl
    unfold MAX_DATA_CAPACITY at this
    unfold encodeIdx decodeIdx FREE_LIST_END FREE_BIT
    have h1 : ¬ n + 2147483648 = 4294967295 := by omega
    simp [h1]
  | freeEnd =>
    unfold encodeIdx decodeIdx
    simp

/-- The encoding of an in-range slot index is a `u32`. -/
theorem encode_lt {x : SIdx}
    (hd : ∀ i, x = .data i → i < MAX_DATA_CAPACITY)
    (hf : ∀ n, x = .free n → n < MAX_DATA_CAPACITY) :
    encodeIdx x < U32 := by
  cases x with
  | data i =>
    have := hd i rfl
    unfold MAX_DATA_CAPACITY at this
    simp only [encodeIdx, U32]; omega
  | free n =>
    have := hf n rfl
    unfold MAX_DATA_CAPACITY at this
    simp only [encodeIdx, U32, FREE_BIT]; omega
  | freeEnd =>
    simp only [encodeIdx, U32, FREE_LIST_END]; omega

/-- Decoding then encoding is the identity on every raw word (decoding loses nothing). -/
theorem encode_decode (raw : Nat) : encodeIdx (decodeIdx raw) = raw := by
  unfold decodeIdx
  split
  · simp [encodeIdx, *]
  · split
    · simp only [encodeIdx]; omega
    · simp [encodeIdx]

/-- The encoding is injective on in-range slot indices. -/
theorem encodeIdx_inj {x y : SIdx}
    (hxd : ∀ i, x = .data i → i < MAX_DATA_CAPACITY)
    (hxf : ∀ n, x = .free n → n < MAX_DATA_CAPACITY)
    (hyd : ∀ i, y = .data i → i < MAX_DATA_CAPACITY)
    (hyf : ∀ n, y = .free n → n < MAX_DATA_CAPACITY)
    (h : encodeIdx x = encodeIdx y) : x = y := by
  rw [← decode_encode hxd hxf, ← decode_encode hyd hyf, h]

/-- `is_free()`: the decoded index is a free-list link (or the end marker) iff the raw word
has the free bit region set, `raw ≥ FREE_BIT` (no range hypothesis is needed). -/
theorem decodeIdx_isFree (raw : Nat) : (decodeIdx raw).isFree = true ↔ raw ≥ FREE_BIT := by
  unfold decodeIdx
  split
  · rename_i h; simp [SIdx.isFree, h, FREE_LIST_END, FREE_BIT]
  · split
    · simp [SIdx.isFree, *]
    · simp only [SIdx.isFree]; constructor
      · intro h; cases h
      · intro h; contradiction

/-- The Rust test `FREE_BIT & raw != 0` is `raw ≥ FREE_BIT` for every `u32`. -/
theorem freeBit_and_ne_zero_iff {raw : Nat} (h : raw < U32) :
    FREE_BIT &&& raw ≠ 0 ↔ raw ≥ FREE_BIT := by
  have hb : raw.testBit 31 = decide (raw ≥ FREE_BIT) := by
    rw [Nat.testBit_eq_decide_div_mod_eq]
    unfold U32 at h; unfold FREE_BIT
    apply decide_eq_decide.2
    omega
  rw [FREE_BIT_eq] at *
  constructor
  · intro hne
    apply Classical.byContradiction
    intro hlt
    apply hne
    apply Nat.eq_of_testBit_eq
    intro i
    rw [Nat.testBit_and, Nat.testBit_two_pow, Nat.zero_testBit]
    by_cases hi : 31 = i
    · subst hi; rw [hb]; simp [hlt]
    · simp [hi]
  · intro hge hz
    have : (2 ^ 31 &&& raw).testBit 31 = true := by
      rw [Nat.testBit_and, Nat.testBit_two_pow, hb]; simp [hge]
    rw [hz, Nat.zero_testBit] at this
    cases this

/-- `is_free()` as the Rust code computes it. -/
theorem decodeIdx_isFree_and {raw : Nat} (h : raw < U32) :
    (decodeIdx raw).isFree = true ↔ FREE_BIT &&& raw ≠ 0 := by
  rw [decodeIdx_isFree, freeBit_and_ne_zero_iff h]

/-- A decoded data index of a `u32` below the free bit is the word itself. -/
theorem decodeIdx_data {raw : Nat} (h : raw < FREE_BIT) : decodeIdx raw = .data raw := by
  unfold decodeIdx
  unfold FREE_BIT at h
  have h1 : ¬ raw = FREE_LIST_END := by unfold FREE_LIST_END; omega
  have h2 : ¬ raw ≥ FREE_BIT := by unfold FREE_BIT; omega
  simp [h1, h2]

/-! ### Non-vacuity: boundary words -/

section Examples

-- largest index, largest id
example : packKey 16777215 255 = 4294967295 := by decide
example : packKey 16777215 255 = (mkKey 16777215 255 4294967295).key :=
  packKey_eq_mkKey 4294967295 (by decide)
example : keyId (packKey 16777215 255) = 255 := keyId_pack (by decide)
example : keyIndex (packKey 16777215 255) = 16777215 := keyIndex_pack (by decide)
example : packKey 16777215 255 < U32 := packKey_lt (by decide) (by decide)
example : packKey 16777215 255 < U32 := by decide
-- one past the largest index is NOT a u32 any more (the bound in `packKey_lt` is tight)
example : ¬ packKey 16777216 0 < U32 := by decide
-- an id of 256 would spill into the index (the bound `id < 256` is needed)
example : keyIndex (packKey 0 256) ≠ 0 := by decide
example : (mkKey 16777215 255 4294967295).wf := mkKey_wf (by decide) (by decide) (by decide) (by decide)
example : (mkKey 16777215 255 4294967295).wf := by unfold Key.wf; decide
example : (mkKey 0 0 1).wf := by unfold Key.wf; decide
example : (mkKey 16777215 255 4294967295).archId = 255 := by decide
example : (mkKey 16777215 255 4294967295).index = 16777215 := by decide
example : (⟨4294967295, 1⟩ : Key).index < MAX_DATA_CAPACITY := Key.index_lt (by decide)
example : (⟨4294967295, 1⟩ : Key).index = MAX_DATA_INDEX := by decide
example : mkKey 16777215 255 4294967295 ≠ mkKey 16777215 254 4294967295 :=
  mkKey_ne (by decide) (by decide) (by omega)
example : mkKey 16777215 255 4294967295 ≠ mkKey 16777214 255 4294967295 := by decide
example : mkKey 16777215 255 4294967295 ≠ mkKey 16777215 255 4294967294 := by decide

example : fromRaw 4294967295 4294967295 = some ⟨4294967295, 4294967295⟩ := by decide
example : fromRaw (mkKey 16777215 255 4294967295).raw.1 (mkKey 16777215 255 4294967295).raw.2
    = some (mkKey 16777215 255 4294967295) := fromRaw_raw (by unfold Key.wf; decide)
example : fromRaw 4294967295 0 = none := by decide

example : tryFromAny 255 (intoAny (mkKey 16777215 255 4294967295))
    = some (mkKey 16777215 255 4294967295) := by decide
example : tryFromAny 254 (intoAny (mkKey 16777215 255 4294967295)) = none := by decide
example : fromAny 255 (intoAny (mkKey 16777215 255 4294967295))
    = some (mkKey 16777215 255 4294967295) := by decide
example : fromAny 0 (intoAny (mkKey 16777215 255 4294967295)) = none := by decide
example : fromAnyUnchecked ⟨16777216, 4294967295, false, true, false⟩ 0
    (mkKey 16777215 255 4294967295) = some (mkKey 16777215 255 4294967295) := by decide
example : fromAnyUnchecked ⟨16777216, 4294967295, false, true, true⟩ 0
    (mkKey 16777215 255 4294967295) = none := by decide
example : fromAnyUnchecked ⟨16777216, 4294967295, false, true, true⟩ 255
    (mkKey 16777215 255 4294967295) = some (mkKey 16777215 255 4294967295) := by decide

example : [0, 255, 7].Nodup := by decide
example : selectArch [0, 255, 7] 255 = some 1 := by decide
example : selectArch [0, 255, 7] 3 = none := by decide
example : selectEntity [0, 255, 7] (mkKey 16777215 255 4294967295)
    = some (1, mkKey 16777215 255 4294967295) := by decide
example : selectEntity [0, 255, 7] (mkKey 16777215 254 4294967295) = none := by decide
example : selectArchetypeId [0, 255, 7] (mkKey 16777215 255 4294967295) = some 255 := by decide
-- without `Nodup` the `↔` of `selectArch_spec` fails (first match wins): the hypothesis is needed
example : ([5, 5] : List Nat)[1]? = some 5 ∧ selectArch [5, 5] 5 ≠ some 1 := by decide

example : hashInput (mkKey 16777215 255 4294967295) = 18446744073709551615 := by decide
example : (⟨4294967295, 4294967295⟩ : Key).wf ∧ (⟨4294967295, 1⟩ : Key).wf := by
  unfold Key.wf; decide
example : hashInput ⟨4294967295, 4294967295⟩ ≠ hashInput ⟨4294967295, 1⟩ := by decide
-- outside `wf` the hash input is not injective (the `u32` hypothesis is needed)
example : hashInput ⟨1, 1⟩ = hashInput ⟨1, 4294967297⟩ := by decide

example : decodeIdx (encodeIdx (.data 16777215)) = .data 16777215 := by decide
example : decodeIdx (encodeIdx (.free 16777215)) = .free 16777215 := by decide
example : decodeIdx (encodeIdx .freeEnd) = .freeEnd := by decide
example : decodeIdx (encodeIdx (.data 16777215)) = .data 16777215 :=
  decode_encode (by intro i h; cases h; decide) (by intro n h; cases h)
example : encodeIdx (.free 16777215) < U32 :=
  encode_lt (by intro i h; cases h) (by intro n h; cases h; decide)
-- the payload bound is needed: `free (2^31 - 1)` would collide with the end marker
example : decodeIdx (encodeIdx (.free 2147483647)) = .freeEnd := by decide
example : (decodeIdx 2147483648).isFree = true := by decide
example : (decodeIdx 2147483647).isFree = false := by decide
example : (decodeIdx 4294967295).isFree = true := by decide
example : FREE_BIT &&& 2147483648 ≠ 0 := by decide
example : FREE_BIT &&& 2147483647 = 0 := by decide

end Examples

#print axioms packKey_eq_mkKey
#print axioms keyId_pack
#print axioms keyIndex_pack
#print axioms packKey_lt
#print axioms Key.archId_mkKey
#print axioms Key.index_mkKey
#print axioms keyIndex_eq
#print axioms Key.index_lt
#print axioms mkKey_inj
#print axioms fromRaw_raw
#print axioms fromRaw_none_iff
#print axioms raw_fromRaw
#print axioms tryFrom_iff
#print axioms fromAny_iff
#print axioms fromAnyUnchecked_release
#print axioms fromAnyUnchecked_debug
#print axioms selectArch_spec
#print axioms selectArch_none_iff
#print axioms selectEntity_spec
#print axioms selectEntity_none_iff
#print axioms selectArchetypeId_spec
#print axioms hashInput_inj
#print axioms hashInput_congr
#print axioms decode_encode
#print axioms encode_lt
#print axioms free_end_not_index
#print axioms max_index_lt_free_bit
#print axioms decodeIdx_isFree
#print axioms freeBit_and_ne_zero_iff

end Gecs
