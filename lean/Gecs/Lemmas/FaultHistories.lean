/-
Helper lemmas for histories with fault points (`Gecs/Model/FaultHistory.lean`): the algebra of
`OpF.erase` / `OpF.faultCount` / `runF` (A), `runF` under the world invariant (B), the clone
order and the drop order of a world against `owned` (C), what one faulted clone and the faulting
world drop do to the values (D), and the list plumbing for the whole-world balance (E).
The headline theorems are in `Gecs/Props/FaultHistories.lean`.
-/
import Gecs.Model.FaultHistory
import Gecs.Lemmas.Faults
import Gecs.Props.Histories

namespace Gecs
variable {α : Type}

/-! ## A. `erase`, `faultCount`, `runF`: algebra (no hypotheses) -/

theorem OpF.erase_append (ops₁ ops₂ : List (OpF α)) :
    OpF.erase (ops₁ ++ ops₂) = OpF.erase ops₁ ++ OpF.erase ops₂ := by
  induction ops₁ with
  | nil => rfl
  | cons op ops ih =>
    cases op with
    | plain op => simp only [List.cons_append, OpF.erase, ih]
    | cloneFaulted cl k => simp only [List.cons_append, OpF.erase, ih]

theorem OpF.faultCount_append (ops₁ ops₂ : List (OpF α)) :
    OpF.faultCount (ops₁ ++ ops₂) = OpF.faultCount ops₁ + OpF.faultCount ops₂ := by
  induction ops₁ with
  | nil => simp [OpF.faultCount]
  | cons op ops ih =>
    cases op with
    | plain op => simp only [List.cons_append, OpF.faultCount, ih]
    | cloneFaulted cl k => simp only [List.cons_append, OpF.faultCount, ih]; omega

/-- A history without fault points is a plain history. -/
theorem OpF.erase_map_plain (ops : List (Op α)) : OpF.erase (ops.map OpF.plain) = ops := by
  induction ops with
  | nil => rfl
  | cons op ops ih => simp only [List.map_cons, OpF.erase, ih]

theorem OpF.faultCount_map_plain (ops : List (Op α)) : OpF.faultCount (ops.map OpF.plain) = 0 := by
  induction ops with
  | nil => rfl
  | cons op ops ih => simp only [List.map_cons, OpF.faultCount, ih]

/-- The log computed along the way: the outcome of every `cloneFaulted`, evaluated on the world
the history has reached at that point (empty from the point where `ub` is reached). -/
def faultLog (cfg : Cfg) (isZ : α → Bool) : World α → List (OpF α) → List (FaultOutcome α)
  | _, [] => []
  | w, .plain op :: ops =>
    match stepOp cfg w op with
    | .ok w' => faultLog cfg isZ w' ops
    | .panic _ w' => faultLog cfg isZ w' ops
    | .ub _ => []
  | w, .cloneFaulted cl k :: ops => cloneFaultOutcome isZ w cl k :: faultLog cfg isZ w ops

/-- `runF` is `run` of the erased history, paired with the log. -/
theorem runF_eq_run (cfg : Cfg) (isZ : α → Bool) (w : World α) (ops : List (OpF α)) :
    runF cfg isZ w ops
      = (run cfg w (OpF.erase ops)).map (fun w' => (w', faultLog cfg isZ w ops)) := by
  induction ops generalizing w with
  | nil => rfl
  | cons op ops ih =>
    cases op with
    | plain op =>
      simp only [runF, OpF.erase, run, faultLog]
      cases stepOp cfg w op with
      | ok w' => exact ih w'
      | panic m w' => exact ih w'
      | ub m => rfl
    | cloneFaulted cl k =>
      simp only [runF, OpF.erase, faultLog, ih w, Option.map_map]
      rfl

theorem runF_fst (cfg : Cfg) (isZ : α → Bool) (w : World α) (ops : List (OpF α)) :
    (runF cfg isZ w ops).map Prod.fst = run cfg w (OpF.erase ops) := by
  rw [runF_eq_run, Option.map_map]
  cases run cfg w (OpF.erase ops) <;> rfl

/-- One entry per `cloneFaulted`. -/
theorem runF_log_length {cfg : Cfg} {isZ : α → Bool} :
    ∀ (ops : List (OpF α)) (w w' : World α) (log : List (FaultOutcome α)),
      runF cfg isZ w ops = some (w', log) → log.length = OpF.faultCount ops := by
  intro ops
  induction ops with
  | nil =>
    intro w w' log h
    simp only [runF, Option.some.injEq, Prod.mk.injEq] at h
    rw [← h.2]; rfl
  | cons op ops ih =>
    intro w w' log h
    cases op with
    | plain op =>
      simp only [runF] at h
      simp only [OpF.faultCount]
      cases hst : stepOp cfg w op with
      | ok w1 => rw [hst] at h; exact ih w1 w' log h
      | panic m w1 => rw [hst] at h; exact ih w1 w' log h
      | ub m => rw [hst] at h; cases h
    | cloneFaulted cl k =>
      simp only [runF, Option.map_eq_some_iff, Prod.mk.injEq] at h
      obtain ⟨r, hr, h1, h2⟩ := h
      have := ih w r.1 r.2 hr
      rw [← h2]
      simp only [List.length_cons, OpF.faultCount, this]

/-- Splitting a history: the second part runs from the world the first part reached, and the
log is the concatenation of the two logs. -/
theorem runF_append (cfg : Cfg) (isZ : α → Bool) (w : World α) (ops₁ ops₂ : List (OpF α)) :
    runF cfg isZ w (ops₁ ++ ops₂)
      = (runF cfg isZ w ops₁).bind (fun r₁ =>
          (runF cfg isZ r₁.1 ops₂).map (fun r₂ => (r₂.1, r₁.2 ++ r₂.2))) := by
  induction ops₁ generalizing w with
  | nil =>
    simp only [List.nil_append, runF, Option.bind_some]
    cases runF cfg isZ w ops₂ <;> rfl
  | cons op ops ih =>
    cases op with
    | plain op =>
      simp only [List.cons_append, runF]
      cases stepOp cfg w op with
      | ok w' => exact ih w'
      | panic m w' => exact ih w'
      | ub m => rfl
    | cloneFaulted cl k =>
      simp only [List.cons_append, runF, ih w]
      cases runF cfg isZ w ops with
      | none => rfl
      | some r₁ =>
        simp only [Option.bind_some, Option.map_some]
        cases runF cfg isZ r₁.1 ops₂ <;> rfl

/-- A faulted clone is transparent: the world reached is the one reached without it. -/
theorem runF_cloneFaulted_single (cfg : Cfg) (isZ : α → Bool) (w : World α) (cl : α → α)
    (k : Nat) : runF cfg isZ w [.cloneFaulted cl k] = some (w, [cloneFaultOutcome isZ w cl k]) :=
  rfl

/-! ## B. `runF` under the world invariant -/

/-- Every history with fault points whose plain operations satisfy the hypotheses of `run_inv`
runs (never `ub`): the world reached is the one `run` reaches on the erased history, it is
`WRel`-related to the initial one, and the log has one entry per `cloneFaulted`. -/
theorem runF_ok {cfg : Cfg} (isZ : α → Bool) (hc : CfgOk cfg) {ops : List (OpF α)} {w : World α}
    (hw : WInv cfg w) (ho : OpsOk cfg (OpF.erase ops)) (hs : OpsScoped w.sch (OpF.erase ops)) :
    ∃ w' log, runF cfg isZ w ops = some (w', log) ∧ run cfg w (OpF.erase ops) = some w'
      ∧ WRel cfg w w' ∧ log.length = OpF.faultCount ops ∧ log = faultLog cfg isZ w ops := by
  obtain ⟨w', h1, h2⟩ := run_rel hc (OpF.erase ops) w hw ho hs
  have h3 : runF cfg isZ w ops = some (w', faultLog cfg isZ w ops) := by
    rw [runF_eq_run, h1]; rfl
  exact ⟨w', _, h3, h1, h2, runF_log_length ops w w' _ h3, rfl⟩

/-- "Every prefix": a history with fault points splits at any point into two runs; the
intermediate world satisfies `WInv`, has the same schema, and the logs concatenate. -/
theorem runF_prefix {cfg : Cfg} (isZ : α → Bool) (hc : CfgOk cfg) {ops₁ ops₂ : List (OpF α)}
    {w : World α} (hw : WInv cfg w) (ho : OpsOk cfg (OpF.erase (ops₁ ++ ops₂)))
    (hs : OpsScoped w.sch (OpF.erase (ops₁ ++ ops₂))) :
    ∃ w₁ log₁ w₂ log₂, runF cfg isZ w ops₁ = some (w₁, log₁)
      ∧ runF cfg isZ w₁ ops₂ = some (w₂, log₂)
      ∧ runF cfg isZ w (ops₁ ++ ops₂) = some (w₂, log₁ ++ log₂)
      ∧ WRel cfg w w₁ ∧ WRel cfg w₁ w₂
      ∧ log₁.length = OpF.faultCount ops₁ ∧ log₂.length = OpF.faultCount ops₂
      ∧ OpsOk cfg (OpF.erase ops₂) ∧ OpsScoped w₁.sch (OpF.erase ops₂) := by
  rw [OpF.erase_append] at ho hs
  obtain ⟨ho1, ho2⟩ := OpsOk_append.mp ho
  obtain ⟨hs1, hs2⟩ := OpsScoped_append.mp hs
  obtain ⟨w₁, log₁, h1, _, r1, l1, _⟩ := runF_ok isZ hc hw ho1 hs1
  have hs2' : OpsScoped w₁.sch (OpF.erase ops₂) := by
    have : w₁.sch = w.sch := r1.ncols_map
    rw [this]; exact hs2
  obtain ⟨w₂, log₂, h2, _, r2, l2, _⟩ := runF_ok isZ hc r1.winv ho2 hs2'
  refine ⟨w₁, log₁, w₂, log₂, h1, h2, ?_, r1, r2, l1, l2, ho2, hs2'⟩
  rw [runF_append, h1]
  simp only [Option.bind_some, h2, Option.map_some]

/-- Every entry of the log is the outcome of one `cloneFaulted` of the history, evaluated on the
world reached by the operations before it; entry `i` belongs to the `i`-th `cloneFaulted`. -/
theorem runF_log_get {cfg : Cfg} (isZ : α → Bool) :
    ∀ (ops : List (OpF α)) (w w' : World α) (log : List (FaultOutcome α)),
      runF cfg isZ w ops = some (w', log) →
      ∀ (i : Nat) (o : FaultOutcome α), log[i]? = some o →
        ∃ ops₁ cl k ops₂ w₁ log₁, ops = ops₁ ++ .cloneFaulted cl k :: ops₂
          ∧ OpF.faultCount ops₁ = i ∧ runF cfg isZ w ops₁ = some (w₁, log₁)
          ∧ o = cloneFaultOutcome isZ w₁ cl k := by
  intro ops
  induction ops with
  | nil =>
    intro w w' log h i o hi
    simp only [runF, Option.some.injEq, Prod.mk.injEq] at h
    rw [← h.2] at hi; simp at hi
  | cons op ops ih =>
    intro w w' log h i o hi
    cases op with
    | plain op =>
      simp only [runF] at h
      have key : ∀ w1, (∀ ops₁ : List (OpF α), runF cfg isZ w (.plain op :: ops₁) = runF cfg isZ w1 ops₁) →
          runF cfg isZ w1 ops = some (w', log) →
          ∃ ops₁ cl k ops₂ w₁ log₁, OpF.plain op :: ops = ops₁ ++ .cloneFaulted cl k :: ops₂
            ∧ OpF.faultCount ops₁ = i ∧ runF cfg isZ w ops₁ = some (w₁, log₁)
            ∧ o = cloneFaultOutcome isZ w₁ cl k := by
        intro w1 hstep h'
        obtain ⟨ops₁, cl, k, ops₂, w₁, log₁, e1, e2, e3, e4⟩ := ih w1 w' log h' i o hi
        refine ⟨.plain op :: ops₁, cl, k, ops₂, w₁, log₁, by rw [e1]; rfl, e2, ?_, e4⟩
        rw [hstep]; exact e3
      cases hst : stepOp cfg w op with
      | ok w1 =>
        rw [hst] at h
        exact key w1 (fun ops₁ => by simp only [runF, hst]) h
      | panic m w1 =>
        rw [hst] at h
        exact key w1 (fun ops₁ => by simp only [runF, hst]) h
      | ub m => rw [hst] at h; cases h
    | cloneFaulted cl k =>
      simp only [runF, Option.map_eq_some_iff, Prod.mk.injEq] at h
      obtain ⟨r, hr, h1, h2⟩ := h
      subst h2
      cases i with
      | zero =>
        simp only [List.getElem?_cons_zero, Option.some.injEq] at hi
        exact ⟨[], cl, k, ops, w, [], rfl, rfl, rfl, hi.symm⟩
      | succ i =>
        simp only [List.getElem?_cons_succ] at hi
        obtain ⟨ops₁, cl', k', ops₂, w₁, log₁, e1, e2, e3, e4⟩ := ih w r.1 r.2 hr i o hi
        refine ⟨.cloneFaulted cl k :: ops₁, cl', k', ops₂, w₁,
          cloneFaultOutcome isZ w cl k :: log₁, by rw [e1]; rfl, ?_, ?_, e4⟩
        · simp only [OpF.faultCount, e2]
        · simp only [runF, e3, Option.map_some]

/-! ## C. Clone order and drop order of a world against `owned` -/

theorem perm_append_interchange (A B C D : List α) :
    ((A ++ B) ++ (C ++ D)).Perm ((A ++ C) ++ (B ++ D)) := by
  rw [List.append_assoc, List.append_assoc]
  refine List.Perm.append_left A ?_
  rw [← List.append_assoc, ← List.append_assoc]
  exact List.Perm.append_right D List.perm_append_comm

theorem flatMap_append_perm {β : Type} (l : List β) (p q : β → List α) :
    (l.flatMap (fun i => p i ++ q i)).Perm (l.flatMap p ++ l.flatMap q) := by
  induction l with
  | nil => simp
  | cons a l ih =>
    simp only [List.flatMap_cons]
    exact (List.Perm.append_left _ ih).trans (perm_append_interchange _ _ _ _)

theorem flatMap_perm_pointwise {β : Type} (l : List β) (f g : β → List α)
    (h : ∀ x ∈ l, (f x).Perm (g x)) : (l.flatMap f).Perm (l.flatMap g) := by
  induction l with
  | nil => simp
  | cons a l ih =>
    simp only [List.flatMap_cons]
    exact (h a List.mem_cons_self).append (ih (fun x hx => h x (List.mem_cons_of_mem _ hx)))

theorem flatMap_getElem?_toList_range (c : List α) (n : Nat) :
    (List.range n).flatMap (fun i => c[i]?.toList) = c.take n := by
  induction n with
  | zero => simp
  | succ n ih =>
    rw [List.range_succ, List.flatMap_append, ih, List.take_add_one]
    simp

theorem filterMap_cons_toList {β : Type} (F : β → Option α) (c : β) (cs : List β) :
    (c :: cs).filterMap F = (F c).toList ++ cs.filterMap F := by
  rw [List.filterMap_cons]
  cases F c <;> rfl

/-- Entity-major traversal of a rectangular block of columns is a permutation of the
column-major one. -/
theorem transpose_perm (cols : List (List α)) (n : Nat) (h : ∀ c ∈ cols, c.length = n) :
    ((List.range n).flatMap (fun i => cols.filterMap (fun c => c[i]?))).Perm (cols.flatMap id) := by
  induction cols with
  | nil => simp
  | cons c cs ih =>
    have ih' := ih (fun c' hc' => h c' (List.mem_cons_of_mem _ hc'))
    have hc : c.length = n := h c List.mem_cons_self
    have e : (fun (i : Nat) => (c :: cs).filterMap (fun (c : List α) => c[i]?))
        = (fun (i : Nat) => c[i]?.toList ++ cs.filterMap (fun (c : List α) => c[i]?)) := by
      funext i; exact filterMap_cons_toList (fun c : List α => c[i]?) c cs
    rw [e, List.flatMap_cons]
    refine (flatMap_append_perm _ _ _).trans ?_
    rw [flatMap_getElem?_toList_range, List.take_of_length_le (by omega)]
    exact List.Perm.append_left _ ih'

theorem flatMap_take_eq (cols : List (List α)) (n : Nat) (h : ∀ c ∈ cols, c.length = n) :
    cols.flatMap (fun c => c.take n) = cols.flatMap id := by
  induction cols with
  | nil => rfl
  | cons c cs ih =>
    simp only [List.flatMap_cons, id]
    rw [ih (fun c' hc' => h c' (List.mem_cons_of_mem _ hc')),
      List.take_of_length_le (by rw [h c List.mem_cons_self]; exact Nat.le_refl _)]

/-- Under the invariant the drop order of archetype `s` is `owned s`. -/
theorem World.dropPerArch_eq_owned {cfg : Cfg} {w : World α} (hw : WInv cfg w) :
    w.dropPerArch = w.archs.map owned := by
  unfold World.dropPerArch
  apply List.map_congr_left
  intro s hs
  exact flatMap_take_eq s.cols s.len (hw.inv s hs).colsLen

theorem World.dropPerArch_flatten_owned {cfg : Cfg} {w : World α} (hw : WInv cfg w) :
    w.dropPerArch.flatten = w.archs.flatMap owned := by
  rw [World.dropPerArch_eq_owned hw, List.flatMap_def]

/-- Under the invariant the clone order of every archetype is a permutation of its `owned`
values (entity-major instead of column-major): `world.clone()` visits exactly the owned values,
each once. -/
theorem World.clonePerArch_get {cfg : Cfg} {w : World α} (hw : WInv cfg w) {a : Nat}
    {s : Storage α} (g : w.archs[a]? = some s) :
    ∃ c, w.clonePerArch[a]? = some c ∧ c.Perm (owned s) := by
  refine ⟨(List.range s.len).flatMap (fun i => s.cols.filterMap (fun c => c[i]?)), ?_, ?_⟩
  · simp only [World.clonePerArch, List.getElem?_map, g, Option.map_some]
  · exact transpose_perm s.cols s.len (hw.get g).colsLen

theorem World.clonePerArch_flatten_perm {cfg : Cfg} {w : World α} (hw : WInv cfg w) :
    w.clonePerArch.flatten.Perm (w.archs.flatMap owned) := by
  rw [World.clonePerArch_flatten]
  exact flatMap_perm_pointwise _ _ _
    (fun s hs => transpose_perm s.cols s.len (hw.inv s hs).colsLen)

theorem drop_go_owned {cfg : Cfg} :
    ∀ (l : List (Storage α)) (acc : List α), (∀ s ∈ l, Inv cfg s) →
      World.drop.go l acc = .ok (acc ++ l.flatMap owned) () := by
  intro l
  induction l with
  | nil => intro acc _; simp [World.drop.go]
  | cons s l ih =>
    intro acc hl
    simp only [World.drop.go, drop_returns_owned (hl s List.mem_cons_self)]
    rw [ih _ (fun s' hs' => hl s' (List.mem_cons_of_mem _ hs'))]
    simp

/-- Dropping a world that satisfies the invariant never reaches `ub` and drops exactly the owned
values, archetype by archetype in declaration order, each archetype column-major. -/
theorem World.drop_spec {cfg : Cfg} {w : World α} (hw : WInv cfg w) :
    w.drop = .ok (w.archs.flatMap owned) () := by
  simp [World.drop, drop_go_owned (cfg := cfg) w.archs [] hw.inv]

/-! ## D. One faulted clone; the faulting world drop -/

/-- What a `cloneFaulted cl k` on `w` made, by cases on whether the fault is reached.
`n` is the number of values cloned before the fault (all of them when nothing faults). -/
theorem cloneFaultOutcome_made (isZ : α → Bool) (w : World α) (cl : α → α) (k : Nat) :
    ∃ n, n ≤ w.clonePerArch.flatten.length
      ∧ (cloneFaultOutcome isZ w cl k).dropped ++ (cloneFaultOutcome isZ w cl k).leaked
          = (w.clonePerArch.flatten.take n).map cl
      ∧ ((cloneFault isZ w.clonePerArch k).isSome
          ↔ ∃ v, w.clonePerArch.flatten[n]? = some v ∧ isZ v = false)
      ∧ ((cloneFault isZ w.clonePerArch k).isSome
          → nzCount isZ (w.clonePerArch.flatten.take n) = k)
      ∧ (cloneFault isZ w.clonePerArch k = none
          → n = w.clonePerArch.flatten.length ∧ (cloneFaultOutcome isZ w cl k).leaked = []
            ∧ nzCount isZ w.clonePerArch.flatten ≤ k) := by
  cases h : cloneFault isZ w.clonePerArch k with
  | some src =>
    obtain ⟨rest, h1, h2, v, rest', rfl, hv⟩ := cloneFault_prefix isZ _ k src h
    have ho : cloneFaultOutcome isZ w cl k = ⟨src.dropped.map cl, src.leaked.map cl⟩ := by
      simp only [cloneFaultOutcome, h]
    refine ⟨(src.dropped ++ src.leaked).length, ?_, ?_, ?_, ?_, ?_⟩
    · rw [h1]; simp only [List.length_append]; omega
    · rw [ho, h1, List.take_left, List.map_append]
    · simp only [Option.isSome_some, true_iff]
      refine ⟨v, ?_, hv⟩
      rw [h1, List.getElem?_append_right (Nat.le_refl _)]
      simp
    · intro _
      rw [h1, List.take_left]; exact h2
    · intro hn; cases hn
  | none =>
    have ho : cloneFaultOutcome isZ w cl k = ⟨w.clonePerArch.flatten.map cl, []⟩ := by
      simp only [cloneFaultOutcome, h]
    refine ⟨w.clonePerArch.flatten.length, Nat.le_refl _, ?_, ?_, ?_, ?_⟩
    · rw [ho, List.take_length]; simp
    · simp
    · intro hn; cases hn
    · intro _
      refine ⟨rfl, by rw [ho], ?_⟩
      have h3 : ¬ k < nzCount isZ w.clonePerArch.flatten := by
        intro hk
        have := (cloneFault_some_iff isZ w.clonePerArch k).mpr hk
        rw [h] at this; cases this
      omega

/-- Fault case, archetype structure: the dropped clones are those of the archetypes before
archetype `m` (cloned completely), the leaked ones those of a proper prefix of archetype `m`,
which continues with the non-zero-sized value `v` whose `Clone::clone` panicked. -/
theorem cloneFaultOutcome_struct (isZ : α → Bool) (w : World α) (cl : α → α) (k : Nat)
    (src : FaultOutcome α) (h : cloneFault isZ w.clonePerArch k = some src) :
    cloneFaultOutcome isZ w cl k = ⟨src.dropped.map cl, src.leaked.map cl⟩
      ∧ ∃ m a v rest, w.clonePerArch[m]? = some a
          ∧ src.dropped = (w.clonePerArch.take m).flatten
          ∧ a = src.leaked ++ v :: rest ∧ isZ v = false := by
  refine ⟨by simp only [cloneFaultOutcome, h], ?_⟩
  exact cloneFault_leaked_then_fault isZ _ k src h

/-- No-fault case: every value of the world is cloned, all clones are dropped. -/
theorem cloneFaultOutcome_none (isZ : α → Bool) (w : World α) (cl : α → α) (k : Nat)
    (h : cloneFault isZ w.clonePerArch k = none) :
    cloneFaultOutcome isZ w cl k = ⟨w.clonePerArch.flatten.map cl, []⟩ := by
  simp only [cloneFaultOutcome, h]

/-- Unconditionally: what the faulting drop dropped and what it leaked is, together, a
permutation of the drop-order list of the world. -/
theorem endOfLife_perm (isZ : α → Bool) (w : World α) (k : Nat) :
    ((endOfLife isZ w k).dropped ++ (endOfLife isZ w k).leaked).Perm w.dropPerArch.flatten := by
  unfold endOfLife
  cases h : dropFault isZ w.dropPerArch k with
  | some o => exact dropFault_partition isZ _ k o h
  | none => simp

theorem endOfLife_none (isZ : α → Bool) (w : World α) (k : Nat)
    (h : dropFault isZ w.dropPerArch k = none) :
    endOfLife isZ w k = ⟨w.dropPerArch.flatten, []⟩ := by
  simp only [endOfLife, h]

theorem endOfLife_some (isZ : α → Bool) (w : World α) (k : Nat) (o : FaultOutcome α)
    (h : dropFault isZ w.dropPerArch k = some o) : endOfLife isZ w k = o := by
  simp only [endOfLife, h]

/-- End of life of a world satisfying the invariant, for every fault position `k`. -/
theorem endOfLife_spec {cfg : Cfg} (isZ : α → Bool) {w : World α} (hw : WInv cfg w) (k : Nat) :
    -- dropped and leaked partition the owned values
    ((endOfLife isZ w k).dropped ++ (endOfLife isZ w k).leaked).Perm (w.archs.flatMap owned)
    -- no double drop, nothing dropped is leaked
    ∧ ((w.archs.flatMap owned).Nodup →
        (endOfLife isZ w k).dropped.Nodup ∧ (endOfLife isZ w k).leaked.Nodup
        ∧ ∀ x ∈ (endOfLife isZ w k).dropped, x ∉ (endOfLife isZ w k).leaked)
    -- a fault happens iff `k` is smaller than the number of non-zero-sized owned values
    ∧ ((dropFault isZ w.dropPerArch k).isSome ↔ k < nzCount isZ (w.archs.flatMap owned))
    -- no fault: the model's `World.drop`, everything dropped in drop order, nothing leaked
    ∧ w.drop = .ok (w.archs.flatMap owned) ()
    ∧ (dropFault isZ w.dropPerArch k = none →
        endOfLife isZ w k = ⟨w.archs.flatMap owned, []⟩)
    -- fault: the leak is a suffix of the owned values of exactly ONE archetype, right after the
    -- non-zero-sized value `v` whose `Drop::drop` panicked; all the rest is dropped
    ∧ (∀ o, dropFault isZ w.dropPerArch k = some o → endOfLife isZ w k = o
        ∧ ∃ a s p v, w.archs[a]? = some s ∧ owned s = p ++ v :: o.leaked ∧ isZ v = false
          ∧ o.dropped = (w.archs.take a).flatMap owned ++ (p ++ [v])
              ++ (w.archs.drop (a + 1)).flatMap owned) := by
  have hflat := World.dropPerArch_flatten_owned hw
  have hp := endOfLife_perm isZ w k
  rw [hflat] at hp
  refine ⟨hp, ?_, ?_, World.drop_spec hw, ?_, ?_⟩
  · intro hnd
    have hnd' := hp.nodup_iff.2 hnd
    rw [List.nodup_append] at hnd'
    exact ⟨hnd'.1, hnd'.2.1, fun x hx hy => hnd'.2.2 x hx x hy rfl⟩
  · rw [dropFault_some_iff, hflat]; rfl
  · intro hn; rw [endOfLife_none isZ w k hn, hflat]
  · intro o ho
    refine ⟨endOfLife_some isZ w k o ho, ?_⟩
    obtain ⟨n, a, pre, h1, h2, _, _, ⟨p, v, h5, h6⟩, h7⟩ :=
      dropFault_leak_one_archetype isZ _ k o ho
    rw [World.dropPerArch_eq_owned hw] at h1 h7
    rw [List.getElem?_map] at h1
    cases g : w.archs[n]? with
    | none => rw [g] at h1; cases h1
    | some s =>
      rw [g] at h1
      simp only [Option.map_some, Option.some.injEq] at h1
      refine ⟨n, s, p, v, g, ?_, h6, ?_⟩
      · rw [h1, h2, h5]; simp
      · rw [h7, h5, ← List.map_take, ← List.map_drop, ← List.flatMap_def, ← List.flatMap_def]

theorem nodup_map_of_injective {β : Type} (f : α → β) (hf : ∀ x y, f x = f y → x = y)
    {l : List α} (h : l.Nodup) : (l.map f).Nodup :=
  List.Pairwise.map f (fun _ _ hab hfab => hab (hf _ _ hfab)) h

/-- `Clone for World` followed by dropping the clone, on a world satisfying the invariant: the
clone is made (no panic, no `ub`), satisfies the invariant, and dropping it drops exactly the
clones of the owned values (in drop order), never reaching `ub`. -/
theorem World.clone_then_drop {cfg : Cfg} {w : World α} (hw : WInv cfg w) (cl : α → α) :
    ∃ wc, w.clone cl = .ok wc () ∧ WInv cfg wc
      ∧ wc.drop = .ok ((w.archs.flatMap owned).map cl) () := by
  have hrel : WRel cfg w
      ⟨w.ids, w.archs.map (fun s => { s with cols := s.cols.map (·.map cl) })⟩ :=
    WRel.map hw _
      (fun s hi => ⟨cloneStorage_inv hi, SReach.of_step hi (.clone s cl), by simp⟩)
  refine ⟨_, World.clone_spec hw cl, hrel.winv, ?_⟩
  rw [World.drop_spec hrel.winv]
  congr 1
  rw [List.flatMap_map, List.map_flatMap]
  congr 1
  funext s
  exact clone_owned (cfg := cfg) (.clone s cl)

/-- A `cloneFaulted` whose `k` is too large IS "clone, then drop the clone": the model's
`World.clone` succeeds, dropping its result drops `cl` of every owned value, and the outcome
recorded by the history (`dropped`, listed in CLONE order) is a permutation of exactly that list;
nothing is leaked. -/
theorem cloneFaultOutcome_no_fault {cfg : Cfg} (isZ : α → Bool) {w : World α} (hw : WInv cfg w)
    (cl : α → α) (k : Nat) (h : cloneFault isZ w.clonePerArch k = none) :
    ∃ wc, w.clone cl = .ok wc () ∧ WInv cfg wc
      ∧ wc.drop = .ok ((w.archs.flatMap owned).map cl) ()
      ∧ (cloneFaultOutcome isZ w cl k).dropped.Perm ((w.archs.flatMap owned).map cl)
      ∧ (cloneFaultOutcome isZ w cl k).leaked = [] := by
  obtain ⟨wc, h1, h2, h3⟩ := World.clone_then_drop hw cl
  refine ⟨wc, h1, h2, h3, ?_, ?_⟩
  · rw [cloneFaultOutcome_none isZ w cl k h]
    exact (World.clonePerArch_flatten_perm hw).map cl
  · rw [cloneFaultOutcome_none isZ w cl k h]

/-- With pairwise distinct owned values and an injective `Clone`, no clone made by a faulted
clone is dropped twice, leaked twice, or both dropped and leaked. -/
theorem cloneFaultOutcome_nodup {cfg : Cfg} (isZ : α → Bool) {w : World α} (hw : WInv cfg w)
    (cl : α → α) (k : Nat) (hcl : ∀ x y, cl x = cl y → x = y)
    (hnd : (w.archs.flatMap owned).Nodup) :
    ((cloneFaultOutcome isZ w cl k).dropped ++ (cloneFaultOutcome isZ w cl k).leaked).Nodup := by
  obtain ⟨n, _, h2, _⟩ := cloneFaultOutcome_made isZ w cl k
  rw [h2]
  apply nodup_map_of_injective cl hcl
  have hflat : w.clonePerArch.flatten.Nodup :=
    (World.clonePerArch_flatten_perm hw).nodup_iff.2 hnd
  exact List.Nodup.sublist (List.take_sublist n _) hflat

/-! ## E. List plumbing for the whole-world balance -/

/-- From "for every index there is a witness" to a list of witnesses (no choice axiom needed:
induction on the list). -/
theorem exists_list_of_forall_getElem? {β γ : Type} :
    ∀ (l : List β) (P : Nat → β → γ → Prop), (∀ (a : Nat) x, l[a]? = some x → ∃ y, P a x y) →
      ∃ ys : List γ, ys.length = l.length
        ∧ ∀ (a : Nat) x, l[a]? = some x → ∃ y, ys[a]? = some y ∧ P a x y := by
  intro l
  induction l with
  | nil => intro P _; exact ⟨[], rfl, fun a x hx => by simp at hx⟩
  | cons x l ih =>
    intro P h
    obtain ⟨y0, hy0⟩ := h 0 x rfl
    obtain ⟨ys, hl, hys⟩ := ih (fun a => P (a + 1)) (fun a x' hx' => h (a + 1) x' (by simpa using hx'))
    refine ⟨y0 :: ys, by simp [hl], ?_⟩
    intro a x' hx'
    cases a with
    | zero =>
      simp only [List.getElem?_cons_zero, Option.some.injEq] at hx'
      subst hx'
      exact ⟨y0, rfl, hy0⟩
    | succ a =>
      simp only [List.getElem?_cons_succ] at hx'
      obtain ⟨y, h1, h2⟩ := hys a x' hx'
      exact ⟨y, by simpa using h1, h2⟩

/-- Pointwise balances `f' x ++ D z ~ f y ++ C z` along three lists of the same length add up. -/
theorem perm_flatMap_pointwise3 {β γ δ : Type} (f' : β → List α) (f : γ → List α)
    (D C : δ → List α) :
    ∀ (zs : List δ) (xs : List β) (ys : List γ), xs.length = zs.length → ys.length = zs.length →
      (∀ (a : Nat) x y z, xs[a]? = some x → ys[a]? = some y → zs[a]? = some z →
        (f' x ++ D z).Perm (f y ++ C z)) →
      (xs.flatMap f' ++ zs.flatMap D).Perm (ys.flatMap f ++ zs.flatMap C) := by
  intro zs
  induction zs with
  | nil =>
    intro xs ys hx hy _
    have : xs = [] := List.eq_nil_of_length_eq_zero hx
    subst this
    have : ys = [] := List.eq_nil_of_length_eq_zero hy
    subst this
    simp
  | cons z zs ih =>
    intro xs ys hx hy h
    cases xs with
    | nil => simp at hx
    | cons x xs =>
      cases ys with
      | nil => simp at hy
      | cons y ys =>
        have h0 := h 0 x y z rfl rfl rfl
        have ih' := ih xs ys (by simpa using hx) (by simpa using hy)
          (fun a x' y' z' g1 g2 g3 => h (a + 1) x' y' z' (by simpa using g1) (by simpa using g2)
            (by simpa using g3))
        simp only [List.flatMap_cons]
        exact (perm_append_interchange _ _ _ _).trans
          ((h0.append ih').trans (perm_append_interchange _ _ _ _))

/-- The index form of a `flatMap` over a list of label paths. -/
theorem flatMap_range_getD {β : Type} (Ls : List β) (d : β) (F : β → List α) :
    (List.range Ls.length).flatMap (fun a => F (Ls.getD a d)) = Ls.flatMap F := by
  induction Ls with
  | nil => rfl
  | cons L Ls ih =>
    rw [List.length_cons, List.range_succ_eq_map, List.flatMap_cons, List.flatMap_map]
    simp only [List.getD_cons_zero, List.flatMap_cons]
    congr 1

theorem flatMap_owned_nil_of_len_zero {cfg : Cfg} {w : World α} (hw : WInv cfg w)
    (hf : ∀ s ∈ w.archs, s.len = 0) : w.archs.flatMap owned = [] := by
  rw [List.flatMap_eq_nil_iff]
  intro s hs
  exact owned_of_len_zero (hw.inv s hs) (hf s hs)

end Gecs

section
open Gecs
#print axioms OpF.erase_append
#print axioms runF_eq_run
#print axioms runF_fst
#print axioms runF_log_length
#print axioms runF_append
#print axioms runF_ok
#print axioms runF_prefix
#print axioms runF_log_get
#print axioms transpose_perm
#print axioms World.dropPerArch_eq_owned
#print axioms World.clonePerArch_get
#print axioms World.clonePerArch_flatten_perm
#print axioms World.drop_spec
#print axioms cloneFaultOutcome_made
#print axioms cloneFaultOutcome_struct
#print axioms endOfLife_perm
#print axioms endOfLife_spec
#print axioms World.clone_then_drop
#print axioms cloneFaultOutcome_no_fault
#print axioms cloneFaultOutcome_nodup
#print axioms exists_list_of_forall_getElem?
#print axioms perm_flatMap_pointwise3
#print axioms flatMap_range_getD
end
