/-
The loop templates of `ecs_iter!` / `ecs_iter_borrow!` and `ecs_iter_destroy!`, as extracted from
macros/src/generate/query.rs on every run (Gecs/Gen/Steps.lean: `iterLoopT`, `iterDestroyLoopT`),
interpreted by Model/LoopSteps.lean, ARE the model's `iterLoop` / `destroyLoop` (Model/Query.lean)
— for every storage, every parameter list and every user closure (arbitrary state machine,
arbitrary results and writes, panics included), by induction over the index list.
-/
import Gecs.Gen.Steps

set_option linter.unusedSimpArgs false

namespace Gecs

variable {α σ : Type}

theorem gen_loop_destroy_loop (cfg : Cfg) (idA : Nat) (ps : List Param) (f : Closure σ α Step4)
    (e0 : LEnv) (hc : e0.closure = true) (ha : e0.arch = true) :
    ∀ (idxs : List Nat) (st : σ) (s : Storage α),
      runLoop cfg Gen.iterDestroyLoopT idA ps f step4Name e0 idxs st s = destroyLoop cfg idA ps f idxs st s := by
  intro idxs
  induction idxs with
  | nil => intro st s; simp [runLoop, destroyLoop]
  | cons idx rest ih =>
    intro st s
    unfold runLoop destroyLoop
    by_cases hv : slicesValid cfg s = true
    · simp only [Gen.iterDestroyLoopT, qsRun, qsStep, ha, hv, if_true, hc]
      cases hb : bindArgs idA s s.version idx ps with
      | none => rfl
      | some args =>
        simp only []
        cases hf : f st args with
        | panic st' ws => rfl
        | ret st' ws r =>
          have ih' := ih
          simp only [Gen.iterDestroyLoopT] at ih'
          cases r with
          | cont => simp [lookupArm, step4Name, runArm, List.find?, ih']
          | brk => simp [lookupArm, step4Name, runArm, List.find?]
          | contDestroy =>
            simp only [lookupArm, step4Name, List.find?, runArm]
            simp only [show ("Continue" == "ContinueDestroy") = false by decide,
              show ("Break" == "ContinueDestroy") = false by decide,
              show ("ContinueDestroy" == "ContinueDestroy") = true by decide, Option.map]
            cases he : (applyWrites s idx ps ws).ents[idx]? with
            | none => simp [runArm, he]
            | some e =>
              simp only [runArm, he]
              cases hd : destroyEnt cfg (applyWrites s idx ps ws) e with
              | ok r2 s2 => simp [runArm, ih']
              | panic m s2 => simp
              | ub m => simp
          | brkDestroy =>
            simp only [lookupArm, step4Name, List.find?, runArm]
            simp only [show ("Continue" == "BreakDestroy") = false by decide,
              show ("Break" == "BreakDestroy") = false by decide,
              show ("ContinueDestroy" == "BreakDestroy") = false by decide,
              show ("BreakDestroy" == "BreakDestroy") = true by decide, Option.map]
            cases he : (applyWrites s idx ps ws).ents[idx]? with
            | none => simp [runArm, he]
            | some e =>
              simp only [runArm, he]
              cases hd : destroyEnt cfg (applyWrites s idx ps ws) e with
              | ok r2 s2 => simp [runArm]
              | panic m s2 => simp
              | ub m => simp
    · have hv' : slicesValid cfg s = false := by simpa using hv
      simp [Gen.iterDestroyLoopT, qsRun, qsStep, ha, hv']

theorem gen_loop_iter_loop (cfg : Cfg) (idA : Nat) (ps : List Param) (f : Closure σ α Step)
    (e0 : LEnv) (v : Nat) (hc : e0.closure = true) (hv : e0.version = some v) (hs : e0.slices = true) :
    ∀ (idxs : List Nat) (st : σ) (s : Storage α),
      runLoop cfg Gen.iterLoopT idA ps f stepName e0 idxs st s = iterLoop idA ps f v idxs st s := by
  intro idxs
  induction idxs with
  | nil => intro st s; simp [runLoop, iterLoop]
  | cons idx rest ih =>
    intro st s
    unfold runLoop iterLoop
    simp only [Gen.iterLoopT, qsRun, hc, hv, hs]
    cases hb : bindArgs idA s v idx ps with
    | none => rfl
    | some args =>
      simp only []
      cases hf : f st args with
      | panic st' ws => rfl
      | ret st' ws r =>
        have ih' := ih
        simp only [Gen.iterLoopT] at ih'
        cases r with
        | cont => simp [lookupArm, stepName, runArm, List.find?, ih']
        | brk => simp [lookupArm, stepName, runArm, List.find?]

/-- One `ecs_iter!` block, as extracted, is the model's block. -/
theorem gen_loop_iter_block (cfg : Cfg) (idA : Nat) (ps : List Param) (f : Closure σ α Step) (st : σ) (s : Storage α) :
    runBlock cfg Gen.iterLoopT idA ps f stepName st s
      = (if slicesValid cfg s then iterLoop idA ps f s.version (List.range s.len) st s
         else .ub "get_all_slices_mut: data not valid up to len") := by
  unfold runBlock
  by_cases hv : slicesValid cfg s = true
  · have h := gen_loop_iter_loop cfg idA ps f
      { closure := true, arch := true, version := some s.version, len := some s.len, slices := true } s.version rfl rfl rfl
      (List.range s.len) st s
    simp only [Gen.iterLoopT] at h
    simp [Gen.iterLoopT, qsRun, qsStep, hv, h]
  · have hv' : slicesValid cfg s = false := by simpa using hv
    simp [Gen.iterLoopT, qsRun, qsStep, hv']

/-- One `ecs_iter_destroy!` block, as extracted, is the model's block. -/
theorem gen_loop_destroy_block (cfg : Cfg) (idA : Nat) (ps : List Param) (f : Closure σ α Step4) (st : σ) (s : Storage α) :
    runBlock cfg Gen.iterDestroyLoopT idA ps f step4Name st s
      = destroyLoop cfg idA ps f (List.range s.len).reverse st s := by
  unfold runBlock
  have h := gen_loop_destroy_loop cfg idA ps f
    { closure := true, arch := true, version := none, len := some s.len, slices := false } rfl rfl
    (List.range s.len).reverse st s
  simp only [Gen.iterDestroyLoopT] at h
  simp [Gen.iterDestroyLoopT, qsRun, qsStep, h]

/-- `ecs_iter!` / `ecs_iter_borrow!` over all matched archetypes, every block run from the
extracted template; a `stop` (the `return` inside the wrapper closure) ends the whole query. -/
def iterQueryT (cfg : Cfg) (f : Closure σ α Step) : Query → σ → World α → QOut σ α
  | [], st, w => .ok st w
  | qa :: rest, st, w =>
    match w.archs[qa.a]? with
    | none => .ub "no such archetype"
    | some s =>
      match runBlock cfg Gen.iterLoopT (w.ids.getD qa.a ID_RANGE) qa.params f stepName st s with
      | .done st' s' => iterQueryT cfg f rest st' (w.setArch qa.a s')
      | .stop st' s' => .ok st' (w.setArch qa.a s')
      | .panic m st' s' => .panic m st' (w.setArch qa.a s')
      | .ub m => .ub m

def iterDestroyQueryT (cfg : Cfg) (f : Closure σ α Step4) : Query → σ → World α → QOut σ α
  | [], st, w => .ok st w
  | qa :: rest, st, w =>
    match w.archs[qa.a]? with
    | none => .ub "no such archetype"
    | some s =>
      match runBlock cfg Gen.iterDestroyLoopT (w.ids.getD qa.a ID_RANGE) qa.params f step4Name st s with
      | .done st' s' => iterDestroyQueryT cfg f rest st' (w.setArch qa.a s')
      | .stop st' s' => .ok st' (w.setArch qa.a s')
      | .panic m st' s' => .panic m st' (w.setArch qa.a s')
      | .ub m => .ub m

/-- The whole `ecs_iter!` expansion, from the extracted template, is the model's `iterQuery`. -/
theorem gen_loop_iter_query (cfg : Cfg) (f : Closure σ α Step) :
    ∀ (q : Query) (st : σ) (w : World α), iterQueryT cfg f q st w = iterQuery cfg f q st w := by
  intro q
  induction q with
  | nil => intro st w; rfl
  | cons qa rest ih =>
    intro st w
    unfold iterQueryT iterQuery
    cases hs : w.archs[qa.a]? with
    | none => rfl
    | some s =>
      simp only [gen_loop_iter_block]
      by_cases hv : slicesValid cfg s = true
      · simp only [hv, if_true]
        cases iterLoop (w.ids.getD qa.a ID_RANGE) qa.params f s.version (List.range s.len) st s <;> simp [ih]
      · have hv' : slicesValid cfg s = false := by simpa using hv
        simp [hv']

/-- The whole `ecs_iter_destroy!` expansion, from the extracted template, is the model's
`iterDestroyQuery`. -/
theorem gen_loop_destroy_query (cfg : Cfg) (f : Closure σ α Step4) :
    ∀ (q : Query) (st : σ) (w : World α), iterDestroyQueryT cfg f q st w = iterDestroyQuery cfg f q st w := by
  intro q
  induction q with
  | nil => intro st w; rfl
  | cons qa rest ih =>
    intro st w
    unfold iterDestroyQueryT iterDestroyQuery
    cases hs : w.archs[qa.a]? with
    | none => rfl
    | some s =>
      simp only [gen_loop_destroy_block]
      cases destroyLoop cfg (w.ids.getD qa.a ID_RANGE) qa.params f (List.range s.len).reverse st s <;> simp [ih]

/-! ### The interpreter discriminates: the template of the pinned (pre-fix) tree (defect F2)

With `version` read once in front of the loop, the direct handle given to the closure at the
step after a removal carries the stale archetype version. -/

def f2Template : LoopT :=
  { Gen.iterDestroyLoopT with pre := [.aliasArchetype, .bindClosure, .bindArchetype, .readVersion, .readLen],
                              body := [.fetchSlices] }

/-- A storage with two live entities (slots 0, 1), version 3. -/
def f2State : Storage Nat :=
  { version := 3, len := 2, capacity := 2, freeHead := .freeEnd, slots := [⟨.data 0, 1⟩, ⟨.data 1, 1⟩],
    ents := [⟨0, 1⟩, ⟨1, 1⟩], cols := [[10, 11]], created := [], destroyed := [] }

def f2Cfg : Cfg := { maxCap := 16, vmax := 100, wrapping := false, events := false, debug := false }

/-- The closure records the version of the direct handle it is given and destroys the entity. -/
def f2Closure : Closure (List Nat) Nat Step4 := fun st args =>
  match args with
  | [Arg.dir k] => .ret (st ++ [k.ver]) [none] .contDestroy
  | _ => .ret st [] .cont

def seenVersions : LoopOut (List Nat) Nat → List Nat
  | .done st _ => st
  | .stop st _ => st
  | .panic _ st _ => st
  | .ub _ => []

/-- The repaired template hands out versions 3 then 4 (the removal in between advanced the
archetype version); the pre-fix template 3 and 3. -/
example : seenVersions (runBlock f2Cfg Gen.iterDestroyLoopT 0 [.dir] f2Closure step4Name [] f2State) = [3, 4]
    ∧ seenVersions (destroyLoop f2Cfg 0 [.dir] f2Closure [1, 0] [] f2State) = [3, 4]
    ∧ seenVersions (runBlock f2Cfg f2Template 0 [.dir] f2Closure step4Name [] f2State) = [3, 3] := by
  decide

end Gecs
