/-
The version step TRANSLATED from src/version.rs on every run (Gecs/Gen/Exprs.lean:
`slotVersionNextWrapping`, `slotVersionNextChecked`, `archVersionNextWrapping`,
`archVersionNextChecked` — the two `#[cfg]`-selected field initialisers of `SlotVersion::next`
and of `ArchetypeVersion::next`, `none` = the documented overflow panic) is the model's `nextVer`
(Model/Storage.lean) for every version a `NonZeroU32` can hold.
-/
import Gecs.Gen.Exprs
import Gecs.Lemmas.GenTie
import Gecs.Model.Storage

namespace Gecs

/-- For `vmax = u32::MAX`: with `wrapping_version` the model's step is the translated wrapping
initialiser, without it the translated checked one — for the slot generation and for the
archetype version alike. -/
theorem gen_version_step (cfg : Cfg) (v : Nat) (hmax : cfg.vmax = 4294967295) (hv : v ≤ cfg.vmax) :
    nextVer cfg v = (if cfg.wrapping then Gen.slotVersionNextWrapping v else Gen.slotVersionNextChecked v)
      ∧ nextVer cfg v = (if cfg.wrapping then Gen.archVersionNextWrapping v else Gen.archVersionNextChecked v) := by
  have hs : Gen.VERSION_START = VERSION_START := gen_version_start
  unfold nextVer Gen.slotVersionNextWrapping Gen.slotVersionNextChecked
    Gen.archVersionNextWrapping Gen.archVersionNextChecked
  rw [hs]
  rw [hmax] at hv ⊢
  by_cases hlt : v < 4294967295
  · have h1 : (v + 1) % 4294967296 = v + 1 := Nat.mod_eq_of_lt (by omega)
    have h2 : ¬ (v + 1 = 0) := by omega
    have h3 : v + 1 < 4294967296 := by omega
    simp [hlt, h1, h3]
  · have hv' : v = 4294967295 := by omega
    subst hv'
    cases cfg.wrapping <;> simp <;> decide

/-- Consequences in the words of the properties: without the feature the step panics exactly at
`u32::MAX` (C08 / C10: nothing is reissued, nothing changes), with it the step returns to the
start generation there (C19: the documented exception), and below `u32::MAX` both add one. -/
theorem gen_version_step_spec (v : Nat) (hv : v ≤ 4294967295) :
    (Gen.slotVersionNextChecked v = none ↔ v = 4294967295)
      ∧ (Gen.archVersionNextChecked v = none ↔ v = 4294967295)
      ∧ (v < 4294967295 → Gen.slotVersionNextChecked v = some (v + 1) ∧ Gen.slotVersionNextWrapping v = some (v + 1)
            ∧ Gen.archVersionNextChecked v = some (v + 1) ∧ Gen.archVersionNextWrapping v = some (v + 1))
      ∧ Gen.slotVersionNextWrapping 4294967295 = some VERSION_START
      ∧ Gen.archVersionNextWrapping 4294967295 = some VERSION_START := by
  have hs : Gen.VERSION_START = VERSION_START := gen_version_start
  unfold Gen.slotVersionNextWrapping Gen.slotVersionNextChecked
    Gen.archVersionNextWrapping Gen.archVersionNextChecked
  rw [hs]
  refine ⟨?_, ?_, ?_, by decide, by decide⟩
  · constructor
    · intro h; by_cases h3 : v + 1 < 4294967296
      · simp [h3] at h
      · omega
    · intro h; subst h; decide
  · constructor
    · intro h; by_cases h3 : v + 1 < 4294967296
      · simp [h3] at h
      · omega
    · intro h; subst h; decide
  · intro hlt
    have h1 : (v + 1) % 4294967296 = v + 1 := Nat.mod_eq_of_lt (by omega)
    have h2 : ¬ (v + 1 = 0) := by omega
    have h3 : v + 1 < 4294967296 := by omega
    simp [h1, h3]

-- non-vacuity at the boundary
example : Gen.slotVersionNextChecked 4294967295 = none := by decide
example : Gen.slotVersionNextChecked 4294967294 = some 4294967295 := by decide
example : Gen.archVersionNextWrapping 4294967295 = some 1 := by decide
-- the mutated steps differ from the model: a saturating add never panics, a dead check wraps
example : (fun v : Nat => (some (min (v + 1) 4294967295) : Option Nat)) 4294967295 ≠ none := by decide

end Gecs
