/-
The extracted skeleton of `EcsEventIterator::next` (`Gen.evT`) is the model's `EvIter.blocks`.
-/
import Gecs.Gen.Steps

namespace Gecs

theorem gen_event_iter_blocks (n : Nat) : ∀ (idxs : List Nat) (it : EvIter),
    EvIter.blocksT Gen.evT n idxs it = EvIter.blocks n idxs it := by
  intro idxs
  induction idxs with
  | nil => intro it; rfl
  | cons i rest ih =>
    intro it
    have hb : (Gen.evT.blockOk && Gen.evT.tailNone) = true := rfl
    have h1 : Gen.evT.incAllButLast = true := rfl
    have h2 : Gen.evT.lastEmpty = true := rfl
    unfold EvIter.blocksT EvIter.blocks
    simp only [hb, if_true, h1, h2]
    by_cases hw : it.which = i
    · simp only [hw, if_true]
      cases it.iters.getD i [] with
      | nil => simp only []; exact ih _
      | cons x xs => rfl
    · simp only [hw, if_false]; exact ih it

end Gecs
