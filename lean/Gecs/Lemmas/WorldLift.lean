/-
World-history-level statements of C02 (values), C04 (ownership), C13 (clone) and C17 (event
logs).

The four properties are proved per storage over labelled paths `LReach cfg s L s'`
(Lemmas/Labelled.lean, Props/C02, C04, C13, C17).  `run_labelled` (Lemmas/Bridge.lean) shows that
every finite history of the world API moves every archetype along SOME labelled path, but it
forgets which labels: C02 and C04 need `RowsOk` (every creation label carries one value per
column) and C04 needs `Lbl.isCDC` (no write / clone label), and both are statements about the
labels.  Part A–C therefore redo the induction over operations with the labels kept:

* `Op.Emits a op l`     — label `l` may be contributed by operation `op` to archetype `a`
                          (a `create a row` only emits `.created _ row` in archetype `a`; writes
                          only go to columns bound `&mut`; `clear_events` only emits `.clear`; …);
* `OpsEmit a ops L`     — `L` is the concatenation, in order, of one block of labels per
                          operation of `ops`, block `i` emitted by `ops[i]`;
* `run_emits`           — for ALL finite histories (hypotheses of `run_inv`): every archetype of
                          the final world is reached from the initial one by a labelled path
                          `L` with `OpsEmit a ops L`.

Part D derives `RowsOk` from `OpsScoped`, `isCDC` from the absence of writing / cloning
operations (`Op.IsCDC`) and `hasClear = false` from the absence of `clear_events`.  Part E (Gecs/Props/Histories.lean)
states the four properties for every archetype of the world reached by any history:

* `C17_all_histories`, `C17_since_last_clear`  (event logs; arbitrary initial logs);
* `C02_all_histories`, `C02_fetch_all_histories` (values; storage reads and world-API reads);
* `C04_all_histories`                          (ownership; histories of `Op.IsCDC` operations —
                                                 the per-storage conservation theorem is only
                                                 stated for creation/removal/clear paths);
* `C13_all_histories`                          (clone of the world reached by any history);
* `fresh_all_histories`, `withCapacity_all_histories` (C02/C04/C17 with ONE label path per
                                                 archetype, from a world fresh from
                                                 `World::with_capacity`).

Part F instantiates each of them on concrete histories of the two-archetype world `wEx`.
-/
import Gecs.Lemmas.Bridge
import Gecs.Props.C02
import Gecs.Props.C04
import Gecs.Props.C13
import Gecs.Props.C17

namespace Gecs
variable {α σ : Type}

/-! ## A. Labelled paths: composition, label predicates -/

theorem LReach.trans {cfg : Cfg} {s s' s'' : Storage α} {L₁ L₂ : List (Lbl α)}
    (h1 : LReach cfg s L₁ s') (h2 : LReach cfg s' L₂ s'') : LReach cfg s (L₁ ++ L₂) s'' := by
  induction h2 with
  | refl => rw [List.append_nil]; exact h1
  | step _ hi hl ih => rw [← List.append_assoc]; exact .step ih hi hl

/-- A labelled path all of whose labels satisfy `P`. -/
def LReachP (cfg : Cfg) (P : Lbl α → Prop) (s s' : Storage α) : Prop :=
  ∃ L, LReach cfg s L s' ∧ ∀ l ∈ L, P l

theorem LReachP.refl (cfg : Cfg) (P : Lbl α → Prop) (s : Storage α) : LReachP cfg P s s :=
  ⟨[], .refl s, fun _ h => nomatch h⟩

theorem LReachP.trans {cfg : Cfg} {P : Lbl α → Prop} {s s' s'' : Storage α}
    (h1 : LReachP cfg P s s') (h2 : LReachP cfg P s' s'') : LReachP cfg P s s'' := by
  obtain ⟨L₁, r1, p1⟩ := h1
  obtain ⟨L₂, r2, p2⟩ := h2
  refine ⟨L₁ ++ L₂, r1.trans r2, ?_⟩
  intro l hl
  rcases List.mem_append.mp hl with h | h
  · exact p1 l h
  · exact p2 l h

theorem LReachP.of_step {cfg : Cfg} {P : Lbl α → Prop} {s s' : Storage α} {l : Lbl α}
    (hi : Inv cfg s) (st : LStep cfg s l s') (hp : P l) : LReachP cfg P s s' := by
  refine ⟨[] ++ [l], .step (.refl s) hi st, ?_⟩
  intro l' hl'
  simp only [List.nil_append, List.mem_singleton] at hl'
  rw [hl']; exact hp

theorem LReachP.sreach {cfg : Cfg} {P : Lbl α → Prop} {s s' : Storage α}
    (h : LReachP cfg P s s') : SReach cfg s s' := by
  obtain ⟨L, r, _⟩ := h
  exact lreach_to_sreach r

/-! ## B. The loops, with labels -/

/-- The closure's writes: a finite sequence of `.write` labels, each to a column bound `&mut`. -/
theorem applyWrites_lreach {cfg : Cfg} {P : Lbl α → Prop} (idx : Nat) :
    ∀ (ps : List Param) (ws : List (Option α)) (s : Storage α), Inv cfg s →
      (∀ c, Param.comp c true ∈ ps → ∀ d x, P (.write d c x)) →
      LReachP cfg P s (applyWrites s idx ps ws) := by
  intro ps
  induction ps with
  | nil => intro ws s hs _; simp only [applyWrites]; exact .refl cfg P s
  | cons p ps ih =>
    intro ws s hs hW
    cases ws with
    | nil => simp only [applyWrites]; exact .refl cfg P s
    | cons w ws =>
      have hW' : ∀ c, Param.comp c true ∈ ps → ∀ d x, P (.write d c x) :=
        fun c hc => hW c (List.mem_cons_of_mem _ hc)
      by_cases hc : ∃ c x, p = .comp c true ∧ w = some x
      · obtain ⟨c, x, rfl, rfl⟩ := hc
        simp only [applyWrites]
        exact (LReachP.of_step hs (.write s idx c x) (hW c List.mem_cons_self idx x)).trans
          (ih ws _ (writeCell_inv hs) hW')
      · have : applyWrites s idx (p :: ps) (w :: ws) = applyWrites s idx ps ws := by
          rw [applyWrites]
          intro c x hp hw; exact hc ⟨c, x, hp, hw⟩
        rw [this]; exact ih ws s hs hW'

theorem iterLoop_lsat {cfg : Cfg} {P : Lbl α → Prop} (idA : Nat) (ps : List Param)
    (f : Closure σ α Step) (version : Nat)
    (hW : ∀ c, Param.comp c true ∈ ps → ∀ d x, P (.write d c x)) :
    ∀ (idxs : List Nat) (st : σ) (s : Storage α), Inv cfg s →
      (iterLoop idA ps f version idxs st s).sat (fun s' => LReachP cfg P s s') := by
  intro idxs
  induction idxs with
  | nil => intro st s hs; simp only [iterLoop, LoopOut.sat]; exact .refl cfg P s
  | cons idx rest ih =>
    intro st s hs
    rw [iterLoop]
    cases hb : bindArgs idA s version idx ps with
    | none => exact .refl cfg P s
    | some args =>
      simp only []
      cases hf : f st args with
      | panic st' ws => exact applyWrites_lreach idx ps ws s hs hW
      | ret st' ws r =>
        cases r with
        | brk => exact applyWrites_lreach idx ps ws s hs hW
        | cont =>
          have h1 := applyWrites_inv (cfg := cfg) hs idx ps ws
          exact LoopOut.sat_mono (ih st' _ h1)
            (fun s' g => (applyWrites_lreach idx ps ws s hs hW).trans g)

/-- One `destroyEnt` from an `Inv` state, whatever its outcome: a miss (no label), a removal
(one `.destroyed` label) or a panic in the same state. -/
theorem destroyEnt_lpost {cfg : Cfg} {P : Lbl α → Prop} {s : Storage α} (hs : Inv cfg s) (e : Ent)
    (hD : ∀ t row, P (.destroyed t row)) :
    (∃ r s', destroyEnt cfg s e = .ok r s' ∧ Inv cfg s' ∧ LReachP cfg P s s'
        ∧ s'.cols.length = s.cols.length)
    ∨ (∃ m, destroyEnt cfg s e = .panic m s) := by
  rcases destroyEnt_cases cfg s e hs with g | ⟨row, s2, g, gi, _, gn, _⟩ | ⟨m, g⟩
  · exact .inl ⟨none, s, g, hs, .refl cfg P s, rfl⟩
  · exact .inl ⟨some row, s2, g, gi, .of_step hs (.destroyEnt s s2 e row g) (hD e row), gn⟩
  · exact .inr ⟨m, g⟩

theorem destroyDirect_lpost {cfg : Cfg} {P : Lbl α → Prop} {s : Storage α} (hs : Inv cfg s)
    (d v : Nat) (hD : ∀ t row, P (.destroyed t row)) :
    (∃ r s', destroyDirect cfg s d v = .ok r s' ∧ Inv cfg s' ∧ LReachP cfg P s s'
        ∧ s'.cols.length = s.cols.length)
    ∨ (∃ m, destroyDirect cfg s d v = .panic m s) := by
  rcases destroyDirect_cases cfg s d v hs with g | ⟨row, s2, g, gi, _, gn, _⟩ | ⟨m, g⟩
  · exact .inl ⟨none, s, g, hs, .refl cfg P s, rfl⟩
  · rcases destroyDirect_spec cfg s d v hs with ⟨h1, _⟩ | ⟨t, _, _, _, _, _, ht, _⟩ | ⟨m, h1, _⟩
    · rw [h1] at g; cases g
    · exact .inl ⟨some row, s2, g, gi,
        .of_step hs (.destroyDirect s s2 d v t row ht g) (hD t row), gn⟩
    · rw [h1] at g; cases g
  · exact .inr ⟨m, g⟩

theorem storageDestroy_lpost {cfg : Cfg} {P : Lbl α → Prop} {s : Storage α} (hs : Inv cfg s)
    (direct : Bool) (k : Key) (hD : ∀ t row, P (.destroyed t row)) :
    (∃ r s', storageDestroy cfg s direct k = .ok r s' ∧ Inv cfg s' ∧ LReachP cfg P s s'
        ∧ s'.cols.length = s.cols.length)
    ∨ (∃ m, storageDestroy cfg s direct k = .panic m s) := by
  cases direct
  · exact destroyEnt_lpost hs _ hD
  · exact destroyDirect_lpost hs _ _ hD

/-- What `ecs_iter_destroy!` does to one storage, with labels. -/
def DestroyLPost (cfg : Cfg) (P : Lbl α → Prop) (s s' : Storage α) : Prop :=
  Inv cfg s' ∧ LReachP cfg P s s' ∧ s'.cols.length = s.cols.length

theorem DestroyLPost.refl {cfg : Cfg} {P : Lbl α → Prop} {s : Storage α} (hs : Inv cfg s) :
    DestroyLPost cfg P s s := ⟨hs, .refl cfg P s, rfl⟩

theorem DestroyLPost.trans {cfg : Cfg} {P : Lbl α → Prop} {s s' s'' : Storage α}
    (h1 : DestroyLPost cfg P s s') (h2 : DestroyLPost cfg P s' s'') : DestroyLPost cfg P s s'' :=
  ⟨h2.1, h1.2.1.trans h2.2.1, h2.2.2.trans h1.2.2⟩

theorem DestroyLPost.of_writes {cfg : Cfg} {P : Lbl α → Prop} {s : Storage α} (hs : Inv cfg s)
    (idx : Nat) (ps : List Param) (ws : List (Option α))
    (hW : ∀ c, Param.comp c true ∈ ps → ∀ d x, P (.write d c x)) :
    DestroyLPost cfg P s (applyWrites s idx ps ws) :=
  ⟨applyWrites_inv hs idx ps ws, applyWrites_lreach idx ps ws s hs hW,
    (applyWrites_colsOnly (cfg := cfg) hs idx ps ws).ncols⟩

theorem destroyLoop_lsat {cfg : Cfg} {P : Lbl α → Prop} (idA : Nat) (ps : List Param)
    (f : Closure σ α Step4)
    (hW : ∀ c, Param.comp c true ∈ ps → ∀ d x, P (.write d c x))
    (hD : ∀ t row, P (.destroyed t row)) :
    ∀ (idxs : List Nat) (st : σ) (s : Storage α), Inv cfg s →
      (destroyLoop cfg idA ps f idxs st s).sat (DestroyLPost cfg P s) := by
  intro idxs
  induction idxs with
  | nil => intro st s hs; simp only [destroyLoop, LoopOut.sat]; exact .refl hs
  | cons idx rest ih =>
    intro st s hs
    rw [destroyLoop]
    simp only [slicesValid_of_inv hs, if_true]
    cases hb : bindArgs idA s s.version idx ps with
    | none => exact .refl hs
    | some args =>
      simp only []
      cases hf : f st args with
      | panic st' ws => exact .of_writes hs idx ps ws hW
      | ret st' ws r =>
        simp only []
        have hw := DestroyLPost.of_writes (cfg := cfg) (P := P) hs idx ps ws hW
        have h1 := hw.1
        cases r with
        | cont => exact LoopOut.sat_mono (ih st' _ h1) (fun s' g => hw.trans g)
        | brk => exact hw
        | contDestroy =>
          simp only []
          cases he : (applyWrites s idx ps ws).ents[idx]? with
          | none => exact hw
          | some e =>
            simp only []
            rcases destroyEnt_lpost (P := P) h1 e hD with ⟨r, s2, g, gp⟩ | ⟨m, g⟩
            · rw [g]; simp only [reduceCtorEq, if_false]
              exact LoopOut.sat_mono (ih st' _ gp.1) (fun s' g' => hw.trans (DestroyLPost.trans gp g'))
            · rw [g]; exact hw
        | brkDestroy =>
          simp only []
          cases he : (applyWrites s idx ps ws).ents[idx]? with
          | none => exact hw
          | some e =>
            simp only []
            rcases destroyEnt_lpost (P := P) h1 e hD with ⟨r, s2, g, gp⟩ | ⟨m, g⟩
            · rw [g]; simp only [if_true]
              exact hw.trans gp
            · rw [g]; exact hw

/-! ## C. The world relation with labels; queries, single operations, histories -/

/-- `WRel` (Lemmas/QueryOps.lean) with the per-archetype labels kept: every archetype `a` is
reached by a labelled path whose labels satisfy `P a`. -/
structure WRelL (cfg : Cfg) (P : Nat → Lbl α → Prop) (w w' : World α) : Prop where
  winv : WInv cfg w'
  ids : w'.ids = w.ids
  len : w'.archs.length = w.archs.length
  lreach : ∀ (a : Nat) (s s' : Storage α),
    w.archs[a]? = some s → w'.archs[a]? = some s' → LReachP cfg (P a) s s'
  ncols : ∀ (a : Nat) (s s' : Storage α),
    w.archs[a]? = some s → w'.archs[a]? = some s' → s'.cols.length = s.cols.length

theorem WRelL.toWRel {cfg : Cfg} {P : Nat → Lbl α → Prop} {w w' : World α}
    (h : WRelL cfg P w w') : WRel cfg w w' where
  winv := h.winv
  ids := h.ids
  len := h.len
  reach := fun a s s' g1 g2 => (h.lreach a s s' g1 g2).sreach
  ncols := h.ncols

theorem WRelL.refl {cfg : Cfg} {P : Nat → Lbl α → Prop} {w : World α} (hw : WInv cfg w) :
    WRelL cfg P w w where
  winv := hw
  ids := rfl
  len := rfl
  lreach := by intro a s s' h1 h2; rw [h1] at h2; cases h2; exact .refl cfg (P a) s
  ncols := by intro a s s' h1 h2; rw [h1] at h2; cases h2; rfl

theorem WRelL.trans {cfg : Cfg} {P : Nat → Lbl α → Prop} {w w' w'' : World α}
    (h1 : WRelL cfg P w w') (h2 : WRelL cfg P w' w'') : WRelL cfg P w w'' where
  winv := h2.winv
  ids := h2.ids.trans h1.ids
  len := h2.len.trans h1.len
  lreach := by
    intro a s s'' g1 g2
    have hlt : a < w'.archs.length := by rw [h1.len]; exact (List.getElem?_eq_some_iff.mp g1).1
    have g : w'.archs[a]? = some w'.archs[a] := List.getElem?_eq_getElem hlt
    exact (h1.lreach a s _ g1 g).trans (h2.lreach a _ s'' g g2)
  ncols := by
    intro a s s'' g1 g2
    have hlt : a < w'.archs.length := by rw [h1.len]; exact (List.getElem?_eq_some_iff.mp g1).1
    have g : w'.archs[a]? = some w'.archs[a] := List.getElem?_eq_getElem hlt
    exact (h2.ncols a _ s'' g g2).trans (h1.ncols a s _ g1 g)

/-- Replacing one storage by a state reached from it: only archetype `a` gets labels. -/
theorem WRelL.setArch {cfg : Cfg} {P : Nat → Lbl α → Prop} {w : World α} (hw : WInv cfg w)
    {a : Nat} {s s' : Storage α} (hs : w.archs[a]? = some s) (hi : Inv cfg s')
    (hr : LReachP cfg (P a) s s') (hn : s'.cols.length = s.cols.length) :
    WRelL cfg P w (w.setArch a s') where
  winv := hw.setArch a hi
  ids := rfl
  len := World.setArch_length w a s'
  lreach := by
    intro b t t' g1 g2
    by_cases hab : a = b
    · subst hab
      rw [World.setArch_get_self s' (hw.lt_of_get hs)] at g2
      rw [hs] at g1; cases g1; cases g2; exact hr
    · rw [World.setArch_get_ne s' hab, g1] at g2; cases g2; exact .refl cfg (P b) t
  ncols := by
    intro b t t' g1 g2
    by_cases hab : a = b
    · subst hab
      rw [World.setArch_get_self s' (hw.lt_of_get hs)] at g2
      rw [hs] at g1; cases g1; cases g2; exact hn
    · rw [World.setArch_get_ne s' hab, g1] at g2; cases g2; rfl

/-- Applying the same atomic transformation to every storage. -/
theorem WRelL.map {cfg : Cfg} {P : Nat → Lbl α → Prop} {w : World α} (hw : WInv cfg w)
    (F : Storage α → Storage α)
    (hF : ∀ a s, Inv cfg s →
      Inv cfg (F s) ∧ LReachP cfg (P a) s (F s) ∧ (F s).cols.length = s.cols.length) :
    WRelL cfg P w ⟨w.ids, w.archs.map F⟩ where
  winv := by
    refine ⟨by simp [hw.idsLen], hw.idsNodup, hw.idsLt, ?_⟩
    intro s hs
    obtain ⟨s0, h0, rfl⟩ := List.mem_map.mp hs
    exact (hF 0 s0 (hw.inv s0 h0)).1
  ids := rfl
  len := by simp
  lreach := by
    intro a s s' g1 g2
    simp only [List.getElem?_map, g1, Option.map_some, Option.some.injEq] at g2
    subst g2; exact (hF a s (hw.get g1)).2.1
  ncols := by
    intro a s s' g1 g2
    simp only [List.getElem?_map, g1, Option.map_some, Option.some.injEq] at g2
    subst g2; exact (hF a s (hw.get g1)).2.2

theorem iterQuery_lsat {cfg : Cfg} {P : Nat → Lbl α → Prop} (f : Closure σ α Step) :
    ∀ (q : Query) (st : σ) (w : World α), WInv cfg w → QArchsIn w.archs.length q →
      (∀ qa ∈ q, ∀ c, Param.comp c true ∈ qa.params → ∀ d x, P qa.a (.write d c x)) →
      (iterQuery cfg f q st w).sat (WRelL cfg P w) := by
  intro q
  induction q with
  | nil => intro st w hw _ _; simp only [iterQuery, QOut.sat]; exact .refl hw
  | cons qa rest ih =>
    intro st w hw hq hW
    have hlt := hq qa List.mem_cons_self
    obtain ⟨s, hs⟩ : ∃ s, w.archs[qa.a]? = some s := ⟨_, List.getElem?_eq_getElem hlt⟩
    have hi := hw.get hs
    rw [iterQuery]
    simp only [hs, slicesValid_of_inv hi, if_true]
    have hl := iterLoop_sat (cfg := cfg) (w.ids.getD qa.a ID_RANGE) qa.params f s.version
      (List.range s.len) st s hi
    have hl' := iterLoop_lsat (cfg := cfg) (P := P qa.a) (w.ids.getD qa.a ID_RANGE) qa.params f
      s.version (hW qa List.mem_cons_self) (List.range s.len) st s hi
    cases hloop : iterLoop (w.ids.getD qa.a ID_RANGE) qa.params f s.version
        (List.range s.len) st s with
    | done st' s' =>
      rw [hloop] at hl hl'
      have hrel := WRelL.setArch (P := P) hw hs hl.1 hl' hl.2.2.ncols
      simp only []
      refine QOut.sat_mono (ih st' _ hrel.winv ?_ ?_) (fun w'' h => hrel.trans h)
      · intro qa' hqa'
        rw [World.setArch_length]; exact hq qa' (List.mem_cons_of_mem _ hqa')
      · intro qa' hqa'; exact hW qa' (List.mem_cons_of_mem _ hqa')
    | stop st' s' =>
      rw [hloop] at hl hl'; exact WRelL.setArch hw hs hl.1 hl' hl.2.2.ncols
    | panic m st' s' =>
      rw [hloop] at hl hl'; exact WRelL.setArch hw hs hl.1 hl' hl.2.2.ncols
    | ub m => rw [hloop] at hl; exact hl.elim

theorem iterDestroyQuery_lsat {cfg : Cfg} {P : Nat → Lbl α → Prop} (f : Closure σ α Step4) :
    ∀ (q : Query) (st : σ) (w : World α), WInv cfg w → QArchsIn w.archs.length q →
      (∀ qa ∈ q, ∀ c, Param.comp c true ∈ qa.params → ∀ d x, P qa.a (.write d c x)) →
      (∀ qa ∈ q, ∀ t row, P qa.a (.destroyed t row)) →
      (iterDestroyQuery cfg f q st w).sat (WRelL cfg P w) := by
  intro q
  induction q with
  | nil => intro st w hw _ _ _; simp only [iterDestroyQuery, QOut.sat]; exact .refl hw
  | cons qa rest ih =>
    intro st w hw hq hW hD
    have hlt := hq qa List.mem_cons_self
    obtain ⟨s, hs⟩ : ∃ s, w.archs[qa.a]? = some s := ⟨_, List.getElem?_eq_getElem hlt⟩
    have hi := hw.get hs
    rw [iterDestroyQuery]
    simp only [hs]
    have hl := destroyLoop_lsat (cfg := cfg) (P := P qa.a) (w.ids.getD qa.a ID_RANGE) qa.params f
      (hW qa List.mem_cons_self) (hD qa List.mem_cons_self) (List.range s.len).reverse st s hi
    cases hloop : destroyLoop cfg (w.ids.getD qa.a ID_RANGE) qa.params f
        (List.range s.len).reverse st s with
    | done st' s' =>
      rw [hloop] at hl
      have hrel := WRelL.setArch (P := P) hw hs hl.1 hl.2.1 hl.2.2
      simp only []
      refine QOut.sat_mono (ih st' _ hrel.winv ?_ ?_ ?_) (fun w'' h => hrel.trans h)
      · intro qa' hqa'
        rw [World.setArch_length]; exact hq qa' (List.mem_cons_of_mem _ hqa')
      · intro qa' hqa'; exact hW qa' (List.mem_cons_of_mem _ hqa')
      · intro qa' hqa'; exact hD qa' (List.mem_cons_of_mem _ hqa')
    | stop st' s' =>
      rw [hloop] at hl; exact WRelL.setArch hw hs hl.1 hl.2.1 hl.2.2
    | panic m st' s' =>
      rw [hloop] at hl; exact WRelL.setArch hw hs hl.1 hl.2.1 hl.2.2
    | ub m => rw [hloop] at hl; exact hl.elim

theorem findQuery_lsat {ρ : Type} {cfg : Cfg} {P : Nat → Lbl α → Prop} {w : World α}
    (hw : WInv cfg w) (q : Query) (f : Closure σ α ρ) (h : Handle) (st : σ)
    (hq : QColsIn w.sch q)
    (hW : ∀ qa ∈ q, ∀ c, Param.comp c true ∈ qa.params → ∀ d x, P qa.a (.write d c x)) :
    (findQuery cfg q f h st w).sat (WRelL cfg P w) := by
  unfold World.sch at hq
  unfold findQuery
  cases hr : routeWorld cfg w.ids h with
  | absent => exact .refl hw
  | panic m => exact .refl hw
  | arch a k =>
    simp only []
    cases hfind : q.find? (fun qa => qa.a == a) with
    | none => exact .refl hw
    | some qa =>
      simp only []
      have hqa : qa ∈ q := List.mem_of_find?_eq_some hfind
      have hqa2 : qa.a = a := by simpa using List.find?_some hfind
      obtain ⟨nc, hnc, hcols⟩ := hq qa hqa
      have hWa : ∀ c, Param.comp c true ∈ qa.params → ∀ d x, P a (.write d c x) := by
        rw [← hqa2]; exact hW qa hqa
      rw [hqa2, List.getElem?_map] at hnc
      cases hs : w.archs[a]? with
      | none => rw [hs] at hnc; cases hnc
      | some s =>
        rw [hs] at hnc
        simp only [Option.map_some, Option.some.injEq] at hnc
        have hi := hw.get hs
        simp only []
        rcases storageResolve_pure (cfg := cfg) hi h.kind.isDirect k with ⟨b, hb⟩ | ⟨m, hm⟩
        · rw [hb]
          cases b with
          | none => exact .refl hw
          | some d =>
            simp only [slicesValid_of_inv hi, if_true]
            obtain ⟨_, hd, _⟩ := storageResolve_ok_some hi hb
            obtain ⟨args, hargs⟩ := bindArgs_isSome hi (w.ids.getD a ID_RANGE) s.version hd
              qa.params (fun c m hc => by rw [hnc]; exact hcols c m hc)
            rw [hargs]
            simp only []
            cases hf : f st args with
            | panic st' ws =>
              obtain ⟨h1, _, h3⟩ := applyWrites_spec (cfg := cfg) d qa.params ws s hi
              exact WRelL.setArch hw hs h1 (applyWrites_lreach d qa.params ws s hi hWa) h3.ncols
            | ret st' ws r =>
              obtain ⟨h1, _, h3⟩ := applyWrites_spec (cfg := cfg) d qa.params ws s hi
              exact WRelL.setArch hw hs h1 (applyWrites_lreach d qa.params ws s hi hWa) h3.ncols
        · rw [hm]; exact .refl hw

/-- Label `l` may be contributed by operation `op` to the path of archetype `a`.
A `create` / `create_within_capacity` on archetype `b` only emits `.created _ row` with ITS row
and only in archetype `b`; `destroy` only emits `.destroyed`; a cell write emits the write of
that column and value; the query loops only write columns bound `&mut` by the matched archetype
(`ecs_iter_destroy!` also removes); `clear_events` only emits `.clear`; `Clone` emits `.clone cl`
with its clone function.  Nothing else emits anything. -/
def Op.Emits (a : Nat) : Op α → Lbl α → Prop
  | .create b row _, .created _ row' => b = a ∧ row' = row
  | .createWithin b row, .created _ row' => b = a ∧ row' = row
  | .destroy _, .destroyed _ _ => True
  | .write _ c x, .write _ c' x' => c' = c ∧ x' = x
  | .iter q _ _ _, .write _ c _ => ∃ qa ∈ q, qa.a = a ∧ Param.comp c true ∈ qa.params
  | .iterDestroy q _ _ _, .write _ c _ => ∃ qa ∈ q, qa.a = a ∧ Param.comp c true ∈ qa.params
  | .iterDestroy q _ _ _, .destroyed _ _ => ∃ qa ∈ q, qa.a = a
  | .find q _ _ _ _, .write _ c _ => ∃ qa ∈ q, qa.a = a ∧ Param.comp c true ∈ qa.params
  | .clearEvents oa, .clear => oa = none ∨ oa = some a
  | .cloneSwitch cl, .clone cl' => cl' = cl
  | _, _ => False

/-- The step theorem with labels: every operation, from every world satisfying `WInv`, ends in
`ok` or `panic` (never `ub`) in a world in which every archetype `a` is reached by a labelled
path whose labels are all emitted by that operation. -/
theorem stepOp_emits {cfg : Cfg} {w : World α} (hw : WInv cfg w) (hc : CfgOk cfg) (op : Op α)
    (hop : OpsOk cfg [op]) (hs : op.Scoped w.sch) :
    (stepOp cfg w op).sat (WRelL cfg (fun a => op.Emits a) w) := by
  cases op with
  | create a row g =>
    have hg : GrowOk cfg g := hop.1
    obtain ⟨s, hs1, hs2⟩ := World.sch_get hs
    have hi := hw.get hs1
    simp only [stepOp, World.create]
    by_cases hlt : s.len < cfg.maxCap
    · obtain ⟨e, s', h1, h2, _, _, _, _, _, _, _, h10, _⟩ :=
        push_ok cfg g s row hi hc (fun h => hg _ h) hlt
      rw [liftArch_ok hs1 h1]
      exact WRelL.setArch hw hs1 h2
        (LReachP.of_step hi (.push s s' g row e (fun h => hg _ h) h1) ⟨rfl, rfl⟩)
        (by rw [h10, length_zipWith_push, hs2]; simp)
    · have hfull : s.len = cfg.maxCap := by have := hi.len_le_maxCap; omega
      rw [liftArch_panic_same hs1 (push_overflow cfg g s row hi hfull).2]
      exact .refl hw
  | createWithin a row =>
    obtain ⟨s, hs1, hs2⟩ := World.sch_get hs
    have hi := hw.get hs1
    simp only [stepOp, World.createWithin]
    by_cases hlt : s.len < s.capacity
    · obtain ⟨e, s', h1, h2, _, _, _, _, _, h8, _⟩ := pushWithin_ok cfg s row hi hlt
      rw [liftArch_ok hs1 h1]
      exact WRelL.setArch hw hs1 h2
        (LReachP.of_step hi (.pushWithin s s' row e h1) ⟨rfl, rfl⟩)
        (by rw [h8, length_zipWith_push, hs2]; simp)
    · rw [liftArch_ok_same hs1 ((pushWithin_spec cfg s row hi).2 (by omega))]
      exact .refl hw
  | destroy u =>
    have hu : u.Scoped w.archs.length := by simpa [Op.Scoped] using hs
    simp only [stepOp, World.destroy]
    cases hr : u.route cfg w.ids with
    | absent => exact .refl hw
    | panic m => exact .refl hw
    | arch a k =>
      have hlt := (hw.route_lt hu hr).1
      obtain ⟨s, hs1⟩ : ∃ s, w.archs[a]? = some s := ⟨_, List.getElem?_eq_getElem hlt⟩
      have hi := hw.get hs1
      simp only [lookup_arch]
      rcases storageDestroy_lpost (P := (Op.destroy u).Emits a) hi u.h.kind.isDirect k
        (fun _ _ => trivial) with ⟨r, s', g, gi, gr, gn⟩ | ⟨m, g⟩
      · rw [liftArch_ok hs1 g]; exact WRelL.setArch hw hs1 gi gr gn
      · rw [liftArch_panic_same hs1 g]; exact .refl hw
  | write u c x =>
    have hu : u.Scoped w.archs.length := by simpa [Op.Scoped] using hs
    rcases fetch_safe hw u hu u.h.kind.isDirect with ⟨r, hr⟩ | ⟨m, hm⟩
    · cases r with
      | none => simp only [stepOp, hr]; exact .refl hw
      | some t =>
        obtain ⟨d, e, row⟩ := t
        obtain ⟨_, a, k, s, h2, h3, _⟩ := fetch_ok hw hr
        rw [h2] at hr
        simp only [stepOp, h2, hr, h3]
        exact WRelL.setArch hw h3 (writeCell_inv (hw.get h3))
          (LReachP.of_step (hw.get h3) (.write s d c x) ⟨rfl, rfl⟩)
          (ColsOnly.writeCell s d c x).ncols
    · simp only [stepOp, hm]; exact .refl hw
  | iter q σ f st =>
    have h := iterQuery_lsat (cfg := cfg) (P := fun a => (Op.iter q σ f st).Emits a) f q st w hw
      (by simpa [Op.Scoped] using hs)
      (fun qa hqa c hc _ _ => ⟨qa, hqa, rfl, hc⟩)
    simp only [stepOp]
    cases hq : iterQuery cfg f q st w with
    | ok st' w' => rw [hq] at h; exact h
    | panic m st' w' => rw [hq] at h; exact h
    | ub m => rw [hq] at h; exact h.elim
  | iterDestroy q σ f st =>
    have h := iterDestroyQuery_lsat (cfg := cfg) (P := fun a => (Op.iterDestroy q σ f st).Emits a)
      f q st w hw (by simpa [Op.Scoped] using hs)
      (fun qa hqa c hc _ _ => ⟨qa, hqa, rfl, hc⟩) (fun qa hqa _ _ => ⟨qa, hqa, rfl⟩)
    simp only [stepOp]
    cases hq : iterDestroyQuery cfg f q st w with
    | ok st' w' => rw [hq] at h; exact h
    | panic m st' w' => rw [hq] at h; exact h
    | ub m => rw [hq] at h; exact h.elim
  | find q σ f h st =>
    have h := findQuery_lsat (cfg := cfg) (P := fun a => (Op.find q σ f h st).Emits a) hw q f h st
      hs (fun qa hqa c hc _ _ => ⟨qa, hqa, rfl, hc⟩)
    simp only [stepOp]
    cases hq : findQuery cfg q f _ st w with
    | ok r st' w' => rw [hq] at h; exact h
    | panic m st' w' => rw [hq] at h; exact h
    | ub m => rw [hq] at h; exact h.elim
  | clearEvents oa =>
    cases oa with
    | none =>
      simp only [stepOp, World.clearEvents]
      exact WRelL.map hw clearEvents
        (fun a s hi => ⟨clearEvents_inv hi, LReachP.of_step hi (.clear s) (.inl rfl), rfl⟩)
    | some a =>
      simp only [stepOp]
      cases hs1 : w.archs[a]? with
      | none => exact .refl hw
      | some s =>
        exact WRelL.setArch hw hs1 (clearEvents_inv (hw.get hs1))
          (LReachP.of_step (hw.get hs1) (.clear s) (.inr rfl)) rfl
  | cloneSwitch cl =>
    simp only [stepOp, World.clone_spec hw cl]
    exact WRelL.map hw _
      (fun a s hi => ⟨cloneStorage_inv hi, LReachP.of_step hi (.clone s cl) rfl, by simp⟩)

/-- `L` is the concatenation, in order, of one block of labels per operation of the history,
the block of each operation emitted by that operation (a panicking or refused operation may
contribute the empty block). -/
def OpsEmit (a : Nat) : List (Op α) → List (Lbl α) → Prop
  | [], L => L = []
  | op :: ops, L => ∃ L₁ L₂, L = L₁ ++ L₂ ∧ (∀ l ∈ L₁, op.Emits a l) ∧ OpsEmit a ops L₂

theorem OpsEmit.mem {a : Nat} : ∀ {ops : List (Op α)} {L : List (Lbl α)}, OpsEmit a ops L →
    ∀ l ∈ L, ∃ op ∈ ops, op.Emits a l := by
  intro ops
  induction ops with
  | nil => intro L h l hl; rw [show L = [] from h] at hl; cases hl
  | cons op ops ih =>
    intro L h l hl
    obtain ⟨L₁, L₂, rfl, h1, h2⟩ := h
    rcases List.mem_append.mp hl with hm | hm
    · exact ⟨op, List.mem_cons_self, h1 l hm⟩
    · obtain ⟨op', hop', he⟩ := ih h2 l hm
      exact ⟨op', List.mem_cons_of_mem _ hop', he⟩

/-- The run theorem with labels: ALL finite histories (hypotheses of `run_inv`) never reach
`ub`, and every archetype `a` of the final world is reached from the initial one by a labelled
path `L` made, in order, of the labels emitted by the operations of the history. -/
theorem run_emits {cfg : Cfg} (hc : CfgOk cfg) :
    ∀ (ops : List (Op α)) (w : World α), WInv cfg w → OpsOk cfg ops → OpsScoped w.sch ops →
      ∃ w', run cfg w ops = some w' ∧ WRel cfg w w'
        ∧ ∀ (a : Nat) (s s' : Storage α), w.archs[a]? = some s → w'.archs[a]? = some s' →
            ∃ L, LReach cfg s L s' ∧ OpsEmit a ops L := by
  intro ops
  induction ops with
  | nil =>
    intro w hw _ _
    refine ⟨w, rfl, .refl hw, ?_⟩
    intro a s s' g1 g2
    rw [g1] at g2; cases g2
    exact ⟨[], .refl s, rfl⟩
  | cons op ops ih =>
    intro w hw ho hs
    have ho' := (OpsOk_cons op ops).mp ho
    have h := stepOp_emits hw hc op ho'.1 (hs op List.mem_cons_self)
    have key : ∀ w1, WRelL cfg (fun a => op.Emits a) w w1 →
        ∃ w', run cfg w1 ops = some w' ∧ WRel cfg w w'
          ∧ ∀ (a : Nat) (s s' : Storage α), w.archs[a]? = some s → w'.archs[a]? = some s' →
              ∃ L, LReach cfg s L s' ∧ OpsEmit a (op :: ops) L := by
      intro w1 h1
      have hs1 : OpsScoped w1.sch ops := by
        intro op' hop'
        have : w1.sch = w.sch := h1.toWRel.ncols_map
        rw [this]; exact hs op' (List.mem_cons_of_mem _ hop')
      obtain ⟨w', r1, r2, r3⟩ := ih w1 h1.winv ho'.2 hs1
      refine ⟨w', r1, h1.toWRel.trans r2, ?_⟩
      intro a s s' g1 g2
      have hlt : a < w1.archs.length := by rw [h1.len]; exact (List.getElem?_eq_some_iff.mp g1).1
      have g : w1.archs[a]? = some w1.archs[a] := List.getElem?_eq_getElem hlt
      obtain ⟨L₁, p1, q1⟩ := h1.lreach a s _ g1 g
      obtain ⟨L₂, p2, q2⟩ := r3 a _ s' g g2
      exact ⟨L₁ ++ L₂, p1.trans p2, L₁, L₂, rfl, q1, q2⟩
    cases hstep : stepOp cfg w op with
    | ok w1 =>
      rw [hstep] at h
      obtain ⟨w', r1, r⟩ := key w1 h
      exact ⟨w', by simp only [run, hstep]; exact r1, r⟩
    | panic m w1 =>
      rw [hstep] at h
      obtain ⟨w', r1, r⟩ := key w1 h
      exact ⟨w', by simp only [run, hstep]; exact r1, r⟩
    | ub m => rw [hstep] at h; exact h.elim

/-- `run_labelled` (Lemmas/Bridge.lean) with the labels tied to the operations. -/
theorem run_labelled_emits {cfg : Cfg} {w : World α} {ops : List (Op α)} (hw : WInv cfg w)
    (hc : CfgOk cfg) (ho : OpsOk cfg ops) (hs : OpsScoped w.sch ops) :
    ∃ w', run cfg w ops = some w' ∧ WInv cfg w' ∧ w'.archs.length = w.archs.length
      ∧ ∀ (a : Nat) (s s' : Storage α), w.archs[a]? = some s → w'.archs[a]? = some s' →
          ∃ L, LReach cfg s L s' ∧ OpsEmit a ops L := by
  obtain ⟨w', h1, h2, h3⟩ := run_emits hc ops w hw ho hs
  exact ⟨w', h1, h2.winv, h2.len, h3⟩

/-! ## D. What the operations of a history say about its labels -/

/-- Rows moved in by a well-scoped history have one value per column. -/
theorem OpsEmit.rowsOk {sch : List Nat} {a n : Nat} {ops : List (Op α)} {L : List (Lbl α)}
    (hs : OpsScoped sch ops) (hn : sch[a]? = some n) (h : OpsEmit a ops L) : RowsOk n L := by
  intro e row hm
  obtain ⟨op, hop, hem⟩ := h.mem _ hm
  have hsc := hs op hop
  cases op with
  | create b row' g =>
    obtain ⟨rfl, rfl⟩ := hem
    have : sch[b]? = some row.length := hsc
    rw [hn] at this; exact (Option.some.inj this).symm
  | createWithin b row' =>
    obtain ⟨rfl, rfl⟩ := hem
    have : sch[b]? = some row.length := hsc
    rw [hn] at this; exact (Option.some.inj this).symm
  | destroy u => exact hem.elim
  | write u c x => exact hem.elim
  | iter q σ f st => exact hem.elim
  | iterDestroy q σ f st => exact hem.elim
  | find q σ f h st => exact hem.elim
  | clearEvents oa => exact hem.elim
  | cloneSwitch cl => exact hem.elim

/-- Operations that neither overwrite a component value nor clone: creations, removals,
`clear_events`, and query loops that bind no column `&mut` (so `ecs_iter_destroy!` only
removes).  These are the operations whose labels are creations / removals / clears, the paths
C04's conservation theorem is stated for. -/
def Op.IsCDC : Op α → Prop
  | .create _ _ _ => True
  | .createWithin _ _ => True
  | .destroy _ => True
  | .clearEvents _ => True
  | .write _ _ _ => False
  | .cloneSwitch _ => False
  | .iter q _ _ _ => ∀ qa ∈ q, ∀ c, Param.comp c true ∉ qa.params
  | .iterDestroy q _ _ _ => ∀ qa ∈ q, ∀ c, Param.comp c true ∉ qa.params
  | .find q _ _ _ _ => ∀ qa ∈ q, ∀ c, Param.comp c true ∉ qa.params

theorem OpsEmit.cdc {a : Nat} {ops : List (Op α)} {L : List (Lbl α)}
    (hcdc : ∀ op ∈ ops, op.IsCDC) (h : OpsEmit a ops L) : ∀ l ∈ L, l.isCDC = true := by
  intro l hl
  obtain ⟨op, hop, hem⟩ := h.mem l hl
  have hc := hcdc op hop
  cases l with
  | created e row => rfl
  | destroyed t row => rfl
  | clear => rfl
  | write d c x =>
    cases op with
    | write u c' x' => exact hc.elim
    | iter q σ f st => obtain ⟨qa, hqa, _, hp⟩ := hem; exact absurd hp (hc qa hqa c)
    | iterDestroy q σ f st => obtain ⟨qa, hqa, _, hp⟩ := hem; exact absurd hp (hc qa hqa c)
    | find q σ f h st => obtain ⟨qa, hqa, _, hp⟩ := hem; exact absurd hp (hc qa hqa c)
    | create b row g => exact hem.elim
    | createWithin b row => exact hem.elim
    | destroy u => exact hem.elim
    | clearEvents oa => exact hem.elim
    | cloneSwitch cl => exact hem.elim
  | clone cl =>
    cases op with
    | cloneSwitch cl' => exact hc.elim
    | write u c' x' => exact hem.elim
    | iter q σ f st => exact hem.elim
    | iterDestroy q σ f st => exact hem.elim
    | find q σ f h st => exact hem.elim
    | create b row g => exact hem.elim
    | createWithin b row => exact hem.elim
    | destroy u => exact hem.elim
    | clearEvents oa => exact hem.elim

/-- A history without `clear_events` emits no `.clear` label. -/
theorem OpsEmit.noClear {a : Nat} {ops : List (Op α)} {L : List (Lbl α)}
    (hnc : ∀ oa, Op.clearEvents oa ∉ ops) (h : OpsEmit a ops L) : hasClear L = false := by
  unfold hasClear
  rw [List.any_eq_false]
  intro l hl
  obtain ⟨op, hop, hem⟩ := h.mem l hl
  cases l with
  | clear =>
    cases op with
    | clearEvents oa => exact absurd hop (hnc oa)
    | write u c' x' => exact hem.elim
    | iter q σ f st => exact hem.elim
    | iterDestroy q σ f st => exact hem.elim
    | find q σ f h st => exact hem.elim
    | create b row g => exact hem.elim
    | createWithin b row => exact hem.elim
    | destroy u => exact hem.elim
    | cloneSwitch cl => exact hem.elim
  | created e row => simp [Lbl.isClear]
  | destroyed t row => simp [Lbl.isClear]
  | write d c x => simp [Lbl.isClear]
  | clone cl => simp [Lbl.isClear]

theorem World.sch_of_get {w : World α} {a : Nat} {s : Storage α} (g : w.archs[a]? = some s) :
    w.sch[a]? = some s.cols.length := by
  simp [World.sch, g]

end Gecs

section
open Gecs
#print axioms LReach.trans
#print axioms applyWrites_lreach
#print axioms iterLoop_lsat
#print axioms destroyLoop_lsat
#print axioms iterQuery_lsat
#print axioms iterDestroyQuery_lsat
#print axioms findQuery_lsat
#print axioms stepOp_emits
#print axioms run_emits
#print axioms run_labelled_emits
#print axioms OpsEmit.mem
#print axioms OpsEmit.rowsOk
#print axioms OpsEmit.cdc
#print axioms OpsEmit.noClear
end
