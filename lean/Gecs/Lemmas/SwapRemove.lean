/-
Index, prefix and permutation lemmas for `swapRemove` (`DataPtr::swap_remove` on the
initialised prefix).
-/
import Gecs.Model.Storage

namespace Gecs

theorem swapRemove_length {β : Type} (l : List β) (i : Nat) :
    (swapRemove l i).length = l.length - 1 := by
  unfold swapRemove
  cases h : l.getLast? with
  | none => simp [List.getLast?_eq_none_iff] at h; simp [h]
  | some x => simp

theorem swapRemove_getElem? {β : Type} (l : List β) (i j : Nat) (hi : i < l.length) :
    (swapRemove l i)[j]? =
      if j < l.length - 1 then (if j = i then l[l.length - 1]? else l[j]?) else none := by
  unfold swapRemove
  cases h : l.getLast? with
  | none => simp [List.getLast?_eq_none_iff] at h; subst h; simp at hi
  | some x =>
    have hx : l[l.length - 1]? = some x := by
      rw [List.getLast?_eq_getElem?] at h; exact h
    by_cases hj : j < l.length - 1
    · simp only [hj, if_true]
      rw [List.getElem?_dropLast]
      simp only [List.length_set, hj, if_true]
      by_cases hji : j = i
      · subst hji; simp [hx, hi]
      · simp [hji, List.getElem?_set_ne (Ne.symm hji)]
    · simp only [hj, if_false]
      rw [List.getElem?_eq_none_iff]; simp; omega

theorem swapRemove_take {β : Type} (l : List β) (i : Nat) (hi : i < l.length) :
    (swapRemove l i).take i = l.take i := by
  apply List.ext_getElem?
  intro j
  rw [List.getElem?_take, List.getElem?_take]
  split
  · rename_i hj
    rw [swapRemove_getElem? _ _ _ hi]
    have : j < l.length - 1 := by omega
    have hne : j ≠ i := by omega
    simp [this, hne]
  · rfl

theorem swapRemove_perm {β : Type} (l : List β) (i : Nat) (hi : i < l.length) :
    (swapRemove l i).Perm (l.eraseIdx i) := by
  unfold swapRemove
  cases h : l.getLast? with
  | none => simp [List.getLast?_eq_none_iff] at h; subst h; simp at hi
  | some x =>
    obtain ⟨init, rfl⟩ : ∃ init, l = init ++ [x] := by
      have := List.getLast?_eq_some_iff.mp h
      obtain ⟨ys, hys⟩ := this; exact ⟨ys, hys⟩
    by_cases hlast : i = init.length
    · subst hlast
      simp [List.eraseIdx_append_of_length_le]
    · have hi' : i < init.length := by simp at hi; omega
      show (((init ++ [x]).set i x).dropLast).Perm _
      rw [List.set_append_left _ _ hi', List.dropLast_concat]
      rw [List.eraseIdx_append_of_lt_length hi']
      -- init.set i x  ~  init.eraseIdx i ++ [x]
      have h1 : (init.set i x).Perm (x :: init.eraseIdx i) := by
        rw [List.set_eq_take_append_cons_drop, if_pos hi', List.eraseIdx_eq_take_drop_succ]
        exact List.perm_middle
      exact h1.trans (List.perm_append_singleton x _).symm

/-- Removing index `i` and appending the removed value back is a permutation of the original. -/
theorem swapRemove_append_perm {β : Type} (D : List β) (i : Nat) (x : β)
    (hx : D[i]? = some x) : (swapRemove D i ++ [x]).Perm D := by
  obtain ⟨hi, hxi⟩ := List.getElem?_eq_some_iff.mp hx
  have h1 : (swapRemove D i ++ [x]).Perm (D.eraseIdx i ++ [x]) :=
    (swapRemove_perm D i hi).append_right [x]
  have h2 : (D.eraseIdx i ++ [x]).Perm (x :: D.eraseIdx i) := List.perm_append_singleton x _
  have h3 : (x :: D.eraseIdx i).Perm D := by
    have hD : D = D.take i ++ x :: D.drop (i + 1) := by
      conv => lhs; rw [← List.take_append_drop i D]
      rw [List.drop_eq_getElem_cons hi, hxi]
    rw [List.eraseIdx_eq_take_drop_succ]
    conv => rhs; rw [hD]
    exact List.perm_middle.symm
  exact h1.trans (h2.trans h3)

/-- A removed element is not lost: membership in the result, in terms of the original. -/
theorem mem_swapRemove_of_nodup {β : Type} (l : List β) (i : Nat) (t : β) (hnd : l.Nodup)
    (ht : l[i]? = some t) (x : β) : x ∈ swapRemove l i ↔ (x ∈ l ∧ x ≠ t) := by
  have hp := swapRemove_append_perm l i t ht
  have hnd' : (swapRemove l i ++ [t]).Nodup := hp.nodup_iff.mpr hnd
  have hm : ∀ y, y ∈ swapRemove l i ++ [t] ↔ y ∈ l := fun y => hp.mem_iff
  constructor
  · intro hx
    refine ⟨(hm x).mp (List.mem_append_left _ hx), ?_⟩
    intro heq; subst heq
    have := (List.nodup_append.mp hnd').2.2 x hx x (by simp)
    exact this rfl
  · rintro ⟨hx, hne⟩
    rcases List.mem_append.mp ((hm x).mpr hx) with h | h
    · exact h
    · simp at h; exact absurd h hne

/-- Non-vacuity / sanity: concrete instances. -/
example : swapRemove [10, 20, 30, 40] 1 = [10, 40, 30] := by decide
example : swapRemove [10, 20, 30, 40] 3 = [10, 20, 30] := by decide
example : swapRemove [10] 0 = ([] : List Nat) := by decide
example : (swapRemove [10, 20, 30, 40] 1 ++ [20]).Perm [10, 20, 30, 40] :=
  swapRemove_append_perm _ 1 20 (by decide)

end Gecs

section
open Gecs
#print axioms swapRemove_length
#print axioms swapRemove_getElem?
#print axioms swapRemove_take
#print axioms swapRemove_perm
#print axioms swapRemove_append_perm
#print axioms mem_swapRemove_of_nodup
end
