/-
Tie of the statements TRANSLATED from `Clone for StorageN` and `Drop for StorageN`
(Gecs/Gen/Steps.lean: `cloneSteps`, `cloneFields`, `dropSteps`) to the model's `cloneStorage` /
`dropStorage` (Model/Storage.lean), for EVERY storage state and every user `Clone::clone`.
-/
import Gecs.Gen.Steps

set_option linter.unusedSimpArgs false

namespace Gecs

variable {α : Type}

theorem gen_steps_clone (cfg : Cfg) (cl : α → α) (s : Storage α) (hle : s.len ≤ s.capacity) :
    Out.same (execClone cfg cl Gen.cloneSteps Gen.cloneFields s) (cloneStorage cl s) := by
  unfold execClone cloneStorage Gen.cloneSteps Gen.cloneFields
  by_cases h1 : s.slots.length < s.capacity
  · simp [runK, kstep, h1, Out.same]
  by_cases h2 : s.ents.length < s.len
  · simp [runK, kstep, h1, h2, Out.same]
  by_cases h3 : (s.cols.any (fun c => decide (c.length < s.len))) = true
  · simp [runK, kstep, h1, h2, h3, Out.same]
  · cases hev : cfg.events <;>
      simp [runK, kstep, h1, h2, h3, hle, kfields, kfield, KLit.build, hev, Out.same, List.map_map, Function.comp_def]

theorem gen_steps_drop (s : Storage α) :
    Out.same (execDrop Gen.dropSteps s) (dropStorage s) := by
  unfold execDrop dropStorage Gen.dropSteps
  by_cases h3 : (s.cols.any (fun c => decide (c.length < s.len))) = true
  · simp [runP, pstep, h3, Out.same]
  · simp [runP, pstep, h3, Out.same]

end Gecs
