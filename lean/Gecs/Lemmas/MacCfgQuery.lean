/-
C16 (query half) — `#[cfg]`-disabled query parameters behave as absent.

`expandQuery w ps ρ` (collect the predicates, run the `macro_rules!` chain under the truth
assignment `ρ`, look every predicate up again, set `enabled`, bind, generate) produces the
same observable result — or the same error — as the pipeline run on the erased parameter
list (disabled parameters deleted, attributes stripped) with no predicates at all.
-/
import Gecs.Model.Macro
import Gecs.Lemmas.MacBind

namespace Gecs.Mac

/-! ### Predicate collection and lookup

These are restated locally (namespace `CfgQuery`) because the world half of C16 proves the
same facts about `dedupAppend`/`lookupCfg` for `collectWorld`. -/

namespace CfgQuery

theorem dedupAppend_nodup {acc : List String} (ps : List String) (h : acc.Nodup) :
    (dedupAppend acc ps).Nodup := by
  unfold dedupAppend
  induction ps generalizing acc with
  | nil => simpa
  | cons p ps ih =>
    simp only [List.foldl_cons]
    apply ih
    split
    · exact h
    · rename_i hc
      simp only [List.contains_eq_mem, decide_eq_true_eq] at hc
      rw [List.nodup_append]
      refine ⟨h, by simp, ?_⟩
      intro a ha b hb hab
      simp only [List.mem_singleton] at hb
      subst hb; subst hab
      exact hc ha

theorem mem_dedupAppend {acc : List String} (ps : List String) (x : String) :
    x ∈ dedupAppend acc ps ↔ x ∈ acc ∨ x ∈ ps := by
  unfold dedupAppend
  induction ps generalizing acc with
  | nil => simp
  | cons p ps ih =>
    simp only [List.foldl_cons, ih, List.mem_cons]
    split
    · rename_i hc
      simp only [List.contains_eq_mem, decide_eq_true_eq] at hc
      constructor
      · rintro (h | h)
        · exact Or.inl h
        · exact Or.inr (Or.inr h)
      · rintro (h | rfl | h)
        · exact Or.inl h
        · exact Or.inl hc
        · exact Or.inr h
    · simp only [List.mem_append, List.mem_singleton]
      constructor
      · rintro ((h | h) | h)
        · exact Or.inl h
        · exact Or.inr (Or.inl h)
        · exact Or.inr (Or.inr h)
      · rintro (h | h | h)
        · exact Or.inl (Or.inl h)
        · exact Or.inl (Or.inr h)
        · exact Or.inr h

theorem foldl_dedup_nodup (ps : List QParam) {acc : List String} (h : acc.Nodup) :
    (ps.foldl (fun acc p => dedupAppend acc p.cfgs) acc).Nodup := by
  induction ps generalizing acc with
  | nil => simpa
  | cons p ps ih => exact ih (dedupAppend_nodup p.cfgs h)

theorem mem_foldl_dedup (ps : List QParam) {acc : List String} (x : String) :
    x ∈ ps.foldl (fun acc p => dedupAppend acc p.cfgs) acc ↔ x ∈ acc ∨ ∃ p ∈ ps, x ∈ p.cfgs := by
  induction ps generalizing acc with
  | nil => simp
  | cons p ps ih =>
    simp only [List.foldl_cons, ih, mem_dedupAppend, List.mem_cons, exists_eq_or_imp, or_assoc]

theorem zip_map_self (ρ : String → Bool) (l : List String) :
    l.zip (l.map ρ) = l.map (fun x => (x, ρ x)) := by
  induction l with
  | nil => rfl
  | cons x xs ih => simp [ih]

theorem find_map_pair (ρ : String → Bool) (l : List String) (p : String) (h : p ∈ l) :
    ((l.map (fun x => (x, ρ x))).find? (fun kv => kv.1 == p)).map (·.2) = some (ρ p) := by
  induction l with
  | nil => cases h
  | cons x xs ih =>
    simp only [List.map_cons, List.find?_cons]
    by_cases hx : x = p
    · subst hx; simp
    · have hx' : (x == p) = false := by simp [hx]
      simp only [hx']
      apply ih
      simp only [List.mem_cons] at h
      rcases h with rfl | h
      · exact absurd rfl hx
      · exact h

/-- The lookup table rebuilt by the second parse answers `ρ p` for every collected predicate
(no `Nodup` needed: every entry for `p` carries `ρ p`). -/
theorem lookup_correct' {ρ : String → Bool} {preds : List String} {p : String} (hp : p ∈ preds) :
    lookupCfg (mkLookup preds (chain ρ preds)) p = some (ρ p) := by
  unfold lookupCfg mkLookup chain
  rw [zip_map_self, ← List.map_reverse]
  exact find_map_pair ρ preds.reverse p (by simpa using hp)

/-- The headline form. -/
theorem lookup_correct {ρ : String → Bool} {preds : List String} {p : String}
    (_hnd : preds.Nodup) (hp : p ∈ preds) :
    lookupCfg (mkLookup preds (chain ρ preds)) p = some (ρ p) :=
  lookup_correct' hp

theorem evaluateCfgs_eq {l : CfgLookup} {ρ : String → Bool} (cs : List String)
    (h : ∀ c ∈ cs, lookupCfg l c = some (ρ c)) : evaluateCfgs l cs = some (cs.all ρ) := by
  induction cs with
  | nil => rfl
  | cons c cs ih =>
    have hc := h c (List.mem_cons_self ..)
    have ih' := ih (fun x hx => h x (List.mem_cons_of_mem _ hx))
    simp only [evaluateCfgs, hc, List.all_cons]
    cases hρ : ρ c
    · simp
    · simp [ih']

end CfgQuery

open CfgQuery

/-! ### `collectQuery` and `isCfgEnabled` under the pipeline -/

/-- The collected predicate list has no duplicates. -/
theorem collectQuery_nodup (ps : List QParam) : (collectQuery ps).Nodup :=
  foldl_dedup_nodup ps List.nodup_nil

/-- The collected predicates are exactly the predicates occurring on some parameter. -/
theorem mem_collectQuery (ps : List QParam) (c : String) :
    c ∈ collectQuery ps ↔ ∃ p ∈ ps, c ∈ p.cfgs := by
  unfold collectQuery
  rw [mem_foldl_dedup]
  simp

/-- Every predicate of every parameter is collected. -/
theorem collectQuery_complete {ps : List QParam} {p : QParam} {c : String}
    (hp : p ∈ ps) (hc : c ∈ p.cfgs) : c ∈ collectQuery ps :=
  (mem_collectQuery ps c).2 ⟨p, hp, hc⟩

/-- `is_cfg_enabled` of every parameter under the pipeline is the conjunction of its
predicates under `ρ` (in particular the `unwrap()` never panics). -/
theorem isCfgEnabled_pipeline {ps : List QParam} {p : QParam} (ρ : String → Bool) (hp : p ∈ ps) :
    isCfgEnabled (mkLookup (collectQuery ps) (chain ρ (collectQuery ps))) p
      = some (p.cfgs.all ρ) := by
  unfold isCfgEnabled
  apply evaluateCfgs_eq
  intro c hc
  exact lookup_correct (collectQuery_nodup ps) (collectQuery_complete hp hc)


/-! ### The pipeline in closed form -/

/-- What `expandQuery` does to a parameter before binding. -/
def setEn (ρ : String → Bool) (p : QParam) : QParam := { p with enabled := p.cfgs.all ρ }

theorem setEnabled_eq {l : CfgLookup} {ρ : String → Bool} (qs : List QParam)
    (h : ∀ p ∈ qs, isCfgEnabled l p = some (p.cfgs.all ρ)) :
    expandQuery.setEnabled l qs = some (qs.map (setEn ρ)) := by
  induction qs with
  | nil => rfl
  | cons q qs ih =>
    have hq := h q (List.mem_cons_self ..)
    have ih' := ih (fun x hx => h x (List.mem_cons_of_mem _ hx))
    simp [expandQuery.setEnabled, hq, ih', setEn]

/-- The query pipeline never hits a missing predicate and amounts to `generateQuery` on the
parameters with `enabled := p.cfgs.all ρ`. -/
theorem expandQuery_eq (w : DWorld) (ps : List QParam) (ρ : String → Bool) :
    expandQuery w ps ρ = generateQuery w (ps.map (setEn ρ)) := by
  unfold expandQuery
  simp only
  rw [setEnabled_eq (ρ := ρ) ps (fun p hp => isCfgEnabled_pipeline ρ hp)]

theorem expandQuery_ne_missingCfg (w : DWorld) (ps : List QParam) (ρ : String → Bool) :
    expandQuery w ps ρ ≠ .error .missingCfg := by
  rw [expandQuery_eq]
  intro h
  unfold generateQuery at h
  split at h
  · rename_i e he
    cases h
    rcases bind_error_kind he with h | ⟨_, _, _, h⟩ <;> cases h
  · simp only at h
    split at h <;> cases h

/-! ### Erasure -/

/-- strip the attributes of an (enabled) parameter -/
def strip (p : QParam) : QParam := { p with cfgs := [], enabled := true }

/-- delete the parameters with a false predicate, strip the attributes of the rest -/
def eraseQuery (ρ : String → Bool) (ps : List QParam) : List QParam :=
  (ps.filter (fun p => p.cfgs.all ρ)).map (fun p => { p with cfgs := [], enabled := true })

/-- the observable projection of a result: what the emitted closure signature and call
contain (disabled parameters are `#[cfg]`-ed out of both) -/
def obs (m : List (DArch × List QParam)) : List (String × List (PType × Bool)) :=
  m.map (fun (a, bs) => (a.name, (bs.filter (·.enabled)).map (fun b => (b.ty, b.isMut))))

/-- the bound list of an archetype with the disabled entries removed and attributes stripped -/
def stripB (bs : List QParam) : List QParam := (bs.filter (·.enabled)).map strip

theorem eraseQuery_eq (ρ : String → Bool) (ps : List QParam) :
    eraseQuery ρ ps = (ps.filter (fun p => p.cfgs.all ρ)).map strip := rfl

theorem eraseQuery_cons (ρ : String → Bool) (p : QParam) (ps : List QParam) :
    eraseQuery ρ (p :: ps) =
      if p.cfgs.all ρ then strip p :: eraseQuery ρ ps else eraseQuery ρ ps := by
  simp only [eraseQuery_eq, List.filter_cons]
  split <;> simp

theorem expandQuery_erase (w : DWorld) (ps : List QParam) (ρ : String → Bool) :
    expandQuery w (eraseQuery ρ ps) (fun _ => true) = generateQuery w (eraseQuery ρ ps) := by
  rw [expandQuery_eq]
  congr 1
  rw [eraseQuery_eq]
  generalize ps.filter (fun p => p.cfgs.all ρ) = qs
  induction qs with
  | nil => rfl
  | cons q qs ih => simp [ih, setEn, strip]

/-- The hypothesis of `query_erasure`: no cfg attribute on a OneOf parameter. -/
def NoCfgOnOneOf (ps : List QParam) : Prop :=
  ∀ p ∈ ps, (∃ cs, p.ty = .oneOf cs) → p.cfgs = []

/-- a disabled (non-OneOf) parameter binds for every archetype -/
theorem bindParam_disabled (a : DArch) (ρ : String → Bool) (p : QParam)
    (hen : p.cfgs.all ρ = false) (hone : (∃ cs, p.ty = .oneOf cs) → p.cfgs = []) :
    bindParam a (setEn ρ p) = .ok (some (setEn ρ p)) := by
  obtain ⟨cfgs, isMut, ty, enabled⟩ := p
  cases ty <;> simp_all [bindParam, setEn]

/-- an enabled parameter binds like its stripped version -/
theorem bindParam_enabled (a : DArch) (ρ : String → Bool) (p : QParam)
    (hen : p.cfgs.all ρ = true) (hone : (∃ cs, p.ty = .oneOf cs) → p.cfgs = []) :
    bindParam a (strip p) =
      match bindParam a (setEn ρ p) with
      | .error e => .error e
      | .ok r => .ok (r.map strip) := by
  obtain ⟨cfgs, isMut, ty, enabled⟩ := p
  cases ty
  case oneOf cs =>
    have : cfgs = [] := hone ⟨cs, rfl⟩
    subst this
    simp only [bindParam, strip, setEn, List.length_nil, gt_iff_lt, Nat.lt_irrefl, if_false,
      List.all_nil]
    cases bindOneOf a cs none with
    | error e => rfl
    | ok r => cases r <;> rfl
  all_goals simp only [bindParam, strip, setEn, hen] at hen ⊢
  all_goals try rfl
  all_goals (split <;> simp_all [strip])

theorem stripB_cons_disabled {b : QParam} (bs : List QParam) (h : b.enabled = false) :
    stripB (b :: bs) = stripB bs := by
  simp [stripB, h]

theorem stripB_cons_enabled {b : QParam} (bs : List QParam) (h : b.enabled = true) :
    stripB (b :: bs) = strip b :: stripB bs := by
  simp [stripB, h]

/-- per archetype: binding the erased list gives the stripped enabled part of binding the
decorated list, with the same error otherwise -/
theorem bindArch_erase (a : DArch) (ρ : String → Bool) (ps : List QParam) (h : NoCfgOnOneOf ps) :
    bindArch a (eraseQuery ρ ps) =
      match bindArch a (ps.map (setEn ρ)) with
      | .error e => .error e
      | .ok b => .ok (stripB b) := by
  induction ps with
  | nil => rfl
  | cons p ps ih =>
    have hp := h p (List.mem_cons_self ..)
    have ih' := ih (fun x hx => h x (List.mem_cons_of_mem _ hx))
    rw [eraseQuery_cons]
    cases hen : p.cfgs.all ρ with
    | false =>
      simp only [Bool.false_eq_true, if_false, List.map_cons, bindArch,
        bindParam_disabled a ρ p hen hp, ih']
      cases bindArch a (ps.map (setEn ρ)) with
      | error e => rfl
      | ok rest =>
        simp only
        rw [stripB_cons_disabled]
        simp [setEn, hen]
    | true =>
      simp only [if_true, List.map_cons, bindArch, bindParam_enabled a ρ p hen hp, ih']
      cases hb : bindParam a (setEn ρ p) with
      | error e => rfl
      | ok r =>
        simp only
        cases bindArch a (ps.map (setEn ρ)) with
        | error e => rfl
        | ok rest =>
          simp only
          cases r with
          | none => rfl
          | some b =>
            have hbe : b.enabled = true := by
              rw [(bindParam_some hb).2.2.1]; simp [setEn, hen]
            simp only [Option.map_some]
            rw [stripB_cons_enabled _ hbe]

theorem paramMatches_congr {a : DArch} {p q : QParam} (hty : p.ty = q.ty)
    (hen : p.enabled = q.enabled) : ParamMatches a p ↔ ParamMatches a q := by
  obtain ⟨_, _, ty, en⟩ := p
  obtain ⟨_, _, ty', en'⟩ := q
  simp only at hty hen
  subst hty; subst hen
  cases ty <;> simp [ParamMatches]

/-- the keep condition is the same on both sides -/
theorem matches_erase (a : DArch) (ρ : String → Bool) (ps : List QParam) (h : NoCfgOnOneOf ps) :
    Matches a (eraseQuery ρ ps) ↔ Matches a (ps.map (setEn ρ)) := by
  induction ps with
  | nil => simp [eraseQuery_eq]
  | cons p ps ih =>
    have hp := h p (List.mem_cons_self ..)
    have ih' := ih (fun x hx => h x (List.mem_cons_of_mem _ hx))
    rw [eraseQuery_cons, List.map_cons, matches_cons]
    cases hen : p.cfgs.all ρ with
    | false =>
      simp only [Bool.false_eq_true, if_false, ih']
      have : ParamMatches a (setEn ρ p) := by
        obtain ⟨cfgs, isMut, ty, enabled⟩ := p
        simp only at hen hp
        cases ty
        case oneOf cs => rw [hp ⟨cs, rfl⟩] at hen; simp at hen
        all_goals simp [ParamMatches, setEn, hen]
      simp [this]
    | true =>
      simp only [if_true, matches_cons, ih']
      have : ParamMatches a (strip p) ↔ ParamMatches a (setEn ρ p) :=
        paramMatches_congr rfl (by simp [strip, setEn, hen])
      rw [this]

theorem go_erase (ρ : String → Bool) (ps : List QParam) (h : NoCfgOnOneOf ps) (as : List DArch) :
    bindQueryParams.go (eraseQuery ρ ps) as =
      match bindQueryParams.go (ps.map (setEn ρ)) as with
      | .error e => .error e
      | .ok r => .ok (r.map (fun kv => (kv.1, stripB kv.2))) := by
  induction as with
  | nil => rfl
  | cons a as ih =>
    simp only [bindQueryParams.go, ih]
    have hA := bindArch_erase a ρ ps h
    cases hb : bindArch a (ps.map (setEn ρ)) with
    | error e => rw [hb] at hA; simp only [hA]
    | ok b =>
      rw [hb] at hA
      simp only [hA]
      cases bindQueryParams.go (ps.map (setEn ρ)) as with
      | error e => rfl
      | ok rest =>
        simp only
        have hk : (stripB b).length = (eraseQuery ρ ps).length ↔
            b.length = (ps.map (setEn ρ)).length := by
          rw [bindArch_length_iff hA, bindArch_length_iff hb]
          exact matches_erase a ρ ps h
        rw [List.length_map] at hk
        by_cases hl : b.length = ps.length
        · have hl' := hk.2 hl
          simp [hl', hl]
        · have hl' : ¬ (stripB b).length = (eraseQuery ρ ps).length := fun x => hl (hk.1 x)
          simp [hl', hl]

theorem find_map_snd {β γ : Type} (g : β → γ) (r : List (String × β)) (n : String) :
    (r.map (fun kv => (kv.1, g kv.2))).find? (fun kv => kv.1 == n)
      = (r.find? (fun kv => kv.1 == n)).map (fun kv => (kv.1, g kv.2)) := by
  induction r with
  | nil => rfl
  | cons x xs ih =>
    simp only [List.map_cons, List.find?_cons]
    cases x.1 == n <;> simp [ih]

/-- **Strong form of erasure**: the erased query is generated for the same archetypes, each
with the stripped enabled part of the decorated binding; errors are identical. -/
theorem generateQuery_erase (w : DWorld) (ρ : String → Bool) (ps : List QParam)
    (h : NoCfgOnOneOf ps) :
    generateQuery w (eraseQuery ρ ps) =
      (generateQuery w (ps.map (setEn ρ))).map (List.map (fun ab => (ab.1, stripB ab.2))) := by
  unfold generateQuery bindQueryParams
  rw [go_erase ρ ps h]
  cases bindQueryParams.go (ps.map (setEn ρ)) w.archs with
  | error e => rfl
  | ok r =>
    simp only [find_map_snd, Option.map_map]
    have : (w.archs.filterMap fun a =>
          Option.map ((fun kv => (a, kv.2)) ∘ fun kv : String × List QParam => (kv.1, stripB kv.2))
            (r.find? fun kv => kv.1 == a.name))
        = (w.archs.filterMap fun a =>
          (r.find? fun kv => kv.1 == a.name).map (fun kv => (a, kv.2))).map
            (fun ab => (ab.1, stripB ab.2)) := by
      rw [List.map_filterMap]
      congr 1
      funext a
      cases r.find? (fun kv => kv.1 == a.name) <;> rfl
    rw [this]
    cases hm : (w.archs.filterMap fun a =>
          (r.find? fun kv => kv.1 == a.name).map (fun kv => (a, kv.2))) with
    | nil => rfl
    | cons x xs => rfl

theorem obs_stripB (m : List (DArch × List QParam)) :
    obs (m.map (fun ab => (ab.1, stripB ab.2))) = obs m := by
  unfold obs
  rw [List.map_map]
  apply List.map_congr_left
  rintro ⟨a, bs⟩ -
  simp only [Function.comp, Prod.mk.injEq, true_and]
  induction bs with
  | nil => rfl
  | cons b bs ih =>
    cases hb : b.enabled
    · rw [stripB_cons_disabled _ hb]
      simp only [List.filter_cons, hb, Bool.false_eq_true, if_false]
      exact ih
    · rw [stripB_cons_enabled _ hb]
      simp only [List.filter_cons, hb, if_true, List.map_cons, strip]
      rw [ih]

/-- **C16, query half.** Under every truth assignment `ρ`, the decorated query and its erased
twin (run with no predicates at all) give the same error or the same observable binding,
provided no OneOf parameter carries a cfg attribute (which the macro rejects). -/
theorem query_erasure (w : DWorld) (ps : List QParam) (ρ : String → Bool)
    (h : ∀ p ∈ ps, (∃ cs, p.ty = .oneOf cs) → p.cfgs = []) :
    (expandQuery w ps ρ).map obs = (expandQuery w (eraseQuery ρ ps) (fun _ => true)).map obs := by
  rw [expandQuery_erase, expandQuery_eq, generateQuery_erase w ρ ps h]
  cases generateQuery w (ps.map (setEn ρ)) with
  | error e => rfl
  | ok m => simp only [Except.map, obs_stripB]

/-- Strong form, on the un-projected results. -/
theorem query_erasure_strong (w : DWorld) (ps : List QParam) (ρ : String → Bool)
    (h : ∀ p ∈ ps, (∃ cs, p.ty = .oneOf cs) → p.cfgs = []) :
    expandQuery w (eraseQuery ρ ps) (fun _ => true) =
      (expandQuery w ps ρ).map (List.map (fun ab => (ab.1, stripB ab.2))) := by
  rw [expandQuery_erase, expandQuery_eq, generateQuery_erase w ρ ps h]

/-! ### Non-vacuity -/

namespace CfgQueryExample

open BindExample

attribute [local instance] BindExample.exceptDecEq

/-- `|#[cfg(f1)] d: &CompD, b: &mut CompB, x: &OneOf<CompA, CompD>, #[cfg(f2)] e: &EntityAny|` -/
def q : List QParam :=
  [⟨["f1"], false, .comp "CompD", true⟩, ⟨[], true, .comp "CompB", true⟩,
   ⟨[], false, .oneOf ["CompA", "CompD"], true⟩, ⟨["f2", "f1"], false, .entAny, true⟩,
   ⟨["f2"], false, .entAny, true⟩]

/-- `f1` off, `f2` on -/
def ρ₀ : String → Bool := fun s => s == "f2"

/-- the hypothesis of `query_erasure` holds -/
example : ∀ p ∈ q, (∃ cs, p.ty = .oneOf cs) → p.cfgs = [] := by
  intro p hp
  simp only [q, List.mem_cons, List.not_mem_nil, or_false] at hp
  rcases hp with rfl | rfl | rfl | rfl | rfl <;> simp

example : collectQuery q = ["f1", "f2"] := by decide

example : eraseQuery ρ₀ q =
    [⟨[], true, .comp "CompB", true⟩, ⟨[], false, .oneOf ["CompA", "CompD"], true⟩,
     ⟨[], false, .entAny, true⟩] := by decide

/-- with `f1` off the `CompD` parameter is absent: `ArchFoo` and `ArchBaz` match -/
example : (expandQuery world q ρ₀).map obs = .ok
    [("ArchFoo", [(.comp "CompB", true), (.comp "CompA", false), (.entAny, false)]),
     ("ArchBaz", [(.comp "CompB", true), (.comp "CompA", false), (.entAny, false)])] := by decide

example : (expandQuery world (eraseQuery ρ₀ q) (fun _ => true)).map obs = .ok
    [("ArchFoo", [(.comp "CompB", true), (.comp "CompA", false), (.entAny, false)]),
     ("ArchBaz", [(.comp "CompB", true), (.comp "CompA", false), (.entAny, false)])] := by decide

/-- with `f1` on nothing has both `CompD` and `CompB`: the same error on both sides -/
example : (expandQuery world q (fun _ => true)).map obs = .error .noMatch ∧
    (expandQuery world (eraseQuery (fun _ => true) q) (fun _ => true)).map obs = .error .noMatch := by
  decide

/-- an ambiguity error is the same on both sides -/
example :
    (expandQuery world [⟨["f1"], false, .comp "CompD", true⟩,
        ⟨[], false, .oneOf ["CompB", "CompC"], true⟩] ρ₀).map obs
      = .error (.ambiguous "ArchBaz" "CompB" "CompC") ∧
    (expandQuery world (eraseQuery ρ₀ [⟨["f1"], false, .comp "CompD", true⟩,
        ⟨[], false, .oneOf ["CompB", "CompC"], true⟩]) (fun _ => true)).map obs
      = .error (.ambiguous "ArchBaz" "CompB" "CompC") := by
  decide

/-- the hypothesis of `query_erasure` is needed: a disabled OneOf with a cfg attribute is
rejected by the decorated pipeline but simply absent from the erased one -/
example :
    (expandQuery world [⟨["f1"], false, .oneOf ["CompD"], true⟩,
        ⟨[], false, .comp "CompA", true⟩] ρ₀).map obs = .error .cfgOnOneOf ∧
    (expandQuery world (eraseQuery ρ₀ [⟨["f1"], false, .oneOf ["CompD"], true⟩,
        ⟨[], false, .comp "CompA", true⟩]) (fun _ => true)).map obs
      = .ok [("ArchFoo", [(.comp "CompA", false)]), ("ArchBar", [(.comp "CompA", false)]),
             ("ArchBaz", [(.comp "CompA", false)])] := by
  decide

end CfgQueryExample

end Gecs.Mac

#print axioms Gecs.Mac.collectQuery_nodup
#print axioms Gecs.Mac.collectQuery_complete
#print axioms Gecs.Mac.CfgQuery.lookup_correct
#print axioms Gecs.Mac.isCfgEnabled_pipeline
#print axioms Gecs.Mac.expandQuery_eq
#print axioms Gecs.Mac.generateQuery_erase
#print axioms Gecs.Mac.query_erasure
#print axioms Gecs.Mac.query_erasure_strong
