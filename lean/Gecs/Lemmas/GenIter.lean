/-
`Archetype::iter` / `iter_mut` from their extracted statements: a plain pass (call `next` until
`None`) over the iterator built by the extracted constructor literal yields, for every storage
whose dense arrays are initialised up to `len`, exactly the rows `0, 1, …, len-1` in order —
each live entity once, paired with its own handle and its own component values — and then
`None`.  No bound on `len` or on the number of columns.
-/
import Gecs.Gen.Steps
import Gecs.Lemmas.GenSteps

set_option linter.unusedSimpArgs false

namespace Gecs

variable {α : Type}

/-- The shape both extracted `next` bodies must have for the theorems below (checked against the
generated lists by `rfl` in `gen_iter_next_shape`). -/
def nextShape : List IStep :=
  [.ifExhaustedReturnNone, .bindResult, .advanceEntity, .advanceColumns, .decRemaining, .returnSomeResult]

theorem filterMap_eq_map_of_some {β γ : Type} (f : β → Option γ) (g : β → γ) :
    ∀ (l : List β), (∀ x ∈ l, f x = some (g x)) → l.filterMap f = l.map g := by
  intro l
  induction l with
  | nil => intro _; rfl
  | cons a t ih =>
    intro h
    have ha := h a List.mem_cons_self
    simp [List.filterMap_cons, ha, ih (fun x hx => h x (List.mem_cons_of_mem _ hx))]

theorem ownRow_some (s : Storage α) (hok : DenseOk s) {i : Nat} (hi : i < s.len) :
    ∃ e, s.ents[i]? = some e ∧ ownRow s i = some (e, s.cols.filterMap (fun c => c[i]?)) := by
  have hl : i < s.ents.length := by rw [hok.1]; exact hi
  exact ⟨s.ents[i], by simp [hl], by simp [ownRow, hl]⟩

theorem next_step (s : Storage α) (hok : DenseOk s) (i r : Nat) (hir : i + (r + 1) = s.len) :
    ∃ x, ownRow s i = some x ∧ nextS nextShape s ⟨r + 1, i, i⟩ = .some x ⟨r, i + 1, i + 1⟩ := by
  have hi : i < s.len := by omega
  obtain ⟨e, he, hrow⟩ := ownRow_some s hok hi
  have hall : (s.cols.all (fun c => decide (i < c.length))) = true := by
    simp only [List.all_eq_true, decide_eq_true_eq]
    intro c hc; rw [hok.2 c hc]; exact hi
  exact ⟨_, hrow, by simp [nextS, nextShape, runI, he, hall]⟩

theorem next_end (s : Storage α) (i : Nat) : nextS nextShape s ⟨0, i, i⟩ = .none := by
  simp [nextS, nextShape, runI]

theorem drain_spec (s : Storage α) (hok : DenseOk s) :
    ∀ (r i fuel : Nat), i + r = s.len → r < fuel →
      drain nextShape s fuel ⟨r, i, i⟩ = some ((List.range' i r).filterMap (ownRow s))
      ∧ ((List.range' i r).filterMap (ownRow s)).length = r := by
  intro r
  induction r with
  | zero =>
    intro i fuel _ hf
    cases fuel with
    | zero => omega
    | succ f => simp [drain, next_end]
  | succ r ih =>
    intro i fuel hir hf
    cases fuel with
    | zero => omega
    | succ f =>
      obtain ⟨x, hx, hn⟩ := next_step s hok i r hir
      obtain ⟨h1, h2⟩ := ih (i + 1) f (by omega) (by omega)
      constructor
      · simp [drain, hn, h1, List.range'_succ, List.filterMap_cons, hx]
      · simp [List.range'_succ, List.filterMap_cons, hx, h2]

theorem gen_iter_next_shape :
    Gen.iterNextSteps = nextShape ∧ Gen.iterMutNextSteps = nextShape
    ∧ Gen.iterImplMethods = ["next"] ∧ Gen.iterMutImplMethods = ["next"] := by
  refine ⟨rfl, rfl, rfl, rfl⟩

theorem gen_iter_ctor (s : Storage α) :
    mkIter Gen.iterFields s = some ⟨s.len, 0, 0⟩ ∧ mkIter Gen.iterMutFields s = some ⟨s.len, 0, 0⟩ := by
  constructor <;> simp [mkIter, Gen.iterFields, Gen.iterMutFields, ifields]

/-- C06 / C02 for `Archetype::iter` and `iter_mut`, from the statements of the current source. -/
theorem gen_iter_visits_each_once (s : Storage α) (hok : DenseOk s) :
    (∃ it, mkIter Gen.iterFields s = some it
        ∧ drain Gen.iterNextSteps s (s.len + 1) it = some ((List.range s.len).filterMap (ownRow s)))
    ∧ (∃ it, mkIter Gen.iterMutFields s = some it
        ∧ drain Gen.iterMutNextSteps s (s.len + 1) it = some ((List.range s.len).filterMap (ownRow s)))
    ∧ ((List.range s.len).filterMap (ownRow s)).length = s.len
    ∧ (∀ i, i < s.len → ∃ e, s.ents[i]? = some e
          ∧ ((List.range s.len).filterMap (ownRow s))[i]? = some (e, s.cols.filterMap (fun c => c[i]?))) := by
  obtain ⟨hs1, hs2, _, _⟩ := gen_iter_next_shape
  obtain ⟨hc1, hc2⟩ := gen_iter_ctor s
  obtain ⟨hd, hlen⟩ := drain_spec s hok s.len 0 (s.len + 1) (by omega) (by omega)
  rw [← List.range_eq_range'] at hd hlen
  refine ⟨⟨_, hc1, by rw [hs1]; exact hd⟩, ⟨_, hc2, by rw [hs2]; exact hd⟩, hlen, ?_⟩
  intro i hi
  obtain ⟨e, he, hrow⟩ := ownRow_some s hok hi
  refine ⟨e, he, ?_⟩
  have hmap : (List.range s.len).filterMap (ownRow s)
      = (List.range s.len).map (fun j => (ownRow s j).getD (e, [])) := by
    apply filterMap_eq_map_of_some
    intro j hj
    have hjl : j < s.len := List.mem_range.mp hj
    obtain ⟨_, _, h⟩ := ownRow_some s hok hjl
    simp [h]
  rw [hmap]
  simp [hi, hrow]

end Gecs
