/-
C11: runtime-borrowed access never aliases a mutable reference.

Ghost layer (`Held`, `compatible`, `exclusive`, `Abs`), the static conflict predicate
(`okOne`/`okList`, refined by `panicOne`/`panicList` which also predicts the panic kind),
the headline theorems over `execOne`/`execList` for arbitrary trees, and corollaries for the
high-level accesses `Node` through `compile`.
-/
import Gecs.Model.Borrow

namespace Gecs.Borrow

/-! ## 1. Ghost layer -/

/-- Outstanding guards, innermost first: (cell, mutable?). -/
abbrev Held := List (CellId × Bool)

/-- A new guard `(c, m)` is compatible with the guards still held iff every held guard on
the same cell is shared and the new one is shared too. -/
def compatible (held : Held) (c : CellId) (m : Bool) : Bool :=
  held.all (fun g => g.1 != c || (!m && !g.2))

/-- The `RefCell` exclusion invariant on the ghost list: each guard was compatible with the
guards acquired before it (pairwise compatibility). -/
def exclusive : Held → Bool
  | [] => true
  | (c, m) :: rest => compatible rest c m && exclusive rest

/-- The cell counters are exactly the abstraction of the ghost list of outstanding guards. -/
def Abs (cs : Cells) (held : Held) : Prop :=
  ∀ c, (cs.get c).readers = (held.filter (fun g => g.1 == c && !g.2)).length ∧
       (cs.get c).writer = held.any (fun g => g.1 == c && g.2)

theorem compatible_nil (c : CellId) (m : Bool) : compatible [] c m = true := rfl

theorem compatible_cons (g : CellId × Bool) (held : Held) (c : CellId) (m : Bool) :
    compatible (g :: held) c m = ((g.1 != c || (!m && !g.2)) && compatible held c m) := by
  simp [compatible]

theorem compatible_true_iff {held : Held} {c : CellId} :
    compatible held c true = true ↔ ∀ g ∈ held, g.1 ≠ c := by
  simp [compatible]

theorem compatible_false_iff {held : Held} {c : CellId} :
    compatible held c false = true ↔ ∀ g ∈ held, g.1 = c → g.2 = false := by
  simp only [compatible, List.all_eq_true]
  constructor
  · intro h g hg hc
    have := h g hg
    simp [hc] at this
    exact this
  · intro h g hg
    by_cases hc : g.1 = c
    · simp [h g hg hc]
    · simp [hc]

/-- Both directions at once: incompatibility means a held guard on the same cell with one of
the two mutable. -/
theorem compatible_eq_false_iff {held : Held} {c : CellId} {m : Bool} :
    compatible held c m = false ↔ ∃ g ∈ held, g.1 = c ∧ (m || g.2) = true := by
  cases m with
  | true =>
    have := @compatible_true_iff held c
    constructor
    · intro h
      apply Classical.byContradiction
      intro hn
      have : compatible held c true = true := by
        rw [compatible_true_iff]
        intro g hg hc
        exact hn ⟨g, hg, hc, by simp⟩
      simp [h] at this
    · rintro ⟨g, hg, hc, -⟩
      cases h : compatible held c true with
      | false => rfl
      | true => exact absurd hc (compatible_true_iff.mp h g hg)
  | false =>
    constructor
    · intro h
      apply Classical.byContradiction
      intro hn
      have : compatible held c false = true := by
        rw [compatible_false_iff]
        intro g hg hc
        cases h2 : g.2 with
        | false => rfl
        | true => exact absurd ⟨g, hg, hc, by simp [h2]⟩ hn
      simp [h] at this
    · rintro ⟨g, hg, hc, h2⟩
      cases h : compatible held c false with
      | false => rfl
      | true =>
        have := compatible_false_iff.mp h g hg hc
        simp [this] at h2

theorem Abs_nil : Abs [] [] := by
  intro c
  simp [Cells.get]

theorem Cells.get_put_same (cs : Cells) (c : CellId) (x : Cell) : (cs.put c x).get c = x := by
  simp [Cells.get, Cells.put]

theorem Cells.get_put_ne (cs : Cells) {c c' : CellId} (x : Cell) (h : c' ≠ c) :
    (cs.put c x).get c' = cs.get c' := by
  have hf : (cs.filter (fun kv => kv.1 != c)).find? (fun kv => kv.1 == c')
      = cs.find? (fun kv => kv.1 == c') := by
    induction cs with
    | nil => rfl
    | cons kv t ih =>
      simp only [List.filter_cons]
      by_cases hk : kv.1 = c
      · have hk' : (kv.1 == c') = false := by
          rw [hk]; simp; exact fun e => h e.symm
        have hk2 : (kv.1 != c) = false := by simp [hk]
        rw [hk2]
        simp only [Bool.false_eq_true, if_false, List.find?_cons, hk', ih]
      · have hk2 : (kv.1 != c) = true := by simp [hk]
        rw [hk2]
        simp only [if_true, List.find?_cons, ih]
  have hc : ((c, x).1 == c') = false := by
    simp; exact fun e => h e.symm
  simp only [Cells.get, Cells.put, List.find?_cons, hc, hf]

/-- Ghost-level counting facts used below. -/
theorem readers_eq_zero_of_compatible_true {held : Held} {c : CellId}
    (h : compatible held c true = true) :
    (held.filter (fun g => g.1 == c && !g.2)).length = 0 := by
  rw [List.length_eq_zero_iff, List.filter_eq_nil_iff]
  intro g hg
  have := compatible_true_iff.mp h g hg
  simp [this]

theorem writer_eq_false_of_compatible {held : Held} {c : CellId} {m : Bool}
    (h : compatible held c m = true) :
    held.any (fun g => g.1 == c && g.2) = false := by
  cases hany : held.any (fun g => g.1 == c && g.2) with
  | false => rfl
  | true =>
    rw [List.any_eq_true] at hany
    obtain ⟨g, hg, hp⟩ := hany
    simp at hp
    have : compatible held c m = false :=
      compatible_eq_false_iff.mpr ⟨g, hg, hp.1, by simp [hp.2]⟩
    simp [h] at this

/-- `try_borrow(_mut)` succeeds exactly when the new guard is compatible with every
outstanding guard. -/
theorem tryBorrow_isSome_iff {cs : Cells} {held : Held} (c : CellId) (m : Bool)
    (h : Abs cs held) :
    (tryBorrow cs c m).isSome = true ↔ compatible held c m = true := by
  obtain ⟨hr, hw⟩ := h c
  cases m with
  | true =>
    unfold tryBorrow
    simp only [if_true]
    constructor
    · intro hs
      split at hs
      · simp at hs
      · rename_i hcond
        simp at hcond
        rw [compatible_true_iff]
        intro g hg hc
        cases h2 : g.2 with
        | true =>
          have : held.any (fun g => g.1 == c && g.2) = true := by
            rw [List.any_eq_true]; exact ⟨g, hg, by simp [hc, h2]⟩
          rw [← hw, hcond.1] at this
          simp at this
        | false =>
          have hmem : g ∈ held.filter (fun g => g.1 == c && !g.2) := by
            rw [List.mem_filter]; exact ⟨hg, by simp [hc, h2]⟩
          have : (held.filter (fun g => g.1 == c && !g.2)).length = 0 := by
            rw [← hr]; exact hcond.2
          rw [List.length_eq_zero_iff] at this
          rw [this] at hmem
          simp at hmem
    · intro hc
      have h1 := readers_eq_zero_of_compatible_true hc
      have h2 := writer_eq_false_of_compatible hc
      rw [← hr] at h1
      rw [← hw] at h2
      simp [h1, h2]
  | false =>
    unfold tryBorrow
    simp only [Bool.false_eq_true, if_false]
    constructor
    · intro hs
      split at hs
      · simp at hs
      · rename_i hcond
        rw [compatible_false_iff]
        intro g hg hc
        cases h2 : g.2 with
        | false => rfl
        | true =>
          have : held.any (fun g => g.1 == c && g.2) = true := by
            rw [List.any_eq_true]; exact ⟨g, hg, by simp [hc, h2]⟩
          rw [← hw] at this
          exact absurd this hcond
    · intro hc
      have h2 := writer_eq_false_of_compatible hc
      rw [← hw] at h2
      simp [h2]

/-- After a granted borrow the counters abstract the ghost list extended by the new guard. -/
theorem tryBorrow_abs {cs cs' : Cells} {held : Held} {c : CellId} {m : Bool}
    (h : Abs cs held) (hb : tryBorrow cs c m = some cs') : Abs cs' ((c, m) :: held) := by
  have hcomp : compatible held c m = true :=
    (tryBorrow_isSome_iff c m h).mp (by simp [hb])
  obtain ⟨hr, hw⟩ := h c
  intro c'
  by_cases hcc : c' = c
  · subst hcc
    cases m with
    | true =>
      have h1 := readers_eq_zero_of_compatible_true hcomp
      unfold tryBorrow at hb
      simp only [if_true] at hb
      split at hb
      · simp at hb
      · simp only [Option.some.injEq] at hb
        subst hb
        rw [Cells.get_put_same]
        simp [h1]
    | false =>
      have h2 := writer_eq_false_of_compatible hcomp
      unfold tryBorrow at hb
      simp only [Bool.false_eq_true, if_false] at hb
      split at hb
      · simp at hb
      · simp only [Option.some.injEq] at hb
        subst hb
        rw [Cells.get_put_same]
        simp [h2, hr]
  · have hne : (c == c') = false := by
      simp; exact fun e => hcc e.symm
    have hget : cs'.get c' = cs.get c' := by
      simp only [tryBorrow] at hb
      split at hb <;> split at hb <;> simp at hb <;> subst hb <;>
        exact Cells.get_put_ne cs _ hcc
    rw [hget]
    have := h c'
    simp [hne, this.1, this.2]

theorem exclusive_cons {held : Held} {c : CellId} {m : Bool}
    (he : exclusive held = true) (hc : compatible held c m = true) :
    exclusive ((c, m) :: held) = true := by
  simp [exclusive, he, hc]

/-- The three facts about a borrow attempt in one statement. -/
theorem tryBorrow_iff {cs : Cells} {held : Held} (c : CellId) (m : Bool)
    (h : Abs cs held) (he : exclusive held = true) :
    ((tryBorrow cs c m).isSome = true ↔ compatible held c m = true) ∧
    (∀ cs', tryBorrow cs c m = some cs' →
      Abs cs' ((c, m) :: held) ∧ exclusive ((c, m) :: held) = true) := by
  refine ⟨tryBorrow_isSome_iff c m h, ?_⟩
  intro cs' hb
  refine ⟨tryBorrow_abs h hb, exclusive_cons he ?_⟩
  exact (tryBorrow_isSome_iff c m h).mp (by simp [hb])

/-- Dropping the innermost guard restores the abstraction of the remaining guards. -/
theorem release_abs {cs : Cells} {held : Held} {c : CellId} {m : Bool}
    (h : Abs cs ((c, m) :: held)) (he : exclusive ((c, m) :: held) = true) :
    Abs (release cs c m) held := by
  have hcomp : compatible held c m = true := by
    simp [exclusive] at he; exact he.1
  intro c'
  by_cases hcc : c' = c
  · subst hcc
    obtain ⟨hr, hw⟩ := h c'
    cases m with
    | true =>
      have h1 := writer_eq_false_of_compatible hcomp
      unfold release
      simp only [if_true]
      rw [Cells.get_put_same]
      simp at hr
      simp [hr, h1]
    | false =>
      unfold release
      simp only [Bool.false_eq_true, if_false]
      rw [Cells.get_put_same]
      simp at hr hw
      simp [hr, hw]
  · have hne : (c == c') = false := by
      simp; exact fun e => hcc e.symm
    have hget : (release cs c m).get c' = cs.get c' := by
      unfold release
      split <;> exact Cells.get_put_ne cs _ hcc
    rw [hget]
    have := h c'
    simp [hne] at this
    simp [this.1, this.2]

/-! ## 2. Static conflict predicate -/

mutual
/-- No access of the tree conflicts with a guard still held at that point. -/
def okOne (held : Held) : Acc → Bool
  | .ev _ => true
  | .guard c m body => compatible held c m && okList ((c, m) :: held) body
def okList (held : Held) : List Acc → Bool
  | [] => true
  | a :: rest => okOne held a && okList held rest
end

mutual
/-- Refinement of `okOne`: the kind of the first refused borrow, if any. -/
def panicOne (held : Held) : Acc → Option PanicKind
  | .ev _ => none
  | .guard c m body =>
    if compatible held c m then panicList ((c, m) :: held) body
    else some (if m then .borrowMutError else .borrowError)
def panicList (held : Held) : List Acc → Option PanicKind
  | [] => none
  | a :: rest =>
    match panicOne held a with
    | some k => some k
    | none => panicList held rest
end

mutual
theorem panicOne_isSome (held : Held) (a : Acc) :
    (panicOne held a).isSome = !okOne held a := by
  cases a with
  | ev tag => simp [panicOne, okOne]
  | guard c m body =>
    have ih := panicList_isSome ((c, m) :: held) body
    cases hc : compatible held c m <;> simp [panicOne, okOne, hc, ih]
theorem panicList_isSome (held : Held) (l : List Acc) :
    (panicList held l).isSome = !okList held l := by
  cases l with
  | nil => simp [panicList, okList]
  | cons a rest =>
    have h1 := panicOne_isSome held a
    have h2 := panicList_isSome held rest
    cases hp : panicOne held a with
    | some k =>
      rw [hp] at h1
      have : okOne held a = false := by simpa using h1
      simp [panicList, okList, hp, this]
    | none =>
      rw [hp] at h1
      have : okOne held a = true := by simpa using h1
      simp [panicList, okList, hp, this, h2]
end

/-! ## 3. Headline theorems -/

mutual
/-- Everything at once (this is the shape in which the mutual induction goes through; the
recursive calls are made with `Abs`/`exclusive` arguments obtained from `tryBorrow_iff`). -/
theorem execOne_spec (cs : Cells) (tr : List String) (held : Held) (a : Acc)
    (ha : Abs cs held) (he : exclusive held = true) :
    Abs (execOne cs tr a).cells held ∧ (execOne cs tr a).panic = panicOne held a ∧
      tr <+: (execOne cs tr a).trace := by
  cases a with
  | ev tag => simp [execOne, panicOne, ha]
  | guard c m body =>
    have hb := tryBorrow_iff c m ha he
    cases hbt : tryBorrow cs c m with
    | none =>
      have hcomp : compatible held c m = false := by
        cases hc : compatible held c m with
        | false => rfl
        | true =>
          have := hb.1.mpr hc
          simp [hbt] at this
      simp [execOne, panicOne, hbt, hcomp, ha]
    | some cs' =>
      obtain ⟨ha', he'⟩ := hb.2 cs' hbt
      have hcomp : compatible held c m = true := hb.1.mp (by simp [hbt])
      have ih := execList_spec cs' tr ((c, m) :: held) body ha' he'
      simp only [execOne, panicOne, hbt, hcomp, if_true]
      exact ⟨release_abs ih.1 he', ih.2.1, ih.2.2⟩
theorem execList_spec (cs : Cells) (tr : List String) (held : Held) (l : List Acc)
    (ha : Abs cs held) (he : exclusive held = true) :
    Abs (execList cs tr l).cells held ∧ (execList cs tr l).panic = panicList held l ∧
      tr <+: (execList cs tr l).trace := by
  cases l with
  | nil => simp [execList, panicList, ha]
  | cons a rest =>
    have h1 := execOne_spec cs tr held a ha he
    cases hp : (execOne cs tr a).panic with
    | some k =>
      have hp' : panicOne held a = some k := by rw [← h1.2.1, hp]
      simp only [execList, panicList, hp, hp']
      exact ⟨h1.1, trivial, h1.2.2⟩
    | none =>
      have hp' : panicOne held a = none := by rw [← h1.2.1, hp]
      have h2 := execList_spec (execOne cs tr a).cells (execOne cs tr a).trace held rest h1.1 he
      simp only [execList, panicList, hp, hp']
      exact ⟨h2.1, h2.2.1, List.IsPrefix.trans h1.2.2 h2.2.2⟩
end

/-- C11 (release): on BOTH outcomes (normal exit and panic/unwind) every guard acquired during
the program has been released; the outstanding guards are exactly those held before. -/
theorem exec_released {cs : Cells} {held : Held} (tr : List String) (a : Acc)
    (ha : Abs cs held) (he : exclusive held = true) :
    Abs (execOne cs tr a).cells held :=
  (execOne_spec cs tr held a ha he).1

theorem execList_released {cs : Cells} {held : Held} (tr : List String) (l : List Acc)
    (ha : Abs cs held) (he : exclusive held = true) :
    Abs (execList cs tr l).cells held :=
  (execList_spec cs tr held l ha he).1

/-- The abstraction determines every counter. -/
theorem Abs_get_eq {cs cs' : Cells} {held : Held} (h : Abs cs held) (h' : Abs cs' held)
    (c : CellId) : cs'.get c = cs.get c := by
  obtain ⟨h1, h2⟩ := h c
  obtain ⟨h1', h2'⟩ := h' c
  cases hx : cs.get c with
  | mk r w =>
    cases hy : cs'.get c with
    | mk r' w' =>
      rw [hx] at h1 h2
      rw [hy] at h1' h2'
      simp only at h1 h2 h1' h2'
      rw [h1, h2, h1', h2']

/-- Every counter is back to its initial value, on both outcomes. -/
theorem exec_cells_restored {cs : Cells} {held : Held} (tr : List String) (a : Acc)
    (ha : Abs cs held) (he : exclusive held = true) (c : CellId) :
    (execOne cs tr a).cells.get c = cs.get c :=
  Abs_get_eq ha (exec_released tr a ha he) c

theorem execList_cells_restored {cs : Cells} {held : Held} (tr : List String) (l : List Acc)
    (ha : Abs cs held) (he : exclusive held = true) (c : CellId) :
    (execList cs tr l).cells.get c = cs.get c :=
  Abs_get_eq ha (execList_released tr l ha he) c

/-- The exact panic (presence and kind) is the statically predicted one. -/
theorem exec_panic_eq {cs : Cells} {held : Held} (tr : List String) (a : Acc)
    (ha : Abs cs held) (he : exclusive held = true) :
    (execOne cs tr a).panic = panicOne held a :=
  (execOne_spec cs tr held a ha he).2.1

theorem execList_panic_eq {cs : Cells} {held : Held} (tr : List String) (l : List Acc)
    (ha : Abs cs held) (he : exclusive held = true) :
    (execList cs tr l).panic = panicList held l :=
  (execList_spec cs tr held l ha he).2.1

/-- C11 (conflict): the program panics iff some access is incompatible with a guard still
held at that point. -/
theorem exec_panics_iff {cs : Cells} {held : Held} (tr : List String) (a : Acc)
    (ha : Abs cs held) (he : exclusive held = true) :
    (execOne cs tr a).panic.isSome = true ↔ okOne held a = false := by
  rw [exec_panic_eq tr a ha he, panicOne_isSome]
  simp

theorem execList_panics_iff {cs : Cells} {held : Held} (tr : List String) (l : List Acc)
    (ha : Abs cs held) (he : exclusive held = true) :
    (execList cs tr l).panic.isSome = true ↔ okList held l = false := by
  rw [execList_panic_eq tr l ha he, panicList_isSome]
  simp

mutual
/-- The trace only grows (no hypothesis needed). -/
theorem trace_prefix (cs : Cells) (tr : List String) (a : Acc) :
    tr <+: (execOne cs tr a).trace := by
  cases a with
  | ev tag => simp [execOne]
  | guard c m body =>
    cases hbt : tryBorrow cs c m with
    | none => simp [execOne, hbt]
    | some cs' =>
      simp only [execOne, hbt]
      exact traceList_prefix cs' tr body
theorem traceList_prefix (cs : Cells) (tr : List String) (l : List Acc) :
    tr <+: (execList cs tr l).trace := by
  cases l with
  | nil => simp [execList]
  | cons a rest =>
    have h1 := trace_prefix cs tr a
    cases hp : (execOne cs tr a).panic with
    | some k =>
      simp only [execList, hp]
      exact h1
    | none =>
      simp only [execList, hp]
      exact List.IsPrefix.trans h1
        (traceList_prefix (execOne cs tr a).cells (execOne cs tr a).trace rest)
end

/-! ### Corollaries of `exec_panics_iff` for a single guard -/

/-- A guard on a cell on which nothing is held is granted (a different column or a different
archetype is a different `CellId`): the guard itself never panics, only its body may. -/
theorem guard_other_cell_ok {cs : Cells} {held : Held} (tr : List String) (c : CellId) (m : Bool)
    (body : List Acc) (ha : Abs cs held) (he : exclusive held = true)
    (hfree : ∀ g ∈ held, g.1 ≠ c) :
    (tryBorrow cs c m).isSome = true ∧
    (execOne cs tr (.guard c m body)).panic = panicList ((c, m) :: held) body := by
  have hcomp : compatible held c m = true := by
    cases hc : compatible held c m with
    | true => rfl
    | false =>
      obtain ⟨g, hg, hgc, -⟩ := compatible_eq_false_iff.mp hc
      exact absurd hgc (hfree g hg)
  refine ⟨(tryBorrow_isSome_iff c m ha).mpr hcomp, ?_⟩
  rw [exec_panic_eq tr _ ha he]
  simp [panicOne, hcomp]

/-- ... in particular with a conflict-free body there is no panic at all. -/
theorem guard_other_cell_no_panic {cs : Cells} {held : Held} (tr : List String) (c : CellId)
    (m : Bool) (body : List Acc) (ha : Abs cs held) (he : exclusive held = true)
    (hfree : ∀ g ∈ held, g.1 ≠ c) (hbody : okList ((c, m) :: held) body = true) :
    (execOne cs tr (.guard c m body)).panic = none := by
  rw [(guard_other_cell_ok tr c m body ha he hfree).2]
  have := panicList_isSome ((c, m) :: held) body
  rw [hbody] at this
  simpa using this

/-- A shared guard while only shared guards are held on that cell is granted. -/
theorem shared_shared_ok {cs : Cells} {held : Held} (tr : List String) (c : CellId)
    (body : List Acc) (ha : Abs cs held) (he : exclusive held = true)
    (hshared : ∀ g ∈ held, g.1 = c → g.2 = false) :
    (tryBorrow cs c false).isSome = true ∧
    (execOne cs tr (.guard c false body)).panic = panicList ((c, false) :: held) body := by
  have hcomp : compatible held c false = true := compatible_false_iff.mpr hshared
  refine ⟨(tryBorrow_isSome_iff c false ha).mpr hcomp, ?_⟩
  rw [exec_panic_eq tr _ ha he]
  simp [panicOne, hcomp]

theorem shared_shared_no_panic {cs : Cells} {held : Held} (tr : List String) (c : CellId)
    (body : List Acc) (ha : Abs cs held) (he : exclusive held = true)
    (hshared : ∀ g ∈ held, g.1 = c → g.2 = false)
    (hbody : okList ((c, false) :: held) body = true) :
    (execOne cs tr (.guard c false body)).panic = none := by
  rw [(shared_shared_ok tr c body ha he hshared).2]
  have := panicList_isSome ((c, false) :: held) body
  rw [hbody] at this
  simpa using this

/-- A guard on a cell with an outstanding guard where one of the two is mutable is refused:
the access panics (`BorrowMutError` for a mutable access, `BorrowError` for a shared one),
nothing is acquired, the body does not run. -/
theorem mut_conflicts {cs : Cells} {held : Held} (tr : List String) (c : CellId) (m : Bool)
    (body : List Acc) (ha : Abs cs held) (g : CellId × Bool)
    (hg : g ∈ held) (hgc : g.1 = c) (hm : (m || g.2) = true) :
    tryBorrow cs c m = none ∧
    execOne cs tr (.guard c m body) =
      ⟨cs, tr, some (if m then PanicKind.borrowMutError else PanicKind.borrowError)⟩ := by
  have hcomp : compatible held c m = false :=
    compatible_eq_false_iff.mpr ⟨g, hg, hgc, hm⟩
  have hb : tryBorrow cs c m = none := by
    cases hbt : tryBorrow cs c m with
    | none => rfl
    | some cs' =>
      have := (tryBorrow_isSome_iff c m ha).mp (by simp [hbt])
      simp [hcomp] at this
  exact ⟨hb, by simp [execOne, hb]⟩

/-- A borrow ends when its guard ends (also by unwinding), so a later access is never
spuriously refused: whatever ran before (panicking or not), a program run afterwards
panics exactly when it would have panicked had it run first. -/
theorem later_access_not_refused {cs : Cells} {held : Held} (tr tr' tr'' : List String)
    (l1 l2 : List Acc) (ha : Abs cs held) (he : exclusive held = true) :
    (execList (execList cs tr l1).cells tr' l2).panic = (execList cs tr'' l2).panic := by
  rw [execList_panic_eq tr' l2 (execList_released tr l1 ha he) he, execList_panic_eq tr'' l2 ha he]

/-! ### No aliasing is ever granted -/

/-- Ghost-level exclusion: never a mutable and a shared guard on one cell. -/
theorem exclusive_not_writer_and_reader {held : Held} (he : exclusive held = true) (c : CellId) :
    ¬ (held.any (fun g => g.1 == c && g.2) = true ∧
       (held.filter (fun g => g.1 == c && !g.2)).length > 0) := by
  induction held with
  | nil => simp
  | cons g rest ih =>
    obtain ⟨c0, m0⟩ := g
    simp only [exclusive, Bool.and_eq_true] at he
    obtain ⟨hcomp, hrest⟩ := he
    have ih := ih hrest
    by_cases hc : c0 = c
    · subst hc
      cases m0 with
      | true =>
        have h1 := readers_eq_zero_of_compatible_true hcomp
        simp [h1]
      | false =>
        have h2 := writer_eq_false_of_compatible hcomp
        simp [h2]
    · have hne : (c0 == c) = false := by simpa using hc
      simpa [List.filter_cons, hne] using ih

/-- C11 (no alias), on the counters: in every state that abstracts an exclusive ghost list no
cell is at once mutably borrowed and shared-borrowed. -/
theorem never_writer_and_reader {cs : Cells} {held : Held}
    (ha : Abs cs held) (he : exclusive held = true) (c : CellId) :
    ¬ ((cs.get c).writer = true ∧ (cs.get c).readers > 0) := by
  obtain ⟨hr, hw⟩ := ha c
  rw [hr, hw]
  exact exclusive_not_writer_and_reader he c

/-- Two mutable guards on one cell are never both held. -/
theorem at_most_one_writer {held : Held} (he : exclusive held = true) (c : CellId) :
    (held.filter (fun g => g.1 == c && g.2)).length ≤ 1 := by
  induction held with
  | nil => simp
  | cons g rest ih =>
    obtain ⟨c0, m0⟩ := g
    simp only [exclusive, Bool.and_eq_true] at he
    obtain ⟨hcomp, hrest⟩ := he
    have ih := ih hrest
    by_cases hc : c0 = c
    · subst hc
      cases m0 with
      | true =>
        have h0 : rest.filter (fun g => g.1 == c0 && g.2) = [] := by
          rw [List.filter_eq_nil_iff]
          intro g hg
          have := compatible_true_iff.mp hcomp g hg
          simp [this]
        simp [h0]
      | false => simpa [List.filter_cons] using ih
    · have hne : (c0 == c) = false := by simpa using hc
      simpa [List.filter_cons, hne] using ih

/-- `exclusive` is pairwise compatibility: two guards on one cell are both shared. -/
theorem exclusive_iff_pairwise {held : Held} :
    exclusive held = true ↔
      held.Pairwise (fun g g' => g.1 = g'.1 → g.2 = false ∧ g'.2 = false) := by
  induction held with
  | nil => simp [exclusive]
  | cons g rest ih =>
    obtain ⟨c, m⟩ := g
    simp only [exclusive, Bool.and_eq_true, List.pairwise_cons, ih]
    constructor
    · rintro ⟨hcomp, hp⟩
      refine ⟨?_, hp⟩
      intro g' hg' hcc
      cases m with
      | true => exact absurd hcc.symm (compatible_true_iff.mp hcomp g' hg')
      | false => exact ⟨rfl, compatible_false_iff.mp hcomp g' hg' hcc.symm⟩
    · rintro ⟨h1, hp⟩
      refine ⟨?_, hp⟩
      cases hc : compatible rest c m with
      | true => rfl
      | false =>
        obtain ⟨g', hg', hgc, hm⟩ := compatible_eq_false_iff.mp hc
        have := h1 g' hg' hgc.symm
        simp [this.1, this.2] at hm

mutual
/-- Every cell state the execution goes through after its start, in order: the state right
after each granted borrow and the state right after each release.  (Defined by reference to
`execOne`/`execList` themselves, so these are the states of the real execution.) -/
def statesOne (cs : Cells) (tr : List String) : Acc → List Cells
  | .ev _ => []
  | .guard c m body =>
    match tryBorrow cs c m with
    | none => []
    | some cs' => cs' :: (statesList cs' tr body ++ [release (execList cs' tr body).cells c m])
def statesList (cs : Cells) (tr : List String) : List Acc → List Cells
  | [] => []
  | a :: rest =>
    statesOne cs tr a ++
      (match (execOne cs tr a).panic with
       | some _ => []
       | none => statesList (execOne cs tr a).cells (execOne cs tr a).trace rest)
end

mutual
/-- `exec_exclusive`: every state reached during the execution abstracts an `exclusive` ghost
list extending the initial one, i.e. every `tryBorrow` of the execution is evaluated (and every
recursive call made) in an `Abs`/`exclusive` state. -/
theorem statesOne_exclusive (cs : Cells) (tr : List String) (held : Held) (a : Acc)
    (ha : Abs cs held) (he : exclusive held = true) :
    ∀ s ∈ statesOne cs tr a, ∃ h', Abs s h' ∧ exclusive h' = true ∧ held <:+ h' := by
  cases a with
  | ev tag => simp [statesOne]
  | guard c m body =>
    cases hbt : tryBorrow cs c m with
    | none => simp [statesOne, hbt]
    | some cs' =>
      obtain ⟨ha', he'⟩ := (tryBorrow_iff c m ha he).2 cs' hbt
      intro s hs
      simp only [statesOne, hbt, List.mem_cons, List.mem_append, List.not_mem_nil,
        or_false] at hs
      rcases hs with hs | hs | hs
      · subst hs
        exact ⟨(c, m) :: held, ha', he', List.suffix_cons _ _⟩
      · obtain ⟨h', h1, h2, h3⟩ :=
          statesList_exclusive cs' tr ((c, m) :: held) body ha' he' s hs
        exact ⟨h', h1, h2, List.IsSuffix.trans (List.suffix_cons _ _) h3⟩
      · subst hs
        exact ⟨held, release_abs (execList_released tr body ha' he') he', he,
          List.suffix_refl _⟩
theorem statesList_exclusive (cs : Cells) (tr : List String) (held : Held) (l : List Acc)
    (ha : Abs cs held) (he : exclusive held = true) :
    ∀ s ∈ statesList cs tr l, ∃ h', Abs s h' ∧ exclusive h' = true ∧ held <:+ h' := by
  cases l with
  | nil => simp [statesList]
  | cons a rest =>
    intro s hs
    simp only [statesList, List.mem_append] at hs
    rcases hs with hs | hs
    · exact statesOne_exclusive cs tr held a ha he s hs
    · cases hp : (execOne cs tr a).panic with
      | some k => simp [hp] at hs
      | none =>
        simp only [hp] at hs
        exact statesList_exclusive (execOne cs tr a).cells (execOne cs tr a).trace held rest
          (exec_released tr a ha he) he s hs
end

/-- Readable names for the invariant carried by the mutual induction. -/
theorem exec_exclusive {cs : Cells} {held : Held} (tr : List String) (a : Acc)
    (ha : Abs cs held) (he : exclusive held = true) :
    ∀ s ∈ statesOne cs tr a, ∃ h', Abs s h' ∧ exclusive h' = true ∧ held <:+ h' :=
  statesOne_exclusive cs tr held a ha he

theorem execList_exclusive {cs : Cells} {held : Held} (tr : List String) (l : List Acc)
    (ha : Abs cs held) (he : exclusive held = true) :
    ∀ s ∈ statesList cs tr l, ∃ h', Abs s h' ∧ exclusive h' = true ∧ held <:+ h' :=
  statesList_exclusive cs tr held l ha he

/-- C11 (no alias): in no state reached during the execution of any tree is a cell at once
mutably borrowed and shared-borrowed. -/
theorem exec_no_alias {cs : Cells} {held : Held} (tr : List String) (a : Acc)
    (ha : Abs cs held) (he : exclusive held = true) :
    ∀ s ∈ statesOne cs tr a, ∀ c, ¬ ((s.get c).writer = true ∧ (s.get c).readers > 0) := by
  intro s hs c
  obtain ⟨h', h1, h2, -⟩ := statesOne_exclusive cs tr held a ha he s hs
  exact never_writer_and_reader h1 h2 c

theorem execList_no_alias {cs : Cells} {held : Held} (tr : List String) (l : List Acc)
    (ha : Abs cs held) (he : exclusive held = true) :
    ∀ s ∈ statesList cs tr l, ∀ c, ¬ ((s.get c).writer = true ∧ (s.get c).readers > 0) := by
  intro s hs c
  obtain ⟨h', h1, h2, -⟩ := statesList_exclusive cs tr held l ha he s hs
  exact never_writer_and_reader h1 h2 c

mutual
/-- Sanity link between `statesOne` and `execOne`: the last recorded state is the final state. -/
theorem statesOne_last (cs : Cells) (tr : List String) (a : Acc) :
    (statesOne cs tr a).getLast?.getD cs = (execOne cs tr a).cells := by
  cases a with
  | ev tag => simp [statesOne, execOne]
  | guard c m body =>
    cases hbt : tryBorrow cs c m with
    | none => simp [statesOne, execOne, hbt]
    | some cs' =>
      simp only [statesOne, execOne, hbt]
      rw [← List.cons_append, List.getLast?_append]
      simp
theorem statesList_last (cs : Cells) (tr : List String) (l : List Acc) :
    (statesList cs tr l).getLast?.getD cs = (execList cs tr l).cells := by
  cases l with
  | nil => simp [statesList, execList]
  | cons a rest =>
    have h1 := statesOne_last cs tr a
    cases hp : (execOne cs tr a).panic with
    | some k =>
      simp only [statesList, execList, hp, List.append_nil]
      exact h1
    | none =>
      have h2 := statesList_last (execOne cs tr a).cells (execOne cs tr a).trace rest
      simp only [statesList, execList, hp]
      rw [List.getLast?_append, ← h2, ← h1]
      cases (statesList (execOne cs tr a).cells (execOne cs tr a).trace rest).getLast? <;> simp
end

/-! ## 4. High-level accesses (`Node`, through `compile`) -/

/-- The guards `gs`, acquired left to right on top of `held`, are each compatible with `held`
and with the ones before them. -/
def compatAll (held : Held) : List (CellId × Bool) → Bool
  | [] => true
  | (c, m) :: gs => compatible held c m && compatAll ((c, m) :: held) gs

/-- The kind of the first refused guard of `gs`, if any. -/
def refusedKind (held : Held) : List (CellId × Bool) → Option PanicKind
  | [] => none
  | (c, m) :: gs =>
    if compatible held c m then refusedKind ((c, m) :: held) gs
    else some (if m then .borrowMutError else .borrowError)

theorem refusedKind_isSome (held : Held) (gs : List (CellId × Bool)) :
    (refusedKind held gs).isSome = !compatAll held gs := by
  induction gs generalizing held with
  | nil => simp [refusedKind, compatAll]
  | cons g gs ih =>
    obtain ⟨c, m⟩ := g
    cases hc : compatible held c m <;> simp [refusedKind, compatAll, hc, ih]

/-- `compatAll` is exactly what keeps the ghost list exclusive. -/
theorem exclusive_reverse_append (held : Held) (gs : List (CellId × Bool)) :
    exclusive (gs.reverse ++ held) = (compatAll held gs && exclusive held) := by
  induction gs generalizing held with
  | nil => simp [compatAll]
  | cons g gs ih =>
    obtain ⟨c, m⟩ := g
    rw [List.reverse_cons, List.append_assoc, List.singleton_append, ih]
    simp only [compatAll, exclusive]
    cases compatAll ((c, m) :: held) gs <;> cases compatible held c m <;> simp

theorem okList_append (held : Held) (l1 l2 : List Acc) :
    okList held (l1 ++ l2) = (okList held l1 && okList held l2) := by
  induction l1 with
  | nil => simp [okList]
  | cons a l1 ih => simp [okList, ih, Bool.and_assoc]

theorem panicList_append (held : Held) (l1 l2 : List Acc) :
    panicList held (l1 ++ l2) = (panicList held l1).or (panicList held l2) := by
  induction l1 with
  | nil => simp [panicList]
  | cons a l1 ih =>
    cases hp : panicOne held a <;> simp [panicList, hp, ih]

theorem okList_nest (held : Held) (gs : List (CellId × Bool)) (body : List Acc) :
    okList held (nest gs body) = (compatAll held gs && okList (gs.reverse ++ held) body) := by
  induction gs generalizing held with
  | nil => simp [nest, compatAll]
  | cons g gs ih =>
    obtain ⟨c, m⟩ := g
    rw [List.reverse_cons, List.append_assoc, List.singleton_append]
    simp [nest, compatAll, okList, okOne, ih, Bool.and_assoc]

theorem panicList_nest (held : Held) (gs : List (CellId × Bool)) (body : List Acc) :
    panicList held (nest gs body) =
      (refusedKind held gs).or (panicList (gs.reverse ++ held) body) := by
  induction gs generalizing held with
  | nil => simp [nest, refusedKind]
  | cons g gs ih =>
    obtain ⟨c, m⟩ := g
    rw [List.reverse_cons, List.append_assoc, List.singleton_append]
    cases hc : compatible held c m with
    | false => simp [nest, refusedKind, panicList, panicOne, hc]
    | true =>
      simp only [nest, refusedKind, panicList, panicOne, hc, if_true, ih]
      cases (refusedKind ((c, m) :: held) gs).or (panicList (gs.reverse ++ (c, m) :: held) body)
        <;> rfl

/-- The top-level run panics iff some access conflicts with a guard still held. -/
theorem run_panics_iff (nodes : List Node) :
    (run nodes).panic.isSome = true ↔ okList [] (compileList nodes) = false :=
  execList_panics_iff [] (compileList nodes) Abs_nil rfl

theorem run_panic_eq (nodes : List Node) :
    (run nodes).panic = panicList [] (compileList nodes) :=
  execList_panic_eq [] (compileList nodes) Abs_nil rfl

/-- After the top-level run, on both outcomes, every cell is unborrowed: a later access is
never spuriously refused. -/
theorem run_released (nodes : List Node) (c : CellId) :
    (run nodes).cells.get c = ⟨0, false⟩ := by
  have h := execList_released [] (compileList nodes) Abs_nil rfl c
  cases hx : (run nodes).cells.get c with
  | mk r w =>
    unfold run at hx
    rw [hx] at h
    simp at h
    rw [h.1, h.2]

theorem run_no_alias (nodes : List Node) :
    ∀ s ∈ statesList [] [] (compileList nodes), ∀ c,
      ¬ ((s.get c).writer = true ∧ (s.get c).readers > 0) :=
  execList_no_alias [] (compileList nodes) Abs_nil rfl

/-! ### `Cells.idle` (needs that `put` keeps the keys duplicate-free) -/

def Cells.NodupKeys (cs : Cells) : Prop := (cs.map (·.1)).Nodup

theorem Cells.nodupKeys_put {cs : Cells} (h : cs.NodupKeys) (c : CellId) (x : Cell) :
    (cs.put c x).NodupKeys := by
  unfold Cells.NodupKeys Cells.put
  rw [List.map_cons, List.nodup_cons]
  constructor
  · simp
  · exact List.Nodup.sublist (List.Sublist.map _ List.filter_sublist) h

theorem nodupKeys_tryBorrow {cs cs' : Cells} {c : CellId} {m : Bool} (h : cs.NodupKeys)
    (hb : tryBorrow cs c m = some cs') : cs'.NodupKeys := by
  simp only [tryBorrow] at hb
  split at hb <;> split at hb <;> simp at hb <;> subst hb <;> exact Cells.nodupKeys_put h _ _

theorem nodupKeys_release {cs : Cells} (h : cs.NodupKeys) (c : CellId) (m : Bool) :
    (release cs c m).NodupKeys := by
  unfold release
  split <;> exact Cells.nodupKeys_put h _ _

mutual
theorem execOne_nodupKeys (cs : Cells) (tr : List String) (a : Acc) (h : cs.NodupKeys) :
    (execOne cs tr a).cells.NodupKeys := by
  cases a with
  | ev tag => simpa [execOne] using h
  | guard c m body =>
    cases hbt : tryBorrow cs c m with
    | none => simpa [execOne, hbt] using h
    | some cs' =>
      simp only [execOne, hbt]
      exact nodupKeys_release (execList_nodupKeys cs' tr body (nodupKeys_tryBorrow h hbt)) c m
theorem execList_nodupKeys (cs : Cells) (tr : List String) (l : List Acc) (h : cs.NodupKeys) :
    (execList cs tr l).cells.NodupKeys := by
  cases l with
  | nil => simpa [execList] using h
  | cons a rest =>
    have h1 := execOne_nodupKeys cs tr a h
    cases hp : (execOne cs tr a).panic with
    | some k =>
      simp only [execList, hp]
      exact h1
    | none =>
      simp only [execList, hp]
      exact execList_nodupKeys (execOne cs tr a).cells (execOne cs tr a).trace rest h1
end

theorem Cells.get_of_mem {cs : Cells} (h : cs.NodupKeys) {kv : CellId × Cell} (hm : kv ∈ cs) :
    cs.get kv.1 = kv.2 := by
  induction cs with
  | nil => simp at hm
  | cons kv0 t ih =>
    unfold Cells.NodupKeys at h
    rw [List.map_cons, List.nodup_cons] at h
    rcases List.mem_cons.mp hm with hm | hm
    · subst hm
      simp [Cells.get]
    · have hne : (kv0.1 == kv.1) = false := by
        simp only [beq_eq_false_iff_ne, ne_eq]
        intro e
        exact h.1 (e ▸ List.mem_map_of_mem hm)
      have := ih h.2 hm
      simp only [Cells.get, List.find?_cons, hne] at this ⊢
      exact this

theorem Cells.idle_of_get {cs : Cells} (h : cs.NodupKeys)
    (hg : ∀ c, cs.get c = ⟨0, false⟩) : cs.idle = true := by
  unfold Cells.idle
  rw [List.all_eq_true]
  intro kv hkv
  have := Cells.get_of_mem h hkv
  rw [hg] at this
  simp [← this]

/-- `run_idle`: after the top-level run, on both outcomes, no guard is outstanding. -/
theorem run_idle (nodes : List Node) : (run nodes).cells.idle = true := by
  apply Cells.idle_of_get
  · exact execList_nodupKeys [] [] (compileList nodes) (by simp [Cells.NodupKeys])
  · exact run_released nodes

/-! ### `clone` -/

theorem compatible_cons_shared (held : Held) (c c' : CellId) :
    compatible ((c, false) :: held) c' false = compatible held c' false := by
  simp [compatible_cons]

theorem refusedKind_shared (held : Held) (cols : List CellId) :
    refusedKind held (cols.map (fun c => (c, false))) =
      if cols.all (fun c => compatible held c false) then none else some .borrowError := by
  induction cols generalizing held with
  | nil => simp [refusedKind]
  | cons c cols ih =>
    cases hc : compatible held c false with
    | false => simp [refusedKind, hc]
    | true =>
      simp only [List.map_cons, refusedKind, hc, if_true, ih, List.all_cons, Bool.true_and]
      simp only [compatible_cons_shared]

theorem panicList_clone (held : Held) (archCols : List (List CellId)) :
    panicList held (compile (.cl archCols)) =
      if archCols.all (fun cols => cols.all (fun c => compatible held c false)) then none
      else some .borrowError := by
  simp only [compile]
  rw [panicList_append]
  have hev : panicList held [Acc.ev "cl+"] = none := by simp [panicList, panicOne]
  rw [hev, Option.or_none]
  induction archCols with
  | nil => simp [panicList]
  | cons cols rest ih =>
    rw [List.flatMap_cons, panicList_append, ih, panicList_nest, refusedKind_shared,
      List.all_cons]
    cases cols.all (fun c => compatible held c false)
    · simp [panicList]
    · simp only [Bool.true_and]
      simp [panicList]

theorem clone_compat_iff (held : Held) (archCols : List (List CellId)) :
    archCols.all (fun cols => cols.all (fun c => compatible held c false)) =
      !held.any (fun g => g.2 && archCols.flatten.contains g.1) := by
  rw [Bool.eq_iff_iff]
  simp only [List.all_eq_true, compatible_false_iff, Bool.not_eq_true', List.any_eq_false,
    Bool.and_eq_true, List.contains_iff_mem, List.mem_flatten, not_and, not_exists]
  constructor
  · intro h g hg hg2 cols hcols hmem
    have := h cols hcols g.1 hmem g hg rfl
    simp [hg2] at this
  · intro h cols hcols c hc g hg hgc
    cases hg2 : g.2 with
    | false => rfl
    | true => exact absurd (hgc ▸ hc) (h g hg hg2 cols hcols)

/-- `clone` panics exactly while some listed column is mutably borrowed, and the panic is a
`BorrowError`. -/
theorem clone_panic_eq {cs : Cells} {held : Held} (tr : List String)
    (archCols : List (List CellId)) (ha : Abs cs held) (he : exclusive held = true) :
    (execList cs tr (compile (.cl archCols))).panic =
      if held.any (fun g => g.2 && archCols.flatten.contains g.1) then some .borrowError
      else none := by
  rw [execList_panic_eq tr _ ha he, panicList_clone, clone_compat_iff]
  cases held.any (fun g => g.2 && archCols.flatten.contains g.1) <;> simp

theorem clone_panics_iff_writer {cs : Cells} {held : Held} (tr : List String)
    (archCols : List (List CellId)) (ha : Abs cs held) (he : exclusive held = true) :
    ((execList cs tr (compile (.cl archCols))).panic.isSome = true ↔
      held.any (fun g => g.2 && archCols.flatten.contains g.1) = true) ∧
    (∀ k, (execList cs tr (compile (.cl archCols))).panic = some k → k = .borrowError) := by
  rw [clone_panic_eq tr archCols ha he]
  cases held.any (fun g => g.2 && archCols.flatten.contains g.1) <;> simp

/-- The same on the counters: `clone` panics iff the `writer` flag of a listed cell is set. -/
theorem clone_panics_iff_writer_flag {cs : Cells} {held : Held} (tr : List String)
    (archCols : List (List CellId)) (ha : Abs cs held) (he : exclusive held = true) :
    (execList cs tr (compile (.cl archCols))).panic.isSome = true ↔
      ∃ c ∈ archCols.flatten, (cs.get c).writer = true := by
  rw [(clone_panics_iff_writer tr archCols ha he).1]
  simp only [List.any_eq_true, Bool.and_eq_true, List.contains_iff_mem]
  constructor
  · rintro ⟨g, hg, hg2, hmem⟩
    refine ⟨g.1, hmem, ?_⟩
    rw [(ha g.1).2, List.any_eq_true]
    exact ⟨g, hg, by simp [hg2]⟩
  · rintro ⟨c, hmem, hw⟩
    rw [(ha c).2, List.any_eq_true] at hw
    obtain ⟨g, hg, hp⟩ := hw
    simp only [Bool.and_eq_true, beq_iff_eq] at hp
    exact ⟨g, hg, hp.2, hp.1 ▸ hmem⟩

/-- From the top level (nothing borrowed) `clone` never panics. -/
theorem clone_top_level_ok (archCols : List (List CellId)) :
    (run [.cl archCols]).panic = none := by
  have h := clone_panic_eq [] archCols Abs_nil rfl
  simpa [run, compileList] using h

/-- `clone` inside the closure of a mutable slice borrow of a cloned column panics. -/
theorem clone_under_mut_slice_panics (a col : Nat) (archCols : List (List CellId))
    (rest : List Node) (h : (a, col) ∈ archCols.flatten) :
    (run [.bs a col true (.cl archCols :: rest)]).panic = some .borrowError := by
  rw [run_panic_eq]
  have hcl : panicList [((a, col), true)] (compile (.cl archCols)) = some .borrowError := by
    rw [panicList_clone, clone_compat_iff]
    have : archCols.flatten.contains (a, col) = true := List.contains_iff_mem.mpr h
    have hany : List.any [((a, col), true)]
        (fun g => g.2 && archCols.flatten.contains g.1) = true := by
      simp only [List.any_cons, List.any_nil, this]; rfl
    rw [hany]; rfl
  have e : compileList [Node.bs a col true (.cl archCols :: rest)] =
      [Acc.guard (a, col) true
        (Acc.ev "bs+" :: (compile (.cl archCols) ++ compileList rest))] := by
    simp only [compileList, compile.eq_1, List.append_nil]
  rw [e]
  simp only [panicList, panicOne, compatible_nil, if_true]
  rw [panicList_append, hcl]
  rfl

/-! ### `borrow_slice*`, `ecs_iter_borrow!`, `ecs_find_borrow!` -/

/-- The explicit `borrow_slice(_mut)` always acquires its guard: there is no "archetype is
empty" case in which it is skipped. -/
theorem bs_empty_archetype_still_borrows (a col : Nat) (m : Bool) (body : List Node) :
    compile (.bs a col m body) = [Acc.guard (a, col) m (Acc.ev "bs+" :: compileList body)] := by
  simp [compile]

/-- ... so a conflicting nested `borrow_slice*` of the same column panics unconditionally. -/
theorem bs_nested_same_column_panics (a col : Nat) (m1 m2 : Bool) (body : List Node)
    (hm : (m2 || m1) = true) :
    (run [.bs a col m1 [.bs a col m2 body]]).panic =
      some (if m2 then .borrowMutError else .borrowError) := by
  rw [run_panic_eq]
  have hc : compatible [((a, col), m1)] (a, col) m2 = false :=
    compatible_eq_false_iff.mpr ⟨((a, col), m1), by simp, rfl, hm⟩
  simp [compileList, compile, panicList, panicOne, compatible_nil, hc]

/-- `ecs_iter_borrow!` over no entity (no archetype matched, or all matched ones empty)
acquires nothing. -/
theorem ib_empty_acquires_nothing (body : List Node) : compile (.ib [] body) = [] := by
  simp [compile]

theorem bc_not_found_acquires_nothing (a col : Nat) (m : Bool) (body : List Node) :
    compile (.bc a col m false body) = [Acc.ev "bc-"] := by
  simp [compile]

theorem fb_not_found_acquires_nothing (body : List Node) :
    compile (.fb none body) = [Acc.ev "fb-"] := by
  simp [compile]

/-- `ecs_find_borrow!` with bound guards `gs`: conflict-free iff the guards are compatible with
the held ones and with each other (in order) and the closure body is conflict-free under them. -/
theorem fb_panics_iff {cs : Cells} {held : Held} (tr : List String)
    (gs : List (CellId × Bool)) (body : List Node) (ha : Abs cs held)
    (he : exclusive held = true) :
    (execList cs tr (compile (.fb (some gs) body))).panic.isSome = true ↔
      (compatAll held gs &&
        okList (gs.reverse ++ held) (Acc.ev "fb+" :: compileList body)) = false := by
  rw [execList_panics_iff tr _ ha he]
  simp only [compile, okList_nest]

/-- Two guards on one cell, one of them mutable, among the parameters of one
`ecs_find_borrow!` closure: panics (from any consistent state, in particular from idle). -/
theorem fb_two_guards_conflict {cs : Cells} {held : Held} (tr : List String)
    (gs : List (CellId × Bool)) (body : List Node) (ha : Abs cs held)
    (he : exclusive held = true) (c : CellId) (m1 m2 : Bool)
    (hsub : List.Sublist [(c, m1), (c, m2)] gs) (hm : (m1 || m2) = true) :
    (execList cs tr (compile (.fb (some gs) body))).panic.isSome = true := by
  rw [fb_panics_iff tr gs body ha he]
  have hca : compatAll held gs = false := by
    cases hca : compatAll held gs with
    | false => rfl
    | true =>
      have hex : exclusive (gs.reverse ++ held) = true := by
        rw [exclusive_reverse_append, hca, he]; rfl
      rw [exclusive_iff_pairwise] at hex
      have h1 := (List.pairwise_append.mp hex).1
      rw [List.pairwise_reverse] at h1
      have h2 := List.Pairwise.sublist hsub h1
      simp only [List.pairwise_cons, List.mem_singleton, forall_eq] at h2
      have := h2.1 trivial
      simp [this.1, this.2] at hm
  simp [hca]

theorem find_same_column_twice_mut (c : CellId) (body : List Node) :
    (run [.fb (some [(c, true), (c, false)]) body]).panic = some .borrowError := by
  rw [run_panic_eq]
  have hc : compatible [(c, true)] c false = false :=
    compatible_eq_false_iff.mpr ⟨(c, true), by simp, rfl, rfl⟩
  simp [compileList, compile, nest, panicList, panicOne, compatible_nil, hc]

theorem find_same_column_shared_then_mut (c : CellId) (body : List Node) :
    (run [.fb (some [(c, false), (c, true)]) body]).panic = some .borrowMutError := by
  rw [run_panic_eq]
  have hc : compatible [(c, false)] c true = false :=
    compatible_eq_false_iff.mpr ⟨(c, false), by simp, rfl, rfl⟩
  simp [compileList, compile, nest, panicList, panicOne, compatible_nil, hc]

theorem find_same_column_twice_shared_ok (c : CellId) :
    (run [.fb (some [(c, false), (c, false)]) []]).panic = none := by
  rw [run_panic_eq]
  have hc : compatible [(c, false)] c false = true :=
    compatible_false_iff.mpr (by simp)
  simp [compileList, compile, nest, panicList, panicOne, compatible_nil, hc]

/-! ## 5. Non-vacuity -/

namespace Examples

/-- A non-idle state satisfying the hypotheses `Abs cs held` / `exclusive held` of the headline
theorems: two shared guards on cell (0,0) and a mutable guard on cell (1,0) outstanding. -/
def exCells : Cells := [((1, 0), ⟨0, true⟩), ((0, 0), ⟨2, false⟩)]
def exHeld : Held := [((1, 0), true), ((0, 0), false), ((0, 0), false)]

example : exclusive exHeld = true := by decide

theorem exAbs : Abs exCells exHeld := by
  have h1 : Abs [((0, 0), ⟨1, false⟩)] [((0, 0), false)] :=
    tryBorrow_abs (c := (0, 0)) (m := false) Abs_nil (by decide)
  have h2 : Abs [((0, 0), ⟨2, false⟩)] [((0, 0), false), ((0, 0), false)] :=
    tryBorrow_abs (c := (0, 0)) (m := false) h1 (by decide)
  exact tryBorrow_abs (c := (1, 0)) (m := true) h2 (by decide)

-- the single-guard corollaries instantiated in that state
example : (execOne exCells [] (.guard (0, 0) false [.ev "r"])).panic = none :=
  shared_shared_no_panic [] (0, 0) [.ev "r"] exAbs (by decide) (by decide) (by decide)
example : (execOne exCells [] (.guard (0, 1) true [.ev "w"])).panic = none :=
  guard_other_cell_no_panic [] (0, 1) true [.ev "w"] exAbs (by decide) (by decide) (by decide)
example : execOne exCells [] (.guard (0, 0) true [.ev "w"]) =
    ⟨exCells, [], some .borrowMutError⟩ :=
  (mut_conflicts [] (0, 0) true [.ev "w"] exAbs ((0, 0), false) (by decide) rfl rfl).2
example : execOne exCells [] (.guard (1, 0) false [.ev "r"]) =
    ⟨exCells, [], some .borrowError⟩ :=
  (mut_conflicts [] (1, 0) false [.ev "r"] exAbs ((1, 0), true) (by decide) rfl rfl).2
example : (execList exCells [] (compile (.cl [[(0, 0)], [(1, 0), (1, 1)]]))).panic =
    some .borrowError := by
  rw [clone_panic_eq [] _ exAbs (by decide)]; decide
example : (execList exCells [] (compile (.cl [[(0, 0)], [(1, 1)]]))).panic = none := by
  rw [clone_panic_eq [] _ exAbs (by decide)]; decide

/-- Three levels: shared (0,0) > mutable (0,1) > shared (0,0) again; then a sibling. -/
def ex3 : Acc :=
  .guard (0, 0) false [.guard (0, 1) true [.guard (0, 0) false [.ev "in"]], .ev "after"]

example : okOne [] ex3 = true := by decide
example : (execOne [] [] ex3).panic = none := by decide
example : (execOne [] [] ex3).trace = ["in", "after"] := by decide
example : (execOne [] [] ex3).cells.idle = true := by decide
example : (statesOne [] [] ex3).length = 6 := by decide
example : (statesOne [] [] ex3).map (fun s => (s.get (0, 0), s.get (0, 1))) =
    [(⟨1, false⟩, ⟨0, false⟩), (⟨1, false⟩, ⟨0, true⟩), (⟨2, false⟩, ⟨0, true⟩),
     (⟨1, false⟩, ⟨0, true⟩), (⟨1, false⟩, ⟨0, false⟩), (⟨0, false⟩, ⟨0, false⟩)] := by
  decide

/-- `mut` inside `shared` on the same cell: `BorrowMutError`, cells restored by unwinding,
nothing after the refused access runs. -/
def exConflict : Acc :=
  .guard (0, 0) false [.ev "a", .guard (0, 1) true [.guard (0, 0) true [.ev "never"]], .ev "never2"]

example : okOne [] exConflict = false := by decide
example : (execOne [] [] exConflict).panic = some .borrowMutError := by decide
example : (execOne [] [] exConflict).trace = ["a"] := by decide
example : (execOne [] [] exConflict).cells.idle = true := by decide
example : (execOne [] [] exConflict).cells.get (0, 0) = ⟨0, false⟩ ∧
    (execOne [] [] exConflict).cells.get (0, 1) = ⟨0, false⟩ := by decide

/-- `shared` inside `mut` on the same cell: `BorrowError`. -/
example : (execOne [] [] (.guard (2, 0) true [.guard (2, 0) false [.ev "never"]])).panic =
    some .borrowError := by decide

/-- Sibling accesses after a released mutable guard succeed (mutable, shared, mutable). -/
def exSiblings : List Acc :=
  [.guard (0, 0) true [.ev "w1"], .guard (0, 0) false [.guard (0, 0) false [.ev "r"]],
   .guard (0, 0) true [.ev "w2"]]

example : okList [] exSiblings = true := by decide
example : (execList [] [] exSiblings).panic = none := by decide
example : (execList [] [] exSiblings).trace = ["w1", "r", "w2"] := by decide
example : (execList [] [] exSiblings).cells.idle = true := by decide

/-- ... and also after a panic was unwound (the driver continues with the same cells). -/
example : (execList (execOne [] [] exConflict).cells [] exSiblings).panic = none := by decide

/-- High level: iterating mutably over two entities of one archetype (guards are re-acquired
per closure call), cloning inside a shared borrow, cloning inside a mutable borrow. -/
example : (run [.ib [[((0, 0), true), ((0, 1), false)], [((0, 0), true), ((0, 1), false)]] []]).panic
    = none := by decide
example : (run [.bs 0 0 false [.cl [[(0, 0), (0, 1)]]]]).panic = none := by decide
example : (run [.bs 0 0 true [.cl [[(0, 0), (0, 1)]]]]).panic = some .borrowError := by decide
example : (run [.bs 0 0 true [.cl [[(0, 0), (0, 1)]]]]).trace = ["bs+"] := by decide
example : (run [.bs 0 0 true [.bs 1 0 true [.bc 0 1 true true []]], .bs 0 0 true []]).panic
    = none := by decide
example : (run [.ib [[((0, 0), true)]] [.fb (some [((0, 0), false)]) []]]).panic
    = some .borrowError := by decide

end Examples

#print axioms tryBorrow_iff
#print axioms release_abs
#print axioms execOne_spec
#print axioms execList_spec
#print axioms exec_released
#print axioms execList_released
#print axioms exec_cells_restored
#print axioms exec_panic_eq
#print axioms exec_panics_iff
#print axioms execList_panics_iff
#print axioms trace_prefix
#print axioms traceList_prefix
#print axioms guard_other_cell_ok
#print axioms shared_shared_ok
#print axioms mut_conflicts
#print axioms later_access_not_refused
#print axioms never_writer_and_reader
#print axioms at_most_one_writer
#print axioms exclusive_iff_pairwise
#print axioms exec_exclusive
#print axioms execList_exclusive
#print axioms exec_no_alias
#print axioms execList_no_alias
#print axioms statesOne_last
#print axioms okList_nest
#print axioms panicList_nest
#print axioms run_panics_iff
#print axioms run_released
#print axioms run_idle
#print axioms run_no_alias
#print axioms clone_panic_eq
#print axioms clone_panics_iff_writer
#print axioms clone_panics_iff_writer_flag
#print axioms clone_under_mut_slice_panics
#print axioms bs_empty_archetype_still_borrows
#print axioms bs_nested_same_column_panics
#print axioms ib_empty_acquires_nothing
#print axioms fb_panics_iff
#print axioms fb_two_guards_conflict
#print axioms find_same_column_twice_mut
#print axioms find_same_column_shared_then_mut

end Gecs.Borrow
