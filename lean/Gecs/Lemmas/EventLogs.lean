/-
C17 (storage half) — the event logs of one storage.

`created` / `destroyed` are, with the `events` feature, exactly the handles created / removed
by the labelled steps since the last `clear_events`, in order; without the feature they are
never written.  `clear_events` touches nothing but the two logs.

A refused operation (stale handle, full `push_within_capacity`, panic) is not an `LStep` — every
constructor of `LStep` carries the successful outcome of the operation — so it contributes no
label and hence no log entry.
-/
import Gecs.Lemmas.Values

namespace Gecs
variable {α : Type}

/-- One label on the created-log. -/
def logCStep (acc : List Ent) : Lbl α → List Ent
  | .created e _ => acc ++ [e]
  | .clear => []
  | _ => acc

/-- One label on the destroyed-log. -/
def logDStep (acc : List Ent) : Lbl α → List Ent
  | .destroyed t _ => acc ++ [t]
  | .clear => []
  | _ => acc

/-- The created-log after the labels `L`, starting from `init`. -/
def logC (init : List Ent) (L : List (Lbl α)) : List Ent := L.foldl logCStep init

/-- The destroyed-log after the labels `L`, starting from `init`. -/
def logD (init : List Ent) (L : List (Lbl α)) : List Ent := L.foldl logDStep init

def Lbl.isClear : Lbl α → Bool
  | .clear => true
  | _ => false

/-- Does `L` contain a `clear_events`? -/
def hasClear (L : List (Lbl α)) : Bool := L.any Lbl.isClear

/-- The handles created by `L`, in order. -/
def createdOf (L : List (Lbl α)) : List Ent :=
  L.filterMap (fun l => match l with | .created e _ => some e | _ => none)

/-- The handles destroyed by `L`, in order. -/
def destroyedOf (L : List (Lbl α)) : List Ent :=
  L.filterMap (fun l => match l with | .destroyed t _ => some t | _ => none)

/-! ## One step -/

theorem lstep_logs {cfg : Cfg} {s s' : Storage α} {l : Lbl α} (h : Inv cfg s)
    (st : LStep cfg s l s') :
    s'.created = (if cfg.events then logCStep s.created l
        else if l.isClear then [] else s.created)
    ∧ s'.destroyed = (if cfg.events then logDStep s.destroyed l
        else if l.isClear then [] else s.destroyed) := by
  cases l with
  | created e row =>
    obtain ⟨_, _, _, _, _, _, hc, hd⟩ := lstep_created h st
    rw [hc, hd]; cases cfg.events <;> exact ⟨rfl, rfl⟩
  | destroyed t row =>
    obtain ⟨_, _, _, _, _, _, _, hc, hd⟩ := lstep_destroyed h st
    rw [hc, hd]; cases cfg.events <;> exact ⟨rfl, rfl⟩
  | write d c x => cases st; cases cfg.events <;> exact ⟨rfl, rfl⟩
  | clear => cases st; cases cfg.events <;> exact ⟨rfl, rfl⟩
  | clone cl => cases st; cases cfg.events <;> exact ⟨rfl, rfl⟩

/-- `clear_events` changes the two logs and nothing else. -/
theorem clear_only_logs (s : Storage α) :
    (clearEvents s).ents = s.ents ∧ (clearEvents s).cols = s.cols
      ∧ (clearEvents s).slots = s.slots ∧ (clearEvents s).len = s.len
      ∧ (clearEvents s).capacity = s.capacity ∧ (clearEvents s).version = s.version
      ∧ (clearEvents s).freeHead = s.freeHead
      ∧ (clearEvents s).created = [] ∧ (clearEvents s).destroyed = [] :=
  ⟨rfl, rfl, rfl, rfl, rfl, rfl, rfl, rfl, rfl⟩

/-! ## Along a path -/

/-- With the `events` feature the logs are the folds of the labels. -/
theorem lreach_logs_on {cfg : Cfg} {s s' : Storage α} {L : List (Lbl α)}
    (hev : cfg.events = true) (r : LReach cfg s L s') :
    s'.created = logC s.created L ∧ s'.destroyed = logD s.destroyed L := by
  induction r with
  | refl => exact ⟨rfl, rfl⟩
  | step r hi st ih =>
    obtain ⟨h1, h2⟩ := lstep_logs hi st
    rw [hev, if_pos rfl] at h1 h2
    unfold logC logD
    rw [List.foldl_append, List.foldl_append]
    exact ⟨by rw [h1, ih.1]; rfl, by rw [h2, ih.2]; rfl⟩

/-- Without the `events` feature nothing is ever logged: the logs keep their initial contents
until the first `clear_events` and are empty afterwards. -/
theorem lreach_logs_off {cfg : Cfg} {s s' : Storage α} {L : List (Lbl α)}
    (hev : cfg.events = false) (r : LReach cfg s L s') :
    s'.created = (if hasClear L then [] else s.created)
    ∧ s'.destroyed = (if hasClear L then [] else s.destroyed) := by
  induction r with
  | refl => exact ⟨rfl, rfl⟩
  | @step s₁ s₂ L₁ l r hi st ih =>
    obtain ⟨h1, h2⟩ := lstep_logs hi st
    rw [hev] at h1 h2
    simp only [Bool.false_eq_true, if_false] at h1 h2
    have hc : hasClear (L₁ ++ [l]) = (hasClear L₁ || l.isClear) := by simp [hasClear]
    rw [hc, h1, h2, ih.1, ih.2]
    cases l.isClear <;> cases hasClear L₁ <;> exact ⟨rfl, rfl⟩

/-- In particular: no clear, no feature — the logs are unchanged; and logs that start empty
stay empty. -/
theorem lreach_logs_off_noclear {cfg : Cfg} {s s' : Storage α} {L : List (Lbl α)}
    (hev : cfg.events = false) (hnc : hasClear L = false) (r : LReach cfg s L s') :
    s'.created = s.created ∧ s'.destroyed = s.destroyed := by
  have := lreach_logs_off hev r
  rw [hnc] at this; exact this

theorem lreach_logs_off_empty {cfg : Cfg} {s s' : Storage α} {L : List (Lbl α)}
    (hev : cfg.events = false) (hc : s.created = []) (hd : s.destroyed = [])
    (r : LReach cfg s L s') : s'.created = [] ∧ s'.destroyed = [] := by
  have := lreach_logs_off hev r
  rw [hc, hd] at this
  simpa using this

/-! ## Folding the logs -/

theorem logC_noclear (init : List Ent) (L : List (Lbl α)) (hnc : hasClear L = false) :
    logC init L = init ++ createdOf L := by
  induction L generalizing init with
  | nil => simp [logC, createdOf]
  | cons l L ih =>
    have h1 : l.isClear = false ∧ hasClear L = false := by
      simpa [hasClear] using hnc
    have := ih (logCStep init l) h1.2
    unfold logC at this ⊢
    rw [List.foldl_cons, this]
    cases l with
    | clear => simp [Lbl.isClear] at h1
    | created e row => simp [logCStep, createdOf]
    | destroyed t row => simp [logCStep, createdOf]
    | write d c x => simp [logCStep, createdOf]
    | clone cl => simp [logCStep, createdOf]

theorem logD_noclear (init : List Ent) (L : List (Lbl α)) (hnc : hasClear L = false) :
    logD init L = init ++ destroyedOf L := by
  induction L generalizing init with
  | nil => simp [logD, destroyedOf]
  | cons l L ih =>
    have h1 : l.isClear = false ∧ hasClear L = false := by
      simpa [hasClear] using hnc
    have := ih (logDStep init l) h1.2
    unfold logD at this ⊢
    rw [List.foldl_cons, this]
    cases l with
    | clear => simp [Lbl.isClear] at h1
    | created e row => simp [logDStep, destroyedOf]
    | destroyed t row => simp [logDStep, destroyedOf]
    | write d c x => simp [logDStep, destroyedOf]
    | clone cl => simp [logDStep, destroyedOf]

theorem logC_after_clear (init : List Ent) (L₁ L₂ : List (Lbl α)) :
    logC init (L₁ ++ [.clear] ++ L₂) = logC [] L₂ := by
  unfold logC
  rw [List.foldl_append, List.foldl_append]; rfl

theorem logD_after_clear (init : List Ent) (L₁ L₂ : List (Lbl α)) :
    logD init (L₁ ++ [.clear] ++ L₂) = logD [] L₂ := by
  unfold logD
  rw [List.foldl_append, List.foldl_append]; rfl

/-- C17, storage half: after a `clear_events` followed by clear-free labels `L₂`, the created
log is exactly the handles created by `L₂`, in order, and the destroyed log exactly the handles
destroyed by `L₂`, in order — whatever happened before the clear. -/
theorem logs_since_clear {cfg : Cfg} {s s' : Storage α} {L₁ L₂ : List (Lbl α)}
    (hev : cfg.events = true) (hnc : hasClear L₂ = false)
    (r : LReach cfg s (L₁ ++ [.clear] ++ L₂) s') :
    s'.created = createdOf L₂ ∧ s'.destroyed = destroyedOf L₂ := by
  obtain ⟨h1, h2⟩ := lreach_logs_on hev r
  rw [h1, h2, logC_after_clear, logD_after_clear, logC_noclear _ _ hnc, logD_noclear _ _ hnc]
  exact ⟨rfl, rfl⟩

/-- Without an intervening clear the logs grow by the handles of the path. -/
theorem logs_noclear {cfg : Cfg} {s s' : Storage α} {L : List (Lbl α)}
    (hev : cfg.events = true) (hnc : hasClear L = false) (r : LReach cfg s L s') :
    s'.created = s.created ++ createdOf L ∧ s'.destroyed = s.destroyed ++ destroyedOf L := by
  obtain ⟨h1, h2⟩ := lreach_logs_on hev r
  rw [h1, h2, logC_noclear _ _ hnc, logD_noclear _ _ hnc]
  exact ⟨rfl, rfl⟩

/-! ## Non-vacuity on the path of `Values.lean` (`cfgEx` has `events = true`) -/
namespace StorageEx

example : (clearEvents pathEx3).created = [] ∧ (clearEvents pathEx3).destroyed = [] := by
  have := lreach_logs_on (cfg := cfgEx) rfl pathEx_reach
  exact ⟨by rw [this.1]; decide, by rw [this.2]; decide⟩

/-- The first three steps of the path: creation, write, removal. -/
theorem pathEx_reach3 : LReach cfgEx holeEx
    [.created ⟨1, 2⟩ [13, 23], .write 2 1 77, .destroyed ⟨0, 1⟩ [10, 20]] pathEx3 := by
  have i1 := lstep_inv holeEx_inv pathEx_step1
  have i2 := lstep_inv i1 pathEx_step2
  exact .step (.step (.step (.refl _) holeEx_inv pathEx_step1) i1 pathEx_step2) i2 pathEx_step3

example : pathEx3.created = [⟨1, 2⟩] ∧ pathEx3.destroyed = [⟨0, 1⟩] := by
  have := logs_noclear (cfg := cfgEx) rfl (by decide) pathEx_reach3
  exact this

/-- After the clear of `pathExL`, one more creation (the freed slot 0, next generation). -/
def pathEx5 : Storage Nat :=
  ⟨3, 3, 3, .freeEnd, [⟨.data 2, 2⟩, ⟨.data 0, 2⟩, ⟨.data 1, 1⟩], [⟨1, 2⟩, ⟨2, 1⟩, ⟨0, 2⟩],
    [[13, 12, 14], [77, 22, 24]], [⟨0, 2⟩], []⟩

theorem pathEx_step5 : LStep cfgEx (clearEvents pathEx3) (.created ⟨0, 2⟩ [14, 24]) pathEx5 :=
  .pushWithin _ _ _ _ rfl

theorem pathEx_reach5 : LReach cfgEx holeEx
    ([.created ⟨1, 2⟩ [13, 23], .write 2 1 77, .destroyed ⟨0, 1⟩ [10, 20]] ++ [.clear]
      ++ [.created ⟨0, 2⟩ [14, 24]]) pathEx5 :=
  .step pathEx_reach (lockstep holeEx_inv pathEx_reach) pathEx_step5

example : pathEx5.created = [⟨0, 2⟩] ∧ pathEx5.destroyed = [] :=
  logs_since_clear (cfg := cfgEx) rfl (by decide) pathEx_reach5

/-- The same storage under a configuration without the `events` feature. -/
def cfgNoEv : Cfg := ⟨8, 5, false, false, true⟩

theorem holeEx_inv_noEv : Inv cfgNoEv holeEx := { holeEx_inv with }

example : ∃ s', LReach cfgNoEv holeEx [.created ⟨1, 2⟩ [13, 23]] s'
    ∧ s'.created = [] ∧ s'.destroyed = [] := by
  have st : LStep cfgNoEv holeEx (.created ⟨1, 2⟩ [13, 23]) { pathEx1 with created := [] } :=
    .pushWithin _ _ _ _ rfl
  have r := LReach.step (.refl _) holeEx_inv_noEv st
  exact ⟨_, r, lreach_logs_off_empty (cfg := cfgNoEv) rfl rfl rfl r⟩

end StorageEx
end Gecs

section
open Gecs
#print axioms lstep_logs
#print axioms clear_only_logs
#print axioms lreach_logs_on
#print axioms lreach_logs_off
#print axioms lreach_logs_off_noclear
#print axioms lreach_logs_off_empty
#print axioms logC_noclear
#print axioms logD_noclear
#print axioms logs_since_clear
#print axioms logs_noclear
end
