/-
The six `StorageCanResolve` methods, run from their extracted statements (with the lookups and
`force_destroy` run from theirs), are the model's `resolveForEnt`, `toDirectEnt`, `destroyEnt`,
`resolveForDirect`, `toDirectDirect`, `destroyDirect` in every invariant state, for every key.
-/
import Gecs.Lemmas.GenStepsApi
import Gecs.Lemmas.GenResolve

set_option linter.unusedSimpArgs false

namespace Gecs

variable {α : Type}

def Gen.lookups : Lookups :=
  { slots := Gen.slotBodies, resolveEntity := Gen.resolveEntitySteps, resolveDirect := Gen.resolveDirectSteps,
    destroy := Gen.forceDestroySteps }

theorem gen_keys_resolve_for_ent (cfg : Cfg) (s : Storage α) (e : Ent) (hle : s.len ≤ s.capacity) :
    execKey cfg Gen.lookups Gen.entResolveFor s (.ent e) = (resolveForEnt cfg s e).mapSome .dense := by
  unfold execKey Gen.entResolveFor resolveForEnt Gen.lookups
  simp only [runW, lookupEntity, gen_steps_resolve_entity cfg s e hle]
  cases hr : resolveEntity cfg s e with
  | ok r u =>
    cases r with
    | none => simp [Out.mapSome]
    | some p =>
      obtain ⟨si, d⟩ := p
      by_cases h1 : s.len ≤ cfg.maxCap <;> by_cases h2 : d ≤ s.len <;> cases hdbg : cfg.debug <;>
        simp [runW, Out.mapSome, h1, h2, hdbg]
  | panic m u => simp [Out.mapSome]
  | ub m => simp [Out.mapSome]

theorem gen_keys_resolve_for_direct (cfg : Cfg) (s : Storage α) (d v : Nat) (hle : s.len ≤ s.capacity) :
    execKey cfg Gen.lookups Gen.dirResolveFor s (.direct d v) = (resolveForDirect cfg s d v).mapSome .dense := by
  unfold execKey Gen.dirResolveFor resolveForDirect Gen.lookups
  simp only [runW, lookupDirect, gen_steps_resolve_direct cfg s d v hle]
  cases hr : resolveDirect cfg s d v with
  | ok r u =>
    cases r with
    | none => simp [Out.mapSome]
    | some p =>
      obtain ⟨si, d'⟩ := p
      by_cases h1 : s.len ≤ cfg.maxCap <;> by_cases h2 : d' ≤ s.len <;> cases hdbg : cfg.debug <;>
        simp [runW, Out.mapSome, h1, h2, hdbg]
  | panic m u => simp [Out.mapSome]
  | ub m => simp [Out.mapSome]

theorem gen_keys_to_direct_ent (cfg : Cfg) (s : Storage α) (e : Ent) (hle : s.len ≤ s.capacity) :
    execKey cfg Gen.lookups Gen.entToDirect s (.ent e)
      = (toDirectEnt cfg s e).mapSome (fun p => .direct p.1 p.2) := by
  unfold execKey Gen.entToDirect toDirectEnt Gen.lookups
  simp only [runW, lookupEntity, gen_steps_resolve_entity cfg s e hle]
  cases hr : resolveEntity cfg s e with
  | ok r u => cases r with
    | none => simp [Out.mapSome]
    | some p => obtain ⟨si, d⟩ := p; simp [runW, Out.mapSome]
  | panic m u => simp [Out.mapSome]
  | ub m => simp [Out.mapSome]

/-- The repaired `to_direct(EntityDirect)` (F4): validated, and handed back unchanged. -/
theorem gen_keys_to_direct_direct (cfg : Cfg) (s : Storage α) (d v : Nat) (hle : s.len ≤ s.capacity) :
    execKey cfg Gen.lookups Gen.dirToDirect s (.direct d v)
      = (toDirectDirect cfg s d v).mapSome (fun p => .direct p.1 p.2) := by
  unfold execKey Gen.dirToDirect toDirectDirect Gen.lookups
  simp only [runW, lookupDirect, gen_steps_resolve_direct cfg s d v hle]
  cases hr : resolveDirect cfg s d v with
  | ok r u => cases r with
    | none => simp [Out.mapSome]
    | some p => simp [Out.mapSome]
  | panic m u => simp [Out.mapSome]
  | ub m => simp [Out.mapSome]

private theorem same_mapSome {σ β γ : Type} (f : β → γ) {a b : Out σ (Option β)} (h : Out.same a b) :
    Out.same (a.mapSome f) (b.mapSome f) := by
  cases a <;> cases b <;> simp_all [Out.same, Out.mapSome]

theorem gen_keys_destroy_ent (cfg : Cfg) (s : Storage α) (e : Ent) (h : Inv cfg s) :
    Out.same (execKey cfg Gen.lookups Gen.entDestroy s (.ent e)) ((destroyEnt cfg s e).mapSome .comps) := by
  have hS := same_mapSome (WVal.comps (α := α)) (gen_steps_destroy_ent cfg s e h)
  have : execKey cfg Gen.lookups Gen.entDestroy s (.ent e) = (destroyEntS cfg s e).mapSome .comps := by
    unfold execKey Gen.entDestroy destroyEntS Gen.lookups
    simp only [runW, lookupEntity, destroyAt, gen_steps_resolve_entity cfg s e h.lenCap]
    cases hr : resolveEntity cfg s e with
    | ok r u => cases r with
      | none => simp [Out.mapSome]
      | some p =>
        obtain ⟨si, d⟩ := p
        simp only []
        cases execDestroy cfg Gen.slotBodies Gen.forceDestroySteps s si d <;> simp [Out.mapSome]
    | panic m u => simp [Out.mapSome]
    | ub m => simp [Out.mapSome]
  rw [this]; exact hS

theorem gen_keys_destroy_direct (cfg : Cfg) (s : Storage α) (d v : Nat) (h : Inv cfg s) :
    Out.same (execKey cfg Gen.lookups Gen.dirDestroy s (.direct d v)) ((destroyDirect cfg s d v).mapSome .comps) := by
  have hS := same_mapSome (WVal.comps (α := α)) (gen_steps_destroy_direct cfg s d v h)
  have : execKey cfg Gen.lookups Gen.dirDestroy s (.direct d v) = (destroyDirectS cfg s d v).mapSome .comps := by
    unfold execKey Gen.dirDestroy destroyDirectS Gen.lookups
    simp only [runW, lookupDirect, destroyAt, gen_steps_resolve_direct cfg s d v h.lenCap]
    cases hr : resolveDirect cfg s d v with
    | ok r u => cases r with
      | none => simp [Out.mapSome]
      | some p =>
        obtain ⟨si, d'⟩ := p
        simp only []
        cases execDestroy cfg Gen.slotBodies Gen.forceDestroySteps s si d' <;> simp [Out.mapSome]
    | panic m u => simp [Out.mapSome]
    | ub m => simp [Out.mapSome]
  rw [this]; exact hS

end Gecs
