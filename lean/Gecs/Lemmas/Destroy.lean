/-
`StorageN::force_destroy` (repaired statement order) preserves the representation invariant;
its two overflow panics leave the state untouched.
-/
import Gecs.Lemmas.Inv
import Gecs.Lemmas.SwapRemove
import Gecs.Lemmas.Create

namespace Gecs
variable {α : Type}

theorem nextVer_bounds {cfg : Cfg} {v w : Nat} (h : nextVer cfg v = some w)
    (hv : 1 ≤ v ∧ v ≤ cfg.vmax) : 1 ≤ w ∧ w ≤ cfg.vmax := by
  unfold nextVer at h
  split at h
  · cases h; omega
  · split at h
    · cases h; simp only [VERSION_START]; omega
    · cases h

/-- The column-validity guard of `force_destroy` / `readRow` under `colsLen`. -/
theorem cols_any_ne_false (cols : List (List α)) (n : Nat) (h : ∀ c ∈ cols, c.length = n) :
    cols.any (fun c => c.length != n) = false := by
  rw [List.any_eq_false]
  intro c hc; simp [h c hc]

/-- Reading row `d < n` out of columns of length `n` yields one value per column. -/
theorem filterMap_getElem?_length (cols : List (List α)) (d n : Nat)
    (h : ∀ c ∈ cols, c.length = n) (hd : d < n) :
    (cols.filterMap (fun c => c[d]?)).length = cols.length := by
  induction cols with
  | nil => rfl
  | cons c cs ih =>
    have hc : d < c.length := by rw [h c List.mem_cons_self]; exact hd
    have : c[d]? = some c[d] := List.getElem?_eq_getElem hc
    rw [List.filterMap_cons, this]
    simp only [List.length_cons]
    rw [ih (fun c' hc' => h c' (List.mem_cons_of_mem _ hc'))]

/-- What `forceDestroy` computes on a valid `(slot, dense)` pair: all lookups succeed, the
result only depends on the two `nextVer` outcomes. -/
theorem forceDestroy_eq (cfg : Cfg) (s : Storage α) (si d v : Nat) (h : Inv cfg s)
    (hsl : s.slots[si]? = some ⟨.data d, v⟩) :
    ∃ lastE : Ent, s.ents[s.len - 1]? = some lastE
      ∧ s.slots[lastE.slot]? = some ⟨.data (s.len - 1), lastE.ver⟩
      ∧ s.ents[d]? = some ⟨si, v⟩ ∧ d < s.len
      ∧ forceDestroy cfg s si d =
        (match nextVer cfg v, nextVer cfg s.version with
        | none, _ => .panic "slot version overflow" s
        | some _, none => .panic "arch version overflow" s
        | some sv, some av =>
          .ok (s.cols.filterMap (fun c => c[d]?)) { s with
            ents := swapRemove s.ents d
            cols := s.cols.map (fun c => swapRemove c d)
            slots := (s.slots.set lastE.slot ⟨.data d, lastE.ver⟩).set si ⟨s.freeHead, sv⟩
            version := av
            freeHead := .free si
            len := s.len - 1
            destroyed := if cfg.events then s.destroyed ++ [⟨si, v⟩] else s.destroyed }) := by
  have hent := h.sparse si d v hsl
  have hd : d < s.ents.length := (List.getElem?_eq_some_iff.mp hent).1
  have hdl : d < s.len := h.entsLen ▸ hd
  have hlastlt : s.len - 1 < s.ents.length := by rw [h.entsLen]; omega
  obtain ⟨lastE, hlast⟩ : ∃ e, s.ents[s.len - 1]? = some e :=
    ⟨s.ents[s.len - 1], by simp [hlastlt]⟩
  have hlastSlot := h.dense _ _ hlast
  refine ⟨lastE, hlast, hlastSlot, hent, hdl, ?_⟩
  have hg : ¬ (s.ents.length ≠ s.len ∨ d ≥ s.len
      ∨ (s.cols.any (fun c => c.length != s.len)) = true) := by
    rw [cols_any_ne_false s.cols s.len h.colsLen]
    simp [h.entsLen, hdl]
  unfold forceDestroy
  rw [if_neg hg]
  simp only [hsl, hent, hlast]
  cases nextVer cfg v with
  | none => rfl
  | some sv =>
    cases nextVer cfg s.version with
    | none => rfl
    | some av => simp only [hlastSlot]

theorem forceDestroy_slot_overflow (cfg : Cfg) (s : Storage α) (si d v : Nat) (h : Inv cfg s)
    (hsl : s.slots[si]? = some ⟨.data d, v⟩) (hsv : nextVer cfg v = none) :
    forceDestroy cfg s si d = .panic "slot version overflow" s := by
  obtain ⟨_, _, _, _, _, heq⟩ := forceDestroy_eq cfg s si d v h hsl
  rw [heq, hsv]

theorem forceDestroy_arch_overflow (cfg : Cfg) (s : Storage α) (si d v : Nat) (h : Inv cfg s)
    (hsl : s.slots[si]? = some ⟨.data d, v⟩) (sv : Nat) (hsv : nextVer cfg v = some sv)
    (hav : nextVer cfg s.version = none) :
    forceDestroy cfg s si d = .panic "arch version overflow" s := by
  obtain ⟨_, _, _, _, _, heq⟩ := forceDestroy_eq cfg s si d v h hsl
  rw [heq, hsv, hav]

theorem forceDestroy_inv (cfg : Cfg) (s : Storage α) (si d v : Nat) (h : Inv cfg s)
    (hsl : s.slots[si]? = some ⟨.data d, v⟩)
    (sv av : Nat) (hsv : nextVer cfg v = some sv) (hav : nextVer cfg s.version = some av) :
    ∃ row s', forceDestroy cfg s si d = .ok row s' ∧ Inv cfg s'
      ∧ row = s.cols.filterMap (·[d]?) ∧ row.length = s.cols.length
      ∧ s'.len = s.len - 1 ∧ s'.capacity = s.capacity ∧ s'.version = av
      ∧ s'.ents = swapRemove s.ents d
      ∧ s'.cols = s.cols.map (fun c => swapRemove c d)
      ∧ s'.slots[si]? = some ⟨s.freeHead, sv⟩
      ∧ (∀ (i : Nat) (sl : Slot), i ≠ si → s.slots[i]? = some sl →
          ∃ sl' : Slot, s'.slots[i]? = some sl' ∧ sl'.ver = sl.ver)
      ∧ s'.created = s.created
      ∧ s'.destroyed = (if cfg.events then s.destroyed ++ [⟨si, v⟩] else s.destroyed) := by
  obtain ⟨lastE, hlast, hlastSlot, hent, hdl, heq⟩ := forceDestroy_eq cfg s si d v h hsl
  rw [hsv, hav] at heq
  have hd : d < s.ents.length := (List.getElem?_eq_some_iff.mp hent).1
  have hsi : si < s.slots.length := (List.getElem?_eq_some_iff.mp hsl).1
  have hls : lastE.slot < s.slots.length := (List.getElem?_eq_some_iff.mp hlastSlot).1
  obtain ⟨L, hc, hnd, hlen⟩ := h.chain
  have hsiL : si ∉ L := by
    intro hm; obtain ⟨sl, h1, h2⟩ := hc.mem_free si hm
    rw [hsl] at h1; cases h1; simp [SIdx.isFree] at h2
  have hlsL : lastE.slot ∉ L := by
    intro hm; obtain ⟨sl, h1, h2⟩ := hc.mem_free _ hm
    rw [hlastSlot] at h1; cases h1; simp [SIdx.isFree] at h2
  -- key fact: slot identity <-> dense identity
  have slot_inj : ∀ (j : Nat) (e : Ent), s.ents[j]? = some e → (e.slot = si ↔ j = d) := by
    intro j e he
    have := h.dense j e he
    constructor
    · intro heq; rw [heq, hsl] at this; cases this; rfl
    · intro heq; subst heq; rw [hent] at he; cases he; rfl
  have slot_inj_last : ∀ (j : Nat) (e : Ent), s.ents[j]? = some e →
      (e.slot = lastE.slot ↔ j = s.len - 1) := by
    intro j e he
    have := h.dense j e he
    constructor
    · intro heq; rw [heq, hlastSlot] at this
      have := congrArg Slot.idx (Option.some.inj this); simp at this; exact this.symm
    · intro heq; subst heq; rw [hlast] at he; cases he; rfl
  refine ⟨_, _, heq, ?_, rfl, ?_, rfl, rfl, rfl, rfl, rfl, ?_, ?_, rfl, rfl⟩
  · constructor
    · simp [h.slotsLen]
    · simp [swapRemove_length, h.entsLen]
    · intro c hc
      simp only [List.mem_map] at hc
      obtain ⟨c0, hc0, rfl⟩ := hc
      rw [swapRemove_length, h.colsLen c0 hc0]
    · simp; have := h.lenCap; omega
    · exact h.capMax
    · -- dense
      intro j e he
      simp only at he ⊢
      rw [swapRemove_getElem? _ _ _ hd, h.entsLen] at he
      split at he
      · rename_i hj
        split at he
        · rename_i hjd
          subst hjd
          rw [hlast] at he; cases he
          have hne : lastE.slot ≠ si := by
            intro heq; have := (slot_inj _ _ hlast).mp heq; omega
          rw [List.getElem?_set_ne (Ne.symm hne)]
          simp [hls]
        · rename_i hjd
          have hold := h.dense j e he
          have h1 : e.slot ≠ si := fun heq => hjd ((slot_inj _ _ he).mp heq)
          have h2 : e.slot ≠ lastE.slot := fun heq => by
            have := (slot_inj_last _ _ he).mp heq; omega
          rw [List.getElem?_set_ne (Ne.symm h1), List.getElem?_set_ne (Ne.symm h2)]
          exact hold
      · cases he
    · -- sparse
      intro i d' v' hi
      simp only at hi ⊢
      have hfree := hc.head_isFree
      by_cases hisi : si = i
      · subst hisi
        simp [hsi] at hi
        rw [hi.1] at hfree; simp [SIdx.isFree] at hfree
      · rw [List.getElem?_set_ne hisi] at hi
        rw [swapRemove_getElem? _ _ _ hd, h.entsLen]
        by_cases hil : lastE.slot = i
        · subst hil
          simp [hls] at hi
          obtain ⟨hdd, hvv⟩ := hi
          subst hdd
          have hdne : d ≠ s.len - 1 := by
            intro heq
            have := (slot_inj _ _ hlast).mpr heq.symm
            exact hisi this.symm
          have : d < s.len - 1 := by omega
          simp [this, hlast, ← hvv]
        · rw [List.getElem?_set_ne hil] at hi
          have hold := h.sparse i d' v' hi
          have hd' : d' < s.ents.length := (List.getElem?_eq_some_iff.mp hold).1
          have h1 : d' ≠ d := by
            intro heq; subst heq
            have := (slot_inj _ _ hold).mpr rfl; exact hisi this.symm
          have h2 : d' ≠ s.len - 1 := by
            intro heq
            have := (slot_inj_last _ _ hold).mpr heq; exact hil this.symm
          have : d' < s.len - 1 := by rw [h.entsLen] at hd'; omega
          simp [this, h1, hold]
    · -- chain
      refine ⟨si :: L, ?_, List.nodup_cons.mpr ⟨hsiL, hnd⟩, ?_⟩
      · refine .cons (sl := ⟨s.freeHead, sv⟩) ?_ hc.head_isFree ?_
        · simp [hsi]
        · exact (hc.set_not_mem _ _ hlsL).set_not_mem _ _ hsiL
      · simp; omega
    · -- verPos
      intro i sl' hi
      simp only at hi
      by_cases hisi : si = i
      · subst hisi
        simp [hsi] at hi; subst hi
        exact nextVer_bounds hsv (h.verPos _ _ hsl)
      · rw [List.getElem?_set_ne hisi] at hi
        by_cases hil : lastE.slot = i
        · subst hil
          simp [hls] at hi; subst hi
          exact h.verPos lastE.slot ⟨.data (s.len - 1), lastE.ver⟩ hlastSlot
        · rw [List.getElem?_set_ne hil] at hi
          exact h.verPos _ _ hi
    · exact nextVer_bounds hav h.archVer
  · exact filterMap_getElem?_length s.cols d s.len h.colsLen hdl
  · simp [hsi]
  · intro i sl hisi hi
    simp only
    rw [List.getElem?_set_ne (Ne.symm hisi)]
    by_cases hil : lastE.slot = i
    · subst hil
      rw [hlastSlot] at hi; cases hi
      exact ⟨⟨.data d, lastE.ver⟩, by simp [hls], rfl⟩
    · rw [List.getElem?_set_ne hil]; exact ⟨sl, hi, rfl⟩

/-- `force_destroy` outcome trichotomy under the invariant: never UB, panics leave the state
unchanged. -/
theorem forceDestroy_cases (cfg : Cfg) (s : Storage α) (si d v : Nat) (h : Inv cfg s)
    (hsl : s.slots[si]? = some ⟨.data d, v⟩) :
    (∃ sv av, nextVer cfg v = some sv ∧ nextVer cfg s.version = some av)
    ∨ forceDestroy cfg s si d = .panic "slot version overflow" s
    ∨ forceDestroy cfg s si d = .panic "arch version overflow" s := by
  cases hsv : nextVer cfg v with
  | none => exact .inr (.inl (forceDestroy_slot_overflow cfg s si d v h hsl hsv))
  | some sv =>
    cases hav : nextVer cfg s.version with
    | none => exact .inr (.inr (forceDestroy_arch_overflow cfg s si d v h hsl sv hsv hav))
    | some av => exact .inl ⟨sv, av, rfl, rfl⟩

/-! Non-vacuity on the 3-slot storage with one hole (`holeEx`, slot 1 free): destroying the
entity in slot 0 (dense index 0) moves the last entity (slot 2) down. -/
namespace StorageEx

example : ∃ row s', forceDestroy cfgEx holeEx 0 0 = .ok row s' ∧ Inv cfgEx s'
    ∧ row = [10, 20] ∧ s'.ents = [⟨2, 1⟩] ∧ s'.version = 3 := by
  obtain ⟨row, s', h1, h2, h3, _, _, _, h7, h8, _⟩ :=
    forceDestroy_inv cfgEx holeEx 0 0 1 holeEx_inv rfl 2 3 (by decide) (by decide)
  refine ⟨row, s', h1, h2, ?_, ?_, h7⟩
  · rw [h3]; decide
  · rw [h8]; decide

/-- Overflow instance: a slot at `vmax` in a non-wrapping configuration. -/
def ovfEx : Storage Nat :=
  ⟨1, 1, 1, .freeEnd, [⟨.data 0, 5⟩], [⟨0, 5⟩], [[7]], [], []⟩

theorem ovfEx_inv : Inv cfgEx ovfEx where
  slotsLen := rfl
  entsLen := rfl
  colsLen := by decide
  lenCap := by decide
  capMax := by decide
  dense := by
    intro d e he
    match d, he with
    | 0, he => cases he; rfl
    | d + 1, he => simp [ovfEx] at he
  sparse := by
    intro i d v hi
    match i, hi with
    | 0, hi => cases hi; rfl
    | i + 1, hi => simp [ovfEx] at hi
  chain := ⟨[], .nil, List.nodup_nil, rfl⟩
  verPos := by
    intro i sl hi
    match i, hi with
    | 0, hi => cases hi; decide
    | i + 1, hi => simp [ovfEx] at hi
  archVer := by decide

example : forceDestroy cfgEx ovfEx 0 0 = .panic "slot version overflow" ovfEx :=
  forceDestroy_slot_overflow cfgEx ovfEx 0 0 5 ovfEx_inv rfl (by decide)

/-- With `wrapping_version` the same destroy succeeds and the generation wraps to 1. -/
def cfgWrap : Cfg := ⟨8, 5, true, true, false⟩

theorem ovfEx_inv_wrap : Inv cfgWrap ovfEx := { ovfEx_inv with }

example : ∃ row s', forceDestroy cfgWrap ovfEx 0 0 = .ok row s' ∧ Inv cfgWrap s'
    ∧ s'.slots[0]? = some ⟨.freeEnd, 1⟩ ∧ s'.destroyed = [⟨0, 5⟩] := by
  obtain ⟨row, s', h1, h2, _, _, _, _, _, _, _, h10, _, _, h13⟩ :=
    forceDestroy_inv cfgWrap ovfEx 0 0 5 ovfEx_inv_wrap rfl 1 2 (by decide) (by decide)
  exact ⟨row, s', h1, h2, h10, h13⟩

/-- Overflow of the archetype version (slot generation still has room). -/
def archOvfEx : Storage Nat :=
  ⟨5, 1, 1, .freeEnd, [⟨.data 0, 1⟩], [⟨0, 1⟩], [[7]], [], []⟩

theorem archOvfEx_inv : Inv cfgEx archOvfEx where
  slotsLen := rfl
  entsLen := rfl
  colsLen := by decide
  lenCap := by decide
  capMax := by decide
  dense := by
    intro d e he
    match d, he with
    | 0, he => cases he; rfl
    | d + 1, he => simp [archOvfEx] at he
  sparse := by
    intro i d v hi
    match i, hi with
    | 0, hi => cases hi; rfl
    | i + 1, hi => simp [archOvfEx] at hi
  chain := ⟨[], .nil, List.nodup_nil, rfl⟩
  verPos := by
    intro i sl hi
    match i, hi with
    | 0, hi => cases hi; decide
    | i + 1, hi => simp [archOvfEx] at hi
  archVer := by decide

example : forceDestroy cfgEx archOvfEx 0 0 = .panic "arch version overflow" archOvfEx :=
  forceDestroy_arch_overflow cfgEx archOvfEx 0 0 1 archOvfEx_inv rfl 2 (by decide) (by decide)

end StorageEx
end Gecs

section
open Gecs
#print axioms nextVer_bounds
#print axioms forceDestroy_eq
#print axioms forceDestroy_inv
#print axioms forceDestroy_slot_overflow
#print axioms forceDestroy_arch_overflow
#print axioms forceDestroy_cases
end
